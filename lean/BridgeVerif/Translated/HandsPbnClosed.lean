import BridgeVerif.Translated.HandsPbn
import BridgeVerif.Lemmas.RegexHands
/-!
# The translated `Hands.convert_pbn` = the model, with the regular-expression hypothesis discharged  (C14, C17)

`Translated/HandsPbn.lean` takes `HandsRegexFacts` as a hypothesis; `Lemmas/RegexHands.lean` proves it (`handsRegexFacts`).
Here it is plugged in: no hypothesis about regular expressions is left.

* `hp_convert_pbn_closed` — for EVERY string `s`: when the model reads a deal (`convertPbn? s = some h`) the translated
  `Hands.convert_pbn` returns a `Hands` object with the same four hands (as duplicate-free sets); when the model refuses, the
  translated code raises `Exception` (and no other class).
* `hp_hand_parser_closed` — the same for `Hands._hand_parser` on every text without a line feed.
* `hp_pbn_round_trip_closed` — **the PBN round trip of property C14 entirely inside the translated code**: for every partial deal
  (hands pairwise disjoint, each of 0 or 13 valid cards) and every first seat, the text the translated `to_pbn` returns is read
  back by the translated `convert_pbn` as the same deal.
-/
namespace Bridge.Translated.HandsPbn
open Bridge Bridge.Py Bridge.Generated.PyCore Bridge.RegexHands

theorem hp_convert_pbn_closed (s : List Char) :
    match convertPbn? s with
    | some h => ∃ h' : Hands, (∀ p, (h' p).Nodup) ∧ SameHands h' h ∧
        P.runMethod n_Hands n_convert_pbn [.cls n_Hands, .str s] = .ok (encHands h', .cls n_Hands)
    | none => P.runMethod n_Hands n_convert_pbn [.cls n_Hands, .str s] = .error (.exc K.Exception) :=
  hp_convert_pbn_translated handsRegexFacts s

theorem hp_hand_parser_closed (f : List Char) (hnl : '\n' ∉ f) :
    match handParser? f with
    | some cards => ∃ l : List Card, l.Nodup ∧ l.Perm cards ∧
        P.runMethod n_Hands n__hand_parser [.str f] = .ok (.tuple (l.map encCard), .str f)
    | none => P.runMethod n_Hands n__hand_parser [.str f] = .error (.exc K.Exception) :=
  hp_hand_parser_translated handsRegexFacts f hnl

theorem hp_pbn_round_trip_closed (h : Hands) (hd : PartialDeal h) (first : Seat) :
    ∃ (s : List Char) (h' : Hands), P.runMethod n_Hands n_to_pbn [encHands h, encSeat first] = .ok (.str s, encHands h) ∧
      P.runMethod n_Hands n_convert_pbn [.cls n_Hands, .str s] = .ok (encHands h', .cls n_Hands) ∧
      (∀ p, (h' p).Nodup) ∧ SameHands h' h :=
  hp_pbn_round_trip_translated handsRegexFacts h hd first

end Bridge.Translated.HandsPbn
