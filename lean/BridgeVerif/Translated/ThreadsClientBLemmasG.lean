import BridgeVerif.Translated.ThreadsClientBLemmasF
/-! Translated `ClientThread.playing_phase`: the loop `while not env.has_done()` is `clientPlayingR` -/
set_option maxRecDepth 4000
namespace Bridge.Translated.ClientB
open Bridge Bridge.Py Bridge.Generated.PyCore Bridge.Translated Bridge.Translated.ClientA

/-- THE LOOP INVARIANT of `playing_phase`: entered with the replica `encObserved c o` and `hand_open = opened` on the
streams of `i`, the loop ends with the replica `clientPlayingR` ends with, on the streams it leaves -/
theorem cb_playing_loop (p decl : Seat) (c : Contract) (N : Nat) (bids : List Val) (team : Str) (opp : Val)
    (extra : List (Id × Val)) :
    ∀ (n : Nat) (o o' : Observed) (opened : Bool) (i i' : ClientIn) (acts : ClientActs) (out : List Val) (rest : Env)
      (f : Nat), WF o.base → clientPlayingR p decl n o opened i = some (acts, o', i') → PlayParses N i →
      n + N + 96 ≤ f →
      ∃ ops opened' rest', encClientActs p acts = some (erasePlays ops) ∧
        (mkRec P f).loop (penv (cself p i.s bids (i.cards.map encCard) out team opp extra) c decl o opened rest)
            cpCond cpBody
          = .ok (penv (cself p i'.s bids (i'.cards.map encCard) (out ++ ops) team opp extra) c decl o' opened' rest',
              .next) := by
  intro n
  induction n with
  | zero => intro o o' opened i i' acts out rest f _ h; simp [clientPlayingR] at h
  | succ n ih =>
    intro o o' opened i i' acts out rest f hwf h hp hf
    rw [clientPlayingR_succ] at h
    obtain ⟨g, rfl⟩ : ∃ g, f = g + 15 := ⟨f - 15, by omega⟩
    cases hd : o.base.hasDone with
    | true =>
      rw [hd] at h
      simp only [if_true, Option.some.injEq, Prod.mk.injEq] at h
      obtain ⟨rfl, rfl, rfl⟩ := h
      refine ⟨[], opened, rest, rfl, ?_⟩
      rw [loop_succ]
      simp only [loopF, cb_cond, bind_ok, hd, Bool.not_true, truthy, pure_eq, List.append_nil]
      rfl
    | false =>
      rw [hd] at h
      simp only [Bool.false_eq_true, if_false] at h
      cases hl : clientLeadR p decl o i with
      | none => simp [hl] at h
      | some x =>
        obtain ⟨acts0, i1⟩ := x
        simp only [hl, Option.bind_eq_bind, Option.bind_some] at h
        cases ht : clientTrickR p decl 4 o opened i1 with
        | none => simp [ht] at h
        | some y =>
          obtain ⟨acts1, o2, op2, i2⟩ := y
          simp only [ht, Option.bind_some] at h
          cases hr : clientPlayingR p decl n o2 op2 i2 with
          | none => simp [hr] at h
          | some z =>
            obtain ⟨acts2, o3, i3⟩ := z
            simp only [hr, Option.bind_some, Option.pure_def, Option.some.injEq, Prod.mk.injEq] at h
            obtain ⟨rfl, rfl, rfl⟩ := h
            obtain ⟨ops0, rest0, e0, er0, hp1, hc1, hx0⟩ := cb_lead_step p decl c o opened i i1 acts0 N hl hp bids
              (i.cards.map encCard) out team opp extra rest (g+13) (by omega)
            rw [← hc1] at hx0
            obtain ⟨ops1, rest1, e1, hwf2, hp2, hx1⟩ := cb_trick_loop p decl c N bids team opp extra 4
              [.int 0, .int 1, .int 2, .int 3] o o2 opened op2 i1 i2 acts1 (out ++ ops0) rest0 (g+13) rfl hwf ht hp1
              (by omega)
            obtain ⟨ops2, op3, rest2, e2, hx2⟩ := ih o2 o3 op2 i2 i3 acts2 (out ++ ops0 ++ ops1) rest1 (g+14) hwf2 hr hp2
              (by omega)
            refine ⟨ops0 ++ ops1 ++ ops2, op3, rest2, ?_, ?_⟩
            · rw [erasePlays_append, erasePlays_append, er0]
              exact encClientActs_append p _ _ _ _ (encClientActs_append p _ _ _ _ e0 e1) e2
            · rw [← hc1, loop_succ]
              simp only [loopF, cb_cond, bind_ok, hd, Bool.not_false, truthy, if_true, exec_succ, cpBody_eq, execF, hx0,
                cb_for_stmt, hx1, pure_eq, List.append_assoc]
              rw [← cpBody_eq]
              simp only [List.append_assoc] at hx2
              exact hx2

end Bridge.Translated.ClientB
