import BridgeVerif.Translated.ThreadsMainBLemmas
/-! Translated `MainThread.playing_phase`: the pieces of the body of one card (`for i in range(4)`), executed on an
environment known up to `lookup` -/
set_option maxRecDepth 4000
set_option linter.unusedSimpArgs false
namespace Bridge.Translated.MainB
open Bridge Bridge.Py Bridge.Generated.PyCore

def opGet (p : Seat) : Val := .tuple [vstr "get", vstr "t2m", encSeat p]
def opPut (p : Seat) (m : Str) : Val := .tuple [vstr "put", vstr "m2t", encSeat p, .str m]
def opSleep : Val := .tuple [vstr "sleep", .int 1]
def opsPutAll (m : Str) : List Val := [opPut .N m, opPut .E m, opPut .S m, opPut .W m]
def opsPutAllBut (x : Seat) (m : Str) : List Val := ([Seat.N, .E, .S, .W].filter (· ≠ x)).map (opPut · m)

def mbDeclLoop : Stmt := m_MainThread_playing_phase.body.getD 1 .pass
def mbTrickBody : List Stmt := match m_MainThread_playing_phase.body.getD 2 .pass with
  | .for _ _ b => b
  | _ => []
def mbCardBody : List Stmt := match mbTrickBody.getD 3 .pass with
  | .for _ _ b => b
  | _ => []

theorem mb_iter_player : iterItems P (.cls n_Player) = some [encSeat .N, encSeat .E, encSeat .S, encSeat .W] := rfl

macro "mbsimp" "[" ls:Lean.Parser.Tactic.simpLemma,* "]" : tactic =>
  `(tactic| stsimp [mb_methF_world, st_mth_w_get, st_mth_w_put, st_mth_w_op, mb_w_put_call, mb_w_op_call,
      mb_methF_wh, mb_attr_active, mb_attr_dummy, mb_attr_declarer, mb_attr_leader, mb_attr_history, mb_attr_taken,
      mb_iter_player, forF, st_formal_name, $ls,*])


macro "lk_tac" : tactic =>
  `(tactic| (simp +decide only [lookup_update_same, lookup_update_ne, ne_eq, not_false_eq_true, opGet, vstr, reduceCtorEq,
      String.reduceToList, List.append_assoc, List.cons_append, List.nil_append, opsPutAll, opsPutAllBut, opPut,
      List.filter, decide_true, decide_false, decide_not, Bool.not_true, Bool.not_false, List.map_cons, List.map_nil]
      <;> try rfl))

macro "frame_tac" : tactic =>
  `(tactic| repeat (first | exact Frame.refl _ _ | refine Frame.update ?_ _ _ (by decide)))

theorem mb_loop_decl (f : Nat) (env : Env) (i : Seat → List Str) (out : List Val) (table : Val) (tables : List Val)
    (more : List (Val × Val)) (bs : Val) (c : Contract) (w : WithHands)
    (hself : lookup env K.self = some (encMainThread (encMainWorld i out table tables more) bs))
    (hpe : lookup env n_playing_env = some (encWithHands c w)) :
    ∃ env', execStmtF (mkRec P (f+30)) P env mbDeclLoop = .ok (env', .next) ∧
      lookup env' K.self = some (encMainThread (encMainWorld i (out ++ opsPutAll w.base.declarer.formal) table tables more) bs) ∧
      Frame [K.self, n_player] env env' := by
  simp only [encMainThread] at hself ⊢
  refine ⟨?_, ?_, ?_, ?_⟩
  rotate_left
  · simp only [mbDeclLoop, m_MainThread_playing_phase, List.getD_cons_zero, List.getD_cons_succ]
    mbsimp [hself, hpe]
    try rfl
  · lk_tac
  · frame_tac

def mbLeaderLoop : Stmt := mbTrickBody.getD 2 .pass
def mbRelayLoop : Stmt := mbCardBody.getD 4 .pass
def mbDummyIte : Stmt := mbCardBody.getD 5 .pass

theorem mb_loop_leader (f : Nat) (env : Env) (i : Seat → List Str) (out : List Val) (table : Val) (tables : List Val)
    (more : List (Val × Val)) (bs : Val) (l : Seat)
    (hself : lookup env K.self = some (encMainThread (encMainWorld i out table tables more) bs))
    (hl : lookup env n_leader = some (encSeat l)) :
    ∃ env', execStmtF (mkRec P (f+30)) P env mbLeaderLoop = .ok (env', .next) ∧
      lookup env' K.self = some (encMainThread (encMainWorld i (out ++ opsPutAll l.formal) table tables more) bs) ∧
      Frame [K.self, n_player] env env' := by
  simp only [encMainThread] at hself ⊢
  refine ⟨?_, ?_, ?_, ?_⟩
  rotate_left
  · simp only [mbLeaderLoop, mbTrickBody, m_MainThread_playing_phase, List.getD_cons_zero, List.getD_cons_succ]
    mbsimp [hself, hl]
    try rfl
  · lk_tac
  · frame_tac

theorem mb_loop_relay (f : Nat) (env : Env) (i : Seat → List Str) (out : List Val) (table : Val) (tables : List Val)
    (more : List (Val × Val)) (bs : Val) (x : Seat) (m : Str)
    (hself : lookup env K.self = some (encMainThread (encMainWorld i out table tables more) bs))
    (hx : lookup env n_played_player = some (encSeat x))
    (hm : lookup env n_message = some (.str m)) :
    ∃ env', execStmtF (mkRec P (f+30)) P env mbRelayLoop = .ok (env', .next) ∧
      lookup env' K.self = some (encMainThread (encMainWorld i (out ++ opsPutAllBut x m) table tables more) bs) ∧
      Frame [K.self, n_player] env env' := by
  simp only [encMainThread] at hself ⊢
  cases x
  all_goals
    refine ⟨?_, ?_, ?_, ?_⟩
    rotate_left
    · simp only [mbRelayLoop, mbCardBody, mbTrickBody, m_MainThread_playing_phase, List.getD_cons_zero, List.getD_cons_succ]
      mbsimp [hself, hx, hm]
      try rfl
    · lk_tac
    · frame_tac

def mbCardHead : List Stmt := mbCardBody.take 4
theorem mbCardBody_eq : mbCardBody = mbCardHead ++ [mbRelayLoop, mbDummyIte] := rfl

/-- who sends the card: declarer plays dummy's cards -/
def playedBy (w : WithHands) : Seat := if w.base.active = w.base.dummy then w.base.declarer else w.base.active

theorem mb_card_head (f : Nat) (env : Env) (i i' : Seat → List Str) (out : List Val) (table : Val) (tables : List Val)
    (more : List (Val × Val)) (bs : Val) (c : Contract) (w w' : WithHands) (card : Card) (msg : Str)
    (hself : lookup env K.self = some (encMainThread (encMainWorld i out table tables more) bs))
    (hpe : lookup env n_playing_env = some (encWithHands c w))
    (hwf : WF w.base)
    (hget : MainIn.get i (playedBy w) = some (msg, i'))
    (hparse : ∀ g, callF (mkRec P (g+20)) m_MessageInterface_parse_card [.str msg, encSeat w.base.active]
        = .ok (encCard card, .str msg))
    (hplay : w.play card w.base.active = .ok w') :
    ∃ env', execF (mkRec P (f+70)) P env mbCardHead = .ok (env', .next) ∧
      lookup env' K.self = some (encMainThread (encMainWorld i' (out ++ [opGet (playedBy w)]) table tables more) bs) ∧
      lookup env' n_playing_env = some (encWithHands c w') ∧
      lookup env' n_played_player = some (encSeat (playedBy w)) ∧
      lookup env' n_message = some (.str msg) ∧
      Frame [K.self, n_playing_env, n_played_player, n_message, n_card] env env' := by
  simp only [encMainThread] at hself ⊢
  have hg := fun f out => mb_w_get_call f i i' (playedBy w) msg hget out table tables more
  have hpl := fun f => with_hands_play_call f c w card w.base.active hwf
  simp only [hplay] at hpl
  by_cases hd : w.base.active = w.base.dummy
  · have hd' := decide_eq_true hd
    have hpb : playedBy w = w.base.declarer := by simp only [playedBy, hd, if_true]
    rw [hpb] at hg ⊢
    refine ⟨?_, ?_, ?_, ?_, ?_, ?_, ?_⟩
    rotate_left
    · simp only [mbCardHead, mbCardBody, mbTrickBody, m_MainThread_playing_phase, List.getD_cons_zero, List.getD_cons_succ,
        List.take]
      mbsimp [hself, hpe, hd', hg, mb_mth_parse_card, hparse, mb_mth_wh_play, hpl]
      rfl
    · lk_tac
    · lk_tac
    · lk_tac
    · lk_tac
    · frame_tac
  · have hd' := decide_eq_false hd
    have hpb : playedBy w = w.base.active := by simp only [playedBy, hd, if_false]
    rw [hpb] at hg ⊢
    refine ⟨?_, ?_, ?_, ?_, ?_, ?_, ?_⟩
    rotate_left
    · simp only [mbCardHead, mbCardBody, mbTrickBody, m_MainThread_playing_phase, List.getD_cons_zero, List.getD_cons_succ,
        List.take]
      mbsimp [hself, hpe, hd', hg, mb_mth_parse_card, hparse, mb_mth_wh_play, hpl]
      rfl
    · lk_tac
    · lk_tac
    · lk_tac
    · lk_tac
    · frame_tac

theorem mb_dummy_msg (hand : List Card) :
    'D' :: 'u' :: 'm' :: 'm' :: 'y' :: '\'' :: 's' :: ' ' :: 'c' :: 'a' :: 'r' :: 'd' :: 's' :: ' ' :: ':' :: ' ' :: handToStr hand
      = cardsMsg "Dummy".toList hand := rfl

theorem mb_dummy_ite_first (f : Nat) (env : Env) (i : Seat → List Str) (out : List Val) (table : Val) (tables : List Val)
    (more : List (Val × Val)) (bs : Val) (c : Contract) (w : WithHands) (deal : Seat → List Card)
    (hself : lookup env K.self = some (encMainThread (encMainWorld i out table tables more) bs))
    (hpe : lookup env n_playing_env = some (encWithHands c w))
    (htk : lookup env n_trick_num = some (.int 1)) (hix : lookup env n_i = some (.int 0))
    (hcards : lookup env n_cards = some (.dict (handsKvs deal)))
    (hok : ∀ c ∈ deal w.base.dummy, 2 ≤ c.rank ∧ c.rank ≤ 14) :
    ∃ env', execStmtF (mkRec P (f+70)) P env mbDummyIte = .ok (env', .next) ∧
      lookup env' K.self = some (encMainThread (encMainWorld i
        (out ++ opsPutAllBut w.base.dummy (cardsMsg "Dummy".toList (deal w.base.dummy))) table tables more) bs) ∧
      Frame [K.self, n_player, n_dummy_hand_message] env env' := by
  simp only [encMainThread] at hself ⊢
  have hh := fun f => nh_hand_to_str_call f (deal w.base.dummy) hok
  generalize hd : w.base.dummy = d at hh ⊢
  cases d
  all_goals
    refine ⟨?_, ?_, ?_, ?_⟩
    rotate_left
    · simp only [mbDummyIte, mbCardBody, mbTrickBody, m_MainThread_playing_phase, List.getD_cons_zero, List.getD_cons_succ]
      mbsimp [hself, hpe, htk, hix, hcards, hd, lookup_hands, encCards, nh_mth_hand_to_str, hh, mb_dummy_msg, beq_int]
      try rfl
    · lk_tac
    · frame_tac

theorem mb_dummy_ite_later (f : Nat) (env : Env) (tk ix : Int) (h : ¬ (tk = 1 ∧ ix = 0))
    (htk : lookup env n_trick_num = some (.int tk)) (hix : lookup env n_i = some (.int ix)) :
    execStmtF (mkRec P (f+70)) P env mbDummyIte = .ok (env, .next) := by
  simp only [mbDummyIte, mbCardBody, mbTrickBody, m_MainThread_playing_phase, List.getD_cons_zero, List.getD_cons_succ]
  by_cases h1 : tk = 1
  · have h2 : ¬ ix = 0 := fun e => h ⟨h1, e⟩
    subst h1
    mbsimp [htk, hix, beq_int, h2, beq_iff_eq]
  · mbsimp [htk, hix, beq_int, h1, beq_iff_eq]
end Bridge.Translated.MainB
