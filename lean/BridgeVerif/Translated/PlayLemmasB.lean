import BridgeVerif.Translated.PlayLemmasA
/-! Translated playing phases = model: the simp set of the symbolic execution; `calc_highest` (a `for` loop over
`enumerate(cards)` with `continue`) -/
namespace Bridge.Translated
open Bridge Bridge.Py Bridge.Generated.PyCore

/-! ## equation lemmas that fire only on constructor-headed values (as in AuctionLemmasC.lean, which is not imported: it
also holds lemmas about the methods of `BiddingPhase`, and the playing phase shall not depend on those) -/
theorem pp_getAttr_obj (r : Rec) (c : Id) (fs : List (Id × Val)) (a : Id) :
    getAttrF r P (.obj c fs) a =
      if a = K.class__ then .ok (.cls c) else
      match lookup fs a with
      | some x => .ok x
      | none => (callMethod r P c a [.obj c fs] (.exc K.AttributeError)) >>= fun x => .ok x.1 := rfl
theorem pp_getAttr_enum_value (r : Rec) (c : Id) (n : Int) : getAttrF r P (.enum c n) K.value = .ok (.int n) := rfl
theorem pp_getAttr_encSeat_value (r : Rec) (p : Seat) : getAttrF r P (encSeat p) K.value = .ok (.int p.value) := rfl
theorem pp_meth_obj (r : Rec) (c : Id) (fs : List (Id × Val)) (m : Id) (args : List Val) :
    methF r P (.obj c fs) m args = callMethod r P c m (.obj c fs :: args) (.exc K.AttributeError) := rfl
theorem pp_index_dict (r : Rec) (kvs : List (Val × Val)) (iv : Val) :
    indexF r P (.dict kvs) iv = match lookupD kvs iv with
      | some v => .ok v
      | none => .error (.exc K.KeyError) := rfl
theorem pp_truthy_bool (b : Bool) : truthy (.bool b) = b := rfl
theorem pp_asInt_int (n : Int) : asInt? (.int n) = some n := rfl
theorem pp_encOpt_some {α} (g : α → Val) (a : α) : encOpt g (some a) = g a := rfl
theorem pp_encOpt_none {α} (g : α → Val) : encOpt g none = .none := rfl

theorem index_tuple (r : Rec) (xs : List Val) (iv : Val) :
    indexF r P (.tuple xs) iv = match asInt? iv with
      | some n => (match normIndex xs.length n with
        | some k => .ok (xs.getD k .none)
        | none => .error (.exc K.IndexError))
      | none => .error (.exc K.TypeError) := rfl
theorem getAttr_card_suit (r : Rec) (c : Card) : getAttrF r P (encCard c) n_suit = .ok (encSuit c.suit) := rfl
theorem getAttr_card_rank (r : Rec) (c : Card) : getAttrF r P (encCard c) n_rank = .ok (.int c.rank) := rfl
theorem compare_int (r : Rec) (op : CmpOp) (a b : Int) :
    compareF r P op (.int a) (.int b) = match op with
      | .lt => .ok (decide (a < b)) | .le => .ok (decide (a ≤ b))
      | .gt => .ok (decide (a > b)) | .ge => .ok (decide (a ≥ b))
      | _ => .error (.stuck 8) := rfl
theorem beq_int (a b : Int) : (Val.int a).beq (.int b) = (a == b) := by simp only [Val.beq]
theorem callF_def (r : Rec) (fd : FuncDef) (args : List Val) : callF r fd args =
  match bindParams fd.params fd.defaults args with
  | none => .error (.exc K.TypeError)
  | some env => r.exec env fd.body >>= fun x =>
    match x.2 with
    | .ret v => .ok (v, match fd.params with | p :: _ => (lookup x.1 p).getD .none | [] => .none)
    | _ => .ok (.none, match fd.params with | p :: _ => (lookup x.1 p).getD .none | [] => .none) := by
  unfold callF
  cases bindParams fd.params fd.defaults args with
  | none => rfl
  | some env =>
    simp only
    cases r.exec env fd.body with
    | error e => rfl
    | ok x => obtain ⟨e, fl⟩ := x; cases fl <;> rfl

/-- the simp set of the symbolic execution (calls are NOT unfolded: give `callF_def` or a lemma about the call).
`-implicitDefEqProofs`: every unfolding step of the interpreter is recorded in the proof term; otherwise the kernel has
to re-discover the whole symbolic execution as one definitional-equality problem (exponential in the number of
statements of a body). -/
macro "ppsimp" "[" ls:Lean.Parser.Tactic.simpLemma,* "]" : tactic =>
  `(tactic| simp -implicitDefEqProofs +decide only [execStmtF, execF, eval_succ, exec_succ, call_succ, evalF, lookup, bind_ok, bind_err, pure_eq,
      throw_eq, Target.toExpr, pp_getAttr_obj, pp_getAttr_enum_value, pp_getAttr_encSeat_value, pp_meth_obj, pp_index_dict,
      pp_truthy_bool, pp_asInt_int, assignToF, assignAllF, mutF, setField, update, callMethod, bindParams, cmpF, mapR,
      optIntF, binopVal, Option.map, Option.getD_some, ↓reduceIte, reduceIte, Option.isNone_some, Option.isNone_none,
      Option.isSome_some, Option.isSome_none, Bool.false_eq_true, reduceCtorEq, beq_none_none, pp_encOpt_some, pp_encOpt_none,
      Int.reduceSub, Int.reduceAdd, Int.reduceNeg, Bool.not_true, Bool.not_false, List.cons_append, List.nil_append,
      lookup_update_same, compare_int, beq_encSuit, beq_encSeat, beq_encCard, Bool.not_eq_true', decide_eq_true_eq,
      decide_eq_false_iff_not, List.length_cons, List.length_nil, List.zip_cons_cons, List.zip_nil_right, List.foldl_cons,
      List.foldl_nil, lookup_update_ne, ne_eq, not_false_eq_true, getAttr_card_suit, getAttr_card_rank, $ls,*])

/-! ## `calc_highest` -/
theorem mth_calc_highest :
    P.method? classDepth n_PlayingPhase n_calc_highest = some (n_PlayingPhase, m_PlayingPhase_calc_highest) := rfl

def chBody : List Stmt := match m_PlayingPhase_calc_highest.body.getD 3 .pass with
  | .for _ _ b => b
  | _ => []

/-- `enumerate(cards)` from position `i` -/
def enumFrom (i : Nat) : List Card → List Val
  | [] => []
  | c :: cs => .tuple [.int i, encCard c] :: enumFrom (i+1) cs

theorem mapIdx_enum (cs : List Card) (i : Nat) :
    (cs.map encCard).mapIdx (fun j x => Val.tuple [.int (Int.ofNat (j + i)), x]) = enumFrom i cs := by
  induction cs generalizing i with
  | nil => rfl
  | cons c cs ih =>
    simp only [List.map_cons, List.mapIdx_cons, enumFrom, Nat.zero_add]
    congr 1
    rw [← ih (i+1)]
    congr 1; funext j x; rw [show j + (i + 1) = j + 1 + i by omega]

theorem ch_loop (f : Nat) (su : Suit) (cv : Val) : ∀ (cs : List Card) (i : Nat) (n hi : Int) (tail : Env),
    ∃ hi' tail', forF (mkRec P (f+10)) [n_i, n_card] chBody
        ((n_suit, encSuit su) :: (n_cards, cv) :: (n_n, .int n) :: (n_highest, .int hi) :: tail) (enumFrom i cs)
      = .ok ((n_suit, encSuit su) :: (n_cards, cv) :: (n_n, .int (calcHighestAux su cs i n hi)) :: (n_highest, .int hi') :: tail',
             .next) := by
  intro cs
  induction cs with
  | nil => intro i n hi tail; exact ⟨hi, tail, rfl⟩
  | cons c cs ih =>
    intro i n hi tail
    simp only [enumFrom, forF, chBody, m_PlayingPhase_calc_highest, List.getD_cons_succ, List.getD_cons_zero]
    by_cases h1 : c.suit = su
    · by_cases h2 : hi < (c.rank : Int)
      · ppsimp [h1, h2]
        have e : calcHighestAux su (c :: cs) i n hi = calcHighestAux su cs (i + 1) i c.rank := by
          simp only [calcHighestAux, h1, ne_eq, not_true_eq_false, if_false, h2, if_true]
        rw [e]; exact ih (i + 1) i c.rank _
      · ppsimp [h1, h2]
        have e : calcHighestAux su (c :: cs) i n hi = calcHighestAux su cs (i + 1) n hi := by
          simp only [calcHighestAux, h1, ne_eq, not_true_eq_false, if_false, h2]
        rw [e]; exact ih (i + 1) n hi _
    · ppsimp [h1]
      have e : calcHighestAux su (c :: cs) i n hi = calcHighestAux su cs (i + 1) n hi := by
        simp only [calcHighestAux, ne_eq, h1, not_false_eq_true, if_true]
      rw [e]; exact ih (i + 1) n hi _

theorem beq_encSuit_NT (su : Suit) : (encSuit su).beq (.enum n_Suit 5) = decide (su = .NT) := beq_encSuit su .NT

theorem enumerate_cards (r : Rec) (cs : List Card) :
    builtinF r P .enumerate [encCards cs] = .ok (.tuple (enumFrom 0 cs)) := by
  have := mapIdx_enum cs 0
  simp only [Nat.add_zero] at this
  simp only [builtinF, encCards, iterItems, this]; rfl
theorem iterItems_tuple (xs : List Val) : iterItems P (.tuple xs) = some xs := rfl

/-- the static method, called at any sufficiently large fuel -/
theorem calc_highest_call (f : Nat) (su : Suit) (cs : List Card) :
    callF (mkRec P (f+12)) m_PlayingPhase_calc_highest [encSuit su, encCards cs]
      = .ok (.int (calcHighest su cs), encSuit su) := by
  rw [callF_def]
  simp only [m_PlayingPhase_calc_highest, bindParams, Option.map]
  by_cases h : su = .NT
  · subst h
    ppsimp [calcHighest, beq_encSuit_NT]
  · ppsimp [calcHighest, beq_encSuit_NT, h, enumerate_cards, iterItems_tuple]
    obtain ⟨hi', tail', hl⟩ := ch_loop (f+1) su (encCards cs) cs 0 (-1) (-1) []
    simp only [chBody, m_PlayingPhase_calc_highest, List.getD_cons_succ, List.getD_cons_zero] at hl
    rw [hl]
    ppsimp []

end Bridge.Translated
