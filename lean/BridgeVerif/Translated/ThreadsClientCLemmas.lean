import BridgeVerif.Translated.ThreadsClientA
import BridgeVerif.Translated.ThreadsClientB
/-! Translated `ClientThread.run`: the model's board loop cut into one board (`clientBoardR`), what the phases do to the
three streams, the erasure of the decisions (`eraseDecisions`) -/
set_option maxRecDepth 4000
namespace Bridge.Translated.ClientC
open Bridge Bridge.Py Bridge.Generated.PyCore Bridge.Translated Bridge.Translated.ClientA Bridge.Translated.ClientB

theorem bind_some_inv {α β} {x : Option α} {k : α → Option β} {b : β} (h : x.bind k = some b) :
    ∃ a, x = some a ∧ k a = some b := by
  cases x with
  | none => cases h
  | some a => exact ⟨a, rfl, h⟩

/-! ## ONE board of `clientBoardsR` -/

/-- the playing part of one board of `clientBoardsR`: nothing when passed out, else `clientPlayingR` from
`Observed.init contract p hand` with fuel 14 -/
def clientPlayR (p : Seat) (contract : Contract) (hand : List Card) (i : ClientIn) : Option (ClientActs × ClientIn) :=
  if contract.isPassedOut then pure ([], i)
  else
    match contract.declarer, Observed.init contract p hand with
    | some decl, some o0 => do
      let (acts, _, i) ← clientPlayingR p decl 14 o0 false i
      pure (acts, i)
    | _, _ => none

/-- ONE board of `clientBoardsR`: `_deal`, `bidding_phase`, `playing_phase` unless passed out, the next message (returned);
the actions include the receipt of that message -/
def clientBoardR (p : Seat) (i : ClientIn) : Option (ClientActs × Text × ClientIn) := do
  let (d, (_, dealer, vul), hand, i) ← clientDealR p i
  let (b, s, i) ← clientBiddingR p (320 + 1) (AState.init dealer vul) i
  let contract ← s.contract
  let (pl, i) ← clientPlayR p contract hand i
  let (m, i) ← i.recv
  pure (d ++ b ++ pl ++ [.recv (.s2c p)], m, i)

/-- `clientBoardsR` is `clientBoardR`, then the test on the message received -/
theorem clientBoardsR_succ (p : Seat) (fuel : Nat) (i : ClientIn) :
    clientBoardsR p (fuel+1) i = (do
      let (pre, m, i) ← clientBoardR p i
      if m = MSG_END then pure (pre, i)
      else if lowerS m = lowerS MSG_START then do
        let (rest, i) ← clientBoardsR p fuel i
        pure (pre ++ rest, i)
      else none) := by
  rw [clientBoardsR]
  unfold clientBoardR clientPlayR
  cases hd : clientDealR p i with
  | none => rfl
  | some x =>
    obtain ⟨d, ⟨k, dealer, vul⟩, hand, i1⟩ := x
    simp only [Option.bind_eq_bind, Option.bind_some]
    cases hb : clientBiddingR p (320 + 1) (AState.init dealer vul) i1 with
    | none => rfl
    | some y =>
      obtain ⟨b, s, i2⟩ := y
      simp only [Option.bind_some]
      cases hc : s.contract with
      | none => rfl
      | some c =>
        simp only [Option.bind_some]
        cases hpo : c.isPassedOut with
        | true =>
          simp only [if_true, Option.pure_def, Option.bind_some]
          cases hr : i2.recv with
          | none => rfl
          | some z => rfl
        | false =>
          simp only [Bool.false_eq_true, if_false]
          cases hdecl : c.declarer with
          | none => rfl
          | some decl =>
            cases ho : Observed.init c p hand with
            | none => rfl
            | some o0 =>
              simp only []
              cases hpl : clientPlayingR p decl 14 o0 false i2 with
              | none => rfl
              | some w =>
                obtain ⟨pl, o', i3⟩ := w
                simp only [Option.bind_some, Option.pure_def]
                cases hr : i3.recv with
                | none => rfl
                | some z => rfl

/-! ## what the phases do to the three streams -/

/-- `clientBiddingR` leaves the cards alone and never lengthens the other two streams -/
theorem clientBiddingR_streams (p : Seat) : ∀ (n : Nat) (s : AState) (i : ClientIn) (acts : ClientActs) (s' : AState)
    (i' : ClientIn), clientBiddingR p n s i = some (acts, s', i') →
    i'.cards = i.cards ∧ i'.s.length ≤ i.s.length ∧ i'.calls.length ≤ i.calls.length := by
  intro n
  induction n with
  | zero => intro s i acts s' i' h; simp [clientBiddingR] at h
  | succ n ih =>
    intro s i acts s' i' h
    obtain ⟨st, calls, cards⟩ := i
    cases hact : s.active with
    | none =>
      simp only [clientBiddingR, hact, Option.some.injEq, Prod.mk.injEq] at h
      obtain ⟨rfl, rfl, rfl⟩ := h
      exact ⟨rfl, Nat.le_refl _, Nat.le_refl _⟩
    | some a =>
      by_cases hap : a = p
      · subst hap
        cases calls with
        | nil => simp [clientBiddingR, hact, ClientIn.nextCall] at h
        | cons c cs =>
          cases htb : takeBid s c with
          | error u => simp [clientBiddingR, hact, ClientIn.nextCall, htb] at h
          | ok x =>
            obtain ⟨s1, r⟩ := x
            cases r with
            | illegal => simp [clientBiddingR, hact, ClientIn.nextCall, htb] at h
            | finished =>
              simp [clientBiddingR, hact, ClientIn.nextCall, htb] at h
              obtain ⟨rfl, rfl, rfl⟩ := h
              exact ⟨rfl, Nat.le_refl _, Nat.le_succ _⟩
            | ongoing =>
              cases hrec : clientBiddingR a n s1 ⟨st, cs, cards⟩ with
              | none => simp [clientBiddingR, hact, ClientIn.nextCall, htb, hrec] at h
              | some res =>
                obtain ⟨acts1, s2, i2⟩ := res
                simp [clientBiddingR, hact, ClientIn.nextCall, htb, hrec] at h
                obtain ⟨rfl, rfl, rfl⟩ := h
                obtain ⟨e1, e2, e3⟩ := ih s1 _ acts1 s2 i2 hrec
                exact ⟨e1, e2, Nat.le_succ_of_le e3⟩
      · cases st with
        | nil => simp [clientBiddingR, hact, hap, ClientIn.recv] at h
        | cons m st1 =>
          cases hpb : parseBid? m a.formal with
          | none => simp [clientBiddingR, hact, hap, ClientIn.recv, hpb] at h
          | some c =>
            cases htb : takeBid s c with
            | error u => simp [clientBiddingR, hact, hap, ClientIn.recv, hpb, htb] at h
            | ok x =>
              obtain ⟨s1, r⟩ := x
              cases r with
              | illegal => simp [clientBiddingR, hact, hap, ClientIn.recv, hpb, htb] at h
              | finished =>
                simp [clientBiddingR, hact, hap, ClientIn.recv, hpb, htb] at h
                obtain ⟨rfl, rfl, rfl⟩ := h
                exact ⟨rfl, Nat.le_succ _, Nat.le_refl _⟩
              | ongoing =>
                cases hrec : clientBiddingR p n s1 ⟨st1, calls, cards⟩ with
                | none => simp [clientBiddingR, hact, hap, ClientIn.recv, hpb, htb, hrec] at h
                | some res =>
                  obtain ⟨acts1, s2, i2⟩ := res
                  simp [clientBiddingR, hact, hap, ClientIn.recv, hpb, htb, hrec] at h
                  obtain ⟨rfl, rfl, rfl⟩ := h
                  obtain ⟨e1, e2, e3⟩ := ih s1 _ acts1 s2 i2 hrec
                  exact ⟨e1, Nat.le_succ_of_le e2, e3⟩

/-- "the calls are untouched, the connection stream is not longer" -/
def PlayInv (i i' : ClientIn) : Prop := i'.calls = i.calls ∧ i'.s.length ≤ i.s.length

theorem PlayInv.refl (i : ClientIn) : PlayInv i i := ⟨rfl, Nat.le_refl _⟩
theorem PlayInv.trans {i j k : ClientIn} (h1 : PlayInv i j) (h2 : PlayInv j k) : PlayInv i k :=
  ⟨h2.1.trans h1.1, Nat.le_trans h2.2 h1.2⟩

theorem recv_inv {i i' : ClientIn} {m : Text} (h : i.recv = some (m, i')) : PlayInv i i' := by
  obtain ⟨st, calls, cards⟩ := i
  cases st with
  | nil => simp [ClientIn.recv] at h
  | cons x r =>
    simp only [ClientIn.recv, Option.some.injEq, Prod.mk.injEq] at h
    obtain ⟨_, rfl⟩ := h
    exact ⟨rfl, Nat.le_succ _⟩

theorem nextCard_inv {i i' : ClientIn} {c : Card} (h : i.nextCard = some (c, i')) : PlayInv i i' := by
  obtain ⟨st, calls, cards⟩ := i
  cases cards with
  | nil => simp [ClientIn.nextCard] at h
  | cons x r =>
    simp only [ClientIn.nextCard, Option.some.injEq, Prod.mk.injEq] at h
    obtain ⟨_, rfl⟩ := h
    exact ⟨rfl, Nat.le_refl _⟩

theorem clientOpenR_inv (p decl : Seat) (o o' : Observed) (opened opened' : Bool) (i i' : ClientIn) (acts : ClientActs)
    (h : clientOpenR p decl o opened i = some (acts, o', opened', i')) : PlayInv i i' := by
  unfold clientOpenR at h
  by_cases hA : o.base.active = decl.partner ∧ (!opened) = true
  · by_cases hB : decl.partner ≠ p
    · simp only [if_pos hA, if_pos hB, Option.bind_eq_bind] at h
      obtain ⟨⟨m, i1⟩, hr, h⟩ := bind_some_inv h
      obtain ⟨dh, _, h⟩ := bind_some_inv h
      simp only [Option.pure_def, Option.some.injEq, Prod.mk.injEq] at h
      obtain ⟨_, _, _, rfl⟩ := h
      exact recv_inv hr
    · simp only [if_pos hA, if_neg hB, Option.pure_def, Option.some.injEq, Prod.mk.injEq] at h
      obtain ⟨_, _, _, rfl⟩ := h
      exact PlayInv.refl _
  · simp only [if_neg hA, Option.pure_def, Option.some.injEq, Prod.mk.injEq] at h
    obtain ⟨_, _, _, rfl⟩ := h
    exact PlayInv.refl _

theorem clientMoveR_inv (p decl a : Seat) (o o' : Observed) (i i' : ClientIn) (acts : ClientActs)
    (h : clientMoveR p decl a o i = some (acts, o', i')) : PlayInv i i' := by
  unfold clientMoveR at h
  by_cases h1 : a = p ∧ p ≠ decl.partner
  · simp only [if_pos h1, Option.bind_eq_bind] at h
    obtain ⟨⟨c, i1⟩, hn, h⟩ := bind_some_inv h
    dsimp only at h
    cases hp : o.play c p with
    | error e => rw [hp] at h; cases h
    | ok o1 =>
      rw [hp] at h
      simp only [Option.pure_def, Option.some.injEq, Prod.mk.injEq] at h
      obtain ⟨_, _, rfl⟩ := h
      exact nextCard_inv hn
  · simp only [if_neg h1] at h
    by_cases h2 : a = decl.partner ∧ p = decl
    · simp only [if_pos h2] at h
      cases hd : o.dummyHand.isNone with
      | true => simp [hd] at h
      | false =>
        simp only [hd, Bool.false_eq_true, if_false, Option.bind_eq_bind] at h
        obtain ⟨⟨c, i1⟩, hn, h⟩ := bind_some_inv h
        dsimp only at h
        cases hp : o.play c decl.partner with
        | error e => rw [hp] at h; cases h
        | ok o1 =>
          rw [hp] at h
          simp only [Option.pure_def, Option.some.injEq, Prod.mk.injEq] at h
          obtain ⟨_, _, rfl⟩ := h
          exact nextCard_inv hn
    · simp only [if_neg h2, Option.bind_eq_bind] at h
      obtain ⟨⟨m, i1⟩, hr, h⟩ := bind_some_inv h
      obtain ⟨c, _, h⟩ := bind_some_inv h
      dsimp only at h
      cases hp : o.play c a with
      | error e => rw [hp] at h; cases h
      | ok o1 =>
        rw [hp] at h
        simp only [Option.pure_def, Option.some.injEq, Prod.mk.injEq] at h
        obtain ⟨_, _, rfl⟩ := h
        exact recv_inv hr

theorem clientCardR_inv (p decl : Seat) (o o' : Observed) (opened opened' : Bool) (i i' : ClientIn) (acts : ClientActs)
    (h : clientCardR p decl o opened i = some (acts, o', opened', i')) : PlayInv i i' := by
  unfold clientCardR at h
  simp only [Option.bind_eq_bind] at h
  obtain ⟨⟨a0, o1, op1, i1⟩, h0, h⟩ := bind_some_inv h
  obtain ⟨⟨a1, o2, i2⟩, h1, h⟩ := bind_some_inv h
  simp only [Option.pure_def, Option.some.injEq, Prod.mk.injEq] at h
  obtain ⟨_, _, _, rfl⟩ := h
  exact (clientOpenR_inv _ _ _ _ _ _ _ _ _ h0).trans (clientMoveR_inv _ _ _ _ _ _ _ _ h1)

theorem clientTrickR_inv (p decl : Seat) : ∀ (n : Nat) (o o' : Observed) (opened opened' : Bool) (i i' : ClientIn)
    (acts : ClientActs), clientTrickR p decl n o opened i = some (acts, o', opened', i') → PlayInv i i' := by
  intro n
  induction n with
  | zero =>
    intro o o' opened opened' i i' acts h
    simp only [clientTrickR, Option.some.injEq, Prod.mk.injEq] at h
    obtain ⟨_, _, _, rfl⟩ := h
    exact PlayInv.refl _
  | succ n ih =>
    intro o o' opened opened' i i' acts h
    rw [clientTrickR_succ] at h
    simp only [Option.bind_eq_bind] at h
    obtain ⟨⟨a0, o1, op1, i1⟩, h0, h⟩ := bind_some_inv h
    obtain ⟨⟨a1, o2, op2, i2⟩, h1, h⟩ := bind_some_inv h
    simp only [Option.pure_def, Option.some.injEq, Prod.mk.injEq] at h
    obtain ⟨_, _, _, rfl⟩ := h
    exact (clientCardR_inv _ _ _ _ _ _ _ _ _ h0).trans (ih _ _ _ _ _ _ _ h1)

theorem clientLeadR_inv (p decl : Seat) (o : Observed) (i i' : ClientIn) (acts : ClientActs)
    (h : clientLeadR p decl o i = some (acts, i')) : PlayInv i i' := by
  unfold clientLeadR at h
  by_cases hc : (o.base.active = p ∧ p ≠ decl.partner) ∨ (o.base.active = decl.partner ∧ p = decl)
  · simp only [if_pos hc, Option.bind_eq_bind] at h
    obtain ⟨⟨m, i1⟩, hr, h⟩ := bind_some_inv h
    obtain ⟨l, _, h⟩ := bind_some_inv h
    dsimp only at h
    by_cases hl : l = o.base.active
    · simp only [if_pos hl, Option.pure_def, Option.some.injEq, Prod.mk.injEq] at h
      obtain ⟨_, rfl⟩ := h
      exact recv_inv hr
    · simp only [if_neg hl] at h; cases h
  · simp only [if_neg hc, Option.pure_def, Option.some.injEq, Prod.mk.injEq] at h
    obtain ⟨_, rfl⟩ := h
    exact PlayInv.refl _

/-- `clientPlayingR` leaves the calls alone and never lengthens the connection stream -/
theorem clientPlayingR_inv (p decl : Seat) : ∀ (n : Nat) (o o' : Observed) (opened : Bool) (i i' : ClientIn)
    (acts : ClientActs), clientPlayingR p decl n o opened i = some (acts, o', i') → PlayInv i i' := by
  intro n
  induction n with
  | zero => intro o o' opened i i' acts h; simp [clientPlayingR] at h
  | succ n ih =>
    intro o o' opened i i' acts h
    rw [clientPlayingR_succ] at h
    cases hd : o.base.hasDone with
    | true =>
      simp only [hd, if_true, Option.some.injEq, Prod.mk.injEq] at h
      obtain ⟨_, _, rfl⟩ := h
      exact PlayInv.refl _
    | false =>
      simp only [hd, Bool.false_eq_true, if_false, Option.bind_eq_bind] at h
      obtain ⟨⟨a0, i1⟩, h0, h⟩ := bind_some_inv h
      obtain ⟨⟨t, o2, op2, i2⟩, h1, h⟩ := bind_some_inv h
      obtain ⟨⟨r, o3, i3⟩, h2, h⟩ := bind_some_inv h
      simp only [Option.pure_def, Option.some.injEq, Prod.mk.injEq] at h
      obtain ⟨_, _, rfl⟩ := h
      exact ((clientLeadR_inv _ _ _ _ _ _ h0).trans (clientTrickR_inv _ _ _ _ _ _ _ _ _ _ h1)).trans
        (ih _ _ _ _ _ _ h2)

/-! ## the erasure of the decisions -/

/-- drop the decisions of the bidding system (`bidAsk`) and of the playing system (`playAsk`) -/
def eraseDecisions (ops : List Val) : List Val := erasePlays (eraseAsks ops)

theorem eraseDecisions_append (a b : List Val) : eraseDecisions (a ++ b) = eraseDecisions a ++ eraseDecisions b := by
  simp [eraseDecisions, eraseAsks, erasePlays]

theorem erase_comm (ops : List Val) : erasePlays (eraseAsks ops) = eraseAsks (erasePlays ops) := by
  simp only [erasePlays, eraseAsks, List.filter_filter]
  congr 1
  funext v
  exact Bool.and_comm _ _

theorem encClientAct_clean (p : Seat) (a : SAct Text LogOp) (u : List Val) (h : encClientAct p a = some u) :
    eraseAsks u = u ∧ erasePlays u = u := by
  unfold encClientAct at h
  split at h
  · split at h
    · simp only [Option.some.injEq] at h
      subst h
      simp [eraseAsks, erasePlays, ct_send_beq, cb_send_beq]
    · cases h
  · split at h
    · simp only [Option.some.injEq] at h
      subst h
      simp [eraseAsks, erasePlays, ct_recv_beq, cb_recv_beq]
    · cases h
  · cases h

/-- the rendering of the model's actions contains no decision -/
theorem encClientActs_clean (p : Seat) : ∀ (acts : ClientActs) (xs : List Val), encClientActs p acts = some xs →
    eraseAsks xs = xs ∧ erasePlays xs = xs := by
  intro acts
  induction acts with
  | nil =>
    intro xs h
    simp only [encClientActs, Option.some.injEq] at h
    subst h
    exact ⟨rfl, rfl⟩
  | cons a r ih =>
    intro xs h
    simp only [encClientActs, Option.bind_eq_bind] at h
    obtain ⟨u, hu, h⟩ := bind_some_inv h
    obtain ⟨v, hv, h⟩ := bind_some_inv h
    simp only [Option.pure_def, Option.some.injEq] at h
    subst h
    obtain ⟨a1, a2⟩ := encClientAct_clean p a u hu
    obtain ⟨b1, b2⟩ := ih v hv
    constructor
    · have : eraseAsks (u ++ v) = eraseAsks u ++ eraseAsks v := by simp [eraseAsks]
      rw [this, a1, b1]
    · rw [erasePlays_append, a2, b2]

theorem eraseDecisions_clean (p : Seat) (acts : ClientActs) (xs : List Val) (h : encClientActs p acts = some xs) :
    eraseDecisions xs = xs := by
  obtain ⟨a, b⟩ := encClientActs_clean p acts xs h
  rw [eraseDecisions, a, b]

/-- operations whose `bidAsk`-erasure is the rendering of actions -/
theorem eraseDecisions_of_asks (p : Seat) (acts : ClientActs) (ops : List Val)
    (h : encClientActs p acts = some (eraseAsks ops)) : encClientActs p acts = some (eraseDecisions ops) := by
  rw [eraseDecisions, (encClientActs_clean p acts _ h).2]
  exact h

/-- operations whose `playAsk`-erasure is the rendering of actions -/
theorem eraseDecisions_of_plays (p : Seat) (acts : ClientActs) (ops : List Val)
    (h : encClientActs p acts = some (erasePlays ops)) : encClientActs p acts = some (eraseDecisions ops) := by
  rw [eraseDecisions, erase_comm, (encClientActs_clean p acts _ h).1]
  exact h

end Bridge.Translated.ClientC
