import BridgeVerif.Translated.ThreadsMainD
import BridgeVerif.Translated.MsgParsersD
/-!
# The parse hypotheses of the main-thread capstone, discharged for EVERY plain-ASCII text

`ThreadsMainD.session_boards_parse` discharges `BoardsParse` (`BidMsgsOK`, `PlayParses`) for the finite families of protocol
texts by kernel evaluation.  Here: for ANY texts — whatever the players word, in any letter case, with alerts,
explanations, trailing text — all of whose characters are ASCII and none of U+001C..U+001F (`PlainAscii`): the translated
`remove_alert_word` / `parse_bid` / `parse_card` read them as the model's `removeAlert` / `parseBid?` / `parseCard?` do
(`good_of_plain_ascii`, from Translated/MsgParsers*.lean and the regular-expression theorems Lemmas/RegexMsgBid*.lean), hence
`BoardsParse` holds (`session_boards_parse_ascii`) and the capstone needs no parse hypothesis
(`translated_main_thread_is_session_program_ascii`).
-/
set_option maxRecDepth 4000
namespace Bridge.Translated.MainE
open Bridge Bridge.Py Bridge.Generated.PyCore
open Bridge.Translated.MainA Bridge.Translated.MainB Bridge.Translated.SeatB
open Bridge.Translated.MainC Bridge.Translated.MainD Bridge.Translated.MsgParsers Bridge.RegexMsgBid
open Bridge.Admission

/-- ASCII without the four information separators U+001C..U+001F (white space for Python's `\s`, not for the model) -/
def PlainAscii (m : List Char) : Prop := ∀ x ∈ m, x.toNat < 128 ∧ ¬ (0x1C ≤ x.toNat ∧ x.toNat ≤ 0x1F)

theorem removeAlertAux_mem : ∀ (F : Nat) (s : List Char) (x : Char), x ∈ removeAlertAux F s → x ∈ s := by
  intro F
  induction F with
  | zero => intro s x h; exact h
  | succ F ih =>
    intro s x h
    cases s with
    | nil => rw [removeAlertAux_nil] at h; exact h
    | cons c r =>
      rw [removeAlertAux_succ] at h
      cases ha : alertAt (c :: r) with
      | none =>
        rw [ha] at h
        simp only [List.mem_cons] at h ⊢
        rcases h with h | h
        · exact Or.inl h
        · exact Or.inr (ih r x h)
      | some kt =>
        obtain ⟨k, t⟩ := kt
        rw [ha] at h
        have := (alertAt_spec _ _ _ ha).2.2
        have hx := ih t x h
        rw [← this] at hx
        exact List.mem_of_mem_drop hx

theorem plainAscii_preprocess (m : List Char) (h : PlainAscii m) : PlainAscii (preprocessBid m) := by
  intro x hx
  unfold preprocessBid at hx
  split at hx
  · exact h x (removeAlertAux_mem _ _ _ hx)
  · exact h x hx

/-- EVERY plain-ASCII text is read alike by the model and by the translated code, whoever it is read for -/
theorem good_of_plain_ascii (F : Nat) (hF : 22 ≤ F) (m : List Char) (h : PlainAscii m) : Good F m := by
  refine ⟨?_, ?_, ?_⟩
  · intro ha g hg
    rw [preprocessBid_of_alert m ha,
      remove_alert_word_translated_ascii m h g (by omega)]
    rfl
  · intro a call hc g hg
    obtain ⟨g', rfl⟩ : ∃ g', g = g' + 22 := ⟨g - 22, by omega⟩
    exact mp_parse_bid_call g' _ (fun x hx => (plainAscii_preprocess m h x hx).1) a call hc
  · intro a card hc
    exact parse_card_translated_ascii m (fun x hx => (h x hx).1) a card hc

/-- every text the players send is plain ASCII -/
def AsciiTexts (sc : Scenario) : Prop :=
  ∀ bd ∈ sc.boards, (∀ x ∈ bd.2.calls, PlainAscii x.2) ∧ (∀ x ∈ bd.2.cards, PlainAscii x.2)

theorem session_streams_good_ascii (sc : Scenario) (hp : AsciiTexts sc) :
    AllGood 22 (fun p => sendsOn (Chan.t2m p) (sessionProg sc (.seat p))) := by
  intro p m hm
  obtain ⟨bd, hbd, h | h⟩ := session_stream_mem sc p m hm
  · obtain ⟨x, hx, rfl⟩ := List.mem_map.1 h
    exact good_of_plain_ascii 22 (Nat.le_refl _) _ ((hp bd hbd).1 x hx)
  · obtain ⟨x, hx, rfl⟩ := List.mem_map.1 h
    exact good_of_plain_ascii 22 (Nat.le_refl _) _ ((hp bd hbd).2 x hx)

/-- `BoardsParse` OF THE SESSION'S STREAMS HOLDS (at fuel 22) for ANY plain-ASCII texts -/
theorem session_boards_parse_ascii (sc : Scenario)
    (hc : ∀ bd ∈ sc.boards, ConformingAuction bd.1 bd.2 ∧ ConformingPlay bd.1 bd.2 ∧ TextsConform bd.1 bd.2)
    (hp : AsciiTexts sc) :
    BoardsParse sc 22 1 (sc.boards.map (·.1)) (fun p => sendsOn (Chan.t2m p) (sessionProg sc (.seat p))) :=
  boardsParse_of_good sc 22 sc.boards 1 _ hc (session_feeds sc) (session_streams_good_ascii sc hp)

/-- (1) + (2) of `ThreadsMainD` WITHOUT THE PARSE HYPOTHESIS, for any plain-ASCII texts -/
theorem translated_main_thread_is_session_program_ascii (sc : Scenario) (h : sc.boards ≠ [])
    (hc : ∀ bd ∈ sc.boards, ConformingAuction bd.1 bd.2 ∧ ConformingPlay bd.1 bd.2 ∧ TextsConform bd.1 bd.2)
    (hp : AsciiTexts sc)
    (hok : ∀ b ∈ sc.boards.map (·.1), ∀ p, ∀ c ∈ b.deal p, 2 ≤ c.rank ∧ c.rank ≤ 14)
    (reqs : List (List Char × List Char)) (opss : List (List Op)) (mops : List MainOp) (tf : Table) (conns : List Conn)
    (hacc : acceptLoopR Table.empty reqs = some (opss, mops, tf)) (hfull : tf.full = true)
    (hlen : conns.length = opss.length)
    (hN : tf .N = some sc.nsName) (hS : tf .S = some sc.nsName) (hE : tf .E = some sc.ewName) (hW : tf .W = some sc.ewName)
    (table0 : Val) (later accR ntR alR : List Val) (rest : List (Val × Val)) :
    ∃ opsS i' out,
      out = [opBind, opListen] ++ (conns.flatMap fun c => roundOps c.conn c.thread) ++ opsS ++
                ((conns.filter (·.alive)).map (·.thread)).map opJoin ∧
      encMainActs encRecord (sessionProg sc .main) = some (stripSleep opsS) ∧
      opsS.filter isEmitOp = (emitsOf (sessionProg sc .main)).map (encLogOp encRecord) ∧
      out.filter isEmitOp = (emitsOf (sessionProg sc .main)).map (encLogOp encRecord) ∧
      out.filter isEmitOp = sessionLogOps sc ∧
      ∀ f, 22 + conns.length + 800 ≤ f →
        callFn P f m_MainThread_run [encMainThread (encMainWorld
            (fun p => sendsOn (Chan.t2m p) (sessionProg sc (.seat p))) [] table0
            ((acceptSnapshots Table.empty reqs).map encTable ++ later)
            (acceptMore (conns.map (fun c => .tuple [c.conn, c.addr]) ++ accR) (conns.map (·.thread) ++ ntR)
              (conns.map (fun c => .bool c.alive) ++ alR) rest)) (.tuple ((sc.boards.map (·.1)).map encBoardSetting))]
          = .ok (.none, encMainThread (encMainWorld i' out
              (advBoards sc.boards.length (advTable (encTable tf) later).1 (advTable (encTable tf) later).2).1
              (advBoards sc.boards.length (advTable (encTable tf) later).1 (advTable (encTable tf) later).2).2
              (acceptMore accR ntR alR rest)) (.tuple ((sc.boards.map (·.1)).map encBoardSetting))) :=
  translated_main_thread_writes_the_session_log sc h hc 22 (session_boards_parse_ascii sc hc hp) hok reqs opss mops tf conns
    hacc hfull hlen hN hS hE hW table0 later accR ntR alR rest

/-! ## non-vacuity: texts OUTSIDE the protocol families that the theorems cover -/
instance (m : List Char) : Decidable (PlainAscii m) := by unfold PlainAscii; infer_instance

example : PlainAscii "north BIDS 3nt \t ALERT.  ".toList ∧
    parseBid? (preprocessBid "north BIDS 3nt \t ALERT.  ".toList) Seat.N.formal = some (Call.bid ⟨14, by decide⟩) := by
  decide +kernel
example : PlainAscii "WEST REDoubles  alert. ".toList ∧
    parseBid? (preprocessBid "WEST REDoubles  alert. ".toList) Seat.W.formal = some .rdbl := by decide +kernel
example : PlainAscii "south PLAYS tH with pleasure".toList ∧
    parseCard? "south PLAYS tH with pleasure".toList .S = some ⟨10, .H⟩ := by decide +kernel

end Bridge.Translated.MainE
