import BridgeVerif.Translated.PlayLemmasG
/-! Translated playing phases = model: `ObservedPlayingPhase` -/
namespace Bridge.Translated
open Bridge Bridge.Py Bridge.Generated.PyCore

theorem beq_tuple_none (xs : List Val) : (Val.tuple xs).beq .none = false := by simp only [Val.beq]

/-- the attributes `ObservedPlayingPhase.__init__` adds -/
def obsEx (me : Seat) (hand : List Card) (dh : Option (List Card)) : List (Id × Val) :=
  [(n__player, encSeat me), (n__hand, encCards hand), (n__dummy_hand, encOpt encCards dh)]

theorem encObserved_eq (c : Contract) (o : Observed) :
    encObserved c o = ppObj n_ObservedPlayingPhase c o.base (obsEx o.me o.hand o.dummyHand) := rfl

theorem observed_play_call (f : Nat) (c : Contract) (o : Observed) (card : Card) (p : Seat) (hwf : WF o.base) :
    callF (mkRec P (f+60)) m_ObservedPlayingPhase_play_card_by_player [encObserved c o, encCard card, encSeat p]
      = match o.play card p with
        | .error .dummyNotSet => .error (.exc K.Exception)
        | .error _ => .error (.exc K.ValueError)
        | .ok o' => .ok (.none, encObserved c o') := by
  rw [callF_def]
  simp only [m_ObservedPlayingPhase_play_card_by_player, bindParams, Option.map]
  obtain ⟨s, me, hand, dh⟩ := o
  simp only at hwf
  have h1 := check_active_call (f+48) n_ObservedPlayingPhase (obsEx me hand dh) c s p
  simp only [encObserved, obsEx, ppObj, baseFields, List.cons_append, List.nil_append, encCards] at h1 ⊢
  by_cases h : p = s.active
  · subst h
    simp only [ne_eq, not_true_eq_false, if_false] at h1
    ppsimp [mth_pp_check_active, mth_pp_play_card, mth_pp_check_has]
    rw [h1]
    by_cases hme : s.active = me
    · by_cases hm : card ∈ hand
      · have h2 := play_card_call (f+8) n_ObservedPlayingPhase ppclass_observed (obsEx me (hand.erase card) dh) c s card (fun _ => hwf)
        simp only [obsEx, ppObj, baseFields, List.cons_append, List.nil_append, encCards] at h2
        ppsimp [mth_pp_play_card, mth_pp_check_has, if_pos hme, check_has_call, hm, removeFirst_encCard]
        rw [h2]
        simp only [Observed.play, ne_eq, not_true_eq_false, if_false, if_pos hme, hm]
        ppsimp []
      · ppsimp [mth_pp_play_card, mth_pp_check_has, if_pos hme, check_has_call, hm]
        simp only [Observed.play, ne_eq, not_true_eq_false, if_false, if_pos hme, hm, not_false_eq_true, if_true]
    · by_cases hdu : s.active = s.dummy
      · cases dh with
        | none =>
          ppsimp [mth_pp_play_card, mth_pp_check_has, if_neg hme, if_pos hdu]
          simp only [Observed.play, ne_eq, not_true_eq_false, if_false, if_neg hme, if_pos hdu]
        | some dl =>
          by_cases hm : card ∈ dl
          · have h2 := play_card_call (f+8) n_ObservedPlayingPhase ppclass_observed
              (obsEx me hand (some (dl.erase card))) c s card (fun _ => hwf)
            simp only [obsEx, ppObj, baseFields, List.cons_append, List.nil_append, encCards, encOpt] at h2
            ppsimp [mth_pp_play_card, mth_pp_check_has, if_neg hme, if_pos hdu, check_has_call, hm, removeFirst_encCard,
              beq_tuple_none, encCards]
            rw [h2]
            simp only [Observed.play, ne_eq, not_true_eq_false, if_false, if_neg hme, if_pos hdu, hm]
            ppsimp [encCards]
          · ppsimp [mth_pp_play_card, mth_pp_check_has, if_neg hme, if_pos hdu, check_has_call, hm, beq_tuple_none, encCards]
            simp only [Observed.play, ne_eq, not_true_eq_false, if_false, if_neg hme, if_pos hdu, hm, not_false_eq_true,
              if_true]
      · have h2 := play_card_call (f+8) n_ObservedPlayingPhase ppclass_observed (obsEx me hand dh) c s card (fun _ => hwf)
        simp only [obsEx, ppObj, baseFields, List.cons_append, List.nil_append, encCards] at h2
        ppsimp [mth_pp_play_card, mth_pp_check_has, if_neg hme, if_neg hdu]
        rw [h2]
        simp only [Observed.play, ne_eq, not_true_eq_false, if_false, if_neg hme, if_neg hdu]
        ppsimp []
  · simp only [ne_eq, h, not_false_eq_true, if_true] at h1
    ppsimp [mth_pp_check_active, mth_pp_play_card]
    rw [h1]
    ppsimp [Observed.play, h]

theorem set_dummy_call (f : Nat) (c : Contract) (o : Observed) (dl : List Card) :
    callF (mkRec P (f+10)) m_ObservedPlayingPhase_set_dummy_hand [encObserved c o, encCards dl]
      = .ok (.none, encObserved c (o.setDummy dl)) := by
  rw [callF_def]
  simp only [m_ObservedPlayingPhase_set_dummy_hand, bindParams, Option.map, encObserved, baseFields, Observed.setDummy]
  ppsimp []

theorem observed_init_call (f : Nat) (c : Contract) (me : Seat) (hand : List Card) :
    callF (mkRec P (f+50)) m_ObservedPlayingPhase___init__
        [.obj n_ObservedPlayingPhase [], encContract c, encSeat me, encCards hand] =
      match c.finalBid, c.declarer with
      | none, _ => .error (.exc K.Exception)
      | some _, none => .error (.exc K.AssertionError)
      | some b, some d => .ok (.none, encObserved c ⟨initState b d, me, hand, none⟩) := by
  rw [callF_def]
  simp only [m_ObservedPlayingPhase___init__, bindParams, Option.map]
  ppsimp [mth_pp_init, init_call]
  cases c.finalBid with
  | none => ppsimp []
  | some b =>
    cases c.declarer with
    | none => ppsimp []
    | some d => ppsimp [ppObj, baseFields, encObserved]

theorem observed_available_call (f : Nat) (c : Contract) (o : Observed) :
    callF (mkRec P (f+30)) m_ObservedPlayingPhase_current_available_cards_in_hand [encObserved c o]
      = .ok (encCards (o.base.currentAvailable o.hand), encObserved c o) := by
  rw [callF_def]
  simp only [m_ObservedPlayingPhase_current_available_cards_in_hand, bindParams, Option.map]
  obtain ⟨s, me, hand, dh⟩ := o
  have h1 := current_available_call (f+7) n_ObservedPlayingPhase (obsEx me hand dh) c s hand
  simp only [encObserved, obsEx, ppObj, baseFields, List.cons_append, List.nil_append] at h1 ⊢
  ppsimp [mth_pp_current_available]
  rw [h1]
  ppsimp []

theorem observed_available_dummy_call (f : Nat) (c : Contract) (o : Observed) :
    callF (mkRec P (f+30)) m_ObservedPlayingPhase_current_available_cards_in_dummy_hand [encObserved c o]
      = match o.dummyHand with
        | none => .error (.exc K.Exception)
        | some dl => .ok (encCards (o.base.currentAvailable dl), encObserved c o) := by
  rw [callF_def]
  simp only [m_ObservedPlayingPhase_current_available_cards_in_dummy_hand, bindParams, Option.map]
  obtain ⟨s, me, hand, dh⟩ := o
  cases dh with
  | none =>
    simp only [encObserved, baseFields, List.cons_append, List.nil_append]
    ppsimp []
  | some dl =>
    have h1 := current_available_call (f+7) n_ObservedPlayingPhase (obsEx me hand (some dl)) c s dl
    simp only [encObserved, obsEx, ppObj, baseFields, List.cons_append, List.nil_append, encOpt] at h1 ⊢
    ppsimp [mth_pp_current_available, beq_encCards_none]
    rw [h1]
    ppsimp []

end Bridge.Translated
