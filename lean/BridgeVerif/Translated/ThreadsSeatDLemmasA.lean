import BridgeVerif.Translated.ThreadsSeatC
import BridgeVerif.Props.C09
/-! (1) every `ready …` text the session model's client of seat `p` sends passes the translated `_check_message` against
the text the seat thread expects (the same text): finitely many texts, each decided in the kernel (the regular-expression
engine `Re.pyFullmatch` reduces there). -/
set_option maxRecDepth 4000
namespace Bridge.Translated.SeatD
open Bridge Bridge.Py Bridge.Generated.PyCore
open Bridge.Translated.SeatB (passesB passesB_sound readyCardText readyDummyText)

/-- `SeatA`'s and `SeatB`'s `passesCheck` are the same proposition -/
theorem passesCheck_iff (e m : Str) : Bridge.Translated.passesCheck e m ↔ SeatB.passesCheck e m := Iff.rfl

/-- the five names a card can be announced under: a seat's formal name, or `dummy` -/
def whoTexts : List Str := Seat.all.map Seat.formal ++ ["dummy".toList]

/-- the numbers of the thirteen tricks -/
def trickNums : List Nat := [1, 2, 3, 4, 5, 6, 7, 8, 9, 10, 11, 12, 13]

/-! ## the finite families, decided in the kernel -/

theorem ready_fixed_B : (Seat.all.all fun p =>
    passesB (p.formal ++ " ready for teams".toList) (p.formal ++ " ready for teams".toList) &&
    passesB (p.formal ++ " ready to start".toList) (p.formal ++ " ready to start".toList) &&
    passesB (p.formal ++ " ready for deal".toList) (readyFor p "deal".toList) &&
    passesB (p.formal ++ " ready for cards".toList) (readyFor p "cards".toList) &&
    passesB (p.formal ++ " ready for dummy".toList) (readyFor p "dummy".toList)) = true := by decide +kernel

theorem ready_bid_B : (Seat.all.all fun p => Seat.all.all fun a =>
    passesB (p.formal ++ " ready for ".toList ++ a.formal ++ "'s bid".toList)
      (readyFor p (a.formal ++ "'s bid".toList))) = true := by decide +kernel

theorem ready_card_B : (Seat.all.all fun p => whoTexts.all fun who => trickNums.all fun k =>
    passesB (p.formal ++ " ready for ".toList ++ who ++ "'s card to trick ".toList ++ natStr k)
      (readyFor p (who ++ "'s card to trick ".toList ++ natStr k))) = true := by decide +kernel

end Bridge.Translated.SeatD
