import BridgeVerif.Translated.ThreadsClientBLemmasC
/-! Translated `ClientThread.playing_phase`: the parser hypotheses, the two statements of the inner loop's body against
the model's `clientOpenR` / `clientMoveR` -/
set_option maxRecDepth 4000
namespace Bridge.Translated.ClientB
open Bridge Bridge.Py Bridge.Generated.PyCore Bridge.Translated Bridge.Translated.ClientA

/-- drop the decisions of the playing system (`playAsk`) -/
def erasePlays (ops : List Val) : List Val := ops.filter fun v => !(v.beq playAsk)

theorem cb_ask_beq : playAsk.beq playAsk = true := by simp [playAsk, Val.beq, beqL, vstr]
theorem cb_send_beq (m : Val) : (Val.tuple [vstr "send", m]).beq playAsk = false := by
  simp [playAsk, Val.beq, beqL, vstr]
theorem cb_recv_beq : (Val.tuple [vstr "recv"]).beq playAsk = false := by simp [playAsk, Val.beq, beqL, vstr]

theorem erasePlays_append (a b : List Val) : erasePlays (a ++ b) = erasePlays a ++ erasePlays b := by
  simp [erasePlays]

theorem encClientActs_append (p : Seat) : ∀ (a b : ClientActs) (x y : List Val),
    encClientActs p a = some x → encClientActs p b = some y → encClientActs p (a ++ b) = some (x ++ y) := by
  intro a
  induction a with
  | nil => intro b x y ha hb; simp only [encClientActs, Option.some.injEq] at ha; subst ha; simpa using hb
  | cons act r ih =>
    intro b x y ha hb
    simp only [encClientActs, Option.bind_eq_bind, List.cons_append] at ha ⊢
    cases h1 : encClientAct p act with
    | none => simp [h1] at ha
    | some u =>
      cases h2 : encClientActs p r with
      | none => simp [h1, h2] at ha
      | some v =>
        simp only [h1, h2, Option.bind_some, Option.pure_def, Option.some.injEq] at ha
        subst ha
        simp [ih b v y h2 hb]

/-- on every message still in the stream, the translated parsers of the playing phase return the encoding of what the
model's parsers return (where those succeed); the decisions still to come are cards of the deck -/
structure PlayParses (N : Nat) (i : ClientIn) : Prop where
  leader : ∀ m ∈ i.s, ∀ (d l : Seat), parseLeader? m d = some l →
    Returns N m_Client_parse_leader_message [.str m, encSeat d] (encSeat l)
  card : ∀ m ∈ i.s, ∀ (a : Seat) (c : Card), parseCard? m a = some c →
    Returns N m_MessageInterface_parse_card [.str m, encSeat a] (encCard c)
  dummy : ∀ m ∈ i.s, ∀ t, parseCards? m ['D', 'u', 'm', 'm', 'y'] = some t →
    Returns N m_Client_parse_cards [.str m, .str ['D', 'u', 'm', 'm', 'y']] (.str t) ∧
    ∀ dh, parseHand? t = some dh → ∃ hb, Returns N m_Client_parse_hand [.str t] (.tuple [encCards dh, hb])
  ok : ∀ c ∈ i.cards, c.ok = true

theorem PlayParses.tail_s {N : Nat} {m : Text} {st : List Text} {calls : List Call} {cards : List Card}
    (h : PlayParses N ⟨m :: st, calls, cards⟩) (calls' : List Call) : PlayParses N ⟨st, calls', cards⟩ :=
  ⟨fun x hx => h.leader x (List.mem_cons_of_mem _ hx), fun x hx => h.card x (List.mem_cons_of_mem _ hx),
   fun x hx => h.dummy x (List.mem_cons_of_mem _ hx), h.ok⟩
theorem PlayParses.tail_c {N : Nat} {st : List Text} {calls : List Call} {cd : Card} {cards : List Card}
    (h : PlayParses N ⟨st, calls, cd :: cards⟩) : PlayParses N ⟨st, calls, cards⟩ :=
  ⟨h.leader, h.card, h.dummy, fun x hx => h.ok x (List.mem_cons_of_mem _ hx)⟩

/-- the first statement of the inner loop's body is `clientOpenR` -/
theorem cb_open_step (p decl : Seat) (c : Contract) (o o1 : Observed) (opened op1 : Bool) (i i1 : ClientIn)
    (acts : ClientActs) (N : Nat) (h : clientOpenR p decl o opened i = some (acts, o1, op1, i1)) (hp : PlayParses N i)
    (bids plays out : List Val) (team : Str) (opp : Val) (extra : List (Id × Val)) (rest : Env) (f : Nat)
    (hf : N + 71 ≤ f) :
    ∃ ops rest', encClientActs p acts = some ops ∧ erasePlays ops = ops ∧ o1.base = o.base ∧ PlayParses N i1 ∧
      i1.cards = i.cards ∧
      execStmtF (mkRec P f) P (penv (cself p i.s bids plays out team opp extra) c decl o opened rest) cpOpen
        = .ok (penv (cself p i1.s bids plays (out ++ ops) team opp extra) c decl o1 op1 rest', .next) := by
  obtain ⟨f0, rfl⟩ : ∃ f0, f = f0 + 70 := ⟨f - 70, by omega⟩
  unfold clientOpenR at h
  by_cases hA : o.base.active = decl.partner ∧ (!opened) = true
  · rw [if_pos hA] at h
    obtain ⟨ha, hop⟩ := hA
    have hop' : opened = false := by simpa using hop
    subst hop'
    by_cases hB : decl.partner ≠ p
    · rw [if_pos hB] at h
      obtain ⟨st, calls, cards⟩ := i
      cases st with
      | nil => simp [ClientIn.recv] at h
      | cons m st =>
        simp only [ClientIn.recv, Option.bind_eq_bind, Option.bind_some, String.reduceToList] at h
        cases ht : parseCards? m ['D', 'u', 'm', 'm', 'y'] with
        | none => simp [ht] at h
        | some t =>
          cases hh : parseHand? t with
          | none => simp [ht, hh] at h
          | some dh =>
            simp only [ht, hh, Option.bind_some, Option.pure_def, Option.some.injEq, Prod.mk.injEq] at h
            obtain ⟨rfl, rfl, rfl, rfl⟩ := h
            obtain ⟨hR1, hR2⟩ := hp.dummy m (List.mem_cons_self ..) t ht
            obtain ⟨hb, hR3⟩ := hR2 dh hh
            obtain ⟨s1, h1⟩ := hR1.callF
            obtain ⟨s2, h2⟩ := hR3.callF
            obtain ⟨rest', hx⟩ := cb_open_recv f0 p decl c o ha hB m t dh hb s1 s2 (fun g => h1 _ (by omega))
              (fun g => h2 _ (by omega)) st bids plays out team opp extra rest
            exact ⟨_, rest', by simp [encClientActs, encClientAct], by simp [erasePlays, cb_send_beq, cb_recv_beq],
              rfl, hp.tail_s _, rfl, hx⟩
    · rw [if_neg hB] at h
      simp only [Option.pure_def, Option.some.injEq, Prod.mk.injEq] at h
      obtain ⟨rfl, rfl, rfl, rfl⟩ := h
      have hpe : decl.partner = p := by
        cases hx : decide (decl.partner = p) with
        | true => simpa using hx
        | false => exact absurd (by simpa using hx) hB
      subst hpe
      exact ⟨[], rest, rfl, rfl, rfl, hp, rfl, by
        simpa using cb_open_self f0 decl c o ha i.s bids plays out team opp extra rest⟩
  · rw [if_neg hA] at h
    simp only [Option.pure_def, Option.some.injEq, Prod.mk.injEq] at h
    obtain ⟨rfl, rfl, rfl, rfl⟩ := h
    exact ⟨[], rest, rfl, rfl, rfl, hp, rfl, by simpa using cb_open_skip f0 decl c o opened hA _ rest⟩

/-- the second statement of the inner loop's body is `clientMoveR` -/
theorem cb_move_step (p decl : Seat) (c : Contract) (o o2 : Observed) (i i2 : ClientIn) (acts : ClientActs) (N : Nat)
    (hwf : WF o.base) (h : clientMoveR p decl o.base.active o i = some (acts, o2, i2)) (hp : PlayParses N i)
    (bids out : List Val) (team : Str) (opp : Val) (extra : List (Id × Val)) (opened : Bool) (rest : Env) (f : Nat)
    (hf : N + 91 ≤ f) :
    ∃ ops rest', encClientActs p acts = some (erasePlays ops) ∧ WF o2.base ∧ PlayParses N i2 ∧
      execStmtF (mkRec P f) P
          (penv (cself p i.s bids (i.cards.map encCard) out team opp extra) c decl o opened rest) cpMove
        = .ok (penv (cself p i2.s bids (i2.cards.map encCard) (out ++ ops) team opp extra) c decl o2 opened rest',
            .next) := by
  obtain ⟨f0, rfl⟩ : ∃ f0, f = f0 + 70 := ⟨f - 70, by omega⟩
  unfold clientMoveR at h
  obtain ⟨st, calls, cards⟩ := i
  by_cases h1 : o.base.active = p ∧ p ≠ decl.partner
  · rw [if_pos h1] at h
    cases cards with
    | nil => simp [ClientIn.nextCard] at h
    | cons cd cs =>
      simp only [ClientIn.nextCard, Option.bind_eq_bind, Option.bind_some] at h
      cases hpl : o.play cd p with
      | error e => simp [hpl] at h
      | ok o' =>
        simp only [hpl, Option.pure_def, Option.some.injEq, Prod.mk.injEq] at h
        obtain ⟨rfl, rfl, rfl⟩ := h
        obtain ⟨s0, hcs⟩ := (card_str_translated cd (hp.ok cd (List.mem_cons_self ..))).callF
        obtain ⟨rest', hx⟩ := cb_move_own f0 p decl c o o' cd hwf h1.1 h1.2 hpl s0 (fun g => hcs _ (by omega)) st bids
          (cs.map encCard) out team opp extra opened rest
        exact ⟨_, rest', by simp [encClientActs, encClientAct, erasePlays, cb_ask_beq, cb_send_beq],
          wf_observed_play o o' cd p hwf hpl, hp.tail_c, hx⟩
  · rw [if_neg h1] at h
    by_cases h2 : o.base.active = decl.partner ∧ p = decl
    · rw [if_pos h2] at h
      obtain ⟨ha, hpd⟩ := h2
      subst hpd
      cases hdh : o.dummyHand with
      | none => simp [hdh] at h
      | some dh =>
        simp only [hdh, Option.isNone_some, Bool.false_eq_true, if_false] at h
        cases cards with
        | nil => simp [ClientIn.nextCard] at h
        | cons cd cs =>
          simp only [ClientIn.nextCard, Option.bind_eq_bind, Option.bind_some] at h
          cases hpl : o.play cd p.partner with
          | error e => simp [hpl] at h
          | ok o' =>
            simp only [hpl, Option.pure_def, Option.some.injEq, Prod.mk.injEq] at h
            obtain ⟨rfl, rfl, rfl⟩ := h
            obtain ⟨s0, hcs⟩ := (card_str_translated cd (hp.ok cd (List.mem_cons_self ..))).callF
            obtain ⟨rest', hx⟩ := cb_move_dummy f0 p c o o' cd hwf ha dh hdh hpl s0 (fun g => hcs _ (by omega)) st bids
              (cs.map encCard) out team opp extra opened rest
            exact ⟨_, rest', by simp [encClientActs, encClientAct, erasePlays, cb_ask_beq, cb_send_beq],
              wf_observed_play o o' cd _ hwf hpl, hp.tail_c, hx⟩
    · rw [if_neg h2] at h
      cases st with
      | nil => simp [ClientIn.recv] at h
      | cons m st =>
        simp only [ClientIn.recv, Option.bind_eq_bind, Option.bind_some] at h
        cases hpc : parseCard? m o.base.active with
        | none => simp [hpc] at h
        | some cd =>
          simp only [hpc, Option.bind_some] at h
          cases hpl : o.play cd o.base.active with
          | error e => simp [hpl] at h
          | ok o' =>
            simp only [hpl, Option.pure_def, Option.some.injEq, Prod.mk.injEq] at h
            obtain ⟨rfl, rfl, rfl⟩ := h
            obtain ⟨s0, hpcF⟩ := (hp.card m (List.mem_cons_self ..) _ cd hpc).callF
            obtain ⟨rest', hx⟩ := cb_move_relay f0 p decl c o o' cd hwf h1 h2 hpl m s0 (fun g => hpcF _ (by omega)) st
              bids (cards.map encCard) out team opp extra opened rest
            exact ⟨_, rest', by simp [encClientActs, encClientAct, erasePlays, cb_recv_beq, cb_send_beq],
              wf_observed_play o o' cd _ hwf hpl, hp.tail_s _, hx⟩

/-- the body of the inner loop is one turn of `clientTrickR` (`clientCardR`) -/
theorem cb_card_step (p decl : Seat) (c : Contract) (o o' : Observed) (opened opened' : Bool) (i i' : ClientIn)
    (acts : ClientActs) (N : Nat) (hwf : WF o.base) (h : clientCardR p decl o opened i = some (acts, o', opened', i'))
    (hp : PlayParses N i) (bids out : List Val) (team : Str) (opp : Val) (extra : List (Id × Val)) (rest : Env)
    (f : Nat) (hf : N + 91 ≤ f) :
    ∃ ops rest', encClientActs p acts = some (erasePlays ops) ∧ WF o'.base ∧ PlayParses N i' ∧
      execF (mkRec P f) P
          (penv (cself p i.s bids (i.cards.map encCard) out team opp extra) c decl o opened rest) cpInner
        = .ok (penv (cself p i'.s bids (i'.cards.map encCard) (out ++ ops) team opp extra) c decl o' opened' rest',
            .next) := by
  unfold clientCardR at h
  cases h0 : clientOpenR p decl o opened i with
  | none => simp [h0] at h
  | some x =>
    obtain ⟨acts0, o1, op1, i1⟩ := x
    simp only [h0, Option.bind_eq_bind, Option.bind_some] at h
    obtain ⟨ops0, rest0, e0, er0, hb, hp1, hc1, hx0⟩ := cb_open_step p decl c o o1 opened op1 i i1 acts0 N h0 hp bids
      (i.cards.map encCard) out team opp extra rest f (by omega)
    have hact : o.base.active = o1.base.active := by rw [hb]
    rw [hact] at h
    cases hm : clientMoveR p decl o1.base.active o1 i1 with
    | none => simp [hm] at h
    | some y =>
      obtain ⟨acts1, o2, i2⟩ := y
      simp only [hm, Option.bind_some, Option.pure_def, Option.some.injEq, Prod.mk.injEq] at h
      obtain ⟨rfl, rfl, rfl, rfl⟩ := h
      obtain ⟨ops1, rest1, e1, hwf2, hp2, hx1⟩ := cb_move_step p decl c o1 o2 i1 i2 acts1 N (hb ▸ hwf) hm hp1 bids
        (out ++ ops0) team opp extra op1 rest0 f hf
      refine ⟨ops0 ++ ops1, rest1, ?_, hwf2, hp2, ?_⟩
      · rw [erasePlays_append, er0]
        exact encClientActs_append p _ _ _ _ e0 e1
      · rw [cpInner_eq]
        simp only [execF, hx0, bind_ok]
        rw [← hc1, hx1]
        simp only [bind_ok, pure_eq, List.append_assoc]

end Bridge.Translated.ClientB
