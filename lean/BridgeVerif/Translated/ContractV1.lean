import BridgeVerif.Translated.Notation
/-! `contract.py` AS TRANSLATED on every contract with vulnerability `.ns` (kernel evaluation; see Contract.lean) -/
namespace Bridge.Translated
open Bridge.Py Bridge.Generated.PyCore

theorem contract_methods_v1 : ∀ b ∈ bidOpts, ∀ x xx : Bool, ∀ d ∈ seatOpts,
    contractAgrees ⟨b, x, xx, .ns, d⟩ = true := by
  decide +kernel

end Bridge.Translated
