import BridgeVerif.Translated.Hands
import BridgeVerif.Model.JsonLog
/-! Translated JSON parser (parser.py) = model: the notation readers on ARBITRARY strings, at any sufficient fuel: `Card.str_to_card`,
`Card.rank_str_to_int`, `Bid.str_to_bid`, `Vul.str_to_vul` return the encoding of what the model (`strToCard?`, `strToCall?`,
`strToVul?`) reads (only this direction: where the model answers `none` nothing is claimed); `C[name]` for the Enum classes -/
namespace Bridge.Translated
open Bridge Bridge.Py Bridge.Generated.PyCore

theorem jp_mth_rank_str_to_int : P.method? classDepth n_Card n_rank_str_to_int = some (n_Card, m_Card_rank_str_to_int) := rfl
theorem jp_mth_str_to_card : P.method? classDepth n_Card n_str_to_card = some (n_Card, m_Card_str_to_card) := rfl

theorem jp_beq_str (a b : List Char) : (Val.str a).beq (.str b) = (a == b) := by simp only [Val.beq]

theorem jp_digit_parse (b : Char) (r : Nat) (h : digitVal? b = some r) : parseInt? [b] = some (r : Int) := by
  unfold digitVal? at h
  split at h
  · rename_i hd
    cases h
    have h1 : b ≠ '-' := by rintro rfl; exact absurd hd (by decide)
    have h2 : b ≠ '+' := by rintro rfl; exact absurd hd (by decide)
    have hdig : b.isDigit = true := by
      obtain ⟨ha, hb⟩ := hd
      simp only [Char.isDigit, Bool.and_eq_true, decide_eq_true_eq]
      exact ⟨ha, hb⟩
    unfold parseInt?
    split
    · rename_i heq; cases heq; exact absurd rfl h1
    · rename_i heq; cases heq; exact absurd rfl h2
    · simp [parseNat?, hdig]
  · cases h

theorem jp_rankOfChar_cases (b : Char) (r : Nat) (h : rankOfChar? b = some r) :
    (b = 'T' ∧ r = 10) ∨ (b = 'J' ∧ r = 11) ∨ (b = 'Q' ∧ r = 12) ∨ (b = 'K' ∧ r = 13) ∨ (b = 'A' ∧ r = 14) ∨
    (b ≠ 'T' ∧ b ≠ 'J' ∧ b ≠ 'Q' ∧ b ≠ 'K' ∧ b ≠ 'A' ∧ digitVal? b = some r) := by
  unfold rankOfChar? at h
  split at h
  · cases h; simp
  · cases h; simp
  · cases h; simp
  · cases h; simp
  · cases h; simp
  · rename_i h1 h2 h3 h4 h5
    right; right; right; right; right
    exact ⟨fun e => h1 e, fun e => h2 e, fun e => h3 e, fun e => h4 e, fun e => h5 e, h⟩

theorem jp_builtin_int_str (r : Rec) (s : List Char) :
    builtinF r P .int [.str s] = match parseInt? s with
      | some n => .ok (.int n)
      | none => .error (.exc K.ValueError) := rfl

theorem jp_rank_str_to_int_call (f : Nat) (b : Char) (r : Nat) (h : rankOfChar? b = some r) :
    callF (mkRec P (f+10)) m_Card_rank_str_to_int [.cls n_Card, .str [b]] = .ok (.int r, .cls n_Card) := by
  rw [callF_def]
  simp only [m_Card_rank_str_to_int, bindParams, Option.map]
  rcases jp_rankOfChar_cases b r h with ⟨rfl, rfl⟩ | ⟨rfl, rfl⟩ | ⟨rfl, rfl⟩ | ⟨rfl, rfl⟩ | ⟨rfl, rfl⟩ | ⟨h1, h2, h3, h4, h5, hd⟩
  · ppsimp [jp_beq_str]; rfl
  · ppsimp [jp_beq_str]; rfl
  · ppsimp [jp_beq_str]; rfl
  · ppsimp [jp_beq_str]; rfl
  · ppsimp [jp_beq_str]; rfl
  · ppsimp [jp_beq_str, List.cons.injEq, beq_iff_eq, and_true, h1, h2, h3, h4, h5, jp_builtin_int_str, jp_digit_parse b r hd]

theorem jp_strToCard_cases (s : List Char) (c : Card) (h : strToCard? s = some c) :
    ∃ a b, s = [a, b] ∧ suitOfName? [a] = some c.suit ∧ rankOfChar? b = some c.rank ∧ c.ok = true := by
  unfold strToCard? at h
  split at h
  · rename_i a b
    split at h
    · rename_i su r hs hr
      refine ⟨a, b, rfl, ?_⟩
      unfold mkCard? at h
      split at h
      · cases h
      · split at h
        · cases h
        · cases h
          rename_i h1 h2
          refine ⟨hs, hr, ?_⟩
          simp only [Card.ok, Bool.and_eq_true, decide_eq_true_eq]
          exact ⟨by omega, h2⟩
    · cases h
  · cases h

theorem jp_suitOfName_one (a : Char) (su : Suit) (h : suitOfName? [a] = some su) :
    (a = 'C' ∧ su = .C) ∨ (a = 'D' ∧ su = .D) ∨ (a = 'H' ∧ su = .H) ∨ (a = 'S' ∧ su = .S) := by
  unfold suitOfName? at h
  split at h <;> simp_all

theorem jp_len_str (r : Rec) (s : List Char) : builtinF r P .len [.str s] = .ok (.int s.length) := rfl
theorem jp_index_str (r : Rec) (s : List Char) (iv : Val) :
    indexF r P (.str s) iv = match asInt? iv with
      | some n => (match normIndex s.length n with
        | some k => .ok (.str [s.getD k ' '])
        | none => .error (.exc K.IndexError))
      | none => .error (.exc K.TypeError) := rfl

def clsOf (c : Id) : ClassDef := (P.cls? c).getD default
theorem jp_cls_Suit : P.cls? n_Suit = some (clsOf n_Suit) := rfl
theorem jp_cls_Player : P.cls? n_Player = some (clsOf n_Player) := rfl
theorem jp_cls_Pair : P.cls? n_Pair = some (clsOf n_Pair) := rfl
theorem jp_cls_Vul : P.cls? n_Vul = some (clsOf n_Vul) := rfl
theorem jp_cls_Bid : P.cls? n_Bid = some (clsOf n_Bid) := rfl

theorem jp_member_suit (s : List Char) (su : Suit) (h : suitOfName? s = some su) :
    memberValue? (clsOf n_Suit) s = some (su.value : Int) := by
  unfold suitOfName? at h
  split at h <;> cases h <;> rfl
theorem jp_member_seat (s : List Char) (p : Seat) (h : seatOfName? s = some p) :
    memberValue? (clsOf n_Player) s = some (p.value : Int) := by
  unfold seatOfName? at h
  split at h <;> cases h <;> rfl
theorem jp_member_side (s : List Char) (sd : Side) (h : sideOfName? s = some sd) :
    memberValue? (clsOf n_Pair) s = some (sd.value : Int) := by
  unfold sideOfName? at h
  split at h
  · cases h; subst_vars; rfl
  · split at h
    · cases h; subst_vars; rfl
    · cases h

theorem jp_getD_0 (a : Char) (l : List Char) : (a :: l).getD (Int.toNat 0) ' ' = a := rfl
theorem jp_getD_1 (a b : Char) (l : List Char) : (a :: b :: l).getD (Int.toNat 1) ' ' = b := rfl

theorem jp_str_to_card_call (f : Nat) (s : List Char) (c : Card) (h : strToCard? s = some c) :
    callF (mkRec P (f+14)) m_Card_str_to_card [.cls n_Card, .str s] = .ok (encCard c, .cls n_Card) := by
  obtain ⟨a, b, rfl, hs, hr, hok⟩ := jp_strToCard_cases s c h
  rw [callF_def]
  simp only [m_Card_str_to_card, bindParams, Option.map]
  obtain ⟨r, su⟩ := c
  simp only at hs hr
  ppsimp [jp_len_str, jp_index_str, normIndex, beq_int, jp_mth_rank_str_to_int, jp_rank_str_to_int_call _ _ _ hr,
      jp_getD_0, jp_getD_1, jp_cls_Suit, jp_member_suit _ _ hs]
  have hc := hd_construct_card (f+3) ⟨r, su⟩ hok
  simp only [encSuit] at hc
  ppsimp [hc]

theorem jp_bid_members : (clsOf n_Bid).members = Call.all.map fun c => (callName c, (c.value : Int)) := by decide

theorem jp_member_call (s : List Char) (c : Call) (h : callOfName? s = some c) :
    memberValue? (clsOf n_Bid) s = some (c.value : Int) := by
  unfold callOfName? at h
  simp only [memberValue?, jp_bid_members, List.find?_map, Option.map_map]
  have e : ((fun (x : List Char × Int) => x.1 == s) ∘ fun c => (callName c, (c.value : Int))) = fun c => callName c == s := rfl
  rw [e, h]; rfl

theorem jp_beq_str' (a b : List Char) : (Val.str a).beq (.str b) = decide (a = b) := by
  simp only [Val.beq]; rw [Bool.eq_iff_iff]; simp

theorem jp_sliceList_tail {α} (a : α) (r : List α) : sliceList (a :: r) (some 1) none = r := by
  simp only [sliceList, clampIndex, List.length_cons]
  have : min (Int.toNat 1) (r.length + 1) = 1 := by
    show min 1 (r.length + 1) = 1
    omega
  simp

theorem jp_mth_str_to_bid : P.method? classDepth n_Bid n_str_to_bid = some (n_Bid, m_Bid_str_to_bid) := rfl

theorem jp_str_to_bid_call (f : Nat) (s : List Char) (c : Call) (h : strToCall? s = some c) :
    callF (mkRec P (f+10)) m_Bid_str_to_bid [.cls n_Bid, .str s] = .ok (encCall c, .cls n_Bid) := by
  rw [callF_def]
  simp only [m_Bid_str_to_bid, bindParams, Option.map]
  unfold strToCall? at h
  split at h
  · rename_i hc
    have hm := jp_member_call _ _ h
    rcases hc with rfl | rfl | rfl <;>
    · ppsimp [containsVal, List.any, jp_beq_str', Bool.or_false, Bool.or_true, Bool.true_or, Bool.false_or, bne, jp_cls_Bid, hm]
      rfl
  · rename_i hc
    have h1 : ¬ ['P', 'a', 's', 's'] = s := fun e => hc (Or.inl e.symm)
    have h2 : ¬ ['X'] = s := fun e => hc (Or.inr (Or.inl e.symm))
    have h3 : ¬ ['X', 'X'] = s := fun e => hc (Or.inr (Or.inr e.symm))
    split at h
    · cases h
    · rename_i a r
      have hm := jp_member_call _ _ h
      ppsimp [containsVal, List.any, jp_beq_str', Bool.or_false, Bool.or_true, Bool.true_or, Bool.false_or, bne, jp_cls_Bid, hm,
        h1, h2, h3, decide_false, jp_sliceList_tail, jp_index_str, normIndex_zero_succ, List.getD_cons_zero]
      rfl

theorem jp_strToVul_dom (s : List Char) (v : Vul) (h : strToVul? s = some v) :
    (s = "None".toList ∧ v = .none) ∨ (s = "Love".toList ∧ v = .none) ∨ (s = ['-'] ∧ v = .none) ∨
    (s = "Both".toList ∧ v = .both) ∨ (s = "All".toList ∧ v = .both) ∨ (s = "NS".toList ∧ v = .ns) ∨
    (s = "EW".toList ∧ v = .ew) ∨ (s = "NONE".toList ∧ v = .none) ∨ (s = "BOTH".toList ∧ v = .both) := by
  unfold strToVul? at h
  split at h
  · rename_i hc; cases h
    rcases hc with hc | hc | hc <;> simp [hc]
  split at h
  · rename_i hc; cases h
    rcases hc with hc | hc <;> simp [hc]
  split at h
  · rename_i hc; cases h; simp [hc]
  split at h
  · rename_i hc; cases h; simp [hc]
  split at h
  · rename_i hc; cases h; simp [hc]
  split at h
  · rename_i hc; cases h; simp [hc]
  cases h

theorem jp_mth_str_to_vul : P.method? classDepth n_Vul n_str_to_vul = some (n_Vul, m_Vul_str_to_vul) := rfl

theorem jp_str_to_vul_call (f : Nat) (s : List Char) (v : Vul) (h : strToVul? s = some v) :
    callF (mkRec P (f+10)) m_Vul_str_to_vul [.cls n_Vul, .str s] = .ok (encVul v, .cls n_Vul) := by
  rcases jp_strToVul_dom s v h with ⟨rfl, rfl⟩ | ⟨rfl, rfl⟩ | ⟨rfl, rfl⟩ | ⟨rfl, rfl⟩ | ⟨rfl, rfl⟩ | ⟨rfl, rfl⟩ |
    ⟨rfl, rfl⟩ | ⟨rfl, rfl⟩ | ⟨rfl, rfl⟩ <;>
  · rw [callF_def]
    simp only [m_Vul_str_to_vul, bindParams, Option.map]
    ppsimp [containsVal, List.any, jp_beq_str', Bool.or_false, Bool.or_true, Bool.true_or, Bool.false_or, bne, jp_cls_Vul,
      String.toList]
    try rfl

theorem jp_mth_contract_post : P.method? classDepth n_Contract K.postInit = some (n_Contract, m_Contract___post_init__) := rfl

theorem jp_contract_post_call (f : Nat) (fb x xx v d : Val) (h1 : fb.beq (.enum n_Bid 37) = false)
    (h2 : fb.beq (.enum n_Bid 38) = false) :
    callF (mkRec P (f+8)) m_Contract___post_init__
        [.obj n_Contract [(n_final_bid, fb), (n_x, x), (n_xx, xx), (n_vul, v), (n_declarer, d)]]
      = .ok (.none, .obj n_Contract [(n_final_bid, fb), (n_x, x), (n_xx, xx), (n_vul, v), (n_declarer, d)]) := by
  rw [callF_def]
  simp only [m_Contract___post_init__, bindParams, Option.map]
  ppsimp [h1, h2]

theorem jp_construct_contract (f : Nat) (fb x xx v d : Val) (h1 : fb.beq (.enum n_Bid 37) = false)
    (h2 : fb.beq (.enum n_Bid 38) = false) :
    constructF (mkRec P (f+9)) P n_Contract [fb, x, xx, v, d]
      = .ok (.obj n_Contract [(n_final_bid, fb), (n_x, x), (n_xx, xx), (n_vul, v), (n_declarer, d)]) := by
  have e : constructF (mkRec P (f+9)) P n_Contract [fb, x, xx, v, d]
      = (callF (mkRec P (f+8)) m_Contract___post_init__
          [.obj n_Contract [(n_final_bid, fb), (n_x, x), (n_xx, xx), (n_vul, v), (n_declarer, d)]] >>= fun x => pure x.2) := rfl
  rw [e, jp_contract_post_call f fb x xx v d h1 h2]; rfl

theorem jp_stripX_snoc (s0 : List Char) (c : Char) : stripX (s0 ++ [c]) = if c = 'X' then some s0 else none := by
  simp only [stripX, List.reverse_append, List.reverse_cons, List.reverse_nil, List.nil_append, List.cons_append]
  split
  · rename_i r heq
    cases heq; simp
  · rename_i hne
    split
    · subst_vars; exact absurd rfl (hne _)
    · rfl

theorem jp_index_last (r : Rec) (s0 : List Char) (c : Char) :
    indexF r P (.str (s0 ++ [c])) (.int (-1)) = .ok (.str [c]) := by
  have hn : normIndex (s0 ++ [c]).length (-1) = some s0.length := by
    simp [normIndex]
  simp only [jp_index_str, pp_asInt_int, hn]
  simp

theorem jp_sliceList_init (s0 : List Char) (c : Char) : sliceList (s0 ++ [c]) none (some (-1)) = s0 := by
  simp [sliceList, clampIndex]

end Bridge.Translated
