import BridgeVerif.Translated.ThreadsMainCLemmasF
/-! Translated `MainThread.run`: ONE iteration of the board loop, a PLAYED board -/
set_option maxRecDepth 4000
set_option linter.unusedSimpArgs false
namespace Bridge.Translated.MainC
open Bridge Bridge.Py Bridge.Generated.PyCore Bridge.Translated.MainA Bridge.Translated.MainB

/-- the playing hypothesis in the form the symbolic execution uses -/
theorem mc_playing_calls (c : Contract) (deal : Seat → List Card) (decl : Seat) (w0 w : WithHands) (i i' : MainIn)
    (acts : MainActs)
    (hw0 : WithHands.init c deal = some w0) (hdecl : c.declarer = some decl)
    (hr : mainPlayingR decl (cardsMsg "Dummy".toList (deal decl.partner)) w0 i = some (acts, w, i'))
    (hpp : PlayParses decl (cardsMsg "Dummy".toList (deal decl.partner)) 13 1 w0 i)
    (hok : ∀ c ∈ deal decl.partner, 2 ≤ c.rank ∧ c.rank ≤ 14) (more : List (Val × Val)) (bs : Val) :
    ∃ opsS, playingOpsS encRecord decl (cardsMsg "Dummy".toList (deal decl.partner)) w0 i = some opsS ∧
      encMainActs encRecord acts = some (stripSleep opsS) ∧
      ∀ f0, 80 ≤ f0 → ∀ out T TS j, callF (mkRec P (f0 + j)) m_MainThread_playing_phase
          [encMainThread (encMainWorld i out T TS more) bs, encContract c, .dict (handsKvs deal)]
        = .ok (.tuple [encHistory c w.base.history, .int (declTricks decl w)],
               encMainThread (encMainWorld i' (out ++ opsS) T TS more) bs) := by
  obtain ⟨opsS, hops, hstrip, _⟩ := main_playing_translated encRecord c deal decl w0 w i i' acts [] .none [] more bs
    hw0 hdecl hr hpp hok
  refine ⟨opsS, hops, hstrip, ?_⟩
  intro f0 hf0 out T TS j
  obtain ⟨opsS', hops', _, h⟩ := main_playing_translated encRecord c deal decl w0 w i i' acts out T TS more bs
    hw0 hdecl hr hpp hok
  have e : opsS' = opsS := by rw [hops] at hops'; exact (Option.some.inj hops').symm
  subst e
  exact h (f0 + j + 1) (by omega)

/-- ONE ITERATION of the board loop, a PLAYED board -/
theorem mc_board_played (sc : Scenario) (F k n : Nat) (b : BoardSetting) (i i1 i2 : MainIn) (bid play : MainActs) (s : AState)
    (c : Contract) (decl : Seat) (w0 w : WithHands)
    (hbidR : mainBiddingR 321 (AState.init b.dealer b.vul) i = some (bid, s, i1)) (hc : s.contract = some c)
    (hpo : c.isPassedOut = false) (hdecl : c.declarer = some decl) (hw0 : WithHands.init c b.deal = some w0)
    (hplayR : mainPlayingR decl (cardsMsg "Dummy".toList (b.deal decl.partner)) w0 i1 = some (play, w, i2))
    (hmsgs : BidMsgsOK F 321 (AState.init b.dealer b.vul) i)
    (hpp : PlayParses decl (cardsMsg "Dummy".toList (b.deal decl.partner)) 13 1 w0 i1)
    (hok : ∀ p, ∀ c ∈ b.deal p, 2 ≤ c.rank ∧ c.rank ≤ 14)
    (boards : List BoardSetting) (h1 : 1 ≤ k) (hb : boards[k-1]? = some b)
    (more : List (Val × Val)) :
    ∃ opsS, encMainActs encRecord (mainDealR k b ++ bid ++ play ++
          finActs (decide (k = n)) (recordFrom sc b s.history.reverse c (some w)))
        = some (stripSleep opsS ++ lastOps (k = n)) ∧
      ∀ (env : Env) (out : List Val) (table : Val) (tables : List Val),
      lookup env K.self
        = some (encMainThread (encMainWorld i out table tables more) (.tuple (boards.map encBoardSetting))) →
      lookup env n_board_number = some (.int k) →
      lookup env n_max_board_num = some (.int ((n : Int) + 1)) →
      lookup env n_ns_team_name = some (.str sc.nsName) →
      lookup env n_ew_team_name = some (.str sc.ewName) →
      ∀ f, F + 700 ≤ f → ∃ env', exec P f env mcBoardBody = .ok (env', if k = n then .brk else .next) ∧
        lookup env' K.self = some (encMainThread (encMainWorld i2 (out ++ opsS) (tableAfterDeal table tables).1
          (tableAfterDeal table tables).2 more) (.tuple (boards.map encBoardSetting))) ∧
        Frame boardVars env env' := by
  obtain ⟨bidOps, hbidops, hbidcalls⟩ := mc_bidding_calls F b i i1 bid s c hbidR hc hmsgs more
    (.tuple (boards.map encBoardSetting))
  obtain ⟨playOps, _, hplayops, hplaycalls⟩ := mc_playing_calls c b.deal decl w0 w i1 i2 play hw0 hdecl hplayR hpp
    (hok decl.partner) more (.tuple (boards.map encBoardSetting))
  obtain ⟨fb, hfb⟩ : ∃ fb, c.finalBid = some fb := by
    cases hx : c.finalBid with
    | none => simp [Contract.isPassedOut, hx] at hpo
    | some fb => exact ⟨fb, rfl⟩
  have hle := mc_taken_le c b.deal decl _ w0 w i1 i2 play hw0 hplayR
  have hrec := mc_record_played sc b s.history.reverse c fb decl hfb hdecl w
  refine ⟨dealOps k b ++ bidOps ++ playOps ++ (opEmitWrite (encRecord (recordFrom sc b s.history.reverse c (some w))) ::
      (if k = n then [] else opsPutAll MSG_NEXT)), ?_, ?_⟩
  · have hfin := mc_finActs_ops (k = n) (recordFrom sc b s.history.reverse c (some w))
    have h12 := MainB.encMainActs_append encRecord _ _ _ _ (main_deal_ops encRecord k b) hbidops
    have h123 := MainB.encMainActs_append encRecord _ _ _ _ h12 hplayops
    have hall := MainB.encMainActs_append encRecord _ _ _ _ h123 hfin
    rw [hall]
    have hs1 : stripSleep (dealOps k b ++ bidOps) = dealOps k b ++ bidOps := encMainActs_no_sleep encRecord _ _ h12
    have hs2 : stripSleep (opEmitWrite (encRecord (recordFrom sc b s.history.reverse c (some w))) ::
        (if k = n then [] else opsPutAll MSG_NEXT)) = opEmitWrite (encRecord (recordFrom sc b s.history.reverse c (some w))) ::
        (if k = n then [] else opsPutAll MSG_NEXT) := by
      rw [mc_strip_cons _ _ (mc_emit_not_sleep _)]
      by_cases hkn : k = n
      · simp only [hkn, if_true]; rfl
      · simp only [hkn, if_false]; exact congrArg _ (encMainActs_no_sleep encRecord _ _ (encMainActs_putAll encRecord MSG_NEXT))
    rw [stripSleep_append, stripSleep_append, hs1, hs2]
    simp only [List.append_assoc]
  · intro env out table tables hself hk hmax hns hew f hf
    obtain ⟨f0, rfl⟩ : ∃ f0, f = f0 + 101 := ⟨f - 101, by omega⟩
    have hb' : (boards.map encBoardSetting)[k-1]? = some (encBoardSetting b) := by
      rw [List.getElem?_map, hb]; rfl
    obtain ⟨e1, h1e, hs1, hc1, hbh1, hcards1, hdealer1, hbid1, hdda1, hf1⟩ := mc_head f0 env i i1 out table tables more
      (boards.map encBoardSetting) k b c s.history.reverse bidOps hself hk h1 hb' hok (hbidcalls f0 (by omega))
    obtain ⟨e2, h2e, hs2, hph2, htt2, hsc2, hf2⟩ := mc_play_played f0 e1 c hpo i1 i2 _ _ _ more _ _
      (encHistory c w.base.history) (declTricks decl w) ((calcScore c (declTricks decl w)).getD 0) playOps (encContract c)
      hs1 hc1 hcards1 (fun j => hplaycalls f0 (by omega) _ _ _ j)
      (fun j => mc_calc_score_call c fb decl hfb hdecl (declTricks decl w) hle (f0 + j + 1) (by omega))
    obtain ⟨e3, h3e, hs3, hf3⟩ := mc_tail f0 e2 c i2 _ _ _ more _ (.str b.boardId) (.str sc.ewName) (.str sc.nsName)
      (encSeat b.dealer) (.dict (handsKvs b.deal)) (.tuple (s.history.reverse.map encCall)) (encHistory c w.base.history)
      (.int (declTricks decl w)) (encDdaOpt b.dda) ((calcScore c (declTricks decl w)).getD 0) k n
      hs2 (by rw [hf2 _ (by decide), hc1]) (by rw [hf2 _ (by decide), hbid1])
      (by rw [hf2 _ (by decide), hf1 _ (by decide), hew]) (by rw [hf2 _ (by decide), hf1 _ (by decide), hns])
      (by rw [hf2 _ (by decide), hdealer1]) (by rw [hf2 _ (by decide), hcards1]) (by rw [hf2 _ (by decide), hbh1])
      hph2 htt2 hsc2 (by rw [hf2 _ (by decide), hdda1]) (by rw [hf2 _ (by decide), hf1 _ (by decide), hk])
      (by rw [hf2 _ (by decide), hf1 _ (by decide), hmax])
    refine ⟨e3, ?_, ?_, ?_⟩
    · show execF (mkRec P (f0 + 100)) P env mcBoardBody = _
      rw [mcBoardBody_eq, mb_execF_append _ _ _ _ _ h1e, mb_execF_cons _ _ _ _ _ h2e, h3e]
    · rw [hs3, hrec]
      simp only [tableAfterDeal, List.append_assoc]
    · exact ((hf1.mono (by decide)).trans (hf2.mono (by decide))).trans (hf3.mono (by decide))

end Bridge.Translated.MainC
