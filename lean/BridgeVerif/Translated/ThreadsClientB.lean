import BridgeVerif.Translated.ThreadsClientBLemmasG
/-!
# The TRANSLATED client thread, playing phase (`ClientThread.playing_phase`, Generated/PyCoreThreads.lean) IS the
reactive model of Model/ClientThread.lean (`clientTrickR`, `clientPlayingR`)

Symbolic execution of the MiniPy interpreter on the generated body `m_ClientThread_playing_phase` (its pieces `cpCond`,
`cpBody`, `cpLead`, `cpInner` = [`cpOpen`, `cpMove`] are EXTRACTED from the generated definition,
ThreadsClientBLemmasA.lean) of the whole translated program `P`, on the symbolic client object
`encClientThread p (encClientWorld s bids plays out) team opp extra` and the local variables `penv …` of the method.
The translated `ObservedPlayingPhase` is the model `Observed` by Translated/Play*.lean (on every state with `WF`).
`Client.card_str` IS evaluated (52 cards, `card_str_translated`).  The translated parsers (`Client.parse_leader_message`,
`parse_cards`, `parse_hand`, `MessageInterface.parse_card`) are NOT executed (regular expressions): `PlayParses N i` says
that on every message still in the stream they return the encoding of what the model's parsers return, where those succeed.
A decision of the playing system is the world operation `playAsk` = `w_ask("play", None)`; the reactive model does not
list it: `erasePlays`.

* (1) `client_play_card_translated` — the body of the inner loop is one turn of `clientTrickR` (`clientCardR`;
  `clientTrickR_succ`, ThreadsClientBLemmasC.lean, cuts the model's function into these turns).
* (2) `client_playing_loop_translated` — the loop `while not env.has_done()` is `clientPlayingR` (from any replica with
  `WF`; `clientPlayingR_succ`, `cb_trick_loop`: the inner `for` is `clientTrickR … 4`);
  `client_playing_translated` — the method `playing_phase(contract)` from `Observed.init contract player hand_set`.
* NOT done: (3) `run` = `clientReactive` (no theorem about `m_ClientThread_run` here).
Hypotheses beyond the specified ones: `WF o.base` (the translated `PlayingHistory.record` needs it, Translated/Play.lean);
`PlayParses.ok` (every decision of the playing system is one of the 52 cards: `Client.card_str` raises `ValueError`
otherwise, the model does not); `PlayParses` quantifies over EVERY message still in the stream (a sufficient, not a walking
predicate); `hhs` (the object's `hand_set` attribute is the encoding of the hand the model's replica starts with).
The operations are given as `∃ ops` with `encClientActs p acts = some (erasePlays ops)` (for every fuel above the bound),
not as an explicit function of the model's walk.
-/
set_option maxRecDepth 4000
namespace Bridge.Translated.ClientB
open Bridge Bridge.Py Bridge.Generated.PyCore Bridge.Translated Bridge.Translated.ClientA

/-! ## (1) one turn of the inner loop `for _ in range(4)` -/

/-- (1) the body of the inner loop (`cpInner`, extracted from `m_ClientThread_playing_phase.body`) is one turn of the
model's `clientTrickR` (`clientCardR`, `clientTrickR_succ`): dummy's hand is opened if it is dummy's turn for the first
time (`clientOpenR`: nothing / only `hand_open` / "ready for dummy", the message parsed and set on the replica), then the
card (`clientMoveR`: own card decided by the playing system / dummy's card decided by the playing system of the declarer /
somebody else's card relayed and parsed); the replica `env` and `hand_open` end as in the model, the streams are the ones
the model leaves, the operations appended to `out` are the model's actions plus a `playAsk` per decision. -/
theorem client_play_card_translated (p decl : Seat) (c : Contract) (o o' : Observed) (opened opened' : Bool)
    (i i' : ClientIn) (acts : ClientActs) (N : Nat) (hwf : WF o.base)
    (h : clientCardR p decl o opened i = some (acts, o', opened', i')) (hp : PlayParses N i)
    (bids out : List Val) (team : Str) (opp : Val) (extra : List (Id × Val)) (rest : Env) (f : Nat) (hf : N + 91 ≤ f) :
    ∃ ops rest', encClientActs p acts = some (erasePlays ops) ∧ WF o'.base ∧ PlayParses N i' ∧
      execF (mkRec P f) P
          (penv (encClientThread p (encClientWorld i.s bids (i.cards.map encCard) out) team opp extra) c decl o opened
            rest) cpInner
        = .ok (penv (encClientThread p (encClientWorld i'.s bids (i'.cards.map encCard) (out ++ ops)) team opp extra) c
            decl o' opened' rest', .next) :=
  cb_card_step p decl c o o' opened opened' i i' acts N hwf h hp bids out team opp extra rest f hf

/-- the contract of the examples: 1C by North (dummy South, East leads) -/
def exC : Contract := ⟨some 0, false, false, .none, some .N⟩
/-- East's replica at the last trick (East to lead, dummy's hand shown) -/
def exO : Observed :=
  ⟨⟨.C, .N, .S, .E, .E, [], 13, List.replicate 12 ⟨.N, []⟩, [], 0, 0⟩, .E, [⟨14, .S⟩], some [⟨13, .S⟩]⟩

theorem exParses : PlayParses 0 ⟨[], [], [⟨14, .S⟩]⟩ :=
  ⟨fun m hm => absurd hm (List.not_mem_nil), fun m hm => absurd hm (List.not_mem_nil),
   fun m hm => absurd hm (List.not_mem_nil), by decide⟩

/-- non-vacuity of (1): East leads the ace of spades to the last trick — the decision of its playing system (`playAsk`),
the card on its replica, "East plays AS" -/
example (f : Nat) (hf : 0 + 91 ≤ f) (rest : Env) :
    ∃ acts o' ops rest', clientCardR .E .N exO true ⟨[], [], [⟨14, .S⟩]⟩ = some (acts, o', true, ⟨[], [], []⟩) ∧
      acts = [.send (.c2s .E) "East plays AS".toList] ∧ encClientActs .E acts = some (erasePlays ops) ∧
      execF (mkRec P f) P
          (penv (encClientThread .E (encClientWorld [] [] [encCard ⟨14, .S⟩] []) "T".toList .none []) exC .N exO true
            rest) cpInner
        = .ok (penv (encClientThread .E (encClientWorld [] [] [] ([] ++ ops)) "T".toList .none []) exC .N o' true rest',
            .next) := by
  have hm : ∃ acts o', clientCardR .E .N exO true ⟨[], [], [⟨14, .S⟩]⟩ = some (acts, o', true, ⟨[], [], []⟩) ∧
      acts = [.send (.c2s .E) "East plays AS".toList] :=
    ⟨_, _, by with_unfolding_all rfl, by with_unfolding_all rfl⟩
  obtain ⟨acts, o', h, ha⟩ := hm
  obtain ⟨ops, rest', e, _, _, hx⟩ := client_play_card_translated .E .N exC exO o' true true _ _ acts 0
    (by show 12 + 1 = 13; rfl) h exParses [] [] "T".toList .none [] rest f hf
  exact ⟨acts, o', ops, rest', h, ha, e, hx⟩

/-! ## (2) the loop `while not env.has_done()` and the method -/

/-- (2a) the loop of `playing_phase` (`cpCond`, `cpBody` extracted from the generated body) IS `clientPlayingR`: from any
replica `o` with `WF`, any `hand_open`, on the streams of `i` -/
theorem client_playing_loop_translated (p decl : Seat) (c : Contract) (N n : Nat) (o o' : Observed) (opened : Bool)
    (i i' : ClientIn) (acts : ClientActs) (hwf : WF o.base)
    (h : clientPlayingR p decl n o opened i = some (acts, o', i')) (hp : PlayParses N i)
    (bids out : List Val) (team : Str) (opp : Val) (extra : List (Id × Val)) (rest : Env) (f : Nat)
    (hf : n + N + 96 ≤ f) :
    ∃ ops opened' rest', encClientActs p acts = some (erasePlays ops) ∧
      (mkRec P f).loop
          (penv (encClientThread p (encClientWorld i.s bids (i.cards.map encCard) out) team opp extra) c decl o opened
            rest) cpCond cpBody
        = .ok (penv (encClientThread p (encClientWorld i'.s bids (i'.cards.map encCard) (out ++ ops)) team opp extra) c
            decl o' opened' rest', .next) :=
  cb_playing_loop p decl c N bids team opp extra n o o' opened i i' acts out rest f hwf h hp hf

/-- the last trick as East's client sees it: it leads, dummy's / West's / North's cards are relayed -/
def exI : ClientIn :=
  ⟨["East to lead".toList, "South plays SK".toList, "West plays SQ".toList, "North plays SJ".toList], [], [⟨14, .S⟩]⟩

/-- non-vacuity of (2a), the model's side evaluated: the last trick (the parser agreement `PlayParses` on the four
messages is assumed here; it is the only hypothesis) -/
example (hp : PlayParses 40 exI) (f : Nat) (hf : 2 + 40 + 96 ≤ f) (rest : Env) :
    ∃ acts o' ops op' rest', clientPlayingR .E .N 2 exO true exI = some (acts, o', ⟨[], [], []⟩) ∧
      acts = [.recv (.s2c .E), .send (.c2s .E) "East plays AS".toList,
        .send (.c2s .E) "East ready for dummy's card to trick 13".toList, .recv (.s2c .E),
        .send (.c2s .E) "East ready for West's card to trick 13".toList, .recv (.s2c .E),
        .send (.c2s .E) "East ready for North's card to trick 13".toList, .recv (.s2c .E)] ∧
      o'.base.trickNum = 14 ∧ encClientActs .E acts = some (erasePlays ops) ∧
      (mkRec P f).loop
          (penv (encClientThread .E (encClientWorld exI.s [] (exI.cards.map encCard) []) "T".toList .none []) exC .N exO
            true rest) cpCond cpBody
        = .ok (penv (encClientThread .E (encClientWorld [] [] [] ([] ++ ops)) "T".toList .none []) exC .N o' op' rest',
            .next) := by
  have hm : ∃ acts o', clientPlayingR .E .N 2 exO true exI = some (acts, o', ⟨[], [], []⟩) ∧
      acts = [.recv (.s2c .E), .send (.c2s .E) "East plays AS".toList,
        .send (.c2s .E) "East ready for dummy's card to trick 13".toList, .recv (.s2c .E),
        .send (.c2s .E) "East ready for West's card to trick 13".toList, .recv (.s2c .E),
        .send (.c2s .E) "East ready for North's card to trick 13".toList, .recv (.s2c .E)] ∧
      o'.base.trickNum = 14 :=
    ⟨_, _, by with_unfolding_all rfl, by with_unfolding_all rfl, by with_unfolding_all rfl⟩
  obtain ⟨acts, o', h, ha, hk⟩ := hm
  obtain ⟨ops, op', rest', e, hx⟩ := client_playing_loop_translated .E .N exC 40 2 exO o' true exI _ acts
    (by show 12 + 1 = 13; rfl) h hp [] [] "T".toList .none [] rest f hf
  exact ⟨acts, o', ops, op', rest', h, ha, hk, e, hx⟩

theorem cb_construct_obs (f : Nat) (c : Contract) (me : Seat) (hand : List Card) (o : Observed)
    (h : Observed.init c me hand = some o) :
    constructF (mkRec P (f+51)) P n_ObservedPlayingPhase [encContract c, encSeat me, encCards hand]
      = .ok (encObserved c o) := by
  have run : constructF (mkRec P (f+51)) P n_ObservedPlayingPhase [encContract c, encSeat me, encCards hand]
      = (callF (mkRec P (f+50)) m_ObservedPlayingPhase___init__
          [.obj n_ObservedPlayingPhase [], encContract c, encSeat me, encCards hand] >>= fun x => pure x.2) := rfl
  rw [run, observed_init_call f c me hand]
  simp only [Observed.init, init_eq] at h
  cases hb : c.finalBid with
  | none => rw [hb] at h; cases h
  | some b =>
    cases hd : c.declarer with
    | none => rw [hb, hd] at h; cases h
    | some d => rw [hb, hd] at h; cases h; rfl

theorem cb_mth_playing_phase :
    P.method? classDepth n_ClientThread n_playing_phase = some (n_ClientThread, m_ClientThread_playing_phase) := rfl

/-- (2) `playing_phase(contract)` is `clientPlayingR` from `Observed.init contract player hand_set`, `hand_open = False`:
returns `None`; the streams are the ones the model leaves; the operations appended to `out` are the model's actions with a
`playAsk` per decision of the playing system -/
theorem client_playing_translated (p decl : Seat) (c : Contract) (hand : List Card) (o0 o' : Observed) (n N : Nat)
    (i i' : ClientIn) (acts : ClientActs) (hdecl : c.declarer = some decl) (h0 : Observed.init c p hand = some o0)
    (h : clientPlayingR p decl n o0 false i = some (acts, o', i')) (hp : PlayParses N i)
    (bids out : List Val) (team : Str) (opp : Val) (extra : List (Id × Val))
    (hhs : lookup extra n_hand_set = some (encCards hand)) (f : Nat) (hf : n + N + 110 ≤ f) :
    ∃ ops, encClientActs p acts = some (erasePlays ops) ∧
      callFn P f m_ClientThread_playing_phase
          [encClientThread p (encClientWorld i.s bids (i.cards.map encCard) out) team opp extra, encContract c]
        = .ok (.none, encClientThread p (encClientWorld i'.s bids (i'.cards.map encCard) (out ++ ops)) team opp
            extra) := by
  obtain ⟨g, rfl⟩ : ∃ g, f = g + 60 := ⟨f - 60, by omega⟩
  obtain ⟨ops, op', rest', e, hl⟩ := cb_playing_loop p decl c N bids team opp extra n o0 o' false i i' acts out []
    (g+58) (wf_observed_init c p hand o0 h0) h hp (by omega)
  refine ⟨ops, e, ?_⟩
  have hfb : c.finalBid.isNone = false := by
    simp only [Observed.init, init_eq] at h0
    cases hb : c.finalBid with
    | none => rw [hb] at h0; cases h0
    | some b => rfl
  have hco := fun f => cb_construct_obs f c p hand o0 h0
  simp only [penv, cself] at hl
  rw [callFn, call_succ, callF_def]
  simp only [cp_body_def, cp_params, cp_defaults, ct_thread_def, bindParams, Option.map]
  ppsimp [meth_encContract, mth_is_passed_out, is_passed_out_call, hfb, getAttr_contract_declarer, hdecl,
    beq_encSeat_none, getAttr_partner, hhs, hco, hl, truthy]

end Bridge.Translated.ClientB
