import BridgeVerif.Translated.ThreadsClientD
/-!
# Towards the closed bundled-client capstone (A): the parse packages from a condition on the MESSAGES of the stream

`MsgGood N p m` : on the message `m`, each of the six translated parsers the bundled client of seat `p` may apply to it
(`parse_board`, `parse_cards` for the own name / for `Dummy` followed by `parse_hand`, `MessageInterface.parse_bid` /
`parse_card` for any seat, `parse_leader_message`) returns the encoding of what the model's parser returns (where that one
succeeds).  The model's reactive client only ever consumes its streams (`Sub`: what a phase leaves is contained in what it
was given), so:

* `boardParses_of_good`  : every message `MsgGood`, every decision of the playing system a card of the deck ⟹ `boardParses`;
* `boardsParses_of_good` : ⟹ `boardsParses` at every fuel.
-/
set_option maxRecDepth 4000
namespace Bridge.Translated.ClientG
open Bridge Bridge.Py Bridge.Generated.PyCore Bridge.Translated Bridge.Translated.ClientA Bridge.Translated.ClientB
open Bridge.Translated.ClientC

/-- on the message `m` the translated parsers of the client of seat `p` agree with the model's -/
structure MsgGood (N : Nat) (p : Seat) (m : Text) : Prop where
  board : ∀ k dealer vul, parseBoard? m = some (k, dealer, vul) →
    Returns N m_Client_parse_board [.str m] (.tuple [.int k, encSeat dealer, encVul vul])
  own : ∀ t, parseCards? m p.formal = some t →
    Returns N m_Client_parse_cards [.str m, .str p.formal] (.str t) ∧
    ∀ dh, parseHand? t = some dh → ∃ hb, Returns N m_Client_parse_hand [.str t] (.tuple [encCards dh, hb])
  dummy : ∀ t, parseCards? m ['D', 'u', 'm', 'm', 'y'] = some t →
    Returns N m_Client_parse_cards [.str m, .str ['D', 'u', 'm', 'm', 'y']] (.str t) ∧
    ∀ dh, parseHand? t = some dh → ∃ hb, Returns N m_Client_parse_hand [.str t] (.tuple [encCards dh, hb])
  bid : ∀ (a : Seat) (c : Call), parseBid? m a.formal = some c →
    Returns N m_MessageInterface_parse_bid [.str m, .str a.formal] (encCall c)
  card : ∀ (a : Seat) (c : Card), parseCard? m a = some c →
    Returns N m_MessageInterface_parse_card [.str m, encSeat a] (encCard c)
  leader : ∀ (d l : Seat), parseLeader? m d = some l →
    Returns N m_Client_parse_leader_message [.str m, encSeat d] (encSeat l)

/-- the streams `i'` are contained in the streams `i` -/
def Sub (i' i : ClientIn) : Prop := (∀ m ∈ i'.s, m ∈ i.s) ∧ (∀ c ∈ i'.cards, c ∈ i.cards)

theorem Sub.refl (i : ClientIn) : Sub i i := ⟨fun _ h => h, fun _ h => h⟩
theorem Sub.trans {a b c : ClientIn} (h1 : Sub a b) (h2 : Sub b c) : Sub a c :=
  ⟨fun m h => h2.1 m (h1.1 m h), fun m h => h2.2 m (h1.2 m h)⟩

theorem recv_sub {i i' : ClientIn} {m : Text} (h : i.recv = some (m, i')) : Sub i' i ∧ m ∈ i.s := by
  obtain ⟨s, calls, cards⟩ := i
  cases s with
  | nil => simp [ClientIn.recv] at h
  | cons x r =>
    simp only [ClientIn.recv, Option.some.injEq, Prod.mk.injEq] at h
    obtain ⟨rfl, rfl⟩ := h
    exact ⟨⟨fun m h => List.mem_cons_of_mem _ h, fun _ h => h⟩, List.mem_cons_self⟩

theorem nextCall_sub {i i' : ClientIn} {c : Call} (h : i.nextCall = some (c, i')) : Sub i' i := by
  obtain ⟨s, calls, cards⟩ := i
  cases calls with
  | nil => simp [ClientIn.nextCall] at h
  | cons x r =>
    simp only [ClientIn.nextCall, Option.some.injEq, Prod.mk.injEq] at h
    obtain ⟨rfl, rfl⟩ := h
    exact ⟨fun _ h => h, fun _ h => h⟩

theorem nextCard_sub {i i' : ClientIn} {c : Card} (h : i.nextCard = some (c, i')) : Sub i' i := by
  obtain ⟨s, calls, cards⟩ := i
  cases cards with
  | nil => simp [ClientIn.nextCard] at h
  | cons x r =>
    simp only [ClientIn.nextCard, Option.some.injEq, Prod.mk.injEq] at h
    obtain ⟨rfl, rfl⟩ := h
    exact ⟨fun _ h => h, fun m h => List.mem_cons_of_mem _ h⟩

theorem bind_some {α β : Type} {x : Option α} {k : α → Option β} {b : β} (h : x.bind k = some b) :
    ∃ a, x = some a ∧ k a = some b := by
  cases x with
  | none => cases h
  | some a => exact ⟨a, rfl, h⟩

/-! ## the phases only consume -/
theorem clientDealR_sub {p : Seat} {i i1 : ClientIn} {d : ClientActs} {b : Nat × Seat × Vul} {hand : List Card}
    (h : clientDealR p i = some (d, b, hand, i1)) : Sub i1 i := by
  unfold clientDealR at h
  simp only [Option.bind_eq_bind] at h
  obtain ⟨⟨header, ia⟩, h1, h⟩ := bind_some h
  obtain ⟨board, _, h⟩ := bind_some h
  obtain ⟨⟨ct, ib⟩, h2, h⟩ := bind_some h
  obtain ⟨hd, _, h⟩ := bind_some h
  simp only [Option.pure_def, Option.some.injEq, Prod.mk.injEq] at h
  obtain ⟨_, _, _, rfl⟩ := h
  exact (recv_sub h2).1.trans (recv_sub h1).1

theorem clientBiddingR_sub (p : Seat) : ∀ (n : Nat) (s : AState) (i : ClientIn) (acts : ClientActs) (s' : AState)
    (i' : ClientIn), clientBiddingR p n s i = some (acts, s', i') → Sub i' i := by
  intro n
  induction n with
  | zero => intro s i acts s' i' h; simp [clientBiddingR] at h
  | succ n ih =>
    intro s i acts s' i' h
    rw [clientBiddingR] at h
    cases hact : s.active with
    | none =>
      rw [hact] at h
      simp only [Option.some.injEq, Prod.mk.injEq] at h
      obtain ⟨_, _, rfl⟩ := h
      exact Sub.refl _
    | some a =>
      rw [hact] at h
      simp only [Option.bind_eq_bind] at h
      have key : ∀ (acts1 : ClientActs) (call : Call) (i1 : ClientIn), Sub i1 i →
          (match takeBid s call with
            | Except.error _ => none
            | Except.ok (_, Res.illegal) => none
            | Except.ok (s', Res.finished) => some (acts1, s', i1)
            | Except.ok (s', Res.ongoing) =>
              (clientBiddingR p n s' i1).bind fun x => pure (acts1 ++ x.fst, x.2.fst, x.2.snd)) = some (acts, s', i') →
          Sub i' i := by
        intro acts1 call i1 hs1 h
        cases htb : takeBid s call with
        | error e => rw [htb] at h; cases h
        | ok x =>
          obtain ⟨s1, r⟩ := x
          rw [htb] at h
          cases r with
          | illegal => cases h
          | finished =>
            simp only [Option.some.injEq, Prod.mk.injEq] at h
            obtain ⟨_, _, rfl⟩ := h
            exact hs1
          | ongoing =>
            dsimp only at h
            obtain ⟨⟨rest, sf, i2⟩, h2, h⟩ := bind_some h
            simp only [Option.pure_def, Option.some.injEq, Prod.mk.injEq] at h
            obtain ⟨_, _, rfl⟩ := h
            exact (ih _ _ _ _ _ h2).trans hs1
      split at h
      · obtain ⟨⟨c, ic⟩, hc, h⟩ := bind_some h
        simp only [Option.pure_def, Option.bind_some] at h
        exact key _ _ _ (nextCall_sub hc) h
      · obtain ⟨⟨m, ic⟩, hc, h⟩ := bind_some h
        obtain ⟨c, _, h⟩ := bind_some h
        simp only [Option.pure_def, Option.bind_some] at h
        exact key _ _ _ (recv_sub hc).1 h

theorem clientOpenR_sub {p decl a : Seat} {o o1 : Observed} {opened op1 : Bool} {i i1 : ClientIn} {acts : ClientActs}
    (h : clientOpenR p decl a o opened i = some (acts, o1, op1, i1)) : Sub i1 i := by
  unfold clientOpenR at h
  dsimp only at h
  split at h
  · split at h
    · simp only [Option.bind_eq_bind] at h
      obtain ⟨⟨m, ia⟩, h1, h⟩ := bind_some h
      obtain ⟨dh, _, h⟩ := bind_some h
      simp only [Option.pure_def, Option.some.injEq, Prod.mk.injEq] at h
      obtain ⟨_, _, _, rfl⟩ := h
      exact (recv_sub h1).1
    · simp only [Option.pure_def, Option.some.injEq, Prod.mk.injEq] at h
      obtain ⟨_, _, _, rfl⟩ := h
      exact Sub.refl _
  · simp only [Option.pure_def, Option.some.injEq, Prod.mk.injEq] at h
    obtain ⟨_, _, _, rfl⟩ := h
    exact Sub.refl _

theorem clientCardR_sub {p decl a : Seat} {o o1 : Observed} {i i1 : ClientIn} {acts : ClientActs}
    (h : clientCardR p decl a o i = some (acts, o1, i1)) : Sub i1 i := by
  unfold clientCardR at h
  dsimp only at h
  split at h
  · simp only [Option.bind_eq_bind] at h
    obtain ⟨⟨c, ia⟩, h1, h⟩ := bind_some h
    dsimp only at h
    split at h
    · cases h
    · simp only [Option.pure_def, Option.some.injEq, Prod.mk.injEq] at h
      obtain ⟨_, _, rfl⟩ := h
      exact nextCard_sub h1
  · split at h
    · split at h
      · cases h
      · simp only [Option.bind_eq_bind] at h
        obtain ⟨⟨c, ia⟩, h1, h⟩ := bind_some h
        dsimp only at h
        split at h
        · cases h
        · simp only [Option.pure_def, Option.some.injEq, Prod.mk.injEq] at h
          obtain ⟨_, _, rfl⟩ := h
          exact nextCard_sub h1
    · simp only [Option.bind_eq_bind] at h
      obtain ⟨⟨m, ia⟩, h1, h⟩ := bind_some h
      obtain ⟨c, _, h⟩ := bind_some h
      dsimp only at h
      split at h
      · cases h
      · simp only [Option.pure_def, Option.some.injEq, Prod.mk.injEq] at h
        obtain ⟨_, _, rfl⟩ := h
        exact (recv_sub h1).1

theorem clientTrickR_sub (p decl : Seat) : ∀ (n : Nat) (o o' : Observed) (opened op' : Bool) (i i' : ClientIn)
    (acts : ClientActs), clientTrickR p decl n o opened i = some (acts, o', op', i') → Sub i' i := by
  intro n
  induction n with
  | zero =>
    intro o o' opened op' i i' acts h
    simp only [clientTrickR, Option.some.injEq, Prod.mk.injEq] at h
    obtain ⟨_, _, _, rfl⟩ := h
    exact Sub.refl _
  | succ n ih =>
    intro o o' opened op' i i' acts h
    rw [clientTrickR_succ] at h
    simp only [Option.bind_eq_bind] at h
    obtain ⟨⟨a0, o1, op1, i1⟩, h1, h⟩ := bind_some h
    obtain ⟨⟨a1, o2, i2⟩, h2, h⟩ := bind_some h
    obtain ⟨⟨a2, o3, op3, i3⟩, h3, h⟩ := bind_some h
    simp only [Option.pure_def, Option.some.injEq, Prod.mk.injEq] at h
    obtain ⟨_, _, _, rfl⟩ := h
    exact ((ih _ _ _ _ _ _ _ h3).trans (clientCardR_sub h2)).trans (clientOpenR_sub h1)

theorem clientPlayingR_sub (p decl : Seat) : ∀ (n : Nat) (o o' : Observed) (opened : Bool) (i i' : ClientIn)
    (acts : ClientActs), clientPlayingR p decl n o opened i = some (acts, o', i') → Sub i' i := by
  intro n
  induction n with
  | zero => intro o o' opened i i' acts h; simp [clientPlayingR] at h
  | succ n ih =>
    intro o o' opened i i' acts h
    rw [clientPlayingR] at h
    split at h
    · simp only [Option.some.injEq, Prod.mk.injEq] at h
      obtain ⟨_, _, rfl⟩ := h
      exact Sub.refl _
    · simp only [Option.bind_eq_bind] at h
      have key : ∀ (a0 : ClientActs) (i0 : ClientIn), Sub i0 i →
          ((clientTrickR p decl 4 o opened i0).bind fun x1 =>
            (clientPlayingR p decl n x1.2.fst x1.2.2.fst x1.2.2.snd).bind fun x2 =>
              pure (a0 ++ x1.fst ++ x2.fst, x2.2.fst, x2.2.snd)) = some (acts, o', i') → Sub i' i := by
        intro a0 i0 hs0 h
        obtain ⟨⟨t, o1, op1, i1⟩, h1, h⟩ := bind_some h
        obtain ⟨⟨r, o2, i2⟩, h2, h⟩ := bind_some h
        simp only [Option.pure_def, Option.some.injEq, Prod.mk.injEq] at h
        obtain ⟨_, _, rfl⟩ := h
        exact ((ih _ _ _ _ _ _ h2).trans (clientTrickR_sub p decl _ _ _ _ _ _ _ _ h1)).trans hs0
      split at h
      · obtain ⟨⟨m, ia⟩, hr, h⟩ := bind_some h
        obtain ⟨l, _, h⟩ := bind_some h
        dsimp only at h
        split at h
        · simp only [Option.pure_def, Option.bind_some] at h
          exact key _ _ (recv_sub hr).1 h
        · simp only [Option.bind_none] at h
          cases h
      · simp only [Option.pure_def, Option.bind_some] at h
        exact key _ _ (Sub.refl _) h

theorem clientPlayR_sub {p : Seat} {c : Contract} {hand : List Card} {i i' : ClientIn} {acts : ClientActs}
    (h : clientPlayR p c hand i = some (acts, i')) : Sub i' i := by
  unfold clientPlayR at h
  split at h
  · simp only [Option.pure_def, Option.some.injEq, Prod.mk.injEq] at h
    obtain ⟨_, rfl⟩ := h
    exact Sub.refl _
  · split at h
    · simp only [Option.bind_eq_bind] at h
      obtain ⟨⟨a, o, i1⟩, h1, h⟩ := bind_some h
      simp only [Option.pure_def, Option.some.injEq, Prod.mk.injEq] at h
      obtain ⟨_, rfl⟩ := h
      exact clientPlayingR_sub p _ _ _ _ _ _ _ _ h1
    · cases h

theorem clientBoardR_sub {p : Seat} {i i' : ClientIn} {acts : ClientActs} {m : Text}
    (h : clientBoardR p i = some (acts, m, i')) : Sub i' i := by
  unfold clientBoardR at h
  simp only [Option.bind_eq_bind] at h
  obtain ⟨⟨d, ⟨k, dealer, vul⟩, hand, i1⟩, h1, h⟩ := bind_some h
  obtain ⟨⟨b, s, i2⟩, h2, h⟩ := bind_some h
  obtain ⟨c, _, h⟩ := bind_some h
  obtain ⟨⟨pl, i3⟩, h3, h⟩ := bind_some h
  obtain ⟨⟨m', i4⟩, h4, h⟩ := bind_some h
  simp only [Option.pure_def, Option.some.injEq, Prod.mk.injEq] at h
  obtain ⟨_, _, rfl⟩ := h
  exact (((recv_sub h4).1.trans (clientPlayR_sub h3)).trans (clientBiddingR_sub p _ _ _ _ _ _ h2)).trans
    (clientDealR_sub h1)

/-! ## the parse packages from `MsgGood` -/
theorem playParses_of_good {N : Nat} {p : Seat} {i : ClientIn} (hg : ∀ m ∈ i.s, MsgGood N p m)
    (hc : ∀ c ∈ i.cards, c.ok = true) : PlayParses N i :=
  ⟨fun m hm d l h => (hg m hm).leader d l h, fun m hm a c h => (hg m hm).card a c h,
   fun m hm t h => (hg m hm).dummy t h, hc⟩

theorem bidParses_of_good (N : Nat) (p q : Seat) : ∀ (n : Nat) (s : AState) (i : ClientIn),
    (∀ m ∈ i.s, MsgGood N q m) → bidParses N p n s i := by
  intro n
  induction n with
  | zero => intro s i _; trivial
  | succ n ih =>
    intro s i hall
    obtain ⟨st, calls, cards⟩ := i
    cases hact : s.active with
    | none => simp [bidParses, hact]
    | some a =>
      by_cases hap : a = p
      · cases calls with
        | nil => simp [bidParses, hact, hap, ClientIn.nextCall]
        | cons c cs =>
          simp only [bidParses, hact, hap, if_true, ClientIn.nextCall]
          cases htb : takeBid s c with
          | error u => trivial
          | ok x =>
            obtain ⟨s1, r⟩ := x
            cases r with
            | illegal => trivial
            | finished => trivial
            | ongoing => exact ih s1 _ hall
      · cases st with
        | nil => simp [bidParses, hact, hap, ClientIn.recv]
        | cons m st1 =>
          simp only [bidParses, hact, hap, if_false, ClientIn.recv]
          cases hpb : parseBid? m a.formal with
          | none => trivial
          | some c =>
            refine ⟨(hall m (List.mem_cons_self ..)).bid a c hpb, ?_⟩
            cases htb : takeBid s c with
            | error u => trivial
            | ok x =>
              obtain ⟨s1, r⟩ := x
              cases r with
              | illegal => trivial
              | finished => trivial
              | ongoing => exact ih s1 _ fun m' hm' => hall m' (List.mem_cons_of_mem _ hm')

theorem dealParses_of_good {N : Nat} {p : Seat} {i i1 : ClientIn} {d : ClientActs} {b : Nat × Seat × Vul}
    {hand : List Card} (h : clientDealR p i = some (d, b, hand, i1)) (hg : ∀ m ∈ i.s, MsgGood N p m) :
    ∃ hb, dealParses N p i (encCards hand) hb := by
  unfold clientDealR at h
  simp only [Option.bind_eq_bind] at h
  obtain ⟨⟨header, ia⟩, h1, h⟩ := bind_some h
  obtain ⟨board, _, h⟩ := bind_some h
  obtain ⟨⟨ct, ib⟩, h2, h⟩ := bind_some h
  obtain ⟨hd, h3, h⟩ := bind_some h
  simp only [Option.pure_def, Option.some.injEq, Prod.mk.injEq] at h
  obtain ⟨_, _, rfl, _⟩ := h
  obtain ⟨t, ht, hh⟩ := bind_some h3
  obtain ⟨s, calls, cards⟩ := i
  cases s with
  | nil => simp [ClientIn.recv] at h1
  | cons x r =>
    simp only [ClientIn.recv, Option.some.injEq, Prod.mk.injEq] at h1
    obtain ⟨rfl, rfl⟩ := h1
    cases r with
    | nil => simp [ClientIn.recv] at h2
    | cons y r' =>
      simp only [ClientIn.recv, Option.some.injEq, Prod.mk.injEq] at h2
      obtain ⟨rfl, rfl⟩ := h2
      have gx := hg x List.mem_cons_self
      have gy := hg y (List.mem_cons_of_mem _ List.mem_cons_self)
      obtain ⟨hr, hhand⟩ := gy.own t ht
      obtain ⟨hb, hret⟩ := hhand hd hh
      refine ⟨hb, ?_⟩
      unfold dealParses
      refine ⟨gx.board, fun t' ht' => ?_⟩
      rw [ht] at ht'
      cases ht'
      exact ⟨hr, fun _ => hret⟩

/-- ONE BOARD: every message `MsgGood`, every decision of the playing system a card of the deck ⟹ `boardParses` -/
theorem boardParses_of_good (N : Nat) (p : Seat) (i : ClientIn) (hg : ∀ m ∈ i.s, MsgGood N p m)
    (hc : ∀ c ∈ i.cards, c.ok = true) : boardParses N p i := by
  cases hd : clientDealR p i with
  | none => unfold boardParses; rw [hd]; trivial
  | some x =>
    obtain ⟨d, ⟨k, dealer, vul⟩, hand, i1⟩ := x
    have s1 := clientDealR_sub hd
    refine boardParses_of N p i i1 d k dealer vul hand hd (dealParses_of_good hd hg)
      (bidParses_of_good N p p _ _ _ fun m hm => hg m (s1.1 m hm)) ?_
    intro b s i2 c hb _ _
    have s2 := (clientBiddingR_sub p _ _ _ _ _ _ hb).trans s1
    exact playParses_of_good (fun m hm => hg m (s2.1 m hm)) (fun c hc' => hc c (s2.2 c hc'))

/-- THE BOARDS: ⟹ `boardsParses` at every fuel -/
theorem boardsParses_of_good (N : Nat) (p : Seat) : ∀ (fuel : Nat) (i : ClientIn), (∀ m ∈ i.s, MsgGood N p m) →
    (∀ c ∈ i.cards, c.ok = true) → boardsParses N p fuel i := by
  intro fuel
  induction fuel with
  | zero => intro i _ _; trivial
  | succ n ih =>
    intro i hg hc
    refine ⟨boardParses_of_good N p i hg hc, ?_⟩
    cases hb : clientBoardR p i with
    | none => trivial
    | some x =>
      obtain ⟨acts, m, i'⟩ := x
      have s := clientBoardR_sub hb
      exact fun _ => ih i' (fun m hm => hg m (s.1 m hm)) (fun c hc' => hc c (s.2 c hc'))

end Bridge.Translated.ClientG
