import BridgeVerif.Translated.ThreadsClientBLemmasA
/-! Translated `ClientThread.playing_phase`: one card (the second statement of the inner loop's body) — own card,
dummy's card played by the declarer's client, somebody else's card relayed -/
set_option maxRecDepth 4000
namespace Bridge.Translated.ClientB
open Bridge Bridge.Py Bridge.Generated.PyCore Bridge.Translated Bridge.Translated.ClientA

/-- the client object, written out (`encClientThread p (encClientWorld st bids plays out) team opp extra` is this term) -/
def cself (p : Seat) (st : List Str) (bids plays out : List Val) (team : Str) (opp : Val) (extra : List (Id × Val)) : Val :=
  .obj n_ClientThread ((n__w, encClientWorld st bids plays out) :: (n_player, encSeat p) ::
    (n_team_name, .str team) :: (n_opponent_team_name, opp) :: extra)

theorem cself_eq (p : Seat) (st : List Str) (bids plays out : List Val) (team : Str) (opp : Val)
    (extra : List (Id × Val)) :
    cself p st bids plays out team opp extra = encClientThread p (encClientWorld st bids plays out) team opp extra := rfl

/-- the local variables of `playing_phase` inside its loops, in the order the method creates them; `rest`: the
temporaries (`_t1`, `leader`, `_`, `_t2`, `dummy_hand`, `card`, `active_player_name`, `_t3`) -/
def penv (self : Val) (c : Contract) (decl : Seat) (o : Observed) (opened : Bool) (rest : Env) : Env :=
  (K.self, self) :: (n_contract, encContract c) :: (n_declarer, encSeat decl) :: (n_dummy, encSeat decl.partner) ::
    (n_env, encObserved c o) :: (n_hand_open, .bool opened) :: rest

/-- the simp set of `playing_phase` -/
macro "cbsimp" "[" ls:Lean.Parser.Tactic.simpLemma,* "]" : tactic =>
  `(tactic| ctthsimp [cb_obs_active, cb_obs_trick_num, cb_obs_dummy_hand, cb_methF_obs, cb_mth_has_done, cb_mth_set_dummy,
      cb_mth_play_by, cb_has_done_call, cb_set_dummy_call, cb_w_ask_play_call, cb_w_ask_play_blocked, cb_mth_card_str,
      cb_mth_parse_leader, cb_mth_parse_card, ct_mth_parse_cards, ct_mth_parse_hand, st_formal_name, strOfF,
      List.flatten_cons, List.flatten_nil, List.append_nil, List.append_assoc, Val.beq, $ls,*])

theorem cb_playMsg (p : Seat) (c : Card) :
    playMsg p c false = p.formal ++ ' ' :: 'p' :: 'l' :: 'a' :: 'y' :: 's' :: ' ' :: cardStrRS c := by
  simp only [playMsg, String.reduceToList, List.append_assoc, List.cons_append, List.nil_append, Bool.false_eq_true,
    if_false]

/-- own card: the decision of the playing system (`w_ask`), played on the own replica, then the message -/
theorem cb_move_own (f : Nat) (p decl : Seat) (c : Contract) (o o' : Observed) (card : Card) (hwf : WF o.base)
    (hact : o.base.active = p) (hd : p ≠ decl.partner) (hplay : o.play card p = .ok o') (s0 : Val)
    (hcs : ∀ g, callF (mkRec P (f+g)) m_Client_card_str [encCard card] = .ok (.str (cardStrRS card), s0))
    (st : List Str) (bids plays out : List Val) (team : Str) (opp : Val) (extra : List (Id × Val)) (opened : Bool)
    (rest : Env) :
    ∃ rest', execStmtF (mkRec P (f+70)) P
        (penv (cself p st bids (encCard card :: plays) out team opp extra) c decl o opened rest) cpMove
      = .ok (penv (cself p st bids plays (out ++ [playAsk, .tuple [vstr "send", .str (playMsg p card false)]]) team opp
          extra) c decl o' opened rest', .next) := by
  refine ⟨?_, ?_⟩
  rotate_left
  · simp only [cpMove, cpInner, cpBody, m_ClientThread_playing_phase, List.getD_cons_succ, List.getD_cons_zero, penv,
      cself]
    have hp := fun g => cb_play_call g c o o' card p hwf hplay
    cbsimp [hact, hd, hcs, hp]
    rw [cb_playMsg]

theorem cb_partner_ne (p : Seat) : p.partner ≠ p := by cases p <;> decide
theorem cb_ne_partner (p : Seat) : p ≠ p.partner := by cases p <;> decide

/-- dummy's card, played by the declarer's client: dummy's hand must have been set; the decision, the replica, the
message in dummy's name -/
theorem cb_move_dummy (f : Nat) (decl : Seat) (c : Contract) (o o' : Observed) (card : Card) (hwf : WF o.base)
    (hact : o.base.active = decl.partner) (dh : List Card) (hdh : o.dummyHand = some dh)
    (hplay : o.play card decl.partner = .ok o') (s0 : Val)
    (hcs : ∀ g, callF (mkRec P (f+g)) m_Client_card_str [encCard card] = .ok (.str (cardStrRS card), s0))
    (st : List Str) (bids plays out : List Val) (team : Str) (opp : Val) (extra : List (Id × Val)) (opened : Bool)
    (rest : Env) :
    ∃ rest', execStmtF (mkRec P (f+70)) P
        (penv (cself decl st bids (encCard card :: plays) out team opp extra) c decl o opened rest) cpMove
      = .ok (penv (cself decl st bids plays
          (out ++ [playAsk, .tuple [vstr "send", .str (playMsg decl.partner card false)]]) team opp
          extra) c decl o' opened rest', .next) := by
  refine ⟨?_, ?_⟩
  rotate_left
  · simp only [cpMove, cpInner, cpBody, m_ClientThread_playing_phase, List.getD_cons_succ, List.getD_cons_zero, penv,
      cself]
    have hp := fun g => cb_play_call g c o o' card decl.partner hwf hplay
    cbsimp [hact, cb_partner_ne, cb_ne_partner, hcs, hp, hdh, encCards]
    rw [cb_playMsg]

/-- the text "… ready for …'s card to trick k" as the f-string builds it -/
theorem cb_readyCard (p : Seat) (who : Str) (k : Nat) :
    p.formal ++ ' ' :: 'r' :: 'e' :: 'a' :: 'd' :: 'y' :: ' ' :: 'f' :: 'o' :: 'r' :: ' ' :: (who ++
      '\'' :: 's' :: ' ' :: 'c' :: 'a' :: 'r' :: 'd' :: ' ' :: 't' :: 'o' :: ' ' :: 't' :: 'r' :: 'i' :: 'c' :: 'k' :: ' ' ::
        intStr (k : Int))
      = readyFor p (who ++ "'s card to trick ".toList ++ natStr k) := by
  simp only [readyFor, String.reduceToList, List.append_assoc, List.cons_append, List.nil_append,
    MainA.mt_intStr_nat]

/-- somebody else's card: "ready for …'s card to trick k", the relayed message, parsed, played on the own replica -/
theorem cb_move_relay (f : Nat) (p decl : Seat) (c : Contract) (o o' : Observed) (card : Card) (hwf : WF o.base)
    (h1 : ¬ (o.base.active = p ∧ p ≠ decl.partner)) (h2 : ¬ (o.base.active = decl.partner ∧ p = decl))
    (hplay : o.play card o.base.active = .ok o') (m : Str) (s0 : Val)
    (hpc : ∀ g, callF (mkRec P (f+g)) m_MessageInterface_parse_card [.str m, encSeat o.base.active]
      = .ok (encCard card, s0))
    (st : List Str) (bids plays out : List Val) (team : Str) (opp : Val) (extra : List (Id × Val)) (opened : Bool)
    (rest : Env) :
    ∃ rest', execStmtF (mkRec P (f+70)) P
        (penv (cself p (m :: st) bids plays out team opp extra) c decl o opened rest) cpMove
      = .ok (penv (cself p st bids plays
          (out ++ [.tuple [vstr "send", .str (readyFor p
              ((if o.base.active = decl.partner then "dummy".toList else o.base.active.formal) ++
                "'s card to trick ".toList ++ natStr o.base.trickNum))], .tuple [vstr "recv"]]) team opp
          extra) c decl o' opened rest', .next) := by
  have hp := fun g => cb_play_call g c o o' card o.base.active hwf hplay
  by_cases ha : o.base.active = p
  · have hpd : p = decl.partner := by
      cases hx : decide (p = decl.partner) with
      | true => simpa using hx
      | false => exact absurd ⟨ha, by simpa using hx⟩ h1
    subst hpd
    rw [ha] at hp hpc
    refine ⟨?_, ?_⟩
    rotate_left
    · simp only [cpMove, cpInner, cpBody, m_ClientThread_playing_phase, List.getD_cons_succ, List.getD_cons_zero, penv,
        cself]
      cbsimp [ha, cb_partner_ne, cb_ne_partner, hpc, hp, MainA.mt_strOf_int]
      simp only [readyFor, String.reduceToList, List.append_assoc, List.cons_append, List.nil_append,
        ← MainA.mt_intStr_nat]
      rfl
  · by_cases had : o.base.active = decl.partner
    · have hpn : p ≠ decl := fun h => h2 ⟨had, h⟩
      have ha' : ¬ decl.partner = p := had ▸ ha
      rw [had] at hp hpc
      refine ⟨?_, ?_⟩
      rotate_left
      · simp only [cpMove, cpInner, cpBody, m_ClientThread_playing_phase, List.getD_cons_succ, List.getD_cons_zero,
          penv, cself]
        cbsimp [ha, ha', had, hpn, cb_partner_ne, cb_ne_partner, hpc, hp, MainA.mt_strOf_int]
        simp only [readyFor, String.reduceToList, List.append_assoc, List.cons_append, List.nil_append,
          ← MainA.mt_intStr_nat]
        rfl
    · refine ⟨?_, ?_⟩
      rotate_left
      · simp only [cpMove, cpInner, cpBody, m_ClientThread_playing_phase, List.getD_cons_succ, List.getD_cons_zero,
          penv, cself]
        cbsimp [ha, had, hpc, hp, MainA.mt_strOf_int]
        simp only [readyFor, String.reduceToList, List.append_assoc, List.cons_append, List.nil_append,
          ← MainA.mt_intStr_nat]
        rfl

end Bridge.Translated.ClientB
