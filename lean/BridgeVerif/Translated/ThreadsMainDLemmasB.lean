import BridgeVerif.Translated.ThreadsMainDLemmasA
import BridgeVerif.Lemmas.MainThread
/-! Capstone of the main thread, (3): `BoardsParse` of a session from the memberwise property `Good` of its streams -/
set_option maxRecDepth 4000
namespace Bridge.Translated.MainD
open Bridge Bridge.Py Bridge.Generated.PyCore
open Bridge.Translated.MainA Bridge.Translated.MainB Bridge.Translated.MainC

/-- every queued message is `Good` -/
def AllGood (F : Nat) (i : MainIn) : Prop := ∀ p, ∀ m ∈ i p, Good F m

theorem get_mem {i i1 : MainIn} {p : Seat} {m : Text} (hg : MainIn.get i p = some (m, i1)) :
    m ∈ i p ∧ ∀ q, ∀ x ∈ i1 q, x ∈ i q := by
  unfold MainIn.get at hg
  split at hg
  · rename_i m' r hip
    simp only [Option.some.injEq, Prod.mk.injEq] at hg
    obtain ⟨rfl, rfl⟩ := hg
    refine ⟨by rw [hip]; exact List.mem_cons_self .., fun q x hx => ?_⟩
    by_cases hq : q = p
    · subst hq
      simp only [if_true] at hx
      rw [hip]; exact List.mem_cons_of_mem _ hx
    · simpa only [hq, if_false] using hx
  · cases hg

theorem allGood_of_mem {F : Nat} {i i1 : MainIn} (h : AllGood F i) (hsub : ∀ p, ∀ m ∈ i1 p, m ∈ i p) : AllGood F i1 :=
  fun p m hm => h p m (hsub p m hm)

theorem bidMsgsOK_of_good (F : Nat) : ∀ (n : Nat) (s : AState) (i : MainIn), AllGood F i → BidMsgsOK F n s i := by
  intro n
  induction n with
  | zero => intro s i _; trivial
  | succ n ih =>
    intro s i h
    simp only [BidMsgsOK]
    cases ha : s.active with
    | none => exact True.intro
    | some a =>
      simp only []
      cases hg : i.get a with
      | none => exact True.intro
      | some x =>
        obtain ⟨msg, i1⟩ := x
        obtain ⟨hm, hsub⟩ := get_mem hg
        obtain ⟨g1, g2, _⟩ := h a msg hm
        simp only []
        refine ⟨g1, ?_⟩
        cases hp : parseBid? (preprocessBid msg) a.formal with
        | none => exact True.intro
        | some call =>
          simp only []
          refine ⟨g2 a call hp, ?_⟩
          cases ht : takeBid s call with
          | error e => exact True.intro
          | ok y =>
            obtain ⟨s1, res⟩ := y
            exact ih s1 i1 (allGood_of_mem h hsub)

theorem boardParses_of_good (F : Nat) (b : BoardSetting) (i : MainIn) (h : AllGood F i) : BoardParses F b i := by
  refine ⟨bidMsgsOK_of_good F 321 _ _ h, ?_⟩
  intro bid s i1 c decl w0 hb _ _ _ _
  have hall : AllParse i := fun p m hm => (h p m hm).2.2
  exact playParses_of_all decl _ 13 1 w0 i1 (allParse_of_mem hall (mainBiddingR_mem 321 _ i bid s i1 hb))

/-- the boards of a session, walked like `mainBoardsR`: all the parse hypotheses follow from `AllGood` of the streams -/
theorem boardsParse_of_good (sc : Scenario) (F : Nat) : ∀ (boards : List (BoardSetting × Decisions)) (k : Nat) (i : MainIn),
    (∀ bd ∈ boards, ConformingAuction bd.1 bd.2 ∧ ConformingPlay bd.1 bd.2 ∧ TextsConform bd.1 bd.2) →
    Feeds i (boardsPhases sc k boards) (fun _ => []) → AllGood F i →
    BoardsParse sc F k (boards.map (·.1)) i := by
  intro boards
  induction boards with
  | nil => intro k i _ _ _; trivial
  | cons x r ih =>
    intro k i hc hfeed hgood
    obtain ⟨b, d⟩ := x
    obtain ⟨h1, h2, h3⟩ := hc (b, d) List.mem_cons_self
    refine ⟨boardParses_of_good F b i hgood, ?_⟩
    intro acts i' hm
    cases r with
    | nil => trivial
    | cons y r' =>
      rw [boardsPhases] at hfeed
      · have hb := mainBoard_run sc k false b d h1 h2 h3 i _ (feeds_append hfeed)
        have hm' : mainBoardR sc k false b i = some (acts, i') := hm
        rw [hb] at hm'
        simp only [Option.some.injEq, Prod.mk.injEq] at hm'
        obtain ⟨_, rfl⟩ := hm'
        refine ih (k + 1) _ (fun bd hbd => hc bd (List.mem_cons_of_mem _ hbd)) (feeds_refl _ _) ?_
        intro p m hmem
        refine hgood p m ?_
        rw [hfeed p, List.flatMap_append]
        exact List.mem_append_left _ (List.mem_append_right _ (by simpa using hmem))
      · simp

end Bridge.Translated.MainD
