import BridgeVerif.Translated.ThreadsMainF
/-!
# The table manager RAISES on a card text the model's parser refuses
-/
set_option maxRecDepth 4000
set_option linter.unusedSimpArgs false
namespace Bridge.Translated.MainB
open Bridge Bridge.Py Bridge.Generated.PyCore
open Bridge.Translated.MsgParsers Bridge.RegexMsgBid

/-- the class `parse_card` raises does not depend on the fuel -/
theorem parse_card_refuses_uniform (content : List Char) (hs : ∀ x ∈ content, agree x = true) (p : Seat)
    (h : parseCard? content p = none) :
    ∃ c ∈ cardErrs, ∀ f, 20 ≤ f →
      callFn P f m_MessageInterface_parse_card [.str content, encSeat p] = .error (.exc c) := by
  obtain ⟨c, hc, h20⟩ := parse_card_refuses content hs p h 20 (Nat.le_refl _)
  exact ⟨c, hc, fun f hf => callFn_fuel_mono P hf _ _ _ h20 (by intro e; cases e)⟩

/-- the head of the body of one card (`get`, `parse_card`, `play_card`) when `parse_card` raises -/
theorem mb_card_head_unparseable (f : Nat) (env : Env) (i i' : Seat → List Str) (out : List Val) (table : Val)
    (tables : List Val) (more : List (Val × Val)) (bs : Val) (c : Contract) (w : WithHands) (msg : Str) (e : Id)
    (hself : lookup env K.self = some (encMainThread (encMainWorld i out table tables more) bs))
    (hpe : lookup env n_playing_env = some (encWithHands c w))
    (hget : MainIn.get i (playedBy w) = some (msg, i'))
    (hparse : ∀ g, callF (mkRec P (g+20)) m_MessageInterface_parse_card [.str msg, encSeat w.base.active]
        = .error (.exc e)) :
    execF (mkRec P (f+70)) P env mbCardHead = .error (.exc e) := by
  simp only [encMainThread] at hself
  have hg := fun f out => mb_w_get_call f i i' (playedBy w) msg hget out table tables more
  by_cases hd : w.base.active = w.base.dummy
  · have hd' := decide_eq_true hd
    have hpb : playedBy w = w.base.declarer := by simp only [playedBy, hd, if_true]
    rw [hpb] at hg
    simp only [mbCardHead, mbCardBody, mbTrickBody, m_MainThread_playing_phase, List.getD_cons_zero, List.getD_cons_succ,
      List.take]
    mbsimp [hself, hpe, hd', hg, mb_mth_parse_card, hparse]
  · have hd' := decide_eq_false hd
    have hpb : playedBy w = w.base.active := by simp only [playedBy, hd, if_false]
    rw [hpb] at hg
    simp only [mbCardHead, mbCardBody, mbTrickBody, m_MainThread_playing_phase, List.getD_cons_zero, List.getD_cons_succ,
      List.take]
    mbsimp [hself, hpe, hd', hg, mb_mth_parse_card, hparse]

/-- ONE CARD, REFUSED: on an environment as in `main_trick_card_translated` (`self` is the thread on the streams `i`,
`playing_env` holds the state `w` — any position reached by accepted cards), if a message is in the queue of the seat that
plays, its characters are in the class `agree` (every ASCII text) and the model's `parseCard?` refuses it for the seat on
turn, then the body of `for i in range(4)` raises one of `cardErrs` — out of its head `mbCardHead` (`get`, `parse_card`),
i.e. BEFORE `play_card`, before the relay loop `mbRelayLoop` that tells the other seats, before dummy's cards -/
theorem main_card_unparseable_raises (decl : Seat) (c : Contract) (table : Val) (tables : List Val)
    (more : List (Val × Val)) (bs : Val) (env : Env) (w : WithHands) (i i' : MainIn) (out : List Val) (message : Text)
    (hself : lookup env K.self = some (encMainThread (encMainWorld i out table tables more) bs))
    (hpe : lookup env n_playing_env = some (encWithHands c w))
    (hinv : MInv decl w)
    (hget : MainIn.get i (playedM decl w) = some (message, i'))
    (hasc : ∀ x ∈ message, agree x = true)
    (hparse : parseCard? message w.base.active = none) :
    ∃ e ∈ cardErrs, ∀ f, 71 ≤ f →
      exec P f env mbCardHead = .error (.exc e) ∧ exec P f env mbCardBody = .error (.exc e) := by
  obtain ⟨e, he, hcall⟩ := parse_card_refuses_uniform message hasc w.base.active hparse
  refine ⟨e, he, fun f hf => ?_⟩
  obtain ⟨g, rfl⟩ : ∃ g, f = g + 71 := ⟨f - 71, by omega⟩
  have h := mb_card_head_unparseable g env i i' out table tables more bs c w message e hself hpe
    (by rw [playedBy_eq hinv]; exact hget) (fun k => hcall (k + 21) (by omega))
  refine ⟨h, ?_⟩
  show execF (mkRec P (g+70)) P env mbCardBody = _
  rw [mbCardBody_eq]
  exact MainA.mt_execF_append_err _ _ _ _ _ h

theorem main_card_unparseable_raises_ascii (decl : Seat) (c : Contract) (table : Val) (tables : List Val)
    (more : List (Val × Val)) (bs : Val) (env : Env) (w : WithHands) (i i' : MainIn) (out : List Val) (message : Text)
    (hself : lookup env K.self = some (encMainThread (encMainWorld i out table tables more) bs))
    (hpe : lookup env n_playing_env = some (encWithHands c w))
    (hinv : MInv decl w)
    (hget : MainIn.get i (playedM decl w) = some (message, i'))
    (hasc : ∀ x ∈ message, x.toNat < 128)
    (hparse : parseCard? message w.base.active = none) :
    ∃ e ∈ cardErrs, ∀ f, 71 ≤ f →
      exec P f env mbCardHead = .error (.exc e) ∧ exec P f env mbCardBody = .error (.exc e) :=
  main_card_unparseable_raises decl c table tables more bs env w i i' out message hself hpe hinv hget
    (fun x hx => agree_ascii x (hasc x hx)) hparse

/-! ## after any run of accepted cards of the trick -/
/-- the model's run of the remaining `n` cards of a trick comes to a message `parseCard?` refuses (after cards it accepted) -/
def mainTrickUnparseable (decl : Seat) : Nat → WithHands → MainIn → Bool
  | 0, _, _ => false
  | n + 1, w, i =>
    match MainIn.get i (playedM decl w) with
    | none => false
    | some (message, i1) =>
      match parseCard? message w.base.active with
      | none => true
      | some card =>
        match w.play card w.base.active with
        | .error _ => false
        | .ok w1 => mainTrickUnparseable decl n w1 i1

theorem mb_forF_err (r : Rec) (x : Id) (body : List Stmt) (env : Env) (it : Val) (items : List Val) (e : Err)
    (h : r.exec (update env x it) body = .error e) :
    forF r [x] body env (it :: items) = .error e := by
  simp only [forF, pure_eq, bind_ok, h, bind_err]

/-- the loop `for i in range(4)` from card `idx` on: the accepted cards are played and relayed (`mb_card`), then the refused
text makes the loop raise -/
theorem mb_cards_loop_unparseable (f : Nat) (decl : Seat) (c : Contract) (deal : Seat → List Card)
    (table : Val) (tables : List Val) (more : List (Val × Val)) (bs : Val) (k : Nat)
    (hok : ∀ c ∈ deal decl.partner, 2 ≤ c.rank ∧ c.rank ≤ 14) :
    ∀ (n idx : Nat), idx + n = 4 → ∀ (env : Env) (w : WithHands) (i : MainIn) (out : List Val),
      lookup env K.self = some (encMainThread (encMainWorld i out table tables more) bs) →
      lookup env n_playing_env = some (encWithHands c w) →
      lookup env n_trick_num = some (.int (Int.ofNat k)) →
      lookup env n_cards = some (.dict (handsKvs deal)) →
      MInv decl w →
      (∀ p, ∀ m ∈ i p, ∀ x ∈ m, agree x = true) →
      mainTrickUnparseable decl n w i = true →
      ∃ e ∈ cardErrs, forF (mkRec P (f+71)) [n_i] mbCardBody env (natItems idx n) = .error (.exc e) := by
  intro n
  induction n with
  | zero => intro idx _ env w i out _ _ _ _ _ _ h; simp [mainTrickUnparseable] at h
  | succ n ih =>
    intro idx hidx env w i out hself hpe htk hcards hinv hasc h
    have hne : ∀ y, n_i ≠ y → lookup (update env n_i (.int (Int.ofNat idx))) y = lookup env y :=
      fun y hy => lookup_update_ne _ _ _ _ hy
    cases hget : MainIn.get i (playedM decl w) with
    | none => simp [mainTrickUnparseable, hget] at h
    | some mi =>
      obtain ⟨message, i1⟩ := mi
      obtain ⟨hmem, hsub⟩ := MainD.get_mem hget
      have hmsg : ∀ x ∈ message, agree x = true := hasc _ message hmem
      cases hp : parseCard? message w.base.active with
      | none =>
        obtain ⟨e, he, hraise⟩ := main_card_unparseable_raises decl c table tables more bs
          (update env n_i (.int (Int.ofNat idx))) w i i1 out message (by rw [hne _ (by decide), hself])
          (by rw [hne _ (by decide), hpe]) hinv hget hmsg hp
        refine ⟨e, he, ?_⟩
        rw [natItems_succ]
        exact mb_forF_err _ _ _ _ _ _ _ (hraise (f + 71) (by omega)).2
      | some card =>
        cases hplay : w.play card w.base.active with
        | error er => simp [mainTrickUnparseable, hget, hp, hplay] at h
        | ok w1 =>
          simp only [mainTrickUnparseable, hget, hp, hplay] at h
          have hpt : ParsesTo message w.base.active card := parse_card_translated message hmsg _ card hp
          obtain ⟨e1, h1, hs1, hp1, hf1⟩ := mb_card f (update env n_i (.int (Int.ofNat idx))) i i1 out table tables more bs c
            w w1 card message (Int.ofNat k) (Int.ofNat idx) deal (by rw [hne _ (by decide), hself])
            (by rw [hne _ (by decide), hpe]) (by rw [hne _ (by decide), htk]) (lookup_update_same _ _ _)
            (by rw [hne _ (by decide), hcards]) hinv.1 (by rw [playedBy_eq hinv]; exact hget) hpt hplay
            (by rw [hinv.2.2]; exact hok)
          obtain ⟨e, he, h2⟩ := ih (idx + 1) (by omega) e1 w1 i1 _ hs1 hp1
            (by rw [hf1 _ (by decide), hne _ (by decide), htk]) (by rw [hf1 _ (by decide), hne _ (by decide), hcards])
            (minv_play hinv hplay) (fun p m hm => hasc p m (hsub p m hm)) h
          refine ⟨e, he, ?_⟩
          rw [natItems_succ, mb_forF_cons _ _ _ _ e1 _ _ h1, h2]

/-- ONE TRICK with a refused card text: the body of `for trick_num in range(1, 14)` raises one of `cardErrs` — at an
arbitrary position (`playing_env` holds any state `w` at the start of a trick), after the cards of the trick the model
accepts -/
theorem main_trick_unparseable_raises (decl : Seat) (c : Contract) (deal : Seat → List Card)
    (table : Val) (tables : List Val) (more : List (Val × Val)) (bs : Val) (k : Nat)
    (env : Env) (w : WithHands) (i : MainIn) (out : List Val)
    (hself : lookup env K.self = some (encMainThread (encMainWorld i out table tables more) bs))
    (hpe : lookup env n_playing_env = some (encWithHands c w))
    (htk : lookup env n_trick_num = some (.int (Int.ofNat k)))
    (hcards : lookup env n_cards = some (.dict (handsKvs deal)))
    (hinv : MInv decl w)
    (hasc : ∀ p, ∀ m ∈ i p, ∀ x ∈ m, agree x = true)
    (hbad : mainTrickUnparseable decl 4 w i = true)
    (hok : ∀ c ∈ deal decl.partner, 2 ≤ c.rank ∧ c.rank ≤ 14) :
    ∀ f, 73 ≤ f → ∃ e ∈ cardErrs, exec P f env mbTrickBody = .error (.exc e) := by
  intro f hf
  obtain ⟨g, rfl⟩ : ∃ g, f = g + 73 := ⟨f - 73, by omega⟩
  obtain ⟨e1, h1, hs1, hl1, hf1⟩ := mb_trick_head (g+42) env i out table tables more bs c w hself hpe
  have h1' : execF (mkRec P (g+72)) P env mbTrickHead = .ok (e1, .next) := h1
  obtain ⟨e2, h2, hs2, hf2⟩ := mb_loop_leader (g+42) e1 i _ table tables more bs _ hs1 hl1
  have h2' : execStmtF (mkRec P (g+72)) P e1 mbLeaderLoop = .ok (e2, .next) := h2
  obtain ⟨e, he, h3⟩ := mb_cards_loop_unparseable (g+1) decl c deal table tables more bs k hok
    4 0 rfl e2 w i _ hs2 (by rw [hf2 _ (by decide), hf1 _ (by decide), hpe])
    (by rw [hf2 _ (by decide), hf1 _ (by decide), htk]) (by rw [hf2 _ (by decide), hf1 _ (by decide), hcards]) hinv hasc hbad
  have h3' : execStmtF (mkRec P (g+72)) P e2 mbCardLoop = .error (.exc e) := by
    rw [mb_cardLoop_stmt (g+70) e2]; exact h3
  refine ⟨e, he, ?_⟩
  show execF (mkRec P (g+72)) P env mbTrickBody = _
  rw [mbTrickBody_eq, mb_execF_append _ _ _ _ _ h1', mb_execF_cons _ _ _ _ _ h2']
  simp only [execF, h3', bind_err]

/-! ## non-vacuity: the example of ThreadsMainBLemmasE.lean with a garbled opening lead -/
def exInBadLead : MainIn := fun p => if p = .W then ["west plays zz".toList] else exIn p

def exEnvBad : Env :=
  [(K.self, encMainThread (encMainWorld exInBadLead [] (.dict []) [] []) .none), (n_contract, encContract exContract),
   (n_cards, .dict (handsKvs exDeal)), (n_playing_env, encWithHands exContract exW0), (n_trick_num, .int 1),
   (n_i, .int 0)]

example : ∃ e ∈ cardErrs, exec P 73 exEnvBad mbTrickBody = .error (.exc e) := by
  have hinv : MInv .S exW0 := minv_init exContract exDeal exW0 .S ex_init rfl
  exact main_trick_unparseable_raises .S exContract exDeal (.dict []) [] [] .none 1 exEnvBad exW0 exInBadLead [] rfl rfl rfl rfl
    hinv (by intro p; cases p <;> decide +kernel) (by decide +kernel) (by decide) 73 (Nat.le_refl _)

end Bridge.Translated.MainB
