import BridgeVerif.Translated.Notation
/-! `contract.py` AS TRANSLATED on every contract with vulnerability `.none` (kernel evaluation; see Contract.lean) -/
namespace Bridge.Translated
open Bridge.Py Bridge.Generated.PyCore

theorem contract_methods_v0 : ∀ b ∈ bidOpts, ∀ x xx : Bool, ∀ d ∈ seatOpts,
    contractAgrees ⟨b, x, xx, .none, d⟩ = true := by
  decide +kernel

end Bridge.Translated
