import BridgeVerif.Translated.PbnParserLemmasC
/-! Translated PBN parser = model: `parse_board` (the `re.sub` comprehension, `re.findall`, the first-wins loop) -/
namespace Bridge.Translated
open Bridge Bridge.Py Bridge.Generated.PyCore Bridge.RegexPbn

/-- HYPOTHESIS of `parse_board`: a match of `_VALUE_OR_SPACE_PATTERN` is never empty (the lambda of `re.sub` reads
`m.group(0)[0]`, which would raise `IndexError` on an empty match; `subJoin` of `PbnRegexFacts` silently yields `' '`) -/
def PbnSubNonempty : Prop :=
  ∀ (s : Str) (ms : List Re.MatchObj), Re.pyFinditer false VALUE_OR_SPACE_PATTERN s = some ms →
    ∀ m ∈ ms, Re.slice s m.span.1 m.span.2 ≠ []

/-- the pieces the comprehension of `parse_board` joins -/
def subPieces (s : Str) : Nat → List Re.MatchObj → List Str
  | i, [] => [s.drop i]
  | i, m :: r =>
    (s.drop i).take (m.span.1 - i)
      :: (let g := Re.slice s m.span.1 m.span.2; if g.head? = some '"' then g else [' '])
      :: subPieces s m.span.2 r

theorem pp_subPieces_flatten (s : Str) : ∀ (ms : List Re.MatchObj) (i : Nat), (subPieces s i ms).flatten = subJoin s i ms := by
  intro ms
  induction ms with
  | nil => intro i; simp [subPieces, subJoin]
  | cons m r ih => intro i; simp only [subPieces, subJoin, List.flatten_cons, ih, List.append_assoc]

/-- the element expression of the comprehension -/
def pbBody : Expr := match m_PbnParser_parse_board.body.getD 1 .pass with
  | .assign _ (.builtin .join [_, .comp _ _ _ b]) => b
  | _ => default

theorem pp_matchVal (s : Str) (m : Re.MatchObj) : ∃ gs, matchVal n__Match (Int.toNat n_texts) s m
    = .obj n__Match [(n_texts, .tuple (.str (Re.slice s m.span.1 m.span.2) :: gs))] := ⟨_, rfl⟩

theorem pp_isSub_Match : P.isSubclass classDepth n__Match n__Match = true := rfl
theorem pp_m_group_call (f : Nat) (g : Val) (gs : List Val) :
    callF (mkRec P (f+6)) m__Match_group [.obj n__Match [(n_texts, .tuple (g :: gs))], .int 0]
      = .ok (g, .obj n__Match [(n_texts, .tuple (g :: gs))]) := rfl

theorem pp_index_str0 (r : Rec) (c : Char) (l : Str) : indexF r P (.str (c :: l)) (.int 0) = .ok (.str [c]) := rfl
theorem pp_beq_quote (c : Char) : (Val.str [c]).beq (.str ['"']) = decide (c = '"') := by
  simp only [Val.beq]; rw [Bool.eq_iff_iff]; simp

theorem pp_comp_str (f : Nat) (env : Env) (x : Str) :
    evalF (mkRec P (f+12)) P (update env n_m (.str x)) pbBody = .ok (.str x) := by
  simp only [pbBody, m_PbnParser_parse_board, List.getD_cons_succ, List.getD_cons_zero]
  ppsimp [builtinF, classOf?]

theorem pp_comp_match (f : Nat) (env : Env) (g : Str) (gs : List Val) (hg : g ≠ []) :
    evalF (mkRec P (f+12)) P (update env n_m (.obj n__Match [(n_texts, .tuple (.str g :: gs))])) pbBody
      = .ok (.str (if g.head? = some '"' then g else [' '])) := by
  simp only [pbBody, m_PbnParser_parse_board, List.getD_cons_succ, List.getD_cons_zero]
  cases g with
  | nil => exact absurd rfl hg
  | cons c l =>
    by_cases hc : c = '"'
    · ppsimp [builtinF, classOf?, pp_isSub_Match, pp_mth_m_group, pp_m_group_call, pp_index_str0, pp_beq_quote, hc,
        List.head?_cons]
    · ppsimp [builtinF, classOf?, pp_isSub_Match, pp_mth_m_group, pp_m_group_call, pp_index_str0, pp_beq_quote, hc,
        List.head?_cons, Option.some.injEq]

theorem pp_comp_pieces (f : Nat) (env : Env) (s : Str) : ∀ (ms : List Re.MatchObj) (i : Nat),
    (∀ m ∈ ms, Re.slice s m.span.1 m.span.2 ≠ []) →
    compF (mkRec P (f+13)) env n_m none pbBody (builtinF.go s n__Match n_texts i ms)
      = .ok ((subPieces s i ms).map Val.str) := by
  intro ms
  induction ms with
  | nil =>
    intro i _
    simp only [builtinF.go, compF, eval_succ, pp_comp_str, bind_ok, pure_eq, if_true, subPieces, List.map_cons, List.map_nil]
  | cons m r ih =>
    intro i h
    obtain ⟨gs, hm⟩ := pp_matchVal s m
    simp only [builtinF.go, hm, compF, eval_succ, pp_comp_str, bind_ok, pure_eq, if_true, subPieces, List.map_cons,
      pp_comp_match _ _ _ _ (h m (List.mem_cons_self ..)), ih _ (fun x hx => h x (List.mem_cons_of_mem _ hx))]

/-! ## the first-wins loop -/
def encRow (nv : Str × Str) : Val := .tuple [.str nv.1, .str nv.2]

def pbLoop : List Stmt := match m_PbnParser_parse_board.body.getD 4 .pass with
  | .for _ _ b => b
  | _ => []

theorem pp_lookupD_game (k : Str) : ∀ g : Game,
    (lookupD (g.map fun kv => (Val.str kv.1, Val.str kv.2)) (.str k)).isSome = g.any (fun kv => kv.1 == k) := by
  intro g
  induction g with
  | nil => rfl
  | cons a g ih =>
    simp only [List.map_cons, lookupD, jp_beq_str, List.any_cons]
    cases h : (a.1 == k)
    · simpa using ih
    · simp

theorem pp_updateD_absent (k v : Str) : ∀ g : Game, g.any (fun kv => kv.1 == k) = false →
    updateD (g.map fun kv => (Val.str kv.1, Val.str kv.2)) (.str k) (.str v)
      = (g ++ [(k, v)]).map fun kv => (Val.str kv.1, Val.str kv.2) := by
  intro g
  induction g with
  | nil => intro _; rfl
  | cons a g ih =>
    intro h
    simp only [List.any_cons, Bool.or_eq_false_iff] at h
    simp only [List.map_cons, updateD, jp_beq_str, h.1, Bool.false_eq_true, if_false, List.cons_append, ih h.2]

theorem pp_index_pair0 (r : Rec) (a b : Val) : indexF r P (.tuple [a, b]) (.int 0) = .ok a := rfl
theorem pp_index_pair1 (r : Rec) (a b : Val) : indexF r P (.tuple [a, b]) (.int 1) = .ok b := rfl

theorem pp_board_loop (f : Nat) (sv xv yv : Val) : ∀ (rows : List (Str × Str)) (acc : Game) (tail : Env),
    ∃ tail', forF (mkRec P (f+19)) [n_tag_pair] pbLoop
        ((K.self, sv) :: (n_string, xv) :: (n_tag_pairs, yv) :: (n_game_mem, encGame acc.reverse) :: tail) (rows.map encRow)
      = .ok ((K.self, sv) :: (n_string, xv) :: (n_tag_pairs, yv) :: (n_game_mem, encGame (firstWins rows acc)) :: tail',
          .next) := by
  intro rows
  induction rows with
  | nil => intro acc tail; exact ⟨tail, rfl⟩
  | cons kv rows ih =>
    intro acc tail
    obtain ⟨k, v⟩ := kv
    simp only [List.map_cons, forF, pbLoop, m_PbnParser_parse_board, List.getD_cons_succ, List.getD_cons_zero, encRow,
      encGame, firstWins]
    have hl := pp_lookupD_game k acc.reverse
    rw [List.any_reverse] at hl
    cases hin : acc.any (fun kv => kv.1 == k) with
    | true =>
      rw [hin] at hl
      ppsimp [pp_index_pair0, pp_index_pair1, pp_inn_flag, hl]
      have := ih acc (update tail n_tag_pair (Val.tuple [Val.str k, Val.str v]))
      simpa only [encGame, pbLoop, m_PbnParser_parse_board, List.getD_cons_succ, List.getD_cons_zero] using this
    | false =>
      rw [hin] at hl
      have hu := pp_updateD_absent k v acc.reverse (by rw [List.any_reverse]; exact hin)
      have hl' : lookupD (acc.reverse.map fun kv => (Val.str kv.1, Val.str kv.2)) (.str k) = none := by
        cases hh : lookupD (acc.reverse.map fun kv => (Val.str kv.1, Val.str kv.2)) (.str k) with
        | none => rfl
        | some x => rw [hh] at hl; cases hl
      ppsimp [pp_index_pair0, pp_index_pair1, pp_inn_flag, hl', hu]
      have := ih ((k, v) :: acc) (update tail n_tag_pair (Val.tuple [Val.str k, Val.str v]))
      simpa only [encGame, List.reverse_cons, pbLoop, m_PbnParser_parse_board, List.getD_cons_succ, List.getD_cons_zero] using this

end Bridge.Translated
