import BridgeVerif.Translated.PbnSettings
import BridgeVerif.Translated.PbnWriter
import BridgeVerif.Props.C18
/-!
# The PBN export round trip INSIDE the translated code  (C18)

`PbnWriter(file); write_header(); write_board_result(r₁); …` as translated (Translated/PbnWriter.lean,
`runPbnDocument`) leaves a file object holding chunks; the text of the file is their concatenation; a text-mode file
object yields `pyLines text`; the translated `PbnParser().parse_all` / `parse_board_settings` (Translated/PbnParserWide.lean,
Translated/PbnSettings.lean) read those lines.  Composed with the model-level theorems of Props/C18.lean:

* `pe_export_round_trip_translated` — for every list of results `rs`: the translated writer succeeds, and the translated
  `parse_all` on the lines of the written text returns exactly `tagss.map encGame`, where
  `rs.mapM resultTags? = some tagss` (the fifteen (tag, value) pairs of every result: `C18.fifteen_tags_in_order`), one game
  per result, in order.  `pe_export_round_trip_translated_no_header`: the same without `write_header()`.
* `pe_export_as_settings_translated` — the translated `parse_board_settings` on the same lines returns records `es'`,
  one per result, with `SameBoard es'[i] ⟨str(board number), dealer, deal, vulnerability, None⟩` and duplicate-free hands.
* a concrete result by instantiation (end of the file).

Hypotheses that REMAIN: `∀ r ∈ rs, r.WF` (`PbnResult.WF`, Spec/PbnLayout.lean: the hypothesis of `C18.export_round_trip`)
and `∀ r ∈ rs, PbnWF r` (Translated/PbnWriterLemmasC.lean: the hypothesis of `pw_document_translated`: ranks 2..14 in a
13-card hand, texts of at most 199000 characters — the writer's fuel).  Nothing else:
* the line-length condition of the parser theorems (≤ 478 / ≤ 466) is DERIVED: the lines are the written chunks
  (`export_is_layout`, `pyLines_text`), and every chunk has at most 255 characters and ends with a line feed
  (`C18.written_lines_at_most_255`); non-emptiness from the final line feed;
* the two header lines `% PBN 2.1`, `% EXPORT` pass `pctLineOk` (`decide +kernel`: the regular-expression engine run on
  them) and leave the parser's state unchanged; no other written line starts with `%` (a tag line starts with `[`, the
  line that ends a game is the line feed);
* the regular-expression facts are the proved ones (`pbnRegexFacts`, `sub_matches_nonempty`, `handsRegexFacts`).
-/
namespace Bridge.Translated
open Bridge Bridge.Py Bridge.Generated.PyCore

/-- the text of the header -/
theorem pe_pyLines_header (t : Str) :
    pyLines (writeHeader.flatten ++ t) = "% PBN 2.1\n".toList :: "% EXPORT\n".toList :: pyLines t := rfl

/-- the two header lines do not change what the parser reads -/
theorem pe_parseStream_header (L : List Str) :
    parseStream ("% PBN 2.1\n".toList :: "% EXPORT\n".toList :: L) = parseStream L := rfl

theorem pe_header_pct : pctLineOk "% PBN 2.1\n".toList = true ∧ pctLineOk "% EXPORT\n".toList = true := by
  decide +kernel

/-- the lines of the written text are the written chunks; each has at most 255 characters, is not empty and does not
start with `%` -/
theorem pe_written_lines (rs : List PbnResult) (h : ∀ r ∈ rs, r.WF) :
    ∃ tagss css, rs.mapM resultTags? = some tagss ∧ rs.mapM writeBoardResult? = some css ∧
      pyLines css.flatten.flatten = css.flatten ∧ parseStream css.flatten = tagss ∧
      (∀ l ∈ css.flatten, l ≠ [] ∧ l.length ≤ 255) ∧ (∀ l ∈ css.flatten, l.head? ≠ some '%') := by
  obtain ⟨tagss, css, h1, h2, h3, h4⟩ := export_is_layout rs h
  obtain ⟨tagss', css', h1', h2', h5⟩ := C18.export_round_trip rs h
  rw [h1] at h1'; rw [h2] at h2'
  cases h1'; cases h2'
  have htext : css.flatten.flatten = (exportFile tagss).text := by rw [h3]; rfl
  have hl : pyLines css.flatten.flatten = css.flatten := by rw [htext, pyLines_text _ h4, h3]
  refine ⟨tagss, css, h1, h2, hl, by rw [← hl]; exact h5, ?_, ?_⟩
  · intro l hl
    obtain ⟨cs, hcs, hlc⟩ := List.mem_flatten.1 hl
    obtain ⟨r, _, hr⟩ := mapM_mem_some h2 cs hcs
    have := C18.written_lines_at_most_255 r cs hr l hlc
    refine ⟨?_, this.1⟩
    intro e; rw [e] at this; cases this.2
  · intro l hl
    rw [h3] at hl
    simp only [exportFile, FileL.lines, List.map_nil, List.nil_append, List.mem_flatMap, List.mem_map, GameL.lines,
      resultGame, List.mem_append, PbnItem.text] at hl
    obtain ⟨g, ⟨tags, _, rfl⟩, hl⟩ := hl
    rcases hl with ⟨i, hi, rfl⟩ | hl
    · obtain ⟨tc, _, rfl⟩ := List.mem_map.1 hi
      simp
    · simp only [List.mem_cons, List.not_mem_nil, or_false] at hl
      obtain ⟨s, rfl, rfl⟩ := hl
      simp

/-- C18 inside the translated code: writer (with header) then `parse_all` -/
theorem pe_export_round_trip_translated (rs : List PbnResult) (hwf : ∀ r ∈ rs, r.WF) (hpw : ∀ r ∈ rs, PbnWF r) :
    ∃ (tagss : List (List (Str × Str))) (chunks : List Str) (self' : Val),
      rs.mapM resultTags? = some tagss ∧
      runPbnDocument [] rs = .ok (encPbnWriter chunks) ∧
      P.runMethod n_PbnParser n_parse_all [encPbnParser {} [] [], .tuple ((pyLines chunks.flatten).map Val.str)]
        = .ok (.tuple (tagss.map encGame), self') := by
  obtain ⟨tagss, css, h1, h2, hl, hp, hok, hno⟩ := pe_written_lines rs hwf
  have hlines : pyLines (writeHeader ++ css.flatten).flatten
      = "% PBN 2.1\n".toList :: "% EXPORT\n".toList :: css.flatten := by
    rw [List.flatten_append, pe_pyLines_header, hl]
  obtain ⟨self', hr⟩ := pp_parse_all_wide_closed ("% PBN 2.1\n".toList :: "% EXPORT\n".toList :: css.flatten)
    (by
      intro l hl
      rcases List.mem_cons.1 hl with rfl | hl
      · exact ⟨by decide, by decide⟩
      rcases List.mem_cons.1 hl with rfl | hl
      · exact ⟨by decide, by decide⟩
      · exact ⟨(hok l hl).1, Nat.le_trans (hok l hl).2 (by decide)⟩)
    (by
      intro l hl hh
      rcases List.mem_cons.1 hl with rfl | hl
      · exact pe_header_pct.1
      rcases List.mem_cons.1 hl with rfl | hl
      · exact pe_header_pct.2
      · exact absurd hh (hno l hl))
  refine ⟨tagss, writeHeader ++ css.flatten, self', h1, pw_document_translated rs hpw css h2, ?_⟩
  rw [hlines, hr, pe_parseStream_header, hp]

/-- the same without `write_header()`: `PbnWriter(file); write_board_result(r₁); …` -/
theorem pe_export_round_trip_translated_no_header (rs : List PbnResult) (hwf : ∀ r ∈ rs, r.WF)
    (hpw : ∀ r ∈ rs, PbnWF r) :
    ∃ (tagss : List (List (Str × Str))) (chunks : List Str) (self' : Val),
      rs.mapM resultTags? = some tagss ∧
      rs.foldlM (fun w r => selfAfter n_PbnWriter n_write_board_result (w :: resultArgs r)) (encPbnWriter [])
        = .ok (encPbnWriter chunks) ∧
      P.runMethod n_PbnParser n_parse_all [encPbnParser {} [] [], .tuple ((pyLines chunks.flatten).map Val.str)]
        = .ok (.tuple (tagss.map encGame), self') := by
  obtain ⟨tagss, css, h1, h2, hl, hp, hok, hno⟩ := pe_written_lines rs hwf
  obtain ⟨self', hr⟩ := pp_parse_all_wide_closed_no_pct css.flatten
    (fun l hl => ⟨(hok l hl).1, Nat.le_trans (hok l hl).2 (by decide)⟩) hno
  refine ⟨tagss, css.flatten, self', h1, ?_, ?_⟩
  · have := pw_results rs [] css hpw h2
    simpa using this
  · rw [hl, hr, hp]

/-- the export read as board settings by the translated `parse_board_settings` -/
theorem pe_export_as_settings_translated (rs : List PbnResult) (hwf : ∀ r ∈ rs, r.WF) (hpw : ∀ r ∈ rs, PbnWF r) :
    ∃ (chunks : List Str) (es' : List SettingEntry) (self' : Val),
      runPbnDocument [] rs = .ok (encPbnWriter chunks) ∧
      P.runMethod n_PbnParser n_parse_board_settings
          [encPbnParser {} [] [], .tuple ((pyLines chunks.flatten).map Val.str)]
        = .ok (.tuple (es'.map encSetting), self') ∧
      es'.length = rs.length ∧
      ∀ i (h₁ : i < es'.length) (h₂ : i < rs.length),
        SameBoard es'[i] ⟨intRepr rs[i].boardNum, rs[i].dealer, rs[i].deal, rs[i].contract.vul, none⟩ ∧
        ∀ p, (es'[i].deal p).Nodup := by
  obtain ⟨tagss, css, h1, h2, hl, hp, hok, hno⟩ := pe_written_lines rs hwf
  obtain ⟨css', ss, h2', hs, hlen, hsb⟩ := C18.export_as_settings rs hwf
  rw [h2] at h2'; cases h2'
  rw [hl] at hs
  have hlines : pyLines (writeHeader ++ css.flatten).flatten
      = "% PBN 2.1\n".toList :: "% EXPORT\n".toList :: css.flatten := by
    rw [List.flatten_append, pe_pyLines_header, hl]
  have hs' : pbnBoardSettings? ("% PBN 2.1\n".toList :: "% EXPORT\n".toList :: css.flatten) = some ss := by
    rw [← hs]; unfold pbnBoardSettings?; rw [pe_parseStream_header]
  obtain ⟨es', self', hsame, hr⟩ := pp_parse_board_settings_wide_closed_some
    ("% PBN 2.1\n".toList :: "% EXPORT\n".toList :: css.flatten)
    (by
      intro l hl
      rcases List.mem_cons.1 hl with rfl | hl
      · exact ⟨by decide, by decide⟩
      rcases List.mem_cons.1 hl with rfl | hl
      · exact ⟨by decide, by decide⟩
      · exact ⟨(hok l hl).1, Nat.le_trans (hok l hl).2 (by decide)⟩)
    (by
      intro l hl hh
      rcases List.mem_cons.1 hl with rfl | hl
      · exact pe_header_pct.1
      rcases List.mem_cons.1 hl with rfl | hl
      · exact pe_header_pct.2
      · exact absurd hh (hno l hl)) ss hs'
  refine ⟨writeHeader ++ css.flatten, es', self', pw_document_translated rs hpw css h2, by rw [hlines]; exact hr,
    hsame.length_eq.trans hlen, fun i h₁ h₂ => ?_⟩
  have hi : i < ss.length := by rw [← hsame.length_eq]; exact h₁
  obtain ⟨a1, a2, a3, a4, a5, a6⟩ := hsame.getElem i h₁ hi
  obtain ⟨b1, b2, b3, b4, b5⟩ := hsb i hi h₂
  exact ⟨⟨a1.trans b1, a2.trans b2, a3.trans b3, fun p => (a5 p).trans (b4 p), a4.trans b5⟩, a6⟩

/-! ## non-vacuity: two (passed-out) boards written and read back -/
theorem pe_exResult_pwf : PbnWF exResult :=
  pw_wf_of_bounds exResult (by intro p c hc; simp [exResult] at hc) (by decide +kernel) (by intro n h; cases h)
    (by decide) (by decide) (by decide) (by decide) (by decide) (by decide) (by decide) (by decide) (by decide)

def peExampleTags : List (Str × Str) :=
  [("Event".toList, ['a']), ("Site".toList, ['a']), ("Date".toList, "2024.01.02".toList),
   ("Board".toList, ['1']), ("West".toList, ['a']), ("North".toList, ['a']), ("East".toList, ['a']),
   ("South".toList, ['a']), ("Dealer".toList, ['N']), ("Vulnerable".toList, "None".toList),
   ("Deal".toList, "N:- - - -".toList), ("Scoring".toList, "IMP".toList), ("Declarer".toList, []),
   ("Contract".toList, "Pass".toList), ("Result".toList, [])]

/-- the translated writer writes the header and two results; the translated `parse_all` reads two games of fifteen
tags each -/
theorem pe_example :
    ∃ (chunks : List Str) (self' : Val),
      runPbnDocument [] [exResult, exResult] = .ok (encPbnWriter chunks) ∧
      P.runMethod n_PbnParser n_parse_all [encPbnParser {} [] [], .tuple ((pyLines chunks.flatten).map Val.str)]
        = .ok (.tuple ([peExampleTags, peExampleTags].map encGame), self') := by
  obtain ⟨tagss, chunks, self', h1, h2, h3⟩ := pe_export_round_trip_translated [exResult, exResult]
    (by intro r hr; simp only [List.mem_cons, List.not_mem_nil, or_false, or_self] at hr; rw [hr]; exact exResult_wf)
    (by intro r hr; simp only [List.mem_cons, List.not_mem_nil, or_false, or_self] at hr; rw [hr]; exact pe_exResult_pwf)
  have ht : tagss = [peExampleTags, peExampleTags] := by
    simp only [List.mapM_cons, List.mapM_nil, exResult_tags, Option.pure_def, Option.bind_eq_bind, Option.bind_some,
      Option.some.injEq] at h1
    exact h1.symm
  rw [ht] at h3
  exact ⟨chunks, self', h2, h3⟩

end Bridge.Translated
