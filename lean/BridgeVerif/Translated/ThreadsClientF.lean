import BridgeVerif.Translated.ThreadsClientE
import BridgeVerif.Lemmas.RegexMsgClientB
/-!
# `parse_team_names` / `parse_leader_message` translated = model on EVERY text; `connectParses` holds outright

With `Lemmas/RegexMsgClientB.lean` (the engine's Unicode case folding and the scanner's `eqCI` agree on every character
against the ASCII letters of the patterns) the class hypotheses of `Translated/ClientParsers{B,D}.lean` and
`Translated/ThreadsClientE.lean` disappear:

* `parse_team_names_all`, `parse_leader_message_all` : for EVERY text, at every fuel ≥ 31, the translated method returns
  the encoding of the model's result, or raises where the model has `none`;
* `connectParses_all` : the hypothesis `connectParses 31 i` of the bundled-client capstone holds for EVERY input `i`;
* `playParses_leader_all` : the field `leader` of `PlayParses 31 i` holds for EVERY input `i`;
* `parse_board_nodigit`, `dealParses_board_nodigit` : the same for `parse_board` on every header without a non-ASCII
  decimal digit (`\d` is Unicode-aware in `re`, the model's scanner reads ASCII digits: `"Board number ١٨. …"` is read by
  the translated code and refused by the model — outside the class).
-/
namespace Bridge.Translated.ClientE
open Bridge Bridge.Py Bridge.Generated.PyCore Bridge.Translated Bridge.Translated.ClientA Bridge.Translated.ClientB
open Bridge.Translated.ClientParsers Bridge.RegexMsgClient

/-- `Client.parse_team_names` translated, on EVERY text, at every fuel ≥ 31 -/
theorem parse_team_names_all (s : Str) (g : Nat) (hg : 31 ≤ g) :
    callFn P g m_Client_parse_team_names [.str s] =
      match parseTeamNames? s with
      | none => .error (.exc K.Exception)
      | some (ns, ew) => .ok (.tuple [.str ns, .str ew], .str s) :=
  parse_team_names_translated s (fun x _ => agreeTeams_all x) g hg

/-- `Client.parse_leader_message` translated, on EVERY text, at every fuel ≥ 31 -/
theorem parse_leader_message_all (s : Str) (dummy : Seat) (g : Nat) (hg : 31 ≤ g) :
    callFn P g m_Client_parse_leader_message [.str s, encSeat dummy] = leaderResult s dummy :=
  parse_leader_message_translated s (fun x _ => agreeLead_all x) dummy g hg

/-- … in terms of the model: success -/
theorem parse_leader_message_all_ok (s : Str) (dummy l : Seat) (h : parseLeader? s dummy = some l) (g : Nat)
    (hg : 31 ≤ g) : callFn P g m_Client_parse_leader_message [.str s, encSeat dummy] = .ok (encSeat l, .str s) :=
  parse_leader_message_ok s (fun x _ => agreeLead_all x) dummy l h g hg

/-- … failure: `Exception` (no match) or `ValueError` (unknown name) -/
theorem parse_leader_message_all_raises (s : Str) (dummy : Seat) (h : parseLeader? s dummy = none) (g : Nat)
    (hg : 31 ≤ g) :
    callFn P g m_Client_parse_leader_message [.str s, encSeat dummy] = .error (.exc K.Exception) ∨
    callFn P g m_Client_parse_leader_message [.str s, encSeat dummy] = .error (.exc K.ValueError) := by
  rcases parse_leader_message_raises s (fun x _ => agreeLead_all x) dummy h g hg with ⟨_, h⟩ | ⟨_, h⟩
  · exact .inl h
  · exact .inr h

/-- `Client.parse_board` translated, on every header without a non-ASCII decimal digit, at every fuel ≥ 31 -/
theorem parse_board_nodigit (s : Str) (hs : ∀ x ∈ s, x.toNat < 128 ∨ Re.isDigit x = false) (g : Nat) (hg : 31 ≤ g) :
    callFn P g m_Client_parse_board [.str s] = boardResult s :=
  parse_board_translated s (fun x hx => by
    rcases hs x hx with h | h
    · exact agreeBoard_ascii x h
    · exact agreeBoard_of_not_digit x h) g hg

/-- THE HYPOTHESIS `connectParses` OF THE BUNDLED-CLIENT CAPSTONE HOLDS FOR EVERY INPUT -/
theorem connectParses_all (i : ClientIn) : connectParses 31 i :=
  connectParses_of_agree i fun _ _ _ _ x _ => agreeTeams_all x

/-- … at any larger fuel bound as well -/
theorem connectParses_all' (N : Nat) (hN : 31 ≤ N) (i : ClientIn) : connectParses N i := by
  have h := connectParses_all i
  unfold connectParses at h ⊢
  split
  · rename_i reply teams rest heq
    rw [heq] at h
    exact fun ns ew hp => Returns.mono (h ns ew hp) hN
  · trivial

/-- the field `leader` of `PlayParses` holds for every input -/
theorem playParses_leader_all (i : ClientIn) :
    ∀ m ∈ i.s, ∀ (d l : Seat), parseLeader? m d = some l →
      Returns 31 m_Client_parse_leader_message [.str m, encSeat d] (encSeat l) :=
  playParses_leader i fun _ _ x _ => agreeLead_all x

/-- the first conjunct of `dealParses` on every header without a non-ASCII decimal digit -/
theorem dealParses_board_nodigit (header : Text) (h : ∀ x ∈ header, x.toNat < 128 ∨ Re.isDigit x = false) :
    ∀ k dealer vul, parseBoard? header = some (k, dealer, vul) →
      Returns 31 m_Client_parse_board [.str header] (.tuple [.int k, encSeat dealer, encVul vul]) :=
  dealParses_board header fun x hx => by
    rcases h x hx with h | h
    · exact agreeBoard_ascii x h
    · exact agreeBoard_of_not_digit x h

/-- the `Teams` message built from ANY two names without a double quote / line break -/
theorem teams_message_returns_all (ns ew : Text) (n1 : NameOK ns) (n2 : NameOK ew) :
    Returns 31 m_Client_parse_team_names [.str (teamsMsg ns ew)] (.tuple [.str ns, .str ew]) :=
  teams_message_returns ns ew n1 n2 (fun x _ => agreeTeams_all x) (fun x _ => agreeTeams_all x)

end Bridge.Translated.ClientE
