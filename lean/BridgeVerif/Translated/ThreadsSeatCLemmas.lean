import BridgeVerif.Translated.ThreadsSeatA
import BridgeVerif.Translated.ThreadsSeatB
/-! Translated `SeatThread.run`: the board loop cut into one board (model `seatBoardR`), the body of the generated loop
cut into a front part (up to `_playing_phase`) and a back part (the status message), symbolic execution of both -/
set_option maxRecDepth 4000
namespace Bridge.Translated.SeatC
open Bridge Bridge.Py Bridge.Generated.PyCore
open Bridge.Translated.SeatB (playingChecks seat_playing_translated encSeatActs_append sb_execF_append)

/-! ## the generated loop -/

/-- the body of the `while True` board loop of the generated `run` -/
def runBody : List Stmt := match m_SeatThread_run.body.getD 2 .pass with
  | .while _ b => b
  | _ => []

/-- the statements of the body up to and including `if not passed_out: …` -/
def runFront : List Stmt := runBody.take 9
/-- the status message: `continue` / `End of session` + `return` / `raise` -/
def runBack : List Stmt := runBody.drop 9

theorem runBody_eq : runBody = runFront ++ runBack := rfl

/-- two barrier waits -/
def adv2 (tt : Val × List Val) : Val × List Val := advanceTables (advanceTables tt)

theorem sc_passed_beq :
    (Val.str MSG_PASSED_OUT).beq (.str ['p', 'a', 's', 's', 'e', 'd', ' ', 'o', 'u', 't']) = true := by
  with_unfolding_all rfl
theorem sc_null_ne_passed :
    (Val.str MSG_NULL).beq (.str ['p', 'a', 's', 's', 'e', 'd', ' ', 'o', 'u', 't']) = false := by
  with_unfolding_all rfl
theorem sc_next_beq :
    (Val.str MSG_NEXT).beq (.str ['n', 'e', 'x', 't', ' ', 'b', 'o', 'a', 'r', 'd']) = true := by
  with_unfolding_all rfl
theorem sc_end_ne_next :
    (Val.str MSG_END).beq (.str ['n', 'e', 'x', 't', ' ', 'b', 'o', 'a', 'r', 'd']) = false := by
  with_unfolding_all rfl
theorem sc_end_beq :
    (Val.str MSG_END).beq (.str ['E', 'n', 'd', ' ', 'o', 'f', ' ', 's', 'e', 's', 's', 'i', 'o', 'n']) = true := by
  with_unfolding_all rfl

theorem sc_mth_bidding :
    P.method? classDepth n_SeatThread n__bidding_phase = some (n_SeatThread, m_SeatThread__bidding_phase) := rfl
theorem sc_mth_playing :
    P.method? classDepth n_SeatThread n__playing_phase = some (n_SeatThread, m_SeatThread__playing_phase) := rfl

/-- the front part when the auction was passed out -/
theorem sc_front_passed (g : Nat) (p : Seat) (q c qd cd qb cb : List Str) (dops bops : List Val)
    (extra : List (Id × Val)) (out : List Val) (table : Val) (tables : List Val) (rest : Env)
    (hd : ∀ k out table tables, callF (mkRec P (g+k)) m_SeatThread__deal
        [encSeatThread p (encSeatWorld p q c out table tables) extra]
      = .ok (.bool true, encSeatThread p (encSeatWorld p qd cd (out ++ dops)
          (adv2 (table, tables)).1 (adv2 (table, tables)).2) extra))
    (hb : ∀ k out table tables, callF (mkRec P (g+k)) m_SeatThread__bidding_phase
        [encSeatThread p (encSeatWorld p qd cd out table tables) extra]
      = .ok (.bool true, encSeatThread p (encSeatWorld p (MSG_PASSED_OUT :: qb) cb (out ++ bops) table tables) extra)) :
    ∃ rest', execF (mkRec P (g+30)) P
        ((K.self, encSeatThread p (encSeatWorld p q c out table tables) extra) :: rest) runFront
      = .ok ((K.self, encSeatThread p (encSeatWorld p qb cb
          (out ++ [.tuple [vstr "send", .str MSG_START]] ++ dops ++ bops ++ [.tuple [vstr "get", vstr "m2t", encSeat p]])
          (adv2 (table, tables)).1 (adv2 (table, tables)).2) extra) :: rest', .next) := by
  simp only [st_thread_def] at hd hb ⊢
  refine ⟨?_, ?_⟩
  rotate_left
  · simp only [runFront, runBody, m_SeatThread_run, List.getD_cons_zero, List.getD_cons_succ, List.take_succ_cons,
      List.take_zero]
    thsimp [st_mth_deal, hd, sc_mth_bidding, hb, st_mth_recv_q, st_recv_q_call, sc_passed_beq, List.append_assoc]
    rfl

/-- the front part when a contract was reached: `_playing_phase` runs -/
theorem sc_front_played (g : Nat) (p : Seat) (q c qd cd qb cb qp cp : List Str) (dops bops pops : List Val)
    (extra : List (Id × Val)) (out : List Val) (table : Val) (tables : List Val) (rest : Env)
    (hd : ∀ k out table tables, callF (mkRec P (g+k)) m_SeatThread__deal
        [encSeatThread p (encSeatWorld p q c out table tables) extra]
      = .ok (.bool true, encSeatThread p (encSeatWorld p qd cd (out ++ dops)
          (adv2 (table, tables)).1 (adv2 (table, tables)).2) extra))
    (hb : ∀ k out table tables, callF (mkRec P (g+k)) m_SeatThread__bidding_phase
        [encSeatThread p (encSeatWorld p qd cd out table tables) extra]
      = .ok (.bool true, encSeatThread p (encSeatWorld p (MSG_NULL :: qb) cb (out ++ bops) table tables) extra))
    (hp : ∀ k out table tables, callF (mkRec P (g+k)) m_SeatThread__playing_phase
        [encSeatThread p (encSeatWorld p qb cb out table tables) extra]
      = .ok (.bool true, encSeatThread p (encSeatWorld p qp cp (out ++ pops) table tables) extra)) :
    ∃ rest', execF (mkRec P (g+30)) P
        ((K.self, encSeatThread p (encSeatWorld p q c out table tables) extra) :: rest) runFront
      = .ok ((K.self, encSeatThread p (encSeatWorld p qp cp
          (out ++ [.tuple [vstr "send", .str MSG_START]] ++ dops ++ bops ++ [.tuple [vstr "get", vstr "m2t", encSeat p]]
            ++ pops)
          (adv2 (table, tables)).1 (adv2 (table, tables)).2) extra) :: rest', .next) := by
  simp only [st_thread_def] at hd hb hp ⊢
  refine ⟨?_, ?_⟩
  rotate_left
  · simp only [runFront, runBody, m_SeatThread_run, List.getD_cons_zero, List.getD_cons_succ, List.take_succ_cons,
      List.take_zero]
    thsimp [st_mth_deal, hd, sc_mth_bidding, hb, st_mth_recv_q, st_recv_q_call, sc_null_ne_passed, st_null_beq,
      sc_mth_playing, hp, List.append_assoc]
    rfl

/-- the back part: `next board` -/
theorem sc_back_next (g : Nat) (p : Seat) (q c : List Str) (extra : List (Id × Val)) (out : List Val) (table : Val)
    (tables : List Val) (rest : Env) :
    ∃ rest', execF (mkRec P (g+30)) P
        ((K.self, encSeatThread p (encSeatWorld p (MSG_NEXT :: q) c out table tables) extra) :: rest) runBack
      = .ok ((K.self, encSeatThread p (encSeatWorld p q c
          (out ++ [.tuple [vstr "get", vstr "m2t", encSeat p]]) table tables) extra) :: rest', .cont) := by
  simp only [st_thread_def]
  refine ⟨?_, ?_⟩
  rotate_left
  · simp only [runBack, runBody, m_SeatThread_run, List.getD_cons_zero, List.getD_cons_succ, List.drop_succ_cons,
      List.drop_zero]
    thsimp [st_mth_recv_q, st_recv_q_call, sc_next_beq]
    rfl

/-- the back part: `End of session` -/
theorem sc_back_end (g : Nat) (p : Seat) (q c : List Str) (extra : List (Id × Val)) (out : List Val) (table : Val)
    (tables : List Val) (rest : Env) :
    ∃ rest', execF (mkRec P (g+30)) P
        ((K.self, encSeatThread p (encSeatWorld p (MSG_END :: q) c out table tables) extra) :: rest) runBack
      = .ok ((K.self, encSeatThread p (encSeatWorld p q c
          (out ++ [.tuple [vstr "get", vstr "m2t", encSeat p], .tuple [vstr "send", .str MSG_END]]) table tables) extra)
          :: rest', .ret .none) := by
  simp only [st_thread_def]
  refine ⟨?_, ?_⟩
  rotate_left
  · simp only [runBack, runBody, m_SeatThread_run, List.getD_cons_zero, List.getD_cons_succ, List.drop_succ_cons,
      List.drop_zero]
    thsimp [st_mth_recv_q, st_recv_q_call, sc_end_ne_next, sc_end_beq, List.append_assoc]
    rfl

end Bridge.Translated.SeatC
