import BridgeVerif.Translated.JsonParserLemmasA
/-! Translated JSON parser (parser.py) = model: `Contract.str_to_contract` on an arbitrary string.  Where the model reads a contract whose final bid
is `Pass` (texts `Pass`, `PassX`, `sPas`, … — the model has `finalBid = none` for them) Python builds `Contract(Bid.Pass, …)`,
NOT `Contract(None, …)`: `pyContract` is the instance actually built -/
namespace Bridge.Translated
open Bridge Bridge.Py Bridge.Generated.PyCore

def pyContractVal (fb : Val) (c : Contract) : Val :=
  .obj n_Contract [(n_final_bid, fb), (n_x, .bool c.x), (n_xx, .bool c.xx), (n_vul, encVul c.vul),
                   (n_declarer, encOpt encSeat c.declarer)]
/-- the `Contract` instance `Contract.str_to_contract(s, …)` builds where the model reads `c` -/
def pyContract (s : List Char) (c : Contract) : Val :=
  pyContractVal (if c.finalBid = none ∧ s ≠ "Passed_out".toList then .enum n_Bid 36 else encOpt encBid c.finalBid) c

theorem jp_mth_str_to_contract :
    P.method? classDepth n_Contract n_str_to_contract = some (n_Contract, m_Contract_str_to_contract) := rfl

theorem jp_snoc_of_ne_nil (s : List Char) (h : s ≠ []) : ∃ s0 c, s = s0 ++ [c] := by
  rcases List.eq_nil_or_concat s with h' | ⟨s0, c, h'⟩
  · exact absurd h' h
  · exact ⟨s0, c, by simpa using h'⟩

/-- the tail of `str_to_contract` once the `X`s are stripped -/
theorem jp_contract_tail (body : List Char) (x xx : Bool) (v : Vul) (d : Option Seat) (c : Contract)
    (h : (match strToCall? body with
      | some (.bid b) => some (⟨some b, x, xx, v, d⟩ : Contract)
      | some .pass => some ⟨none, x, xx, v, d⟩
      | _ => none) = some c) :
    ∃ cl, strToCall? body = some cl ∧ (encCall cl).beq (.enum n_Bid 37) = false ∧ (encCall cl).beq (.enum n_Bid 38) = false ∧
      c.x = x ∧ c.xx = xx ∧ c.vul = v ∧ c.declarer = d ∧
      ((c.finalBid = none ∧ cl = .pass) ∨ (∃ b, c.finalBid = some b ∧ cl = .bid b)) := by
  cases hb : strToCall? body with
  | none => rw [hb] at h; cases h
  | some cl =>
    rw [hb] at h
    cases cl with
    | bid b => cases h; exact ⟨_, rfl, by simp [beq_encCall_dbl], by simp [beq_encCall_rdbl], rfl, rfl, rfl, rfl, Or.inr ⟨b, rfl, rfl⟩⟩
    | pass => cases h; exact ⟨_, rfl, by simp [beq_encCall_dbl], by simp [beq_encCall_rdbl], rfl, rfl, rfl, rfl, Or.inl ⟨rfl, rfl⟩⟩
    | dbl => cases h
    | rdbl => cases h

theorem jp_pyContract_eq (s : List Char) (c : Contract) (cl : Call) (hs : s ≠ "Passed_out".toList)
    (hc : (c.finalBid = none ∧ cl = .pass) ∨ (∃ b, c.finalBid = some b ∧ cl = .bid b)) :
    pyContract s c = pyContractVal (encCall cl) c := by
  unfold pyContract
  rcases hc with ⟨h1, rfl⟩ | ⟨b, h1, rfl⟩
  · rw [if_pos ⟨h1, hs⟩]; rfl
  · rw [if_neg (fun h => by rw [h1] at h; cases h.1), h1]; rfl

theorem jp_str_to_contract_call (f : Nat) (s : List Char) (v : Vul) (d : Option Seat) (c : Contract)
    (h : strToContract? s v d = some c) :
    callF (mkRec P (f+24)) m_Contract_str_to_contract [.cls n_Contract, .str s, encVul v, encOpt encSeat d]
      = .ok (pyContract s c, .cls n_Contract) := by
  rw [callF_def]
  simp only [m_Contract_str_to_contract, bindParams, Option.map]
  unfold strToContract? at h
  by_cases hp : s = "Passed_out".toList
  · subst hp
    simp only [if_true] at h
    cases d with
    | some _ => cases h
    | none =>
      cases h
      have hc := fun g a b c d => jp_construct_contract g .none a b c d (by simp [Val.beq]) (by simp [Val.beq])
      show _ = Except.ok (pyContract ['P', 'a', 's', 's', 'e', 'd', '_', 'o', 'u', 't'] _, _)
      ppsimp [jp_beq_str', hc, beq_none_none]
      rfl
  · simp only [hp, if_false] at h
    by_cases hn : s = []
    · simp only [hn, if_true] at h; cases h
    · simp only [hn, if_false] at h
      obtain ⟨s0, ch, rfl⟩ := jp_snoc_of_ne_nil s hn
      have hp' : ¬ (s0 ++ [ch] = ['P', 'a', 's', 's', 'e', 'd', '_', 'o', 'u', 't']) := hp
      rw [jp_stripX_snoc] at h
      by_cases hx : ch = 'X'
      · subst hx
        simp only [↓reduceIte] at h
        by_cases hs0 : s0 = []
        · subst hs0
          simp at h
        · simp only [hs0, ↓reduceIte] at h
          obtain ⟨s1, ch, rfl⟩ := jp_snoc_of_ne_nil s0 hs0
          rw [jp_stripX_snoc] at h
          by_cases hx : ch = 'X'
          · subst hx
            simp only [↓reduceIte] at h
            split at h
            · cases h
            · obtain ⟨cl, hb, hb1, hb2, e1, e2, e3, e4, hfb⟩ := jp_contract_tail _ _ _ _ _ _ h
              rw [jp_pyContract_eq _ _ _ hp hfb]
              ppsimp [jp_beq_str', hp', decide_false, jp_index_last, jp_sliceList_init, jp_mth_str_to_bid,
                jp_str_to_bid_call _ _ _ hb, jp_construct_contract _ _ _ _ _ _ hb1 hb2]
              simp only [pyContractVal, e1, e2, e3, e4]
          · simp only [hx, ↓reduceIte] at h
            have hx' : ¬ ([ch] = ['X']) := by simpa using hx
            split at h
            · cases h
            · obtain ⟨cl, hb, hb1, hb2, e1, e2, e3, e4, hfb⟩ := jp_contract_tail _ _ _ _ _ _ h
              rw [jp_pyContract_eq _ _ _ hp hfb]
              ppsimp [jp_beq_str', hp', decide_false, jp_index_last, jp_sliceList_init, hx', jp_mth_str_to_bid,
                jp_str_to_bid_call _ _ _ hb, jp_construct_contract _ _ _ _ _ _ hb1 hb2]
              simp only [pyContractVal, e1, e2, e3, e4]
      · simp only [hx, if_false] at h
        have hx' : ¬ ([ch] = ['X']) := by simpa using hx
        split at h
        · cases h
        · obtain ⟨cl, hb, hb1, hb2, e1, e2, e3, e4, hfb⟩ := jp_contract_tail _ _ _ _ _ _ h
          rw [jp_pyContract_eq _ _ _ hp hfb]
          ppsimp [jp_beq_str', hp', decide_false, jp_index_last, hx', jp_mth_str_to_bid, jp_str_to_bid_call _ _ _ hb,
            jp_construct_contract _ _ _ _ _ _ hb1 hb2]
          simp only [pyContractVal, e1, e2, e3, e4]

end Bridge.Translated
