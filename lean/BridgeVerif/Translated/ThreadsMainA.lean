import BridgeVerif.Translated.ThreadsMainALemmasD
import BridgeVerif.Lemmas.MiniPyFuel
/-!
# `MainThread` AS TRANSLATED (`_sync_event`, `deal`, `bidding_phase`) is the reactive model of Model/MainThread.lean
-/
namespace Bridge.Translated.MainA
open Bridge Bridge.Py Bridge.Generated.PyCore

/-! ## (0) `_sync_event` -/

/-- the translated `Server._sync_event`: ONE world operation `sync` (= `arrive`; `depart` adds nothing), and the seat table
advances as `w_advance` says -/
theorem main_sync_event_translated (encRec : BoardRecord → Val) (i : MainIn) (out : List Val) (table : Val) (tables : List Val)
    (more : List (Val × Val)) (bs pe ev : Val) (f : Nat) (hf : 21 ≤ f) :
    ∃ ops, encMainActs encRec sync = some ops ∧
      callFn P f m_MainThread__sync_event [encMainThread (encMainWorld i out table tables more) bs, pe, ev]
        = .ok (.none, encMainThread (encMainWorld i (out ++ ops) (advTable table tables).1 (advTable table tables).2 more) bs) := by
  obtain ⟨g, rfl⟩ : ∃ g, f = g + 21 := ⟨f - 21, by omega⟩
  exact ⟨[syncOp], rfl, mt_sync_event_call g (mainIns i more) out table tables false bs pe ev⟩

/-- non-vacuity: one barrier wait on a world whose seat table has one later snapshot -/
example : callFn P 30 m_MainThread__sync_event
      [encMainThread (encMainWorld (fun _ => []) [] (.int 0) [.int 1] []) .none, .none, .none]
    = .ok (.none, encMainThread (encMainWorld (fun _ => []) [syncOp] (.int 1) [] []) .none) := by
  obtain ⟨ops, h1, h2⟩ := main_sync_event_translated (fun _ => .none) (fun _ => []) [] (.int 0) [.int 1] [] .none .none .none
    30 (by decide)
  have h : encMainActs (fun _ => Val.none) sync = some [syncOp] := rfl
  rw [h] at h1
  rw [← Option.some.inj h1] at h2
  exact h2

/-! ## (1) `deal` -/

/-- the operations of `Server.deal` -/
def dealOps (k : Nat) (b : BoardSetting) : List Val :=
  [putOp .N (boardHeader k b.dealer b.vul), putOp .N (cardsMsg Seat.N.formal (b.deal .N)),
   putOp .E (boardHeader k b.dealer b.vul), putOp .E (cardsMsg Seat.E.formal (b.deal .E)),
   putOp .S (boardHeader k b.dealer b.vul), putOp .S (cardsMsg Seat.S.formal (b.deal .S)),
   putOp .W (boardHeader k b.dealer b.vul), putOp .W (cardsMsg Seat.W.formal (b.deal .W)),
   syncOp, syncOp]

/-- they are the rendering of `mainDealR` -/
theorem main_deal_ops (encRec : BoardRecord → Val) (k : Nat) (b : BoardSetting) :
    encMainActs encRec (mainDealR k b) = some (dealOps k b) := rfl

/-- `deal` on any world (symbolic execution; the loop over the four seats unrolled) -/
theorem main_deal_call (f : Nat) (k : Nat) (b : BoardSetting)
    (hok : ∀ p, ∀ c ∈ b.deal p, 2 ≤ c.rank ∧ c.rank ≤ 14)
    (ins : List (Val × Val)) (out : List Val) (table : Val) (tables : List Val) (eof : Bool) (bs : Val) :
    callF (mkRec P (f+60)) m_MainThread_deal
        [encMainThread (encWorld ins out table tables eof) bs, .int k, encSeat b.dealer, encVul b.vul, encHands b.deal, .none]
      = .ok (.none, encMainThread (encWorld ins (out ++ dealOps k b)
                (advTable (advTable table tables).1 (advTable table tables).2).1
                (advTable (advTable table tables).1 (advTable table tables).2).2 eof) bs) := by
  rw [callF_def]
  simp only [m_MainThread_deal, bindParams, Option.map, encMainThread]
  have hput := fun g o q k m => mt_w_put_call g ins o table tables eof q k m
  have hsync := fun g i o t ts pe ev => mt_sync_event_call g i o t ts eof bs pe ev
  have hhs := fun g p => nh_hand_to_str_call g (b.deal p) (hok p)
  simp only [encWorld, encMainThread] at hput hsync ⊢
  ppsimp [mt_iter_player, forF, hput, hsync, mt_mth_w_put, mt_mth_sync_event, mt_getAttr_formal, mt_mth_convert_vul,
    mt_convert_vul_call, nh_mth_hand_to_str, hhs, hd_index_hands, hands_mth_getitem, hands_getitem_call,
    mt_strOf_str, mt_strOf_int, mt_header_eq, mt_cards_eq]
  simp only [dealOps, putOp, syncOp, List.append_assoc, List.cons_append, List.nil_append]
  rfl

/-- THE TRANSLATED `Server.deal` IS `mainDealR`: for the board setting `b` with that dealer / vulnerability / deal, the call
returns `None`, the world has performed exactly the operations of `mainDealR k b` (header and cards to every seat, two
barrier waits), and the two barrier waits have advanced the seat table twice.  Hypothesis `hok`: every rank is in 2..14
(`Card.rank_int_to_str` raises outside — `nh_rank_hypothesis_needed`). -/
theorem main_deal_translated (encRec : BoardRecord → Val) (k : Nat) (dealer : Seat) (vul : Vul) (cards : Hands)
    (b : BoardSetting) (hd : b.dealer = dealer) (hv : b.vul = vul) (hc : b.deal = cards)
    (hok : ∀ p, ∀ c ∈ cards p, 2 ≤ c.rank ∧ c.rank ≤ 14)
    (i : MainIn) (out : List Val) (table : Val) (tables : List Val) (more : List (Val × Val)) (bs : Val)
    (f : Nat) (hf : 61 ≤ f) :
    ∃ ops, encMainActs encRec (mainDealR k b) = some ops ∧
      callFn P f m_MainThread_deal
          [encMainThread (encMainWorld i out table tables more) bs, .int k, encSeat dealer, encVul vul, encHands cards, .none]
        = .ok (.none, encMainThread (encMainWorld i (out ++ ops)
                (advTable (advTable table tables).1 (advTable table tables).2).1
                (advTable (advTable table tables).1 (advTable table tables).2).2 more) bs) := by
  obtain ⟨g, rfl⟩ : ∃ g, f = g + 61 := ⟨f - 61, by omega⟩
  subst hd; subst hv; subst hc
  exact ⟨dealOps k b, main_deal_ops encRec k b, main_deal_call g k b hok (mainIns i more) out table tables false bs⟩

/-! non-vacuity -/
/-- a (partial) deal: North holds ♠A ♥K ♥2, East ♣10, South and West nothing -/
def exBoard : BoardSetting :=
  { boardId := "7".toList, dealer := .E, vul := .ns,
    deal := fun p => match p with | .N => [⟨13, .H⟩, ⟨14, .S⟩, ⟨2, .H⟩] | .E => [⟨10, .C⟩] | _ => [] }

example : ∃ ops, encMainActs (fun _ => .none) (mainDealR 7 exBoard) = some ops ∧
    callFn P 100 m_MainThread_deal
        [encMainThread (encMainWorld (fun _ => []) [] (.dict []) [.int 1, .int 2, .int 3] []) .none, .int 7, encSeat .E, encVul .ns,
          encHands exBoard.deal, .none]
      = .ok (.none, encMainThread (encMainWorld (fun _ => []) ([] ++ ops) (.int 2) [.int 3] []) .none) :=
  main_deal_translated (fun _ => .none) 7 .E .ns exBoard.deal exBoard rfl rfl rfl
    (by intro p c hc; cases p <;> simp [exBoard] at hc <;> (try rcases hc with rfl | rfl | rfl) <;> (try subst hc) <;> decide)
    (fun _ => []) [] (.dict []) [.int 1, .int 2, .int 3] [] .none 100 (by decide)

/-- the same call evaluated by the kernel: ten operations, the first is the header put to North -/
example : (match callFn P 100 m_MainThread_deal
        [encMainThread (encMainWorld (fun _ => []) [] (.dict []) [.int 1, .int 2, .int 3] []) .none, .int 7, encSeat .E, encVul .ns,
          encHands exBoard.deal, .none] with
    | .ok (.none, .obj _ [(_, .obj _ [_, (_, .tuple (o :: out)), (_, t), (_, .tuple ts), _]), _]) =>
      o.beq (putOp .N "Board number 7. Dealer East. N/S vulnerable.".toList) && out.length == 9 && t.beq (.int 2) && ts.length == 1
    | _ => false) = true := by decide +kernel
example : cardsMsg Seat.N.formal (exBoard.deal .N) = "North's cards : S A. H K 2. D -. C -.".toList := by decide +kernel

/-! ## (2) `bidding_phase` -/

/-- (h1), (h2) for every message `msg` the loop consumes from queue `a`, walking the streams like `mainBiddingR`: at every
fuel `≥ F`
* (h1) the translated preprocessing `msg' := remove_alert_word(msg) if 'alert' in msg.lower() else msg` is the model's
  `preprocessBid msg`.  `hasAlert msg` is the test `'alert' in msg.lower()` as the interpreter computes it; it IS the
  model's test (`hasAlert_eq`, ThreadsMainALemmasC.lean), so nothing is asked when it fails
  (`preprocessBid_of_no_alert`), and when it holds the hypothesis says: `Server.remove_alert_word(msg)` returns
  `preprocessBid msg = removeAlert msg` (`preprocessBid_of_alert`);
* (h2) the translated `MessageInterface.parse_bid(msg', a.formal_name)` returns `encCall call` for the call
  `parseBid? msg' a.formal = some call` the model finds.
Nothing is assumed about the regular expressions themselves.  `bidMsg_fuel_lift` / `BidMsgsOK_of_check`: it is enough to
run the two translated functions at ONE fuel `F`. -/
def BidMsgsOK (F : Nat) : Nat → AState → MainIn → Prop
  | 0, _, _ => True
  | n + 1, s, i =>
    match s.active with
    | none => True
    | some a =>
      match i.get a with
      | none => True
      | some (msg, i1) =>
        (hasAlert msg = true →
          ∀ g, F ≤ g → (callFn P g m_Server_remove_alert_word [.str msg]).map (·.1) = .ok (.str (preprocessBid msg))) ∧
        match parseBid? (preprocessBid msg) a.formal with
        | none => True
        | some call =>
          (∀ g, F ≤ g →
            (callFn P g m_MessageInterface_parse_bid [.str (preprocessBid msg), .str a.formal]).map (·.1)
              = .ok (encCall call)) ∧
          match takeBid s call with
          | .ok (s1, _) => BidMsgsOK F n s1 i1
          | .error _ => True

/-- a value returned at ONE fuel is the value returned at every larger fuel (`callFn_fuel_mono`) -/
theorem bidMsg_fuel_lift (fd : FuncDef) (args : List Val) (v : Val) (F : Nat)
    (h : (callFn P F fd args).map (·.1) = .ok v) :
    ∀ g, F ≤ g → (callFn P g fd args).map (·.1) = .ok v := by
  intro g hg
  cases hr : callFn P F fd args with
  | error e => rw [hr] at h; cases h
  | ok x =>
    rw [callFn_fuel_mono P hg fd args _ hr (by intro hh; cases hh)]
    rw [hr] at h; exact h

/-- the hypotheses `BidMsgsOK` as ONE computation: the translated functions are run at fuel `F` only -/
def bidMsgsCheck (F : Nat) : Nat → AState → MainIn → Bool
  | 0, _, _ => true
  | n + 1, s, i =>
    match s.active with
    | none => true
    | some a =>
      match i.get a with
      | none => true
      | some (msg, i1) =>
        (!hasAlert msg ||
          R.str? ((callFn P F m_Server_remove_alert_word [.str msg]).map (·.1)) == some (preprocessBid msg)) &&
        match parseBid? (preprocessBid msg) a.formal with
        | none => true
        | some call =>
          (R.enum? ((callFn P F m_MessageInterface_parse_bid [.str (preprocessBid msg), .str a.formal]).map (·.1))
              == some (n_Bid, (call.value : Int))) &&
          match takeBid s call with
          | .ok (s1, _) => bidMsgsCheck F n s1 i1
          | .error _ => true

theorem mt_str?_eq (r : R Val) (t : List Char) (h : (r.str? == some t) = true) : r = .ok (.str t) := by
  cases r with
  | error e => simp [R.str?] at h
  | ok v => cases v <;> simp [R.str?] at h; subst h; rfl

theorem mt_enum?_eq (r : R Val) (c : Id) (n : Int) (h : (r.enum? == some (c, n)) = true) : r = .ok (.enum c n) := by
  cases r with
  | error e => simp [R.enum?] at h
  | ok v => cases v <;> simp [R.enum?] at h; obtain ⟨h1, h2⟩ := h; subst h1; subst h2; rfl

/-- the computation implies the hypotheses -/
theorem BidMsgsOK_of_check (F : Nat) : ∀ (n : Nat) (s : AState) (i : MainIn), bidMsgsCheck F n s i = true → BidMsgsOK F n s i := by
  intro n
  induction n with
  | zero => intro s i _; trivial
  | succ n ih =>
    intro s i h
    simp only [bidMsgsCheck, BidMsgsOK] at h ⊢
    cases ha : s.active with
    | none => exact True.intro
    | some a =>
      simp only [ha] at h ⊢
      cases hg : i.get a with
      | none => exact True.intro
      | some x =>
        obtain ⟨msg, i1⟩ := x
        simp only [hg, Bool.and_eq_true] at h ⊢
        obtain ⟨h1, h2⟩ := h
        refine ⟨?_, ?_⟩
        · intro hA
          rw [hA] at h1
          exact bidMsg_fuel_lift _ _ _ F (mt_str?_eq _ _ (by simpa using h1))
        · cases hp : parseBid? (preprocessBid msg) a.formal with
          | none => exact True.intro
          | some call =>
            simp only [hp, Bool.and_eq_true] at h2 ⊢
            obtain ⟨h3, h4⟩ := h2
            refine ⟨bidMsg_fuel_lift _ _ _ F (mt_enum?_eq _ _ _ h3), ?_⟩
            cases ht : takeBid s call with
            | error e => exact True.intro
            | ok y =>
              obtain ⟨s1, res⟩ := y
              rw [ht] at h4
              exact ih s1 i1 h4

/-- what a successful run of `mainBiddingR` did in its first turn -/
theorem mainBiddingR_inv (n : Nat) (s : AState) (i : MainIn) (acts : MainActs) (s' : AState) (i' : MainIn) (a : Seat)
    (ha : s.active = some a) (h : mainBiddingR (n+1) s i = some (acts, s', i')) :
    ∃ msg r call s1 res rest, i a = msg :: r ∧ parseBid? (preprocessBid msg) a.formal = some call ∧
      takeBid s call = .ok (s1, res) ∧ res ≠ .illegal ∧
      mainBiddingR n s1 (fun q => if q = a then r else i q) = some (rest, s', i') ∧
      acts = putAll a.formal ++ [.recv (.t2m a)] ++ putAllBut a (preprocessBid msg) ++ rest := by
  simp only [mainBiddingR, ha] at h
  cases hi : i a with
  | nil => simp [MainIn.get, hi] at h
  | cons msg r =>
    simp only [MainIn.get, hi, Option.bind_eq_bind, Option.bind_some] at h
    cases hp : parseBid? (preprocessBid msg) a.formal with
    | none => simp [hp] at h
    | some call =>
      simp only [hp, Option.bind_some] at h
      cases ht : takeBid s call with
      | error e => simp [ht] at h
      | ok x =>
        obtain ⟨s1, res⟩ := x
        simp only [ht] at h
        cases res with
        | illegal => simp at h
        | ongoing =>
          cases hr : mainBiddingR n s1 (fun q => if q = a then r else i q) with
          | none => simp [hr] at h
          | some y =>
            obtain ⟨rest, sf, i2⟩ := y
            simp only [hr, Option.bind_some, Option.pure_def, Option.some.injEq, Prod.mk.injEq] at h
            obtain ⟨h1, h2, h3⟩ := h
            subst h1; subst h2; subst h3
            exact ⟨msg, r, call, s1, .ongoing, rest, rfl, hp, ht, by simp, hr, rfl⟩
        | finished =>
          cases hr : mainBiddingR n s1 (fun q => if q = a then r else i q) with
          | none => simp [hr] at h
          | some y =>
            obtain ⟨rest, sf, i2⟩ := y
            simp only [hr, Option.bind_some, Option.pure_def, Option.some.injEq, Prod.mk.injEq] at h
            obtain ⟨h1, h2, h3⟩ := h
            subst h1; subst h2; subst h3
            exact ⟨msg, r, call, s1, .finished, rest, rfl, hp, ht, by simp, hr, rfl⟩

/-- THE LOOP `while not bidding_env.has_done()` of the translated `bidding_phase` follows `mainBiddingR`: started in the
encoded state `s` with the streams `i`, it ends in the encoded final state with the streams left, having performed the
operations of the model's actions except the closing ones (`finalOps`), by induction on the model's fuel; a turn of the
loop costs one level of the interpreter's fuel -/
theorem mt_loop (encRec : BoardRecord → Val) (F : Nat) (table : Val) (tables : List Val) (more : List (Val × Val))
    (bs dv vv : Val) : ∀ (n : Nat) (s : AState) (i : MainIn) (acts : MainActs) (s' : AState) (i' : MainIn) (out : List Val)
      (tail : Env) (g : Nat),
    mainBiddingR n s i = some (acts, s', i') → BidMsgsOK F n s i → LoopTail tail → n + F + 60 ≤ g →
    ∃ ops0 c tail', encMainActs encRec acts = some (ops0 ++ finalOps c) ∧ s'.contract = some c ∧ s'.active = none ∧
      LoopTail tail' ∧
      loopF (mkRec P g) (envL table tables more bs dv vv s i out tail) bpCond bpBody
        = .ok (envL table tables more bs dv vv s' i' (out ++ ops0) tail', .next) := by
  intro n
  induction n with
  | zero => intro s i acts s' i' out tail g h; simp [mainBiddingR] at h
  | succ n ih =>
    intro s i acts s' i' out tail g h hok htail hg
    obtain ⟨f0, rfl⟩ : ∃ f0, g = f0 + 51 := ⟨g - 51, by omega⟩
    have hc := mt_cond_eval (f0 + 39) table tables more bs dv vv s i out tail
    cases ha : s.active with
    | none =>
      simp only [mainBiddingR, ha] at h
      cases hcn : s.contract with
      | none => simp [hcn] at h
      | some c =>
        simp only [hcn, Option.some.injEq, Prod.mk.injEq] at h
        obtain ⟨h1, h2, h3⟩ := h
        subst h1; subst h2; subst h3
        refine ⟨[], c, tail, ?_, hcn, ha, htail, ?_⟩
        · exact mt_final_ops encRec c
        · rw [ha] at hc
          rw [mt_loop_exit _ _ _ _ hc, List.append_nil]
    | some a =>
      obtain ⟨msg, r, call, s1, res, rest, hi, hp, ht, hres, hr, hacts⟩ := mainBiddingR_inv n s i acts s' i' a ha h
      simp only [BidMsgsOK, ha, MainIn.get, hi, hp, ht] at hok
      obtain ⟨hpre, hparse, hrec⟩ := hok
      have hF : F ≤ f0 := by omega
      obtain ⟨xp, hxp⟩ := mt_of_map_fst _ _ _ F f0 hF hparse
      obtain ⟨xa, hxa⟩ : ∃ xa : Nat → Val, if hasAlert msg = true then
          ∀ j, callF (mkRec P (f0+j)) m_Server_remove_alert_word [.str msg] = .ok (.str (preprocessBid msg), xa j)
          else preprocessBid msg = msg := by
        by_cases hA : hasAlert msg = true
        · obtain ⟨xa, hxa⟩ := mt_of_map_fst _ _ _ F f0 hF (hpre hA)
          exact ⟨xa, by rw [if_pos hA]; exact hxa⟩
        · exact ⟨fun _ => .none, by rw [if_neg hA]; exact preprocessBid_of_no_alert msg hA⟩
      obtain ⟨tail1, htail1, hturn⟩ := mt_turn f0 i more out table tables bs dv vv s a ha msg r hi (preprocessBid msg) xa hxa
        call xp hxp s1 res ht hres tail htail
      obtain ⟨ops0, c, tail', hops, hcn, han, htail', hloop⟩ := ih s1 _ rest s' i'
        (out ++ (putAllOps a.formal ++ [getOp a] ++ putButOps a (preprocessBid msg))) tail1 (f0 + 50) hr hrec htail1 (by omega)
      refine ⟨putAllOps a.formal ++ [getOp a] ++ putButOps a (preprocessBid msg) ++ ops0, c, tail', ?_, hcn, han, htail', ?_⟩
      · rw [hacts, List.append_assoc _ ops0]
        exact encMainActs_append encRec _ _ _ _
          (encMainActs_append encRec _ _ _ _
            (encMainActs_append encRec _ _ _ _ (mt_putAll_ops encRec _) (mt_recv_ops encRec a))
            (mt_putAllBut_ops encRec a _)) hops
      · rw [ha] at hc
        have hturn' : (mkRec P (f0 + 50 + 1)).exec (envL table tables more bs dv vv s i out tail) bpBody = _ := hturn
        rw [mt_loop_step (f0 + 50) _ _ _ _ hc hturn', hloop, List.append_assoc]

/-- THE TRANSLATED `Server.bidding_phase` IS `mainBiddingR`: when the model, fed the streams `i`, runs the auction to its
end (`mainBiddingR n (AState.init dealer vul) i = some (acts, s', i')`), and the texts it consumes are parsed by the
translated `remove_alert_word` / `parse_bid` as the model parses them (`BidMsgsOK`), the call returns the pair
(contract, bid history as the translated `BiddingPhase` holds it: oldest call first), the world holds the streams left
`i'` and has performed exactly the operations of `acts`.  The seat table is not touched. -/
theorem main_bidding_translated (encRec : BoardRecord → Val) (F n : Nat) (dealer : Seat) (vul : Vul) (i : MainIn)
    (acts : MainActs) (s' : AState) (i' : MainIn)
    (hm : mainBiddingR n (AState.init dealer vul) i = some (acts, s', i'))
    (hmsgs : BidMsgsOK F n (AState.init dealer vul) i)
    (out : List Val) (table : Val) (tables : List Val) (more : List (Val × Val)) (bs : Val)
    (f : Nat) (hf : n + F + 70 ≤ f) :
    ∃ c ops, s'.contract = some c ∧ encMainActs encRec acts = some ops ∧
      callFn P f m_MainThread_bidding_phase
          [encMainThread (encMainWorld i out table tables more) bs, encSeat dealer, encVul vul]
        = .ok (.tuple [encContract c, .tuple (s'.history.reverse.map encCall)],
               encMainThread (encMainWorld i' (out ++ ops) table tables more) bs) := by
  obtain ⟨G, rfl⟩ : ∃ G, f = G + 52 := ⟨f - 52, by omega⟩
  obtain ⟨ops0, c, tail', hops, hcn, han, htail', hloop⟩ :=
    mt_loop encRec F table tables more bs (encSeat dealer) (encVul vul) n (AState.init dealer vul) i acts s' i' out []
      (G + 49) hm hmsgs (Or.inl rfl) (by omega)
  obtain ⟨env', hself, hafter⟩ := mt_after G table tables more bs (encSeat dealer) (encVul vul) s' i' (out ++ ops0) tail'
    htail' c hcn
  refine ⟨c, ops0 ++ finalOps c, hcn, hops, ?_⟩
  have hw : execF (mkRec P (G + 50)) P (envL table tables more bs (encSeat dealer) (encVul vul) (AState.init dealer vul) i out [])
      [bpWhile] = .ok (envL table tables more bs (encSeat dealer) (encVul vul) s' i' (out ++ ops0) tail', .next) := by
    simp only [execF, bpWhile_eq, execStmtF, loop_succ, hloop, bind_ok, pure_eq]
  have hbody : execF (mkRec P (G + 50)) P
      [(K.self, mtObj i out table tables more bs), (n_dealer, encSeat dealer), (n_vul, encVul vul)]
      m_MainThread_bidding_phase.body
      = .ok (env', .ret (.tuple [encContract c, .tuple (s'.history.reverse.map encCall)])) := by
    rw [bp_body_eq, mt_execF_append _ _ _ _ _ (mt_init_stmt (G + 5) _ dealer vul)]
    exact (mt_execF_append _ _ _ _ _ hw).trans hafter
  show callF (mkRec P (G + 51)) m_MainThread_bidding_phase [mtObj i out table tables more bs, encSeat dealer, encVul vul] = _
  rw [callF_def]
  have hp : m_MainThread_bidding_phase.params = [K.self, n_dealer, n_vul] := rfl
  have hd : m_MainThread_bidding_phase.defaults = [] := rfl
  rw [hp, hd]
  simp only [bindParams, Option.map, exec_succ, hbody, bind_ok, hself, Option.getD_some, List.append_assoc]
  rfl

/-! non-vacuity -/
/-- North opens 1NT, East passes (with an alert word), South and West pass -/
def exIn : MainIn := fun p => match p with
  | .N => ["North bids 1NT".toList]
  | .E => ["East passes  Alert. ".toList]
  | .S => ["South passes".toList]
  | .W => ["West passes".toList]

example : (mainBiddingR 5 (AState.init .N .none) exIn).isSome = true := by decide +kernel
example : bidMsgsCheck 40 5 (AState.init .N .none) exIn = true := by decide +kernel

example : hasAlert "East passes  Alert. ".toList = true ∧ preprocessBid "East passes  Alert. ".toList = "East passes".toList := by
  decide +kernel

example : ∃ acts s' i' c ops, mainBiddingR 5 (AState.init .N .none) exIn = some (acts, s', i') ∧ s'.contract = some c ∧
    encMainActs (fun _ => .none) acts = some ops ∧
    callFn P 200 m_MainThread_bidding_phase [encMainThread (encMainWorld exIn [] (.dict []) [] []) .none, encSeat .N, encVul .none]
      = .ok (.tuple [encContract c, .tuple (s'.history.reverse.map encCall)],
             encMainThread (encMainWorld i' ([] ++ ops) (.dict []) [] []) .none) := by
  have h : (mainBiddingR 5 (AState.init .N .none) exIn).isSome = true := by decide +kernel
  obtain ⟨⟨acts, s', i'⟩, hm⟩ := Option.isSome_iff_exists.1 h
  obtain ⟨c, ops, hc, hops, hcall⟩ := main_bidding_translated (fun _ => .none) 40 5 .N .none exIn acts s' i' hm
    (BidMsgsOK_of_check 40 5 _ _ (by decide +kernel)) [] (.dict []) [] [] .none 200 (by decide)
  exact ⟨acts, s', i', c, ops, hm, hc, hops, hcall⟩

/-- the same call evaluated by the kernel: the contract is 1NT by North, four calls in the history, 40 operations -/
example : (match callFn P 200 m_MainThread_bidding_phase
      [encMainThread (encMainWorld exIn [] (.dict []) [] []) .none, encSeat .N, encVul .none] with
    | .ok (.tuple [c, .tuple h], .obj _ [(_, .obj _ [_, (_, .tuple out), _, _, _]), _]) =>
      c.beq (encContract ⟨some ⟨4, by decide⟩, false, false, .none, some .N⟩) && h.length == 4 && out.length == 40
    | _ => false) = true := by decide +kernel

/-! ## (3) the illegal-call branch -/

/-- the model's run comes to a call that `take_bid` answers with `illegal` (the branch `.ok (_, .illegal) => none` of
`mainBiddingR`) -/
def mainBiddingIllegal : Nat → AState → MainIn → Bool
  | 0, _, _ => false
  | n + 1, s, i =>
    match s.active with
    | none => false
    | some a =>
      match i.get a with
      | none => false
      | some (msg, i1) =>
        match parseBid? (preprocessBid msg) a.formal with
        | none => false
        | some call =>
          match takeBid s call with
          | .error _ => false
          | .ok (_, .illegal) => true
          | .ok (s1, _) => mainBiddingIllegal n s1 i1

/-- in the model this is a run that ends in `none` -/
theorem mainBiddingIllegal_model : ∀ (n : Nat) (s : AState) (i : MainIn), mainBiddingIllegal n s i = true →
    mainBiddingR n s i = none := by
  intro n
  induction n with
  | zero => intro s i h; rfl
  | succ n ih =>
    intro s i h
    cases ha : s.active with
    | none => simp [mainBiddingIllegal, ha] at h
    | some a =>
      cases hg : i.get a with
      | none => simp [mainBiddingIllegal, ha, hg] at h
      | some x =>
        obtain ⟨msg, i1⟩ := x
        cases hp : parseBid? (preprocessBid msg) a.formal with
        | none => simp [mainBiddingIllegal, ha, hg, hp] at h
        | some call =>
          cases ht : takeBid s call with
          | error e => simp [mainBiddingIllegal, ha, hg, hp, ht] at h
          | ok y =>
            obtain ⟨s1, res⟩ := y
            simp only [mainBiddingIllegal, ha, hg, hp, ht] at h
            simp only [mainBiddingR, ha, hg, hp, ht, Option.bind_eq_bind, Option.bind_some]
            cases res with
            | illegal => rfl
            | ongoing => simp only [ih s1 i1 h, Option.bind_none]
            | finished => simp only [ih s1 i1 h, Option.bind_none]

/-- the loop, when the model's run comes to a refused call: `Exception` propagates out of the `while` -/
theorem mt_loop_illegal (F : Nat) (table : Val) (tables : List Val) (more : List (Val × Val))
    (bs dv vv : Val) : ∀ (n : Nat) (s : AState) (i : MainIn) (out : List Val) (tail : Env) (g : Nat),
    mainBiddingIllegal n s i = true → BidMsgsOK F n s i → LoopTail tail → n + F + 60 ≤ g →
      loopF (mkRec P g) (envL table tables more bs dv vv s i out tail) bpCond bpBody = .error (.exc K.Exception) := by
  intro n
  induction n with
  | zero => intro s i out tail g h; exact absurd h (by simp [mainBiddingIllegal])
  | succ n ih =>
    intro s i out tail g h hok htail hg
    obtain ⟨f0, rfl⟩ : ∃ f0, g = f0 + 51 := ⟨g - 51, by omega⟩
    have hc := mt_cond_eval (f0 + 39) table tables more bs dv vv s i out tail
    have hF : F ≤ f0 := by omega
    cases ha : s.active with
    | none => simp [mainBiddingIllegal, ha] at h
    | some a =>
      cases hi : i a with
      | nil => simp [mainBiddingIllegal, ha, MainIn.get, hi] at h
      | cons msg r =>
        cases hp : parseBid? (preprocessBid msg) a.formal with
        | none => simp [mainBiddingIllegal, ha, MainIn.get, hi, hp] at h
        | some call =>
          cases ht : takeBid s call with
          | error e => simp [mainBiddingIllegal, ha, MainIn.get, hi, hp, ht] at h
          | ok y =>
            obtain ⟨s1, res⟩ := y
            simp only [BidMsgsOK, ha, MainIn.get, hi, hp, ht] at hok
            obtain ⟨hpre, hparse, hrec⟩ := hok
            obtain ⟨xp, hxp⟩ := mt_of_map_fst _ _ _ F f0 hF hparse
            obtain ⟨xa, hxa⟩ : ∃ xa : Nat → Val, if hasAlert msg = true then
                ∀ j, callF (mkRec P (f0+j)) m_Server_remove_alert_word [.str msg] = .ok (.str (preprocessBid msg), xa j)
                else preprocessBid msg = msg := by
              by_cases hA : hasAlert msg = true
              · obtain ⟨xa, hxa⟩ := mt_of_map_fst _ _ _ F f0 hF (hpre hA)
                exact ⟨xa, by rw [if_pos hA]; exact hxa⟩
              · exact ⟨fun _ => .none, by rw [if_neg hA]; exact preprocessBid_of_no_alert msg hA⟩
            rw [ha] at hc
            by_cases hres : res = .illegal
            · subst hres
              have hturn : (mkRec P (f0 + 50 + 1)).exec (envL table tables more bs dv vv s i out tail) bpBody = _ :=
                mt_turn_illegal f0 i more out table tables bs dv vv s a ha msg r hi (preprocessBid msg) xa hxa
                  call xp hxp s1 ht tail htail
              exact mt_loop_err (f0 + 50) _ _ _ _ hc hturn
            · have h' : mainBiddingIllegal n s1 (fun q => if q = a then r else i q) = true := by
                simp only [mainBiddingIllegal, ha, MainIn.get, hi, hp, ht] at h
                cases res with
                | illegal => exact absurd rfl hres
                | ongoing => exact h
                | finished => exact h
              obtain ⟨tail1, htail1, hturn⟩ := mt_turn f0 i more out table tables bs dv vv s a ha msg r hi
                (preprocessBid msg) xa hxa call xp hxp s1 res ht hres tail htail
              have hturn' : (mkRec P (f0 + 50 + 1)).exec (envL table tables more bs dv vv s i out tail) bpBody = _ := hturn
              rw [mt_loop_step (f0 + 50) _ _ _ _ hc hturn']
              exact ih s1 _ _ tail1 (f0 + 50) h' hrec htail1 (by omega)

/-- THE ILLEGAL-CALL BRANCH: when the model's run comes to a call that `take_bid` refuses, the translated
`bidding_phase` raises `Exception` (after putting `illegal bid` to the bidder and `error detected` to the others) -/
theorem main_bidding_illegal_raises (F n : Nat) (dealer : Seat) (vul : Vul) (i : MainIn)
    (hm : mainBiddingIllegal n (AState.init dealer vul) i = true)
    (hmsgs : BidMsgsOK F n (AState.init dealer vul) i)
    (out : List Val) (table : Val) (tables : List Val) (more : List (Val × Val)) (bs : Val)
    (f : Nat) (hf : n + F + 70 ≤ f) :
    callFn P f m_MainThread_bidding_phase
        [encMainThread (encMainWorld i out table tables more) bs, encSeat dealer, encVul vul]
      = .error (.exc K.Exception) := by
  obtain ⟨G, rfl⟩ : ∃ G, f = G + 52 := ⟨f - 52, by omega⟩
  have hloop := mt_loop_illegal F table tables more bs (encSeat dealer) (encVul vul) n (AState.init dealer vul) i out []
      (G + 49) hm hmsgs (Or.inl rfl) (by omega)
  have hw : execF (mkRec P (G + 50)) P (envL table tables more bs (encSeat dealer) (encVul vul) (AState.init dealer vul) i out [])
      [bpWhile] = .error (.exc K.Exception) := by
    simp only [execF, bpWhile_eq, execStmtF, loop_succ, hloop, bind_err]
  have hbody : execF (mkRec P (G + 50)) P
      [(K.self, mtObj i out table tables more bs), (n_dealer, encSeat dealer), (n_vul, encVul vul)]
      m_MainThread_bidding_phase.body = .error (.exc K.Exception) := by
    rw [bp_body_eq, mt_execF_append _ _ _ _ _ (mt_init_stmt (G + 5) _ dealer vul)]
    exact mt_execF_append_err _ _ _ _ _ hw
  show callF (mkRec P (G + 51)) m_MainThread_bidding_phase [mtObj i out table tables more bs, encSeat dealer, encVul vul] = _
  rw [callF_def]
  have hp : m_MainThread_bidding_phase.params = [K.self, n_dealer, n_vul] := rfl
  have hd : m_MainThread_bidding_phase.defaults = [] := rfl
  rw [hp, hd]
  simp only [bindParams, Option.map, exec_succ, hbody, bind_err]

/-- North opens 1NT, East "bids" 1C -/
def exInBad : MainIn := fun p => match p with
  | .N => ["North bids 1NT".toList]
  | .E => ["East bids 1C".toList]
  | _ => []

example : callFn P 200 m_MainThread_bidding_phase
    [encMainThread (encMainWorld exInBad [] (.dict []) [] []) .none, encSeat .N, encVul .none] = .error (.exc K.Exception) :=
  main_bidding_illegal_raises 40 3 .N .none exInBad (by decide +kernel) (BidMsgsOK_of_check 40 3 _ _ (by decide +kernel))
    [] (.dict []) [] [] .none 200 (by decide)

end Bridge.Translated.MainA
