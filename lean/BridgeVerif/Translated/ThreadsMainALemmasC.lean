import BridgeVerif.Translated.ThreadsMainALemmasB
/-! Translated `MainThread.bidding_phase`: one turn of the `while not bidding_env.has_done()` loop -/
namespace Bridge.Translated.MainA
open Bridge Bridge.Py Bridge.Generated.PyCore

/-- the main thread object -/
def mtObj (i : Seat → List Str) (out : List Val) (table : Val) (tables : List Val) (more : List (Val × Val)) (bs : Val) : Val :=
  encMainThread (encMainWorld i out table tables more) bs

theorem mtObj_eq (i : Seat → List Str) (out : List Val) (table : Val) (tables : List Val) (more : List (Val × Val)) (bs : Val) :
    mtObj i out table tables more bs = .obj n_MainThread [(n__w, .obj n__World [(n_ins, .dict (mainIns i more)),
      (n_out, .tuple out), (n_table, table), (n_tables, .tuple tables), (n_eof, .bool false)]), (n_board_settings, bs)] := rfl

/-! ## the statements of `bidding_phase` -/
def bpWhile : Stmt := m_MainThread_bidding_phase.body.getD 1 .pass
def bpCond : Expr := match bpWhile with | .while c _ => c | _ => .const .none
def bpBody : List Stmt := match bpWhile with | .while _ b => b | _ => []
def bpPrefix : List Stmt := bpBody.take 8
def bpRelay : Stmt := bpBody.getD 8 .pass
theorem bpBody_eq : bpBody = bpPrefix ++ [bpRelay] := rfl

/-- `put` on main's world, as the symbolic execution meets it -/
theorem mt_main_put (f : Nat) (i : Seat → List Str) (more : List (Val × Val)) (out : List Val) (table : Val) (tables : List Val)
    (p : Seat) (m : Str) :
    callF (mkRec P (f+8)) m__World_w_put [.obj n__World [(n_ins, .dict (mainIns i more)),
      (n_out, .tuple out), (n_table, table), (n_tables, .tuple tables), (n_eof, .bool false)],
      .str ['m', '2', 't'], encSeat p, .str m]
    = .ok (.none, .obj n__World [(n_ins, .dict (mainIns i more)),
      (n_out, .tuple (out ++ [putOp p m])), (n_table, table), (n_tables, .tuple tables), (n_eof, .bool false)]) :=
  mt_w_put_call f (mainIns i more) out table tables false _ _ _

theorem mt_main_get (f : Nat) (i : Seat → List Str) (more : List (Val × Val)) (out : List Val) (table : Val) (tables : List Val)
    (a : Seat) (msg : Str) (r : List Str) (hi : i a = msg :: r) :
    callF (mkRec P (f+12)) m__World_w_get [.obj n__World [(n_ins, .dict (mainIns i more)),
      (n_out, .tuple out), (n_table, table), (n_tables, .tuple tables), (n_eof, .bool false)],
      .str ['t', '2', 'm'], encSeat a]
    = .ok (.str msg, .obj n__World [(n_ins, .dict (mainIns (fun q => if q = a then r else i q) more)),
      (n_out, .tuple (out ++ [getOp a])), (n_table, table), (n_tables, .tuple tables), (n_eof, .bool false)]) := by
  have h := mt_w_get_call f (mainIns i more) out table tables false (vstr "t2m") (encSeat a) (.str msg) (r.map .str)
    (by rw [mt_lookup_mainIns, hi]; rfl)
  rw [show Val.tuple (r.map .str) = vtexts r from rfl, mt_update_mainIns] at h
  exact h

theorem mt_main_get_empty (f : Nat) (i : Seat → List Str) (more : List (Val × Val)) (out : List Val) (table : Val)
    (tables : List Val) (a : Seat) (hi : i a = []) :
    callF (mkRec P (f+12)) m__World_w_get [.obj n__World [(n_ins, .dict (mainIns i more)),
      (n_out, .tuple out), (n_table, table), (n_tables, .tuple tables), (n_eof, .bool false)],
      .str ['t', '2', 'm'], encSeat a]
    = .error (.exc n_Blocked) :=
  mt_w_get_call_empty f (mainIns i more) out table tables false (vstr "t2m") (encSeat a)
    (by rw [mt_lookup_mainIns, hi]; rfl)

/-- the last statement of a turn: the (possibly cleaned) bid message goes to every seat but the bidder -/
theorem mt_relay_stmt (f : Nat) (i : Seat → List Str) (more : List (Val × Val)) (out : List Val) (table : Val) (tables : List Val)
    (bs dv vv be pv bv stv : Val) (a : Seat) (m : Str) :
    execStmtF (mkRec P (f+20)) P
      [(K.self, mtObj i out table tables more bs), (n_dealer, dv), (n_vul, vv), (n_bidding_env, be),
       (n_active_player, encSeat a), (n_player, pv), (n_bid_message, .str m), (n_bid, bv), (n_bidding_phase_state, stv)]
      bpRelay
    = .ok ([(K.self, mtObj i (out ++ putButOps a m) table tables more bs), (n_dealer, dv), (n_vul, vv), (n_bidding_env, be),
       (n_active_player, encSeat a), (n_player, encSeat .W), (n_bid_message, .str m), (n_bid, bv),
       (n_bidding_phase_state, stv)], .next) := by
  simp only [bpRelay, bpBody, bpWhile, m_MainThread_bidding_phase, List.getD_cons_succ, List.getD_cons_zero, mtObj_eq]
  cases a <;>
    ppsimp [mt_iter_player, forF, mt_mth_w_put, mt_main_put, putButOps, List.append_assoc, List.append_nil]

/-- the variables a turn of the loop assigns: absent in the first turn, present afterwards -/
def LoopTail (tail : Env) : Prop :=
  tail = [] ∨ ∃ x1 x2 x3 x4 x5, tail = [(n_active_player, x1), (n_player, x2), (n_bid_message, x3), (n_bid, x4),
    (n_bidding_phase_state, x5)]

/-- `'alert' in msg.lower()` as the interpreter computes it -/
def hasAlert (msg : Str) : Bool := isInfixC ['a', 'l', 'e', 'r', 't'] (msg.map lowerC)

def bpPrefix7 : List Stmt := bpBody.take 7
def bpCheck : Stmt := bpBody.getD 7 .pass
theorem bpPrefix_eq : bpPrefix = bpPrefix7 ++ [bpCheck] := rfl

/-- a turn up to (and including) `bidding_env.take_bid(bid)` -/
theorem mt_prefix7 (f : Nat) (i : Seat → List Str) (more : List (Val × Val)) (out : List Val) (table : Val) (tables : List Val)
    (bs dv vv : Val) (s : AState) (a : Seat) (ha : s.active = some a) (msg : Str) (r : List Str) (hi : i a = msg :: r)
    (msg' : Str) (xa : Nat → Val)
    (hpre : if hasAlert msg = true then
        ∀ j, callF (mkRec P (f+j)) m_Server_remove_alert_word [.str msg] = .ok (.str msg', xa j) else msg' = msg)
    (c : Call) (xp : Nat → Val)
    (hparse : ∀ j, callF (mkRec P (f+j)) m_MessageInterface_parse_bid [.str msg', .str a.formal] = .ok (encCall c, xp j))
    (s1 : AState) (res : Res) (ht : takeBid s c = .ok (s1, res))
    (tail : Env) (htail : LoopTail tail) :
    execF (mkRec P (f+50)) P
      ((K.self, mtObj i out table tables more bs) :: (n_dealer, dv) :: (n_vul, vv) :: (n_bidding_env, encState s) :: tail)
      bpPrefix7
    = .ok ([(K.self, mtObj (fun q => if q = a then r else i q) (out ++ (putAllOps a.formal ++ [getOp a])) table tables more bs),
       (n_dealer, dv), (n_vul, vv), (n_bidding_env, encState s1),
       (n_active_player, encSeat a), (n_player, encSeat .W), (n_bid_message, .str msg'), (n_bid, encCall c),
       (n_bidding_phase_state, encRes res)], .next) := by
  have hget := fun g o => mt_main_get g i more o table tables a msg r hi
  simp only [bpPrefix7, bpBody, bpWhile, m_MainThread_bidding_phase, List.getD_cons_succ, List.getD_cons_zero, mtObj_eq,
    List.take]
  by_cases hA : hasAlert msg = true
  · rw [if_pos hA] at hpre
    simp only [hasAlert] at hA
    rcases htail with rfl | ⟨x1, x2, x3, x4, x5, rfl⟩ <;>
      ppsimp [mt_iter_player, forF, mt_mth_w_put, mt_main_put, mt_mth_w_get, hget, mt_getAttr_active, ha, beq_encSeat_none,
        mt_getAttr_formal, mt_lower, hA, mt_mth_remove_alert, hpre, mt_mth_parse_bid, hparse, mt_take_bid_meth, ht,
        putAllOps, List.append_assoc]
  · rw [if_neg hA] at hpre
    subst hpre
    have hA' : isInfixC ['a', 'l', 'e', 'r', 't'] (msg'.map lowerC) = false := by
      simpa [hasAlert] using hA
    rcases htail with rfl | ⟨x1, x2, x3, x4, x5, rfl⟩ <;>
      ppsimp [mt_iter_player, forF, mt_mth_w_put, mt_main_put, mt_mth_w_get, hget, mt_getAttr_active, ha, beq_encSeat_none,
        mt_getAttr_formal, mt_lower, hA', mt_mth_parse_bid, hparse, mt_take_bid_meth, ht,
        putAllOps, List.append_assoc]

/-- `if bidding_phase_state is BiddingPhaseState.illegal:` when it is not -/
theorem mt_check_ok (f : Nat) (X dv vv be av pv bm bv : Val) (res : Res) (hres : res ≠ .illegal) :
    execStmtF (mkRec P (f+20)) P
      [(K.self, X), (n_dealer, dv), (n_vul, vv), (n_bidding_env, be), (n_active_player, av), (n_player, pv),
       (n_bid_message, bm), (n_bid, bv), (n_bidding_phase_state, encRes res)] bpCheck
    = .ok ([(K.self, X), (n_dealer, dv), (n_vul, vv), (n_bidding_env, be), (n_active_player, av), (n_player, pv),
       (n_bid_message, bm), (n_bid, bv), (n_bidding_phase_state, encRes res)], .next) := by
  have hres' : decide (res = .illegal) = false := by simp [hres]
  simp only [bpCheck, bpBody, bpWhile, m_MainThread_bidding_phase, List.getD_cons_succ, List.getD_cons_zero]
  ppsimp [mt_beq_encRes_illegal, hres']

theorem mt_execF_append (r : Rec) (l1 l2 : List Stmt) : ∀ (env env1 : Env), execF r P env l1 = .ok (env1, .next) →
    execF r P env (l1 ++ l2) = execF r P env1 l2 := by
  induction l1 with
  | nil =>
    intro env env1 h
    simp only [execF, pure_eq, Except.ok.injEq, Prod.mk.injEq, and_true] at h
    subst h; rfl
  | cons s ss ih =>
    intro env env1 h
    simp only [List.cons_append, execF] at h ⊢
    cases hs : execStmtF r P env s with
    | error e => rw [hs] at h; cases h
    | ok x =>
      obtain ⟨e', fl⟩ := x
      rw [hs] at h
      simp only [bind_ok] at h ⊢
      cases fl with
      | next => exact ih e' env1 h
      | ret v => simp only [pure_eq, Except.ok.injEq, Prod.mk.injEq, reduceCtorEq, and_false] at h
      | brk => simp only [pure_eq, Except.ok.injEq, Prod.mk.injEq, reduceCtorEq, and_false] at h
      | cont => simp only [pure_eq, Except.ok.injEq, Prod.mk.injEq, reduceCtorEq, and_false] at h

/-- a turn up to (and including) the test of `take_bid`'s result, when the call is accepted -/
theorem mt_prefix (f : Nat) (i : Seat → List Str) (more : List (Val × Val)) (out : List Val) (table : Val) (tables : List Val)
    (bs dv vv : Val) (s : AState) (a : Seat) (ha : s.active = some a) (msg : Str) (r : List Str) (hi : i a = msg :: r)
    (msg' : Str) (xa : Nat → Val)
    (hpre : if hasAlert msg = true then
        ∀ j, callF (mkRec P (f+j)) m_Server_remove_alert_word [.str msg] = .ok (.str msg', xa j) else msg' = msg)
    (c : Call) (xp : Nat → Val)
    (hparse : ∀ j, callF (mkRec P (f+j)) m_MessageInterface_parse_bid [.str msg', .str a.formal] = .ok (encCall c, xp j))
    (s1 : AState) (res : Res) (ht : takeBid s c = .ok (s1, res)) (hres : res ≠ .illegal)
    (tail : Env) (htail : LoopTail tail) :
    execF (mkRec P (f+50)) P
      ((K.self, mtObj i out table tables more bs) :: (n_dealer, dv) :: (n_vul, vv) :: (n_bidding_env, encState s) :: tail)
      bpPrefix
    = .ok ([(K.self, mtObj (fun q => if q = a then r else i q) (out ++ (putAllOps a.formal ++ [getOp a])) table tables more bs),
       (n_dealer, dv), (n_vul, vv), (n_bidding_env, encState s1),
       (n_active_player, encSeat a), (n_player, encSeat .W), (n_bid_message, .str msg'), (n_bid, encCall c),
       (n_bidding_phase_state, encRes res)], .next) := by
  rw [bpPrefix_eq, mt_execF_append _ _ _ _ _
    (mt_prefix7 f i more out table tables bs dv vv s a ha msg r hi msg' xa hpre c xp hparse s1 res ht tail htail)]
  simp only [execF, mt_check_ok _ _ _ _ _ _ _ _ _ _ hres, bind_ok, pure_eq]

/-- the environment of the loop -/
def envL (table : Val) (tables : List Val) (more : List (Val × Val)) (bs dv vv : Val)
    (s : AState) (i : Seat → List Str) (out : List Val) (tail : Env) : Env :=
  (K.self, mtObj i out table tables more bs) :: (n_dealer, dv) :: (n_vul, vv) :: (n_bidding_env, encState s) :: tail

theorem LoopTail_full (x1 x2 x3 x4 x5 : Val) : LoopTail [(n_active_player, x1), (n_player, x2), (n_bid_message, x3), (n_bid, x4),
    (n_bidding_phase_state, x5)] := Or.inr ⟨x1, x2, x3, x4, x5, rfl⟩

/-- one whole turn of the loop, the call accepted -/
theorem mt_turn (f : Nat) (i : Seat → List Str) (more : List (Val × Val)) (out : List Val) (table : Val) (tables : List Val)
    (bs dv vv : Val) (s : AState) (a : Seat) (ha : s.active = some a) (msg : Str) (r : List Str) (hi : i a = msg :: r)
    (msg' : Str) (xa : Nat → Val)
    (hpre : if hasAlert msg = true then
        ∀ j, callF (mkRec P (f+j)) m_Server_remove_alert_word [.str msg] = .ok (.str msg', xa j) else msg' = msg)
    (c : Call) (xp : Nat → Val)
    (hparse : ∀ j, callF (mkRec P (f+j)) m_MessageInterface_parse_bid [.str msg', .str a.formal] = .ok (encCall c, xp j))
    (s1 : AState) (res : Res) (ht : takeBid s c = .ok (s1, res)) (hres : res ≠ .illegal)
    (tail : Env) (htail : LoopTail tail) :
    ∃ tail', LoopTail tail' ∧
    execF (mkRec P (f+50)) P (envL table tables more bs dv vv s i out tail) bpBody
    = .ok (envL table tables more bs dv vv s1 (fun q => if q = a then r else i q)
        (out ++ (putAllOps a.formal ++ [getOp a] ++ putButOps a msg')) tail', .next) := by
  refine ⟨_, LoopTail_full (encSeat a) (encSeat .W) (.str msg') (encCall c) (encRes res), ?_⟩
  rw [bpBody_eq, envL, mt_execF_append _ _ _ _ _
    (mt_prefix f i more out table tables bs dv vv s a ha msg r hi msg' xa hpre c xp hparse s1 res ht hres tail htail)]
  simp only [execF, mt_relay_stmt, bind_ok, pure_eq, envL, List.append_assoc]

/-! ## the loop, generically -/
theorem mt_loop_step (f : Nat) (env env' : Env) (c : Expr) (body : List Stmt)
    (hc : (mkRec P (f+1)).eval env c = .ok (.bool true)) (hb : (mkRec P (f+1)).exec env body = .ok (env', .next)) :
    loopF (mkRec P (f+1)) env c body = loopF (mkRec P f) env' c body := by
  simp only [loopF, hc, hb, bind_ok, truthy, if_true, loop_succ]

theorem mt_loop_exit (r : Rec) (env : Env) (c : Expr) (body : List Stmt) (hc : r.eval env c = .ok (.bool false)) :
    loopF r env c body = .ok (env, .next) := by
  simp only [loopF, hc, bind_ok, truthy, Bool.false_eq_true, if_false, pure_eq]

/-- `not bidding_env.has_done()` -/
theorem mt_cond_eval (f : Nat) (table : Val) (tables : List Val) (more : List (Val × Val)) (bs dv vv : Val)
    (s : AState) (i : Seat → List Str) (out : List Val) (tail : Env) :
    (mkRec P (f+12)).eval (envL table tables more bs dv vv s i out tail) bpCond = .ok (.bool s.active.isSome) := by
  simp only [bpCond, bpWhile, m_MainThread_bidding_phase, List.getD_cons_succ, List.getD_cons_zero, envL]
  ppsimp [has_done_meth]
  cases s.active <;> rfl

/-! ## before and after the loop -/
/-- the closing operations: `nothing happens`, then `passed out` / `nothing happens`, to every seat -/
def finalOps (c : Contract) : List Val :=
  [putOp .N MSG_NULL, putOp .N (if c.isPassedOut then MSG_PASSED_OUT else MSG_NULL),
   putOp .E MSG_NULL, putOp .E (if c.isPassedOut then MSG_PASSED_OUT else MSG_NULL),
   putOp .S MSG_NULL, putOp .S (if c.isPassedOut then MSG_PASSED_OUT else MSG_NULL),
   putOp .W MSG_NULL, putOp .W (if c.isPassedOut then MSG_PASSED_OUT else MSG_NULL)]

theorem mt_final_ops (encRec : BoardRecord → Val) (c : Contract) :
    encMainActs encRec (forSeats (fun p => [.send (.m2t p) MSG_NULL,
      .send (.m2t p) (if c.isPassedOut then MSG_PASSED_OUT else MSG_NULL)])) = some (finalOps c) := rfl

/-- from "the value returned at every fuel `≥ F`" to an equation the symbolic execution can rewrite with -/
theorem mt_of_map_fst (fd : FuncDef) (args : List Val) (v : Val) (F f0 : Nat) (hF : F ≤ f0)
    (h : ∀ g, F ≤ g → (callFn P g fd args).map (·.1) = .ok v) :
    ∃ x : Nat → Val, ∀ j, callF (mkRec P (f0 + j)) fd args = .ok (v, x j) := by
  refine ⟨fun j => match callF (mkRec P (f0 + j)) fd args with | .ok (_, b) => b | .error _ => .none, fun j => ?_⟩
  have hj := h (f0 + j + 1) (by omega)
  have e : callFn P (f0 + j + 1) fd args = callF (mkRec P (f0 + j)) fd args := rfl
  rw [e] at hj
  cases hr : callF (mkRec P (f0 + j)) fd args with
  | error e => rw [hr] at hj; cases hj
  | ok x =>
    obtain ⟨a, b⟩ := x
    rw [hr] at hj
    simp only [Except.map, Except.ok.injEq] at hj
    subst hj
    simp only [hr]


def bpInit : Stmt := m_MainThread_bidding_phase.body.getD 0 .pass
def bpAfter : List Stmt := m_MainThread_bidding_phase.body.drop 2
theorem bp_body_eq : m_MainThread_bidding_phase.body = [bpInit] ++ ([bpWhile] ++ bpAfter) := rfl
theorem bpWhile_eq : bpWhile = .while bpCond bpBody := rfl

theorem mt_init_stmt (f : Nat) (X : Val) (d : Seat) (v : Vul) :
    execF (mkRec P (f+45)) P [(K.self, X), (n_dealer, encSeat d), (n_vul, encVul v)] [bpInit]
      = .ok ([(K.self, X), (n_dealer, encSeat d), (n_vul, encVul v), (n_bidding_env, encState (AState.init d v))], .next) := by
  simp only [bpInit, m_MainThread_bidding_phase, List.getD_cons_zero]
  ppsimp [mt_construct_bp]

theorem mt_after (f : Nat) (table : Val) (tables : List Val) (more : List (Val × Val)) (bs dv vv : Val)
    (s : AState) (i : Seat → List Str) (out : List Val) (tail : Env) (htail : LoopTail tail) (c : Contract)
    (hc : s.contract = some c) :
    ∃ env', lookup env' K.self = some (mtObj i (out ++ finalOps c) table tables more bs) ∧
      execF (mkRec P (f+50)) P (envL table tables more bs dv vv s i out tail) bpAfter
        = .ok (env', .ret (.tuple [encContract c, .tuple (s.history.reverse.map encCall)])) := by
  have hcm := fun g => mt_contract_meth g s (Or.inl (by rw [hc]; rfl))
  rw [hc] at hcm
  simp only [bpAfter, m_MainThread_bidding_phase, List.drop, envL, mtObj_eq]
  cases hpo : c.isPassedOut <;> rcases htail with rfl | ⟨x1, x2, x3, x4, x5, rfl⟩ <;>
    ppsimp [hcm, mt_beq_encContract_none, mt_iter_player, forF, mt_mth_w_put, mt_main_put, mt_ipo_meth, hpo,
      mt_getAttr_bid_history, List.append_assoc]
  all_goals (refine ⟨_, ?_, rfl⟩; simp only [finalOps, hpo, Bool.false_eq_true, ↓reduceIte]; rfl)

/-! ## `'alert' in msg.lower()` -/
theorem mt_isPrefixC_eq (a b : List Char) : isPrefixC a b = a.isPrefixOf b := by
  induction a generalizing b with
  | nil => cases b <;> rfl
  | cons x xs ih =>
    cases b with
    | nil => rfl
    | cons y ys => simp only [isPrefixC, List.isPrefixOf, ih]

theorem mt_any_range_succ (p : Nat → Bool) (n : Nat) :
    (List.range (n + 1)).any p = (p 0 || (List.range n).any fun i => p (i + 1)) := by
  rw [List.range_succ_eq_map, List.any_cons, List.any_map]
  rfl

theorem mt_isInfixC_eq (a s : List Char) : isInfixC a s = containsSub a s := by
  induction s with
  | nil =>
    cases a <;> rfl
  | cons c r ih =>
    simp only [isInfixC, containsSub, List.length_cons, mt_any_range_succ _ (r.length + 1), List.drop_zero,
      List.drop_succ_cons, mt_isPrefixC_eq, ih]

/-- the interpreter's test `'alert' in msg.lower()` is the model's -/
theorem hasAlert_eq (msg : Str) : hasAlert msg = containsSub "alert".toList (lowerS msg) := by
  rw [hasAlert, mt_isInfixC_eq]; rfl

theorem preprocessBid_of_no_alert (msg : Str) (h : ¬ hasAlert msg = true) : preprocessBid msg = msg := by
  rw [hasAlert_eq] at h
  simp only [preprocessBid, h]; rfl
theorem preprocessBid_of_alert (msg : Str) (h : hasAlert msg = true) : preprocessBid msg = removeAlert msg := by
  rw [hasAlert_eq] at h
  simp only [preprocessBid, h, if_true]

end Bridge.Translated.MainA
