import BridgeVerif.Translated.PlayLemmasC
/-! Translated playing phases = model: `has_done`, `__init__` (on an instance of `PlayingPhase` or of a subclass) -/
namespace Bridge.Translated
open Bridge Bridge.Py Bridge.Generated.PyCore

theorem has_done_call (f : Nat) (k : Id) (ex : List (Id × Val)) (c : Contract) (s : PState) :
    callF (mkRec P (f+8)) m_PlayingPhase_has_done [ppObj k c s ex] = .ok (.bool s.hasDone, ppObj k c s ex) := by
  rw [callF_def]
  simp only [m_PlayingPhase_has_done, bindParams, Option.map, ppObj, baseFields, PState.hasDone]
  ppsimp []
  have e : decide ((s.trickNum : Int) > 13) = decide (s.trickNum > 13) := by
    rw [Bool.eq_iff_iff]; simp only [decide_eq_true_eq]; omega
  rw [e]

/-! ## `__init__` -/
theorem mth_is_passed_out :
    P.method? classDepth n_Contract n_is_passed_out = some (n_Contract, m_Contract_is_passed_out) := rfl
theorem mth_contract_trump : P.method? classDepth n_Contract n_trump = some (n_Contract, m_Contract_trump) := rfl
theorem pp_beq_encBid_none (b : Fin 35) : (encBid b).beq .none = false := by simp only [encBid, Val.beq]

theorem construct_history (f : Nat) (cv : Val) :
    constructF (mkRec P (f+5)) P n_PlayingHistory [cv]
      = .ok (.obj n_PlayingHistory [(n__history, .tuple []), (n__contract, cv)]) := rfl
theorem eval_taken_dict (f : Nat) (env : Env) :
    evalF (mkRec P (f+1)) P env (.dictOf [((.const (.enum n_Pair 1)), (.const (.int 0))), ((.const (.enum n_Pair 2)), (.const (.int 0)))])
      = .ok (.dict (takenKvs 0 0)) := by
  simp only [evalF, List.map, mapR, eval_succ, bind_ok, pure_eq, List.zip_cons_cons, List.zip_nil_right, List.foldl, updateD,
    Val.beq]
  rfl

theorem builtin_tuple_nil (r : Rec) : builtinF r P .tuple [] = .ok (.tuple []) := rfl
theorem builtin_set_nil (r : Rec) : builtinF r P .set [] = .ok (.tuple []) := rfl

theorem is_passed_out_call (f : Nat) (c : Contract) :
    callF (mkRec P (f+8)) m_Contract_is_passed_out [encContract c] = .ok (.bool c.finalBid.isNone, encContract c) := by
  rw [callF_def]
  simp only [m_Contract_is_passed_out, bindParams, Option.map, encContract]
  cases c.finalBid <;> ppsimp [beq_encBid_pass, pp_beq_encBid_none, Val.beq]


theorem mth_history_init :
    P.method? classDepth n_PlayingHistory K.init = some (n_PlayingHistory, m_PlayingHistory___init__) := rfl

theorem meth_encContract (r : Rec) (c : Contract) (m : Id) (args : List Val) :
    methF r P (encContract c) m args = callMethod r P n_Contract m (encContract c :: args) (.exc K.AttributeError) := rfl
theorem getAttr_contract_declarer (r : Rec) (c : Contract) :
    getAttrF r P (encContract c) n_declarer = .ok (encOpt encSeat c.declarer) := rfl

/-- the property `Contract.trump` -/
theorem getAttr_contract_trump (f : Nat) (c : Contract) :
    getAttrF (mkRec P (f+25)) P (encContract c) n_trump = .ok (encOpt encSuit c.trump) := by
  have e : getAttrF (mkRec P (f+25)) P (encContract c) n_trump
      = (callF (mkRec P (f+24)) m_Contract_trump [encContract c] >>= fun x => .ok x.1) := rfl
  rw [e, callF_def]
  simp only [m_Contract_trump, bindParams, Option.map]
  ppsimp [meth_encContract, mth_is_passed_out, is_passed_out_call]
  cases h : c.finalBid with
  | none => ppsimp [Contract.trump, h]
  | some b =>
    ppsimp [Contract.trump, h, encContract, pp_beq_encBid_none, getAttr_suit]


/-- the state `__init__` builds for the final bid `b` declared by `d` -/
def initState (b : Fin 35) (d : Seat) : PState :=
  { trump := bidDenom b, declarer := d, dummy := d.partner, leader := d.left, active := d.left,
    trick := [], trickNum := 1, history := [], used := [], takenNS := 0, takenEW := 0 }

theorem init_eq (c : Contract) : PState.init c =
    match c.finalBid, c.declarer with
    | some b, some d => some (initState b d)
    | _, _ => none := rfl

/-- `PlayingPhase.__init__` on a fresh instance of class `k` -/
theorem init_call (f : Nat) (k : Id) (c : Contract) :
    callF (mkRec P (f+40)) m_PlayingPhase___init__ [.obj k [], encContract c] =
      match c.finalBid, c.declarer with
      | none, _ => .error (.exc K.Exception)
      | some _, none => .error (.exc K.AssertionError)
      | some b, some d => .ok (.none, ppObj k c (initState b d) []) := by
  rw [callF_def]
  simp only [m_PlayingPhase___init__, bindParams, Option.map]
  cases hfb : c.finalBid with
  | none =>
    ppsimp [meth_encContract, mth_is_passed_out, is_passed_out_call, hfb]
  | some b =>
    cases hd : c.declarer with
    | none =>
      ppsimp [meth_encContract, mth_is_passed_out, is_passed_out_call, hfb, getAttr_contract_trump, Contract.trump,
        getAttr_contract_declarer, hd, beq_encSuit_none]
    | some d =>
      ppsimp [meth_encContract, mth_is_passed_out, is_passed_out_call, hfb, getAttr_contract_trump, Contract.trump,
        getAttr_contract_declarer, hd, beq_encSuit_none, beq_encSeat_none, getAttr_partner, getAttr_next,
        construct_history, ↓eval_taken_dict, builtin_tuple_nil, builtin_set_nil, ppObj, baseFields, encCards, encHistory, initState,
        List.reverse_nil, List.map_nil]
      rfl

end Bridge.Translated
