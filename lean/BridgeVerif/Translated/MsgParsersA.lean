import BridgeVerif.Translated.HandsPbnLemmasB
import BridgeVerif.Lemmas.RegexMsgBidA
import BridgeVerif.Model.Msg
/-! Translated `MessageInterface.parse_match_base` / `parse_card` (socket_interface.py) = model, part A: the match object
`re.match(…, re.IGNORECASE)` hands to the program when the engine's groups are known, `parse_match_base` at any sufficient
fuel, and `parse_card(content, player)` = `parseCard? content player` whenever the model reads a card — for EVERY text whose
characters are in the class `RegexMsgBid.agree` (every ASCII text), every seat, every fuel ≥ 20. -/
set_option maxRecDepth 4000
namespace Bridge.Translated.MsgParsers
open Bridge Bridge.Py Bridge.Generated.PyCore Bridge.Translated Bridge.RegexHands Bridge.RegexMsgBid
open Bridge.Translated.HandsPbn

/-! ## the match object (`re.IGNORECASE`) -/
theorem mp_reMatch_none (r : Rec) (pat s : List Char)
    (h : (Re.pyMatch true pat s).map (Option.map (groupTexts s)) = some none) :
    builtinF r P .reMatch [.str pat, .str s, .bool true, .cls n__Match, .int n_texts] = .ok .none := by
  cases hp : Re.pyMatch true pat s with
  | none => rw [hp] at h; cases h
  | some om =>
    rw [hp] at h
    cases om with
    | none => simp only [builtinF, hp]; rfl
    | some m => simp at h

theorem mp_reMatch_some (pat s : List Char) (gs : List (List Char))
    (h : (Re.pyMatch true pat s).map (Option.map (groupTexts s)) = some (some (gs.map some))) :
    ∃ g0, ∀ r : Rec, builtinF r P .reMatch [.str pat, .str s, .bool true, .cls n__Match, .int n_texts]
      = .ok (.obj n__Match [(n_texts, .tuple (.str g0 :: gs.map Val.str))]) := by
  cases hp : Re.pyMatch true pat s with
  | none => rw [hp] at h; cases h
  | some om =>
    rw [hp] at h
    cases om with
    | none => simp at h
    | some m =>
      simp only [Option.map_some, Option.some.injEq, groupTexts] at h
      refine ⟨Re.slice s m.span.1 m.span.2, fun r => ?_⟩
      have e : builtinF r P .reMatch [.str pat, .str s, .bool true, .cls n__Match, .int n_texts]
          = .ok (matchVal n__Match n_texts s m) := by
        simp only [builtinF, hp]; rfl
      rw [e, hp_matchVal, hp_grp_map s _ _ h]

/-! ## `parse_match_base` -/
theorem mp_mth_pmb : P.method? classDepth n_MessageInterface n_parse_match_base
    = some (n_MessageInterface, m_MessageInterface_parse_match_base) := rfl

theorem mp_beq_none_none : (Val.none).beq .none = true := by simp only [Val.beq]
theorem mp_beq_obj_none (c : Id) (fs : List (Id × Val)) : (Val.obj c fs).beq .none = false := by simp only [Val.beq]

/-- no match: `Exception` -/
theorem mp_pmb_none (f : Nat) (pat s : List Char)
    (h : (Re.pyMatch true pat s).map (Option.map (groupTexts s)) = some none) :
    callF (mkRec P (f+4)) m_MessageInterface_parse_match_base [.str pat, .str s] = .error (.exc K.Exception) := by
  rw [callF_def]
  simp only [m_MessageInterface_parse_match_base, bindParams, Option.map]
  ppsimp [mp_reMatch_none _ _ _ h, mp_beq_none_none]

/-- a match: the match object -/
theorem mp_pmb_some (pat s : List Char) (gs : List (List Char))
    (h : (Re.pyMatch true pat s).map (Option.map (groupTexts s)) = some (some (gs.map some))) :
    ∃ g0, ∀ f, callF (mkRec P (f+4)) m_MessageInterface_parse_match_base [.str pat, .str s]
      = .ok (.obj n__Match [(n_texts, .tuple (.str g0 :: gs.map Val.str))], .str pat) := by
  obtain ⟨g0, hre⟩ := mp_reMatch_some pat s gs h
  refine ⟨g0, fun f => ?_⟩
  rw [callF_def]
  simp only [m_MessageInterface_parse_match_base, bindParams, Option.map]
  ppsimp [hre, mp_beq_obj_none]

/-- `match.group(i)` on a match object with two texts -/
theorem mp_group_call2 (f : Nat) (x0 x1 : Val) (i : Int) (k : Nat) (h : normIndex 2 i = some k) :
    callF (mkRec P (f+6)) m__Match_group [.obj n__Match [(n_texts, .tuple [x0, x1])], .int i]
      = .ok ([x0, x1].getD k .none, .obj n__Match [(n_texts, .tuple [x0, x1])]) := by
  rw [callF_def]
  simp only [m__Match_group, bindParams, Option.map]
  ppsimp [index_tuple, h]

/-! ## `parse_card` -/
theorem mp_formal_name (f : Nat) (p : Seat) :
    getAttrF (mkRec P (f+12)) P (encSeat p) n_formal_name = .ok (.str p.formal) := by
  cases p <;> with_unfolding_all rfl

theorem mp_upperC : upperC = upperA := by funext c; rfl
theorem mp_lowerC : lowerC = lowerA := by funext c; rfl

theorem mp_builtin_upper (r : Rec) (s : List Char) : builtinF r P .upper [.str s] = .ok (.str (upperS s)) := by
  show Except.ok (Val.str (s.map upperC)) = _
  rw [mp_upperC]; rfl
theorem mp_builtin_lower (r : Rec) (s : List Char) : builtinF r P .lower [.str s] = .ok (.str (lowerS s)) := by
  show Except.ok (Val.str (s.map lowerC)) = _
  rw [mp_lowerC]; rfl

theorem mp_index_str0 (r : Rec) (a : Char) (t : List Char) : indexF r P (.str (a :: t)) (.int 0) = .ok (.str [a]) := by
  simp [indexF, asInt?, normIndex]; rfl
theorem mp_index_str1 (r : Rec) (a b : Char) (t : List Char) :
    indexF r P (.str (a :: b :: t)) (.int 1) = .ok (.str [b]) := by
  simp [indexF, asInt?, normIndex]; rfl

/-- the test `card_str[0] in ('S', 'H', 'D', 'C')` -/
theorem mp_contains_suit (a : Char) :
    containsVal [.str ['S'], .str ['H'], .str ['D'], .str ['C']] (.str [a])
      = decide (a = 'S' ∨ a = 'H' ∨ a = 'D' ∨ a = 'C') := by
  simp only [containsVal, List.any_cons, List.any_nil, jp_beq_str', Bool.or_false, List.cons.injEq, and_true]
  rw [Bool.eq_iff_iff]
  simp only [Bool.or_eq_true, decide_eq_true_eq]
  constructor
  · rintro (h | h | h | h) <;> simp [← h]
  · rintro (h | h | h | h) <;> simp [h]

theorem mp_mth_parse_card : P.method? classDepth n_MessageInterface n_parse_card
    = some (n_MessageInterface, m_MessageInterface_parse_card) := rfl

theorem mp_card_ok (rk : Nat) (su : Suit) (c : Card) (h : mkCard? rk su = some c) : c = ⟨rk, su⟩ ∧ c.ok = true := by
  unfold mkCard? at h
  split at h
  · cases h
  · split at h
    · cases h
    · rename_i h1 h2
      cases h
      refine ⟨rfl, ?_⟩
      simp only [Card.ok, Bool.and_eq_true, decide_eq_true_eq]
      exact ⟨by omega, h2⟩

/-- what the model reads in a card message, spelled out -/
theorem mp_parseCard_some (content : List Char) (p : Seat) (card : Card) (h : parseCard? content p = some card) :
    ∃ r a b t rk su, stripPrefixCI (p.formal ++ " plays ".toList) content = some r ∧
      upperS (r.takeWhile (· ≠ '\n')) = a :: b :: t ∧ mkCard? rk su = some card ∧
      ((a = 'S' ∨ a = 'H' ∨ a = 'D' ∨ a = 'C') ∧ rankOfChar? b = some rk ∧ suitOfName? [a] = some su ∨
       ¬ (a = 'S' ∨ a = 'H' ∨ a = 'D' ∨ a = 'C') ∧ rankOfChar? a = some rk ∧ suitOfName? [b] = some su) := by
  unfold parseCard? at h
  split at h
  · cases h
  · rename_i r hr
    split at h
    · rename_i a b t hw
      refine ⟨r, a, b, t, ?_⟩
      split at h
      · rename_i hab
        cases hrk : rankOfChar? b with
        | none => rw [hrk] at h; cases h
        | some rk =>
          cases hsu : suitOfName? [a] with
          | none => rw [hrk, hsu] at h; cases h
          | some su =>
            rw [hrk, hsu] at h
            exact ⟨rk, su, hr, hw, h, Or.inl ⟨hab, rfl, rfl⟩⟩
      · rename_i hab
        cases hrk : rankOfChar? a with
        | none => rw [hrk] at h; cases h
        | some rk =>
          cases hsu : suitOfName? [b] with
          | none => rw [hrk, hsu] at h; cases h
          | some su =>
            rw [hrk, hsu] at h
            exact ⟨rk, su, hr, hw, h, Or.inr ⟨hab, rfl, rfl⟩⟩
    · cases h

/-- `parse_card(content, player)` when the model reads the card `card` -/
theorem mp_parse_card_call (f : Nat) (content : List Char) (hs : ∀ x ∈ content, agree x = true) (p : Seat) (card : Card)
    (h : parseCard? content p = some card) :
    callF (mkRec P (f+19)) m_MessageInterface_parse_card [.str content, encSeat p] = .ok (encCard card, .str content) := by
  obtain ⟨r, a, b, t, rk, su, hr, hw, hc, hcase⟩ := mp_parseCard_some content p card h
  obtain ⟨rfl, hok⟩ := mp_card_ok rk su card hc
  have hfact := match_plays p content hs
  rw [hr] at hfact
  obtain ⟨g0, hpmb⟩ := mp_pmb_some (playsPat p) content [r.takeWhile (· ≠ '\n')] hfact
  have hpat : p.formal.append ([' ', 'p', 'l', 'a', 'y', 's', ' ', '(', '.', '*', ')'].append []) = playsPat p := by cases p <;> rfl
  have hcon : ∀ k, constructF (mkRec P (k + 9)) P n_Card [.int rk, .enum n_Suit su.value] = .ok (encCard ⟨rk, su⟩) :=
    fun k => hd_construct_card k ⟨rk, su⟩ hok
  rw [callF_def]
  simp only [m_MessageInterface_parse_card, bindParams, Option.map]
  rcases hcase with ⟨hab, hrk, hsu⟩ | ⟨hab, hrk, hsu⟩ <;>
  ppsimp [mp_formal_name, mapR, strOfF, List.flatten, List.append_nil, hpat, mp_mth_pmb, hpmb, List.map_cons, List.map_nil,
      hp_mth_group, mp_group_call2 _ _ _ _ _ (by decide : normIndex 2 1 = some 1), List.getD_cons_succ, List.getD_cons_zero,
      mp_builtin_upper, hw, mp_index_str0, mp_index_str1, mp_contains_suit, hab, jp_mth_rank_str_to_int,
      jp_rank_str_to_int_call _ _ _ hrk, jp_cls_Suit, jp_member_suit _ _ hsu, hcon]

/-- TRANSLATED `parse_card` = MODEL, for every text of the class `agree`, every seat, every fuel ≥ 20: whenever the model's
`parseCard?` reads a card, the generated `MessageInterface.parse_card` returns its encoding (this is `MainB.ParsesTo`) -/
theorem parse_card_translated (content : List Char) (hs : ∀ x ∈ content, agree x = true) (p : Seat) (card : Card)
    (h : parseCard? content p = some card) :
    ∀ f, 20 ≤ f → callFn P f m_MessageInterface_parse_card [.str content, encSeat p] = .ok (encCard card, .str content) := by
  intro f hf
  obtain ⟨g, rfl⟩ : ∃ g, f = g + 20 := ⟨f - 20, by omega⟩
  exact mp_parse_card_call g content hs p card h

/-- … in particular for every ASCII text -/
theorem parse_card_translated_ascii (content : List Char) (hs : ∀ x ∈ content, x.toNat < 128) (p : Seat) (card : Card)
    (h : parseCard? content p = some card) :
    ∀ f, 20 ≤ f → callFn P f m_MessageInterface_parse_card [.str content, encSeat p] = .ok (encCard card, .str content) :=
  parse_card_translated content (fun x hx => agree_ascii x (hs x hx)) p card h

end Bridge.Translated.MsgParsers
