import BridgeVerif.Translated.PbnParserLemmasD
/-! Translated PBN parser = model: the call of `parse_board` -/
namespace Bridge.Translated
open Bridge Bridge.Py Bridge.Generated.PyCore Bridge.RegexPbn

theorem pp_findall_builtin (hf : PbnRegexFacts) (r : Rec) (s : Str) :
    builtinF r P .reFindall [.str TAG_PATTERN, .str s, .bool false]
      = .ok (.tuple ((findTags (s.length + 1) s).map encRow)) := by
  simp only [builtinF, hf.findall_tag s, List.map_map]
  rfl

theorem pp_subPieces_builtin (r : Rec) (s : Str) (ms : List Re.MatchObj)
    (h : Re.pyFinditer false VALUE_OR_SPACE_PATTERN s = some ms) :
    builtinF r P .reSubPieces [.str VALUE_OR_SPACE_PATTERN, .str s, .bool false, .cls n__Match, .int n_texts]
      = .ok (.tuple (builtinF.go s n__Match n_texts 0 ms)) := by
  simp only [builtinF, h]; rfl

/-- `parse_board()` at an arbitrary fuel -/
theorem pp_board_call (hf : PbnRegexFacts) (hne : PbnSubNonempty) (f : Nat) (st : PbnSt) (cl cb : List Str) :
    callF (mkRec P (f + 20)) m_PbnParser_parse_board [encPbnParser st cl cb]
      = .ok (encGame (parseBoard st.buffer.reverse), encPbnParser st cl cb) := by
  have hs := hf.sub_value_or_space st.buffer.reverse.flatten
  cases hfi : Re.pyFinditer false VALUE_OR_SPACE_PATTERN st.buffer.reverse.flatten with
  | none => rw [hfi] at hs; cases hs
  | some ms =>
    rw [hfi] at hs
    simp only [Option.map, Option.some.injEq] at hs
    have hl := pp_board_loop f (encPbnParser st cl cb) (.str (collapseWs (st.buffer.reverse.flatten.length + 1) st.buffer.reverse.flatten))
      (.tuple ((findTags ((collapseWs (st.buffer.reverse.flatten.length + 1) st.buffer.reverse.flatten).length + 1)
        (collapseWs (st.buffer.reverse.flatten.length + 1) st.buffer.reverse.flatten)).map encRow))
      (findTags ((collapseWs (st.buffer.reverse.flatten.length + 1) st.buffer.reverse.flatten).length + 1)
        (collapseWs (st.buffer.reverse.flatten.length + 1) st.buffer.reverse.flatten)) [] []
    obtain ⟨tail', hl⟩ := hl
    simp only [pbLoop, m_PbnParser_parse_board, List.getD_cons_succ, List.getD_cons_zero, encPbnParser, List.reverse_nil,
      encGame, List.map_nil] at hl
    rw [callF_def]
    simp only [m_PbnParser_parse_board, bindParams, Option.map, encPbnParser, parseBoard]
    have hcp : compF (mkRec P (f + 17)) [(K.self, encPbnParser st cl cb), (n_string, .str st.buffer.reverse.flatten)]
        n_m none pbBody (builtinF.go st.buffer.reverse.flatten n__Match n_texts 0 ms)
        = .ok ((subPieces st.buffer.reverse.flatten 0 ms).map Val.str) :=
      pp_comp_pieces (f + 4) _ _ ms 0 (hne _ ms hfi)
    simp only [pbBody, m_PbnParser_parse_board, List.getD_cons_succ, List.getD_cons_zero, encPbnParser] at hcp
    ppsimp [pp_join, pp_mth_vos, pp_vos_call, pp_subPieces_builtin _ _ ms hfi, iterItems_tuple,
      hcp, pp_subPieces_flatten, hs, pp_mth_tag, pp_tag_call,
      pp_findall_builtin hf, hl, List.foldl_nil, List.zip_nil_left, List.map_nil]
    rfl

end Bridge.Translated
