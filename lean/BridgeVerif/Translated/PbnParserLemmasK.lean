import BridgeVerif.Translated.PbnParserLemmasJ
/-! Translated PBN parser = model, wide bound: the calls of `parse_stream` and `parse_all` (results, and the `IndexError`
of an empty line) -/
set_option linter.unusedSimpArgs false
namespace Bridge.Translated
open Bridge Bridge.Py Bridge.Generated.PyCore Bridge.RegexPbn

theorem pp_stream_call_wide (hf : PbnRegexFacts) (hne : PbnSubNonempty) (f N : Nat) (lines : List Str)
    (hok : LinesOkW N lines) (st : PbnSt) (cl cb : List Str) :
    ∃ st' cl' cb', callF (mkRec P (f + 4 * N + 33)) m_PbnParser_parse_stream
        [encPbnParser st cl cb, .tuple (lines.map Val.str)]
      = .ok (.tuple ((streamFrom st lines).map encGame), encPbnParser st' cl' cb') := by
  obtain ⟨cl', cb', tail', hl⟩ := pp_stream_loop_wide hf hne f N (.tuple (lines.map Val.str)) lines st cl cb [] [] hok
  simp only [streamFrom]
  generalize lines.foldl streamStep (st, []) = res at hl ⊢
  obtain ⟨⟨ic', buf'⟩, games'⟩ := res
  refine ⟨⟨ic', buf'⟩, cl', cb', ?_⟩
  have hbc : callF (mkRec P (f + 4 * N + 29)) m_PbnParser_parse_board [encPbnParser ⟨ic', buf'⟩ cl' cb']
      = .ok (encGame (parseBoard buf'.reverse), encPbnParser ⟨ic', buf'⟩ cl' cb') :=
    pp_board_call hf hne (f + 4 * N + 9) ⟨ic', buf'⟩ cl' cb'
  simp only [psBody, m_PbnParser_parse_stream, List.getD_cons_succ, List.getD_cons_zero, psEnv, encPbnParser,
    List.reverse_nil, List.map_nil] at hl
  simp only [encPbnParser] at hbc
  rw [callF_def]
  simp only [m_PbnParser_parse_stream, bindParams, Option.map, encPbnParser]
  cases buf' with
  | nil =>
    ppsimp [iterItems_tuple, hl, pp_len_tuple, pp_beq_len0, List.length_map, List.length_reverse, List.isEmpty_nil]
  | cons b0 buf' =>
    simp only [List.reverse_cons, List.map_append, List.map_cons, List.map_nil] at hbc hl
    ppsimp [iterItems_tuple, hl, pp_len_tuple, pp_beq_len0, List.length_map, List.length_reverse, List.isEmpty_cons,
      pp_mth_board, hbc, List.length_cons, List.reverse_cons, List.map_append, List.map_cons, List.map_nil,
      List.length_append]

theorem pp_stream_call_empty (hf : PbnRegexFacts) (hne : PbnSubNonempty) (f N : Nat) (pre post : List Str)
    (hok : LinesOkW N pre) (st : PbnSt) (cl cb : List Str) :
    callF (mkRec P (f + 4 * N + 33)) m_PbnParser_parse_stream
        [encPbnParser st cl cb, .tuple ((pre ++ [] :: post).map Val.str)] = .error (.exc K.IndexError) := by
  have hl := pp_stream_loop_empty hf hne f N (.tuple ((pre ++ [] :: post).map Val.str)) post pre st cl cb [] [] hok
  simp only [psBody, m_PbnParser_parse_stream, List.getD_cons_succ, List.getD_cons_zero, psEnv, encPbnParser,
    List.reverse_nil, List.map_nil] at hl
  rw [callF_def]
  simp only [m_PbnParser_parse_stream, bindParams, Option.map, encPbnParser]
  ppsimp [iterItems_tuple, hl]

theorem pp_all_call_wide (hf : PbnRegexFacts) (hne : PbnSubNonempty) (f N : Nat) (lines : List Str)
    (hok : LinesOkW N lines) (st : PbnSt) (cl cb : List Str) :
    ∃ st' cl' cb', callF (mkRec P (f + 4 * N + 36)) m_PbnParser_parse_all
        [encPbnParser st cl cb, .tuple (lines.map Val.str)]
      = .ok (.tuple ((streamFrom st lines).map encGame), encPbnParser st' cl' cb') := by
  obtain ⟨st', cl', cb', hs⟩ := pp_stream_call_wide hf hne f N lines hok st cl cb
  refine ⟨st', cl', cb', ?_⟩
  obtain ⟨tail', hl⟩ := pp_all_loop (f + 4 * N + 29) (encPbnParser st' cl' cb') (.tuple (lines.map Val.str))
    (.tuple ((streamFrom st lines).map encGame)) ((streamFrom st lines).map encGame) [] []
  have e : f + 4 * N + 29 + 5 = f + 4 * N + 34 := by omega
  rw [e] at hl
  simp only [paBody, encPbnParser, List.nil_append] at hl
  simp only [encPbnParser] at hs
  rw [callF_def]
  simp only [m_PbnParser_parse_all, bindParams, Option.map, encPbnParser]
  ppsimp [pp_tuple_nil, pp_mth_stream, hs, iterItems_tuple, hl]

theorem pp_all_call_empty (hf : PbnRegexFacts) (hne : PbnSubNonempty) (f N : Nat) (pre post : List Str)
    (hok : LinesOkW N pre) (st : PbnSt) (cl cb : List Str) :
    callF (mkRec P (f + 4 * N + 36)) m_PbnParser_parse_all
        [encPbnParser st cl cb, .tuple ((pre ++ [] :: post).map Val.str)] = .error (.exc K.IndexError) := by
  have hs := pp_stream_call_empty hf hne f N pre post hok st cl cb
  simp only [encPbnParser] at hs
  rw [callF_def]
  simp only [m_PbnParser_parse_all, bindParams, Option.map, encPbnParser]
  ppsimp [pp_tuple_nil, pp_mth_stream, hs]

end Bridge.Translated
