import BridgeVerif.Translated.ClientParsersA
/-!
# The TRANSLATED `Client.parse_board` IS `parseBoard?`

`m_Client_parse_board` (Generated/PyCoreNet.lean; `client.py`:
`parse_match_base(r'Board number (\d+)\. Dealer (.*)\. (.*) vulnerable\.', content)`, `int(group(1))`,
`Player.convert_formal_name(group(2))`, the vulnerability word of group 3) executed SYMBOLICALLY by the MiniPy interpreter
in the whole translated program `P`, its `re.match(…, re.IGNORECASE)` being the generic regular-expression engine
(`RegexMsgClient.match_board`).  For EVERY text whose characters are in the class `RegexMsgClient.agreeBoard` (every ASCII
text is), at EVERY fuel ≥ 31 — in particular for EVERY board number:

* `parseBoard? s = some (n, dealer, vul)` : the call returns `(n, Player dealer, Vul vul)` (the state returned is `.str s`);
* `parseBoard? s = none` : the call raises — `Exception` when the text does not match the pattern (from
  `parse_match_base`) or the vulnerability word is none of `Neither`, `N/S`, `E/W`, `Both`; `ValueError` (from
  `convert_formal_name`) when the dealer text is no seat name.  `int()` never raises here (group 1 is a non-empty run of
  ASCII digits).
-/
set_option maxRecDepth 4000
namespace Bridge.Translated.ClientParsers
open Bridge Bridge.Py Bridge.Generated.PyCore Bridge.Translated Bridge.RegexHands Bridge.RegexMsgClient
open Bridge.Translated.ConnectInfo (str_beq convert_formal_fail digitsVal decimal_of_digits parseInt_of_digits m_group_call3)

theorem board_pat_eq : (['B', 'o', 'a', 'r', 'd', ' ', 'n', 'u', 'm', 'b', 'e', 'r', ' ', '(', '\\', 'd', '+', ')', '\\', '.', ' ', 'D', 'e', 'a', 'l', 'e', 'r', ' ', '(', '.', '*', ')', '\\', '.', ' ', '(', '.', '*', ')', ' ', 'v', 'u', 'l', 'n', 'e', 'r', 'a', 'b', 'l', 'e', '\\', '.'] : List Char) = BOARD_PATTERN := by
  decide +kernel

/-- what the translated method computes on the three texts -/
def boardResultOf (s : Str) : List Str → R (Val × Val)
  | [ds, gd, gv] =>
    match seatOfFormal? gd with
    | none => .error (.exc K.ValueError)
    | some d =>
      match vulOfWord? gv with
      | none => .error (.exc K.Exception)
      | some v => .ok (.tuple [.int (digitsVal ds), encSeat d, encVul v], .str s)
  | _ => .error (.exc K.Exception)

/-- what the translated method computes, in one statement -/
def boardResult (s : Str) : R (Val × Val) :=
  match boardFields? s with
  | none => .error (.exc K.Exception)
  | some fl => boardResultOf s fl

theorem vulOfWord_eq {w : Str} {v : Vul} (h : vulOfWord? w = some v) : w = convertVul v := by
  unfold vulOfWord? at h
  split at h
  · cases h; assumption
  · split at h
    · cases h; assumption
    · split at h
      · cases h; assumption
      · split at h
        · cases h; assumption
        · cases h

theorem board_exec_nomatch (f : Nat) (s : Str) (hs : ∀ x ∈ s, agreeBoard x = true) (h : boardFields? s = none) :
    callF (mkRec P (f+30)) m_Client_parse_board [.str s] = .error (.exc K.Exception) := by
  have hm := match_board s hs
  simp only [h, Option.map_none] at hm
  have hb := reMatch_none _ _ hm
  rw [callF_def]
  simp only [m_Client_parse_board]
  rw [board_pat_eq]
  ppsimp [mth_match_base, match_base_none _ _ _ hb]

theorem board_exec_badseat (f : Nat) (s : Str) (hs : ∀ x ∈ s, agreeBoard x = true) (ds gd gv : Str)
    (h : boardFields? s = some [ds, gd, gv]) (hd1 : ds ≠ []) (hd2 : ds.all Bridge.isDigit = true)
    (hp : seatOfFormal? gd = none) :
    callF (mkRec P (f+30)) m_Client_parse_board [.str s] = .error (.exc K.ValueError) := by
  have hm := match_board s hs
  simp only [h, Option.map_some] at hm
  obtain ⟨g0, hb⟩ := reMatch_some _ _ _ hm
  rw [callF_def]
  simp only [m_Client_parse_board]
  rw [board_pat_eq]
  ppsimp [mth_match_base, match_base_some _ _ _ _ hb, pp_mth_m_group, pp_m_group_call1, pp_m_group_call2, List.map_cons,
    List.map_nil, pp_int_str _ ds _ (parseInt_of_digits ds hd1 hd2), st_mth_convert, convert_formal_fail _ _ hp]

theorem board_exec_badvul (f : Nat) (s : Str) (hs : ∀ x ∈ s, agreeBoard x = true) (ds gd gv : Str)
    (h : boardFields? s = some [ds, gd, gv]) (hd1 : ds ≠ []) (hd2 : ds.all Bridge.isDigit = true)
    (d : Seat) (hp : seatOfFormal? gd = some d) (hv : vulOfWord? gv = none) :
    callF (mkRec P (f+30)) m_Client_parse_board [.str s] = .error (.exc K.Exception) := by
  have hm := match_board s hs
  simp only [h, Option.map_some] at hm
  obtain ⟨g0, hb⟩ := reMatch_some _ _ _ hm
  have hcv := seatOfFormal_eq hp
  unfold vulOfWord? at hv
  have h1 : gv ≠ "Neither".toList := fun e => by rw [if_pos e] at hv; cases hv
  rw [if_neg h1] at hv
  have h2 : gv ≠ "N/S".toList := fun e => by rw [if_pos e] at hv; cases hv
  rw [if_neg h2] at hv
  have h3 : gv ≠ "E/W".toList := fun e => by rw [if_pos e] at hv; cases hv
  rw [if_neg h3] at hv
  have h4 : gv ≠ "Both".toList := fun e => by rw [if_pos e] at hv; cases hv
  have b1 : (gv == ['N', 'e', 'i', 't', 'h', 'e', 'r']) = false := beq_eq_false_iff_ne.mpr h1
  have b2 : (gv == ['N', '/', 'S']) = false := beq_eq_false_iff_ne.mpr h2
  have b3 : (gv == ['E', '/', 'W']) = false := beq_eq_false_iff_ne.mpr h3
  have b4 : (gv == ['B', 'o', 't', 'h']) = false := beq_eq_false_iff_ne.mpr h4
  subst hcv
  rw [callF_def]
  simp only [m_Client_parse_board]
  rw [board_pat_eq]
  ppsimp [mth_match_base, match_base_some _ _ _ _ hb, pp_mth_m_group, pp_m_group_call1, pp_m_group_call2, m_group_call3,
    List.map_cons, List.map_nil, pp_int_str _ ds _ (parseInt_of_digits ds hd1 hd2), st_mth_convert, st_convert_formal_call,
    str_beq, b1, b2, b3, b4]

theorem board_exec_ok (f : Nat) (s : Str) (hs : ∀ x ∈ s, agreeBoard x = true) (ds gd gv : Str)
    (h : boardFields? s = some [ds, gd, gv]) (hd1 : ds ≠ []) (hd2 : ds.all Bridge.isDigit = true)
    (d : Seat) (hp : seatOfFormal? gd = some d) (v : Vul) (hv : vulOfWord? gv = some v) :
    callF (mkRec P (f+30)) m_Client_parse_board [.str s]
      = .ok (.tuple [.int (digitsVal ds), encSeat d, encVul v], .str s) := by
  have hm := match_board s hs
  simp only [h, Option.map_some] at hm
  obtain ⟨g0, hb⟩ := reMatch_some _ _ _ hm
  have hcv := seatOfFormal_eq hp
  have hvw := vulOfWord_eq hv
  subst hcv
  subst hvw
  rw [callF_def]
  simp only [m_Client_parse_board]
  rw [board_pat_eq]
  cases v <;>
  · ppsimp [mth_match_base, match_base_some _ _ _ _ hb, pp_mth_m_group, pp_m_group_call1, pp_m_group_call2, m_group_call3,
      List.map_cons, List.map_nil, pp_int_str _ ds _ (parseInt_of_digits ds hd1 hd2), st_mth_convert,
      st_convert_formal_call, str_beq, convertVul, String.reduceToList]
    rfl

/-- THE TRANSLATED METHOD, at every fuel ≥ 31, on every text in the class -/
theorem parse_board_translated (s : Str) (hs : ∀ x ∈ s, agreeBoard x = true) (g : Nat) (hg : 31 ≤ g) :
    callFn P g m_Client_parse_board [.str s] = boardResult s := by
  refine st_callFn_of_callF (K := 30) (fun f => ?_) g hg
  unfold boardResult
  cases h : boardFields? s with
  | none => exact board_exec_nomatch f s hs h
  | some fl =>
    obtain ⟨ds, gd, gv, rfl, hd1, hd2⟩ := boardFields_shape s fl h
    simp only [boardResultOf]
    cases hp : seatOfFormal? gd with
    | none => exact board_exec_badseat f s hs ds gd gv h hd1 hd2 hp
    | some d =>
      cases hv : vulOfWord? gv with
      | none => exact board_exec_badvul f s hs ds gd gv h hd1 hd2 d hp hv
      | some v => exact board_exec_ok f s hs ds gd gv h hd1 hd2 d hp v hv

/-- (B, success) the model reads the header as `(n, dealer, vul)`: so does the translated method, at every fuel ≥ 31 -/
theorem parse_board_ok (s : Str) (hs : ∀ x ∈ s, agreeBoard x = true) (n : Nat) (dealer : Seat) (vul : Vul)
    (h : parseBoard? s = some (n, dealer, vul)) (g : Nat) (hg : 31 ≤ g) :
    callFn P g m_Client_parse_board [.str s] = .ok (.tuple [.int n, encSeat dealer, encVul vul], .str s) := by
  rw [parse_board_translated s hs g hg]
  rw [parseBoard_eq_fields] at h
  unfold boardResult
  cases hf : boardFields? s with
  | none => rw [hf] at h; cases h
  | some fl =>
    obtain ⟨ds, gd, gv, rfl, hd1, hd2⟩ := boardFields_shape s fl hf
    rw [hf] at h
    simp only [Option.bind_some, decodeBoard, decimal_of_digits ds hd1 hd2] at h
    simp only [boardResultOf]
    cases hp : seatOfFormal? gd with
    | none => rw [hp] at h; cases h
    | some d =>
      cases hv : vulOfWord? gv with
      | none => rw [hp, hv] at h; cases h
      | some v =>
        rw [hp, hv] at h
        simp only [Option.some.injEq, Prod.mk.injEq] at h
        obtain ⟨rfl, rfl, rfl⟩ := h
        rfl

/-- (B, failure) the model refuses the header: the translated method raises `Exception` or `ValueError` -/
theorem parse_board_raises (s : Str) (hs : ∀ x ∈ s, agreeBoard x = true) (h : parseBoard? s = none) (g : Nat)
    (hg : 31 ≤ g) :
    callFn P g m_Client_parse_board [.str s] = .error (.exc K.Exception) ∨
    ((boardFields? s).isSome = true ∧ callFn P g m_Client_parse_board [.str s] = .error (.exc K.ValueError)) := by
  rw [parse_board_translated s hs g hg]
  rw [parseBoard_eq_fields] at h
  unfold boardResult
  cases hf : boardFields? s with
  | none => exact .inl rfl
  | some fl =>
    obtain ⟨ds, gd, gv, rfl, hd1, hd2⟩ := boardFields_shape s fl hf
    rw [hf] at h
    simp only [Option.bind_some, decodeBoard, decimal_of_digits ds hd1 hd2] at h
    simp only [boardResultOf]
    cases hp : seatOfFormal? gd with
    | none => exact .inr ⟨rfl, rfl⟩
    | some d =>
      cases hv : vulOfWord? gv with
      | none => exact .inl rfl
      | some v => rw [hp, hv] at h; cases h

/-- in the form the bundled-client capstone asks (`Returns` of Translated/ThreadsClientALemmas.lean, inside `dealParses`) -/
theorem parse_board_returns (s : Str) (hs : ∀ x ∈ s, agreeBoard x = true) (n : Nat) (dealer : Seat) (vul : Vul)
    (h : parseBoard? s = some (n, dealer, vul)) :
    ∀ f, 31 ≤ f → (callFn P f m_Client_parse_board [.str s]).map (·.1)
      = .ok (.tuple [.int n, encSeat dealer, encVul vul]) := by
  intro f hf
  rw [parse_board_ok s hs n dealer vul h f hf]
  rfl

/-- for ASCII texts -/
theorem parse_board_ok_ascii (s : Str) (hs : ∀ x ∈ s, x.toNat < 128) (n : Nat) (dealer : Seat) (vul : Vul)
    (h : parseBoard? s = some (n, dealer, vul)) (g : Nat) (hg : 31 ≤ g) :
    callFn P g m_Client_parse_board [.str s] = .ok (.tuple [.int n, encSeat dealer, encVul vul], .str s) :=
  parse_board_ok s (fun x hx => agreeBoard_ascii x (hs x hx)) n dealer vul h g hg

/-! ### non-vacuity -/
example : callFn P 31 m_Client_parse_board [.str "BOARD number 0123456789012345678901234567890. Dealer West. E/W vulnerable. Bye".toList]
    = .ok (.tuple [.int 123456789012345678901234567890, encSeat .W, encVul .ew],
        .str "BOARD number 0123456789012345678901234567890. Dealer West. E/W vulnerable. Bye".toList) :=
  parse_board_ok_ascii _ (by decide +kernel) _ .W .ew (by decide +kernel) 31 (Nat.le_refl _)

end Bridge.Translated.ClientParsers
