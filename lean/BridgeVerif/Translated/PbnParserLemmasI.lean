import BridgeVerif.Translated.PbnParserLemmasH
/-! Translated PBN parser = model: `extract_content` with the finer measure — every recursive call lowers
`s.length + (1 if in a comment)` by at least two (a `; ` / `{ ` split happens at a position ≥ 1 and drops the two
characters of the marker; leaving a comment drops the `}` and the comment flag), so TWO levels of fuel per character. -/
namespace Bridge.Translated
open Bridge Bridge.Py Bridge.Generated.PyCore Bridge.RegexPbn

/-- `extract_content` at an arbitrary fuel: `f + 4 * n + 16` levels for `s.length + (1 if in a comment) < 2 * n` -/
theorem pp_extract_call_wide (hf : PbnRegexFacts) (n : Nat) : ∀ (f k : Nat) (st : PbnSt) (cl cb : List Str) (s : Str),
    s.length + st.inComment.toNat < 2 * n → s.length < k →
    ∃ cl' cb', callF (mkRec P (f + 4 * n + 16)) m_PbnParser_extract_content [encPbnParser st cl cb, .str s]
      = .ok (.none, encPbnParser (extractContent k st s) cl' cb') := by
  induction n with
  | zero => intro f k st cl cb s h; omega
  | succ n ih =>
    intro f k st cl cb s hn hk
    have e : f + 4 * (n + 1) + 16 = (f + 4 * n + 16) + 4 := by omega
    rw [e]
    cases k with
    | zero => omega
    | succ k =>
    rw [pp_ec_succ]
    obtain ⟨ic, buf⟩ := st
    cases s with
    | nil =>
      refine ⟨cl, cb, ?_⟩
      rw [callF_def]
      simp only [m_PbnParser_extract_content, bindParams, Option.map, encPbnParser]
      ppsimp [pp_truthy_str]
    | cons c0 s0 =>
    generalize hs : c0 :: s0 = s at *
    have hne : s.isEmpty = false := by rw [← hs]; rfl
    have hpos : 0 < s.length := by rw [← hs]; simp
    simp only [hne, Bool.false_eq_true, if_false]
    cases ic with
    | true =>
      have hn' : s.length + 1 < 2 * (n + 1) := hn
      simp only [if_true]
      cases hsp : splitAtChar '}' s with
      | none =>
        refine ⟨cl, cb ++ [s], ?_⟩
        rw [callF_def]
        simp only [m_PbnParser_extract_content, bindParams, Option.map, encPbnParser]
        ppsimp [pp_truthy_str, hne, pp_infix1, pp_inn_flag, hsp, List.map_append, List.map_cons, List.map_nil]
      | some ab =>
        obtain ⟨a, rem⟩ := ab
        have hsp' := pp_splitAtChar_spec '}' s a rem hsp
        have hrem : rem.length < s.length := by rw [← hsp'.2.1, List.length_drop]; omega
        obtain ⟨cl', cb', ih⟩ := ih f k ⟨false, buf⟩ (cl ++ [(cb ++ [a]).flatten]) [] rem (show rem.length + 0 < 2 * n by omega) (by omega)
        refine ⟨cl', cb', ?_⟩
        simp only [encPbnParser, List.map_append, List.map_cons, List.map_nil] at ih
        rw [callF_def]
        simp only [m_PbnParser_extract_content, bindParams, Option.map, encPbnParser]
        ppsimp [pp_truthy_str, hne, pp_infix1, pp_inn_flag, hsp, Option.isSome_some, pp_splitOnce1 _ s '}' a rem hsp, pp_join_snoc,
          pp_mth_extract, ih, pp_tuple_nil]
    | false =>
      have hn' : s.length + 0 < 2 * (n + 1) := hn
      simp only [Bool.false_eq_true, if_false]
      obtain ⟨t, hsv⟩ := pp_search_builtin hf s
      have hpre := pp_ec_prefix (f + 4 * n) buf cl cb s t hne hsv
      rw [pp_callF_extract, exec_succ]
      simp only [encPbnParser]
      rw [pp_execF_append_next _ _ _ _ _ hpre]
      by_cases h1 : (0 < optIdx (find2 ';' ' ' s 0) ∧ optIdx (find2 ';' ' ' s 0) < optIdx (find2 '{' ' ' s 0))
          ∨ (optIdx (find2 '{' ' ' s 0) < 0 ∧ 0 < optIdx (find2 ';' ' ' s 0))
      · simp only [h1, if_true]
        have hx0 : 0 < optIdx (find2 ';' ' ' s 0) := by omega
        have hfx := pp_optIdx_pos _ hx0
        cases hst : searchTag (s.length + 1) s 0 with
        | none =>
          refine ⟨cl ++ [s.drop ((optIdx (find2 ';' ' ' s 0)).toNat + 2)], cb, ?_⟩
          simp only [searchVal, ecRest, m_PbnParser_extract_content, List.drop_succ_cons, List.drop_zero, PbnSt.push]
          ppsimp [↓ pp_cond1, h1, pp_truthy_none, pp_splitOnce2 _ s ';' ' ' _ hfx,
            List.map_append, List.map_cons, List.map_nil, List.reverse_cons]
        | some ab =>
          obtain ⟨a, b⟩ := ab
          by_cases h3 : (a : Int) < optIdx (find2 ';' ' ' s 0) ∧ optIdx (find2 ';' ' ' s 0) < (b : Int)
          · simp only [h3, and_self, if_true]
            have hrem : (s.drop b).length < s.length := by rw [List.length_drop]; omega
            have hfb := pp_find2_bound ';' ' ' s 0 _ hfx
            obtain ⟨cl', cb', ih⟩ := ih f k ⟨false, s.take b :: buf⟩ cl cb (s.drop b)
              (show (s.drop b).length + 0 < 2 * n by rw [List.length_drop]; omega) (by omega)
            refine ⟨cl' ++ [s.drop ((optIdx (find2 ';' ' ' s 0)).toNat + 2)], cb', ?_⟩
            simp only [encPbnParser, List.map_append, List.map_cons, List.map_nil, List.reverse_cons] at ih
            simp only [searchVal, ecRest, m_PbnParser_extract_content, List.drop_succ_cons, List.drop_zero, PbnSt.push]
            ppsimp [↓ pp_cond1, h1, pp_truthy_obj, pp_mth_ms_start, pp_ms_start_call, pp_mth_ms_end, pp_ms_end_call,
              h3.1, h3.2, pp_slice_to, pp_slice_from, pp_mth_extract, ih, pp_splitOnce2 _ s ';' ' ' _ hfx,
              List.map_append, List.map_cons, List.map_nil, List.reverse_cons]
          · simp only [h3, if_false]
            refine ⟨cl ++ [s.drop ((optIdx (find2 ';' ' ' s 0)).toNat + 2)], cb, ?_⟩
            simp only [searchVal, ecRest, m_PbnParser_extract_content, List.drop_succ_cons, List.drop_zero, PbnSt.push]
            by_cases h4 : (a : Int) < optIdx (find2 ';' ' ' s 0)
            · have h5 : ¬ optIdx (find2 ';' ' ' s 0) < (b : Int) := fun hh => h3 ⟨h4, hh⟩
              ppsimp [↓ pp_cond1, h1, pp_truthy_obj, pp_mth_ms_start, pp_ms_start_call, pp_mth_ms_end, pp_ms_end_call,
                h4, h5, pp_splitOnce2 _ s ';' ' ' _ hfx,
                List.map_append, List.map_cons, List.map_nil, List.reverse_cons]
            · ppsimp [↓ pp_cond1, h1, pp_truthy_obj, pp_mth_ms_start, pp_ms_start_call, pp_mth_ms_end, pp_ms_end_call,
                h4, pp_splitOnce2 _ s ';' ' ' _ hfx,
                List.map_append, List.map_cons, List.map_nil, List.reverse_cons]
      · simp only [h1, if_false]
        by_cases h2 : (optIdx (find2 ';' ' ' s 0) > optIdx (find2 '{' ' ' s 0) ∧ optIdx (find2 '{' ' ' s 0) > 0)
          ∨ (optIdx (find2 '{' ' ' s 0) > 0 ∧ 0 > optIdx (find2 ';' ' ' s 0))
        · simp only [h2, if_true]
          have hy0 : 0 < optIdx (find2 '{' ' ' s 0) := by omega
          have hfy := pp_optIdx_pos _ hy0
          have hfb := pp_find2_bound '{' ' ' s 0 _ hfy
          have hrem : (s.drop ((optIdx (find2 '{' ' ' s 0)).toNat + 2)).length < s.length := by
            rw [List.length_drop]; omega
          obtain ⟨cl', cb', ih⟩ := ih f k ⟨true, s.take (optIdx (find2 '{' ' ' s 0)).toNat :: buf⟩ cl cb
            (s.drop ((optIdx (find2 '{' ' ' s 0)).toNat + 2))
            (show (s.drop ((optIdx (find2 '{' ' ' s 0)).toNat + 2)).length + 1 < 2 * n by rw [List.length_drop]; omega)
            (by omega)
          refine ⟨cl', cb', ?_⟩
          simp only [encPbnParser, List.map_append, List.map_cons, List.map_nil, List.reverse_cons] at ih
          simp only [ecRest, m_PbnParser_extract_content, List.drop_succ_cons, List.drop_zero, PbnSt.push]
          ppsimp [↓ pp_cond1, ↓ pp_cond2, h1, h2, pp_splitOnce2 _ s '{' ' ' _ hfy, pp_mth_extract, ih,
            List.map_append, List.map_cons, List.map_nil, List.reverse_cons]
        · simp only [h2, if_false]
          refine ⟨cl, cb, ?_⟩
          simp only [ecRest, m_PbnParser_extract_content, List.drop_succ_cons, List.drop_zero, PbnSt.push]
          ppsimp [↓ pp_cond1, ↓ pp_cond2, h1, h2, List.map_append, List.map_cons, List.map_nil, List.reverse_cons]

end Bridge.Translated
