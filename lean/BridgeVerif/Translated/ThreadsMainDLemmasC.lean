import BridgeVerif.Translated.ThreadsMainDLemmasB
/-! Capstone of the main thread, (3): what the seat threads forward to main in a session are the texts of the decisions -/
set_option maxRecDepth 4000
namespace Bridge.Translated.MainD
open Bridge Bridge.Py Bridge.Generated.PyCore
open Bridge.Translated.MainA Bridge.Translated.MainB Bridge.Translated.MainC

theorem t2m_callPhases (p dealer : Seat) (m : Text) : ∀ (l : List (Call × Text)) (j : Nat),
    m ∈ (callPhases dealer j l).flatMap (t2mOf p) → m ∈ l.map (·.2) := by
  intro l
  induction l with
  | nil => intro j h; simp [callPhases] at h
  | cons x r ih =>
    intro j h
    obtain ⟨c, text⟩ := x
    simp only [callPhases, List.flatMap_cons, List.mem_append, t2mOf_call] at h
    rcases h with h | h
    · split at h
      · simp only [List.mem_singleton] at h; subst h; simp
      · cases h
    · exact List.mem_cons_of_mem _ (ih (j + 1) h)

theorem t2m_cardPhases (p d : Seat) (deal : Hands) (m : Text) : ∀ (l : List (Card × Text)) (s : PState) (j : Nat),
    m ∈ (cardPhases d deal s j l).flatMap (t2mOf p) → m ∈ l.map (·.2) := by
  intro l
  induction l with
  | nil => intro s j h; simp [cardPhases] at h
  | cons x r ih =>
    intro s j h
    obtain ⟨c, text⟩ := x
    simp only [cardPhases, List.flatMap_cons, List.mem_append, t2mOf_card] at h
    rcases h with h | h
    · split at h
      · simp only [List.mem_singleton] at h; subst h; simp
      · cases h
    · exact List.mem_cons_of_mem _ (ih _ (j + 1) h)

theorem t2m_boardPhases (sc : Scenario) (k : Nat) (last : Bool) (b : BoardSetting) (d : Decisions) (p : Seat) (m : Text)
    (h : m ∈ (boardPhases sc k last b d).flatMap (t2mOf p)) :
    m ∈ d.calls.map (·.2) ∨ m ∈ d.cards.map (·.2) := by
  unfold boardPhases at h
  simp only [List.flatMap_append, List.flatMap_cons, List.flatMap_nil, List.mem_append, t2mOf_deal, t2mOf_auctionEnd,
    List.append_nil, List.not_mem_nil, false_or] at h
  rcases h with (h | h) | h
  · exact Or.inl (t2m_callPhases p _ m _ _ h)
  · split at h
    · simp only [List.flatMap_cons, t2mOf_playStart, List.nil_append] at h
      exact Or.inr (t2m_cardPhases p _ _ m _ _ _ h)
    · simp at h
  · cases last <;> simp at h

theorem t2m_boardsPhases (sc : Scenario) (p : Seat) (m : Text) : ∀ (boards : List (BoardSetting × Decisions)) (k : Nat),
    m ∈ (boardsPhases sc k boards).flatMap (t2mOf p) →
    ∃ bd ∈ boards, m ∈ bd.2.calls.map (·.2) ∨ m ∈ bd.2.cards.map (·.2) := by
  intro boards
  induction boards with
  | nil => intro k h; simp [boardsPhases] at h
  | cons x r ih =>
    intro k h
    obtain ⟨b, d⟩ := x
    cases r with
    | nil =>
      simp only [boardsPhases] at h
      exact ⟨(b, d), List.mem_cons_self, t2m_boardPhases sc k true b d p m h⟩
    | cons y r' =>
      rw [boardsPhases] at h
      · rw [List.flatMap_append, List.mem_append] at h
        rcases h with h | h
        · exact ⟨(b, d), List.mem_cons_self, t2m_boardPhases sc k false b d p m h⟩
        · obtain ⟨bd, hbd, hm⟩ := ih (k + 1) h
          exact ⟨bd, List.mem_cons_of_mem _ hbd, hm⟩
      · simp

/-- the streams of a session feed the boards -/
theorem session_feeds (sc : Scenario) :
    Feeds (fun p => sendsOn (Chan.t2m p) (sessionProg sc (.seat p))) (boardsPhases sc 1 sc.boards) (fun _ => []) := by
  intro p
  show sendsOn (Chan.t2m p) (sessionProg sc (.seat p)) = _
  unfold sessionProg sessionPhases
  rw [sendsOn_progOfPhases, List.flatMap_cons]
  show t2mOf p _ ++ List.flatMap (t2mOf p) _ = _
  simp

/-- every message a seat thread forwards to main in a session is the text of a call or of a card of some board -/
theorem session_stream_mem (sc : Scenario) (p : Seat) (m : Text)
    (h : m ∈ sendsOn (Chan.t2m p) (sessionProg sc (.seat p))) :
    ∃ bd ∈ sc.boards, m ∈ bd.2.calls.map (·.2) ∨ m ∈ bd.2.cards.map (·.2) := by
  have hf := session_feeds sc p
  simp only [List.append_nil] at hf
  rw [hf] at h
  exact t2m_boardsPhases sc p m sc.boards 1 h

end Bridge.Translated.MainD
