import BridgeVerif.Translated.AuctionLemmasD
import BridgeVerif.Translated.AuctionLemmasE
import BridgeVerif.Translated.AuctionLemmasF
import BridgeVerif.Translated.AuctionLemmasG
/-!
# bidding_phase.py AS TRANSLATED is the hand-written model of the auction  (C01, C02, C03)

`encState s` (AuctionLemmasA.lean) is the `BiddingPhase` instance the MiniPy interpreter holds for the model state `s`.
The theorems below say that the TRANSLATED `__init__`, `has_done`, `take_bid` and `contract` (Generated/PyCore.lean,
re-written from the Python source on every run), executed by the interpreter, compute exactly `AState.init`,
`AState.hasDone`, `takeBid` and `AState.contract` — for EVERY state `s` (reachable or not) and every call, with syntactic
equality of the resulting `Val`s.  The proofs are symbolic executions of the interpreter on the symbolic state
(AuctionLemmasA–G).
-/
namespace Bridge.Translated
open Bridge Bridge.Py Bridge.Generated.PyCore

/-- `encState`, written out: the eleven attributes in the order `__init__` assigns them -/
theorem encState_explicit (s : AState) : encState s =
    .obj n_BiddingPhase
      [(n___dealer, encSeat s.dealer), (n___vul, encVul s.vul), (n___active_player, encOpt encSeat s.active),
       (n___last_bidder, encOpt encSeat s.lastBidder), (n___last_bid, encOpt encBid s.lastBid),
       (n___called_x, .bool s.calledX), (n___called_xx, .bool s.calledXX),
       (n___bid_history, .tuple (s.history.reverse.map encCall)),
       (n___players_bid_history, .dict
         [(encSeat .N, .tuple ((s.perSeat .N).reverse.map encCall)), (encSeat .E, .tuple ((s.perSeat .E).reverse.map encCall)),
          (encSeat .S, .tuple ((s.perSeat .S).reverse.map encCall)), (encSeat .W, .tuple ((s.perSeat .W).reverse.map encCall))]),
       (n___declarer_check, .dict
         [(encSide .NS, .dict [(encSuit .C, encOpt encSeat (s.declCheck .NS .C)), (encSuit .D, encOpt encSeat (s.declCheck .NS .D)),
            (encSuit .H, encOpt encSeat (s.declCheck .NS .H)), (encSuit .S, encOpt encSeat (s.declCheck .NS .S)),
            (encSuit .NT, encOpt encSeat (s.declCheck .NS .NT))]),
          (encSide .EW, .dict [(encSuit .C, encOpt encSeat (s.declCheck .EW .C)), (encSuit .D, encOpt encSeat (s.declCheck .EW .D)),
            (encSuit .H, encOpt encSeat (s.declCheck .EW .H)), (encSuit .S, encOpt encSeat (s.declCheck .EW .S)),
            (encSuit .NT, encOpt encSeat (s.declCheck .EW .NT))])]),
       (n___available_bid, .tuple ((List.range 38).map fun k => .int (if s.avail (callOfIdx k) then 1 else 0)))] := rfl

/-- slot `k` of the vector is the call with `idx = k` (`Call.ofIdx?` of Core.lean) -/
theorem callOfIdx_ofIdx : ∀ k : Fin 38, Call.ofIdx? k.val = some (callOfIdx k.val) := by decide

theorem init_translated (d : Seat) (v : Vul) :
    P.runNew n_BiddingPhase [encSeat d, encVul v] = .ok (encState (AState.init d v)) := by
  rfl

theorem has_done_translated (s : AState) :
    P.runMethod n_BiddingPhase n_has_done [encState s] = .ok (.bool s.hasDone, encState s) := by
  have run : P.runMethod n_BiddingPhase n_has_done [encState s]
      = callF (mkRec P 999) m_BiddingPhase_has_done [encState s] := rfl
  rw [run]
  pysimp [m_BiddingPhase_has_done, encState, beq_encOptSeat_none, AState.hasDone]

/-- the body of `take_bid` on the encoded state -/
theorem take_bid_body (f : Nat) (s : AState) (c : Call) :
    execF (mkRec P (f+30)) P (envOf s c) m_BiddingPhase_take_bid.body =
      match takeBid s c with
      | .error () => .error (.exc K.Exception)
      | .ok (s', r) => .ok (envOf s' c, .ret (encRes r)) := by
  rw [tb_body]
  cases ha : s.active with
  | none => rw [tb_head_none f s c ha]; simp only [takeBid, ha]
  | some p =>
    rw [tb_head_some f s c p ha]
    rcases Bool.eq_false_or_eq_true (s.avail c) with hv | hv
    · simp only [takeBid, ha, hv, Bool.true_eq_false, if_false]
      cases c with
      | pass =>
        by_cases hc : 3 ≤ s.history.length ∧ s.history.head? = some .pass ∧ s.history.tail.head? = some .pass
        · simp only [execF, tb_kind_pass_fin f s p ha hc, bind_ok, pure_eq, hc, and_self, if_true]
        · simp only [execF, tb_kind_pass_go f s hc, bind_ok, hc, if_false, tb_tail f s .pass p ha]
      | dbl =>
        simp only [execF, tb_kind_dbl, bind_ok, tb_tail f { s with calledX := true } .dbl p ha]
        simp only [ha]
      | rdbl =>
        simp only [execF, tb_kind_rdbl, bind_ok, tb_tail f { s with calledXX := true } .rdbl p ha]
        simp only [ha]
      | bid i =>
        have ha' : (bidState s p i).active = some p := ha
        simp only [execF, tb_kind_bid f s p i ha, bind_ok, tb_tail f (bidState s p i) (.bid i) p ha']
    · simp only [takeBid, ha, hv, if_true]

theorem take_bid_translated (s : AState) (c : Call) :
    P.runMethod n_BiddingPhase n_take_bid [encState s, encCall c] =
      match takeBid s c with
      | .error () => .error (.exc K.Exception)
      | .ok (s', r) => .ok (encRes r, encState s') := by
  have run : P.runMethod n_BiddingPhase n_take_bid [encState s, encCall c]
      = ((mkRec P 999).exec (envOf s c) m_BiddingPhase_take_bid.body >>= fun x =>
          match x.2 with
          | .ret v => pure (v, (lookup x.1 K.self).getD .none)
          | _ => pure (.none, (lookup x.1 K.self).getD .none)) := rfl
  rw [run, exec_succ, take_bid_body 968 s c]
  cases h : takeBid s c with
  | error u => cases u; rfl
  | ok x => obtain ⟨s', r⟩ := x; cases r <;> rfl

theorem mth_contract_post : P.method? classDepth n_Contract K.postInit = some (n_Contract, m_Contract___post_init__) := rfl

theorem beq_none_enum (c : Id) (n : Int) : Val.none.beq (.enum c n) = false := by simp [Val.beq]

theorem beq_encBid_none (b : Fin 35) : (encBid b).beq .none = false := by simp [encBid, Val.beq]

theorem cls_Contract : ∃ cd, P.cls? n_Contract = some cd ∧ cd.isEnum = false ∧ cd.isDataclass = true ∧
    cd.fields = [(n_final_bid, none), (n_x, some (.bool false)), (n_xx, some (.bool false)),
      (n_vul, some (.enum n_Vul 1)), (n_declarer, some .none)] :=
  ⟨_, rfl, rfl, rfl, rfl⟩

theorem construct_contract (f : Nat) (fb x xx v d : Val)
    (h1 : fb.beq (.enum n_Bid 37) = false) (h2 : fb.beq (.enum n_Bid 38) = false) :
    constructF (mkRec P (f+12)) P n_Contract [fb, x, xx, v, d] =
      .ok (.obj n_Contract [(n_final_bid, fb), (n_x, x), (n_xx, xx), (n_vul, v), (n_declarer, d)]) := by
  obtain ⟨cd, e1, e2, e3, e4⟩ := cls_Contract
  simp only [constructF, e1, e2, e3, e4, mth_contract_post]
  pysimp [m_Contract___post_init__, List.map, List.filterMap, h1, h2]

theorem construct_contract4 (f : Nat) (fb x xx v : Val)
    (h1 : fb.beq (.enum n_Bid 37) = false) (h2 : fb.beq (.enum n_Bid 38) = false) :
    constructF (mkRec P (f+12)) P n_Contract [fb, x, xx, v] =
      .ok (.obj n_Contract [(n_final_bid, fb), (n_x, x), (n_xx, xx), (n_vul, v), (n_declarer, .none)]) := by
  obtain ⟨cd, e1, e2, e3, e4⟩ := cls_Contract
  simp only [constructF, e1, e2, e3, e4, mth_contract_post]
  pysimp [m_Contract___post_init__, List.map, List.filterMap, h1, h2]

/-- `contract()`: `None` while the auction is going on; the passed-out contract `Contract(None, False, False, vul)`; the
contract with the declarer looked up in the declarer-check table.  The hypothesis excludes exactly the states in which
the Python code fails its assertion `last_bidder is not None` (auction over, a last bid but no last bidder — the model
returns `none` there; see `contract_translated_unreachable`). -/
theorem contract_translated (s : AState) (h : s.contract.isSome ∨ s.active.isSome) :
    (P.runMethod n_BiddingPhase n_contract [encState s]).map (·.1) = .ok (encOpt encContract s.contract) := by
  have run : P.runMethod n_BiddingPhase n_contract [encState s]
      = callF (mkRec P 999) m_BiddingPhase_contract [encState s] := rfl
  rw [run]
  obtain ⟨dealer, vul, active, lastBidder, lastBid, calledX, calledXX, history, perSeat, declCheck, avail⟩ := s
  simp only [AState.contract] at h ⊢
  cases active with
  | some p =>
    pysimp [m_BiddingPhase_contract, has_done_meth]
    rfl
  | none =>
    cases lastBid with
    | none =>
      pysimp [m_BiddingPhase_contract, has_done_meth]
      pysimp [encState, construct_contract4, beq_none_enum]
      rfl
    | some b =>
      cases lastBidder with
      | none => simp at h
      | some lb =>
        pysimp [m_BiddingPhase_contract, has_done_meth]
        pysimp [encState, construct_contract, beq_encBid_dbl, beq_encBid_rdbl, getAttr_suit, getAttr_pair, lookup_declKvs,
          lookup_declRow, beq_encSeat_none, beq_encSuit_none, beq_encBid_none]
        rfl

/-- the case excluded above: the translated code raises `AssertionError` -/
theorem contract_translated_unreachable (s : AState) (h1 : s.active = none) (b : Fin 35) (h2 : s.lastBid = some b)
    (h3 : s.lastBidder = none) :
    P.runMethod n_BiddingPhase n_contract [encState s] = .error (.exc K.AssertionError) := by
  have run : P.runMethod n_BiddingPhase n_contract [encState s]
      = callF (mkRec P 999) m_BiddingPhase_contract [encState s] := rfl
  rw [run]
  obtain ⟨dealer, vul, active, lastBidder, lastBid, calledX, calledXX, history, perSeat, declCheck, avail⟩ := s
  simp only at h1 h2 h3; subst h1; subst h2; subst h3
  pysimp [m_BiddingPhase_contract, has_done_meth]
  pysimp [encState, beq_encBid_none]

/-- any sequence of calls offered to a translated auction; a raised exception leaves the state as it is -/
def runTranslated (st : Val) : List Call → Val × List (Except Err Val)
  | [] => (st, [])
  | c :: cs =>
    match P.runMethod n_BiddingPhase n_take_bid [st, encCall c] with
    | .error e => let r := runTranslated st cs; (r.1, .error e :: r.2)
    | .ok (res, st') => let r := runTranslated st' cs; (r.1, .ok res :: r.2)

/-- from ANY model state: results and final state of the translated auction are the model's -/
theorem run_translated_from (s : AState) (cs : List Call) :
    runTranslated (encState s) cs =
      ((encState (runAuction s cs).1), (runAuction s cs).2.map (fun r => match r with
        | .error () => .error (.exc K.Exception) | .ok r => .ok (encRes r))) := by
  induction cs generalizing s with
  | nil => rfl
  | cons c cs ih =>
    simp only [runTranslated, runAuction, take_bid_translated s c]
    cases h : takeBid s c with
    | error u => cases u; simp only [ih s, List.map_cons]
    | ok x => obtain ⟨s', r⟩ := x; simp only [ih s', List.map_cons]

/-- any sequence of calls offered to a fresh translated auction: results and final state are the model's -/
theorem run_translated (d : Seat) (v : Vul) (cs : List Call) :
    runTranslated (encState (AState.init d v)) cs =
      ((encState (runAuction (AState.init d v) cs).1), (runAuction (AState.init d v) cs).2.map (fun r => match r with
        | .error () => .error (.exc K.Exception) | .ok r => .ok (encRes r))) :=
  run_translated_from (AState.init d v) cs

end Bridge.Translated
