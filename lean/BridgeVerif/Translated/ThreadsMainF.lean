import BridgeVerif.Translated.ThreadsMainE
import BridgeVerif.Translated.MsgParsersF
/-!
# The table manager RAISES on a call text the model's parser refuses

In the style of `MainA.main_bidding_illegal_raises`: when the model's run of the auction comes to a message that
`parseBid? (preprocessBid msg) active.formal_name` refuses (`mainBiddingUnparseable`), and the texts of the streams are plain
ASCII, the translated `MainThread.bidding_phase` raises `ValueError` or `Exception` (`bidErrs`) — out of the statement
`bid = MessageInterface.parse_bid(...)`, i.e. BEFORE `take_bid` and before the relay statement that would tell the other
seats about the call.
-/
set_option maxRecDepth 4000
namespace Bridge.Translated.MainA
open Bridge Bridge.Py Bridge.Generated.PyCore
open Bridge.Translated.MainE
open Bridge.Translated.MsgParsers Bridge.RegexMsgBid

/-- the model's run comes to a message its parser refuses (the branch `parseBid? … = none` of `mainBiddingR`) -/
def mainBiddingUnparseable : Nat → AState → MainIn → Bool
  | 0, _, _ => false
  | n + 1, s, i =>
    match s.active with
    | none => false
    | some a =>
      match i.get a with
      | none => false
      | some (msg, i1) =>
        match parseBid? (preprocessBid msg) a.formal with
        | none => true
        | some call =>
          match takeBid s call with
          | .error _ => false
          | .ok (_, .illegal) => false
          | .ok (s1, _) => mainBiddingUnparseable n s1 i1

/-- a turn in which `parse_bid` raises: the statements up to it, then the exception -/
theorem mt_prefix7_unparseable (f : Nat) (i : Seat → List Str) (more : List (Val × Val)) (out : List Val) (table : Val)
    (tables : List Val) (bs dv vv : Val) (s : AState) (a : Seat) (ha : s.active = some a) (msg : Str) (r : List Str)
    (hi : i a = msg :: r) (msg' : Str) (xa : Nat → Val)
    (hpre : if hasAlert msg = true then
        ∀ j, callF (mkRec P (f+j)) m_Server_remove_alert_word [.str msg] = .ok (.str msg', xa j) else msg' = msg)
    (c : Id)
    (hparse : ∀ j, callF (mkRec P (f+j)) m_MessageInterface_parse_bid [.str msg', .str a.formal] = .error (.exc c))
    (tail : Env) (htail : LoopTail tail) :
    execF (mkRec P (f+50)) P
      ((K.self, mtObj i out table tables more bs) :: (n_dealer, dv) :: (n_vul, vv) :: (n_bidding_env, encState s) :: tail)
      bpPrefix7
    = .error (.exc c) := by
  have hget := fun g o => mt_main_get g i more o table tables a msg r hi
  simp only [bpPrefix7, bpBody, bpWhile, m_MainThread_bidding_phase, List.getD_cons_succ, List.getD_cons_zero, mtObj_eq,
    List.take]
  by_cases hA : hasAlert msg = true
  · rw [if_pos hA] at hpre
    simp only [hasAlert] at hA
    rcases htail with rfl | ⟨x1, x2, x3, x4, x5, rfl⟩ <;>
      ppsimp [mt_iter_player, forF, mt_mth_w_put, mt_main_put, mt_mth_w_get, hget, mt_getAttr_active, ha, beq_encSeat_none,
        mt_getAttr_formal, mt_lower, hA, mt_mth_remove_alert, hpre, mt_mth_parse_bid, hparse,
        putAllOps, List.append_assoc]
  · rw [if_neg hA] at hpre
    subst hpre
    have hA' : isInfixC ['a', 'l', 'e', 'r', 't'] (msg'.map lowerC) = false := by
      simpa [hasAlert] using hA
    rcases htail with rfl | ⟨x1, x2, x3, x4, x5, rfl⟩ <;>
      ppsimp [mt_iter_player, forF, mt_mth_w_put, mt_main_put, mt_mth_w_get, hget, mt_getAttr_active, ha, beq_encSeat_none,
        mt_getAttr_formal, mt_lower, hA', mt_mth_parse_bid, hparse,
        putAllOps, List.append_assoc]

theorem mt_turn_unparseable (f : Nat) (i : Seat → List Str) (more : List (Val × Val)) (out : List Val) (table : Val)
    (tables : List Val) (bs dv vv : Val) (s : AState) (a : Seat) (ha : s.active = some a) (msg : Str) (r : List Str)
    (hi : i a = msg :: r) (msg' : Str) (xa : Nat → Val)
    (hpre : if hasAlert msg = true then
        ∀ j, callF (mkRec P (f+j)) m_Server_remove_alert_word [.str msg] = .ok (.str msg', xa j) else msg' = msg)
    (c : Id)
    (hparse : ∀ j, callF (mkRec P (f+j)) m_MessageInterface_parse_bid [.str msg', .str a.formal] = .error (.exc c))
    (tail : Env) (htail : LoopTail tail) :
    execF (mkRec P (f+50)) P (envL table tables more bs dv vv s i out tail) bpBody = .error (.exc c) := by
  rw [bpBody_eq, envL, bpPrefix_eq]
  exact mt_execF_append_err _ _ _ _ _ (mt_execF_append_err _ _ _ _ _
    (mt_prefix7_unparseable f i more out table tables bs dv vv s a ha msg r hi msg' xa hpre c hparse tail htail))

/-- the class raised does not depend on the fuel -/
theorem parse_bid_refuses_uniform (content : List Char) (hs : ∀ x ∈ content, x.toNat < 128) (p : Seat)
    (h : parseBid? content p.formal = none) :
    ∃ c ∈ bidErrs, ∀ f, 22 ≤ f →
      callFn P f m_MessageInterface_parse_bid [.str content, .str p.formal] = .error (.exc c) := by
  obtain ⟨c, hc, h22⟩ := parse_bid_refuses content hs p h 22 (Nat.le_refl _)
  exact ⟨c, hc, fun f hf => callFn_fuel_mono P hf _ _ _ h22 (by intro e; cases e)⟩

/-- the loop, when the model's run comes to a call text its parser refuses: the exception of `parse_bid` propagates out of
the `while` -/
theorem mt_loop_unparseable (F : Nat) (hF22 : 22 ≤ F) (table : Val) (tables : List Val) (more : List (Val × Val))
    (bs dv vv : Val) : ∀ (n : Nat) (s : AState) (i : MainIn) (out : List Val) (tail : Env) (g : Nat),
    mainBiddingUnparseable n s i = true → BidMsgsOK F n s i → (∀ p, ∀ m ∈ i p, PlainAscii m) → LoopTail tail →
    n + F + 60 ≤ g →
      ∃ c ∈ bidErrs,
        loopF (mkRec P g) (envL table tables more bs dv vv s i out tail) bpCond bpBody = .error (.exc c) := by
  intro n
  induction n with
  | zero => intro s i out tail g h; exact absurd h (by simp [mainBiddingUnparseable])
  | succ n ih =>
    intro s i out tail g h hok hasc htail hg
    obtain ⟨f0, rfl⟩ : ∃ f0, g = f0 + 51 := ⟨g - 51, by omega⟩
    have hc := mt_cond_eval (f0 + 39) table tables more bs dv vv s i out tail
    have hF : F ≤ f0 := by omega
    cases ha : s.active with
    | none => simp [mainBiddingUnparseable, ha] at h
    | some a =>
      cases hi : i a with
      | nil => simp [mainBiddingUnparseable, ha, MainIn.get, hi] at h
      | cons msg r =>
        have hmsg : PlainAscii msg := hasc a msg (by rw [hi]; simp)
        obtain ⟨xa, hxa⟩ : ∃ xa : Nat → Val, if hasAlert msg = true then
            ∀ j, callF (mkRec P (f0+j)) m_Server_remove_alert_word [.str msg] = .ok (.str (preprocessBid msg), xa j)
            else preprocessBid msg = msg := by
          by_cases hA : hasAlert msg = true
          · obtain ⟨xa, hxa⟩ := mt_of_map_fst _ _ _ F f0 hF
              ((good_of_plain_ascii F hF22 msg hmsg).1 hA)
            exact ⟨xa, by rw [if_pos hA]; exact hxa⟩
          · exact ⟨fun _ => .none, by rw [if_neg hA]; exact preprocessBid_of_no_alert msg hA⟩
        rw [ha] at hc
        cases hp : parseBid? (preprocessBid msg) a.formal with
        | none =>
          obtain ⟨c, hcm, hcall⟩ := parse_bid_refuses_uniform (preprocessBid msg)
            (fun x hx => (plainAscii_preprocess msg hmsg x hx).1) a hp
          have hparse : ∀ j, callF (mkRec P (f0+j)) m_MessageInterface_parse_bid [.str (preprocessBid msg), .str a.formal]
              = .error (.exc c) := fun j => hcall (f0 + j + 1) (by omega)
          have hturn : (mkRec P (f0 + 50 + 1)).exec (envL table tables more bs dv vv s i out tail) bpBody = _ :=
            mt_turn_unparseable f0 i more out table tables bs dv vv s a ha msg r hi (preprocessBid msg) xa hxa c hparse
              tail htail
          exact ⟨c, hcm, mt_loop_err (f0 + 50) _ _ _ _ hc hturn⟩
        | some call =>
          cases ht : takeBid s call with
          | error e => simp [mainBiddingUnparseable, ha, MainIn.get, hi, hp, ht] at h
          | ok y =>
            obtain ⟨s1, res⟩ := y
            simp only [BidMsgsOK, ha, MainIn.get, hi, hp, ht] at hok
            obtain ⟨_, hparse, hrec⟩ := hok
            obtain ⟨xp, hxp⟩ := mt_of_map_fst _ _ _ F f0 hF hparse
            have hres : res ≠ .illegal := by
              intro e; subst e
              simp [mainBiddingUnparseable, ha, MainIn.get, hi, hp, ht] at h
            have h' : mainBiddingUnparseable n s1 (fun q => if q = a then r else i q) = true := by
              simp only [mainBiddingUnparseable, ha, MainIn.get, hi, hp, ht] at h
              cases res with
              | illegal => exact absurd rfl hres
              | ongoing => exact h
              | finished => exact h
            obtain ⟨tail1, htail1, hturn⟩ := mt_turn f0 i more out table tables bs dv vv s a ha msg r hi
              (preprocessBid msg) xa hxa call xp hxp s1 res ht hres tail htail
            have hturn' : (mkRec P (f0 + 50 + 1)).exec (envL table tables more bs dv vv s i out tail) bpBody = _ := hturn
            rw [mt_loop_step (f0 + 50) _ _ _ _ hc hturn']
            refine ih s1 _ _ tail1 (f0 + 50) h' hrec ?_ htail1 (by omega)
            intro p m hm
            by_cases hpa : p = a
            · subst hpa
              simp only [if_true] at hm
              exact hasc p m (by rw [hi]; simp [hm])
            · simp only [hpa, if_false] at hm
              exact hasc p m hm

/-- THE UNPARSEABLE-CALL BRANCH: when the streams hold plain-ASCII texts and the model's run comes to a message that
`parseBid?` refuses, the translated `bidding_phase` raises `ValueError` or `Exception` out of `parse_bid` — before
`take_bid`, before the relay of the call to the other seats -/
theorem main_bidding_unparseable_raises (n : Nat) (dealer : Seat) (vul : Vul) (i : MainIn)
    (hasc : ∀ p, ∀ m ∈ i p, PlainAscii m)
    (hm : mainBiddingUnparseable n (AState.init dealer vul) i = true)
    (out : List Val) (table : Val) (tables : List Val) (more : List (Val × Val)) (bs : Val)
    (f : Nat) (hf : n + 22 + 70 ≤ f) :
    ∃ c ∈ bidErrs, callFn P f m_MainThread_bidding_phase
        [encMainThread (encMainWorld i out table tables more) bs, encSeat dealer, encVul vul]
      = .error (.exc c) := by
  have hmsgs : BidMsgsOK 22 n (AState.init dealer vul) i :=
    MainD.bidMsgsOK_of_good 22 n _ i (fun p m hm => good_of_plain_ascii 22 (Nat.le_refl _) m (hasc p m hm))
  obtain ⟨G, rfl⟩ : ∃ G, f = G + 52 := ⟨f - 52, by omega⟩
  obtain ⟨c, hcm, hloop⟩ := mt_loop_unparseable 22 (Nat.le_refl _) table tables more bs (encSeat dealer) (encVul vul) n
      (AState.init dealer vul) i out [] (G + 49) hm hmsgs hasc (Or.inl rfl) (by omega)
  refine ⟨c, hcm, ?_⟩
  have hw : execF (mkRec P (G + 50)) P (envL table tables more bs (encSeat dealer) (encVul vul) (AState.init dealer vul) i out [])
      [bpWhile] = .error (.exc c) := by
    simp only [execF, bpWhile_eq, execStmtF, loop_succ, hloop, bind_err]
  have hbody : execF (mkRec P (G + 50)) P
      [(K.self, mtObj i out table tables more bs), (n_dealer, encSeat dealer), (n_vul, encVul vul)]
      m_MainThread_bidding_phase.body = .error (.exc c) := by
    rw [bp_body_eq, mt_execF_append _ _ _ _ _ (mt_init_stmt (G + 5) _ dealer vul)]
    exact mt_execF_append_err _ _ _ _ _ hw
  show callF (mkRec P (G + 51)) m_MainThread_bidding_phase [mtObj i out table tables more bs, encSeat dealer, encVul vul] = _
  rw [callF_def]
  have hp : m_MainThread_bidding_phase.params = [K.self, n_dealer, n_vul] := rfl
  have hd : m_MainThread_bidding_phase.defaults = [] := rfl
  rw [hp, hd]
  simp only [bindParams, Option.map, exec_succ, hbody, bind_err]

/-- North opens 1NT, East says something that is no call -/
def exInGarbled : MainIn := fun p => match p with
  | .N => ["North bids 1NT".toList]
  | .E => ["East bids 8C  Alert. a joke".toList]
  | _ => []

example : ∃ c ∈ bidErrs, callFn P 200 m_MainThread_bidding_phase
    [encMainThread (encMainWorld exInGarbled [] (.dict []) [] []) .none, encSeat .N, encVul .none] = .error (.exc c) :=
  main_bidding_unparseable_raises 3 .N .none exInGarbled
    (by intro p m hm; cases p <;> simp [exInGarbled] at hm <;> subst hm <;> decide +kernel)
    (by decide +kernel) [] (.dict []) [] [] .none 200 (by decide)

end Bridge.Translated.MainA
