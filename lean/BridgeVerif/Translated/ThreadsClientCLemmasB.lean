import BridgeVerif.Translated.ThreadsClientCLemmas
/-! Translated `ClientThread.run`: the body of the generated `while True` loop (`crBody`) cut into a front part (the test
on `message`, `_deal`, `bidding_phase`, `playing_phase` unless passed out) and a back part (the next message, the
"End of session" test, `board_num += 1`), both executed symbolically with the phases as rewrite rules -/
set_option maxRecDepth 4000
namespace Bridge.Translated.ClientC
open Bridge Bridge.Py Bridge.Generated.PyCore Bridge.Translated Bridge.Translated.ClientA Bridge.Translated.ClientB

/-- the `while True:` statement of the generated `run` -/
def crLoop : Stmt := m_ClientThread_run.body.getD 3 .pass

/-- the body of the `while True` board loop of the generated `run` -/
def crBody : List Stmt := match crLoop with
  | .while _ b => b
  | _ => []

theorem crLoop_eq : crLoop = .while (.const (.bool true)) crBody := rfl

/-- the statements of the body up to and including `if not contract.is_passed_out(): …` -/
def crFront : List Stmt := crBody.take 4
/-- the next message, the "End of session" test, `board_num += 1` -/
def crBack : List Stmt := crBody.drop 4

theorem crBody_eq : crBody = crFront ++ crBack := rfl

theorem cr_lower (r : Rec) (s : List Char) : builtinF r P .lower [.str s] = .ok (.str (s.map lowerC)) := rfl

theorem lowerA_eq_lowerC : lowerA = lowerC := rfl

theorem cr_lowerS_start : lowerS MSG_START = ['s', 't', 'a', 'r', 't', ' ', 'o', 'f', ' ', 'b', 'o', 'a', 'r', 'd'] := by
  decide

/-- the "start of board" test of the loop, from the model's -/
theorem cr_start_beq (m : Str) (h : lowerS m = lowerS MSG_START) :
    (Val.str (m.map lowerC)).beq (.str ['s', 't', 'a', 'r', 't', ' ', 'o', 'f', ' ', 'b', 'o', 'a', 'r', 'd']) = true := by
  rw [ct_beq_str, ← lowerA_eq_lowerC, ← cr_lowerS_start, ← h]
  simp [lowerS]

theorem cr_MSG_END : MSG_END = ['E', 'n', 'd', ' ', 'o', 'f', ' ', 's', 'e', 's', 's', 'i', 'o', 'n'] := by decide

theorem cr_end_beq_true :
    (Val.str MSG_END).beq (.str ['E', 'n', 'd', ' ', 'o', 'f', ' ', 's', 'e', 's', 's', 'i', 'o', 'n']) = true := by
  rw [ct_beq_str, cr_MSG_END]
  exact beq_self_eq_true _

theorem cr_end_beq_false (m : Str) (h : m ≠ MSG_END) :
    (Val.str m).beq (.str ['E', 'n', 'd', ' ', 'o', 'f', ' ', 's', 'e', 's', 's', 'i', 'o', 'n']) = false := by
  rw [ct_beq_str, beq_eq_false_iff_ne, ← cr_MSG_END]
  exact h

theorem cr_mth_playing_phase :
    P.method? classDepth n_ClientThread n_playing_phase = some (n_ClientThread, m_ClientThread_playing_phase) := rfl

/-- the front part when the auction was passed out -/
theorem cr_front_passed (g : Nat) (p : Seat) (m : Str) (hm : lowerS m = lowerS MSG_START) (k : Int)
    (s s1 s2 : List Str) (bids bids1 bids2 plays out out1 out2 : List Val) (team : Str) (opp : Val)
    (extra extra1 : List (Id × Val)) (c : Contract) (rest : Env)
    (hd : ∀ j, callF (mkRec P (g+j)) m_ClientThread__deal
        [encClientThread p (encClientWorld s bids plays out) team opp extra]
      = .ok (.none, encClientThread p (encClientWorld s1 bids1 plays out1) team opp extra1))
    (hb : ∀ j, callF (mkRec P (g+j)) m_ClientThread_bidding_phase
        [encClientThread p (encClientWorld s1 bids1 plays out1) team opp extra1]
      = .ok (encContract c, encClientThread p (encClientWorld s2 bids2 plays out2) team opp extra1))
    (hpo : c.finalBid.isNone = true) :
    ∃ rest', execF (mkRec P (g+30)) P
        ((K.self, encClientThread p (encClientWorld s bids plays out) team opp extra) :: (n_message, .str m) ::
          (n_board_num, .int k) :: rest) crFront
      = .ok ((K.self, encClientThread p (encClientWorld s2 bids2 plays out2) team opp extra1) :: (n_message, .str m) ::
          (n_board_num, .int k) :: rest', .next) := by
  simp only [ct_thread_def] at hd hb ⊢
  have hs := cr_start_beq m hm
  refine ⟨?_, ?_⟩
  rotate_left
  · simp only [crFront, crBody, crLoop, m_ClientThread_run, List.getD_cons_zero, List.getD_cons_succ, List.take_succ_cons,
      List.take_zero]
    ctthsimp [cr_lower, hs, ct_mth_deal, hd, ct_mth_bidding_phase, hb, meth_encContract, mth_is_passed_out,
      is_passed_out_call, hpo, truthy]
    rfl

/-- the front part when a contract was reached: `playing_phase(contract)` runs -/
theorem cr_front_played (g : Nat) (p : Seat) (m : Str) (hm : lowerS m = lowerS MSG_START) (k : Int)
    (s s1 s2 s3 : List Str) (bids bids1 bids2 plays plays3 out out1 out2 out3 : List Val) (team : Str) (opp : Val)
    (extra extra1 : List (Id × Val)) (c : Contract) (rest : Env)
    (hd : ∀ j, callF (mkRec P (g+j)) m_ClientThread__deal
        [encClientThread p (encClientWorld s bids plays out) team opp extra]
      = .ok (.none, encClientThread p (encClientWorld s1 bids1 plays out1) team opp extra1))
    (hb : ∀ j, callF (mkRec P (g+j)) m_ClientThread_bidding_phase
        [encClientThread p (encClientWorld s1 bids1 plays out1) team opp extra1]
      = .ok (encContract c, encClientThread p (encClientWorld s2 bids2 plays out2) team opp extra1))
    (hpo : c.finalBid.isNone = false)
    (hp : ∀ j, callF (mkRec P (g+j)) m_ClientThread_playing_phase
        [encClientThread p (encClientWorld s2 bids2 plays out2) team opp extra1, encContract c]
      = .ok (.none, encClientThread p (encClientWorld s3 bids2 plays3 out3) team opp extra1)) :
    ∃ rest', execF (mkRec P (g+30)) P
        ((K.self, encClientThread p (encClientWorld s bids plays out) team opp extra) :: (n_message, .str m) ::
          (n_board_num, .int k) :: rest) crFront
      = .ok ((K.self, encClientThread p (encClientWorld s3 bids2 plays3 out3) team opp extra1) :: (n_message, .str m) ::
          (n_board_num, .int k) :: rest', .next) := by
  simp only [ct_thread_def] at hd hb hp ⊢
  have hs := cr_start_beq m hm
  refine ⟨?_, ?_⟩
  rotate_left
  · simp only [crFront, crBody, crLoop, m_ClientThread_run, List.getD_cons_zero, List.getD_cons_succ, List.take_succ_cons,
      List.take_zero]
    ctthsimp [cr_lower, hs, ct_mth_deal, hd, ct_mth_bidding_phase, hb, meth_encContract, mth_is_passed_out,
      is_passed_out_call, hpo, truthy, cr_mth_playing_phase, hp]
    rfl

/-- the back part: `End of session` — `break` -/
theorem cr_back_end (g : Nat) (p : Seat) (m : Str) (k : Int) (s : List Str) (bids plays out : List Val) (team : Str)
    (opp : Val) (extra : List (Id × Val)) (rest : Env) :
    execF (mkRec P (g+30)) P
        ((K.self, encClientThread p (encClientWorld (MSG_END :: s) bids plays out) team opp extra) ::
          (n_message, .str m) :: (n_board_num, .int k) :: rest) crBack
      = .ok ((K.self, encClientThread p (encClientWorld s bids plays (out ++ [.tuple [vstr "recv"]])) team opp extra) ::
          (n_message, .str MSG_END) :: (n_board_num, .int k) :: rest, .brk) := by
  simp only [ct_thread_def]
  simp only [crBack, crBody, crLoop, m_ClientThread_run, List.getD_cons_zero, List.getD_cons_succ, List.drop_succ_cons,
    List.drop_zero]
  ctthsimp [cr_end_beq_true]

/-- the back part: any other message — `board_num += 1`, the loop goes on -/
theorem cr_back_next (g : Nat) (p : Seat) (m m' : Str) (hne : m' ≠ MSG_END) (k : Int) (s : List Str)
    (bids plays out : List Val) (team : Str) (opp : Val) (extra : List (Id × Val)) (rest : Env) :
    execF (mkRec P (g+30)) P
        ((K.self, encClientThread p (encClientWorld (m' :: s) bids plays out) team opp extra) ::
          (n_message, .str m) :: (n_board_num, .int k) :: rest) crBack
      = .ok ((K.self, encClientThread p (encClientWorld s bids plays (out ++ [.tuple [vstr "recv"]])) team opp extra) ::
          (n_message, .str m') :: (n_board_num, .int (k + 1)) :: rest, .next) := by
  simp only [ct_thread_def]
  have hf := cr_end_beq_false m' hne
  simp only [crBack, crBody, crLoop, m_ClientThread_run, List.getD_cons_zero, List.getD_cons_succ, List.drop_succ_cons,
    List.drop_zero]
  ctthsimp [hf]

end Bridge.Translated.ClientC
