import BridgeVerif.Translated.ThreadsSeatBLemmasE
import BridgeVerif.Translated.ThreadsSeatBLemmasK
import BridgeVerif.Translated.ThreadsSeatBLemmasL
/-!
# The TRANSLATED seat thread (class `SeatThread` of Generated/PyCoreThreads.lean, from `PlayerThread`):
`_check_message`, `_connect` (admission), `_playing_phase`

Statements are about the generated `FuncDef`s (`m_SeatThread__check_message`, `m_SeatThread__connect`,
`m_SeatThread__playing_phase`) run by the MiniPy interpreter in the whole translated program `P`, for EVERY fuel from a
stated bound on; the thread object and its world are the encodings of Translated/ThreadsEnc.lean.

* `seat_check_message_translated` — `_check_message(expected)` on connection stream `msg :: c`: `passesCheck` ⇒ `True`,
  one `recv`; `failsCheck` ⇒ `False`, `recv`, `send "ERROR: Unexpected message received."`, `close`.  (`passesCheck` /
  `failsCheck`, Translated/ThreadsSeatBLemmasB.lean, are the test the method performs, stated with the interpreter's
  `.replace` builtin and `Re.pyFullmatch`; the regular-expression engine is not reasoned about.)
* `seat_connect_translated` — `_connect()` against `Bridge.admitReq` / `Bridge.replyText`: by cases on the verdict.
  Hypothesis: the translated `parse_connection_info` returns `(team, seat, version)` on the request text.
* `seat_connect_not_ready_translated` — the remaining paths of `_connect` (seated, but a `ready` message fails).
* `seat_connect_matches_connectR` — the same, phrased with `Admission.connectR`'s operations for the rejected verdicts.
* `seat_trick_translated` — one turn of `for trick_num in range(1, 14)` (the leader's name, then the four cards) is
  `seatTrickR … 0 leader`.
* `seat_playing_translated` — `_playing_phase()` is `seatPlayingR`, under `playingChecks` (every `ready` message consumed
  passes `_check_message`; Translated/ThreadsSeatBLemmasF.lean).
-/
namespace Bridge.Translated.SeatB
open Bridge Bridge.Py Bridge.Generated.PyCore

set_option maxRecDepth 4000

/-! ## (1) `_check_message` -/

/-- `_check_message(expected)` when the connection delivers `msg` next -/
theorem seat_check_message_translated (f : Nat) (hf : 15 ≤ f) (p : Seat) (q c : List Str) (msg expected : Str)
    (out : List Val) (table : Val) (tables : List Val) (rest : List (Id × Val)) :
    (passesCheck expected msg →
      callFn P f m_SeatThread__check_message
          [.obj n_SeatThread ((n__w, encSeatWorld p q (msg :: c) out table tables) :: rest), .str expected]
        = .ok (.bool true,
            .obj n_SeatThread ((n__w, encSeatWorld p q c (out ++ [.tuple [vstr "recv"]]) table tables) :: rest))) ∧
    (failsCheck expected msg →
      callFn P f m_SeatThread__check_message
          [.obj n_SeatThread ((n__w, encSeatWorld p q (msg :: c) out table tables) :: rest), .str expected]
        = .ok (.bool false,
            .obj n_SeatThread ((n__w, encSeatWorld p q c (out ++ [.tuple [vstr "recv"],
              .tuple [vstr "send", vstr "ERROR: Unexpected message received."], .tuple [vstr "close", .none]])
              table tables) :: rest))) := by
  obtain ⟨k, rfl⟩ : ∃ k, f = k + 15 := ⟨f - 15, by omega⟩
  exact ⟨fun h => sb_check_pass k p q c msg expected out table tables rest h,
    fun h => sb_check_fail k p q c msg expected out table tables rest h⟩

/-- a decidable form of `passesCheck` (for closed examples) -/
theorem passesCheck_of_isSome {expected msg : Str}
    (h : ((Re.pyFullmatch true (checkPattern expected) msg).bind id).isSome = true) : passesCheck expected msg := by
  unfold passesCheck
  cases hx : Re.pyFullmatch true (checkPattern expected) msg with
  | none => rw [hx] at h; cases h
  | some o => cases o with
    | none => rw [hx] at h; cases h
    | some m => exact ⟨m, rfl⟩

/-- non-vacuity: a conforming `ready` message in another letter case and with other white space passes … -/
example : passesCheck "North ready for teams".toList "north  READY for\tteams".toList :=
  passesCheck_of_isSome (by decide +kernel)
/-- … another seat's message fails -/
example : failsCheck "North ready for teams".toList "South ready for teams".toList := by
  unfold failsCheck; decide +kernel

/-- the theorem on a concrete thread: the message is consumed, `recv` recorded, `True` returned -/
example :
    callFn P 15 m_SeatThread__check_message
        [encSeatThread .N (encSeatWorld .N ["East".toList] ["north  READY for\tteams".toList, "x".toList]
          [.tuple [vstr "sync"]] (.dict []) []) [], .str "North ready for teams".toList]
      = .ok (.bool true, encSeatThread .N (encSeatWorld .N ["East".toList] ["x".toList]
          [.tuple [vstr "sync"], .tuple [vstr "recv"]] (.dict []) []) []) :=
  (seat_check_message_translated 15 (Nat.le_refl _) .N _ _ _ _ _ _ _ _).1 (passesCheck_of_isSome (by decide +kernel))

/-- … and the failing case: the error is sent, the connection closed, `False` returned -/
example :
    callFn P 15 m_SeatThread__check_message
        [encSeatThread .N (encSeatWorld .N [] ["South ready for teams".toList] [] (.dict []) []) [],
          .str "North ready for teams".toList]
      = .ok (.bool false, encSeatThread .N (encSeatWorld .N [] []
          [.tuple [vstr "recv"], .tuple [vstr "send", vstr "ERROR: Unexpected message received."],
           .tuple [vstr "close", .none]] (.dict []) []) []) :=
  (seat_check_message_translated 15 (Nat.le_refl _) .N _ _ _ _ _ _ _ _).2 (by unfold failsCheck; decide +kernel)

/-! ## (2) `_connect` -/

/-- the four outcomes of `admitReq`, with what decides them -/
theorem admitReq_cases (t : Table) (r : Request) :
    (r.version ≠ 18 ∧ admitReq t r = (t, .badVersion)) ∨
    (r.version = 18 ∧ ∃ x, t r.seat = some x ∧ admitReq t r = (t, .seatTaken)) ∨
    (r.version = 18 ∧ t r.seat = none ∧ ∃ pt, t r.seat.partner = some pt ∧ pt ≠ r.team ∧
      admitReq t r = (t, .teamMismatch)) ∨
    (r.version = 18 ∧ t r.seat = none ∧ (∀ pt, t r.seat.partner = some pt → pt = r.team) ∧
      admitReq t r = (t.set r.seat r.team, .seated)) := by
  by_cases hv : r.version = 18
  · cases hs : t r.seat with
    | some x => exact Or.inr (Or.inl ⟨hv, x, rfl, by simp [admitReq, PROTOCOL_VERSION, hv, hs]⟩)
    | none =>
      cases hp : t r.seat.partner with
      | none =>
        exact Or.inr (Or.inr (Or.inr ⟨hv, rfl, (fun pt h => by cases h), by simp [admitReq, PROTOCOL_VERSION, hv, hs, hp]⟩))
      | some pt =>
        by_cases hne : pt = r.team
        · exact Or.inr (Or.inr (Or.inr ⟨hv, rfl, (fun pt' h => by cases h; exact hne),
            by simp [admitReq, PROTOCOL_VERSION, hv, hs, hp, hne]⟩))
        · exact Or.inr (Or.inr (Or.inl ⟨hv, rfl, pt, rfl, hne, by simp [admitReq, PROTOCOL_VERSION, hv, hs, hp, hne]⟩))
  · exact Or.inl ⟨hv, by simp [admitReq, PROTOCOL_VERSION, hv]⟩

/-- the seat thread before admission: only `self._w` is set -/
def encSeatThread0 (w : Val) : Val := .obj n_SeatThread [(n__w, w)]

/-- the operations of a rejecting `_connect`: `recv`, the reply, `close`, `event_set` -/
def rejectOps (reply : Str) : List Val :=
  [.tuple [vstr "recv"], .tuple [vstr "send", .str reply], .tuple [vstr "close", .none], .tuple [vstr "event_set", .none]]

/-- the operations of an accepting `_connect` (both `ready` messages pass): the table entry, the reply, `ready for teams`,
the verdict, the seating barrier, the `Teams` message (from the table after the barrier), `ready to start` -/
def seatedOps (seat : Seat) (team reply teams : Str) : List Val :=
  [.tuple [vstr "recv"], .tuple [vstr "table", encSeat seat, .str team], .tuple [vstr "send", .str reply],
   .tuple [vstr "recv"], .tuple [vstr "event_set", .none], .tuple [vstr "sync"], .tuple [vstr "send", .str teams],
   .tuple [vstr "recv"]]

/-- `_connect()` IS `admitReq` + `replyText`.  `t` is the seat table (`encTable t` in the world), `tables` its later
snapshots (`w_advance` at the barrier takes the head, if any); the queue key `p0` and the queue content are arbitrary.
Hypothesis `hparse`: the translated `parse_connection_info` on the request text returns `(team, seat, version)` at every
fuel from `N` on (its regular expression is not reasoned about here). -/
theorem seat_connect_translated (N f : Nat) (hf : N + 25 ≤ f) (p0 : Seat) (q c : List Str) (req : Str) (out : List Val)
    (t : Table) (tables : List Table) (team : Str) (seat : Seat) (version : Nat) (s' : Val)
    (hparse : ∀ g, N ≤ g → callFn P g m_PlayerThread_parse_connection_info [.str req]
      = .ok (.tuple [.str team, encSeat seat, .int version], s')) :
    let r : Request := ⟨team, seat, version⟩
    -- a verdict other than `seated`: `False`, the table unchanged, the reply is `replyText`
    (∀ v, (admitReq t r).2 = v → v ≠ .seated →
      (admitReq t r).1 = t ∧
      callFn P f m_SeatThread__connect
          [encSeatThread0 (encSeatWorld p0 q (req :: c) out (encTable t) (tables.map encTable))]
        = .ok (.bool false, encSeatThread seat
            (encSeatWorld p0 q c (out ++ rejectOps (replyText r t v)) (encTable t) (tables.map encTable)) [])) ∧
    -- `seated`, and both `ready` messages pass: `True`, the seat written, `player` and `name` set
    ((admitReq t r).2 = .seated → ∀ (ready start : Str) (c' : List Str), c = ready :: start :: c' →
      passesCheck (seat.formal ++ " ready for teams".toList) ready →
      passesCheck (seat.formal ++ " ready to start".toList) start →
      (admitReq t r).1 = t.set seat team ∧
      callFn P f m_SeatThread__connect
          [encSeatThread0 (encSeatWorld p0 q (req :: c) out (encTable t) (tables.map encTable))]
        = .ok (.bool true, encSeatThread seat
            (encSeatWorld p0 q c' (out ++ seatedOps seat team (replyText r t .seated)
                (teamsMsg (optText ((tables.headD (admitReq t r).1) .N)) (optText ((tables.headD (admitReq t r).1) .E))))
              (encTable (tables.headD (admitReq t r).1)) (tables.tail.map encTable))
            [(K.name, .str (threadName seat team))])) := by
  intro r
  obtain ⟨M, rfl⟩ : ∃ M, f = M + 25 := ⟨f - 25, by omega⟩
  have hM : N ≤ M + 22 := by omega
  have hp : callF (mkRec P (M+21)) m_PlayerThread_parse_connection_info [.str req]
      = .ok (.tuple [.str team, encSeat seat, .int version], s') := hparse (M + 22) hM
  rcases admitReq_cases t r with ⟨hv, he⟩ | ⟨hv, x, hx, he⟩ | ⟨hv, hs, pt, hpt, hne, he⟩ | ⟨hv, hs, hpt, he⟩
  · refine ⟨fun v h1 _ => ?_, fun h => by rw [he] at h; cases h⟩
    rw [he] at h1 ⊢
    subst h1
    exact ⟨rfl, sb_connect_badVersion M p0 q c req out t _ team seat version s' hp hv⟩
  · have hv' : version = 18 := hv
    subst hv'
    refine ⟨fun v h1 _ => ?_, fun h => by rw [he] at h; cases h⟩
    rw [he] at h1 ⊢
    subst h1
    exact ⟨rfl, sb_connect_seatTaken M p0 q c req out t _ team seat s' x hp hx⟩
  · have hv' : version = 18 := hv
    subst hv'
    refine ⟨fun v h1 _ => ?_, fun h => by rw [he] at h; cases h⟩
    rw [he] at h1 ⊢
    subst h1
    exact ⟨rfl, sb_connect_teamMismatch M p0 q c req out t _ team seat s' pt hp hs hpt hne⟩
  · have hv' : version = 18 := hv
    subst hv'
    refine ⟨fun v h1 h2 => by rw [he] at h1; exact absurd h1.symm h2, fun _ ready start c' hc hr hst => ?_⟩
    subst hc
    rw [he]
    exact ⟨rfl, sb_connect_seated M p0 q c' req ready start out t tables team seat s' hp hs hpt hr hst⟩

/-- `_connect()` when the verdict is `seated` but a `ready` message does NOT pass (beyond the specification; these are the
remaining paths of the method).  (a) `ready for teams` fails: error, `close`, the verdict is signalled, `False` — the seat
stays written, as in `Admission.connectR`.  (b) `ready to start` fails (after the barrier): error, `close`, `False`. -/
theorem seat_connect_not_ready_translated (N f : Nat) (hf : N + 25 ≤ f) (p0 : Seat) (q c : List Str) (req ready : Str)
    (out : List Val) (t : Table) (tables : List Table) (team : Str) (seat : Seat) (version : Nat) (s' : Val)
    (hparse : ∀ g, N ≤ g → callFn P g m_PlayerThread_parse_connection_info [.str req]
      = .ok (.tuple [.str team, encSeat seat, .int version], s'))
    (hv : (admitReq t ⟨team, seat, version⟩).2 = .seated) :
    let r : Request := ⟨team, seat, version⟩
    (failsCheck (seat.formal ++ " ready for teams".toList) ready →
      callFn P f m_SeatThread__connect
          [encSeatThread0 (encSeatWorld p0 q (req :: ready :: c) out (encTable t) (tables.map encTable))]
        = .ok (.bool false, encSeatThread seat (encSeatWorld p0 q c (out ++ [.tuple [vstr "recv"],
            .tuple [vstr "table", encSeat seat, .str team], .tuple [vstr "send", .str (replyText r t .seated)],
            .tuple [vstr "recv"], .tuple [vstr "send", vstr "ERROR: Unexpected message received."],
            .tuple [vstr "close", .none], .tuple [vstr "event_set", .none]])
            (encTable (admitReq t r).1) (tables.map encTable)) [])) ∧
    (passesCheck (seat.formal ++ " ready for teams".toList) ready → ∀ (start : Str) (c' : List Str), c = start :: c' →
      failsCheck (seat.formal ++ " ready to start".toList) start →
      callFn P f m_SeatThread__connect
          [encSeatThread0 (encSeatWorld p0 q (req :: ready :: c) out (encTable t) (tables.map encTable))]
        = .ok (.bool false, encSeatThread seat (encSeatWorld p0 q c' (out ++ [.tuple [vstr "recv"],
            .tuple [vstr "table", encSeat seat, .str team], .tuple [vstr "send", .str (replyText r t .seated)],
            .tuple [vstr "recv"], .tuple [vstr "event_set", .none], .tuple [vstr "sync"],
            .tuple [vstr "send", .str (teamsMsg (optText ((tables.headD (admitReq t r).1) .N))
              (optText ((tables.headD (admitReq t r).1) .E)))],
            .tuple [vstr "recv"], .tuple [vstr "send", vstr "ERROR: Unexpected message received."],
            .tuple [vstr "close", .none]])
            (encTable (tables.headD (admitReq t r).1)) (tables.tail.map encTable)) [])) := by
  intro r
  obtain ⟨M, rfl⟩ : ∃ M, f = M + 25 := ⟨f - 25, by omega⟩
  have hp : callF (mkRec P (M+21)) m_PlayerThread_parse_connection_info [.str req]
      = .ok (.tuple [.str team, encSeat seat, .int version], s') := hparse (M + 22) (by omega)
  rcases admitReq_cases t r with ⟨_, he⟩ | ⟨_, x, _, he⟩ | ⟨_, _, pt, _, _, he⟩ | ⟨hv', hs, hpt, he⟩
  · rw [he] at hv; cases hv
  · rw [he] at hv; cases hv
  · rw [he] at hv; cases hv
  · have hv'' : version = 18 := hv'
    subst hv''
    rw [he]
    refine ⟨fun hr => sb_connect_seated_notReady M p0 q c req ready out t _ team seat s' hp hs hpt hr,
      fun hr start c' hc hst => ?_⟩
    subst hc
    exact sb_connect_seated_notStart M p0 q c' req ready start out t tables team seat s' hp hs hpt hr hst

/-- an operation of `Admission.connectR` as the world records it -/
def encAdmOp : Admission.Op → Val
  | .recv => .tuple [vstr "recv"]
  | .send t => .tuple [vstr "send", .str t]
  | .close => .tuple [vstr "close", .none]
  | .signal => .tuple [vstr "event_set", .none]

/-- the rejecting `_connect` performs exactly the operations of `Admission.connectR` — when the MODEL's parser
`parseConnect?` reads the request as the translated one does (hypothesis `hmodel`; the two parsers are not compared here) -/
theorem seat_connect_matches_connectR (N f : Nat) (hf : N + 25 ≤ f) (p0 : Seat) (q c : List Str) (req readyText : Str)
    (out : List Val) (t : Table) (tables : List Table) (team : Str) (seat : Seat) (version : Nat) (s' : Val)
    (hparse : ∀ g, N ≤ g → callFn P g m_PlayerThread_parse_connection_info [.str req]
      = .ok (.tuple [.str team, encSeat seat, .int version], s'))
    (hmodel : parseConnect? req = some (team, seat, version))
    (hv : (admitReq t ⟨team, seat, version⟩).2 ≠ .seated) :
    ∃ ops, Admission.connectR t req readyText = some (ops, t, false) ∧
      callFn P f m_SeatThread__connect
          [encSeatThread0 (encSeatWorld p0 q (req :: c) out (encTable t) (tables.map encTable))]
        = .ok (.bool false, encSeatThread seat
            (encSeatWorld p0 q c (out ++ ops.map encAdmOp) (encTable t) (tables.map encTable)) []) := by
  have h := (seat_connect_translated N f hf p0 q c req out t tables team seat version s' hparse).1 _ rfl hv
  refine ⟨.recv :: Admission.reject (replyText ⟨team, seat, version⟩ t (admitReq t ⟨team, seat, version⟩).2), ?_, h.2⟩
  unfold Admission.connectR
  rw [hmodel]
  have e : admitReq t ⟨team, seat, version⟩ = (t, (admitReq t ⟨team, seat, version⟩).2) := Prod.ext h.1 rfl
  generalize (admitReq t ⟨team, seat, version⟩).2 = v at hv e
  dsimp only
  rw [e]
  cases v with
  | seated => exact absurd rfl hv
  | badVersion => rfl
  | seatTaken => rfl
  | teamMismatch => rfl

/-! ### non-vacuity of (2): a closed instance -/

/-- an executable test for "the parser returned `(team, seat, version)`" -/
def isParse (x : R (Val × Val)) (team : Str) (seat : Seat) (version : Nat) : Bool :=
  match x with
  | .ok (.tuple [.str a, .enum c v, .int n], _) => a == team && c == n_Player && v == (seat.value : Int) && n == (version : Int)
  | _ => false

theorem isParse_sound {x : R (Val × Val)} {team : Str} {seat : Seat} {version : Nat}
    (h : isParse x team seat version = true) :
    ∃ s', x = .ok (.tuple [.str team, encSeat seat, .int version], s') := by
  unfold isParse at h
  split at h
  · rename_i a c v n s'
    simp only [Bool.and_eq_true, beq_iff_eq] at h
    obtain ⟨⟨⟨rfl, rfl⟩, rfl⟩, rfl⟩ := h
    exact ⟨s', rfl⟩
  · cases h

/-- the hypothesis `hparse` of `seat_connect_translated` from ONE run of the translated parser -/
theorem parse_all_fuels {N : Nat} {req team : Str} {seat : Seat} {version : Nat}
    (h : isParse (callFn P N m_PlayerThread_parse_connection_info [.str req]) team seat version = true) :
    ∃ s', ∀ g, N ≤ g → callFn P g m_PlayerThread_parse_connection_info [.str req]
      = .ok (.tuple [.str team, encSeat seat, .int version], s') := by
  obtain ⟨s', hs⟩ := isParse_sound h
  exact ⟨s', fun g hg => callFn_fuel_mono P hg _ _ _ hs (by simp)⟩

def exReq : Str := "Connecting \"Alpha\" as north using protocol version 18".toList
def exReqOld : Str := "Connecting \"Alpha\" as north using protocol version 17".toList
/-- South is seated for team Alpha, East for team Beta -/
def exTable : Table := fun p => match p with | .S => some "Alpha".toList | .E => some "Beta".toList | _ => none
/-- the table when all four are seated -/
def exFull : Table := fun p => match p with | .N | .S => some "Alpha".toList | _ => some "Beta".toList

/-- North joins South's team: seated; the thread ends with `player`, `name` set, the table is the snapshot after the
barrier, and the client is told the teams -/
example : ∀ f, 65 ≤ f →
    callFn P f m_SeatThread__connect
        [encSeatThread0 (encSeatWorld .N [] [exReq, "north ready for teams".toList, "NORTH  ready to start".toList] []
          (encTable exTable) ([exFull].map encTable))]
      = .ok (.bool true, encSeatThread .N
          (encSeatWorld .N [] [] ([] ++ seatedOps .N "Alpha".toList "North Alpha seated".toList
              "Teams : N/S : \"Alpha\" E/W : \"Beta\"".toList)
            (encTable exFull) []) [(K.name, .str "Thread-North-(Alpha)".toList)]) := by
  obtain ⟨s', hp⟩ := parse_all_fuels (N := 40) (req := exReq) (team := "Alpha".toList) (seat := .N) (version := 18)
    (by decide +kernel)
  intro f hf
  have h := (seat_connect_translated 40 f hf .N [] ["north ready for teams".toList, "NORTH  ready to start".toList]
    exReq [] exTable [exFull] _ .N 18 s' hp).2 (by decide +kernel)
    "north ready for teams".toList "NORTH  ready to start".toList [] rfl
    (passesCheck_of_isSome (by decide +kernel)) (passesCheck_of_isSome (by decide +kernel))
  have e1 : (admitReq exTable ⟨"Alpha".toList, .N, 18⟩).1 = exTable.set .N "Alpha".toList := h.1
  have e2 : [exFull].headD (admitReq exTable ⟨"Alpha".toList, .N, 18⟩).1 = exFull := rfl
  have e3 : replyText ⟨"Alpha".toList, .N, 18⟩ exTable .seated = "North Alpha seated".toList := by decide +kernel
  have e4 : teamsMsg (optText (exFull .N)) (optText (exFull .E)) = "Teams : N/S : \"Alpha\" E/W : \"Beta\"".toList := by
    decide +kernel
  have e5 : threadName .N "Alpha".toList = "Thread-North-(Alpha)".toList := by decide +kernel
  have h2 := h.2
  rw [e2, e3, e4, e5] at h2
  exact h2

/-- an old protocol version: rejected with `replyText … badVersion`, the table untouched -/
example : ∀ f, 65 ≤ f →
    callFn P f m_SeatThread__connect
        [encSeatThread0 (encSeatWorld .N [] [exReqOld] [] (encTable exTable) ([exFull].map encTable))]
      = .ok (.bool false, encSeatThread .N
          (encSeatWorld .N [] [] ([] ++ rejectOps "ERROR: Protocol version is not 18 but 17.".toList)
            (encTable exTable) ([exFull].map encTable)) []) := by
  obtain ⟨s', hp⟩ := parse_all_fuels (N := 40) (req := exReqOld) (team := "Alpha".toList) (seat := .N) (version := 17)
    (by decide +kernel)
  intro f hf
  have h := ((seat_connect_translated 40 f hf .N [] [] exReqOld [] exTable [exFull] _ .N 17 s' hp).1 .badVersion
    (by decide +kernel) (by decide)).2
  have e3 : replyText ⟨"Alpha".toList, .N, 17⟩ exTable .badVersion = "ERROR: Protocol version is not 18 but 17.".toList := by
    decide +kernel
  rw [e3] at h
  exact h

/-- the same rejection, as `Admission.connectR` performs it (the model's parser reads the request alike) -/
example : ∀ f, 65 ≤ f → ∃ ops, Admission.connectR exTable exReqOld [] = some (ops, exTable, false) ∧
    callFn P f m_SeatThread__connect
        [encSeatThread0 (encSeatWorld .N [] [exReqOld] [] (encTable exTable) ([exFull].map encTable))]
      = .ok (.bool false, encSeatThread .N
          (encSeatWorld .N [] [] ([] ++ ops.map encAdmOp) (encTable exTable) ([exFull].map encTable)) []) := by
  obtain ⟨s', hp⟩ := parse_all_fuels (N := 40) (req := exReqOld) (team := "Alpha".toList) (seat := .N) (version := 17)
    (by decide +kernel)
  intro f hf
  exact seat_connect_matches_connectR 40 f hf .N [] [] exReqOld [] [] exTable [exFull] _ .N 17 s' hp
    (by decide +kernel) (by decide +kernel)

/-- seated, but the client answers something else than `North ready for teams`: error, close, verdict, `False`; the seat
stays written -/
example : ∀ f, 65 ≤ f →
    callFn P f m_SeatThread__connect
        [encSeatThread0 (encSeatWorld .N [] [exReq, "hello".toList] [] (encTable exTable) ([exFull].map encTable))]
      = .ok (.bool false, encSeatThread .N (encSeatWorld .N [] [] ([] ++ [.tuple [vstr "recv"],
          .tuple [vstr "table", encSeat .N, .str "Alpha".toList],
          .tuple [vstr "send", .str (replyText ⟨"Alpha".toList, .N, 18⟩ exTable .seated)],
          .tuple [vstr "recv"], .tuple [vstr "send", vstr "ERROR: Unexpected message received."],
          .tuple [vstr "close", .none], .tuple [vstr "event_set", .none]])
          (encTable (admitReq exTable ⟨"Alpha".toList, .N, 18⟩).1) ([exFull].map encTable)) []) := by
  obtain ⟨s', hp⟩ := parse_all_fuels (N := 40) (req := exReq) (team := "Alpha".toList) (seat := .N) (version := 18)
    (by decide +kernel)
  intro f hf
  exact (seat_connect_not_ready_translated 40 f hf .N [] [] exReq "hello".toList [] exTable [exFull] _ .N 18 s' hp
    (by decide +kernel)).1 (by unfold failsCheck; decide +kernel)

/-! ## (3) `_playing_phase` -/

/-- ONE TURN of the outer loop `for trick_num in range(1, 14)` (its body `ppOuterBody`, cut out of the generated
`m_SeatThread__playing_phase`) in an environment that holds the thread, `declarer`, `dummy` and `trick_num = k`:
the leader's name is taken from the queue, then the inner loop `for i in range(4)` performs `seatTrickR p declarer
(k = 1) 0 leader` — under the hypothesis that the `ready` messages it consumes pass `_check_message` (`trickChecks`) -/
theorem seat_trick_translated (f : Nat) (hf : 26 ≤ f) (p declarer leader : Seat) (k : Nat) (env : Env)
    (i i1 i2 : SeatIn) (ln : Str) (t : SeatActs) (out : List Val) (table : Val) (tables : List Val)
    (extra : List (Id × Val))
    (hself : lookup env K.self = some (encSeatThread p (encSeatWorld p i.q i.c out table tables) extra))
    (hdecl : lookup env n_declarer = some (encSeat declarer))
    (hdummy : lookup env n_dummy = some (encSeat declarer.partner))
    (hk : lookup env n_trick_num = some (.int k))
    (hq : i.getQ = some (ln, i1)) (hl : seatOfFormal? ln = some leader)
    (ht : seatTrickR p declarer (decide (k = 1)) 0 leader i1 = some (t, i2))
    (hc : trickChecks p declarer k 4 0 leader i1) :
    ∃ env' ops, exec P f env ppOuterBody = .ok (env', .next) ∧
      encSeatActs p ([.recv (.m2t p)] ++ t) = some ops ∧
      lookup env' K.self = some (encSeatThread p (encSeatWorld p i2.q i2.c (out ++ ops) table tables) extra) ∧
      lookup env' n_declarer = some (encSeat declarer) ∧ lookup env' n_dummy = some (encSeat declarer.partner) := by
  obtain ⟨g, rfl⟩ : ∃ g, f = g + 26 := ⟨f - 26, by omega⟩
  obtain ⟨env', ops, h1, h2, h3⟩ :=
    sb_trick_turn g p declarer leader k env i i1 i2 ln t out table tables extra ⟨hself, hdecl, hdummy⟩ hk hq hl ht hc
  exact ⟨env', ops, h1, h2, h3.hself, h3.hdecl, h3.hdummy⟩

/-- `_playing_phase()` IS `seatPlayingR`: on queue stream `q` and connection stream `c`, if the reactive model performs
`acts` and leaves `q'`, `c'`, and every `ready` message consumed passes `_check_message` (`playingChecks`), the method
returns `True`, leaves the streams `q'`, `c'`, and has appended the rendering of `acts` to `out` -/
theorem seat_playing_translated (f : Nat) (hf : 28 ≤ f) (p : Seat) (q c q' c' : List Str) (acts : SeatActs)
    (out : List Val) (table : Val) (tables : List Val) (extra : List (Id × Val))
    (hm : seatPlayingR p ⟨q, c⟩ = some (acts, ⟨q', c'⟩)) (hc : playingChecks p ⟨q, c⟩) :
    ∃ ops, encSeatActs p acts = some ops ∧
      callFn P f m_SeatThread__playing_phase [encSeatThread p (encSeatWorld p q c out table tables) extra]
        = .ok (.bool true, encSeatThread p (encSeatWorld p q' c' (out ++ ops) table tables) extra) := by
  obtain ⟨g, rfl⟩ : ∃ g, f = g + 28 := ⟨f - 28, by omega⟩
  exact sb_playing_call g p ⟨q, c⟩ ⟨q', c'⟩ acts out table tables extra hm hc

/-- non-vacuity of `seat_trick_translated`: trick 2 of East's contract seen by North's thread, South leading — two
relays (South's card, dummy's card), North's own card, a relay: 1 + 3 + 3 + 2 + 3 = 12 operations -/
def exTrickEnv : Env :=
  [(K.self, encSeatThread .N (encSeatWorld .N
      ["South".toList, "South plays CK".toList, "West plays CQ".toList, "East plays CA".toList]
      ["North ready for South's card to trick 2".toList, "North ready for dummy's card to trick 2".toList,
       "North plays SA".toList, "North ready for East's card to trick 2".toList] [] .none []) []),
   (n_declarer, encSeat .E), (n_dummy, encSeat .W), (n_trick_num, .int (2 : Nat))]

example : ∃ env' ops, exec P 26 exTrickEnv ppOuterBody = .ok (env', .next) ∧
    lookup env' K.self = some (encSeatThread .N (encSeatWorld .N [] [] ([] ++ ops) .none []) []) ∧ ops.length = 12 := by
  have h1 : ∃ t, seatTrickR .N .E (decide (2 = 1)) 0 .S
      ⟨["South plays CK".toList, "West plays CQ".toList, "East plays CA".toList],
       ["North ready for South's card to trick 2".toList, "North ready for dummy's card to trick 2".toList,
        "North plays SA".toList, "North ready for East's card to trick 2".toList]⟩ = some (t, ⟨[], []⟩) ∧
      (encSeatActs .N ([.recv (.m2t .N)] ++ t)).map List.length = some 12 := by
    have h : (match seatTrickR .N .E (decide (2 = 1)) 0 .S
        ⟨["South plays CK".toList, "West plays CQ".toList, "East plays CA".toList],
         ["North ready for South's card to trick 2".toList, "North ready for dummy's card to trick 2".toList,
          "North plays SA".toList, "North ready for East's card to trick 2".toList]⟩ with
        | some (t, ⟨[], []⟩) => (encSeatActs .N ([.recv (.m2t .N)] ++ t)).map List.length == some 12
        | _ => false) = true := by decide +kernel
    revert h
    cases seatTrickR .N .E (decide (2 = 1)) 0 .S _ with
    | none => intro h; cases h
    | some x =>
      obtain ⟨t, ⟨q', c'⟩⟩ := x
      intro h
      cases q' <;> cases c' <;> first | cases h | exact ⟨t, rfl, by simpa using h⟩
  obtain ⟨t, ht, hl⟩ := h1
  obtain ⟨env', ops, hx, ho, hs, _, _⟩ := seat_trick_translated 26 (Nat.le_refl _) .N .E .S 2 exTrickEnv
    ⟨["South".toList, "South plays CK".toList, "West plays CQ".toList, "East plays CA".toList],
     ["North ready for South's card to trick 2".toList, "North ready for dummy's card to trick 2".toList,
      "North plays SA".toList, "North ready for East's card to trick 2".toList]⟩ _ ⟨[], []⟩ "South".toList t [] .none [] []
    rfl rfl rfl rfl rfl (by decide +kernel) ht (trickChecksB_sound _ _ _ _ _ _ _ (by decide +kernel))
  refine ⟨env', ops, hx, hs, ?_⟩
  rw [ho] at hl
  simpa using hl

/-! ### non-vacuity of (3): a whole play of thirteen tricks, North defending against East's contract -/

/-- North's queue: the declarer's name; per trick the leader's name (North leads every trick), dummy's hand after the
first card of the first trick, the three other cards -/
def exQ : List Text :=
  "East".toList :: (List.range 13).flatMap fun j =>
    "North".toList :: ((if j = 0 then ["Dummy's cards : S A. H -. D -. C -.".toList] else []) ++
      ["East plays CA".toList, "South plays CK".toList, "West plays CQ".toList])
/-- what North's client sends: its card, `ready for dummy` in the first trick, then the three `ready` messages (West is
dummy) — one of them in another letter case and with two spaces -/
def exC : List Text :=
  (List.range 13).flatMap fun j =>
    ["North plays SA".toList] ++ (if j = 0 then ["North ready for dummy".toList] else []) ++
      ["North ready for East's card to trick ".toList ++ natStr (j + 1),
       "north  READY for South's card to trick ".toList ++ natStr (j + 1),
       "North ready for dummy's card to trick ".toList ++ natStr (j + 1)]

/-- the hypotheses of `seat_playing_translated` hold for these streams (the model runs to the end; every `ready` message
passes the translated check), so the translated `_playing_phase` returns `True`, consumes both streams and records
1 + 13 + 13·(3 + 3·3) + 3 = 173 operations -/
example : ∀ f, 28 ≤ f → ∃ ops,
    callFn P f m_SeatThread__playing_phase [encSeatThread .N (encSeatWorld .N exQ exC [] .none []) []]
      = .ok (.bool true, encSeatThread .N (encSeatWorld .N [] [] ([] ++ ops) .none []) []) ∧ ops.length = 173 := by
  intro f hf
  have h1 : ∃ acts, seatPlayingR .N ⟨exQ, exC⟩ = some (acts, ⟨[], []⟩) ∧
      (encSeatActs .N acts).map List.length = some 173 := by
    have h : (match seatPlayingR .N ⟨exQ, exC⟩ with
        | some (acts, ⟨[], []⟩) => (encSeatActs .N acts).map List.length == some 173
        | _ => false) = true := by decide +kernel
    cases hs : seatPlayingR .N ⟨exQ, exC⟩ with
    | none => rw [hs] at h; cases h
    | some x =>
      obtain ⟨acts, ⟨q', c'⟩⟩ := x
      rw [hs] at h
      cases q' <;> cases c' <;> first | cases h | exact ⟨acts, rfl, by simpa using h⟩
  obtain ⟨acts, hm, hl⟩ := h1
  obtain ⟨ops, ho, hx⟩ := seat_playing_translated f hf .N exQ exC [] [] acts [] .none [] [] hm
    (playingChecksB_sound (by decide +kernel))
  refine ⟨ops, hx, ?_⟩
  rw [ho] at hl
  simpa using hl

end Bridge.Translated.SeatB
