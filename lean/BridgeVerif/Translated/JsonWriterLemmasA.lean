import BridgeVerif.Translated.HandsLemmasD
import BridgeVerif.Model.JsonLog
import BridgeVerif.Lemmas.MiniPyFuel
import BridgeVerif.Lemmas.MsgBid
/-! Translated JSON writers (json_handler/writer.py) = model: the encoders of the arguments, the values the code
builds (`dealVal`, `trickVal`, `ddaVal`, …) with their `valToJson`, `str(x)` of cards / calls / seats / suits /
vulnerabilities / contracts at an arbitrary (sufficient) fuel inside the union program `P`, `sorted(hand)` is the
model's `sortAsc`, the string comprehensions by induction -/
namespace Bridge.Translated
open Bridge Bridge.Py Bridge.Generated.PyCore

/-! ## encoders of the arguments -/

/-- the member NAME of a `Scoring` value (the translator makes a string-valued Enum a constant instance with `value`
and `name`) -/
def scoringName : Scoring → Str
  | .MP => "MP".toList | .MatchPoints => "MATCH_POINTS".toList | .IMP => "IMP".toList
  | .Cavendish => "CAVENDISH".toList | .Chicago => "CHICAGO".toList | .Rubber => "RUBBER".toList
  | .BAM => "BAM".toList | .Instant => "INSTANT".toList

def encScoring (s : Scoring) : Val := .obj n_Scoring [(K.value, .str s.value), (K.name, .str (scoringName s))]

/-- a row `Dict[Suit, int]` of a double-dummy table, in insertion order -/
def jwEncDdaRow (row : List (Suit × Int)) : Val := .dict (row.map fun sv => (encSuit sv.1, .int sv.2))
/-- `Dict[Player, Dict[Suit, int]]`, in insertion order -/
def jwEncDda (d : Dda) : Val := .dict (d.map fun pr => (encSeat pr.1, jwEncDdaRow pr.2))

/-- a `PlayingHistory` instance whose `history` property gives the tricks `ts` (oldest first, as Python appends
them): `encHistory c ts.reverse` of PlayLemmasA.lean -/
def encPlayingHistory (c : Contract) (ts : List Trick) : Val :=
  .obj n_PlayingHistory [(n__history, .tuple (ts.map encTrick)), (n__contract, encContract c)]

theorem jw_encPlayingHistory_eq (c : Contract) (ts : List Trick) : encPlayingHistory c ts = encHistory c ts.reverse := by
  simp only [encPlayingHistory, encHistory, List.reverse_reverse]

/-- `{Pair.NS: ns, Pair.EW: ew}` -/
def jwEncScores (ns ew : Int) : Val := .dict [(encSide .NS, .int ns), (encSide .EW, .int ew)]
/-- the same dictionary built in the other order -/
def jwEncScoresRev (ns ew : Int) : Val := .dict [(encSide .EW, .int ew), (encSide .NS, .int ns)]

/-- the 14 arguments of `JsonLogWriter.write` after `self`, in parameter order, with the given `scores` value -/
def logArgsWith (scores : Val) (e : LogEntry) : List Val :=
  [.str e.boardId, .str e.west, .str e.north, .str e.east, .str e.south, encSeat e.dealer, encHands e.deal,
   encScoring e.scoring, .tuple (e.bids.map encCall), encContract e.contract,
   encOpt (encPlayingHistory e.contract) e.play, encOpt Val.int e.tricks, scores, encOpt jwEncDda e.dda]

def logArgs (e : LogEntry) : List Val := logArgsWith (jwEncScores e.scoreNS e.scoreEW) e

/-- the 5 arguments of `JsonBoardSettingWriter.write` after `self` -/
def settingArgs (e : SettingEntry) : List Val :=
  [.str e.boardId, encSeat e.dealer, encHands e.deal, encVul e.vul, encOpt jwEncDda e.dda]

/-- the synthetic file object: the chunks written so far -/
def encFile (chunks : List Str) : Val := .obj n__File [(n_buf, .tuple (chunks.map Val.str))]

/-- a writer instance of class `cls` (attributes in the order `JsonWriter.__init__` assigns them) -/
def encWriter (cls : Id) (chunks : List Str) (isOpen first : Bool) : Val :=
  .obj cls [(n__writer, encFile chunks), (n__open, .bool isOpen), (n__first_line, .bool first)]

/-! ## the values the code builds, and what `json.dumps` sees of them -/
def strList (l : List Str) : Val := .tuple (l.map Val.str)

/-- the dict `convert_deal` returns -/
def dealVal (h : Hands) : Val :=
  .dict [(.str ['N'], strList (dealToJson h .N)), (.str ['E'], strList (dealToJson h .E)),
         (.str ['S'], strList (dealToJson h .S)), (.str ['W'], strList (dealToJson h .W))]

def ddaRowVal (row : List (Suit × Int)) : Val := .dict (row.map fun sv => (.str sv.1.name, .int sv.2))
def ddaVal (d : Dda) : Val := .dict (d.map fun pr => (.str pr.1.name, ddaRowVal pr.2))

def trickVal (t : Trick) : Val :=
  .dict [(.str (jkey "leader"), .str t.leader.name), (.str (jkey "cards"), strList (t.cards.map cardStr))]

theorem jw_valsToJson_strs (l : List Str) : valsToJson (l.map Val.str) = some (l.map jstr) := by
  induction l with
  | nil => rfl
  | cons a l ih => simp only [List.map_cons, valsToJson, valToJson, ih, jstr]

theorem jw_strList_json (l : List Str) : valToJson (strList l) = some (.arr (l.map jstr)) := by
  simp only [strList, valToJson, jw_valsToJson_strs, Option.map]

theorem jw_dealVal_json (h : Hands) : valToJson (dealVal h) = some (dealJson h) := by
  simp only [dealVal, valToJson, kvsToJson, jw_strList_json, Option.map, dealJson, jkey]
  rfl

theorem jw_ddaRow_kvs (row : List (Suit × Int)) :
    kvsToJson (row.map fun sv => (Val.str sv.1.name, Val.int sv.2)) = some (row.map fun sv => (sv.1.name, Json.int sv.2)) := by
  induction row with
  | nil => rfl
  | cons a l ih => simp only [List.map_cons, kvsToJson, valToJson, ih]

theorem jw_dda_kvs (d : Dda) :
    kvsToJson (d.map fun pr => (Val.str pr.1.name, ddaRowVal pr.2))
      = some (d.map fun pr => (pr.1.name, Json.obj (pr.2.map fun sv => (sv.1.name, Json.int sv.2)))) := by
  induction d with
  | nil => rfl
  | cons a l ih =>
    simp only [ddaRowVal] at ih
    simp only [List.map_cons, kvsToJson, valToJson, ddaRowVal, jw_ddaRow_kvs, Option.map, ih]

theorem jw_ddaVal_json (d : Dda) : valToJson (ddaVal d) = some (ddaJson d) := by
  simp only [ddaVal, valToJson, jw_dda_kvs, Option.map, ddaJson]

theorem jw_trickVal_json (t : Trick) : valToJson (trickVal t) = some (trickJson t) := by
  simp only [trickVal, valToJson, kvsToJson, jw_strList_json, Option.map, trickJson, jstr, List.map_map]
  rfl

theorem jw_tricks_json (ts : List Trick) : valsToJson (ts.map trickVal) = some (ts.map trickJson) := by
  induction ts with
  | nil => rfl
  | cons a l ih => simp only [List.map_cons, valsToJson, jw_trickVal_json, ih]

/-! ## `sorted(hand)` is the model's `sortAsc` -/
theorem jw_idx_inj (a b : Card) (ha : 2 ≤ a.rank ∧ a.rank ≤ 14) (hb : 2 ≤ b.rank ∧ b.rank ≤ 14) (h : a.idx = b.idx) :
    a = b := by
  obtain ⟨ra, sa⟩ := a; obtain ⟨rb, sb⟩ := b
  simp only [Card.idx] at h
  simp only at ha hb
  have hv : sa.value = sb.value ∧ ra = rb := by
    have h1 : 1 ≤ sa.value ∧ sa.value ≤ 5 := by cases sa <;> decide
    have h2 : 1 ≤ sb.value ∧ sb.value ≤ 5 := by cases sb <;> decide
    omega
  rw [(suit_value_inj sa sb).1 hv.1, hv.2]

/-- the interpreter's insertion (`x` before the first STRICTLY larger) in the naturals -/
theorem jw_insAscZ_eq (x : Card) (l : List Card) (hx : 2 ≤ x.rank ∧ x.rank ≤ 14) (hl : ∀ c ∈ l, 2 ≤ c.rank ∧ c.rank ≤ 14)
    (hs : l.Pairwise fun a b => a.idx ≤ b.idx) : insAscZ x l = insertAsc x l := by
  induction l with
  | nil => rfl
  | cons y ys ih =>
    have hy := hl y (List.mem_cons_self ..)
    have hs' := List.pairwise_cons.1 hs
    have ih := ih (fun c hc => hl c (List.mem_cons_of_mem _ hc)) hs'.2
    simp only [insAscZ, insertAsc, hd_idxZ x hx.1, hd_idxZ y hy.1, Int.ofNat_lt]
    by_cases h1 : x.idx < y.idx
    · have : x.idx ≤ y.idx := by omega
      simp only [h1, this, if_true]
    · by_cases h2 : x.idx = y.idx
      · have hxy := jw_idx_inj x y hx hy h2
        subst hxy
        simp only [Nat.lt_irrefl, if_false, Nat.le_refl, if_true, ih]
        cases ys with
        | nil => rfl
        | cons z zs =>
          have := hs'.1 z (List.mem_cons_self ..)
          simp only [insertAsc, this, if_true]
      · have : ¬ x.idx ≤ y.idx := by omega
        simp only [h1, this, if_false, ih]

theorem jw_sortAscZ_eq (l : List Card) (hl : ∀ c ∈ l, 2 ≤ c.rank ∧ c.rank ≤ 14) : sortAscZ l = sortAsc l := by
  induction l with
  | nil => rfl
  | cons x xs ih =>
    have ih := ih fun c hc => hl c (List.mem_cons_of_mem _ hc)
    show insAscZ x (sortAscZ xs) = insertAsc x (sortAsc xs)
    rw [ih]
    exact jw_insAscZ_eq x _ (hl x (List.mem_cons_self ..))
      (fun c hc => hl c (List.mem_cons_of_mem _ ((sortAsc_perm xs).mem_iff.1 hc))) (sortAsc_sorted xs)

theorem jw_sorted_cards (f : Nat) (l : List Card) (hl : ∀ c ∈ l, 2 ≤ c.rank ∧ c.rank ≤ 14) :
    builtinF (mkRec P (f+21)) P .sorted [.tuple (l.map encCard)] = .ok (.tuple ((sortAsc l).map encCard)) := by
  simp only [builtinF, iterItems, hd_sortF, bind_ok, pure_eq, jw_sortAscZ_eq l hl]

/-! ## `str(x)` -/
/-- `str(v)` of an Enum member / an instance is the result of its `__str__` -/
theorem jw_builtin_str_enum (f : Nat) (c : Id) (n : Int) (cm : Id) (fd : FuncDef)
    (hm : P.method? classDepth c K.str__ = some (cm, fd)) (s : Str) (s' : Val)
    (h : callF (mkRec P f) fd [.enum c n] = .ok (.str s, s')) :
    builtinF (mkRec P (f+1)) P .str [.enum c n] = .ok (.str s) := by
  simp only [builtinF, strOfF, callMethod, hm, call_succ, h]; rfl
theorem jw_builtin_str_obj (f : Nat) (c : Id) (fs : List (Id × Val)) (cm : Id) (fd : FuncDef)
    (hm : P.method? classDepth c K.str__ = some (cm, fd)) (s : Str) (s' : Val)
    (h : callF (mkRec P f) fd [.obj c fs] = .ok (.str s, s')) :
    builtinF (mkRec P (f+1)) P .str [.obj c fs] = .ok (.str s) := by
  simp only [builtinF, strOfF, callMethod, hm, call_succ, h]; rfl

theorem jw_suit_name (r : Rec) (s : Suit) : getAttrF r P (encSuit s) K.name = .ok (.str s.name) := by
  cases s <;> rfl

theorem jw_mth_card_str : P.method? classDepth n_Card K.str__ = some (n_Card, m_Card___str__) := rfl

theorem jw_intStr_digit (r : Nat) (h : r < 10) : intStr (r : Int) = [Char.ofNat (48 + r)] := by
  have : r = 0 ∨ r = 1 ∨ r = 2 ∨ r = 3 ∨ r = 4 ∨ r = 5 ∨ r = 6 ∨ r = 7 ∨ r = 8 ∨ r = 9 := by omega
  rcases this with rfl | rfl | rfl | rfl | rfl | rfl | rfl | rfl | rfl | rfl <;> rfl

theorem jw_card_str_call (f : Nat) (c : Card) (h1 : 2 ≤ c.rank) (h2 : c.rank ≤ 14) :
    callF (mkRec P (f+10)) m_Card___str__ [encCard c] = .ok (.str (cardStr c), encCard c) := by
  rw [callF_def]
  obtain ⟨r, s⟩ := c
  simp only at h1 h2
  simp only [m_Card___str__, bindParams, Option.map, encCard, cardStr]
  have : r = 2 ∨ r = 3 ∨ r = 4 ∨ r = 5 ∨ r = 6 ∨ r = 7 ∨ r = 8 ∨ r = 9 ∨ r = 10 ∨ r = 11 ∨ r = 12 ∨ r = 13 ∨ r = 14 := by
    omega
  rcases this with rfl | rfl | rfl | rfl | rfl | rfl | rfl | rfl | rfl | rfl | rfl | rfl | rfl <;>
    ppsimp [beq_int, builtinF, strOfF, jw_suit_name] <;> rfl

/-- `str(card)` for a card of rank 2..14 (any suit) -/
theorem jw_str_card (f : Nat) (c : Card) (h : 2 ≤ c.rank ∧ c.rank ≤ 14) :
    builtinF (mkRec P (f+11)) P .str [encCard c] = .ok (.str (cardStr c)) := by
  exact jw_builtin_str_obj (f+10) _ _ _ _ jw_mth_card_str _ _ (jw_card_str_call f c h.1 h.2)

theorem jw_str_seat (f : Nat) (p : Seat) : builtinF (mkRec P (f+6)) P .str [encSeat p] = .ok (.str p.name) := by
  cases p <;> rfl
theorem jw_str_suit (f : Nat) (s : Suit) : builtinF (mkRec P (f+6)) P .str [encSuit s] = .ok (.str s.name) := by
  cases s <;> rfl
theorem jw_mth_vul_str : P.method? classDepth n_Vul K.str__ = some (n_Vul, m_Vul___str__) := rfl
theorem jw_vul_name (r : Rec) (v : Vul) :
    getAttrF r P (encVul v) K.name = .ok (.str (match v with
      | .none => "NONE".toList | .ns => "NS".toList | .ew => "EW".toList | .both => "BOTH".toList)) := by
  cases v <;> rfl
theorem jw_vul_str_call (f : Nat) (v : Vul) :
    callF (mkRec P (f+10)) m_Vul___str__ [encVul v] = .ok (.str (vulStr v), encVul v) := by
  rw [callF_def]
  simp only [m_Vul___str__, bindParams, Option.map]
  cases v <;> ppsimp [encVul, Vul.value, beq_int, jw_vul_name] <;> rfl
theorem jw_str_vul (f : Nat) (v : Vul) : builtinF (mkRec P (f+11)) P .str [encVul v] = .ok (.str (vulStr v)) :=
  jw_builtin_str_enum (f+10) _ _ _ _ jw_mth_vul_str _ _ (jw_vul_str_call f v)
/-- `str(contract.declarer)` : `'None'` when there is none -/
theorem jw_str_optSeat (f : Nat) (o : Option Seat) :
    builtinF (mkRec P (f+6)) P .str [encOpt encSeat o] = .ok (.str (seatOptStr o)) := by
  cases o with
  | none => rfl
  | some p => exact jw_str_seat f p

/-! `str(bid)`: kernel evaluation on the 38 members at a fixed fuel, moved to any larger fuel by `mkRec_mono` -/
def strIs (r : R (Val × Val)) (s : Str) : Bool :=
  match r with
  | .ok (.str t, _) => t == s
  | _ => false

theorem jw_bid_str_at_20 : ∀ c ∈ Call.all, strIs (callFn P 20 m_Bid___str__ [encCall c]) (callStr c) = true := by
  decide +kernel

theorem jw_mth_bid_str : P.method? classDepth n_Bid K.str__ = some (n_Bid, m_Bid___str__) := rfl

theorem jw_bid_str_call (f : Nat) (c : Call) :
    ∃ s', callF (mkRec P (f+20)) m_Bid___str__ [encCall c] = .ok (.str (callStr c), s') := by
  have h := jw_bid_str_at_20 c (call_mem_all c)
  cases hr : callFn P 20 m_Bid___str__ [encCall c] with
  | error e => rw [hr] at h; simp [strIs] at h
  | ok p =>
    obtain ⟨v, s'⟩ := p
    rw [hr] at h
    cases v <;> simp [strIs] at h
    subst h
    exact ⟨s', callFn_fuel_mono P (show 20 ≤ f + 21 by omega) _ _ _ hr (by simp)⟩

theorem jw_str_call (f : Nat) (c : Call) :
    builtinF (mkRec P (f+21)) P .str [encCall c] = .ok (.str (callStr c)) := by
  obtain ⟨s', h⟩ := jw_bid_str_call f c
  exact jw_builtin_str_enum (f+20) _ _ _ _ jw_mth_bid_str _ _ h

/-! ## the string comprehensions -/
theorem jw_comp_str_cards (f : Nat) (env : Env) (l : List Card) (hl : ∀ c ∈ l, 2 ≤ c.rank ∧ c.rank ≤ 14) :
    compF (mkRec P (f+14)) env n_card none (.builtin .str [(.var n_card)]) (l.map encCard)
      = .ok ((l.map cardStr).map Val.str) := by
  induction l with
  | nil => rfl
  | cons c l ih =>
    have hc := hl c (List.mem_cons_self ..)
    simp only [List.map_cons, compF, ih fun d hd => hl d (List.mem_cons_of_mem _ hd)]
    ppsimp [jw_str_card _ c hc]

theorem jw_comp_str_bids (f : Nat) (env : Env) (l : List Call) :
    compF (mkRec P (f+24)) env n_bid none (.builtin .str [(.var n_bid)]) (l.map encCall)
      = .ok ((l.map callStr).map Val.str) := by
  induction l with
  | nil => rfl
  | cons c l ih =>
    simp only [List.map_cons, compF, ih]
    ppsimp [jw_str_call]

end Bridge.Translated
