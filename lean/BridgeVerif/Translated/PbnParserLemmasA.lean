import BridgeVerif.Translated.JsonParserLemmasH
import BridgeVerif.Translated.PbnWriterLemmasA
import BridgeVerif.Lemmas.RegexPbnFacts
/-! Translated PBN parser (pbn_handler/parser.py) = model: encodings, method look-ups, the class-attribute patterns,
the string builtins of `extract_content` against the model's scanners (`find2`, `splitAtChar`) -/
namespace Bridge.Translated
open Bridge Bridge.Py Bridge.Generated.PyCore Bridge.RegexPbn

/-- the `PbnParser` instance (fields in the order `__init__` creates them); `tag_pair_buffer` oldest first -/
def encPbnParser (st : PbnSt) (commentList commentBuffer : List Str) : Val :=
  .obj n_PbnParser [(n__in_comment, .bool st.inComment), (n_tag_pair_buffer, .tuple (st.buffer.reverse.map Val.str)),
    (n_comment_list, .tuple (commentList.map Val.str)), (n_comment_buffer, .tuple (commentBuffer.map Val.str))]

/-- a game: the `dict` tag name ↦ value, in insertion order -/
def encGame (g : Game) : Val := .dict (g.map fun kv => (.str kv.1, .str kv.2))

/-! ## methods -/
theorem pp_mth_init : P.method? classDepth n_PbnParser K.init = some (n_PbnParser, m_PbnParser___init__) := rfl
theorem pp_mth_extract : P.method? classDepth n_PbnParser n_extract_content = some (n_PbnParser, m_PbnParser_extract_content) := rfl
theorem pp_mth_board : P.method? classDepth n_PbnParser n_parse_board = some (n_PbnParser, m_PbnParser_parse_board) := rfl
theorem pp_mth_stream : P.method? classDepth n_PbnParser n_parse_stream = some (n_PbnParser, m_PbnParser_parse_stream) := rfl
theorem pp_mth_all : P.method? classDepth n_PbnParser n_parse_all = some (n_PbnParser, m_PbnParser_parse_all) := rfl
theorem pp_mth_tag : P.method? classDepth n_PbnParser n_TAG_PATTERN = some (n_PbnParser, m_PbnParser_TAG_PATTERN) := rfl
theorem pp_mth_replace : P.method? classDepth n_PbnParser n_REPLACE_PATTERN = some (n_PbnParser, m_PbnParser_REPLACE_PATTERN) := rfl
theorem pp_mth_vos : P.method? classDepth n_PbnParser n__VALUE_OR_SPACE_PATTERN
    = some (n_PbnParser, m_PbnParser__VALUE_OR_SPACE_PATTERN) := rfl
theorem pp_mth_ms_start : P.method? classDepth n__MatchS n_start = some (n__MatchS, m__MatchS_start) := rfl
theorem pp_mth_ms_end : P.method? classDepth n__MatchS n_end = some (n__MatchS, m__MatchS_end) := rfl
theorem pp_mth_m_group : P.method? classDepth n__Match n_group = some (n__Match, m__Match_group) := rfl

/-- the class attributes (translated as properties) return the pattern texts of `Lemmas/RegexPbnFacts.lean` -/
theorem pp_tag_call (f : Nat) (v : Val) : callF (mkRec P (f+4)) m_PbnParser_TAG_PATTERN [v] = .ok (.str TAG_PATTERN, v) := rfl
theorem pp_replace_call (f : Nat) (v : Val) :
    callF (mkRec P (f+4)) m_PbnParser_REPLACE_PATTERN [v] = .ok (.str REPLACE_PATTERN, v) := rfl
theorem pp_vos_call (f : Nat) (v : Val) :
    callF (mkRec P (f+4)) m_PbnParser__VALUE_OR_SPACE_PATTERN [v] = .ok (.str VALUE_OR_SPACE_PATTERN, v) := rfl

/-- `m.start()`, `m.end()` of the `_MatchS` object `re.search` returns -/
theorem pp_ms_start_call (f : Nat) (t : Val) (a b : Int) :
    callF (mkRec P (f+6)) m__MatchS_start [.obj n__MatchS [(n_texts, t), (n_span, .tuple [.int a, .int b])]]
      = .ok (.int a, .obj n__MatchS [(n_texts, t), (n_span, .tuple [.int a, .int b])]) := rfl
theorem pp_ms_end_call (f : Nat) (t : Val) (a b : Int) :
    callF (mkRec P (f+6)) m__MatchS_end [.obj n__MatchS [(n_texts, t), (n_span, .tuple [.int a, .int b])]]
      = .ok (.int b, .obj n__MatchS [(n_texts, t), (n_span, .tuple [.int a, .int b])]) := rfl

/-! ## constructor -/
theorem pp_construct (f : Nat) : constructF (mkRec P (f+8)) P n_PbnParser [] = .ok (encPbnParser {} [] []) := rfl

/-! ## `find`, `split(sep, 1)`, `in` against the model -/
theorem pp_findFrom2 (a b : Char) : ∀ (s : Str) (i : Nat), findFrom [a, b] i s = find2 a b s i := by
  intro s
  induction s with
  | nil => intro i; rfl
  | cons x r ih =>
    intro i
    cases r with
    | nil =>
      simp only [findFrom, isPrefixC, find2, Bool.and_false, Bool.false_eq_true, if_false, List.isEmpty_cons]
    | cons y r' =>
      rw [findFrom, find2, ih (i + 1)]
      simp only [isPrefixC, Bool.and_true, Bool.and_eq_true, beq_iff_eq]
      by_cases h : x = a ∧ y = b
      · rw [if_pos h, if_pos ⟨h.1.symm, h.2.symm⟩]
      · rw [if_neg h, if_neg (fun hh => h ⟨hh.1.symm, hh.2.symm⟩)]

theorem pp_find2_bound (a b : Char) : ∀ (s : Str) (i k : Nat), find2 a b s i = some k → i ≤ k ∧ k + 2 ≤ i + s.length := by
  intro s
  induction s with
  | nil => intro i k h; cases h
  | cons x r ih =>
    intro i k h
    cases r with
    | nil => cases h
    | cons y r' =>
      rw [find2] at h
      split at h
      · cases h; simp only [List.length_cons]; omega
      · have := ih (i + 1) k h; simp only [List.length_cons] at this ⊢; omega

theorem pp_findFrom1 (c : Char) : ∀ (s : Str) (i : Nat),
    findFrom [c] i s = (splitAtChar c s).map fun ab => i + ab.1.length := by
  intro s
  induction s with
  | nil => intro i; rfl
  | cons x r ih =>
    intro i
    rw [findFrom, splitAtChar, ih (i + 1)]
    simp only [isPrefixC, Bool.and_true, beq_iff_eq]
    by_cases h : x = c
    · rw [if_pos h.symm, if_pos h]; rfl
    · rw [if_neg (fun hh => h hh.symm), if_neg h]
      cases splitAtChar c r with
      | none => rfl
      | some ab => simp only [Option.map, List.length_cons]; congr 1; omega

theorem pp_splitAtChar_spec (c : Char) : ∀ (s a b : Str), splitAtChar c s = some (a, b) →
    s.take a.length = a ∧ s.drop (a.length + 1) = b ∧ a.length < s.length := by
  intro s
  induction s with
  | nil => intro a b h; cases h
  | cons x r ih =>
    intro a b h
    rw [splitAtChar] at h
    split at h
    · cases h; simp
    · cases hr : splitAtChar c r with
      | none => rw [hr] at h; cases h
      | some ab =>
        obtain ⟨a', b'⟩ := ab
        rw [hr] at h
        simp only [Option.map, Option.some.injEq, Prod.mk.injEq] at h
        have := ih a' b' hr
        obtain ⟨rfl, rfl⟩ := h
        simp only [List.length_cons, List.take_succ_cons, List.drop_succ_cons, this.1, this.2.1, true_and]
        omega

theorem pp_infix1 (c : Char) : ∀ s : Str, isInfixC [c] s = (splitAtChar c s).isSome := by
  intro s
  induction s with
  | nil => rfl
  | cons x r ih =>
    rw [isInfixC, splitAtChar, ih]
    simp only [isPrefixC, Bool.and_true]
    by_cases h : x = c
    · subst h; simp
    · rw [if_neg h]
      have : (c == x) = false := by simp; exact fun hh => h hh.symm
      rw [this]
      cases splitAtChar c r <;> rfl

/-! ## slices -/
theorem pp_slice_to (s : Str) (b : Nat) : sliceList s none (some ((b : Nat) : Int)) = s.take b := by
  simp only [sliceList, clampIndex, List.drop_zero, Nat.sub_zero]
  rw [if_pos (Int.natCast_nonneg b), Int.toNat_natCast]
  by_cases h : b ≤ s.length
  · rw [Nat.min_eq_left h]
  · rw [Nat.min_eq_right (by omega), List.take_of_length_le (Nat.le_refl _), List.take_of_length_le (by omega)]

theorem pp_slice_from (s : Str) (b : Nat) : sliceList s (some ((b : Nat) : Int)) none = s.drop b := by
  simp only [sliceList, clampIndex]
  rw [if_pos (Int.natCast_nonneg b), Int.toNat_natCast]
  rw [List.take_of_length_le (by simp only [List.length_drop]; omega)]
  by_cases h : b ≤ s.length
  · rw [Nat.min_eq_left h]
  · rw [Nat.min_eq_right (by omega), List.drop_of_length_le (Nat.le_refl _), List.drop_of_length_le (by omega)]

theorem pp_intercalate_nil (l : List Str) : List.intercalate [] l = l.flatten := by
  induction l with
  | nil => rfl
  | cons a l ih =>
    cases l with
    | nil => simp [List.intercalate]
    | cons b l => simpa [List.intercalate] using ih

theorem pp_strsOf_map (l : List Str) : strsOf (l.map Val.str) = some l := by
  have := hd_strsOf_map (fun a : Str => a) l
  simpa using this

/-- `''.join(xs)` for a list of strings -/
theorem pp_join (r : Rec) (l : List Str) : builtinF r P .join [.str [], .tuple (l.map Val.str)] = .ok (.str l.flatten) := by
  simp only [builtinF, iterItems, Option.bind, pp_strsOf_map, pp_intercalate_nil]; rfl

end Bridge.Translated
