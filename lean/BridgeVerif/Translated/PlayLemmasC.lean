import BridgeVerif.Translated.PlayLemmasB
/-! Translated playing phases = model: `available_cards` (a set comprehension), `current_available_cards`, `has_done`,
`__init__` -/
namespace Bridge.Translated
open Bridge Bridge.Py Bridge.Generated.PyCore

/-! ## `available_cards` -/
theorem mth_available_cards :
    P.method? classDepth n_PlayingPhase n_available_cards = some (n_PlayingPhase, m_PlayingPhase_available_cards) := rfl

/-- `{card for card in hand if card.suit is suit}` -/
theorem comp_same_suit (f : Nat) (env : Env) (su : Suit) (hs : lookup env n_suit = some (encSuit su)) (l : List Card) :
    compF (mkRec P (f+5)) env n_card (some (.cmp .is (.attr (.var n_card) n_suit) (.var n_suit))) (.var n_card)
        (l.map encCard)
      = .ok ((l.filter fun c => decide (c.suit = su)).map encCard) := by
  induction l with
  | nil => rfl
  | cons c l ih =>
    simp only [List.map_cons, compF, ih]
    by_cases h : c.suit = su
    · ppsimp [hs, h, List.filter_cons, List.map_cons]
    · ppsimp [hs, h, List.filter_cons, List.map_cons]

theorem len_cards (r : Rec) (l : List Card) : builtinF r P .len [.tuple (l.map encCard)] = .ok (.int l.length) := by
  simp only [builtinF, List.length_map]; rfl

theorem len_tuple (r : Rec) (xs : List Val) : builtinF r P .len [.tuple xs] = .ok (.int xs.length) := rfl
theorem natCast_beq_zero (n : Nat) : ((n : Int) == 0) = decide (n = 0) := by
  rw [Bool.eq_iff_iff]; simp only [beq_iff_eq, decide_eq_true_eq, Int.natCast_eq_zero]

theorem available_cards_call (f : Nat) (hand : List Card) (first : Option Card) :
    callF (mkRec P (f+12)) m_PlayingPhase_available_cards [encCards hand, encOpt encCard first]
      = .ok (encCards (availableCards hand first), encCards hand) := by
  rw [callF_def]
  simp only [m_PlayingPhase_available_cards, bindParams, Option.map]
  cases first with
  | none => ppsimp [availableCards]
  | some fc =>
    ppsimp [availableCards, beq_encCard_none, encCards, iterItems_tuple]
    rw [comp_same_suit _ _ fc.suit rfl]
    generalize List.filter (fun c => decide (c.suit = fc.suit)) hand = fl
    by_cases h0 : fl.length = 0 <;> ppsimp [len_cards, beq_int, natCast_beq_zero, h0]

theorem available_cards_call_none (f : Nat) (hand : List Card) :
    callF (mkRec P (f+12)) m_PlayingPhase_available_cards [.tuple (hand.map encCard), .none]
      = .ok (.tuple ((availableCards hand none).map encCard), .tuple (hand.map encCard)) :=
  available_cards_call f hand none
theorem available_cards_call_some (f : Nat) (hand : List Card) (fc : Card) :
    callF (mkRec P (f+12)) m_PlayingPhase_available_cards [.tuple (hand.map encCard), encCard fc]
      = .ok (.tuple ((availableCards hand (some fc)).map encCard), .tuple (hand.map encCard)) :=
  available_cards_call f hand (some fc)

/-! ## `current_available_cards` (on an instance of `PlayingPhase` or of a subclass) -/
theorem normIndex_zero_succ (n : Nat) : normIndex (n+1) 0 = some 0 := by simp [normIndex]

theorem current_available_call (f : Nat) (k : Id) (ex : List (Id × Val)) (c : Contract) (s : PState) (hand : List Card) :
    callF (mkRec P (f+20)) m_PlayingPhase_current_available_cards [ppObj k c s ex, encCards hand]
      = .ok (encCards (s.currentAvailable hand), ppObj k c s ex) := by
  rw [callF_def]
  simp only [m_PlayingPhase_current_available_cards, bindParams, Option.map, ppObj, baseFields, PState.currentAvailable]
  cases s.trick with
  | nil =>
    ppsimp [encCards, len_cards, beq_int, mth_available_cards, available_cards_call_none, List.head?]
  | cons t ts =>
    ppsimp [encCards, len_tuple, beq_int, mth_available_cards, available_cards_call_some, List.head?, natCast_beq_zero,
      index_tuple, List.length_map, normIndex_zero_succ, List.map_cons, List.getD_cons_zero, Nat.add_one_ne_zero]

end Bridge.Translated
