import BridgeVerif.Translated.Enc
import BridgeVerif.Model.SeatThread
import BridgeVerif.Model.MainThread
import BridgeVerif.Model.ClientThread
import BridgeVerif.Model.Framing
/-!
# The TRANSLATED thread programs (Generated/PyCoreThreads.lean): encodings shared by the theorems about them

`harness/desugar_threads.py` re-writes the thread classes of `server.py` / `client.py` / `socket_interface.py` into
sequential code over ONE explicit world object (`_World`): every operation on a queue, a socket, the barrier, an event,
the log writer becomes a call on it — a send / put / emit APPENDS to `out`, a receive / get TAKES the next value from the
input streams `ins` (and raises `Blocked` when the stream is empty).  `harness/translate_py.py` turns that into MiniPy.

Here: the world as a MiniPy value, the thread objects, and the rendering of the reactive models' actions
(`Model/SeatThread.lean`, `Model/MainThread.lean`, `Model/ClientThread.lean`) as world operations — the vocabulary in
which `Translated/Threads*.lean` state that the translated thread IS the reactive model.
-/
namespace Bridge.Translated
open Bridge Bridge.Py Bridge.Generated.PyCore

abbrev Str := List Char

def vstr (s : String) : Val := .str s.toList
def vtexts (l : List Str) : Val := .tuple (l.map .str)

/-- the world object: `ins` (input streams by key), `out` (operations performed, oldest first), the seat table now and
its later snapshots, the end-of-stream flag of the byte socket.  Field order = `_World.__init__`. -/
def encWorld (ins : List (Val × Val)) (out : List Val) (table : Val) (tables : List Val) (eof : Bool) : Val :=
  .obj n__World [(n_ins, .dict ins), (n_out, .tuple out), (n_table, table), (n_tables, .tuple tables), (n_eof, .bool eof)]

/-! ## framing (class `Framing`, from `MessageInterface.send_message` / `receive_message`) -/

/-- the socket delivers single characters (`recv(1)`); `.encode('utf-8')` / `.decode('utf-8')` are the identity on text -/
def encByteWorld (cs : Str) (out : List Val) (eof : Bool) : Val :=
  encWorld [(vstr "bytes", .tuple (cs.map fun c => .str [c]))] out (.dict []) [] eof

def encFraming (w : Val) : Val := .obj n_Framing [(n__w, w)]

/-! ## the seat thread (class `SeatThread`, from `PlayerThread`) -/

/-- the key of queue `q` ("m2t" / "t2m") of seat `p` in `ins` -/
def qkey (q : String) (p : Seat) : Val := .tuple [vstr q, encSeat p]

/-- the seat thread's world: its queue `m2t p` and its connection -/
def encSeatWorld (p : Seat) (q c : List Str) (out : List Val) (table : Val) (tables : List Val) : Val :=
  encWorld [(qkey "m2t" p, vtexts q), (vstr "conn", vtexts c)] out table tables false

/-- a seat thread after `_connect` has set `self.player` (further attributes, e.g. `name`, in `extra`) -/
def encSeatThread (p : Seat) (w : Val) (extra : List (Id × Val)) : Val :=
  .obj n_SeatThread ((n__w, w) :: (n_player, encSeat p) :: extra)

/-- one action of the session / reactive models as the operations the world object records for the SEAT thread of `p`
(`none`: not an action of that thread).  A barrier wait is ONE world operation (`arrive`; `depart` adds nothing). -/
def encSeatAct (p : Seat) : SAct Text LogOp → Option (List Val)
  | .recv (.c2s q) => if q = p then some [.tuple [vstr "recv"]] else none
  | .send (.s2c q) m => if q = p then some [.tuple [vstr "send", .str m]] else none
  | .recv (.m2t q) => if q = p then some [.tuple [vstr "get", vstr "m2t", encSeat p]] else none
  | .send (.t2m q) m => if q = p then some [.tuple [vstr "put", vstr "t2m", encSeat p, .str m]] else none
  | .arrive => some [.tuple [vstr "sync"]]
  | .depart => some []
  | _ => none

def encSeatActs (p : Seat) : List (SAct Text LogOp) → Option (List Val)
  | [] => some []
  | a :: r => do
    let x ← encSeatAct p a
    let xs ← encSeatActs p r
    pure (x ++ xs)

/-! ## the main thread (class `MainThread`, from `Server`) -/

/-- main's world: the four queues `t2m p` -/
def encMainWorld (i : Seat → List Str) (out : List Val) (table : Val) (tables : List Val) (more : List (Val × Val)) : Val :=
  encWorld ([(qkey "t2m" .N, vtexts (i .N)), (qkey "t2m" .E, vtexts (i .E)), (qkey "t2m" .S, vtexts (i .S)),
             (qkey "t2m" .W, vtexts (i .W))] ++ more) out table tables false

def encMainThread (w : Val) (boardSettings : Val) : Val :=
  .obj n_MainThread [(n__w, w), (n_board_settings, boardSettings)]

/-- one action of the main thread as a world operation (`emit`s are the log writer's `open` / `write` / `close`; the record
handed to `write` is rendered by `encRec`) -/
def encMainAct (encRec : BoardRecord → Val) : SAct Text LogOp → Option (List Val)
  | .send (.m2t q) m => some [.tuple [vstr "put", vstr "m2t", encSeat q, .str m]]
  | .recv (.t2m q) => some [.tuple [vstr "get", vstr "t2m", encSeat q]]
  | .arrive => some [.tuple [vstr "sync"]]
  | .depart => some []
  | .emit .open => some [.tuple [vstr "emit", vstr "open", .none]]
  | .emit .close => some [.tuple [vstr "emit", vstr "close", .none]]
  | .emit (.write r) => some [.tuple [vstr "emit", vstr "write", encRec r]]
  | _ => none

def encMainActs (encRec : BoardRecord → Val) : List (SAct Text LogOp) → Option (List Val)
  | [] => some []
  | a :: r => do
    let x ← encMainAct encRec a
    let xs ← encMainActs encRec r
    pure (x ++ xs)

end Bridge.Translated
