import BridgeVerif.Translated.ThreadsSeatBLemmasF
/-! `playingChecks` & co. as executable tests (sound), so that closed instances can be decided by evaluation -/
namespace Bridge.Translated.SeatB
open Bridge Bridge.Py Bridge.Generated.PyCore

def passesB (e m : Str) : Bool := ((Re.pyFullmatch true (checkPattern e) m).bind id).isSome

theorem passesB_sound {e m : Str} (h : passesB e m = true) : passesCheck e m := by
  unfold passesCheck
  unfold passesB at h
  cases hx : Re.pyFullmatch true (checkPattern e) m with
  | none => rw [hx] at h; cases h
  | some o => cases o with
    | none => rw [hx] at h; cases h
    | some mo => exact ⟨mo, rfl⟩

def headPasses (e : Str) : List Text → Bool
  | m :: _ => passesB e m
  | [] => true

theorem headPasses_sound {e : Str} {l : List Text} (h : headPasses e l = true) :
    ∀ m r, l = m :: r → passesCheck e m := by
  intro m r hl
  subst hl
  exact passesB_sound h

def mainCheckB (p declarer active : Seat) (k : Nat) (i : SeatIn) : Bool :=
  decide (p = active ∧ p ≠ declarer.partner) || decide (p = declarer ∧ active = declarer.partner) ||
    headPasses (readyCardText p declarer active k) i.c

theorem mainCheckB_sound {p declarer active : Seat} {k : Nat} {i : SeatIn}
    (h : mainCheckB p declarer active k i = true) : mainCheck p declarer active k i := by
  unfold mainCheckB at h
  simp only [Bool.or_eq_true, decide_eq_true_eq] at h
  rcases h with (h | h) | h
  · exact Or.inl h
  · exact Or.inr (Or.inl h)
  · exact Or.inr (Or.inr (headPasses_sound h))

def openCheckB (p declarer : Seat) (k idx : Nat) (i : SeatIn) : Bool :=
  !(decide (k = 1 ∧ idx = 0 ∧ p ≠ declarer.partner)) || headPasses (readyDummyText p) i.c

theorem openCheckB_sound {p declarer : Seat} {k idx : Nat} {i : SeatIn}
    (h : openCheckB p declarer k idx i = true) : openCheck p declarer k idx i := by
  unfold openCheckB at h
  intro hc
  simp only [Bool.or_eq_true, Bool.not_eq_true', decide_eq_false_iff_not] at h
  rcases h with h | h
  · exact absurd hc h
  · exact headPasses_sound h

def trickChecksB (p declarer : Seat) (k : Nat) : Nat → Nat → Seat → SeatIn → Bool
  | 0, _, _, _ => true
  | n + 1, idx, active, i =>
    mainCheckB p declarer active k i &&
    (match cardMainR p declarer idx active i with
     | none => true
     | some (_, i1) =>
       openCheckB p declarer k idx i1 &&
       (match cardOpenR p declarer (decide (k = 1)) idx i1 with
        | none => true
        | some (_, i2) => trickChecksB p declarer k n (idx + 1) active.left i2))

theorem trickChecksB_sound (p declarer : Seat) (k : Nat) : ∀ (n idx : Nat) (active : Seat) (i : SeatIn),
    trickChecksB p declarer k n idx active i = true → trickChecks p declarer k n idx active i := by
  intro n
  induction n with
  | zero => intros; trivial
  | succ n ih =>
    intro idx active i h
    simp only [trickChecksB, Bool.and_eq_true] at h
    obtain ⟨h1, h2⟩ := h
    refine ⟨mainCheckB_sound h1, fun x i1 hm => ?_⟩
    rw [hm] at h2
    simp only [Bool.and_eq_true] at h2
    obtain ⟨h3, h4⟩ := h2
    refine ⟨openCheckB_sound h3, fun y i2 ho => ?_⟩
    rw [ho] at h4
    exact ih _ _ _ h4

def tricksChecksB (p declarer : Seat) : Nat → Nat → SeatIn → Bool
  | 0, _, _ => true
  | n + 1, k, i =>
    match i.getQ with
    | none => true
    | some (ln, i1) =>
      match seatOfFormal? ln with
      | none => true
      | some leader =>
        trickChecksB p declarer k 4 0 leader i1 &&
        (match seatTrickR p declarer (decide (k = 1)) 0 leader i1 with
         | none => true
         | some (_, i2) => tricksChecksB p declarer n (k + 1) i2)

theorem tricksChecksB_sound (p declarer : Seat) : ∀ (n k : Nat) (i : SeatIn),
    tricksChecksB p declarer n k i = true → tricksChecks p declarer n k i := by
  intro n
  induction n with
  | zero => intros; trivial
  | succ n ih =>
    intro k i h ln i1 leader hq hl
    simp only [tricksChecksB, hq, hl, Bool.and_eq_true] at h
    obtain ⟨h1, h2⟩ := h
    refine ⟨trickChecksB_sound p declarer k _ _ _ _ h1, fun t i2 ht => ?_⟩
    rw [ht] at h2
    exact ih _ _ h2

def playingChecksB (p : Seat) (i : SeatIn) : Bool :=
  match i.getQ with
  | none => true
  | some (dn, i1) =>
    match seatOfFormal? dn with
    | none => true
    | some declarer => tricksChecksB p declarer 13 1 i1

theorem playingChecksB_sound {p : Seat} {i : SeatIn} (h : playingChecksB p i = true) : playingChecks p i := by
  intro dn i1 declarer hq hd
  simp only [playingChecksB, hq, hd] at h
  exact tricksChecksB_sound p declarer _ _ _ h

end Bridge.Translated.SeatB
