import BridgeVerif.Translated.PlayLemmasH
import BridgeVerif.Lemmas.Deal
/-! Translated `Hands` (hands.py) = model: the encoder of the instance, `__getitem__`, `to_dict`, `int(card)`,
`to_binary` (the inner loop `for card in self[p]: binary[int(card)] = 1` by induction; the outer `for p in Player`
unrolled) -/
namespace Bridge.Translated
open Bridge Bridge.Py Bridge.Generated.PyCore

/-- the `Hands` instance -/
def encHands (h : Hands) : Val :=
  .obj n_Hands [(n_north, .tuple ((h .N).map encCard)), (n_east, .tuple ((h .E).map encCard)),
                (n_south, .tuple ((h .S).map encCard)), (n_west, .tuple ((h .W).map encCard))]

theorem hands_mth_getitem : P.method? classDepth n_Hands K.getitem__ = some (n_Hands, m_Hands___getitem__) := rfl

theorem hands_getitem_call (f : Nat) (h : Hands) (p : Seat) :
    callF (mkRec P (f+8)) m_Hands___getitem__ [encHands h, encSeat p]
      = .ok (.tuple ((h p).map encCard), encHands h) := by
  rw [callF_def]
  simp only [m_Hands___getitem__, bindParams, Option.map, encHands]
  cases p <;> ppsimp [encSeat, Seat.value, Val.beq]

theorem hands_getitem_call_bad (f : Nat) (h : Hands) (k : Val) (hk : ∀ p, k.beq (encSeat p) = false) :
    callF (mkRec P (f+8)) m_Hands___getitem__ [encHands h, k] = .error (.exc K.KeyError) := by
  rw [callF_def]
  simp only [m_Hands___getitem__, bindParams, Option.map, encHands]
  have h1 : k.beq (.enum n_Player 1) = false := hk .N
  have h2 : k.beq (.enum n_Player 2) = false := hk .E
  have h3 : k.beq (.enum n_Player 3) = false := hk .S
  have h4 : k.beq (.enum n_Player 4) = false := hk .W
  ppsimp [h1, h2, h3, h4]

theorem hands_to_dict_call (f : Nat) (h : Hands) :
    callF (mkRec P (f+8)) m_Hands_to_dict [encHands h] = .ok (.dict (handsKvs h), encHands h) := by
  rw [callF_def]
  simp only [m_Hands_to_dict, bindParams, Option.map, encHands]
  ppsimp [List.map, updateD, Val.beq, handsKvs, encCards, encSeat, Seat.value]
  rfl
/-- Python's `int(card)` computed in the integers -/
def idxZ (c : Card) : Int := (c.rank : Int) - 2 + ((c.suit.value : Int) - 1) * 13

theorem hd_idxZ (c : Card) (h : 2 ≤ c.rank) : idxZ c = (c.idx : Int) := by
  have : 1 ≤ c.suit.value := by cases c.suit <;> decide
  simp only [idxZ, Card.idx]; omega

theorem hd_mth_card_int : P.method? classDepth n_Card K.int__ = some (n_Card, m_Card___int__) := rfl

theorem hd_card_int_call (f : Nat) (c : Card) :
    callF (mkRec P (f+8)) m_Card___int__ [encCard c] = .ok (.int (idxZ c), encCard c) := by
  rw [callF_def]
  simp only [m_Card___int__, bindParams, Option.map, encCard]
  ppsimp [encSuit, idxZ]

theorem hd_builtin_int_card (f : Nat) (c : Card) :
    builtinF (mkRec P (f+9)) P .int [encCard c] = .ok (.int (idxZ c)) := by
  have e : builtinF (mkRec P (f+9)) P .int [encCard c]
      = (callF (mkRec P (f+8)) m_Card___int__ [encCard c] >>= fun x => pure x.1) := rfl
  rw [e, hd_card_int_call]; rfl

/-! ## `to_binary` -/
def tbOuter : List Stmt := match m_Hands_to_binary.body.getD 1 .pass with
  | .for _ _ b => b
  | _ => []
def tbInner : List Stmt := match tbOuter.getD 1 .pass with
  | .for _ _ b => b
  | _ => []

theorem hd_normIndex_nat (n len : Nat) (h : n < len) : normIndex len (n : Int) = some n := by
  simp [normIndex, h]

/-- slot `c.idx` set for every card of `cs` -/
def setBits (cs : List Card) (xs : List Val) : List Val := cs.foldl (fun acc c => replaceAt acc c.idx (.int 1)) xs

theorem hd_replaceAt_length (xs : List Val) (n : Nat) (v : Val) : (replaceAt xs n v).length = xs.length := by
  rw [replaceAt_eq_set, List.length_set]

theorem hands_tb_inner (f : Nat) (sv bv pv : Val) : ∀ (cs : List Card) (xs : List Val) (tail : Env),
    (∀ c ∈ cs, 2 ≤ c.rank ∧ c.idx < xs.length) →
    forF (mkRec P (f+14)) [n_card] tbInner
        ((K.self, sv) :: (n_binaries, bv) :: (n_p, pv) :: (n_binary, .tuple xs) :: tail) (cs.map encCard)
      = .ok ((K.self, sv) :: (n_binaries, bv) :: (n_p, pv) :: (n_binary, .tuple (setBits cs xs))
              :: cs.foldl (fun t c => update t n_card (encCard c)) tail, .next) := by
  intro cs
  induction cs with
  | nil => intro xs tail _; rfl
  | cons c cs ih =>
    intro xs tail hc
    have h1 := (hc c (List.mem_cons_self ..)).1
    have h2 := (hc c (List.mem_cons_self ..)).2
    simp only [List.map_cons, forF, tbInner, tbOuter, m_Hands_to_binary, List.getD_cons_succ, List.getD_cons_zero]
    ppsimp [hd_builtin_int_card, hd_idxZ c h1, hd_normIndex_nat _ _ h2]
    have := ih (replaceAt xs c.idx (.int 1)) (update tail n_card (encCard c)) (by
      intro d hd; rw [hd_replaceAt_length]; exact hc d (List.mem_cons_of_mem _ hd))
    simp only [tbInner, tbOuter, m_Hands_to_binary, List.getD_cons_succ, List.getD_cons_zero] at this
    rw [this]; rfl

theorem hd_index_hands (r : Rec) (h : Hands) (iv : Val) :
    indexF r P (encHands h) iv
      = (callMethod r P n_Hands K.getitem__ [encHands h, iv] (.exc K.TypeError)) >>= fun x => .ok x.1 := rfl

theorem hands_getitem_call_N (f : Nat) (h : Hands) :
    callF (mkRec P (f+8)) m_Hands___getitem__ [encHands h, .enum n_Player 1] = .ok (.tuple ((h .N).map encCard), encHands h) :=
  hands_getitem_call f h .N
theorem hands_getitem_call_E (f : Nat) (h : Hands) :
    callF (mkRec P (f+8)) m_Hands___getitem__ [encHands h, .enum n_Player 2] = .ok (.tuple ((h .E).map encCard), encHands h) :=
  hands_getitem_call f h .E
theorem hands_getitem_call_S (f : Nat) (h : Hands) :
    callF (mkRec P (f+8)) m_Hands___getitem__ [encHands h, .enum n_Player 3] = .ok (.tuple ((h .S).map encCard), encHands h) :=
  hands_getitem_call f h .S
theorem hands_getitem_call_W (f : Nat) (h : Hands) :
    callF (mkRec P (f+8)) m_Hands___getitem__ [encHands h, .enum n_Player 4] = .ok (.tuple ((h .W).map encCard), encHands h) :=
  hands_getitem_call f h .W

def zeros52 : List Val := List.replicate 52 (.int 0)
theorem hd_zeros : (List.replicate (Int.toNat 52) [Val.int 0]).flatten = zeros52 := by
  simp only [zeros52]; rfl
theorem hd_iter_player : iterItems P (.cls n_Player) = some [.enum n_Player 1, .enum n_Player 2, .enum n_Player 3, .enum n_Player 4] := rfl

theorem hands_to_binary_call (f : Nat) (h : Hands) (hok : ∀ p, ∀ c ∈ h p, 2 ≤ c.rank ∧ c.idx < 52) :
    callF (mkRec P (f+30)) m_Hands_to_binary [encHands h]
      = .ok (.dict [(encSeat .N, .tuple (setBits (h .N) zeros52)), (encSeat .E, .tuple (setBits (h .E) zeros52)),
                    (encSeat .S, .tuple (setBits (h .S) zeros52)), (encSeat .W, .tuple (setBits (h .W) zeros52))],
             encHands h) := by
  rw [callF_def]
  simp only [m_Hands_to_binary, bindParams, Option.map]
  have hl := fun p bv pv t => hands_tb_inner (f+14) (encHands h) bv pv (h p) zeros52 t (hok p)
  simp only [tbInner, tbOuter, m_Hands_to_binary, List.getD_cons_succ, List.getD_cons_zero] at hl
  ppsimp [hd_zeros, hd_iter_player, forF, hd_index_hands, hands_mth_getitem, hands_getitem_call_N, List.map_nil,
    iterItems_tuple]
  rw [hl]
  ppsimp [hd_zeros, hd_index_hands, hands_mth_getitem, hands_getitem_call_E, iterItems_tuple, builtin_tuple_tuple, updateD]
  rw [hl]
  ppsimp [hd_zeros, hd_index_hands, hands_mth_getitem, hands_getitem_call_S, iterItems_tuple, builtin_tuple_tuple, updateD, Val.beq]
  rw [hl]
  ppsimp [hd_zeros, hd_index_hands, hands_mth_getitem, hands_getitem_call_W, iterItems_tuple, builtin_tuple_tuple, updateD, Val.beq]
  rw [hl]
  ppsimp [builtin_tuple_tuple, updateD, Val.beq]
  rfl

/-! the 52-slot vector as a predicate on the slots -/
def bitsOf (a : Nat → Bool) : List Val := (List.range 52).map fun i => .int (if a i then 1 else 0)

theorem hd_zeros_bits : zeros52 = bitsOf (fun _ => false) := by
  rfl

theorem hd_replaceAt_bits (a : Nat → Bool) (k : Nat) :
    replaceAt (bitsOf a) k (.int 1) = bitsOf (fun i => i == k || a i) := by
  rw [replaceAt_eq_set]
  apply List.ext_getElem
  · simp [bitsOf]
  · intro n h1 h2
    simp only [bitsOf, List.getElem_set, List.getElem_map, List.getElem_range]
    by_cases hk : k = n
    · subst hk; simp
    · have : (n == k) = false := by simp; omega
      simp [hk, this]

theorem hd_setBits_bits (cs : List Card) : ∀ a : Nat → Bool,
    setBits cs (bitsOf a) = bitsOf (fun i => a i || cs.any fun c => c.idx == i) := by
  induction cs with
  | nil => intro a; simp [setBits]
  | cons c cs ih =>
    intro a
    have := ih (fun i => i == c.idx || a i)
    simp only [setBits, List.foldl_cons] at this ⊢
    rw [hd_replaceAt_bits, this]
    congr 1; funext i
    simp only [List.any_cons]
    have e : (c.idx == i) = (i == c.idx) := Bool.beq_comm
    rw [e]
    cases a i <;> cases (i == c.idx) <;> rfl

/-- `to_binary()[p]` of the model as a tuple of `int`s -/
def encBits (l : List Nat) : Val := .tuple (l.map fun n => .int (Int.ofNat n))

theorem hd_setBits_toBinary (h : Hands) (p : Seat) : Val.tuple (setBits (h p) zeros52) = encBits (toBinary h p) := by
  rw [hd_zeros_bits, hd_setBits_bits, encBits]; unfold toBinary; rw [List.map_map, bitsOf]
  congr 2; funext i
  simp only [Bool.false_or, Function.comp]
  split <;> rfl
end Bridge.Translated
