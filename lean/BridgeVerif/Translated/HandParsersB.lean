import BridgeVerif.Translated.HandParsersA
/-! Translated `Client.parse_hand` (client.py) = model, part B — what does not run the loops: `str.split(' ')` of the
interpreter is `splitSp`, `Card.rank_str_to_int` on a token of ANY length is `rankOfToken?` (whenever the model reads a rank),
`_Match.groups()` on a match object with five texts, a card built by `mkCard?` is on the deck. -/
set_option maxRecDepth 4000
namespace Bridge.Translated.HandParsers
open Bridge Bridge.Py Bridge.Generated.PyCore Bridge.Translated Bridge.RegexHands Bridge.RegexMsgHand
open Bridge.Translated.HandsPbn

/-! ## `s.split(' ')` -/
def headApp (p : List Char) : List (List Char) → List (List Char)
  | [] => [p]
  | a :: r => (p ++ a) :: r

theorem hq_splitSp_cons (c : Char) (s : List Char) :
    splitSp (c :: s) = if c = ' ' then [] :: splitSp s else headApp [c] (splitSp s) := by
  simp only [splitSp, List.foldr_cons]
  split
  · rfl
  · cases List.foldr _ _ s <;> rfl

theorem hq_headApp_headApp (p q : List Char) (l : List (List Char)) : headApp p (headApp q l) = headApp (p ++ q) l := by
  cases l <;> simp [headApp]

theorem hq_splitSp_ne_nil (s : List Char) : splitSp s ≠ [] := by
  cases s with
  | nil => simp [splitSp]
  | cons c s =>
    rw [hq_splitSp_cons]
    split
    · simp
    · cases splitSp s <;> simp [headApp]

theorem hq_splitOn (s : List Char) : ∀ (n : Nat) (acc : List Char), s.length < n →
    splitOn [' '] n acc s = headApp acc.reverse (splitSp s) := by
  induction s with
  | nil =>
    intro n acc h
    obtain ⟨n, rfl⟩ : ∃ m, n = m + 1 := ⟨n - 1, by simp at h; omega⟩
    simp [splitOn, splitSp, headApp]
  | cons c s ih =>
    intro n acc h
    obtain ⟨n, rfl⟩ : ∃ m, n = m + 1 := ⟨n - 1, by simp at h; omega⟩
    have hn : s.length < n := by simp at h; omega
    rw [hq_splitSp_cons]
    by_cases hc : c = ' '
    · subst hc
      simp only [splitOn, isPrefixC, beq_self_eq_true, Bool.and_true, if_true, List.length_cons, List.length_nil,
        List.drop_succ_cons, List.drop_zero]
      rw [ih n [] hn]
      have : headApp ([] : List Char).reverse (splitSp s) = splitSp s := by
        cases h : splitSp s with
        | nil => exact absurd h (hq_splitSp_ne_nil s)
        | cons a r => rfl
      rw [this]
      simp [headApp]
    · have hb : ((' ' : Char) == c) = false := by
        rw [beq_eq_false_iff_ne]; exact fun e => hc e.symm
      simp only [splitOn, isPrefixC, hb, Bool.false_and, Bool.false_eq_true, if_false, hc]
      rw [ih n (c :: acc) hn, hq_headApp_headApp]
      simp

theorem hq_builtin_split (r : Rec) (g : List Char) :
    builtinF r P .split [.str g, .str [' ']] = .ok (.tuple ((splitSp g).map Val.str)) := by
  have e : builtinF r P .split [.str g, .str [' ']] = .ok (.tuple ((splitOn [' '] (g.length + 1) [] g).map Val.str)) := rfl
  rw [e, hq_splitOn g _ [] (by omega)]
  have : headApp ([] : List Char).reverse (splitSp g) = splitSp g := by
    cases h : splitSp g with
    | nil => exact absurd h (hq_splitSp_ne_nil g)
    | cons a r => rfl
  rw [this]

/-! ## `Card.rank_str_to_int` on a token -/
theorem hq_parseNat_fold (t : List Char) (ht : t.all Bridge.isDigit = true) : ∀ a : Nat,
    t.foldl (fun acc c => acc.bind fun a => if c.isDigit then some (a * 10 + (c.toNat - 48)) else none) (some a)
      = some (t.foldl (fun n c => n * 10 + (c.toNat - '0'.toNat)) a) := by
  induction t with
  | nil => intro a; rfl
  | cons c t ih =>
    intro a
    simp only [List.all_cons, Bool.and_eq_true] at ht
    have hd : c.isDigit = true := by
      have := ht.1
      simp only [Bridge.isDigit, decide_eq_true_eq] at this
      simp only [Char.isDigit, Bool.and_eq_true, decide_eq_true_eq]
      exact ⟨this.1, this.2⟩
    simp only [List.foldl_cons, Option.bind_some, hd, if_true]
    exact ih ht.2 _

theorem hq_parseInt_decimal (t : List Char) (n : Nat) (h : decimal? t = some n) : parseInt? t = some (n : Int) := by
  unfold decimal? at h
  split at h
  · cases h
  · rename_i hc
    have hne : t ≠ [] := fun e => hc (Or.inl e)
    have hall : t.all Bridge.isDigit = true := by
      cases ha : t.all Bridge.isDigit with
      | true => rfl
      | false => exact absurd (Or.inr (by simp [ha])) hc
    cases h
    cases t with
    | nil => exact absurd rfl hne
    | cons c r =>
      have hcd : Bridge.isDigit c = true := by simp only [List.all_cons, Bool.and_eq_true] at hall; exact hall.1
      have h1 : c ≠ '-' := by rintro rfl; exact absurd hcd (by decide)
      have h2 : c ≠ '+' := by rintro rfl; exact absurd hcd (by decide)
      have e : parseInt? (c :: r) = (parseNat? (c :: r)).map fun n => (n : Int) := by
        unfold parseInt?
        split
        · rename_i heq; cases heq; exact absurd rfl h1
        · rename_i heq; cases heq; exact absurd rfl h2
        · rfl
      rw [e]
      have e2 : parseNat? (c :: r) = some ((c :: r).foldl (fun n c => n * 10 + (c.toNat - '0'.toNat)) 0) := by
        unfold parseNat?
        exact hq_parseNat_fold (c :: r) hall 0
      rw [e2]; rfl

theorem hq_builtin_int_str (r : Rec) (s : List Char) (n : Int) (h : parseInt? s = some n) :
    builtinF r P .int [.str s] = .ok (.int n) := by
  simp only [builtinF, h]; rfl

theorem hq_rank_str_to_int_call (f : Nat) (t : List Char) (r : Nat) (h : rankOfToken? t = some r) :
    callF (mkRec P (f+10)) m_Card_rank_str_to_int [.cls n_Card, .str t] = .ok (.int r, .cls n_Card) := by
  match t, h with
  | [c], h => exact jp_rank_str_to_int_call f c r h
  | [], h => simp [rankOfToken?, decimal?] at h
  | a :: b :: t', h =>
    have hd : decimal? (a :: b :: t') = some r := h
    rw [callF_def]
    simp only [m_Card_rank_str_to_int, bindParams, Option.map]
    ppsimp [jp_beq_str', List.cons.injEq, reduceCtorEq, and_false, false_and, hq_builtin_int_str _ _ _ (hq_parseInt_decimal _ _ hd)]

/-! ## `match.groups()` -/
theorem hq_mth_groups : P.method? classDepth n__Match n_groups = some (n__Match, m__Match_groups) := rfl

theorem hq_groups_call (f : Nat) (x0 x1 x2 x3 x4 : Val) :
    callF (mkRec P (f+6)) m__Match_groups [.obj n__Match [(n_texts, .tuple [x0, x1, x2, x3, x4])]]
      = .ok (.tuple [x1, x2, x3, x4], .obj n__Match [(n_texts, .tuple [x0, x1, x2, x3, x4])]) := by
  rw [callF_def]
  simp only [m__Match_groups, bindParams, Option.map]
  ppsimp [jp_sliceList_tail, iterItems_tuple, builtinF]

/-! ## cards -/
theorem hq_card_ok (rk : Nat) (su : Suit) (c : Card) (h : mkCard? rk su = some c) : c = ⟨rk, su⟩ ∧ c.ok = true := by
  unfold mkCard? at h
  split at h
  · cases h
  · split at h
    · cases h
    · rename_i h1 h2
      cases h
      refine ⟨rfl, ?_⟩
      simp only [Card.ok, Bool.and_eq_true, decide_eq_true_eq]
      exact ⟨by omega, h2⟩

end Bridge.Translated.HandParsers
