import BridgeVerif.Translated.ThreadsMainCLemmasJ
/-! Translated `MainThread.run`: the board loop as a statement, `emit close`, the `End of session` puts, the `join`s -/
set_option maxRecDepth 4000
set_option linter.unusedSimpArgs false
namespace Bridge.Translated.MainC
open Bridge Bridge.Py Bridge.Generated.PyCore Bridge.Translated.MainA Bridge.Translated.MainB

theorem mcBoardLoop_eq : mcBoardLoop
    = .for [n_board_number] (.builtin .range [.const (.int 1), .var n_max_board_num]) mcBoardBody := rfl

theorem mc_range_items (n : Nat) :
    (List.range ((n : Int) + 1 - 1).toNat).map (fun i => Val.int (1 + Int.ofNat i)) = boardItems 1 n := by
  have e : ((n : Int) + 1 - 1).toNat = n := by omega
  rw [e, boardItems, List.range'_eq_map_range, List.map_map]
  apply List.map_congr_left
  intro a _
  show Val.int (1 + (a : Int)) = Val.int ((1 + a : Nat) : Int)
  congr 1

theorem mc_range_call (r : Rec) (n : Nat) :
    builtinF r P .range [.int 1, .int ((n : Int) + 1)] = .ok (.tuple (boardItems 1 n)) := by
  simp only [builtinF, asInt?]
  rw [mc_range_items]; rfl

/-- the `for` statement over `range(1, max_board_num)` is the loop over the items -/
theorem mc_boardLoop_stmt (f : Nat) (env : Env) (n : Nat)
    (hmax : lookup env n_max_board_num = some (.int ((n : Int) + 1))) :
    execStmtF (mkRec P (f+3)) P env mcBoardLoop
      = forF (mkRec P (f+3)) [n_board_number] mcBoardBody env (boardItems 1 n) := by
  rw [mcBoardLoop_eq]
  simp only [execStmtF, eval_succ, evalF, mapR, lookup, hmax, bind_ok, pure_eq, mc_range_call, iterItems_tuple]

def opJoin (t : Val) : Val := .tuple [vstr "join", t]

def mcJoinLoop : Stmt := m_MainThread_run.body.getD 17 .pass
def mcJoinBody : List Stmt := match mcJoinLoop with
  | .for _ _ b => b
  | _ => []
theorem mcJoinLoop_eq : mcJoinLoop = .for [n_thread] (.var n_threads) mcJoinBody := rfl

theorem mc_join_for (f : Nat) (i : Seat → List Str) (table : Val) (tables : List Val) (more : List (Val × Val)) (bs : Val) :
    ∀ (thr : List Val) (env : Env) (out : List Val),
    lookup env K.self = some (encMainThread (encMainWorld i out table tables more) bs) →
    ∃ env', forF (mkRec P (f+30)) [n_thread] mcJoinBody env thr = .ok (env', .next) ∧
      lookup env' K.self = some (encMainThread (encMainWorld i (out ++ thr.map opJoin) table tables more) bs) ∧
      Frame [K.self, n_thread] env env' := by
  intro thr
  induction thr with
  | nil => intro env out hself; exact ⟨env, rfl, by simpa using hself, Frame.refl _ _⟩
  | cons t thr ih =>
    intro env out hself
    have h1 : ∃ e1, (mkRec P (f+30)).exec (update env n_thread t) mcJoinBody = .ok (e1, .next) ∧
        lookup e1 K.self = some (encMainThread (encMainWorld i (out ++ [opJoin t]) table tables more) bs) ∧
        Frame [K.self, n_thread] env e1 := by
      simp only [encMainThread] at hself ⊢
      refine ⟨?_, ?_, ?_, ?_⟩
      rotate_left
      · simp only [mcJoinBody, mcJoinLoop, m_MainThread_run, List.getD_cons_zero, List.getD_cons_succ]
        mbsimp [hself]
        rfl
      · lk_tac
      · frame_tac'
    obtain ⟨e1, h1e, hs1, hf1⟩ := h1
    obtain ⟨e2, h2e, hs2, hf2⟩ := ih e1 _ hs1
    refine ⟨e2, ?_, ?_, hf1.trans hf2⟩
    · rw [mb_forF_cons _ _ _ _ _ _ _ h1e]; exact h2e
    · rw [hs2]; simp [List.append_assoc]

/-- what follows the board loop: `emit close`, the four `End of session` puts, the `join`s -/
def mcAfterLoop : List Stmt := m_MainThread_run.body.drop 15
def mcCloseEnd : List Stmt := (m_MainThread_run.body.drop 15).take 2
theorem mcAfterLoop_eq : mcAfterLoop = mcCloseEnd ++ [mcJoinLoop] := rfl

theorem mc_close_end (f : Nat) (env : Env) (i : Seat → List Str) (out : List Val) (table : Val) (tables : List Val)
    (more : List (Val × Val)) (bs : Val)
    (hself : lookup env K.self = some (encMainThread (encMainWorld i out table tables more) bs)) :
    ∃ env', execF (mkRec P (f+30)) P env mcCloseEnd = .ok (env', .next) ∧
      lookup env' K.self = some (encMainThread (encMainWorld i (out ++ lastOps True) table tables more) bs) ∧
      Frame [K.self, n_player] env env' := by
  simp only [encMainThread] at hself ⊢
  refine ⟨?_, ?_, ?_, ?_⟩
  rotate_left
  · simp only [mcCloseEnd, m_MainThread_run, List.drop, List.take]
    mbsimp [hself, mc_mth_w_emit, mc_w_emit_call]
    rfl
  · lk_tac
  · frame_tac'

theorem mc_after_loop (f : Nat) (env : Env) (i : Seat → List Str) (out : List Val) (table : Val) (tables : List Val)
    (more : List (Val × Val)) (bs : Val) (thr : List Val)
    (hself : lookup env K.self = some (encMainThread (encMainWorld i out table tables more) bs))
    (hthr : lookup env n_threads = some (.tuple thr)) :
    ∃ env', execF (mkRec P (f+31)) P env mcAfterLoop = .ok (env', .next) ∧
      lookup env' K.self = some (encMainThread (encMainWorld i (out ++ lastOps True ++ thr.map opJoin) table tables more) bs) := by
  obtain ⟨e1, h1, hs1, hf1⟩ := mc_close_end (f+1) env i out table tables more bs hself
  have hthr1 : lookup e1 n_threads = some (.tuple thr) := by rw [hf1 _ (by decide), hthr]
  obtain ⟨e2, h2, hs2, _⟩ := mc_join_for (f+1) i table tables more bs thr e1 _ hs1
  refine ⟨e2, ?_, hs2⟩
  have h1' : execF (mkRec P (f+31)) P env mcCloseEnd = .ok (e1, .next) := h1
  rw [mcAfterLoop_eq, mb_execF_append _ _ _ _ _ h1']
  have h2' : forF (mkRec P (f+31)) [n_thread] mcJoinBody e1 thr = .ok (e2, .next) := h2
  simp only [execF, mcJoinLoop_eq, execStmtF, eval_succ, evalF, hthr1, bind_ok, pure_eq, iterItems_tuple, h2']

end Bridge.Translated.MainC
