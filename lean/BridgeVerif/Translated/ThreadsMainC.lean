import BridgeVerif.Translated.ThreadsMainCLemmasM
/-!
# The TRANSLATED `MainThread.run` (Generated/PyCoreThreads.lean) IS the reactive model of Model/MainThread.lean and
Model/Admission.lean

`MainThread` is `Server` after `harness/desugar_threads.py`; the MiniPy interpreter is executed SYMBOLICALLY on the
generated body `m_MainThread_run` inside the whole translated program `P`.  Helper lemmas:
Translated/ThreadsMainCLemmas*.lean.

* (0) `main_deal_translated_dict` — `deal` for the cards given as `.dict (handsKvs deal)`.
* (1) `main_board_translated` — ONE iteration of `for board_number in range(1, max_board_num)` (`mcBoardBody`) is
  `mainBoardR`; `encRecord` is the dict handed to `w_emit('write', {…})`; the score is the translated `calc_score` run
  INSIDE `P` (ThreadsMainCLemmasS*.lean: the proofs of Translated/CalcScore.lean redone for `P`) = the model's `calcScore`.
* (2) `main_boards_translated` — the whole `for` loop, `emit close`, the `End of session` puts, the `join`s = `mainBoardsR`.
* (3) `main_accept_loop_translated` — the accept loop = `Admission.acceptLoopR` / `acceptRound`.
* `main_run_translated` — the whole method = admission, then `mainReactive`.
-/
set_option maxRecDepth 4000
set_option linter.unusedSimpArgs false
namespace Bridge.Translated.MainC
open Bridge Bridge.Py Bridge.Generated.PyCore Bridge.Translated.MainA Bridge.Translated.MainB Bridge.Translated.SeatB
open Bridge.Admission

/-! ## (0) `deal`, the cards given as the dictionary seat ↦ cards -/

/-- THE TRANSLATED `Server.deal` IS `mainDealR`, for the deal handed over as `.dict (handsKvs cards)` -/
theorem main_deal_translated_dict (encRec : BoardRecord → Val) (k : Nat) (dealer : Seat) (vul : Vul) (cards : Hands)
    (b : BoardSetting) (hd : b.dealer = dealer) (hv : b.vul = vul) (hc : b.deal = cards)
    (hok : ∀ p, ∀ c ∈ cards p, 2 ≤ c.rank ∧ c.rank ≤ 14)
    (i : MainIn) (out : List Val) (table : Val) (tables : List Val) (more : List (Val × Val)) (bs : Val)
    (f : Nat) (hf : 61 ≤ f) :
    ∃ ops, encMainActs encRec (mainDealR k b) = some ops ∧
      callFn P f m_MainThread_deal
          [encMainThread (encMainWorld i out table tables more) bs, .int k, encSeat dealer, encVul vul,
            .dict (handsKvs cards), .none]
        = .ok (.none, encMainThread (encMainWorld i (out ++ ops)
                (advTable (advTable table tables).1 (advTable table tables).2).1
                (advTable (advTable table tables).1 (advTable table tables).2).2 more) bs) :=
  mc_deal_dict encRec k dealer vul cards b hd hv hc hok i out table tables more bs f hf


/-- non-vacuity: the partial deal of ThreadsMainA.lean, as a dictionary -/
example : ∃ ops, encMainActs (fun _ => .none) (mainDealR 7 exBoard) = some ops ∧
    callFn P 100 m_MainThread_deal
        [encMainThread (encMainWorld (fun _ => []) [] (.dict []) [.int 1, .int 2, .int 3] []) .none, .int 7, encSeat .E, encVul .ns,
          .dict (handsKvs exBoard.deal), .none]
      = .ok (.none, encMainThread (encMainWorld (fun _ => []) ([] ++ ops) (.int 2) [.int 3] []) .none) :=
  main_deal_translated_dict (fun _ => .none) 7 .E .ns exBoard.deal exBoard rfl rfl rfl ex_ok_board
    (fun _ => []) [] (.dict []) [.int 1, .int 2, .int 3] [] .none 100 (by decide)

/-! ## (1) one iteration of the board loop -/

/-- ONE ITERATION OF `for board_number in range(1, max_board_num)` IS `mainBoardR` (see `mc_board`,
ThreadsMainCLemmasBoard.lean, for the commented statement): the body `mcBoardBody` (extracted from `m_MainThread_run.body`)
for the board `b = board_settings[k-1]`, board number `k` of `n` (`max_board_num = n + 1`) performs `opsS`, where
`stripSleep opsS ++ lastOps (k = n)` is `encMainActs encRecord acts`; `break` on the last board, the four `next board`
puts otherwise. -/
theorem main_board_translated (sc : Scenario) (F k n : Nat) (b : BoardSetting) (i i' : MainIn) (acts : MainActs)
    (hm : mainBoardR sc k (decide (k = n)) b i = some (acts, i'))
    (hparse : BoardParses F b i)
    (hok : ∀ p, ∀ c ∈ b.deal p, 2 ≤ c.rank ∧ c.rank ≤ 14)
    (boards : List BoardSetting) (h1 : 1 ≤ k) (hb : boards[k-1]? = some b) (more : List (Val × Val)) :
    ∃ opsS, encMainActs encRecord acts = some (stripSleep opsS ++ lastOps (k = n)) ∧
      ∀ (env : Env) (out : List Val) (table : Val) (tables : List Val),
      lookup env K.self
        = some (encMainThread (encMainWorld i out table tables more) (.tuple (boards.map encBoardSetting))) →
      lookup env n_board_number = some (.int k) →
      lookup env n_max_board_num = some (.int ((n : Int) + 1)) →
      lookup env n_ns_team_name = some (.str sc.nsName) →
      lookup env n_ew_team_name = some (.str sc.ewName) →
      ∀ f, F + 700 ≤ f → ∃ env', exec P f env mcBoardBody = .ok (env', if k = n then .brk else .next) ∧
        lookup env' K.self = some (encMainThread (encMainWorld i' (out ++ opsS) (tableAfterDeal table tables).1
          (tableAfterDeal table tables).2 more) (.tuple (boards.map encBoardSetting))) ∧
        Frame boardVars env env' :=
  mc_board sc F k n b i i' acts hm hparse hok boards h1 hb more

/-- the body IS the body of the `for` statement of the generated `run` -/
example : m_MainThread_run.body.getD 14 .pass
    = .for [n_board_number] (.builtin .range [.const (.int 1), .var n_max_board_num]) mcBoardBody := rfl


/-! non-vacuity of (1) -/
def exBoards : List BoardSetting := [exBoard, exPlayBoard]

/-- the environment at the first board of two (a PASSED-OUT board), the table with three later snapshots -/
def exPassEnv : Env :=
  [(K.self, encMainThread (encMainWorld exPassIn [] (.int 0) [.int 1, .int 2, .int 3] []) (.tuple (exBoards.map encBoardSetting))),
   (n_max_board_num, .int 3), (n_ns_team_name, .str "NS".toList), (n_ew_team_name, .str "EW".toList), (n_board_number, .int 1)]

/-- a passed-out board that is not the last: the model performs 57 actions and leaves `kept` in North's queue; the body
runs to its end (no `break`), the table has advanced twice -/
example : ∃ acts i' opsS env', mainBoardR exSc 1 (decide (1 = 2)) exBoard exPassIn = some (acts, i') ∧
    acts.length = 57 ∧ i' .N = ["kept".toList] ∧
    encMainActs encRecord acts = some (stripSleep opsS ++ lastOps (1 = 2)) ∧
    exec P 1000 exPassEnv mcBoardBody = .ok (env', .next) ∧
    lookup env' K.self = some (encMainThread (encMainWorld i' ([] ++ opsS) (.int 2) [.int 3] [])
      (.tuple (exBoards.map encBoardSetting))) := by
  have hc : (mainBoardR exSc 1 (decide (1 = 2)) exBoard exPassIn).map (fun x => (x.1.length, x.2 .N))
      = some (57, ["kept".toList]) := by decide +kernel
  obtain ⟨⟨acts, i'⟩, hm⟩ := Option.isSome_iff_exists.1 ex_pass_model
  rw [hm] at hc
  simp only [Option.map_some, Option.some.injEq, Prod.mk.injEq] at hc
  obtain ⟨opsS, hops, hrun⟩ := main_board_translated exSc 40 1 2 exBoard exPassIn i' acts hm ex_pass_parses ex_ok_board
    exBoards (by decide) rfl []
  obtain ⟨env', he, hs, _⟩ := hrun exPassEnv [] (.int 0) [.int 1, .int 2, .int 3] rfl rfl rfl rfl rfl 1000 (by decide)
  exact ⟨acts, i', opsS, env', hm, hc.1, hc.2, hops, he, hs⟩

/-- the same body evaluated by the kernel: 55 operations, the 51st is the `emit write` of the record -/
example : (match exec P 1000 exPassEnv mcBoardBody with
    | .ok (env', .next) => (match lookup env' K.self with
      | some (.obj _ [(_, .obj _ [_, (_, .tuple out), (_, t), _, _]), _]) =>
        out.length == 55 && t.beq (.int 2) &&
        (match out.getD 50 .none with | .tuple [a, b, .dict kvs] => a.beq (vstr "emit") && b.beq (vstr "write") && kvs.length == 14 | _ => false)
      | _ => false)
    | _ => false) = true := by decide +kernel

/-- the environment at the last board (a PLAYED board: 1NT by South, thirteen tricks) -/
def exPlayEnv : Env :=
  [(K.self, encMainThread (encMainWorld exPlayIn [] (.int 0) [] []) (.tuple (exBoards.map encBoardSetting))),
   (n_max_board_num, .int 3), (n_ns_team_name, .str "NS".toList), (n_ew_team_name, .str "EW".toList), (n_board_number, .int 2)]

/-- a played board that is the last: the model performs 325 actions (the last six are `emit write`, `emit close` and the
four `End of session` puts, of which the body performs the first; the others are `lastOps`), `later` stays in North's
queue; the body ends with `break` -/
example : ∃ acts i' opsS env', mainBoardR exSc 2 (decide (2 = 2)) exPlayBoard exPlayIn = some (acts, i') ∧
    acts.length = 325 ∧ i' .N = ["later".toList] ∧
    encMainActs encRecord acts = some (stripSleep opsS ++ lastOps (2 = 2)) ∧
    exec P 1000 exPlayEnv mcBoardBody = .ok (env', .brk) ∧
    lookup env' K.self = some (encMainThread (encMainWorld i' ([] ++ opsS) (.int 0) [] [])
      (.tuple (exBoards.map encBoardSetting))) := by
  have hc : (mainBoardR exSc 2 (decide (2 = 2)) exPlayBoard exPlayIn).map (fun x => (x.1.length, x.2 .N))
      = some (325, ["later".toList]) := by decide +kernel
  cases hm : mainBoardR exSc 2 (decide (2 = 2)) exPlayBoard exPlayIn with
  | none => rw [hm] at hc; cases hc
  | some x =>
    obtain ⟨acts, i'⟩ := x
    rw [hm] at hc
    simp only [Option.map_some, Option.some.injEq, Prod.mk.injEq] at hc
    obtain ⟨opsS, hops, hrun⟩ := main_board_translated exSc 40 2 2 exPlayBoard exPlayIn i' acts hm ex_play_parses
      ex_ok_playBoard exBoards (by decide) rfl []
    obtain ⟨env', he, hs, _⟩ := hrun exPlayEnv [] (.int 0) [] rfl rfl rfl rfl rfl 1000 (by decide)
    exact ⟨acts, i', opsS, env', rfl, hc.1, hc.2, hops, he, hs⟩

/-! ## (2) the whole board loop and what follows it -/

/-- the board loop and the statements after it -/
def mcBoardsPart : List Stmt := m_MainThread_run.body.drop 14

/-- THE WHOLE `for` LOOP, `emit close`, THE `End of session` PUTS AND THE `join`S ARE `mainBoardsR`: on an environment in
which `self` is the thread on the streams `i` with the board settings `boards` (not empty), `max_board_num = len + 1`, the
team names the scenario's, `threads` the list `thr` — when the model runs the boards, the statements run to their end and
have performed `opsS` followed by one `join` per thread, where `stripSleep opsS` is `encMainActs encRecord acts`; the
seat table has advanced twice per board. -/
theorem main_boards_translated (sc : Scenario) (F : Nat) (boards : List BoardSetting) (hne : boards ≠ []) (i : MainIn)
    (acts : MainActs) (hm : mainBoardsR sc 1 boards i = some acts)
    (hparse : BoardsParse sc F 1 boards i)
    (hok : ∀ b ∈ boards, ∀ p, ∀ c ∈ b.deal p, 2 ≤ c.rank ∧ c.rank ≤ 14) (more : List (Val × Val)) :
    ∃ opsS i', encMainActs encRecord acts = some (stripSleep opsS) ∧
      ∀ (env : Env) (out : List Val) (table : Val) (tables : List Val) (thr : List Val),
      lookup env K.self
        = some (encMainThread (encMainWorld i out table tables more) (.tuple (boards.map encBoardSetting))) →
      lookup env n_max_board_num = some (.int ((boards.length : Int) + 1)) →
      lookup env n_ns_team_name = some (.str sc.nsName) →
      lookup env n_ew_team_name = some (.str sc.ewName) →
      lookup env n_threads = some (.tuple thr) →
      ∀ f, F + 710 ≤ f → ∃ env', exec P f env mcBoardsPart = .ok (env', .next) ∧
        lookup env' K.self = some (encMainThread (encMainWorld i' (out ++ opsS ++ thr.map opJoin)
          (advBoards boards.length table tables).1 (advBoards boards.length table tables).2 more)
          (.tuple (boards.map encBoardSetting))) := by
  obtain ⟨ops0, i', hops0, hrun⟩ := mc_boards_for sc F boards.length boards rfl more boards 1 i acts
    hne (Nat.le_refl _) rfl hm hparse hok
  have hlast : stripSleep (lastOps True) = lastOps True :=
    encMainActs_no_sleep encRecord ([.emit LogOp.close] ++ putAll MSG_END) _ rfl
  refine ⟨ops0 ++ lastOps True, i', by rw [hops0, stripSleep_append, hlast], ?_⟩
  intro env out table tables thr hself hmax hns hew hthr f hf
  obtain ⟨g, rfl⟩ : ∃ g, f = g + 34 := ⟨f - 34, by omega⟩
  obtain ⟨e1, h1, hs1, hf1⟩ := hrun env out table tables (g + 30 + 3) hself hmax hns hew (by omega)
  have hthr1 : lookup e1 n_threads = some (.tuple thr) := by rw [hf1 _ (by decide), hthr]
  obtain ⟨e2, h2, hs2⟩ := mc_after_loop (g + 2) e1 i' _ _ _ more _ thr hs1 hthr1
  refine ⟨e2, ?_, ?_⟩
  · show execF (mkRec P (g + 33)) P env (mcBoardLoop :: mcAfterLoop) = _
    have hl : execStmtF (mkRec P (g + 33)) P env mcBoardLoop = .ok (e1, .next) := by
      rw [mc_boardLoop_stmt (g + 30) env boards.length hmax]; exact h1
    rw [mb_execF_cons _ _ _ _ _ hl]; exact h2
  · rw [hs2]; simp only [List.append_assoc]


/-! non-vacuity of (2) -/
/-- the streams of a session of two boards: the four passes of the first board, then the auction and the play of the
second -/
def exRunIn : MainIn := fun p => match p with
  | .N => "North passes".toList :: exPlayIn .N
  | .E => "East passes".toList :: exPlayIn .E
  | .S => "South passes  Alert. ".toList :: exPlayIn .S
  | .W => "West passes".toList :: exPlayIn .W

theorem ex_run_first : (mainBoardR exSc 1 false exBoard exRunIn).map (fun x => (x.2 .N, x.2 .E, x.2 .S, x.2 .W))
    = some (exPlayIn .N, exPlayIn .E, exPlayIn .S, exPlayIn .W) := by decide +kernel

theorem ex_run_parses : BoardsParse exSc 40 1 exBoards exRunIn := by
  refine ⟨boardParses_of_passed_out 40 exBoard exRunIn (by decide +kernel) (by decide +kernel), ?_⟩
  intro acts i' hm
  have hc := ex_run_first
  have hm' : mainBoardR exSc 1 false exBoard exRunIn = some (acts, i') := hm
  rw [hm'] at hc
  simp only [Option.map_some, Option.some.injEq, Prod.mk.injEq] at hc
  obtain ⟨h1, h2, h3, h4⟩ := hc
  have e : i' = exPlayIn := by funext p; cases p <;> assumption
  subst e
  exact ⟨ex_play_parses, fun _ _ _ => trivial⟩

theorem ex_run_ok : ∀ b ∈ exBoards, ∀ p, ∀ c ∈ b.deal p, 2 ≤ c.rank ∧ c.rank ≤ 14 := by
  intro b hb
  simp only [exBoards, List.mem_cons, List.mem_nil_iff, or_false] at hb
  rcases hb with rfl | rfl
  · exact ex_ok_board
  · exact ex_ok_playBoard

theorem ex_run_model : (mainBoardsR exSc 1 exBoards exRunIn).map (·.length) = some 382 := by decide +kernel

/-- the environment when the board loop is reached: one thread to join -/
def exBoardsEnv : Env :=
  [(K.self, encMainThread (encMainWorld exRunIn [] (.int 0) [.int 1, .int 2, .int 3] [])
      (.tuple (exBoards.map encBoardSetting))), (n_max_board_num, .int 3), (n_ns_team_name, .str "NS".toList),
    (n_ew_team_name, .str "EW".toList), (n_threads, .tuple [.int 11])]

/-- two boards (one passed out, one played), one thread to join: the model performs 382 actions -/
example : ∃ acts opsS i' env', mainBoardsR exSc 1 exBoards exRunIn = some acts ∧ acts.length = 382 ∧
    encMainActs encRecord acts = some (stripSleep opsS) ∧
    exec P 1000 exBoardsEnv mcBoardsPart = .ok (env', .next) ∧
    lookup env' K.self = some (encMainThread (encMainWorld i' ([] ++ opsS ++ [opJoin (.int 11)]) (.int 3) [] [])
      (.tuple (exBoards.map encBoardSetting))) := by
  have hc := ex_run_model
  cases hm : mainBoardsR exSc 1 exBoards exRunIn with
  | none => rw [hm] at hc; cases hc
  | some acts =>
    rw [hm] at hc
    simp only [Option.map_some, Option.some.injEq] at hc
    obtain ⟨opsS, i', hops, hrun⟩ := main_boards_translated exSc 40 exBoards (by simp [exBoards]) exRunIn acts hm
      ex_run_parses ex_run_ok []
    obtain ⟨env', he, hs⟩ := hrun exBoardsEnv [] (.int 0) [.int 1, .int 2, .int 3] [.int 11] rfl rfl rfl rfl rfl 1000 (by decide)
    exact ⟨acts, opsS, i', env', rfl, hc, hops, he, hs⟩

/-! ## (3) the accept loop -/

/-- THE ACCEPT LOOP `while not all(name is not None for _, name in table.items())` IS `Admission.acceptLoopR`: when the
model serves the connection attempts `reqs` from the table `t` and ends with a full table (`tf.full`; otherwise the loop
waits in `accept` for ever), and the world answers per served connection `c` with the pair `(c.conn, c.addr)` at
`accept`, the thread `c.thread` at `new_thread`, `c.alive` at `is_alive`, and hands out the model's successive tables
(`acceptSnapshots`) at `w_wait_event` — then the `while` statement runs to its end, main's operations are
`Admission.acceptRound` per served connection (`mops`), rendered by `encMainOp` as
`("accept", None), ("new_thread", conn), ("start", thread), ("event_wait",), ("sleep", 1), ("is_alive", thread),
("event_clear", None)`; the table is the model's final table, `threads` has collected the threads that are alive. -/
theorem main_accept_loop_translated (t : Table) (reqs : List (List Char × List Char)) (opss : List (List Op))
    (mops : List MainOp) (tf : Table) (conns : List Conn)
    (hm : acceptLoopR t reqs = some (opss, mops, tf)) (hfull : tf.full = true) (hlen : conns.length = opss.length)
    (env : Env) (i : Seat → List Str) (out later accR ntR alR : List Val) (rest : List (Val × Val)) (bs : Val)
    (thr : List Val)
    (hself : lookup env K.self = some (encMainThread (encMainWorld i out (encTable t)
      ((acceptSnapshots t reqs).map encTable ++ later)
      (acceptMore (conns.map (fun c => .tuple [c.conn, c.addr]) ++ accR) (conns.map (·.thread) ++ ntR)
        (conns.map (fun c => .bool c.alive) ++ alR) rest)) bs))
    (hthr : lookup env n_threads = some (.tuple thr)) :
    mops = (conns.map fun _ => acceptRound).flatten ∧
    ((conns.flatMap fun c => roundOps c.conn c.thread) = (conns.flatMap fun c => acceptRound.flatMap (encMainOp c))) ∧
    ∀ f, conns.length + 47 ≤ f → ∃ env', exec P f env [mcAcceptWhile] = .ok (env', .next) ∧
      lookup env' K.self = some (encMainThread (encMainWorld i (out ++ conns.flatMap fun c => roundOps c.conn c.thread)
        (encTable tf) later (acceptMore accR ntR alR rest)) bs) ∧
      lookup env' n_threads = some (.tuple (thr ++ (conns.filter (·.alive)).map (·.thread))) ∧
      Frame acceptVars env env' := by
  obtain ⟨hmops, _⟩ := mc_accept_loop reqs t opss mops tf conns env i out later accR ntR alR rest bs thr
    (conns.length + 45) hm hfull hlen hself hthr (Nat.le_refl _)
  refine ⟨hmops, rfl, ?_⟩
  intro f hf
  obtain ⟨g, rfl⟩ : ∃ g, f = g + 2 := ⟨f - 2, by omega⟩
  obtain ⟨_, e1, h1, hs1, ht1, hf1⟩ := mc_accept_loop reqs t opss mops tf conns env i out later accR ntR alR rest bs thr
    g hm hfull hlen hself hthr (by omega)
  refine ⟨e1, ?_, hs1, ht1, hf1⟩
  show execF (mkRec P (g + 1)) P env [mcAcceptWhile] = _
  simp only [execF, mcAcceptWhile_eq, execStmtF, loop_succ, h1, bind_ok, pure_eq]

/-- the loop IS the `while` statement of the generated `run` -/
example : m_MainThread_run.body.getD 4 .pass = .while mcAcceptCond mcAcceptBody := rfl


/-! non-vacuity of (3) -/
/-- six connection attempts: North, East, South under a wrong team name (refused), South, West, and one that is never
served -/
def exReqs : List (List Char × List Char) :=
  [("Connecting \"NS\" as North using protocol version 18".toList, "North ready for teams".toList),
   ("Connecting \"EW\" as East using protocol version 18".toList, "East ready for teams".toList),
   ("Connecting \"XX\" as South using protocol version 18".toList, "South ready for teams".toList),
   ("Connecting \"NS\" as South using protocol version 18".toList, "South ready for teams".toList),
   ("Connecting \"EW\" as West using protocol version 18".toList, "west  ready for teams".toList),
   ("Connecting \"EW\" as West using protocol version 18".toList, "never served".toList)]

/-- what the world answers for the five served connections (the refused one's thread is not alive) -/
def exConns : List Conn :=
  [⟨.int 1, .none, .int 11, true⟩, ⟨.int 2, .none, .int 12, true⟩, ⟨.int 3, .none, .int 13, false⟩,
   ⟨.int 4, .none, .int 14, true⟩, ⟨.int 5, .none, .int 15, true⟩]

def exAccWorld (later : List Val) : Val :=
  encMainWorld (fun _ => []) [] (encTable Table.empty) ((acceptSnapshots Table.empty exReqs).map encTable ++ later)
    (acceptMore (exConns.map (fun c => .tuple [c.conn, c.addr]) ++ []) (exConns.map (·.thread) ++ [])
      (exConns.map (fun c => .bool c.alive) ++ []) [])

theorem ex_acc_model : (acceptLoopR Table.empty exReqs).map (fun x => (x.1.length, x.2.1.length, x.2.2.full))
    = some (5, 30, true) := by decide +kernel
theorem ex_acc_names : (acceptLoopR Table.empty exReqs).map (fun x => (x.2.2 .N, x.2.2 .E, x.2.2 .S, x.2.2 .W))
    = some (some "NS".toList, some "EW".toList, some "NS".toList, some "EW".toList) := by decide +kernel

/-- five rounds (30 operations of the model, 35 world operations), the table ends full, the four alive threads are kept -/
example : ∃ opss mops tf env', acceptLoopR Table.empty exReqs = some (opss, mops, tf) ∧ tf.full = true ∧
    mops = (exConns.map fun _ => acceptRound).flatten ∧ mops.length = 30 ∧
    exec P 100 [(K.self, encMainThread (exAccWorld []) .none), (n_threads, .tuple [])] [mcAcceptWhile] = .ok (env', .next) ∧
    lookup env' K.self = some (encMainThread (encMainWorld (fun _ => [])
      ([] ++ exConns.flatMap fun c => roundOps c.conn c.thread) (encTable tf) [] (acceptMore [] [] [] [])) .none) ∧
    lookup env' n_threads = some (.tuple [.int 11, .int 12, .int 14, .int 15]) := by
  have hc := ex_acc_model
  cases hm : acceptLoopR Table.empty exReqs with
  | none => rw [hm] at hc; cases hc
  | some x =>
    obtain ⟨opss, mops, tf⟩ := x
    rw [hm] at hc
    simp only [Option.map_some, Option.some.injEq, Prod.mk.injEq] at hc
    obtain ⟨h1, h2, h3⟩ := hc
    obtain ⟨hmops, _, hrun⟩ := main_accept_loop_translated Table.empty exReqs opss mops tf exConns hm h3 (by rw [h1]; rfl)
      [(K.self, encMainThread (exAccWorld []) .none), (n_threads, .tuple [])] (fun _ => []) [] [] [] [] [] [] .none [] rfl rfl
    obtain ⟨env', he, hs, ht, _⟩ := hrun 100 (by decide)
    exact ⟨opss, mops, tf, env', rfl, h3, hmops, h2, he, hs, ht⟩

/-! ## the whole method -/

/-- THE TRANSLATED `Server.run` IS admission followed by `mainReactive`.  Hypotheses: the admission of the model fills
the table (`acceptLoopR Table.empty reqs = some (…, tf)`, `tf.full`) with the scenario's names (North and South under
`sc.nsName`, East and West under `sc.ewName` — the two assertions of the code); the world answers the accept loop as in
`main_accept_loop_translated`; the model runs the boards (`mainReactive sc boards i = some acts`, `boards ≠ []`: with no
board the code still closes the log and sends `End of session`, the model does not); the parse hypotheses of the boards.
Then the call returns `None`, the world has performed `bind`, `listen`, the rounds of the accept loop, `opsS`, and one
`join` per thread alive, where `stripSleep opsS` is `encMainActs encRecord acts`. -/
theorem main_run_translated (sc : Scenario) (F : Nat) (boards : List BoardSetting) (hne : boards ≠ []) (i : MainIn)
    (acts : MainActs) (hm : mainReactive sc boards i = some acts)
    (hparse : BoardsParse sc F 1 boards i)
    (hok : ∀ b ∈ boards, ∀ p, ∀ c ∈ b.deal p, 2 ≤ c.rank ∧ c.rank ≤ 14)
    (reqs : List (List Char × List Char)) (opss : List (List Op)) (mops : List MainOp) (tf : Table) (conns : List Conn)
    (hacc : acceptLoopR Table.empty reqs = some (opss, mops, tf)) (hfull : tf.full = true)
    (hlen : conns.length = opss.length)
    (hN : tf .N = some sc.nsName) (hS : tf .S = some sc.nsName) (hE : tf .E = some sc.ewName) (hW : tf .W = some sc.ewName)
    (table0 : Val) (later accR ntR alR : List Val) (rest : List (Val × Val)) :
    ∃ opsS i', encMainActs encRecord acts = some (stripSleep opsS) ∧
      mops = (conns.map fun _ => acceptRound).flatten ∧
      ∀ f, F + conns.length + 800 ≤ f →
        callFn P f m_MainThread_run [encMainThread (encMainWorld i [] table0
            ((acceptSnapshots Table.empty reqs).map encTable ++ later)
            (acceptMore (conns.map (fun c => .tuple [c.conn, c.addr]) ++ accR) (conns.map (·.thread) ++ ntR)
              (conns.map (fun c => .bool c.alive) ++ alR) rest)) (.tuple (boards.map encBoardSetting))]
          = .ok (.none, encMainThread (encMainWorld i'
              ([opBind, opListen] ++ (conns.flatMap fun c => roundOps c.conn c.thread) ++ opsS ++
                ((conns.filter (·.alive)).map (·.thread)).map opJoin)
              (advBoards boards.length (advTable (encTable tf) later).1 (advTable (encTable tf) later).2).1
              (advBoards boards.length (advTable (encTable tf) later).1 (advTable (encTable tf) later).2).2
              (acceptMore accR ntR alR rest)) (.tuple (boards.map encBoardSetting))) := by
  unfold mainReactive at hm
  cases hmb : mainBoardsR sc 1 boards i with
  | none => rw [hmb] at hm; cases hm
  | some bacts =>
    rw [hmb] at hm
    simp only [Option.map_some, Option.some.injEq] at hm
    subst hm
    obtain ⟨ops2, i', hops2, hrun2⟩ := main_boards_translated sc F boards hne i bacts hmb hparse hok
      (acceptMore accR ntR alR rest)
    have hhead : encMainActs encRecord (sync ++ [.emit LogOp.open]) = some [syncOp, opEmitOpen] := rfl
    have hheadS : stripSleep [syncOp, opEmitOpen] = [syncOp, opEmitOpen] := encMainActs_no_sleep encRecord _ _ hhead
    refine ⟨[syncOp, opEmitOpen] ++ ops2, i', ?_, ?_, ?_⟩
    · rw [MainB.encMainActs_append encRecord _ _ _ _ hhead hops2, stripSleep_append, hheadS]
    · exact (mc_accept_loop reqs Table.empty opss mops tf conns [(K.self, _), (n_threads, .tuple [])] i [opBind, opListen]
        later accR ntR alR rest (.tuple (boards.map encBoardSetting)) [] (conns.length + 45) hacc hfull hlen rfl
        rfl (Nat.le_refl _)).1
    · intro f hf
      obtain ⟨g, rfl⟩ : ∃ g, f = g + 2 := ⟨f - 2, by omega⟩
      let env0 : Env := [(K.self, encMainThread (encMainWorld i [] table0
            ((acceptSnapshots Table.empty reqs).map encTable ++ later)
            (acceptMore (conns.map (fun c => .tuple [c.conn, c.addr]) ++ accR) (conns.map (·.thread) ++ ntR)
              (conns.map (fun c => .bool c.alive) ++ alR) rest)) (.tuple (boards.map encBoardSetting)))]
      obtain ⟨e1, h1, hs1, ht1, hf1⟩ := mc_pre (g - 30) env0 i [] table0 _ _ (.tuple (boards.map encBoardSetting)) rfl
      rw [show g - 30 + 30 = g by omega] at h1
      obtain ⟨_, _, hloop⟩ := main_accept_loop_translated Table.empty reqs opss mops tf conns hacc hfull hlen e1 i _ later
        accR ntR alR rest _ [] hs1 ht1
      obtain ⟨e2, h2, hs2, ht2, hf2⟩ := hloop (g + 1) (by omega)
      obtain ⟨e3, h3, hs3, hns3, hew3, hmax3, hf3⟩ := mc_mid (g - 40) e2 i _ tf later _ (boards.map encBoardSetting)
        sc.nsName sc.ewName hN hS hE hW hs2
      rw [show g - 40 + 40 = g by omega] at h3
      rw [List.length_map] at hmax3
      have ht3 : lookup e3 n_threads = some (.tuple ([] ++ (conns.filter (·.alive)).map (·.thread))) := by
        rw [hf3 _ (by decide), ht2]
      obtain ⟨e4, h4, hs4⟩ := hrun2 e3 _ _ _ _ hs3 hmax3 hns3 hew3 ht3 (g + 1) (by omega)
      have hbody : (mkRec P (g + 1)).exec env0 m_MainThread_run.body = .ok (e4, .next) := by
        have h2' : execStmtF (mkRec P g) P e1 mcAcceptWhile = .ok (e2, .next) := by
          have : execF (mkRec P g) P e1 [mcAcceptWhile] = .ok (e2, .next) := h2
          simp only [execF] at this
          cases hx : execStmtF (mkRec P g) P e1 mcAcceptWhile with
          | error e => rw [hx] at this; cases this
          | ok x =>
            obtain ⟨ex, fl⟩ := x
            rw [hx] at this
            cases fl <;> simp only [bind_ok, pure_eq, Except.ok.injEq, Prod.mk.injEq, reduceCtorEq, and_false, and_true] at this
            subst this; rfl
        have h4' : execF (mkRec P g) P e3 (mcBoardLoop :: mcAfterLoop) = .ok (e4, .next) := h4
        show execF (mkRec P g) P env0 m_MainThread_run.body = _
        rw [mcRunBody_eq, mb_execF_append _ _ _ _ _ h1, mb_execF_cons _ _ _ _ _ h2', mb_execF_append _ _ _ _ _ h3, h4']
      rw [show g + 2 = (g + 1) + 1 from rfl, mc_callFn_callF, callF_def]
      have hp : bindParams m_MainThread_run.params m_MainThread_run.defaults
          [encMainThread (encMainWorld i [] table0 ((acceptSnapshots Table.empty reqs).map encTable ++ later)
            (acceptMore (conns.map (fun c => .tuple [c.conn, c.addr]) ++ accR) (conns.map (·.thread) ++ ntR)
              (conns.map (fun c => .bool c.alive) ++ alR) rest)) (.tuple (boards.map encBoardSetting))] = some env0 := rfl
      rw [hp]
      simp only [hbody, bind_ok]
      have hpar : m_MainThread_run.params = [K.self] := rfl
      rw [hpar]
      simp only [hs4, Option.getD_some, List.nil_append, List.append_assoc, List.cons_append]


/-! non-vacuity of `main_run_translated` -/
theorem ex_reactive_model : (mainReactive exSc exBoards exRunIn).map (·.length) = some 385 := by decide +kernel

/-- the whole method on the example: five served connections (four threads alive), two boards -/
example : ∃ acts opsS i', mainReactive exSc exBoards exRunIn = some acts ∧ acts.length = 385 ∧
    encMainActs encRecord acts = some (stripSleep opsS) ∧
    callFn P 2000 m_MainThread_run [encMainThread (encMainWorld exRunIn [] .none
        ((acceptSnapshots Table.empty exReqs).map encTable ++ [])
        (acceptMore (exConns.map (fun c => .tuple [c.conn, c.addr]) ++ []) (exConns.map (·.thread) ++ [])
          (exConns.map (fun c => .bool c.alive) ++ []) [])) (.tuple (exBoards.map encBoardSetting))]
      = .ok (.none, encMainThread (encMainWorld i'
          ([opBind, opListen] ++ (exConns.flatMap fun c => roundOps c.conn c.thread) ++ opsS ++
            [opJoin (.int 11), opJoin (.int 12), opJoin (.int 14), opJoin (.int 15)])
          (encTable (fun p => match p with | .N | .S => some "NS".toList | _ => some "EW".toList)) []
          (acceptMore [] [] [] [])) (.tuple (exBoards.map encBoardSetting))) := by
  have hc := ex_reactive_model
  have ha := ex_acc_model
  have hn := ex_acc_names
  cases hm : mainReactive exSc exBoards exRunIn with
  | none => rw [hm] at hc; cases hc
  | some acts =>
    cases hacc : acceptLoopR Table.empty exReqs with
    | none => rw [hacc] at ha; cases ha
    | some x =>
      obtain ⟨opss, mops, tf⟩ := x
      rw [hm] at hc
      rw [hacc] at ha hn
      simp only [Option.map_some, Option.some.injEq, Prod.mk.injEq] at hc ha hn
      obtain ⟨h1, h2, h3⟩ := ha
      obtain ⟨hN, hE, hS, hW⟩ := hn
      obtain ⟨opsS, i', hops, _, hrun⟩ := main_run_translated exSc 40 exBoards (by simp [exBoards]) exRunIn acts hm
        ex_run_parses ex_run_ok exReqs opss mops tf exConns hacc h3 (by rw [h1]; rfl) hN hS hE hW .none [] [] [] [] []
      have htf : tf = (fun p => match p with | .N | .S => some "NS".toList | _ => some "EW".toList) := by
        funext p; cases p <;> assumption
      have h := hrun 2000 (by decide)
      rw [htf] at h
      exact ⟨acts, opsS, i', rfl, hc, hops, h⟩

end Bridge.Translated.MainC
