import BridgeVerif.Core
import BridgeVerif.Generated.PyCoreBase
/-!
# Encoders: the values of the hand-written model as MiniPy values of the TRANSLATED program

`encX v` is the MiniPy value the real program would hold for the model value `v` (an `Enum` member is its class and its
`value`; a dataclass instance its attributes in declaration order).  The correspondence check uses the same encoding
(harness/py_common.py `enc`) when it runs the translated program next to the real functions.
-/
namespace Bridge.Translated
open Bridge.Py Bridge.Generated.PyCore

/-- the value classes and the scoring functions as translated (Generated/PyCoreBase.lean) -/
abbrev PB : Program := programBase

def encSuit (s : Suit) : Val := .enum n_Suit s.value
def encSeat (p : Seat) : Val := .enum n_Player p.value
def encSide (s : Side) : Val := .enum n_Pair s.value
def encVul (v : Vul) : Val := .enum n_Vul v.value
def encCall (c : Call) : Val := .enum n_Bid c.value
def encBid (b : Fin 35) : Val := .enum n_Bid (b.val + 1)
def encCard (c : Card) : Val := .obj n_Card [(n_rank, .int c.rank), (n_suit, encSuit c.suit)]
def encOpt {α} (f : α → Val) : Option α → Val
  | none => .none
  | some a => f a
/-- a `Contract` instance (a passed-out contract carries `final_bid = None`) -/
def encContract (c : Contract) : Val :=
  .obj n_Contract [(n_final_bid, encOpt encBid c.finalBid), (n_x, .bool c.x), (n_xx, .bool c.xx), (n_vul, encVul c.vul),
                   (n_declarer, encOpt encSeat c.declarer)]

def fn (f : Id) (args : List Val) : R Val := PB.runFn f args
/-- result of a method / property (the receiver afterwards is dropped) -/
def meth (c m : Id) (args : List Val) : R Val := (PB.runMethod c m args).map (·.1)

/-- the translated `calc_bid_score` run with `f` levels of fuel (result only) -/
def cbsAt (f : Nat) (args : List Val) : R Val := (callFn PB f f_calc_bid_score args).map (·.1)

end Bridge.Translated
