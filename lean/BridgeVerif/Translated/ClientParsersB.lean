import BridgeVerif.Translated.ClientParsersA
/-!
# The TRANSLATED `Client.parse_leader_message` IS `parseLeader?`

`m_Client_parse_leader_message` (Generated/PyCoreNet.lean; `client.py`: `parse_match_base(r'(.*) to lead', content)`, then
`dummy` for the name `Dummy`, `Player.convert_formal_name(name)` otherwise) executed SYMBOLICALLY by the MiniPy interpreter
in the whole translated program `P`, its `re.match(…, re.IGNORECASE)` being the generic regular-expression engine
(`RegexMsgClient.match_lead`).  For EVERY text whose characters are in the class `RegexMsgClient.agreeLead` (every ASCII
text is), at EVERY fuel ≥ 31:

* `parseLeader? s dummy = some l` : the call returns `Player l` (the state returned is `.str s`);
* `parseLeader? s dummy = none` : the call raises — `Exception` (from `parse_match_base`) when the text does not match the
  pattern, `ValueError` (from `convert_formal_name`) when it does but the name is neither `Dummy` nor a seat name.
-/
set_option maxRecDepth 4000
namespace Bridge.Translated.ClientParsers
open Bridge Bridge.Py Bridge.Generated.PyCore Bridge.Translated Bridge.RegexHands Bridge.RegexMsgClient
open Bridge.Translated.ConnectInfo (str_beq convert_formal_fail)

theorem lead_pat_eq : (['(', '.', '*', ')', ' ', 't', 'o', ' ', 'l', 'e', 'a', 'd'] : List Char) = LEAD_PATTERN := by
  decide +kernel

/-- what the translated method computes, in one statement -/
def leaderResult (s : Str) (dummy : Seat) : R (Val × Val) :=
  match leadGroup? s with
  | none => .error (.exc K.Exception)
  | some g =>
    if g = "Dummy".toList then .ok (encSeat dummy, .str s)
    else match seatOfFormal? g with
      | none => .error (.exc K.ValueError)
      | some p => .ok (encSeat p, .str s)

theorem lead_exec_nomatch (f : Nat) (s : Str) (hs : ∀ x ∈ s, agreeLead x = true) (d : Val) (h : leadGroup? s = none) :
    callF (mkRec P (f+30)) m_Client_parse_leader_message [.str s, d] = .error (.exc K.Exception) := by
  have hm := match_lead s hs
  simp only [leadFields?, h, Option.map_none] at hm
  have hb := reMatch_none _ _ hm
  rw [callF_def]
  simp only [m_Client_parse_leader_message]
  rw [lead_pat_eq]
  ppsimp [mth_match_base, match_base_none _ _ _ hb]

theorem lead_exec_dummy (f : Nat) (s : Str) (hs : ∀ x ∈ s, agreeLead x = true) (d : Val)
    (h : leadGroup? s = some "Dummy".toList) :
    callF (mkRec P (f+30)) m_Client_parse_leader_message [.str s, d] = .ok (d, .str s) := by
  have hm := match_lead s hs
  simp only [leadFields?, h, Option.map_some] at hm
  obtain ⟨g0, hb⟩ := reMatch_some _ _ _ hm
  rw [callF_def]
  simp only [m_Client_parse_leader_message]
  rw [lead_pat_eq]
  ppsimp [mth_match_base, match_base_some _ _ _ _ hb, pp_mth_m_group, pp_m_group_call1, List.map_cons, List.map_nil, str_beq,
    String.reduceToList]

theorem lead_exec_seat (f : Nat) (s : Str) (hs : ∀ x ∈ s, agreeLead x = true) (d : Val) (g : Str)
    (h : leadGroup? s = some g) (hd : g ≠ "Dummy".toList) (p : Seat) (hp : seatOfFormal? g = some p) :
    callF (mkRec P (f+30)) m_Client_parse_leader_message [.str s, d] = .ok (encSeat p, .str s) := by
  have hm := match_lead s hs
  simp only [leadFields?, h, Option.map_some] at hm
  obtain ⟨g0, hb⟩ := reMatch_some _ _ _ hm
  have hcv := seatOfFormal_eq hp
  have b : (g == ['D', 'u', 'm', 'm', 'y']) = false := beq_eq_false_iff_ne.mpr hd
  rw [callF_def]
  simp only [m_Client_parse_leader_message]
  rw [lead_pat_eq]
  ppsimp [mth_match_base, match_base_some _ _ _ _ hb, pp_mth_m_group, pp_m_group_call1, List.map_cons, List.map_nil, str_beq,
    b, st_mth_convert]
  rw [hcv]
  ppsimp [st_convert_formal_call]

theorem lead_exec_badname (f : Nat) (s : Str) (hs : ∀ x ∈ s, agreeLead x = true) (d : Val) (g : Str)
    (h : leadGroup? s = some g) (hd : g ≠ "Dummy".toList) (hp : seatOfFormal? g = none) :
    callF (mkRec P (f+30)) m_Client_parse_leader_message [.str s, d] = .error (.exc K.ValueError) := by
  have hm := match_lead s hs
  simp only [leadFields?, h, Option.map_some] at hm
  obtain ⟨g0, hb⟩ := reMatch_some _ _ _ hm
  have b : (g == ['D', 'u', 'm', 'm', 'y']) = false := beq_eq_false_iff_ne.mpr hd
  rw [callF_def]
  simp only [m_Client_parse_leader_message]
  rw [lead_pat_eq]
  ppsimp [mth_match_base, match_base_some _ _ _ _ hb, pp_mth_m_group, pp_m_group_call1, List.map_cons, List.map_nil, str_beq,
    b, st_mth_convert, convert_formal_fail _ _ hp]

/-- THE TRANSLATED METHOD, at every fuel ≥ 31, on every text in the class -/
theorem parse_leader_message_translated (s : Str) (hs : ∀ x ∈ s, agreeLead x = true) (dummy : Seat) (g : Nat)
    (hg : 31 ≤ g) :
    callFn P g m_Client_parse_leader_message [.str s, encSeat dummy] = leaderResult s dummy := by
  refine st_callFn_of_callF (K := 30) (fun f => ?_) g hg
  unfold leaderResult
  cases h : leadGroup? s with
  | none => exact lead_exec_nomatch f s hs _ h
  | some t =>
    by_cases hd : t = "Dummy".toList
    · subst hd
      simp only [if_true]
      exact lead_exec_dummy f s hs _ h
    · simp only [hd, if_false]
      cases hp : seatOfFormal? t with
      | none => exact lead_exec_badname f s hs _ t h hd hp
      | some p => exact lead_exec_seat f s hs _ t h hd p hp

/-- (B, success) the model reads the prompt as "`l` leads": so does the translated method, at every fuel ≥ 31 -/
theorem parse_leader_message_ok (s : Str) (hs : ∀ x ∈ s, agreeLead x = true) (dummy l : Seat)
    (h : parseLeader? s dummy = some l) (g : Nat) (hg : 31 ≤ g) :
    callFn P g m_Client_parse_leader_message [.str s, encSeat dummy] = .ok (encSeat l, .str s) := by
  rw [parse_leader_message_translated s hs dummy g hg]
  rw [parseLeader_eq_group] at h
  unfold leaderResult
  cases ht : leadGroup? s with
  | none => rw [ht] at h; cases h
  | some t =>
    rw [ht] at h
    simp only [Option.bind_some] at h
    by_cases hd : t = "Dummy".toList
    · simp only [hd, if_true, Option.some.injEq] at h ⊢
      rw [h]
    · simp only [hd, if_false] at h ⊢
      rw [h]

/-- (B, failure) the model refuses the prompt: the translated method raises — `Exception` (no match) or `ValueError`
(`convert_formal_name` on an unknown name) -/
theorem parse_leader_message_raises (s : Str) (hs : ∀ x ∈ s, agreeLead x = true) (dummy : Seat)
    (h : parseLeader? s dummy = none) (g : Nat) (hg : 31 ≤ g) :
    (leadGroup? s = none ∧
      callFn P g m_Client_parse_leader_message [.str s, encSeat dummy] = .error (.exc K.Exception)) ∨
    ((leadGroup? s).isSome = true ∧
      callFn P g m_Client_parse_leader_message [.str s, encSeat dummy] = .error (.exc K.ValueError)) := by
  rw [parse_leader_message_translated s hs dummy g hg]
  rw [parseLeader_eq_group] at h
  unfold leaderResult
  cases ht : leadGroup? s with
  | none => exact .inl ⟨rfl, rfl⟩
  | some t =>
    rw [ht] at h
    simp only [Option.bind_some] at h
    by_cases hd : t = "Dummy".toList
    · simp only [hd, if_true] at h; cases h
    · simp only [hd, if_false] at h ⊢
      rw [h]
      exact .inr ⟨rfl, rfl⟩

/-- in the form the bundled-client capstone asks (`Returns` of Translated/ThreadsClientALemmas.lean) -/
theorem parse_leader_message_returns (s : Str) (hs : ∀ x ∈ s, agreeLead x = true) (dummy l : Seat)
    (h : parseLeader? s dummy = some l) :
    ∀ f, 31 ≤ f → (callFn P f m_Client_parse_leader_message [.str s, encSeat dummy]).map (·.1) = .ok (encSeat l) := by
  intro f hf
  rw [parse_leader_message_ok s hs dummy l h f hf]
  rfl

/-- for ASCII texts -/
theorem parse_leader_message_ok_ascii (s : Str) (hs : ∀ x ∈ s, x.toNat < 128) (dummy l : Seat)
    (h : parseLeader? s dummy = some l) (g : Nat) (hg : 31 ≤ g) :
    callFn P g m_Client_parse_leader_message [.str s, encSeat dummy] = .ok (encSeat l, .str s) :=
  parse_leader_message_ok s (fun x hx => agreeLead_ascii x (hs x hx)) dummy l h g hg

/-! ### non-vacuity -/
example : callFn P 31 m_Client_parse_leader_message [.str "wesT TO Lead, please".toList, encSeat .N]
    = .error (.exc K.ValueError) := by
  have := parse_leader_message_raises "wesT TO Lead, please".toList
    (fun x hx => agreeLead_ascii x (by revert x; decide +kernel)) .N (by decide +kernel) 31 (Nat.le_refl _)
  rcases this with ⟨h, _⟩ | ⟨_, h⟩
  · exact absurd h (by decide +kernel)
  · exact h
example : callFn P 31 m_Client_parse_leader_message [.str "West TO Lead, please".toList, encSeat .N]
    = .ok (encSeat .W, .str "West TO Lead, please".toList) :=
  parse_leader_message_ok_ascii _ (by decide +kernel) .N .W (by decide +kernel) 31 (Nat.le_refl _)
example : callFn P 31 m_Client_parse_leader_message [.str "Dummy to lead".toList, encSeat .E]
    = .ok (encSeat .E, .str "Dummy to lead".toList) :=
  parse_leader_message_ok_ascii _ (by decide +kernel) .E .E (by decide +kernel) 31 (Nat.le_refl _)

end Bridge.Translated.ClientParsers
