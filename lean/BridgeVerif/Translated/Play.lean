import BridgeVerif.Translated.PlayLemmasH
/-!
# playing_phase.py AS TRANSLATED is the hand-written model of the play  (C04, C05, C06)

`encPState c s`, `encWithHands c w`, `encObserved c o` (PlayLemmasA.lean) are the `PlayingPhase`,
`PlayingPhaseWithHands`, `ObservedPlayingPhase` instances the MiniPy interpreter holds for the model states (attributes in
the order `__init__` assigns them; sets are tuples in insertion order; `hands` is a dictionary seat ↦ cards).  The
theorems below say that the TRANSLATED methods (Generated/PyCorePlay.lean, re-written from the Python source on every
run), executed by the interpreter, compute exactly the model's functions (Model/Play.lean) — for EVERY state (reachable
or not), every card and every seat, with syntactic equality of the resulting `Val`s.  The only hypothesis anywhere is
`WF s` (`s.history.length + 1 = s.trickNum`, PlayLemmasE.lean) for the methods that may complete a trick:
`PlayingHistory.record` raises `ValueError` when the trick number is not the next one of the history
(`play_card_translated_not_wf`).  `WF` holds initially and is preserved (`wf_init`, `wf_playCard`).
The proofs are symbolic executions of the interpreter on the symbolic state (PlayLemmasA–H); loops
(`for i, card in enumerate(cards)`, `for _ in range(highest_idx)`, the set comprehension) by induction on the list.
-/
namespace Bridge.Translated
open Bridge Bridge.Py Bridge.Generated.PyCore

theorem ppObj_base (c : Contract) (s : PState) : ppObj n_PlayingPhase c s [] = encPState c s := by
  simp only [ppObj, encPState, List.append_nil]
theorem encWithHands_eq (c : Contract) (w : WithHands) :
    encWithHands c w = ppObj n_PlayingPhaseWithHands c w.base [(n_hands, .dict (handsKvs w.hands))] := rfl

/-! ## (a) `calc_highest` -/
theorem calc_highest_translated_full (su : Suit) (cards : List Card) :
    P.runMethod n_PlayingPhase n_calc_highest [encSuit su, .tuple (cards.map encCard)]
      = .ok (.int (calcHighest su cards), encSuit su) := by
  have run : P.runMethod n_PlayingPhase n_calc_highest [encSuit su, .tuple (cards.map encCard)]
      = callF (mkRec P 999) m_PlayingPhase_calc_highest [encSuit su, encCards cards] := rfl
  rw [run]; exact calc_highest_call 987 su cards

theorem calc_highest_translated (su : Suit) (cards : List Card) :
    (P.runMethod n_PlayingPhase n_calc_highest [encSuit su, .tuple (cards.map encCard)]).map (·.1)
      = .ok (.int (calcHighest su cards)) := by
  rw [calc_highest_translated_full]; rfl

/-! ## (b) `available_cards`, `current_available_cards`, `has_done`, `__init__` -/
theorem available_cards_translated (hand : List Card) (first : Option Card) :
    (P.runMethod n_PlayingPhase n_available_cards [.tuple (hand.map encCard), encOpt encCard first]).map (·.1)
      = .ok (.tuple ((availableCards hand first).map encCard)) := by
  have run : P.runMethod n_PlayingPhase n_available_cards [.tuple (hand.map encCard), encOpt encCard first]
      = callF (mkRec P 999) m_PlayingPhase_available_cards [encCards hand, encOpt encCard first] := rfl
  rw [run, available_cards_call 987 hand first]; rfl

/-- `first_card` left to its default `None` -/
theorem available_cards_translated_default (hand : List Card) :
    (P.runMethod n_PlayingPhase n_available_cards [.tuple (hand.map encCard)]).map (·.1)
      = .ok (.tuple ((availableCards hand none).map encCard)) := by
  have run : P.runMethod n_PlayingPhase n_available_cards [.tuple (hand.map encCard)]
      = callF (mkRec P 999) m_PlayingPhase_available_cards [encCards hand, encOpt encCard none] := rfl
  rw [run, available_cards_call 987 hand none]; rfl

theorem current_available_cards_translated (c : Contract) (s : PState) (hand : List Card) :
    P.runMethod n_PlayingPhase n_current_available_cards [encPState c s, .tuple (hand.map encCard)]
      = .ok (.tuple ((s.currentAvailable hand).map encCard), encPState c s) := by
  have run : P.runMethod n_PlayingPhase n_current_available_cards [encPState c s, .tuple (hand.map encCard)]
      = callF (mkRec P 999) m_PlayingPhase_current_available_cards [encPState c s, encCards hand] := rfl
  rw [run, ← ppObj_base, current_available_call 979 n_PlayingPhase [] c s hand]; rfl

theorem play_has_done_translated (c : Contract) (s : PState) :
    P.runMethod n_PlayingPhase n_has_done [encPState c s] = .ok (.bool s.hasDone, encPState c s) := by
  have run : P.runMethod n_PlayingPhase n_has_done [encPState c s]
      = callF (mkRec P 999) m_PlayingPhase_has_done [encPState c s] := rfl
  rw [run, ← ppObj_base, has_done_call 991 n_PlayingPhase [] c s]

theorem play_init_translated_cases (c : Contract) :
    P.runNew n_PlayingPhase [encContract c] =
      match c.finalBid, c.declarer with
      | none, _ => .error (.exc K.Exception)
      | some _, none => .error (.exc K.AssertionError)
      | some b, some d => .ok (encPState c (initState b d)) := by
  have run : P.runNew n_PlayingPhase [encContract c]
      = (callF (mkRec P 999) m_PlayingPhase___init__ [.obj n_PlayingPhase [], encContract c] >>= fun x => pure x.2) := rfl
  rw [run, init_call 959 n_PlayingPhase c]
  cases c.finalBid with
  | none => rfl
  | some b =>
    cases c.declarer with
    | none => rfl
    | some d => simp only [bind_ok, pure_eq, ppObj_base]

/-- `PlayingPhase(contract)` is the model's initial state -/
theorem play_init_translated (c : Contract) (s : PState) (h : PState.init c = some s) :
    P.runNew n_PlayingPhase [encContract c] = .ok (encPState c s) := by
  rw [play_init_translated_cases]; rw [init_eq] at h
  cases hb : c.finalBid with
  | none => rw [hb] at h; cases h
  | some b =>
    cases hd : c.declarer with
    | none => rw [hb, hd] at h; cases h
    | some d => rw [hb, hd] at h; cases h; rfl

/-- a passed-out contract: `Exception` -/
theorem play_init_translated_passed_out (c : Contract) (h : c.finalBid = none) :
    P.runNew n_PlayingPhase [encContract c] = .error (.exc K.Exception) := by
  rw [play_init_translated_cases, h]

/-- a bid but no declarer: the assertion fails -/
theorem play_init_translated_no_declarer (c : Contract) (b : Fin 35) (h : c.finalBid = some b) (hd : c.declarer = none) :
    P.runNew n_PlayingPhase [encContract c] = .error (.exc K.AssertionError) := by
  rw [play_init_translated_cases, h, hd]

/-- the model's `none` is exactly "raises" -/
theorem play_init_translated_none (c : Contract) (h : PState.init c = none) :
    (P.runNew n_PlayingPhase [encContract c]).toOption = none := by
  rw [play_init_translated_cases]; rw [init_eq] at h
  cases hb : c.finalBid with
  | none => rfl
  | some b =>
    cases hd : c.declarer with
    | none => rfl
    | some d => rw [hb, hd] at h; cases h

/-! ## (c) `play_card` -/
theorem play_card_translated (c : Contract) (s : PState) (card : Card) (h : WF s) :
    P.runMethod n_PlayingPhase n_play_card [encPState c s, encCard card]
      = .ok (.none, encPState c (playCard s card)) := by
  have run : P.runMethod n_PlayingPhase n_play_card [encPState c s, encCard card]
      = callF (mkRec P 999) m_PlayingPhase_play_card [encPState c s, encCard card] := rfl
  rw [run, ← ppObj_base, play_card_call 949 n_PlayingPhase ppclass_base [] c s card (fun _ => h), ppObj_base]

/-- the hypothesis is needed only for the card that completes a trick -/
theorem play_card_translated' (c : Contract) (s : PState) (card : Card) (h : s.trick.length = 3 → WF s) :
    P.runMethod n_PlayingPhase n_play_card [encPState c s, encCard card]
      = .ok (.none, encPState c (playCard s card)) := by
  have run : P.runMethod n_PlayingPhase n_play_card [encPState c s, encCard card]
      = callF (mkRec P 999) m_PlayingPhase_play_card [encPState c s, encCard card] := rfl
  rw [run, ← ppObj_base, play_card_call 949 n_PlayingPhase ppclass_base [] c s card h, ppObj_base]

/-- and there it IS needed: the translated code raises `ValueError` (from `PlayingHistory.record`), where the model
just goes on -/
theorem play_card_translated_not_wf (c : Contract) (s : PState) (card : Card) (h3 : s.trick.length = 3) (h : ¬ WF s) :
    P.runMethod n_PlayingPhase n_play_card [encPState c s, encCard card] = .error (.exc K.ValueError) := by
  have run : P.runMethod n_PlayingPhase n_play_card [encPState c s, encCard card]
      = callF (mkRec P 999) m_PlayingPhase_play_card [encPState c s, encCard card] := rfl
  rw [run, ← ppObj_base, play_card_call_bad 949 n_PlayingPhase ppclass_base [] c s card h3 h]

/-- any sequence of cards played on a translated `PlayingPhase` -/
def runTranslatedPlay (st : Val) : List Card → R Val
  | [] => .ok st
  | cd :: cs =>
    match P.runMethod n_PlayingPhase n_play_card [st, encCard cd] with
    | .error e => .error e
    | .ok (_, st') => runTranslatedPlay st' cs

/-- from any well-formed model state: the translated object after the cards is the model's state after the cards -/
theorem run_translated_play_from (c : Contract) (s : PState) (h : WF s) (cards : List Card) :
    runTranslatedPlay (encPState c s) cards = .ok (encPState c (cards.foldl playCard s)) := by
  induction cards generalizing s with
  | nil => rfl
  | cons cd cs ih =>
    simp only [runTranslatedPlay, play_card_translated c s cd h, List.foldl_cons]
    exact ih (playCard s cd) (wf_playCard s cd h)

/-- from `PlayingPhase(contract)`: construction, then any sequence of cards -/
theorem run_translated_play (c : Contract) (s : PState) (h : PState.init c = some s) (cards : List Card) :
    (P.runNew n_PlayingPhase [encContract c] >>= fun st => runTranslatedPlay st cards)
      = .ok (encPState c (cards.foldl playCard s)) := by
  rw [play_init_translated c s h]
  exact run_translated_play_from c s (wf_init c s h) cards

/-! ## (d) `play_card_by_player` -/
theorem play_by_translated (c : Contract) (s : PState) (card : Card) (p : Seat) (h : WF s) :
    P.runMethod n_PlayingPhase n_play_card_by_player [encPState c s, encCard card, encSeat p]
      = match s.playBy card p with
        | .error _ => .error (.exc K.ValueError)
        | .ok s' => .ok (.none, encPState c s') := by
  have run : P.runMethod n_PlayingPhase n_play_card_by_player [encPState c s, encCard card, encSeat p]
      = callF (mkRec P 999) m_PlayingPhase_play_card_by_player [encPState c s, encCard card, encSeat p] := rfl
  rw [run, ← ppObj_base, play_by_call 939 c s card p h]
  cases s.playBy card p with
  | error e => rfl
  | ok s' => simp only [ppObj_base]

/-! ## (e) `PlayingPhaseWithHands` -/
theorem with_hands_init_translated (c : Contract) (hands : Seat → List Card) :
    P.runNew n_PlayingPhaseWithHands [encContract c, .dict (handsKvs hands)] =
      match c.finalBid, c.declarer with
      | none, _ => .error (.exc K.Exception)
      | some _, none => .error (.exc K.AssertionError)
      | some b, some d => .ok (encWithHands c ⟨initState b d, hands⟩) := by
  have run : P.runNew n_PlayingPhaseWithHands [encContract c, .dict (handsKvs hands)]
      = (callF (mkRec P 999) m_PlayingPhaseWithHands___init__
          [.obj n_PlayingPhaseWithHands [], encContract c, .dict (handsKvs hands)] >>= fun x => pure x.2) := rfl
  rw [run, with_hands_init_call 949 c hands]
  cases c.finalBid with
  | none => rfl
  | some b =>
    cases c.declarer with
    | none => rfl
    | some d => rfl

theorem with_hands_init_translated_ok (c : Contract) (hands : Seat → List Card) (w : WithHands)
    (h : WithHands.init c hands = some w) :
    P.runNew n_PlayingPhaseWithHands [encContract c, .dict (handsKvs hands)] = .ok (encWithHands c w) := by
  rw [with_hands_init_translated]; simp only [WithHands.init, init_eq] at h
  cases hb : c.finalBid with
  | none => rw [hb] at h; cases h
  | some b =>
    cases hd : c.declarer with
    | none => rw [hb, hd] at h; cases h
    | some d => rw [hb, hd] at h; cases h; rfl

/-- `.turn` and `.notHeld` are `ValueError`; `KeyError` (from `hands[player].remove(card)`) cannot occur -/
theorem with_hands_play_translated (c : Contract) (w : WithHands) (card : Card) (p : Seat) (h : WF w.base) :
    P.runMethod n_PlayingPhaseWithHands n_play_card_by_player [encWithHands c w, encCard card, encSeat p]
      = match w.play card p with
        | .error _ => .error (.exc K.ValueError)
        | .ok w' => .ok (.none, encWithHands c w') := by
  have run : P.runMethod n_PlayingPhaseWithHands n_play_card_by_player [encWithHands c w, encCard card, encSeat p]
      = callF (mkRec P 999) m_PlayingPhaseWithHands_play_card_by_player [encWithHands c w, encCard card, encSeat p] :=
    rfl
  rw [run, with_hands_play_call 939 c w card p h]
  cases w.play card p <;> rfl

theorem with_hands_available_translated (c : Contract) (w : WithHands) (p : Seat) :
    P.runMethod n_PlayingPhaseWithHands n_current_available_cards_in_hand [encWithHands c w, encSeat p]
      = .ok (.tuple ((w.base.currentAvailable (w.hands p)).map encCard), encWithHands c w) := by
  have run : P.runMethod n_PlayingPhaseWithHands n_current_available_cards_in_hand [encWithHands c w, encSeat p]
      = callF (mkRec P 999) m_PlayingPhaseWithHands_current_available_cards_in_hand [encWithHands c w, encSeat p] := rfl
  rw [run, with_hands_available_call 969 c w p]; rfl

theorem wf_with_hands_init (c : Contract) (hands : Seat → List Card) (w : WithHands)
    (h : WithHands.init c hands = some w) : WF w.base := by
  simp only [WithHands.init] at h
  cases hi : PState.init c with
  | none => rw [hi] at h; cases h
  | some s => rw [hi] at h; cases h; exact wf_init c s hi

theorem wf_with_hands_play (w w' : WithHands) (card : Card) (p : Seat) (h : WF w.base)
    (hp : w.play card p = .ok w') : WF w'.base := by
  unfold WithHands.play at hp
  split at hp
  · cases hp
  · split at hp
    · cases hp
    · cases hp; exact wf_playCard _ _ h

/-! ## (f) `ObservedPlayingPhase` -/
theorem observed_init_translated (c : Contract) (me : Seat) (hand : List Card) :
    P.runNew n_ObservedPlayingPhase [encContract c, encSeat me, .tuple (hand.map encCard)] =
      match c.finalBid, c.declarer with
      | none, _ => .error (.exc K.Exception)
      | some _, none => .error (.exc K.AssertionError)
      | some b, some d => .ok (encObserved c ⟨initState b d, me, hand, none⟩) := by
  have run : P.runNew n_ObservedPlayingPhase [encContract c, encSeat me, .tuple (hand.map encCard)]
      = (callF (mkRec P 999) m_ObservedPlayingPhase___init__
          [.obj n_ObservedPlayingPhase [], encContract c, encSeat me, encCards hand] >>= fun x => pure x.2) := rfl
  rw [run, observed_init_call 949 c me hand]
  cases c.finalBid with
  | none => rfl
  | some b =>
    cases c.declarer with
    | none => rfl
    | some d => rfl

theorem observed_init_translated_ok (c : Contract) (me : Seat) (hand : List Card) (o : Observed)
    (h : Observed.init c me hand = some o) :
    P.runNew n_ObservedPlayingPhase [encContract c, encSeat me, .tuple (hand.map encCard)] = .ok (encObserved c o) := by
  rw [observed_init_translated]; simp only [Observed.init, init_eq] at h
  cases hb : c.finalBid with
  | none => rw [hb] at h; cases h
  | some b =>
    cases hd : c.declarer with
    | none => rw [hb, hd] at h; cases h
    | some d => rw [hb, hd] at h; cases h; rfl

theorem set_dummy_translated (c : Contract) (o : Observed) (dh : List Card) :
    P.runMethod n_ObservedPlayingPhase n_set_dummy_hand [encObserved c o, .tuple (dh.map encCard)]
      = .ok (.none, encObserved c (o.setDummy dh)) := by
  have run : P.runMethod n_ObservedPlayingPhase n_set_dummy_hand [encObserved c o, .tuple (dh.map encCard)]
      = callF (mkRec P 999) m_ObservedPlayingPhase_set_dummy_hand [encObserved c o, encCards dh] := rfl
  rw [run, set_dummy_call 989 c o dh]

/-- `.turn` and `.notHeld` are `ValueError`, `.dummyNotSet` is `Exception` -/
theorem observed_play_translated (c : Contract) (o : Observed) (card : Card) (p : Seat) (h : WF o.base) :
    P.runMethod n_ObservedPlayingPhase n_play_card_by_player [encObserved c o, encCard card, encSeat p]
      = match o.play card p with
        | .error .dummyNotSet => .error (.exc K.Exception)
        | .error _ => .error (.exc K.ValueError)
        | .ok o' => .ok (.none, encObserved c o') := by
  have run : P.runMethod n_ObservedPlayingPhase n_play_card_by_player [encObserved c o, encCard card, encSeat p]
      = callF (mkRec P 999) m_ObservedPlayingPhase_play_card_by_player [encObserved c o, encCard card, encSeat p] := rfl
  rw [run, observed_play_call 939 c o card p h]
  cases o.play card p with
  | error e => cases e <;> rfl
  | ok o' => rfl

theorem observed_available_translated (c : Contract) (o : Observed) :
    P.runMethod n_ObservedPlayingPhase n_current_available_cards_in_hand [encObserved c o]
      = .ok (.tuple ((o.base.currentAvailable o.hand).map encCard), encObserved c o) := by
  have run : P.runMethod n_ObservedPlayingPhase n_current_available_cards_in_hand [encObserved c o]
      = callF (mkRec P 999) m_ObservedPlayingPhase_current_available_cards_in_hand [encObserved c o] := rfl
  rw [run, observed_available_call 969 c o]; rfl

theorem observed_available_dummy_translated (c : Contract) (o : Observed) :
    P.runMethod n_ObservedPlayingPhase n_current_available_cards_in_dummy_hand [encObserved c o]
      = match o.dummyHand with
        | none => .error (.exc K.Exception)
        | some dl => .ok (.tuple ((o.base.currentAvailable dl).map encCard), encObserved c o) := by
  have run : P.runMethod n_ObservedPlayingPhase n_current_available_cards_in_dummy_hand [encObserved c o]
      = callF (mkRec P 999) m_ObservedPlayingPhase_current_available_cards_in_dummy_hand [encObserved c o] := rfl
  rw [run, observed_available_dummy_call 969 c o]; rfl

theorem wf_observed_init (c : Contract) (me : Seat) (hand : List Card) (o : Observed)
    (h : Observed.init c me hand = some o) : WF o.base := by
  simp only [Observed.init] at h
  cases hi : PState.init c with
  | none => rw [hi] at h; cases h
  | some s => rw [hi] at h; cases h; exact wf_init c s hi

theorem wf_observed_set_dummy (o : Observed) (dh : List Card) (h : WF o.base) : WF (o.setDummy dh).base := h

theorem wf_observed_play (o o' : Observed) (card : Card) (p : Seat) (h : WF o.base)
    (hp : o.play card p = .ok o') : WF o'.base := by
  unfold Observed.play at hp
  split at hp
  · cases hp
  · split at hp
    · split at hp
      · cases hp
      · cases hp; exact wf_playCard _ _ h
    · split at hp
      · split at hp
        · cases hp
        · split at hp
          · cases hp
          · cases hp; exact wf_playCard _ _ h
      · cases hp; exact wf_playCard _ _ h

end Bridge.Translated
