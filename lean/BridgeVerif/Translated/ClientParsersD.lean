import BridgeVerif.Translated.ClientParsersA
/-!
# The TRANSLATED `Client.parse_team_names` IS `parseTeamNames?`

`m_Client_parse_team_names` (Generated/PyCoreNet.lean; `client.py`:
`parse_match_base(r'Teams : N/S : "(.*)".? E/W : "(.*)"', content)`, then `(group(1), group(2))`) executed SYMBOLICALLY
by the MiniPy interpreter in the whole translated program `P`, its `re.match(…, re.IGNORECASE)` being the generic
regular-expression engine (`RegexMsgClient.match_teams`).  For EVERY text whose characters are in the class
`RegexMsgClient.agreeTeams` (every ASCII text is; so is any text whose non-ASCII characters do not case-fold onto a letter
of the pattern — the team names are otherwise arbitrary: quotes, `E/W : "` inside a name, …), at EVERY fuel ≥ 31:

* `parseTeamNames? s = some (ns, ew)` : the call returns `(ns, ew)` (the state returned is `.str s`);
* `parseTeamNames? s = none` : the call raises `Exception` (from `parse_match_base`).
-/
set_option maxRecDepth 4000
namespace Bridge.Translated.ClientParsers
open Bridge Bridge.Py Bridge.Generated.PyCore Bridge.Translated Bridge.RegexHands Bridge.RegexMsgClient

theorem teams_pat_eq : (['T', 'e', 'a', 'm', 's', ' ', ':', ' ', 'N', '/', 'S', ' ', ':', ' ', '"', '(', '.', '*', ')', '"', '.', '?', ' ', 'E', '/', 'W', ' ', ':', ' ', '"', '(', '.', '*', ')', '"'] : List Char) = TEAMS_PATTERN := by
  decide +kernel

/-- what the translated method computes, in one statement -/
def teamsResult (s : Str) : R (Val × Val) :=
  match parseTeamNames? s with
  | none => .error (.exc K.Exception)
  | some (ns, ew) => .ok (.tuple [.str ns, .str ew], .str s)

theorem teams_exec_nomatch (f : Nat) (s : Str) (hs : ∀ x ∈ s, agreeTeams x = true) (h : parseTeamNames? s = none) :
    callF (mkRec P (f+30)) m_Client_parse_team_names [.str s] = .error (.exc K.Exception) := by
  have hm := match_teams s hs
  simp only [teamFields?, h, Option.map_none] at hm
  have hb := reMatch_none _ _ hm
  rw [callF_def]
  simp only [m_Client_parse_team_names]
  rw [teams_pat_eq]
  ppsimp [mth_match_base, match_base_none _ _ _ hb]

theorem teams_exec_match (f : Nat) (s : Str) (hs : ∀ x ∈ s, agreeTeams x = true) (ns ew : Str)
    (h : parseTeamNames? s = some (ns, ew)) :
    callF (mkRec P (f+30)) m_Client_parse_team_names [.str s] = .ok (.tuple [.str ns, .str ew], .str s) := by
  have hm := match_teams s hs
  simp only [teamFields?, h, Option.map_some] at hm
  obtain ⟨g0, hb⟩ := reMatch_some _ _ _ hm
  rw [callF_def]
  simp only [m_Client_parse_team_names]
  rw [teams_pat_eq]
  ppsimp [mth_match_base, match_base_some _ _ _ _ hb, pp_mth_m_group, pp_m_group_call1, pp_m_group_call2, List.map_cons,
    List.map_nil, iterItems_tuple]

/-- THE TRANSLATED METHOD, at every fuel ≥ 31, on every text in the class -/
theorem parse_team_names_translated (s : Str) (hs : ∀ x ∈ s, agreeTeams x = true) (g : Nat) (hg : 31 ≤ g) :
    callFn P g m_Client_parse_team_names [.str s] = teamsResult s := by
  refine st_callFn_of_callF (K := 30) (fun f => ?_) g hg
  unfold teamsResult
  cases h : parseTeamNames? s with
  | none => exact teams_exec_nomatch f s hs h
  | some x => obtain ⟨ns, ew⟩ := x; exact teams_exec_match f s hs ns ew h

/-- (B, success) -/
theorem parse_team_names_ok (s : Str) (hs : ∀ x ∈ s, agreeTeams x = true) (ns ew : Str)
    (h : parseTeamNames? s = some (ns, ew)) (g : Nat) (hg : 31 ≤ g) :
    callFn P g m_Client_parse_team_names [.str s] = .ok (.tuple [.str ns, .str ew], .str s) := by
  rw [parse_team_names_translated s hs g hg, teamsResult, h]

/-- (B, failure) -/
theorem parse_team_names_raises (s : Str) (hs : ∀ x ∈ s, agreeTeams x = true) (h : parseTeamNames? s = none) (g : Nat)
    (hg : 31 ≤ g) : callFn P g m_Client_parse_team_names [.str s] = .error (.exc K.Exception) := by
  rw [parse_team_names_translated s hs g hg, teamsResult, h]

/-- in the form the bundled-client capstone asks (`Returns` of Translated/ThreadsClientALemmas.lean, inside
`connectParses`) -/
theorem parse_team_names_returns (s : Str) (hs : ∀ x ∈ s, agreeTeams x = true) (ns ew : Str)
    (h : parseTeamNames? s = some (ns, ew)) :
    ∀ f, 31 ≤ f → (callFn P f m_Client_parse_team_names [.str s]).map (·.1) = .ok (.tuple [.str ns, .str ew]) := by
  intro f hf
  rw [parse_team_names_ok s hs ns ew h f hf]
  rfl

/-- for ASCII texts -/
theorem parse_team_names_ok_ascii (s : Str) (hs : ∀ x ∈ s, x.toNat < 128) (ns ew : Str)
    (h : parseTeamNames? s = some (ns, ew)) (g : Nat) (hg : 31 ≤ g) :
    callFn P g m_Client_parse_team_names [.str s] = .ok (.tuple [.str ns, .str ew], .str s) :=
  parse_team_names_ok s (fun x hx => agreeTeams_ascii x (hs x hx)) ns ew h g hg

/-! ### non-vacuity -/
example : callFn P 31 m_Client_parse_team_names [.str "TEAMS : n/s : \"A \"1\"\"; E/W : \"x\" e/w : \"B\" tail".toList]
    = .ok (.tuple [.str "A \"1\"\"; E/W : \"x".toList, .str "B".toList],
        .str "TEAMS : n/s : \"A \"1\"\"; E/W : \"x\" e/w : \"B\" tail".toList) :=
  parse_team_names_ok_ascii _ (by decide +kernel) _ _ (by decide +kernel) 31 (Nat.le_refl _)
example : callFn P 31 m_Client_parse_team_names [.str "Teams : N/S : \"A\"xy E/W : \"B\"".toList]
    = .error (.exc K.Exception) :=
  parse_team_names_raises _ (fun x hx => agreeTeams_ascii x (by revert x; decide +kernel)) (by decide +kernel) 31
    (Nat.le_refl _)

end Bridge.Translated.ClientParsers
