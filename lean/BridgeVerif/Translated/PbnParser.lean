import BridgeVerif.Translated.PbnParserLemmasH
/-!
# pbn_handler/parser.py AS TRANSLATED computes exactly the model's parser  (C17)

`Generated/PyCorePbn.lean` (class `PbnParser`, re-written from `parser.py` on every run) executed by the MiniPy interpreter
at the top-level fuel, compared with the hand-written model `Model/Pbn.lean` (`PbnSt`, `extractContent`, `parseBoard`,
`streamStep`, `parseStream`):

* `pp_new_translated` — `PbnParser()` is `encPbnParser {} [] []`;
* `pp_extract_content_translated` — `extract_content(s)` turns `encPbnParser st cl cb` into
  `encPbnParser (extractContent (s.length + 1) st s) cl' cb'` (the comment lists `cl'`, `cb'` are not observable through
  the parsing API; they are existentially quantified) and returns `None`;
* `pp_parse_board_translated` — `parse_board()` returns `encGame (parseBoard st.buffer.reverse)`, the object unchanged;
* `pp_parse_stream_translated`, `pp_parse_all_translated` — on a fresh parser and any NUMBER of lines,
  `parse_stream(lines)` (its yielded values, collected by the translator in a list) and `parse_all(lines)` return
  `(parseStream lines).map encGame`; `…_from` variants start from any parser state (`streamFrom st`);
  `…_no_pct` variants: files without a line that starts with `%` need no hypothesis about such lines;
* a two-game file as non-vacuity example (end of the file).

A parser instance is `encPbnParser st commentList commentBuffer` (fields in the order `__init__` creates them;
`tag_pair_buffer` oldest first = `st.buffer.reverse`); a game is `encGame g`, the `dict` name ↦ value in insertion order.

Hypotheses — each is what the INTERPRETED code needs:
* `hf : PbnRegexFacts` (Lemmas/RegexPbnFacts.lean; proved as `pbnRegexFacts` in Lemmas/RegexPbn.lean): what the regular
  expression engine answers on the three patterns of the class.  The pattern texts there are literally the constants
  the generated class returns (`pp_tag_call`, `pp_replace_call`, `pp_vos_call` hold by `rfl`).
* `hne : PbnSubNonempty` (`parse_board`, hence the stream functions): a match of `_VALUE_OR_SPACE_PATTERN` is never empty.
  The lambda of `re.sub` reads `m.group(0)[0]`, which raises `IndexError` on an empty match, where `subJoin` of
  `PbnRegexFacts.sub_value_or_space` yields `' '`; so this does not follow from `PbnRegexFacts`.  (Proved as
  `Bridge.RegexPbn.sub_matches_nonempty` in Lemmas/RegexPbnD.lean; `Translated/PbnParserClosed.lean` instantiates both.)
* `s.length ≤ 244` (`extract_content`), every line shorter than 241 (`parse_stream`) / 240 (`parse_all`) characters:
  `extract_content` is recursive, every recursive call is made on a strictly shorter string four levels of fuel further
  down, and `runMethod` gives `topFuel = 1000` levels.  The lemmas at an arbitrary fuel (`pp_extract_call`:
  `f + 4 * n + 16` levels for strings shorter than `n`; `pp_stream_call`, `pp_all_call`) have no absolute bound.  This is a
  limit of the fuel, not of Python (PBN 2.1 limits a line to 255 characters).  The NUMBER of lines is unbounded: a `for`
  loop spends no fuel per element.
* every line is non-empty (`line[0]`; a text file never yields an empty line).
* `pctLineOk l = true` for every line `l` that starts with `%` (`PbnParserLemmasF.lean`; a decidable check): on such a line
  the code runs `re.match(r'% PBN (\d+)\.(\d+)', l)`, `int()` of its two groups, and `re.match(r'% EXPORT', l)`; the model
  ignores the line.  `pctLineOk l` says exactly that these do not raise: the first `re.match` fails, or groups 1 and 2 of
  the match object (as the translated program sees it, `matchVal`) are texts `int()` accepts; and the second `re.match`
  gives an answer.  (It is asked of every `%` line, also of one met inside a `{ … }` comment, where the code does not
  look at it.)  No regular-expression reasoning is done here about these two patterns.
-/
namespace Bridge.Translated
open Bridge Bridge.Py Bridge.Generated.PyCore Bridge.RegexPbn

theorem pp_runMethod_eq (c m : Id) (args : List Val) (cm : Id) (fd : FuncDef)
    (hm : P.method? classDepth c m = some (cm, fd)) : P.runMethod c m args = callF (mkRec P 999) fd args := by
  simp only [Program.runMethod, hm]; rfl

/-! ## (1) `PbnParser()` -/
theorem pp_new_translated : P.runNew n_PbnParser [] = .ok (encPbnParser {} [] []) := pp_construct 992

/-! ## (2) `extract_content` -/
theorem pp_extract_content_translated (hf : PbnRegexFacts) (st : PbnSt) (cl cb : List Str) (s : Str)
    (hlen : s.length ≤ 244) :
    ∃ cl' cb', P.runMethod n_PbnParser n_extract_content [encPbnParser st cl cb, .str s]
      = .ok (.none, encPbnParser (extractContent (s.length + 1) st s) cl' cb') := by
  rw [pp_runMethod_eq _ _ _ _ _ pp_mth_extract]
  exact pp_extract_call hf 245 3 (s.length + 1) st cl cb s (by omega) (Nat.lt_succ_self _)

/-! ## (3) `parse_board` -/
theorem pp_parse_board_translated (hf : PbnRegexFacts) (hne : PbnSubNonempty) (st : PbnSt) (cl cb : List Str) :
    P.runMethod n_PbnParser n_parse_board [encPbnParser st cl cb]
      = .ok (encGame (parseBoard st.buffer.reverse), encPbnParser st cl cb) := by
  rw [pp_runMethod_eq _ _ _ _ _ pp_mth_board]
  exact pp_board_call hf hne 979 st cl cb

/-! ## (4) `parse_stream`, `parse_all` -/
theorem pp_parse_stream_translated_from (hf : PbnRegexFacts) (hne : PbnSubNonempty) (lines : List Str)
    (hok : ∀ l ∈ lines, l ≠ [] ∧ l.length < 241) (hpct : ∀ l ∈ lines, l.head? = some '%' → pctLineOk l = true)
    (st : PbnSt) (cl cb : List Str) :
    ∃ st' cl' cb', P.runMethod n_PbnParser n_parse_stream [encPbnParser st cl cb, .tuple (lines.map Val.str)]
      = .ok (.tuple ((streamFrom st lines).map encGame), encPbnParser st' cl' cb') := by
  rw [pp_runMethod_eq _ _ _ _ _ pp_mth_stream]
  exact pp_stream_call hf hne 2 241 lines hok hpct st cl cb

theorem pp_parse_all_translated_from (hf : PbnRegexFacts) (hne : PbnSubNonempty) (lines : List Str)
    (hok : ∀ l ∈ lines, l ≠ [] ∧ l.length < 240) (hpct : ∀ l ∈ lines, l.head? = some '%' → pctLineOk l = true)
    (st : PbnSt) (cl cb : List Str) :
    ∃ st' cl' cb', P.runMethod n_PbnParser n_parse_all [encPbnParser st cl cb, .tuple (lines.map Val.str)]
      = .ok (.tuple ((streamFrom st lines).map encGame), encPbnParser st' cl' cb') := by
  rw [pp_runMethod_eq _ _ _ _ _ pp_mth_all]
  exact pp_all_call hf hne 3 240 lines hok hpct st cl cb

/-- `list(PbnParser().parse_stream(lines))` -/
theorem pp_parse_stream_translated (hf : PbnRegexFacts) (hne : PbnSubNonempty) (lines : List Str)
    (hok : ∀ l ∈ lines, l ≠ [] ∧ l.length < 241) (hpct : ∀ l ∈ lines, l.head? = some '%' → pctLineOk l = true) :
    ∃ self', P.runMethod n_PbnParser n_parse_stream [encPbnParser {} [] [], .tuple (lines.map Val.str)]
      = .ok (.tuple ((parseStream lines).map encGame), self') := by
  obtain ⟨st', cl', cb', h⟩ := pp_parse_stream_translated_from hf hne lines hok hpct {} [] []
  exact ⟨_, h⟩

/-- THE TRANSLATED `PbnParser().parse_all(lines)` returns the model's games -/
theorem pp_parse_all_translated (hf : PbnRegexFacts) (hne : PbnSubNonempty) (lines : List Str)
    (hok : ∀ l ∈ lines, l ≠ [] ∧ l.length < 240) (hpct : ∀ l ∈ lines, l.head? = some '%' → pctLineOk l = true) :
    ∃ self', P.runMethod n_PbnParser n_parse_all [encPbnParser {} [] [], .tuple (lines.map Val.str)]
      = .ok (.tuple ((parseStream lines).map encGame), self') := by
  obtain ⟨st', cl', cb', h⟩ := pp_parse_all_translated_from hf hne lines hok hpct {} [] []
  exact ⟨_, h⟩

/-- files without `%` lines: no hypothesis about the two `re.match` calls -/
theorem pp_parse_all_translated_no_pct (hf : PbnRegexFacts) (hne : PbnSubNonempty) (lines : List Str)
    (hok : ∀ l ∈ lines, l ≠ [] ∧ l.length < 240) (hno : ∀ l ∈ lines, l.head? ≠ some '%') :
    ∃ self', P.runMethod n_PbnParser n_parse_all [encPbnParser {} [] [], .tuple (lines.map Val.str)]
      = .ok (.tuple ((parseStream lines).map encGame), self') :=
  pp_parse_all_translated hf hne lines hok fun l hl h => absurd h (hno l hl)

theorem pp_parse_stream_translated_no_pct (hf : PbnRegexFacts) (hne : PbnSubNonempty) (lines : List Str)
    (hok : ∀ l ∈ lines, l ≠ [] ∧ l.length < 241) (hno : ∀ l ∈ lines, l.head? ≠ some '%') :
    ∃ self', P.runMethod n_PbnParser n_parse_stream [encPbnParser {} [] [], .tuple (lines.map Val.str)]
      = .ok (.tuple ((parseStream lines).map encGame), self') :=
  pp_parse_stream_translated hf hne lines hok fun l hl h => absurd h (hno l hl)

/-! ## (5) non-vacuity: a two-game file (a `%` header, a comment, a blank line between the games, a repeated tag) -/
def ppExampleLines : List Str :=
  ["% PBN 2.1\n".toList, "[Event \"A  B\"]\n".toList, "[Board \"1\"] ; first\n".toList, "[Event \"again\"]\n".toList,
   "\n".toList, "[Board \"2\"]\n".toList]

def ppExampleGames : List Game :=
  [[("Event".toList, "A  B".toList), ("Board".toList, "1".toList)], [("Board".toList, "2".toList)]]

theorem pp_example_model : parseStream ppExampleLines = ppExampleGames := by decide +kernel
theorem pp_example_pct : ∀ l ∈ ppExampleLines, l.head? = some '%' → pctLineOk l = true := by decide +kernel
theorem pp_example_ok : ∀ l ∈ ppExampleLines, l ≠ [] ∧ l.length < 240 := by decide +kernel

/-- the theorem instantiated: the translated `parse_all` returns the two games -/
example (hf : PbnRegexFacts) (hne : PbnSubNonempty) :
    ∃ self', P.runMethod n_PbnParser n_parse_all [encPbnParser {} [] [], .tuple (ppExampleLines.map Val.str)]
      = .ok (.tuple (ppExampleGames.map encGame), self') := by
  rw [← pp_example_model]
  exact pp_parse_all_translated hf hne ppExampleLines pp_example_ok pp_example_pct

end Bridge.Translated

