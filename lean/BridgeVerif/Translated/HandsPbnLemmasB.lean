import BridgeVerif.Translated.HandsPbnLemmasA
/-! Translated `Hands._hand_parser` (hands.py) = model, part B: `_Match.group`, the inner loop
`for r in rank: cards.add(Card(Card.rank_str_to_int(r), suit))` by induction on the group, the outer loop over the four
items of `mapped_ranks` unrolled, the method at any sufficient fuel. -/
namespace Bridge.Translated.HandsPbn
open Bridge Bridge.Py Bridge.Generated.PyCore Bridge.Translated Bridge.RegexHands

theorem hp_mth_hand_parser : P.method? classDepth n_Hands n__hand_parser = some (n_Hands, m_Hands__hand_parser) := rfl
theorem hp_mth_group : P.method? classDepth n__Match n_group = some (n__Match, m__Match_group) := rfl

/-- `match.group(i)` on a match object with five texts -/
theorem hp_group_call (f : Nat) (x0 x1 x2 x3 x4 : Val) (i : Int) (k : Nat) (h : normIndex 5 i = some k) :
    callF (mkRec P (f+6)) m__Match_group [.obj n__Match [(n_texts, .tuple [x0, x1, x2, x3, x4])], .int i]
      = .ok ([x0, x1, x2, x3, x4].getD k .none, .obj n__Match [(n_texts, .tuple [x0, x1, x2, x3, x4])]) := by
  rw [callF_def]
  simp only [m__Match_group, bindParams, Option.map]
  ppsimp [index_tuple, h]

theorem hp_builtin_items (r : Rec) (kvs : List (Val × Val)) :
    builtinF r P .items [.dict kvs] = .ok (.tuple (kvs.map fun (k, v) => .tuple [k, v])) := rfl
theorem hp_iter_str (s : List Char) : iterItems P (.str s) = some (s.map fun c => .str [c]) := rfl

def hpOuter : List Stmt := match m_Hands__hand_parser.body.getD 5 .pass with
  | .for _ _ b => b
  | _ => []
def hpInner : List Stmt := match hpOuter.getD 0 .pass with
  | .for _ _ b => b
  | _ => []

theorem hp_suitCards_cons (su : Suit) (hsu : su ≠ .NT) (c : Char) (g : List Char) (r : Nat) (hr : rankOfChar? c = some r)
    (h1 : 2 ≤ r) (h2 : r ≤ 14) : suitCards su (c :: g) = ⟨r, su⟩ :: suitCards su g := by
  have h3 : ¬ (r < 2 ∨ 14 < r) := by omega
  simp only [suitCards, List.filterMap_cons, hr, Option.bind_some, mkCard?, h3, if_false, hsu]

/-- the inner loop: every rank character of the group adds its card (first occurrences stay) -/
theorem hp_inner (f : Nat) (a b d : Val) (su : Suit) (hsu : su ≠ .NT) : ∀ (g : List Char),
    (∀ c ∈ g, isRankChar c = true) → ∀ (acc : List Card) (rk : Val) (tail : Env),
    forF (mkRec P (f+14)) [n_r] hpInner
        ((n_pbn_hand, a) :: (n_cards, .tuple (acc.map encCard)) :: (n_match, b) :: (n_mapped_ranks, d)
          :: (n_suit, encSuit su) :: (n_rank, rk) :: tail) (g.map fun c => .str [c])
      = .ok ((n_pbn_hand, a)
          :: (n_cards, .tuple (((suitCards su g).foldl (fun acc c => if c ∈ acc then acc else acc ++ [c]) acc).map encCard))
          :: (n_match, b) :: (n_mapped_ranks, d) :: (n_suit, encSuit su) :: (n_rank, rk)
          :: g.foldl (fun t c => update t n_r (.str [c])) tail, .next) := by
  intro g
  induction g with
  | nil => intro _ acc rk tail; rfl
  | cons c g ih =>
    intro hg acc rk tail
    obtain ⟨r, hr, h1, h2⟩ := hp_rank_char c (hg c (List.mem_cons_self ..))
    have hok : (⟨r, su⟩ : Card).ok = true := by
      simp only [Card.ok, Bool.and_eq_true, decide_eq_true_eq]; exact ⟨⟨h1, h2⟩, hsu⟩
    have hc := fun k => hd_construct_card k ⟨r, su⟩ hok
    simp only at hc
    have hcard : Val.obj n_Card [(n_rank, .int r), (n_suit, encSuit su)] = encCard ⟨r, su⟩ := rfl
    have ih' := fun acc' tail' => ih (fun x hx => hg x (List.mem_cons_of_mem _ hx)) acc' rk tail'
    simp only [hpInner, hpOuter, m_Hands__hand_parser, List.getD_cons_succ, List.getD_cons_zero] at ih' ⊢
    rw [hp_suitCards_cons su hsu c g r hr h1 h2]
    simp only [List.map_cons, forF, List.foldl_cons]
    by_cases hm : (⟨r, su⟩ : Card) ∈ acc
    · ppsimp [jp_mth_rank_str_to_int, jp_rank_str_to_int_call _ _ _ hr, hc, contains_encCard, hm]
      exact ih' _ _
    · ppsimp [jp_mth_rank_str_to_int, jp_rank_str_to_int_call _ _ _ hr, hc, contains_encCard, hm, map_snoc]
      exact ih' _ _

/-- the same with the suit and the set given as interpreter values -/
theorem hp_inner' (f : Nat) (a b d : Val) (su : Suit) (hsu : su ≠ .NT) (g : List Char)
    (hg : ∀ c ∈ g, isRankChar c = true) (acc : List Card) (rk : Val) (tail : Env)
    (sv : Val) (hsv : sv = encSuit su) (accv : List Val) (hacc : accv = acc.map encCard) :
    forF (mkRec P (f+14)) [n_r] hpInner
        ((n_pbn_hand, a) :: (n_cards, .tuple accv) :: (n_match, b) :: (n_mapped_ranks, d)
          :: (n_suit, sv) :: (n_rank, rk) :: tail) (g.map fun c => .str [c])
      = .ok ((n_pbn_hand, a)
          :: (n_cards, .tuple (((suitCards su g).foldl (fun acc c => if c ∈ acc then acc else acc ++ [c]) acc).map encCard))
          :: (n_match, b) :: (n_mapped_ranks, d) :: (n_suit, sv) :: (n_rank, rk)
          :: g.foldl (fun t c => update t n_r (.str [c])) tail, .next) := by
  subst hsv; subst hacc; exact hp_inner f a b d su hsu g hg acc rk tail

theorem hp_truthy_obj (c : Id) (fs : List (Id × Val)) : truthy (.obj c fs) = true := rfl
theorem hp_truthy_none : truthy .none = false := rfl
theorem hp_norm5 : normIndex 5 1 = some 1 ∧ normIndex 5 2 = some 2 ∧ normIndex 5 3 = some 3 ∧ normIndex 5 4 = some 4
    ∧ normIndex 5 5 = none := by decide

/-- `Hands._hand_parser(field)` at any sufficient fuel, for a field without line feed -/
theorem hp_hand_parser_call (hf : HandsRegexFacts) (f : Nat) (fld : List Char) (hnl : '\n' ∉ fld) :
    callF (mkRec P (f+30)) m_Hands__hand_parser [.str fld]
      = match pyHandParser? fld with
        | some l => .ok (.tuple (l.map encCard), .str fld)
        | none => .error (.exc K.Exception) := by
  rw [callF_def]
  simp only [m_Hands__hand_parser, bindParams, Option.map]
  by_cases h1 : fld = ['-']
  · subst h1
    have e : pyHandParser? ['-'] = some [] := by simp [pyHandParser?, handRaw?, dedupFirst]
    rw [e]
    ppsimp [builtin_set_nil, jp_beq_str']
    rfl
  · have hfact := hf.match_hand fld hnl
    cases hm : matchGroups 3 fld with
    | none =>
      rw [hm] at hfact
      have e : pyHandParser? fld = none := by simp [pyHandParser?, handRaw?, h1, hm]
      rw [e]
      ppsimp [builtin_set_nil, jp_beq_str', h1, hp_glob_hand_pattern, hp_reMatch_none _ _ _ hfact, hp_truthy_none]
    | some gs =>
      rw [hm] at hfact
      obtain ⟨ga, gb, gc, gd, rfl, ha, hb, hc, hd⟩ := hp_matchGroups3 fld _ hm
      obtain ⟨g0, hre⟩ := hp_reMatch_some _ _ _ hfact
      have e : pyHandParser? fld = some ((suitCards .C gd).foldl (fun acc c => if c ∈ acc then acc else acc ++ [c])
          ((suitCards .D gc).foldl (fun acc c => if c ∈ acc then acc else acc ++ [c])
          ((suitCards .H gb).foldl (fun acc c => if c ∈ acc then acc else acc ++ [c])
          ((suitCards .S ga).foldl (fun acc c => if c ∈ acc then acc else acc ++ [c]) [])))) := by
        simp only [pyHandParser?, handRaw?, h1, hm, if_false, Option.map_some, dedupFirst, List.foldl_append]
      rw [e]
      have hl := fun a b d su hsu g hg acc rk tail sv hsv accv hacc =>
        hp_inner' (f+14) a b d su hsu g hg acc rk tail sv hsv accv hacc
      simp only [hpInner, hpOuter, m_Hands__hand_parser, List.getD_cons_succ, List.getD_cons_zero] at hl
      ppsimp [builtin_set_nil, jp_beq_str', h1, hp_glob_hand_pattern, hre, hp_truthy_obj, hp_mth_group,
        hp_group_call _ _ _ _ _ _ _ _ hp_norm5.1, hp_group_call _ _ _ _ _ _ _ _ hp_norm5.2.1,
        hp_group_call _ _ _ _ _ _ _ _ hp_norm5.2.2.1, hp_group_call _ _ _ _ _ _ _ _ hp_norm5.2.2.2.1,
        List.map_cons, List.map_nil, List.getD_cons_succ, List.getD_cons_zero, updateD, Val.beq, hp_builtin_items,
        iterItems_tuple, forF, hp_iter_str]
      rw [hl _ _ _ .S (by decide) ga ha [] _ _ (.enum n_Suit 4) rfl [] rfl]
      ppsimp [hp_iter_str]
      rw [hl _ _ _ .H (by decide) gb hb _ _ _ (.enum n_Suit 3) rfl _ rfl]
      ppsimp [hp_iter_str]
      rw [hl _ _ _ .D (by decide) gc hc _ _ _ (.enum n_Suit 2) rfl _ rfl]
      ppsimp [hp_iter_str]
      rw [hl _ _ _ .C (by decide) gd hd _ _ _ (.enum n_Suit 1) rfl _ rfl]
      ppsimp []

end Bridge.Translated.HandsPbn
