import BridgeVerif.Translated.JsonParserLemmasC
/-! Translated JSON parser (parser.py) = model: the dictionary comprehensions (`dda`), the `BoardSetting` encoder, `convert_board_setting` -/
namespace Bridge.Translated
open Bridge Bridge.Py Bridge.Generated.PyCore

/-! ## dictionaries built by comprehension -/
/-- the `dict` built by inserting the pairs in order (a repeated key keeps its first position and takes the last value);
when the keys are pairwise different (`jp_encDict_nodup`) it is the list itself -/
def encDict (kvs : List (Val × Val)) : Val := .dict (kvs.foldl (fun acc (k, v) => updateD acc k v) [])

def encDdaRow (row : List (Suit × Int)) : Val := encDict (row.map fun sv => (encSuit sv.1, .int sv.2))
/-- a double-dummy table -/
def encDda (d : Dda) : Val := encDict (d.map fun pr => (encSeat pr.1, encDdaRow pr.2))

/-- `d.items()` -/
def itemsOf (kvs : List (Val × Val)) : List Val := kvs.map fun (k, v) => Val.tuple [k, v]
theorem jp_items (r : Rec) (kvs : List (Val × Val)) : builtinF r P .items [.dict kvs] = .ok (.tuple (itemsOf kvs)) := rfl
theorem jp_itemsOf_cons (k v : Val) (r : List (Val × Val)) : itemsOf ((k, v) :: r) = .tuple [k, v] :: itemsOf r := rfl
theorem jp_itemsOf_nil : itemsOf [] = [] := rfl

def ddaCol? (sv : List Char × Json) : Option (Suit × Int) := do
  let s ← suitOfKey? sv.1
  match sv.2 with
  | .int n => pure (s, n)
  | _ => none
def ddaRow? (pr : List Char × Json) : Option (Seat × List (Suit × Int)) := do
  let p ← seatOfName? pr.1
  let cols ← pr.2.obj?
  let cols ← cols.mapM ddaCol?
  pure (p, cols)
theorem jp_ddaOfJson_obj (rows : List (List Char × Json)) : ddaOfJson? (.obj rows) = rows.mapM ddaRow? := rfl

theorem jp_mapM_cons_some {α β} (g : α → Option β) (a : α) (l : List α) (r : List β) (h : (a :: l).mapM g = some r) :
    ∃ b r', g a = some b ∧ l.mapM g = some r' ∧ r = b :: r' := by
  rw [List.mapM_cons] at h
  cases ha : g a with
  | none => rw [ha] at h; cases h
  | some b =>
    cases hl : l.mapM g with
    | none => rw [ha, hl] at h; cases h
    | some r' => rw [ha, hl] at h; cases h; exact ⟨b, r', rfl, rfl, rfl⟩

theorem jp_dda_cols (f : Nat) (env : Env) (cols : List (List Char × Json)) : ∀ (row : List (Suit × Int)),
    cols.mapM ddaCol? = some row →
    dictCompTF (mkRec P (f+4)) env [n_s, n_n] (.byName n_Suit (.var n_s)) (.var n_n) (itemsOf (membersToKvs cols))
      = .ok (row.map fun sv => (encSuit sv.1, .int sv.2)) := by
  induction cols with
  | nil => intro row h; simp at h; subst h; rfl
  | cons a cols ih =>
    intro row h
    obtain ⟨b, r', ha, hl, rfl⟩ := jp_mapM_cons_some _ _ _ _ h
    obtain ⟨k, v⟩ := a
    simp only [ddaCol?] at ha
    cases hk : suitOfKey? k with
    | none => rw [hk] at ha; cases ha
    | some su =>
      rw [hk] at ha
      cases v <;> try (cases ha)
      rename_i n
      simp only [membersToKvs, jp_itemsOf_cons, dictCompTF, ih r' hl, jsonToVal]
      ppsimp [bindTargets, jp_cls_Suit, jp_member_suit _ _ hk, List.map_cons]
      rfl

theorem jp_dda_rows (f : Nat) (env : Env) (rows : List (List Char × Json)) : ∀ (d : Dda),
    rows.mapM ddaRow? = some d →
    dictCompTF (mkRec P (f+8)) env [n_p, n_d] (.byName n_Player (.var n_p))
        (.dictCompT [n_s, n_n] (.builtin .items [.var n_d]) (.byName n_Suit (.var n_s)) (.var n_n))
        (itemsOf (membersToKvs rows))
      = .ok (d.map fun pr => (encSeat pr.1, encDdaRow pr.2)) := by
  induction rows with
  | nil => intro d h; simp at h; subst h; rfl
  | cons a rows ih =>
    intro d h
    obtain ⟨b, r', ha, hl, rfl⟩ := jp_mapM_cons_some _ _ _ _ h
    obtain ⟨k, v⟩ := a
    simp only [ddaRow?] at ha
    cases hk : seatOfName? k with
    | none => rw [hk] at ha; cases ha
    | some p =>
      rw [hk] at ha
      cases v <;> try (cases ha)
      rename_i cols
      cases hc : cols.mapM ddaCol? with
      | none => simp [Json.obj?, hc] at ha
      | some row =>
        simp [Json.obj?, hc] at ha
        subst ha
        simp only [membersToKvs, jp_itemsOf_cons, dictCompTF, ih r' hl, jsonToVal]
        ppsimp [bindTargets, jp_cls_Player, jp_member_seat _ _ hk, List.map_cons, jp_items, iterItems_tuple,
          jp_dda_cols _ _ _ _ hc]
        rfl

/-! ## `convert_board_setting` -/
/-- a `BoardSetting` instance (fields in the order of the class definition) holding `hands` as its deal -/
def encSettingWith (hands : Val) (e : SettingEntry) : Val :=
  .obj n_BoardSetting [(n_hands, hands), (n_dealer, encSeat e.dealer), (n_vul, encVul e.vul), (n_board_id, .str e.boardId),
    (n_dda, encOpt encDda e.dda)]
/-- the `BoardSetting` instance for the model's record -/
def encSetting (e : SettingEntry) : Val := encSettingWith (encHands e.deal) e

/-- the `deal` member of a record -/
def dealOf (j : Json) : Json := (j.get? (jkey "deal")).getD .null

theorem jp_construct_setting (r : Rec) (a b c d e : Val) :
    constructF r P n_BoardSetting [a, b, c, d, e]
      = .ok (.obj n_BoardSetting [(n_hands, a), (n_dealer, b), (n_vul, c), (n_board_id, d), (n_dda, e)]) := rfl

theorem jp_find_convert_board_setting : findFunc P.funcs n_convert_board_setting = some f_convert_board_setting := rfl

theorem jp_bind_str_some (o : Option Json) (s : List Char) (h : o.bind Json.str? = some s) : o = some (.str s) := by
  cases o with
  | none => cases h
  | some v => cases v <;> first | (cases h; rfl) | cases h

theorem jp_setting_cases (j : Json) (e : SettingEntry) (hm : settingOfJson? j = some e) :
    ∃ l dealerS dealJ vulS, j = .obj l ∧
      (Json.obj l).get? ['b', 'o', 'a', 'r', 'd', '_', 'i', 'd'] = some (.str e.boardId) ∧
      (Json.obj l).get? ['d', 'e', 'a', 'l', 'e', 'r'] = some (.str dealerS) ∧ seatOfName? dealerS = some e.dealer ∧
      (Json.obj l).get? ['d', 'e', 'a', 'l'] = some dealJ ∧ handsOfJson? dealJ = some e.deal ∧
      (Json.obj l).get? ['v', 'u', 'l', 'n', 'e', 'r', 'a', 'b', 'i', 'l', 'i', 't', 'y'] = some (.str vulS) ∧
      strToVul? vulS = some e.vul ∧
      (((Json.obj l).get? ['d', 'd', 'a'] = none ∧ e.dda = none) ∨
       (∃ rows d, (Json.obj l).get? ['d', 'd', 'a'] = some (.obj rows) ∧ rows.mapM ddaRow? = some d ∧ e.dda = some d)) := by
  unfold settingOfJson? at hm
  cases h1 : (j.get? (jkey "board_id")).bind Json.str? with
  | none => rw [h1] at hm; cases hm
  | some id =>
  have g1 := jp_bind_str_some _ _ h1
  obtain ⟨l, rfl⟩ := jp_get_obj _ _ _ g1
  cases h2 : ((Json.obj l).get? (jkey "dealer")).bind Json.str? with
  | none => rw [h1, h2] at hm; cases hm
  | some dealerS =>
  have g2 := jp_bind_str_some _ _ h2
  cases h2' : seatOfName? dealerS with
  | none => rw [h1, h2, Option.bind_some, h2'] at hm; cases hm
  | some dealer =>
  cases h3 : (Json.obj l).get? (jkey "deal") with
  | none => rw [h1, h2, Option.bind_some, h2', h3] at hm; cases hm
  | some dealJ =>
  cases h3' : handsOfJson? dealJ with
  | none => rw [h1, h2, Option.bind_some, h2', h3, Option.bind_some, h3'] at hm; cases hm
  | some deal =>
  cases h4 : ((Json.obj l).get? (jkey "vulnerability")).bind Json.str? with
  | none => rw [h1, h2, Option.bind_some, h2', h3, Option.bind_some, h3', h4] at hm; cases hm
  | some vulS =>
  have g4 := jp_bind_str_some _ _ h4
  cases h4' : strToVul? vulS with
  | none => rw [h1, h2, Option.bind_some, h2', h3, Option.bind_some, h3', h4, Option.bind_some, h4'] at hm; cases hm
  | some vul =>
  rw [h1, h2, Option.bind_some, h2', h3, Option.bind_some, h3', h4, Option.bind_some, h4'] at hm
  simp only [bind, Option.bind] at hm
  cases h5 : (Json.obj l).get? (jkey "dda") with
  | none =>
    rw [h5] at hm
    cases hm
    exact ⟨l, dealerS, dealJ, vulS, rfl, g1, g2, h2', h3, h3', g4, h4', Or.inl ⟨h5, rfl⟩⟩
  | some dj =>
    rw [h5] at hm
    simp only [] at hm
    cases h5' : ddaOfJson? dj with
    | none => rw [h5'] at hm; cases hm
    | some d =>
      rw [h5'] at hm
      cases hm
      cases dj <;> try (cases h5')
      rename_i rows
      exact ⟨l, dealerS, dealJ, vulS, rfl, g1, g2, h2', h3, h3', g4, h4', Or.inr ⟨rows, d, h5, h5', rfl⟩⟩

theorem jp_convert_board_setting_call (f : Nat) (j : Json) (e : SettingEntry) (hm : settingOfJson? j = some e) :
    callF (mkRec P (f+40)) f_convert_board_setting [jsonToVal j]
      = .ok (encSettingWith (encHands (pyHands (dealOf j))) e, jsonToVal j) := by
  obtain ⟨l, dealerS, dealJ, vulS, rfl, g1, g2, g2', g3, g3', g4, g4', g5⟩ := jp_setting_cases j e hm
  have hdeal : dealOf (Json.obj l) = dealJ := by
    show ((Json.obj l).get? ['d', 'e', 'a', 'l']).getD .null = dealJ
    rw [g3]; rfl
  rw [callF_def]
  simp only [f_convert_board_setting, bindParams, Option.map, jsonToVal]
  rcases g5 with ⟨g5, g5'⟩ | ⟨rows, d, g5, g5', g5''⟩
  · ppsimp [jp_lookupD_members, g1, g2, g3, g4, g5, jsonToVal, bne, jp_cls_Player, jp_member_seat _ _ g2',
      jp_find_hands_parser, jp_hands_parser_call _ _ _ g3', jp_mth_str_to_vul, jp_str_to_vul_call _ _ _ g4',
      jp_construct_setting]
    rw [hdeal, encSettingWith, g5']; rfl
  · ppsimp [jp_lookupD_members, g1, g2, g3, g4, g5, jsonToVal, bne, jp_cls_Player, jp_member_seat _ _ g2',
      jp_find_hands_parser, jp_hands_parser_call _ _ _ g3', jp_mth_str_to_vul, jp_str_to_vul_call _ _ _ g4',
      jp_construct_setting, jp_items, iterItems_tuple, jp_dda_rows _ _ _ _ g5']
    rw [hdeal, encSettingWith, g5'']; rfl

end Bridge.Translated
