import BridgeVerif.Translated.ThreadsSeatA
import BridgeVerif.Translated.NetHelpers
import BridgeVerif.Translated.Play
/-! Translated `MainThread.playing_phase`: the `_World` methods on main's world, environments up to `lookup`, the
attributes of the `PlayingPhaseWithHands` object -/
set_option maxRecDepth 4000
namespace Bridge.Translated.MainB
open Bridge Bridge.Py Bridge.Generated.PyCore

/-! ## main's world -/

theorem mb_world_def (i : Seat → List Str) (out : List Val) (table : Val) (tables : List Val) (more : List (Val × Val)) :
    encMainWorld i out table tables more = .obj n__World [(n_ins, .dict ((qkey "t2m" .N, vtexts (i .N)) ::
        (qkey "t2m" .E, vtexts (i .E)) :: (qkey "t2m" .S, vtexts (i .S)) :: (qkey "t2m" .W, vtexts (i .W)) :: more)),
      (n_out, .tuple out), (n_table, table), (n_tables, .tuple tables), (n_eof, .bool false)] := rfl

theorem mb_methF_world (r : Rec) (i : Seat → List Str) (out : List Val) (table : Val) (tables : List Val)
    (more : List (Val × Val)) (m : Id) (args : List Val) :
    methF r P (encMainWorld i out table tables more) m args
      = callMethod r P n__World m (encMainWorld i out table tables more :: args) (.exc K.AttributeError) := rfl

theorem mb_lookupD_q (p : Seat) (a b c d : Val) (more : List (Val × Val)) :
    lookupD ((qkey "t2m" .N, a) :: (qkey "t2m" .E, b) :: (qkey "t2m" .S, c) :: (qkey "t2m" .W, d) :: more)
        (.tuple [.str ['t', '2', 'm'], encSeat p])
      = some (match p with | .N => a | .E => b | .S => c | .W => d) := by
  cases p <;> simp [lookupD, qkey, vstr, Val.beq, beqL, encSeat, Seat.value]

theorem mb_updateD_q (p : Seat) (a b c d v : Val) (more : List (Val × Val)) :
    updateD ((qkey "t2m" .N, a) :: (qkey "t2m" .E, b) :: (qkey "t2m" .S, c) :: (qkey "t2m" .W, d) :: more)
        (.tuple [.str ['t', '2', 'm'], encSeat p]) v
      = (match p with
         | .N => (qkey "t2m" .N, v) :: (qkey "t2m" .E, b) :: (qkey "t2m" .S, c) :: (qkey "t2m" .W, d) :: more
         | .E => (qkey "t2m" .N, a) :: (qkey "t2m" .E, v) :: (qkey "t2m" .S, c) :: (qkey "t2m" .W, d) :: more
         | .S => (qkey "t2m" .N, a) :: (qkey "t2m" .E, b) :: (qkey "t2m" .S, v) :: (qkey "t2m" .W, d) :: more
         | .W => (qkey "t2m" .N, a) :: (qkey "t2m" .E, b) :: (qkey "t2m" .S, c) :: (qkey "t2m" .W, v) :: more) := by
  cases p <;> simp [updateD, qkey, vstr, Val.beq, beqL, encSeat, Seat.value]

theorem mb_w_put_call (f : Nat) (i : Seat → List Str) (out : List Val) (table : Val) (tables : List Val)
    (more : List (Val × Val)) (a b m : Val) :
    callF (mkRec P (f+12)) m__World_w_put [encMainWorld i out table tables more, a, b, m]
      = .ok (.none, encMainWorld i (out ++ [.tuple [.str ['p', 'u', 't'], a, b, m]]) table tables more) := by
  rw [callF_def]
  simp only [m__World_w_put, bindParams, Option.map, mb_world_def]
  stsimp []

theorem mb_w_op_call (f : Nat) (i : Seat → List Str) (out : List Val) (table : Val) (tables : List Val)
    (more : List (Val × Val)) (a b : Val) :
    callF (mkRec P (f+12)) m__World_w_op [encMainWorld i out table tables more, a, b]
      = .ok (.none, encMainWorld i (out ++ [.tuple [a, b]]) table tables more) := by
  rw [callF_def]
  simp only [m__World_w_op, bindParams, Option.map, mb_world_def]
  stsimp []

/-- the model's `MainIn.get` on the world: the head of queue `t2m p` is returned and removed, `get` is recorded -/
theorem mb_w_get_call (f : Nat) (i i' : Seat → List Str) (p : Seat) (msg : Str) (hg : MainIn.get i p = some (msg, i'))
    (out : List Val) (table : Val) (tables : List Val) (more : List (Val × Val)) :
    callF (mkRec P (f+12)) m__World_w_get [encMainWorld i out table tables more, .str ['t', '2', 'm'], encSeat p]
      = .ok (.str msg, encMainWorld i' (out ++ [.tuple [.str ['g', 'e', 't'], .str ['t', '2', 'm'], encSeat p]])
          table tables more) := by
  unfold MainIn.get at hg
  split at hg
  · rename_i m r hip
    simp only [Option.some.injEq, Prod.mk.injEq] at hg
    obtain ⟨rfl, rfl⟩ := hg
    rw [callF_def]
    simp only [m__World_w_get, bindParams, Option.map, mb_world_def]
    cases p <;> simp only [hip, vtexts] <;> stsimp [mb_lookupD_q, mb_updateD_q] <;> simp [hip]
  · cases hg

/-! ## the `PlayingPhaseWithHands` object, kept folded -/

theorem mb_methF_wh (r : Rec) (c : Contract) (w : WithHands) (m : Id) (args : List Val) :
    methF r P (encWithHands c w) m args
      = callMethod r P n_PlayingPhaseWithHands m (encWithHands c w :: args) (.exc K.AttributeError) := rfl
theorem mb_mth_wh_play : P.method? classDepth n_PlayingPhaseWithHands n_play_card_by_player
    = some (n_PlayingPhaseWithHands, m_PlayingPhaseWithHands_play_card_by_player) := rfl
theorem mb_mth_parse_card : P.method? classDepth n_MessageInterface n_parse_card
    = some (n_MessageInterface, m_MessageInterface_parse_card) := rfl

theorem mb_attr_active (r : Rec) (c : Contract) (w : WithHands) :
    getAttrF r P (encWithHands c w) n_active_player = .ok (encSeat w.base.active) := rfl
theorem mb_attr_dummy (r : Rec) (c : Contract) (w : WithHands) :
    getAttrF r P (encWithHands c w) n_dummy = .ok (encSeat w.base.dummy) := rfl
theorem mb_attr_declarer (r : Rec) (c : Contract) (w : WithHands) :
    getAttrF r P (encWithHands c w) n_declarer = .ok (encSeat w.base.declarer) := rfl
theorem mb_attr_leader (r : Rec) (c : Contract) (w : WithHands) :
    getAttrF r P (encWithHands c w) n_leader = .ok (encSeat w.base.leader) := rfl
theorem mb_attr_history (r : Rec) (c : Contract) (w : WithHands) :
    getAttrF r P (encWithHands c w) n_playing_history = .ok (encHistory c w.base.history) := rfl
theorem mb_attr_taken (r : Rec) (c : Contract) (w : WithHands) :
    getAttrF r P (encWithHands c w) n_taken_tricks = .ok (.dict (takenKvs w.base.takenNS w.base.takenEW)) := rfl

/-- `PlayingPhaseWithHands(contract, cards)` is a call of `__init__` on a fresh instance -/
theorem mb_construct_wh (f : Nat) (args : List Val) :
    constructF (mkRec P (f+1)) P n_PlayingPhaseWithHands args
      = (callF (mkRec P f) m_PlayingPhaseWithHands___init__ (.obj n_PlayingPhaseWithHands [] :: args)
          >>= fun x => .ok x.2) := rfl

/-! ## environments up to `lookup` -/

/-- `env'` agrees with `env` outside `vars` -/
def Frame (vars : List Id) (env env' : Env) : Prop := ∀ y, y ∉ vars → lookup env' y = lookup env y

theorem Frame.refl (vars : List Id) (env : Env) : Frame vars env env := fun _ _ => rfl
theorem Frame.trans {vars : List Id} {e1 e2 e3 : Env} (h1 : Frame vars e1 e2) (h2 : Frame vars e2 e3) :
    Frame vars e1 e3 := fun y hy => (h2 y hy).trans (h1 y hy)
theorem Frame.mono {v1 v2 : List Id} {e1 e2 : Env} (h : Frame v1 e1 e2) (hs : ∀ y, y ∈ v1 → y ∈ v2) : Frame v2 e1 e2 :=
  fun y hy => h y fun hm => hy (hs y hm)
theorem Frame.update {vars : List Id} {e1 e2 : Env} (h : Frame vars e1 e2) (x : Id) (v : Val) (hx : x ∈ vars) :
    Frame vars e1 (update e2 x v) := fun y hy => by
  have hne : x ≠ y := fun e => hy (by rw [← e]; exact hx)
  rw [lookup_update_ne _ _ _ _ hne]; exact h y hy

end Bridge.Translated.MainB
