import BridgeVerif.Translated.JsonParserLemmasE
/-! Translated JSON parser (parser.py) = model: the `BoardLog` encoder and the comprehensions of `convert_board_log` (players, scores, bids, tricks)
by induction on the JSON list -/
namespace Bridge.Translated
open Bridge Bridge.Py Bridge.Generated.PyCore

/-! ## the `BoardLog` encoder -/
def encPlayers (ps : List (Seat × Str)) : Val := encDict (ps.map fun pv => (encSeat pv.1, .str pv.2))
def encScores (sc : List (Side × Int)) : Val := encDict (sc.map fun kv => (encSide kv.1, .int kv.2))
/-- a `BoardLog` instance (fields in the order of the class definition) holding `hands` and `contract` -/
def encLogReadWith (hands contract : Val) (r : LogRead) : Val :=
  .obj n_BoardLog [(n_board_id, .str r.boardId), (n_hands, hands), (n_dealer, encSeat r.dealer), (n_vul, encVul r.vul),
    (n_declarer, encOpt encSeat r.declarer), (n_contract, contract), (n_taken_trick, encOpt .int r.tricks),
    (n_players, encOpt encPlayers r.players), (n_bid_history, encOpt (fun l => .tuple (l.map encCall)) r.bids),
    (n_play_history, encOpt (fun l => .tuple (l.map encTrick)) r.play), (n_dda, encOpt encDda r.dda),
    (n_score_type, encOpt .str r.scoreType), (n_scores, encOpt encScores r.scores)]
/-- the `BoardLog` instance for the model's record -/
def encLogRead (r : LogRead) : Val := encLogReadWith (encHands r.hands) (encContract r.contract) r

theorem jp_construct_log (r : Rec) (a b c d e f g h i j k l m : Val) :
    constructF r P n_BoardLog [a, b, c, d, e, f, g, h, i, j, k, l, m]
      = .ok (.obj n_BoardLog [(n_board_id, a), (n_hands, b), (n_dealer, c), (n_vul, d), (n_declarer, e), (n_contract, f),
          (n_taken_trick, g), (n_players, h), (n_bid_history, i), (n_play_history, j), (n_dda, k), (n_score_type, l),
          (n_scores, m)]) := rfl

/-! ## the comprehensions of `convert_board_log` -/
theorem jp_players_comp (f : Nat) (env : Env) (m : List (List Char × Json)) : ∀ (ps : List (Seat × Str)),
    m.mapM playerEntry? = some ps →
    dictCompTF (mkRec P (f+4)) env [n_p, K.name] (.byName n_Player (.var n_p)) (.var K.name) (itemsOf (membersToKvs m))
      = .ok (ps.map fun pv => (encSeat pv.1, .str pv.2)) := by
  induction m with
  | nil => intro ps h; simp at h; subst h; rfl
  | cons a m ih =>
    intro ps h
    obtain ⟨b, r', ha, hl, rfl⟩ := jp_mapM_cons_some _ _ _ _ h
    obtain ⟨k, v⟩ := a
    simp only [playerEntry?] at ha
    cases hk : seatOfName? k with
    | none => rw [hk] at ha; cases ha
    | some p =>
      rw [hk] at ha
      cases v <;> try (cases ha)
      rename_i s
      simp only [membersToKvs, jp_itemsOf_cons, dictCompTF, ih r' hl, jsonToVal]
      ppsimp [bindTargets, jp_cls_Player, jp_member_seat _ _ hk, List.map_cons]
      rfl

theorem jp_scores_comp (f : Nat) (env : Env) (m : List (List Char × Json)) : ∀ (sc : List (Side × Int)),
    m.mapM scoreEntry? = some sc →
    dictCompTF (mkRec P (f+4)) env [n_p, n_score] (.byName n_Pair (.var n_p)) (.var n_score) (itemsOf (membersToKvs m))
      = .ok (sc.map fun kv => (encSide kv.1, .int kv.2)) := by
  induction m with
  | nil => intro sc h; simp at h; subst h; rfl
  | cons a m ih =>
    intro sc h
    obtain ⟨b, r', ha, hl, rfl⟩ := jp_mapM_cons_some _ _ _ _ h
    obtain ⟨k, v⟩ := a
    simp only [scoreEntry?] at ha
    cases hk : sideOfName? k with
    | none => rw [hk] at ha; cases ha
    | some p =>
      rw [hk] at ha
      cases v <;> try (cases ha)
      rename_i n
      simp only [membersToKvs, jp_itemsOf_cons, dictCompTF, ih r' hl, jsonToVal]
      ppsimp [bindTargets, jp_cls_Pair, jp_member_side _ _ hk, List.map_cons]
      rfl

theorem jp_mapM_str_bind {β} (g : List Char → Option β) (cl : List Json) : ∀ (r : List β),
    cl.mapM (fun c => c.str?.bind g) = some r → ∃ ss, cl.mapM Json.str? = some ss ∧ ss.mapM g = some r := by
  induction cl with
  | nil => intro r h; simp at h; subst h; exact ⟨[], rfl, rfl⟩
  | cons c cl ih =>
    intro r h
    obtain ⟨b, r', ha, hl, rfl⟩ := jp_mapM_cons_some _ _ _ _ h
    obtain ⟨ss, h1, h2⟩ := ih r' hl
    cases c <;> try (cases ha)
    rename_i s
    refine ⟨s :: ss, ?_, ?_⟩
    · rw [List.mapM_cons, h1]; rfl
    · have ha' : g s = some b := ha
      rw [List.mapM_cons, ha', h2]; rfl

/-- `[Bid.str_to_bid(bid) for bid in …]` -/
theorem jp_comp_bids (f : Nat) (env : Env) (ss : List (List Char)) : ∀ (bs : List Call),
    ss.mapM strToCall? = some bs →
    compF (mkRec P (f+13)) env n_bid none (.static n_Bid n_str_to_bid [.const (.cls n_Bid), .var n_bid]) (ss.map .str)
      = .ok (bs.map encCall) := by
  induction ss with
  | nil => intro bs h; simp at h; subst h; rfl
  | cons s ss ih =>
    intro bs h
    obtain ⟨b, r', ha, hl, rfl⟩ := jp_mapM_cons_some _ _ _ _ h
    simp only [List.map_cons, compF, ih r' hl]
    ppsimp [jp_mth_str_to_bid, jp_str_to_bid_call _ _ _ ha]

theorem jp_trick_cases (t : Json) (tr : Trick) (h : trickOfJson? t = some tr) :
    ∃ tl s cl ss, t = .obj tl ∧ (Json.obj tl).get? ['l', 'e', 'a', 'd', 'e', 'r'] = some (.str s) ∧ seatOfName? s = some tr.leader ∧
      (Json.obj tl).get? ['c', 'a', 'r', 'd', 's'] = some (.arr cl) ∧ cl.mapM Json.str? = some ss ∧ ss.mapM strToCard? = some tr.cards := by
  unfold trickOfJson? at h
  cases h1 : (t.get? (jkey "leader")).bind Json.str? with
  | none => rw [h1] at h; cases h
  | some s =>
    have g1 := jp_bind_str_some _ _ h1
    obtain ⟨tl, rfl⟩ := jp_get_obj _ _ _ g1
    cases h2 : seatOfName? s with
    | none => simp [h1, h2] at h
    | some ldr =>
      cases h3 : (Json.obj tl).get? (jkey "cards") with
      | none => simp [h1, h2, h3] at h
      | some cj =>
        cases cj with
        | arr cl =>
          cases h4 : cl.mapM (fun c => c.str?.bind strToCard?) with
          | none => simp [h1, h2, h3, Json.arr?, h4] at h
          | some cs =>
            simp [h1, h2, h3, Json.arr?, h4] at h
            subst h
            obtain ⟨ss, h5, h6⟩ := jp_mapM_str_bind _ _ _ h4
            exact ⟨tl, s, cl, ss, rfl, g1, h2, h3, h5, h6⟩
        | null => simp [h1, h2, h3, Json.arr?] at h
        | bool _ => simp [h1, h2, h3, Json.arr?] at h
        | int _ => simp [h1, h2, h3, Json.arr?] at h
        | str _ => simp [h1, h2, h3, Json.arr?] at h
        | obj _ => simp [h1, h2, h3, Json.arr?] at h

/-- `TrickHistory(leader=Player[b['leader']], cards=tuple([Card.str_to_card(x) for x in b['cards']]))` -/
def trickExpr : Expr :=
  .new n_TrickHistory [(.byName n_Player (.index (.var n_b) (.const (.str ['l', 'e', 'a', 'd', 'e', 'r'])))),
    (.builtin .tuple [(.comp n_x (.index (.var n_b) (.const (.str ['c', 'a', 'r', 'd', 's']))) none
      (.static n_Card n_str_to_card [(.const (.cls n_Card)), (.var n_x)]))])]

theorem jp_comp_tricks (f : Nat) (env : Env) (m : List Json) : ∀ (ts : List Trick),
    m.mapM trickOfJson? = some ts →
    compF (mkRec P (f+22)) env n_b none trickExpr (jsonsToVals m) = .ok (ts.map encTrick) := by
  induction m with
  | nil => intro ts h; simp at h; subst h; rfl
  | cons t m ih =>
    intro ts h
    obtain ⟨tr, r', ha, hl, rfl⟩ := jp_mapM_cons_some _ _ _ _ h
    obtain ⟨tl, s, cl, ss, rfl, g1, g2, g3, g4, g5⟩ := jp_trick_cases t tr ha
    have ih' := ih r' hl
    simp only [trickExpr] at ih'
    simp only [jsonsToVals, compF, trickExpr, jsonToVal, ih']
    ppsimp [jp_lookupD_members, g1, g3, jsonToVal, jp_cls_Player, jp_member_seat _ _ g2, jp_jsonsToVals_strs _ _ g4,
      iterItems_tuple, jp_comp_cards _ _ _ _ _ g5, builtin_tuple_tuple, construct_trick, List.map_cons]
    rfl

end Bridge.Translated
