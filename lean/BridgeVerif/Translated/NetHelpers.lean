import BridgeVerif.Translated.JsonWriter
import BridgeVerif.Translated.Auction
import BridgeVerif.Model.Msg
/-!
# network_bridge helpers AS TRANSLATED  (C19)

`Generated/PyCoreNet.lean` (re-written from `network_bridge/server.py` and `network_bridge/bidding_system.py` on every
run) executed by the MiniPy interpreter at the top-level fuel, compared with the hand-written models:

* `nh_hand_to_str_translated` — the static `Server.hand_to_str` on a collection of cards is `handToStr` of Model/Msg.lean
  (`suitField`'s local insertion sort is `sortDesc` of Model/Hands.lean: `nh_sortDescI_eq`).  Hypothesis: every rank is in
  2..14 — `Card.rank_int_to_str` raises `ValueError` outside (the model prints `?`: `nh_rank_hypothesis_needed`), and from
  rank 2 on `int(card)` computed in the integers is the model's `Card.idx`.  Nothing about duplicates, the number of cards
  or the suit (a card of suit `NT` is in none of the four groups on either side).
* `nh_weak_bid_translated` — `WeakBid().bid(hand, bidding_phase)` on a `BiddingPhase` instance `encState s` returns 1♣ when
  slot 0 of `available_bid` is set (`s.avail (.bid 0)`), else `Pass`, for ANY value `hand` (the code never reads it).
* `nh_always_pass_translated` — `AlwaysPass().bid(…)` returns `Pass` for any arguments.
-/
namespace Bridge.Translated
open Bridge Bridge.Py Bridge.Generated.PyCore

/-! ## `Server.hand_to_str` -/
/-- the model's local insertion sort is `sortDesc` of Model/Hands.lean -/
theorem nh_insertD_eq (c : Card) (l : List Card) : suitField.insertD c l = insertDesc c l := by
  induction l with
  | nil => rfl
  | cons d r ih => simp only [suitField.insertD, insertDesc, ih]

theorem nh_sortDescI_eq (l : List Card) : suitField.sortDescI l = sortDesc l := by
  induction l with
  | nil => rfl
  | cons c r ih =>
    show suitField.insertD c (suitField.sortDescI r) = insertDesc c (sortDesc r)
    rw [ih, nh_insertD_eq]

/-- one suit of `hand_to_str`: the ranks separated by spaces, `-` when there is none -/
def nhField (l : List Card) : Str :=
  if l.length = 0 then ['-'] else List.intercalate [' '] (l.map fun c => [rankCh c.rank])

theorem nh_suitField_eq (hand : List Card) (su : Suit) :
    suitField hand su = nhField ((sortDesc hand).filter fun c => decide (c.suit = su)) := by
  simp only [suitField, nh_sortDescI_eq, List.length_map, List.map_map, nhField]
  rfl

theorem nh_field_ite (l : List Card) :
    (if ¬ (l.map fun c => Val.str [rankCh c.rank]).length = 0 then
        List.intercalate [' '] (l.map fun a => [rankCh a.rank]) else ['-']) = nhField l := by
  rw [List.length_map, nhField]
  by_cases h : l.length = 0
  · rw [if_neg (fun hn => hn h), if_pos h]
  · rw [if_pos h, if_neg h]

theorem nh_handToStr_def (hand : List Card) :
    handToStr hand = "S ".toList ++ suitField hand .S ++ ". H ".toList ++ suitField hand .H ++
      ". D ".toList ++ suitField hand .D ++ ". C ".toList ++ suitField hand .C ++ ['.'] := rfl

theorem nh_handToStr_eq (hand : List Card) :
    handToStr hand = 'S' :: ' ' :: (nhField ((sortDesc hand).filter fun c => decide (c.suit = .S)) ++
      ['.', ' ', 'H', ' '] ++ nhField ((sortDesc hand).filter fun c => decide (c.suit = .H)) ++
      ['.', ' ', 'D', ' '] ++ nhField ((sortDesc hand).filter fun c => decide (c.suit = .D)) ++
      ['.', ' ', 'C', ' '] ++ nhField ((sortDesc hand).filter fun c => decide (c.suit = .C)) ++ ['.']) := by
  rw [nh_handToStr_def]
  simp only [nh_suitField_eq, String.reduceToList, List.cons_append, List.nil_append, List.append_assoc]

/-- `[Card.rank_int_to_str(c.rank) for c in card_list if c.suit is Suit.X]` -/
theorem nh_comp_suit (f : Nat) (env : Env) (su : Suit) (sv : Val) (hsv : sv = encSuit su) (l : List Card)
    (hr : ∀ c ∈ l, 2 ≤ c.rank ∧ c.rank ≤ 14) :
    compF (mkRec P (f+14)) env n_c (some (.cmp .is (.attr (.var n_c) n_suit) (.const sv)))
        (.static n_Card n_rank_int_to_str [(.const (.cls n_Card)), (.attr (.var n_c) n_rank)]) (l.map encCard)
      = .ok ((l.filter fun c => decide (c.suit = su)).map fun c => .str [rankCh c.rank]) := by
  subst hsv
  induction l with
  | nil => rfl
  | cons c l ih =>
    have hc := hr c (List.mem_cons_self ..)
    simp only [List.map_cons, compF, ih fun d hd => hr d (List.mem_cons_of_mem _ hd)]
    by_cases h : c.suit = su
    · ppsimp [h, List.filter_cons, List.map_cons, hd_mth_rank_int_to_str, hd_rank_int_to_str_call _ _ hc.1 hc.2]
    · ppsimp [h, List.filter_cons, List.map_cons]

theorem nh_len_tuple (r : Rec) (xs : List Val) : builtinF r P .len [.tuple xs] = .ok (.int (Int.ofNat xs.length)) := rfl
theorem nh_ofNat_beq_zero (n : Nat) : (Val.int (Int.ofNat n)).beq (.int 0) = decide (n = 0) := by
  simp only [Val.beq]
  rw [Bool.eq_iff_iff]; simp only [beq_iff_eq, decide_eq_true_eq, Int.ofNat_eq_natCast]; omega
theorem nh_join_space {α} (r : Rec) (g : α → Char) (l : List α) :
    builtinF r P .join [.str [' '], .tuple (l.map fun a => .str [g a])]
      = .ok (.str (List.intercalate [' '] (l.map fun a => [g a]))) := by
  simp only [builtinF, iterItems, Option.bind, hd_strsOf_map (fun a => [g a])]; rfl
theorem nh_ite_str (c : Prop) [Decidable c] (a b : Str) :
    (if c then Val.str a else Val.str b) = Val.str (if c then a else b) := by
  split <;> rfl

theorem nh_mth_hand_to_str : P.method? classDepth n_Server n_hand_to_str = some (n_Server, m_Server_hand_to_str) := rfl

theorem nh_hand_to_str_call (f : Nat) (hand : List Card) (hok : ∀ c ∈ hand, 2 ≤ c.rank ∧ c.rank ≤ 14) :
    callF (mkRec P (f+40)) m_Server_hand_to_str [.tuple (hand.map encCard)]
      = .ok (.str (handToStr hand), .tuple (hand.map encCard)) := by
  rw [callF_def]
  simp only [m_Server_hand_to_str, bindParams, Option.map]
  have hr2 : ∀ c ∈ hand, 2 ≤ c.rank := fun c hc => (hok c hc).1
  have hrs : ∀ c ∈ sortDesc hand, 2 ≤ c.rank ∧ c.rank ≤ 14 :=
    fun c hc => hok c ((sortDesc_perm hand).mem_iff.1 hc)
  have hc := fun f env su sv hsv => nh_comp_suit f env su sv hsv (sortDesc hand) hrs
  ppsimp [builtin_tuple_tuple, hd_sortedDesc, hd_sortAscZ_reverse hand hr2, iterItems_tuple]
  rw [hc _ _ .S (.enum n_Suit 4) rfl]
  ppsimp [iterItems_tuple]
  rw [hc _ _ .H (.enum n_Suit 3) rfl]
  ppsimp [iterItems_tuple]
  rw [hc _ _ .D (.enum n_Suit 2) rfl]
  ppsimp [iterItems_tuple]
  rw [hc _ _ .C (.enum n_Suit 1) rfl]
  ppsimp [iterItems_tuple, nh_len_tuple, nh_ofNat_beq_zero, nh_join_space, jw_ite_ok, nh_ite_str, truthy]
  rw [nh_handToStr_eq]
  simp only [nh_field_ite]

/-- THE STATIC `Server.hand_to_str` on a collection of cards of rank 2..14 returns the model's `handToStr` (the
interpreter's insertion sort, reversed, is the model's `sortDesc` also when a card is listed twice; a card of suit `NT`
is in none of the four groups on either side) -/
theorem nh_hand_to_str_translated (hand : List Card) (hok : ∀ c ∈ hand, 2 ≤ c.rank ∧ c.rank ≤ 14) :
    P.runMethod n_Server n_hand_to_str [.tuple (hand.map encCard)]
      = .ok (.str (handToStr hand), .tuple (hand.map encCard)) := by
  rw [jw_runMethod_eq _ _ _ _ _ nh_mth_hand_to_str]
  exact nh_hand_to_str_call 959 hand hok

/-- for valid cards -/
theorem nh_hand_to_str_translated_ok (hand : List Card) (hok : ∀ c ∈ hand, c.ok = true) :
    P.runMethod n_Server n_hand_to_str [.tuple (hand.map encCard)]
      = .ok (.str (handToStr hand), .tuple (hand.map encCard)) :=
  nh_hand_to_str_translated hand fun c hc => by
    have := hok c hc
    simp only [Card.ok, Bool.and_eq_true, decide_eq_true_eq] at this
    exact this.1

/-- the rank hypothesis is needed: `Card.rank_int_to_str` raises `ValueError` on a rank outside 2..14, the model
prints `?` -/
theorem nh_rank_hypothesis_needed :
    (P.runMethod n_Server n_hand_to_str [.tuple ([⟨1, .S⟩].map encCard)]).exc? = some K.ValueError ∧
    handToStr [⟨1, .S⟩] = "S ?. H -. D -. C -.".toList := by
  decide +kernel

/-! ## the bundled bidding systems -/
theorem nh_mth_avail :
    P.method? classDepth n_BiddingPhase n_available_bid = some (n_BiddingPhase, m_BiddingPhase_available_bid) := rfl
theorem nh_avail_call (f : Nat) (s : AState) :
    callF (mkRec P (f+6)) m_BiddingPhase_available_bid [encState s] = .ok (.tuple (availList s.avail), encState s) := by
  rw [callF_def]
  simp only [m_BiddingPhase_available_bid, bindParams, Option.map, encState]
  ppsimp []
theorem nh_avail_attr (f : Nat) (s : AState) :
    getAttrF (mkRec P (f+7)) P (encState s) n_available_bid = .ok (.tuple (availList s.avail)) := by
  have e : getAttrF (mkRec P (f+7)) P (encState s) n_available_bid
      = (callF (mkRec P (f+6)) m_BiddingPhase_available_bid [encState s] >>= fun x => .ok x.1) := rfl
  rw [e, nh_avail_call]; rfl

theorem nh_mth_weak_bid : P.method? classDepth n_WeakBid n_bid = some (n_WeakBid, m_WeakBid_bid) := rfl
theorem nh_mth_always_pass : P.method? classDepth n_AlwaysPass n_bid = some (n_AlwaysPass, m_AlwaysPass_bid) := rfl

theorem nh_slot_one (b : Bool) : (Val.int (if b then 1 else 0)).beq (.int 1) = b := by
  cases b <;> simp [Val.beq]

/-- the lowest bid, 1♣ (`Bid.C1`) -/
def nhC1 : Call := .bid ⟨0, by decide⟩

theorem nh_weak_bid_call (f : Nat) (self hand : Val) (s : AState) :
    callF (mkRec P (f+20)) m_WeakBid_bid [self, hand, encState s]
      = .ok (encCall (if s.avail nhC1 = true then nhC1 else .pass), self) := by
  rw [callF_def]
  simp only [m_WeakBid_bid, bindParams, Option.map]
  have hi := fun r => index_avail r s.avail nhC1
  have e0 : ((nhC1.idx : Nat) : Int) = 0 := rfl
  simp only [e0] at hi
  rcases Bool.eq_false_or_eq_true (s.avail nhC1) with ha | ha <;>
    ppsimp [nh_avail_attr, hi, nh_slot_one, ha, truthy, beq_int] <;> rfl

/-- `WeakBid().bid(hand, bidding_phase)` bids 1♣ when slot 0 of `available_bid` is set, else passes — whatever `hand` is
(and whatever the receiver's attributes) -/
theorem nh_weak_bid_translated (s : AState) (hand : Val) (fs : List (Id × Val)) :
    P.runMethod n_WeakBid n_bid [.obj n_WeakBid fs, hand, encState s]
      = .ok (encCall (if s.avail nhC1 = true then nhC1 else .pass), .obj n_WeakBid fs) := by
  rw [jw_runMethod_eq _ _ _ _ _ nh_mth_weak_bid]
  exact nh_weak_bid_call 979 _ hand s

/-- the result is 1♣ iff 1♣ is available -/
theorem nh_weak_bid_translated_iff (s : AState) (hand : Val) (fs : List (Id × Val)) :
    ∃ c, P.runMethod n_WeakBid n_bid [.obj n_WeakBid fs, hand, encState s] = .ok (encCall c, .obj n_WeakBid fs) ∧
      (c = nhC1 ↔ s.avail nhC1 = true) ∧ (c = .pass ↔ s.avail nhC1 = false) := by
  refine ⟨_, nh_weak_bid_translated s hand fs, ?_, ?_⟩ <;>
    rcases Bool.eq_false_or_eq_true (s.avail nhC1) with ha | ha <;> simp only [ha] <;> simp [nhC1]

/-- `AlwaysPass().bid(hand, bidding_phase)` passes, whatever the arguments -/
theorem nh_always_pass_translated (hand phase : Val) (fs : List (Id × Val)) :
    P.runMethod n_AlwaysPass n_bid [.obj n_AlwaysPass fs, hand, phase] = .ok (encCall .pass, .obj n_AlwaysPass fs) := by
  rw [jw_runMethod_eq _ _ _ _ _ nh_mth_always_pass]
  rfl

theorem nh_new_weak_bid_translated : P.runNew n_WeakBid [] = .ok (.obj n_WeakBid []) := rfl
theorem nh_new_always_pass_translated : P.runNew n_AlwaysPass [] = .ok (.obj n_AlwaysPass []) := rfl

end Bridge.Translated
