import BridgeVerif.Translated.ThreadsMainBLemmasE
/-!
# The TRANSLATED `MainThread.playing_phase` (Generated/PyCoreThreads.lean) IS the reactive model `mainPlayingR`

`MainThread` is `Server` after `harness/desugar_threads.py`: every queue operation is a call on the world object `self._w`.
The MiniPy interpreter is executed SYMBOLICALLY on the generated body `m_MainThread_playing_phase` in the whole translated
program `P`, on the thread object `encMainThread (encMainWorld i out table tables more) bs`; the `PlayingPhaseWithHands`
object is `encWithHands contract w` (Translated/PlayLemmasA.lean) and is advanced by the theorems of Translated/Play*.lean;
`Server.hand_to_str` by Translated/NetHelpers.lean.  Environments are known up to `lookup` (`Frame vars env env'`: the two
agree outside `vars`), so one statement covers the first and the later iterations of the loops.
Helper lemmas: Translated/ThreadsMainBLemmas.lean, …B, …C, …D; the data of the examples: …E.

The argument `cards` is the dictionary `.dict (handsKvs deal)` (seat ↦ cards): that is what `PlayingPhaseWithHands.__init__`
stores as `hands` and what `hands[player].remove(card)` / `cards[playing_env.dummy]` index (Translated/Play.lean is stated
for it).  Values are immutable in MiniPy, so `cards` is still the original deal when dummy's hand is announced — in Python
it is the same dictionary as `playing_env.hands`, from which dummy has not played yet at that point.
`MInv decl w` (ThreadsMainBLemmasC.lean): `WF w.base` and the object's `declarer` / `dummy` are the model's.

* `main_trick_card_translated` — ONE ITERATION of `for i in range(4)` (`mbCardBody`): `w_get` from the queue of the seat
  that plays (declarer for dummy), `parse_card`, `play_card_by_player`, relay to the three others, and after the opening
  lead dummy's cards to the three non-dummy seats.  Hypotheses = the model's three steps succeed.
* `main_trick_translated` — ONE ITERATION of `for trick_num in range(1, 14)` (`mbTrickBody`) is `mainTrickR … 0`, preceded
  by the `sleep` operation and the leader's name to the four seats.
* `main_playing_translated` — the method is `mainPlayingR`; the operations are `playingOpsS` (the model's actions with one
  `sleep` per trick), and removing the `sleep`s gives exactly `encMainActs encRec acts`.

The texts are parsed by the translated `MessageInterface.parse_card` (a regular expression): `ParsesTo` / `TrickParses` /
`PlayParses` (ThreadsMainBLemmasC.lean) say that on every message consumed it returns the model's `parseCard?`;
`playParses_of_all` / `allParse_of_chk` (ThreadsMainBLemmasD.lean) discharge them for concrete streams by one kernel
evaluation.  Further hypothesis: the ranks of dummy's hand are in 2..14 (`Card.rank_int_to_str` raises outside, the model
prints `?` — Translated/NetHelpers.lean).
-/
set_option maxRecDepth 4000
set_option linter.unusedSimpArgs false
namespace Bridge.Translated.MainB
open Bridge Bridge.Py Bridge.Generated.PyCore


/-- the model's actions for one card (`mainTrickR`, before the recursive call) -/
def cardActs (decl : Seat) (dm : Text) (first : Bool) (idx : Nat) (w : WithHands) (message : Text) : MainActs :=
  [.recv (.t2m (playedM decl w))] ++ putAllBut (playedM decl w) message ++
    (if first ∧ idx = 0 then putAllBut decl.partner dm else [])

/-- ONE CARD: on an environment in which `self` is the thread on the streams `i`, `playing_env` holds the state `w`,
`trick_num = k`, `i = idx`, `cards` is the deal — if the model's three steps succeed (a message is in the queue of the seat
that plays; it parses to `card`, on both sides; `card` is accepted), the body of `for i in range(4)` runs to its end,
has performed `cardActs`, and leaves the streams and the state of the model -/
theorem main_trick_card_translated (encRec : BoardRecord → Val) (decl : Seat) (c : Contract) (deal : Seat → List Card)
    (table : Val) (tables : List Val) (more : List (Val × Val)) (bs : Val) (k idx : Nat)
    (env : Env) (w w' : WithHands) (i i' : MainIn) (out : List Val) (message : Text) (card : Card)
    (hself : lookup env K.self = some (encMainThread (encMainWorld i out table tables more) bs))
    (hpe : lookup env n_playing_env = some (encWithHands c w))
    (htk : lookup env n_trick_num = some (.int (Int.ofNat k)))
    (hix : lookup env n_i = some (.int (Int.ofNat idx)))
    (hcards : lookup env n_cards = some (.dict (handsKvs deal)))
    (hinv : MInv decl w)
    (hget : MainIn.get i (playedM decl w) = some (message, i'))
    (hparse : ParsesTo message w.base.active card)
    (hplay : w.play card w.base.active = .ok w')
    (hok : ∀ c ∈ deal decl.partner, 2 ≤ c.rank ∧ c.rank ≤ 14) :
    ∃ ops, encMainActs encRec (cardActs decl (cardsMsg "Dummy".toList (deal decl.partner)) (k = 1) idx w message) = some ops ∧
      MInv decl w' ∧
      ∀ f, 71 ≤ f → ∃ env', exec P f env mbCardBody = .ok (env', .next) ∧
        lookup env' K.self = some (encMainThread (encMainWorld i' (out ++ ops) table tables more) bs) ∧
        lookup env' n_playing_env = some (encWithHands c w') ∧
        Frame cardVars env env' := by
  refine ⟨cardOps w message (Int.ofNat k = 1 ∧ Int.ofNat idx = 0) (cardsMsg "Dummy".toList (deal decl.partner)), ?_,
    minv_play hinv hplay, ?_⟩
  · rw [cardOps_eq hinv]
    exact encMainActs_card encRec _ _ _ _ _
  · intro f hf
    obtain ⟨g, rfl⟩ : ∃ g, f = g + 71 := ⟨f - 71, by omega⟩
    have h := mb_card g env i i' out table tables more bs c w w' card message (Int.ofNat k) (Int.ofNat idx) deal hself hpe
      htk hix hcards hinv.1 (by rw [playedBy_eq hinv]; exact hget) hparse hplay (by rw [hinv.2.2]; exact hok)
    rw [hinv.2.2] at h
    exact h

/-- non-vacuity of the card lemma: the opening lead of the example of ThreadsMainBLemmasE.lean — `west plays ac` is taken
from West's queue, relayed to North, East, South, and dummy's (North's) cards go to East, South, West -/
example : ∃ env' w' i', exec P 71 exEnv mbCardBody = .ok (env', .next) ∧
    lookup env' K.self = some (encMainThread (encMainWorld i'
      [opGet .W, opPut .N "west plays ac".toList, opPut .E "west plays ac".toList, opPut .S "west plays ac".toList,
       opPut .E exDm, opPut .S exDm, opPut .W exDm] (.dict []) [] []) .none) ∧
    i' .W = (exIn .W).tail ∧ i' .S = exIn .S ∧
    lookup env' n_playing_env = some (encWithHands exContract w') ∧
    w'.base.active = .N ∧ w'.hands .W = (exDeal .W).tail := by
  have hinv : MInv .S exW0 := minv_init exContract exDeal exW0 .S ex_init rfl
  obtain ⟨ops, hops, _, h⟩ := main_trick_card_translated exEncRec .S exContract exDeal (.dict []) [] [] .none 1 0 exEnv
    exW0 _ exIn _ [] "west plays ac".toList ⟨14, .C⟩ rfl rfl rfl rfl rfl hinv rfl
    (ex_allParse .W _ (List.mem_cons_self ..) .W ⟨14, .C⟩ (by decide)) rfl (by decide)
  obtain ⟨env', he, hs, hp, _⟩ := h 71 (Nat.le_refl _)
  have e : ops = [opGet .W, opPut .N "west plays ac".toList, opPut .E "west plays ac".toList,
      opPut .S "west plays ac".toList, opPut .E exDm, opPut .S exDm, opPut .W exDm] :=
    Option.some.inj (hops.symm.trans rfl)
  subst e
  exact ⟨env', _, _, he, hs, rfl, rfl, hp, rfl, rfl⟩

/-- the same, read off the model: a successful `mainTrickR` at card `idx < 4` is one iteration followed by the rest -/
theorem main_trick_card_translated_model (encRec : BoardRecord → Val) (decl : Seat) (c : Contract)
    (deal : Seat → List Card) (table : Val) (tables : List Val) (more : List (Val × Val)) (bs : Val) (k idx n : Nat)
    (env : Env) (w wf : WithHands) (i i_f : MainIn) (out : List Val) (acts : MainActs) (hidx : idx < 4)
    (hself : lookup env K.self = some (encMainThread (encMainWorld i out table tables more) bs))
    (hpe : lookup env n_playing_env = some (encWithHands c w))
    (htk : lookup env n_trick_num = some (.int (Int.ofNat k)))
    (hix : lookup env n_i = some (.int (Int.ofNat idx)))
    (hcards : lookup env n_cards = some (.dict (handsKvs deal)))
    (hinv : MInv decl w)
    (hr : mainTrickR decl (cardsMsg "Dummy".toList (deal decl.partner)) (k = 1) idx w i = some (acts, wf, i_f))
    (htp : TrickParses decl (n + 1) w i)
    (hok : ∀ c ∈ deal decl.partner, 2 ≤ c.rank ∧ c.rank ≤ 14) :
    ∃ message w1 i1 rest ops,
      mainTrickR decl (cardsMsg "Dummy".toList (deal decl.partner)) (k = 1) (idx + 1) w1 i1 = some (rest, wf, i_f) ∧
      acts = cardActs decl (cardsMsg "Dummy".toList (deal decl.partner)) (k = 1) idx w message ++ rest ∧
      encMainActs encRec (cardActs decl (cardsMsg "Dummy".toList (deal decl.partner)) (k = 1) idx w message) = some ops ∧
      MInv decl w1 ∧ TrickParses decl n w1 i1 ∧
      ∀ f, 71 ≤ f → ∃ env', exec P f env mbCardBody = .ok (env', .next) ∧
        lookup env' K.self = some (encMainThread (encMainWorld i1 (out ++ ops) table tables more) bs) ∧
        lookup env' n_playing_env = some (encWithHands c w1) ∧
        Frame cardVars env env' := by
  obtain ⟨message, i1, card, w1, rest, hget, hparse, hplay, hrest, rfl⟩ := mainTrickR_inv hidx hr
  simp only [TrickParses, hget, hparse, hplay] at htp
  obtain ⟨ops, hops, hinv1, h⟩ := main_trick_card_translated encRec decl c deal table tables more bs k idx env w w1 i i1 out
    message card hself hpe htk hix hcards hinv hget htp.1 hplay hok
  exact ⟨message, w1, i1, rest, ops, hrest, rfl, hops, hinv1, htp.2, h⟩

/-- ONE TRICK: the body of `for trick_num in range(1, 14)` is `mainTrickR … 0`: `sleep`, the leader's name to the four
seats, then the four cards -/
theorem main_trick_translated (encRec : BoardRecord → Val) (decl : Seat) (c : Contract) (deal : Seat → List Card)
    (table : Val) (tables : List Val) (more : List (Val × Val)) (bs : Val) (k : Nat)
    (env : Env) (w w' : WithHands) (i i' : MainIn) (out : List Val) (t : MainActs)
    (hself : lookup env K.self = some (encMainThread (encMainWorld i out table tables more) bs))
    (hpe : lookup env n_playing_env = some (encWithHands c w))
    (htk : lookup env n_trick_num = some (.int (Int.ofNat k)))
    (hcards : lookup env n_cards = some (.dict (handsKvs deal)))
    (hinv : MInv decl w)
    (hr : mainTrickR decl (cardsMsg "Dummy".toList (deal decl.partner)) (k = 1) 0 w i = some (t, w', i'))
    (htp : TrickParses decl 4 w i)
    (hok : ∀ c ∈ deal decl.partner, 2 ≤ c.rank ∧ c.rank ≤ 14) :
    ∃ tops, encMainActs encRec t = some tops ∧ MInv decl w' ∧
      ∀ f, 73 ≤ f → ∃ env', exec P f env mbTrickBody = .ok (env', .next) ∧
        lookup env' K.self = some (encMainThread (encMainWorld i'
          (out ++ (opSleep :: opsPutAll w.base.leader.formal ++ tops)) table tables more) bs) ∧
        lookup env' n_playing_env = some (encWithHands c w') ∧
        Frame trickVars env env' := by
  obtain ⟨_, tops, _, htops, _, _, hinv', _⟩ := mb_trick encRec 0 decl c deal table tables more bs k hok env w i out t w' i'
    hself hpe htk hcards hinv hr htp
  refine ⟨tops, htops, hinv', ?_⟩
  intro f hf
  obtain ⟨g, rfl⟩ : ∃ g, f = g + 73 := ⟨f - 73, by omega⟩
  obtain ⟨e, tops', h, htops', hs, hp, _, hf⟩ := mb_trick encRec g decl c deal table tables more bs k hok env w i out t w' i'
    hself hpe htk hcards hinv hr htp
  have e' : tops' = tops := by rw [htops] at htops'; exact (Option.some.inj htops').symm
  subst e'
  exact ⟨e, h, hs, hp, hf⟩

/-- non-vacuity of the trick lemma: the first trick of the example (four cards, 19 operations of the model, West takes it) -/
example : ∃ t w' i' tops env', mainTrickR .S exDm (1 = 1) 0 exW0 exIn = some (t, w', i') ∧
    encMainActs exEncRec t = some tops ∧ tops.length = 19 ∧
    w'.base.trickNum = 2 ∧ w'.base.leader = .W ∧ w'.base.takenEW = 1 ∧ (i' .W).length = 12 ∧ (i' .S).length = 24 ∧
    exec P 73 exEnv mbTrickBody = .ok (env', .next) ∧
    lookup env' K.self = some (encMainThread (encMainWorld i'
      ([] ++ (opSleep :: opsPutAll "West".toList ++ tops)) (.dict []) [] []) .none) ∧
    lookup env' n_playing_env = some (encWithHands exContract w') := by
  have hinv : MInv .S exW0 := minv_init exContract exDeal exW0 .S ex_init rfl
  have hc := ex_check_trick
  unfold exCheckTrick at hc
  cases hm : mainTrickS .S exDm (decide (1 = 1)) 4 0 exW0 exIn with
  | none => rw [hm] at hc; cases hc
  | some x =>
    obtain ⟨t, w', i'⟩ := x
    rw [hm] at hc
    have hr : mainTrickR .S exDm (1 = 1) 0 exW0 exIn = some (t, w', i') := by
      rw [mainTrickS_eq .S exDm _ 4 0 exW0 exIn rfl]; exact hm
    obtain ⟨tops, htops, _, h⟩ := main_trick_translated exEncRec .S exContract exDeal (.dict []) [] [] .none 1 exEnv exW0 w'
      exIn i' [] t rfl rfl rfl rfl hinv hr (trickParses_of_all .S 4 exW0 exIn ex_allParse) (by decide)
    obtain ⟨env', he, hs, hp, _⟩ := h 73 (Nat.le_refl _)
    simp only [htops, Bool.and_eq_true, beq_iff_eq] at hc
    obtain ⟨⟨⟨⟨⟨h1, h2⟩, h3⟩, h4⟩, h5⟩, h6⟩ := hc
    exact ⟨t, w', i', tops, env', hr, htops, h1, h2, h3, h4, h5, h6, he, hs, hp⟩

/-- from "fuel `f + K` for every `f`" to "every fuel above `K`" -/
theorem mb_callFn_of_callF {K : Nat} {fd : FuncDef} {args : List Val} {x : R (Val × Val)}
    (h : ∀ f, callF (mkRec P (f+K)) fd args = x) (f : Nat) (hf : K + 1 ≤ f) : callFn P f fd args = x := by
  obtain ⟨g, rfl⟩ : ∃ g, f = g + K + 1 := ⟨f - K - 1, by omega⟩
  exact h g

/-- `MainThread.playing_phase` IS `mainPlayingR` -/
theorem main_playing_translated (encRec : BoardRecord → Val) (contract : Contract) (deal : Seat → List Card)
    (decl : Seat) (w0 w : WithHands) (i i' : MainIn) (acts : MainActs) (out : List Val) (table : Val)
    (tables : List Val) (more : List (Val × Val)) (bs : Val)
    (hw0 : WithHands.init contract deal = some w0)
    (hdecl : contract.declarer = some decl)
    (hr : mainPlayingR decl (cardsMsg "Dummy".toList (deal decl.partner)) w0 i = some (acts, w, i'))
    (hpp : PlayParses decl (cardsMsg "Dummy".toList (deal decl.partner)) 13 1 w0 i)
    (hok : ∀ c ∈ deal decl.partner, 2 ≤ c.rank ∧ c.rank ≤ 14) :
    ∃ opsS, playingOpsS encRec decl (cardsMsg "Dummy".toList (deal decl.partner)) w0 i = some opsS ∧
      encMainActs encRec acts = some (stripSleep opsS) ∧
      ∀ f, 80 ≤ f →
        callFn P f m_MainThread_playing_phase
            [encMainThread (encMainWorld i out table tables more) bs, encContract contract, .dict (handsKvs deal)]
          = .ok (.tuple [encHistory contract w.base.history, .int (declTricks decl w)],
                 encMainThread (encMainWorld i' (out ++ opsS) table tables more) bs) := by
  obtain ⟨opsS, hops, hstrip, _⟩ := mb_playing_call encRec 0 contract deal decl w0 w i i' acts out table tables more bs
    hw0 hdecl hr hpp hok
  refine ⟨opsS, hops, hstrip, ?_⟩
  refine mb_callFn_of_callF (K := 79) fun f => ?_
  obtain ⟨opsS', hops', _, h⟩ := mb_playing_call encRec f contract deal decl w0 w i i' acts out table tables more bs
    hw0 hdecl hr hpp hok
  have e : opsS' = opsS := by rw [hops] at hops'; exact (Option.some.inj hops').symm
  subst e
  exact h

/-- non-vacuity of `main_playing_translated`: the thirteen tricks of the example — the method returns the history and 0
tricks for South's side, every queue but North's is consumed, 280 operations are performed, of which 13 are `sleep`s;
the other 267 are the model's actions -/
example : ∃ acts w i' opsS, mainPlayingR .S exDm exW0 exIn = some (acts, w, i') ∧
    i' .N = ["later".toList] ∧ i' .E = [] ∧ i' .S = [] ∧ i' .W = [] ∧
    w.base.takenEW = 13 ∧ w.base.history.length = 13 ∧ acts.length = 267 ∧
    playingOpsS exEncRec .S exDm exW0 exIn = some opsS ∧ opsS.length = 280 ∧
    encMainActs exEncRec acts = some (stripSleep opsS) ∧ (stripSleep opsS).length = 267 ∧
    ∀ f, 80 ≤ f →
      callFn P f m_MainThread_playing_phase
          [encMainThread (encMainWorld exIn [] (.dict []) [] []) .none, encContract exContract, .dict (handsKvs exDeal)]
        = .ok (.tuple [encHistory exContract w.base.history, .int 0],
               encMainThread (encMainWorld i' ([] ++ opsS) (.dict []) [] []) .none) := by
  have hc := ex_check
  unfold exCheck at hc
  cases hm : mainPlayingS .S exDm exW0 exIn with
  | none => rw [hm] at hc; cases hc
  | some x =>
    obtain ⟨acts, w, i'⟩ := x
    cases ho : tricksOpsS' exEncRec .S exDm 13 1 exW0 exIn with
    | none => rw [hm, ho] at hc; cases hc
    | some opsT =>
      rw [hm, ho] at hc
      simp only [Bool.and_eq_true, beq_iff_eq] at hc
      obtain ⟨⟨⟨⟨⟨⟨⟨⟨⟨h1, h2⟩, h3⟩, h4⟩, h5⟩, h6⟩, h7⟩, h8⟩, h9⟩, h10⟩ := hc
      have hr : mainPlayingR .S exDm exW0 exIn = some (acts, w, i') := by rw [mainPlayingS_eq]; exact hm
      obtain ⟨opsS, hops, hstrip, h⟩ := main_playing_translated exEncRec exContract exDeal .S exW0 w exIn i' acts []
        (.dict []) [] [] .none ex_init rfl hr (playParses_of_all .S exDm 13 1 exW0 exIn ex_allParse) (by decide)
      have e : opsS = opsPutAll Seat.S.formal ++ opsT := by
        have := hops
        rw [show exDm = cardsMsg "Dummy".toList (exDeal Seat.S.partner) from rfl] at ho
        simp only [playingOpsS, tricksOpsS_eq, ho, Option.map_some, Option.some.injEq] at this
        exact this.symm
      have hl : opsS.length = 280 := by rw [e, List.length_append, h9]; rfl
      have hsl : (stripSleep opsS).length = 267 := by
        rw [e, stripSleep_append, encMainActs_no_sleep exEncRec _ _ (encMainActs_putAll exEncRec _), List.length_append,
          h10]; rfl
      have h5' : (declTricks .S w : Int) = 0 := by rw [h5]; rfl
      refine ⟨acts, w, i', opsS, hr, h1, h2, h3, h4, h6, h7, h8, hops, hl, hstrip, hsl, ?_⟩
      intro f hf
      rw [← h5']
      exact h f hf

end Bridge.Translated.MainB
