import BridgeVerif.Translated.ThreadsMainCLemmasA
import BridgeVerif.Model.Abort
/-! Translated `MainThread.run`: the body of the board loop, first part (board setting, `deal`, `bidding_phase`) -/
set_option maxRecDepth 4000
set_option linter.unusedSimpArgs false
namespace Bridge.Translated.MainC
open Bridge Bridge.Py Bridge.Generated.PyCore Bridge.Translated.MainA Bridge.Translated.MainB

/-- `Frame` for a long chain of `update`s (does not try `Frame.refl` against every intermediate environment) -/
macro "frame_tac'" : tactic =>
  `(tactic| ((repeat (refine Frame.update ?_ _ _ (by decide))); exact Frame.refl _ _))

/-! ## world methods on main's world -/
theorem mc_mth_w_emit : P.method? classDepth n__World n_w_emit = some (n__World, m__World_w_emit) := rfl
theorem mc_mth_deal : P.method? classDepth n_MainThread n_deal = some (n_MainThread, m_MainThread_deal) := rfl
theorem mc_mth_bidding : P.method? classDepth n_MainThread n_bidding_phase
    = some (n_MainThread, m_MainThread_bidding_phase) := rfl
theorem mc_mth_playing : P.method? classDepth n_MainThread n_playing_phase
    = some (n_MainThread, m_MainThread_playing_phase) := rfl

theorem mc_w_emit_call (f : Nat) (i : Seat → List Str) (out : List Val) (table : Val) (tables : List Val)
    (more : List (Val × Val)) (a b : Val) :
    callF (mkRec P (f+12)) m__World_w_emit [encMainWorld i out table tables more, a, b]
      = .ok (.none, encMainWorld i (out ++ [.tuple [.str ['e', 'm', 'i', 't'], a, b]]) table tables more) := by
  rw [callF_def]
  simp only [m__World_w_emit, bindParams, Option.map, mb_world_def]
  stsimp []

/-! ## a board setting -/
/-- the double-dummy table a configured board carries (`Dict[Player, Dict[Suit, int]]`, rows N, E, S, W) -/
def encDdaOpt (d : Option (Seat → Suit → Int)) : Val := encOpt jwEncDda (d.map ddaTable)

/-- a `BoardSetting` instance (NamedTuple `hands, dealer, vul, board_id, dda`), the hands a dictionary seat ↦ cards -/
def encBoardSetting (b : BoardSetting) : Val :=
  .obj n_BoardSetting [(n_hands, .dict (handsKvs b.deal)), (n_dealer, encSeat b.dealer), (n_vul, encVul b.vul),
    (n_board_id, .str b.boardId), (n_dda, encDdaOpt b.dda)]

theorem mc_index_boards (r : Rec) (vals : List Val) (k : Nat) (v : Val) (h1 : 1 ≤ k) (h : vals[k-1]? = some v) :
    indexF r P (.tuple vals) (.int ((k : Int) - 1)) = .ok v := by
  obtain ⟨j, rfl⟩ : ∃ j, k = j + 1 := ⟨k - 1, by omega⟩
  simp only [Nat.add_sub_cancel] at h
  have hlt : j < vals.length := by
    rcases Nat.lt_or_ge j vals.length with h' | h'
    · exact h'
    · rw [List.getElem?_eq_none h'] at h; cases h
  have e : ((j + 1 : Nat) : Int) - 1 = (j : Int) := by omega
  rw [e]
  simp only [indexF, asInt?, normIndex]
  have h0 : (0 : Int) ≤ (j : Int) := by omega
  rw [if_pos h0]
  simp only [Int.toNat_natCast, hlt, if_true]
  rw [List.getD_eq_getElem?_getD, h]; rfl

theorem mc_beq_tuple_none (xs : List Val) : (Val.tuple xs).beq .none = false := by simp [Val.beq]
theorem mc_beq_dict_none (xs : List (Val × Val)) : (Val.dict xs).beq .none = false := by simp [Val.beq]
theorem mc_beq_str_none (s : List Char) : (Val.str s).beq .none = false := by simp [Val.beq]
theorem mc_beq_encVul_none (v : Vul) : (encVul v).beq .none = false := by simp [encVul, Val.beq]
theorem mc_beq_none_none : (Val.none).beq .none = true := by simp [Val.beq]

/-! ## the body of the board loop -/
def mcBoardLoop : Stmt := m_MainThread_run.body.getD 14 .pass
def mcBoardBody : List Stmt := match mcBoardLoop with
  | .for _ _ b => b
  | _ => []
def mcHead : List Stmt := mcBoardBody.take 9
def mcPlayIte : Stmt := mcBoardBody.getD 9 .pass
def mcTail : List Stmt := mcBoardBody.drop 10
theorem mcBoardBody_eq : mcBoardBody = mcHead ++ mcPlayIte :: mcTail := rfl

/-- the variables the first part writes -/
def headVars : List Id := [K.self, n_cards, n_vul, n_dealer, n_board_id, n_dda, n_board_setting, n__t3, n_contract, n_bid_history]

theorem mc_head (f0 : Nat) (env : Env) (i i1 : MainIn) (out : List Val) (table : Val) (tables : List Val)
    (more : List (Val × Val)) (boards : List Val) (k : Nat) (b : BoardSetting) (c : Contract) (hist : List Call)
    (bidOps : List Val)
    (hself : lookup env K.self = some (encMainThread (encMainWorld i out table tables more) (.tuple boards)))
    (hk : lookup env n_board_number = some (.int k))
    (h1 : 1 ≤ k) (hb : boards[k-1]? = some (encBoardSetting b))
    (hok : ∀ p, ∀ c ∈ b.deal p, 2 ≤ c.rank ∧ c.rank ≤ 14)
    (hbid : ∀ j out T TS, callF (mkRec P (f0 + j)) m_MainThread_bidding_phase
        [encMainThread (encMainWorld i out T TS more) (.tuple boards), encSeat b.dealer, encVul b.vul]
      = .ok (.tuple [encContract c, .tuple (hist.map encCall)],
             encMainThread (encMainWorld i1 (out ++ bidOps) T TS more) (.tuple boards))) :
    ∃ env', execF (mkRec P (f0 + 100)) P env mcHead = .ok (env', .next) ∧
      lookup env' K.self = some (encMainThread (encMainWorld i1 (out ++ dealOps k b ++ bidOps)
        (advTable (advTable table tables).1 (advTable table tables).2).1
        (advTable (advTable table tables).1 (advTable table tables).2).2 more) (.tuple boards)) ∧
      lookup env' n_contract = some (encContract c) ∧
      lookup env' n_bid_history = some (.tuple (hist.map encCall)) ∧
      lookup env' n_cards = some (.dict (handsKvs b.deal)) ∧
      lookup env' n_dealer = some (encSeat b.dealer) ∧
      lookup env' n_board_id = some (.str b.boardId) ∧
      lookup env' n_dda = some (encDdaOpt b.dda) ∧
      Frame headVars env env' := by
  have hdeal : ∀ g out, callF (mkRec P (g+60)) m_MainThread_deal
        [encMainThread (encMainWorld i out table tables more) (.tuple boards), .int k, encSeat b.dealer, encVul b.vul,
          .dict (handsKvs b.deal), .none]
      = .ok (.none, encMainThread (encMainWorld i (out ++ dealOps k b)
                (advTable (advTable table tables).1 (advTable table tables).2).1
                (advTable (advTable table tables).1 (advTable table tables).2).2 more) (.tuple boards)) :=
    fun g out => mc_deal_call g k b hok (mainIns i more) out table tables false (.tuple boards)
  have hidx := fun r => mc_index_boards r boards k _ h1 hb
  simp only [encMainThread] at hself hdeal hbid ⊢
  refine ⟨?_, ?_, ?_, ?_, ?_, ?_, ?_, ?_, ?_, ?_⟩
  rotate_left
  · simp only [mcHead, mcBoardBody, mcBoardLoop, m_MainThread_run, List.getD_cons_zero, List.getD_cons_succ, List.take]
    mbsimp [hself, hk, mc_beq_tuple_none, hidx, encBoardSetting, mc_beq_dict_none, mc_beq_str_none, mc_beq_encVul_none,
      beq_encSeat_none, mc_mth_deal, hdeal, mc_mth_bidding, hbid]
    rfl
  · lk_tac
  · lk_tac
  · lk_tac
  · lk_tac
  · lk_tac
  · lk_tac
  · lk_tac
  · frame_tac'

end Bridge.Translated.MainC
