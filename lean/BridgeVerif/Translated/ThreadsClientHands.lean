import BridgeVerif.Translated.HandParsersD
import BridgeVerif.Translated.ThreadsClientA
import BridgeVerif.Props.C19
/-!
# The `dealParses` obligation of the bundled-client capstone, discharged for EVERY hand

`dealParses` (Translated/ThreadsClientA.lean) asks, about the hand message `_deal` receives, that the TRANSLATED
`Client.parse_cards` / `Client.parse_hand` return what the model's `parseCards?` / `parseHand?` return.  With
Translated/HandParsers*.lean (translated = model on every text of the classes `agreeCards` / `agreeHand`) and the model
round trip of Lemmas/MsgHand.lean (`C19.hand_msg_round_trip`), this holds for the message `cardsMsg name hand` of EVERY hand
`HandOK hand` (no card twice, every card on the deck; any number of cards) and every name the client passes — no kernel
evaluation of instances:

* `hand_message_translated` : `parse_cards(cardsMsg name hand, name)` returns `handToStr hand`; `parse_hand` of that returns
  `(encCards l, hand_list)` with `l` = what the model's `parseHand?` reads = the hand sorted by suit and rank (`l.Perm hand`);
* `dealParses_of_hand` : hence `dealParses N p ⟨header :: cardsMsg p.formal hand :: …⟩ (encCards l) hb` for every `N ≥ 18`,
  given only the `parse_board` half (Translated/MsgParsers… / kernel evaluation for the header).
-/
set_option maxRecDepth 4000
namespace Bridge.Translated.ClientHands
open Bridge Bridge.Py Bridge.Generated.PyCore Bridge.Translated Bridge.RegexMsgHand
open Bridge.Translated.HandParsers Bridge.Translated.ClientA Bridge.Translated.HandsPbn

/-! ## the characters of a hand message -/
def msgChars : List Char := fieldChars ++ "SHDC. ".toList

theorem handToStr_chars (hand : List Card) : ∀ x ∈ handToStr hand, x ∈ msgChars := by
  intro x hx
  unfold handToStr at hx
  simp only [List.mem_append, List.mem_singleton] at hx
  have hf : ∀ su, x ∈ suitField hand su → x ∈ msgChars :=
    fun su h => List.mem_append_left _ (suitField_chars hand su x h)
  rcases hx with (((((((hx | hx) | hx) | hx) | hx) | hx) | hx) | hx) | rfl
  · clear hf; revert x; decide
  · exact hf _ hx
  · clear hf; revert x; decide
  · exact hf _ hx
  · clear hf; revert x; decide
  · exact hf _ hx
  · clear hf; revert x; decide
  · exact hf _ hx
  · decide

theorem msgChars_agree : ∀ x ∈ msgChars, agreeCards x = true ∧ agreeHand x = true := by decide +kernel
theorem nameChars_agree : ∀ name ∈ cardNames, ∀ x ∈ name ++ "'s cards : ".toList, agreeCards x = true := by
  decide +kernel

theorem cardsMsg_agree (name : List Char) (hn : name ∈ cardNames) (hand : List Card) :
    ∀ x ∈ cardsMsg name hand, agreeCards x = true := by
  intro x hx
  unfold cardsMsg at hx
  rw [List.mem_append] at hx
  rcases hx with hx | hx
  · exact nameChars_agree name hn x hx
  · exact (msgChars_agree x (handToStr_chars hand x hx)).1

/-! ## the raw cards of `handToStr hand` -/
/-- the hand as `handToStr` words it: by suit (S, H, D, C), ranks descending -/
def wording (hand : List Card) : List Card :=
  ((suitField.sortDescI hand).filter fun c => decide (c.suit = .S)) ++
  ((suitField.sortDescI hand).filter fun c => decide (c.suit = .H)) ++
  ((suitField.sortDescI hand).filter fun c => decide (c.suit = .D)) ++
  ((suitField.sortDescI hand).filter fun c => decide (c.suit = .C))

theorem handGroups_eq_K (content : List Char) :
    handGroups? content = match stripPrefixCI "S ".toList content with
      | none => none
      | some r0 => dotStar r0 handK1 := rfl

theorem wording_perm (hand : List Card) (hok : HandOK hand) : (wording hand).Perm hand ∧ (wording hand).Nodup := by
  obtain ⟨hn, hc⟩ := hok
  have hsort := sortDescI_perm hand
  have hmem : ∀ c ∈ suitField.sortDescI hand, c ∈ hand := fun c h => hsort.mem_iff.1 h
  have hperm := (msg_suit_partition (suitField.sortDescI hand) (fun c h => hc c (hmem c h))).trans hsort
  have hp : (wording hand).Perm hand := by simpa only [wording, List.append_assoc] using hperm
  exact ⟨hp, hp.nodup_iff.2 hn⟩

theorem rawCards_handToStr (hand : List Card) (hok : HandOK hand) :
    rawCards? (handToStr hand) = some (wording hand) := by
  obtain ⟨hn, hc⟩ := hok
  have hsort := sortDescI_perm hand
  have hmem : ∀ c ∈ suitField.sortDescI hand, c ∈ hand := fun c h => hsort.mem_iff.1 h
  have hg := hand_groups _ _ _ _ (suitField_chars hand .S) (suitField_chars hand .H)
    (suitField_chars hand .D) (suitField_chars hand .C)
  unfold rawCards?
  rw [handGroups_eq_K]
  unfold handToStr
  simp only [List.append_assoc, strip_self, hg, cardsOfGroup_suitField hand hc _ hmem, wording]

/-! ## the hand message through the translated parsers -/
/-- for EVERY hand and each of the five names: the translated `parse_cards` reads `handToStr hand` out of the message,
the translated `parse_hand` reads out of that the set of the hand's cards — literally the encoding of what the model's
`parseHand?` returns (`wording hand`, a permutation of the hand) — at every fuel ≥ 18 -/
theorem hand_message_translated (name : List Char) (hn : name ∈ cardNames) (hand : List Card) (hok : HandOK hand) :
    parseCards? (cardsMsg name hand) name = some (handToStr hand) ∧
    parseHand? (handToStr hand) = some (wording hand) ∧ (wording hand).Perm hand ∧
    (∀ f, 18 ≤ f → callFn P f m_Client_parse_cards [.str (cardsMsg name hand), .str name]
      = .ok (.str (handToStr hand), .str (cardsMsg name hand))) ∧
    (∀ f, 18 ≤ f → callFn P f m_Client_parse_hand [.str (handToStr hand)]
      = .ok (.tuple [encCards (wording hand), .tuple (setBits (wording hand) zeros52)], .str (handToStr hand))) := by
  have h1 := parseCards_ok name hand
  obtain ⟨hperm, hnd⟩ := wording_perm hand hok
  have h2 := parse_hand_translated_nodup (handToStr hand)
    (fun x hx => (msgChars_agree x (handToStr_chars hand x hx)).2) (wording hand) (rawCards_handToStr hand hok) hnd
  refine ⟨h1, h2.1, hperm, fun f hf => ?_, h2.2⟩
  have := parse_cards_translated name hn (cardsMsg name hand) (cardsMsg_agree name hn hand) f (by omega)
  rw [h1] at this
  exact this

/-- the `dealParses` obligation for an arbitrary deal: whatever the header, the hand-message half holds for every hand;
`hs` is the encoding of the hand the model's client reads (`wording hand`) -/
theorem dealParses_of_hand (N : Nat) (hN : 18 ≤ N) (p : Seat) (header : List Char) (hand : List Card) (hok : HandOK hand)
    (rest : List (List Char)) (calls : List Call) (cards : List Card)
    (hboard : ∀ k dealer vul, parseBoard? header = some (k, dealer, vul) →
      Returns N m_Client_parse_board [.str header] (.tuple [.int k, encSeat dealer, encVul vul])) :
    dealParses N p ⟨header :: cardsMsg p.formal hand :: rest, calls, cards⟩ (encCards (wording hand))
      (.tuple (setBits (wording hand) zeros52)) := by
  obtain ⟨h1, _, _, h4, h5⟩ := hand_message_translated p.formal (formal_mem_cardNames p) hand hok
  unfold dealParses
  refine ⟨hboard, fun t ht => ?_⟩
  rw [h1] at ht
  cases ht
  refine ⟨fun f hf => ?_, fun _ f hf => ?_⟩
  · rw [h4 f (by omega)]; rfl
  · rw [h5 f (by omega)]; rfl

end Bridge.Translated.ClientHands
