import BridgeVerif.Translated.ThreadsSeatALemmas
/-!
# The TRANSLATED seat thread (`SeatThread`, Generated/PyCoreThreads.lean) IS the reactive model of Model/SeatThread.lean

The MiniPy interpreter is executed SYMBOLICALLY on the generated bodies `m_SeatThread_*` / `m__World_*` of the whole
translated program `P`, on the symbolic thread object `encSeatThread p (encSeatWorld p q c out table tables) extra`
(helper lemmas: Translated/ThreadsSeatALemmas.lean).  Every statement holds for EVERY interpreter fuel above a stated
bound (`callFn P f …` with `bound ≤ f`).

* (1) `passesCheck` / `failsCheck` — the test `_check_message` performs (`checkPattern` = the `.replace` builtin).
* (2) `seat_check_message_translated` — pass / fail (`ERROR: Unexpected message received.`, `close`) / `Blocked`.
* (3) `seat_deal_translated` — `_deal` is `seatDealR`; each of the two barrier waits applies `advanceTables`.
* (4) `seat_bidding_translated` — the `while True` loop of `_bidding_phase` is `seatBiddingR` (loop invariant
  `st_bidding_loop`, by induction on the model's fuel; interpreter fuel bound `q.length + 66`), under `bidChecks`.
* `seat_convert_formal_name_translated` — `Player.convert_formal_name` is `seatOfFormal?`; and the small methods
  `_handle_error`, `receive_message_from_queue`, `send_message_to_queue`, `_sync_event`.
-/
set_option maxRecDepth 4000
namespace Bridge.Translated
open Bridge Bridge.Py Bridge.Generated.PyCore

/-! ## (1) the test `_check_message` performs -/

/-- `expected_message.replace(' ', '\\s+')` as the interpreter's `.replace` builtin computes it -/
def checkPattern (expected : Str) : Str := replaceAll [' '] ['\\', 's', '+'] (expected.length + 1) expected

/-- `re.fullmatch(pattern, received_message, re.IGNORECASE)` is a match object -/
def passesCheck (expected msg : Str) : Prop := ∃ m, Re.pyFullmatch true (checkPattern expected) msg = some (some m)

/-- `re.fullmatch(pattern, received_message, re.IGNORECASE)` is `None` -/
def failsCheck (expected msg : Str) : Prop := Re.pyFullmatch true (checkPattern expected) msg = some none

theorem st_matchVal_beq_none (c t : Id) (s : Str) (m : Re.MatchObj) : (matchVal c t s m).beq .none = false := by
  simp [matchVal, Val.beq]

theorem st_check_pass_call (f : Nat) (p : Seat) (q : List Str) (msg : Str) (c : List Str) (out : List Val) (table : Val)
    (tables : List Val) (extra : List (Id × Val)) (expected : Str) (h : passesCheck expected msg) :
    callF (mkRec P (f+40)) m_SeatThread__check_message
        [.obj n_SeatThread ((n__w, encSeatWorld p q (msg :: c) out table tables) :: (n_player, encSeat p) :: extra),
         .str expected]
      = .ok (.bool true, .obj n_SeatThread ((n__w, encSeatWorld p q c
          (out ++ [.tuple [vstr "recv"]]) table tables) :: (n_player, encSeat p) :: extra)) := by
  obtain ⟨m, hm⟩ := h
  simp only [checkPattern] at hm
  rw [callF_def]
  simp only [m_SeatThread__check_message, bindParams, Option.map]
  thsimp [builtinF, hm, st_matchVal_beq_none, List.isEmpty_cons]

theorem st_check_fail_call (f : Nat) (p : Seat) (q : List Str) (msg : Str) (c : List Str) (out : List Val) (table : Val)
    (tables : List Val) (extra : List (Id × Val)) (expected : Str) (h : failsCheck expected msg) :
    callF (mkRec P (f+40)) m_SeatThread__check_message
        [.obj n_SeatThread ((n__w, encSeatWorld p q (msg :: c) out table tables) :: (n_player, encSeat p) :: extra),
         .str expected]
      = .ok (.bool false, .obj n_SeatThread ((n__w, encSeatWorld p q c
          (out ++ [.tuple [vstr "recv"], .tuple [vstr "send", vstr "ERROR: Unexpected message received."],
                   .tuple [vstr "close", .none]]) table tables) :: (n_player, encSeat p) :: extra)) := by
  simp only [failsCheck, checkPattern] at h
  rw [callF_def]
  simp only [m_SeatThread__check_message, bindParams, Option.map]
  thsimp [builtinF, h, List.isEmpty_cons, strOfF, st_mth_handle_error, st_handle_error_call, List.append_assoc]
  rfl

theorem st_check_blocked_call (f : Nat) (p : Seat) (q : List Str) (out : List Val) (table : Val)
    (tables : List Val) (extra : List (Id × Val)) (expected : Val) :
    callF (mkRec P (f+40)) m_SeatThread__check_message
        [.obj n_SeatThread ((n__w, encSeatWorld p q [] out table tables) :: (n_player, encSeat p) :: extra), expected]
      = .error (.exc n_Blocked) := by
  rw [callF_def]
  simp only [m_SeatThread__check_message, bindParams, Option.map]
  thsimp []

/-! ## (3) `_deal` -/

theorem st_formal_name (f : Nat) (p : Seat) :
    getAttrF (mkRec P (f+12)) P (encSeat p) n_formal_name = .ok (.str p.formal) := by
  cases p <;> with_unfolding_all rfl

theorem st_mth_deal : P.method? classDepth n_SeatThread n__deal = some (n_SeatThread, m_SeatThread__deal) := rfl

theorem st_deal_call (f : Nat) (p : Seat) (header cards : Str) (q : List Str) (m1 m2 : Str) (c : List Str)
    (out : List Val) (table : Val) (tables : List Val) (extra : List (Id × Val))
    (h1 : passesCheck (p.formal ++ " ready for deal".toList) m1)
    (h2 : passesCheck (p.formal ++ " ready for cards".toList) m2) :
    callF (mkRec P (f+70)) m_SeatThread__deal
        [.obj n_SeatThread ((n__w, encSeatWorld p (header :: cards :: q) (m1 :: m2 :: c) out table tables)
          :: (n_player, encSeat p) :: extra)]
      = .ok (.bool true, .obj n_SeatThread ((n__w, encSeatWorld p q c
          (out ++ [.tuple [vstr "recv"], .tuple [vstr "sync"], .tuple [vstr "get", vstr "m2t", encSeat p],
                   .tuple [vstr "send", .str header],
                   .tuple [vstr "recv"], .tuple [vstr "sync"], .tuple [vstr "get", vstr "m2t", encSeat p],
                   .tuple [vstr "send", .str cards]])
          (advanceTables (advanceTables (table, tables))).1 (advanceTables (advanceTables (table, tables))).2)
          :: (n_player, encSeat p) :: extra)) := by
  have hc1 := fun f q c out table tables => st_check_pass_call f p q m1 c out table tables extra _ h1
  have hc2 := fun f q c out table tables => st_check_pass_call f p q m2 c out table tables extra _ h2
  simp only [String.reduceToList] at hc1 hc2
  rw [callF_def]
  simp only [m_SeatThread__deal, bindParams, Option.map]
  thsimp [st_formal_name, strOfF, List.flatten_cons, List.flatten_nil, List.append_nil, st_mth_check, hc1, hc2,
    st_mth_sync_event, st_sync_event_call, st_mth_recv_q, st_recv_q_call, List.append_assoc]
  rfl

/-- from "fuel `f + K` for every `f`" to "every fuel above `K`" -/
theorem st_callFn_of_callF {K : Nat} {fd : FuncDef} {args : List Val} {x : R (Val × Val)}
    (h : ∀ f, callF (mkRec P (f+K)) fd args = x) (f : Nat) (hf : K + 1 ≤ f) : callFn P f fd args = x := by
  obtain ⟨g, rfl⟩ : ∃ g, f = g + K + 1 := ⟨f - K - 1, by omega⟩
  exact h g

/-- (2) `_check_message` on a world whose connection stream is `msg :: c` / is empty -/
theorem seat_check_message_translated (p : Seat) (q : List Str) (msg : Str) (c : List Str) (out : List Val) (table : Val)
    (tables : List Val) (extra : List (Id × Val)) (expected : Str) :
    (passesCheck expected msg → ∀ f, 41 ≤ f →
      callFn P f m_SeatThread__check_message
          [encSeatThread p (encSeatWorld p q (msg :: c) out table tables) extra, .str expected]
        = .ok (.bool true, encSeatThread p (encSeatWorld p q c (out ++ [.tuple [vstr "recv"]]) table tables) extra)) ∧
    (failsCheck expected msg → ∀ f, 41 ≤ f →
      callFn P f m_SeatThread__check_message
          [encSeatThread p (encSeatWorld p q (msg :: c) out table tables) extra, .str expected]
        = .ok (.bool false, encSeatThread p (encSeatWorld p q c
            (out ++ [.tuple [vstr "recv"], .tuple [vstr "send", vstr "ERROR: Unexpected message received."],
                     .tuple [vstr "close", .none]]) table tables) extra)) ∧
    (∀ f, 41 ≤ f →
      callFn P f m_SeatThread__check_message [encSeatThread p (encSeatWorld p q [] out table tables) extra, .str expected]
        = .error (.exc n_Blocked)) :=
  ⟨fun h => st_callFn_of_callF fun f => st_check_pass_call f p q msg c out table tables extra expected h,
   fun h => st_callFn_of_callF fun f => st_check_fail_call f p q msg c out table tables extra expected h,
   st_callFn_of_callF fun f => st_check_blocked_call f p q out table tables extra (.str expected)⟩

/-- non-vacuity of (2): letter case and the length of white-space runs are ignored; another text fails -/
example : passesCheck "North ready for deal".toList "NORTH  ready for\tdeal".toList :=
  ⟨{ span := (0, 21), groups := [] }, by decide +kernel⟩
example : failsCheck "North ready for deal".toList "North ready for cards".toList := by
  unfold failsCheck; decide +kernel
example (f : Nat) (hf : 41 ≤ f) :
    callFn P f m_SeatThread__check_message
        [encSeatThread .N (encSeatWorld .N ["q1".toList] ["NORTH  ready for\tdeal".toList, "next".toList]
          [.tuple [vstr "sync"]] (.dict []) []) [], .str "North ready for deal".toList]
      = .ok (.bool true, encSeatThread .N (encSeatWorld .N ["q1".toList] ["next".toList]
          [.tuple [vstr "sync"], .tuple [vstr "recv"]] (.dict []) []) []) :=
  (seat_check_message_translated .N _ _ _ _ _ _ [] _).1 ⟨{ span := (0, 21), groups := [] }, by decide +kernel⟩ f hf
example (f : Nat) (hf : 41 ≤ f) :
    callFn P f m_SeatThread__check_message
        [encSeatThread .N (encSeatWorld .N ["q1".toList] ["North ready for cards".toList, "next".toList]
          [.tuple [vstr "sync"]] (.dict []) []) [], .str "North ready for deal".toList]
      = .ok (.bool false, encSeatThread .N (encSeatWorld .N ["q1".toList] ["next".toList]
          [.tuple [vstr "sync"], .tuple [vstr "recv"],
           .tuple [vstr "send", vstr "ERROR: Unexpected message received."], .tuple [vstr "close", .none]]
          (.dict []) []) []) :=
  (seat_check_message_translated .N _ _ _ _ _ _ [] _).2.1 (by unfold failsCheck; decide +kernel) f hf

/-- the two client messages `_deal` consumes pass their checks -/
def dealChecks (p : Seat) (c : List Str) : Prop :=
  match c with
  | m1 :: m2 :: _ =>
    passesCheck (p.formal ++ " ready for deal".toList) m1 ∧ passesCheck (p.formal ++ " ready for cards".toList) m2
  | _ => True

/-- (3) `_deal` is `seatDealR` -/
theorem seat_deal_translated (p : Seat) (q c q' c' : List Str) (acts : SeatActs) (out : List Val) (table : Val)
    (tables : List Val) (extra : List (Id × Val))
    (h : seatDealR p ⟨q, c⟩ = some (acts, ⟨q', c'⟩)) (hck : dealChecks p c) :
    ∃ ops, encSeatActs p acts = some ops ∧ ∀ f, 71 ≤ f →
      callFn P f m_SeatThread__deal [encSeatThread p (encSeatWorld p q c out table tables) extra]
        = .ok (.bool true, encSeatThread p (encSeatWorld p q' c' (out ++ ops)
            (advanceTables (advanceTables (table, tables))).1 (advanceTables (advanceTables (table, tables))).2) extra) := by
  match c, q, hck, h with
  | m1 :: m2 :: c0, header :: cards :: q0, hck, h =>
    simp only [seatDealR, SeatIn.getC, SeatIn.getQ, Option.bind_eq_bind, Option.bind_some, Option.pure_def,
      Option.some.injEq, Prod.mk.injEq, SeatIn.mk.injEq] at h
    obtain ⟨rfl, rfl, rfl⟩ := h
    refine ⟨[.tuple [vstr "recv"], .tuple [vstr "sync"], .tuple [vstr "get", vstr "m2t", encSeat p],
                   .tuple [vstr "send", .str header],
                   .tuple [vstr "recv"], .tuple [vstr "sync"], .tuple [vstr "get", vstr "m2t", encSeat p],
                   .tuple [vstr "send", .str cards]], ?_, ?_⟩
    · simp [encSeatActs, encSeatAct, sync]
    · exact st_callFn_of_callF fun f => st_deal_call f p header cards q0 m1 m2 c0 out table tables extra hck.1 hck.2
  | [], _, _, h => simp [seatDealR, SeatIn.getC] at h
  | [_], [], _, h => simp [seatDealR, SeatIn.getC, SeatIn.getQ] at h
  | [_], _ :: _, _, h => simp [seatDealR, SeatIn.getC, SeatIn.getQ] at h
  | _ :: _ :: _, [], _, h => simp [seatDealR, SeatIn.getC, SeatIn.getQ] at h
  | _ :: _ :: _, [_], _, h => simp [seatDealR, SeatIn.getC, SeatIn.getQ] at h

/-- non-vacuity of (3): a deal with one later table snapshot (taken by the first barrier) -/
example (f : Nat) (hf : 71 ≤ f) :
    callFn P f m_SeatThread__deal
        [encSeatThread .S (encSeatWorld .S
          ["Board number 1. Dealer North. Neither vulnerable.".toList, "South's cards : S A K. H -. D -. C -.".toList,
           "North".toList]
          ["South ready for deal".toList, "south  READY for cards".toList, "x".toList]
          [] (.dict []) [.dict [(encSeat .N, vstr "a")]]) [(K.name, vstr "Thread-South")]]
      = .ok (.bool true, encSeatThread .S (encSeatWorld .S ["North".toList] ["x".toList]
          [.tuple [vstr "recv"], .tuple [vstr "sync"], .tuple [vstr "get", vstr "m2t", encSeat .S],
           .tuple [vstr "send", vstr "Board number 1. Dealer North. Neither vulnerable."],
           .tuple [vstr "recv"], .tuple [vstr "sync"], .tuple [vstr "get", vstr "m2t", encSeat .S],
           .tuple [vstr "send", vstr "South's cards : S A K. H -. D -. C -."]]
          (.dict [(encSeat .N, vstr "a")]) []) [(K.name, vstr "Thread-South")]) := by
  obtain ⟨ops, hops, h⟩ := seat_deal_translated .S
    ["Board number 1. Dealer North. Neither vulnerable.".toList, "South's cards : S A K. H -. D -. C -.".toList,
      "North".toList] ["South ready for deal".toList, "south  READY for cards".toList, "x".toList] _ _ _
    [] (.dict []) [.dict [(encSeat .N, vstr "a")]] [(K.name, vstr "Thread-South")] rfl
    ⟨⟨{ span := (0, 20), groups := [] }, by decide +kernel⟩, ⟨{ span := (0, 22), groups := [] }, by decide +kernel⟩⟩
  simp [encSeatActs, encSeatAct, sync] at hops
  subst hops
  exact h f hf

/-! ## (4) `_bidding_phase` -/

/-- the body of the `while True` loop of the generated `_bidding_phase` -/
def bpBody : List Stmt := match m_SeatThread__bidding_phase.body.getD 0 .pass with
  | .while _ b => b
  | _ => []

theorem bp_body_def :
    m_SeatThread__bidding_phase.body = [.while (.const (.bool true)) bpBody, .ret (.const (.bool true))] := rfl

theorem st_mth_convert :
    P.method? classDepth n_Player n_convert_formal_name = some (n_Player, m_Player_convert_formal_name) := rfl

/-- `Player.convert_formal_name` on the four names is `seatOfFormal?` -/
theorem st_convert_formal_call (f : Nat) (a : Seat) :
    callF (mkRec P (f+12)) m_Player_convert_formal_name [.cls n_Player, .str a.formal] = .ok (encSeat a, .cls n_Player) := by
  cases a <;> with_unfolding_all rfl

theorem seatOfFormal_formal (a : Seat) : seatOfFormal? a.formal = some a := by cases a <;> rfl

theorem seatOfFormal_eq {m : Str} {a : Seat} (h : seatOfFormal? m = some a) : m = a.formal := by
  unfold seatOfFormal? at h
  split at h
  · cases h; assumption
  · split at h
    · cases h; assumption
    · split at h
      · cases h; assumption
      · split at h
        · cases h; assumption
        · cases h

theorem st_formal_ne_null (a : Seat) :
    (Val.str a.formal).beq (.str ['n', 'o', 't', 'h', 'i', 'n', 'g', ' ', 'h', 'a', 'p', 'p', 'e', 'n', 's']) = false := by
  cases a <;> with_unfolding_all rfl
theorem st_formal_ne_illegal (a : Seat) :
    (Val.str a.formal).beq (.str ['i', 'l', 'l', 'e', 'g', 'a', 'l', ' ', 'b', 'i', 'd']) = false := by
  cases a <;> with_unfolding_all rfl
theorem st_formal_ne_error (a : Seat) :
    (Val.str a.formal).beq (.str ['e', 'r', 'r', 'o', 'r', ' ', 'd', 'e', 't', 'e', 'c', 't', 'e', 'd']) = false := by
  cases a <;> with_unfolding_all rfl
theorem st_null_beq :
    (Val.str MSG_NULL).beq (.str ['n', 'o', 't', 'h', 'i', 'n', 'g', ' ', 'h', 'a', 'p', 'p', 'e', 'n', 's']) = true := by
  with_unfolding_all rfl

/-- one turn: `nothing happens` arrives -/
theorem st_turn_null (f : Nat) (p : Seat) (q c : List Str) (out : List Val) (table : Val) (tables : List Val)
    (extra : List (Id × Val)) (rest : Env) :
    ∃ rest', (mkRec P (f+40)).exec
        ((K.self, .obj n_SeatThread ((n__w, encSeatWorld p (MSG_NULL :: q) c out table tables)
          :: (n_player, encSeat p) :: extra)) :: rest) bpBody
      = .ok ((K.self, .obj n_SeatThread ((n__w, encSeatWorld p q c
          (out ++ [.tuple [vstr "get", vstr "m2t", encSeat p]]) table tables) :: (n_player, encSeat p) :: extra)) :: rest',
          .brk) := by
  refine ⟨?_, ?_⟩
  rotate_left
  · simp only [bpBody, m_SeatThread__bidding_phase, List.getD_cons_zero]
    thsimp [st_mth_recv_q, st_recv_q_call, st_null_beq]
    rfl

/-- one turn: the seat's own name arrives — its client's bid goes to main -/
theorem st_turn_own (f : Nat) (p : Seat) (q : List Str) (bid : Str) (c : List Str) (out : List Val) (table : Val)
    (tables : List Val) (extra : List (Id × Val)) (rest : Env) :
    ∃ rest', (mkRec P (f+40)).exec
        ((K.self, .obj n_SeatThread ((n__w, encSeatWorld p (p.formal :: q) (bid :: c) out table tables)
          :: (n_player, encSeat p) :: extra)) :: rest) bpBody
      = .ok ((K.self, .obj n_SeatThread ((n__w, encSeatWorld p q c
          (out ++ [.tuple [vstr "get", vstr "m2t", encSeat p], .tuple [vstr "recv"],
                   .tuple [vstr "put", vstr "t2m", encSeat p, .str bid]]) table tables)
          :: (n_player, encSeat p) :: extra)) :: rest', .next) := by
  refine ⟨?_, ?_⟩
  rotate_left
  · simp only [bpBody, m_SeatThread__bidding_phase, List.getD_cons_zero]
    thsimp [st_mth_recv_q, st_recv_q_call, st_formal_ne_null, st_formal_ne_illegal, st_formal_ne_error,
      st_mth_convert, st_convert_formal_call, st_mth_send_q, st_send_q_call, List.append_assoc]
    rfl

/-- one turn: another seat's name arrives — "ready for <a>'s bid" from the client (passing its check), then the bid
main relays goes to the client -/
theorem st_turn_other (f : Nat) (p a : Seat) (hpa : p ≠ a) (relay : Str) (q : List Str) (x : Str) (c : List Str)
    (out : List Val) (table : Val) (tables : List Val) (extra : List (Id × Val)) (rest : Env)
    (hx : passesCheck (p.formal ++ " ready for ".toList ++ a.formal ++ "'s bid".toList) x) :
    ∃ rest', (mkRec P (f+60)).exec
        ((K.self, .obj n_SeatThread ((n__w, encSeatWorld p (a.formal :: relay :: q) (x :: c) out table tables)
          :: (n_player, encSeat p) :: extra)) :: rest) bpBody
      = .ok ((K.self, .obj n_SeatThread ((n__w, encSeatWorld p q c
          (out ++ [.tuple [vstr "get", vstr "m2t", encSeat p], .tuple [vstr "recv"],
                   .tuple [vstr "get", vstr "m2t", encSeat p], .tuple [vstr "send", .str relay]]) table tables)
          :: (n_player, encSeat p) :: extra)) :: rest', .next) := by
  have hc := fun f q c out table tables => st_check_pass_call f p q x c out table tables extra _ hx
  simp only [String.reduceToList, List.append_assoc, List.cons_append, List.nil_append] at hc
  refine ⟨?_, ?_⟩
  rotate_left
  · simp only [bpBody, m_SeatThread__bidding_phase, List.getD_cons_zero]
    thsimp [st_mth_recv_q, st_recv_q_call, st_formal_ne_null, st_formal_ne_illegal, st_formal_ne_error,
      st_mth_convert, st_convert_formal_call, hpa, st_formal_name, strOfF, List.flatten_cons, List.flatten_nil,
      List.append_nil, st_mth_check, hc, List.append_assoc]
    rfl

/-- every "ready for <X>'s bid" message `seatBiddingR` consumes passes its check (walks the streams like `seatBiddingR`) -/
def bidChecks (p : Seat) : Nat → SeatIn → Prop
  | 0, _ => True
  | n + 1, i =>
    match i.getQ with
    | none => True
    | some (m, i) =>
      if m = MSG_NULL then True
      else match seatOfFormal? m with
        | none => True
        | some a =>
          if p = a then
            match i.getC with
            | none => True
            | some (_, i) => bidChecks p n i
          else
            match i.getC with
            | none => True
            | some (x, i) =>
              passesCheck (p.formal ++ " ready for ".toList ++ a.formal ++ "'s bid".toList) x ∧
              match i.getQ with
              | none => True
              | some (_, i) => bidChecks p n i

theorem st_loop_brk (g : Nat) (env env' : Env) (body : List Stmt)
    (h : (mkRec P (g+1)).exec env body = .ok (env', .brk)) :
    (mkRec P (g+2)).loop env (.const (.bool true)) body = .ok (env', .next) := by
  rw [loop_succ]
  simp only [loopF, eval_succ, evalF, pure_eq, bind_ok, truthy, h, if_true]

theorem st_loop_next (g : Nat) (env env' : Env) (body : List Stmt)
    (h : (mkRec P (g+1)).exec env body = .ok (env', .next)) :
    (mkRec P (g+2)).loop env (.const (.bool true)) body = (mkRec P (g+1)).loop env' (.const (.bool true)) body := by
  rw [loop_succ]
  simp only [loopF, eval_succ, evalF, pure_eq, bind_ok, truthy, h, if_true]

/-- THE LOOP INVARIANT of `_bidding_phase`: entered on the streams `q`, `c`, the loop ends on the streams `seatBiddingR`
leaves, having appended `seatBiddingR`'s actions to `out` -/
theorem st_bidding_loop (p : Seat) (extra : List (Id × Val)) (table : Val) (tables : List Val) :
    ∀ (n : Nat) (q c : List Str) (acts : SeatActs) (q' c' : List Str) (out : List Val) (rest : Env) (f : Nat),
      seatBiddingR p n ⟨q, c⟩ = some (acts, ⟨q', c'⟩) → bidChecks p n ⟨q, c⟩ → q.length + 62 ≤ f →
      ∃ ops rest', encSeatActs p acts = some ops ∧
        (mkRec P f).loop ((K.self, .obj n_SeatThread ((n__w, encSeatWorld p q c out table tables)
            :: (n_player, encSeat p) :: extra)) :: rest) (.const (.bool true)) bpBody
          = .ok ((K.self, .obj n_SeatThread ((n__w, encSeatWorld p q' c' (out ++ ops) table tables)
            :: (n_player, encSeat p) :: extra)) :: rest', .next) := by
  intro n
  induction n with
  | zero => intro q c acts q' c' out rest f h; simp [seatBiddingR] at h
  | succ n ih =>
    intro q c acts q' c' out rest f h hck hf
    obtain ⟨g, rfl⟩ : ∃ g, f = g + 62 := ⟨f - 62, by omega⟩
    cases q with
    | nil => simp [seatBiddingR, SeatIn.getQ] at h
    | cons m r =>
      simp only [List.length_cons] at hf
      by_cases hm : m = MSG_NULL
      · subst hm
        simp only [seatBiddingR, SeatIn.getQ, Option.bind_eq_bind, Option.bind_some, if_true, Option.pure_def,
          Option.some.injEq, Prod.mk.injEq, SeatIn.mk.injEq] at h
        obtain ⟨rfl, rfl, rfl⟩ := h
        obtain ⟨rest', hb⟩ := st_turn_null (g+21) p r c out table tables extra rest
        exact ⟨[.tuple [vstr "get", vstr "m2t", encSeat p]], rest', by simp [encSeatActs, encSeatAct],
          st_loop_brk (g+60) _ _ _ hb⟩
      · simp only [seatBiddingR, SeatIn.getQ, Option.bind_eq_bind, Option.bind_some, hm, if_false] at h
        simp only [bidChecks, SeatIn.getQ, hm, if_false] at hck
        cases ha : seatOfFormal? m with
        | none => simp [ha] at h
        | some a =>
          have hma := seatOfFormal_eq ha
          subst hma
          simp only [ha, Option.bind_some] at h hck
          by_cases hpa : p = a
          · subst hpa
            simp only [if_true] at h hck
            cases c with
            | nil => simp [SeatIn.getC] at h
            | cons bid c1 =>
              simp only [SeatIn.getC, Option.bind_some] at h hck
              cases hr : seatBiddingR p n ⟨r, c1⟩ with
              | none => simp [hr] at h
              | some res =>
                obtain ⟨rest0, ⟨q0, c0⟩⟩ := res
                simp only [hr, Option.bind_some, Option.pure_def, Option.some.injEq, Prod.mk.injEq,
                  SeatIn.mk.injEq] at h
                obtain ⟨rfl, rfl, rfl⟩ := h
                obtain ⟨rest1, hb⟩ := st_turn_own (g+21) p r bid c1 out table tables extra rest
                obtain ⟨ops, rest', hops, hl⟩ := ih r c1 rest0 q0 c0
                  (out ++ [.tuple [vstr "get", vstr "m2t", encSeat p], .tuple [vstr "recv"],
                    .tuple [vstr "put", vstr "t2m", encSeat p, .str bid]]) rest1 (g+61) hr hck (by omega)
                refine ⟨[.tuple [vstr "get", vstr "m2t", encSeat p], .tuple [vstr "recv"],
                    .tuple [vstr "put", vstr "t2m", encSeat p, .str bid]] ++ ops, rest', ?_, ?_⟩
                · simp [encSeatActs, encSeatAct, hops]
                · rw [st_loop_next (g+60) _ _ _ hb, hl, List.append_assoc]
          · simp only [hpa, if_false] at h hck
            cases c with
            | nil => simp [SeatIn.getC] at h
            | cons x c1 =>
              simp only [SeatIn.getC, Option.bind_some] at h hck
              cases r with
              | nil => simp at h
              | cons relay r1 =>
                simp only [Option.bind_some] at h hck
                cases hr : seatBiddingR p n ⟨r1, c1⟩ with
                | none => simp [hr] at h
                | some res =>
                  obtain ⟨rest0, ⟨q0, c0⟩⟩ := res
                  simp only [hr, Option.bind_some, Option.pure_def, Option.some.injEq, Prod.mk.injEq,
                    SeatIn.mk.injEq] at h
                  obtain ⟨rfl, rfl, rfl⟩ := h
                  obtain ⟨rest1, hb⟩ := st_turn_other (g+1) p a hpa relay r1 x c1 out table tables extra rest hck.1
                  simp only [List.length_cons] at hf
                  obtain ⟨ops, rest', hops, hl⟩ := ih r1 c1 rest0 q0 c0
                    (out ++ [.tuple [vstr "get", vstr "m2t", encSeat p], .tuple [vstr "recv"],
                      .tuple [vstr "get", vstr "m2t", encSeat p], .tuple [vstr "send", .str relay]]) rest1 (g+61) hr
                      hck.2 (by omega)
                  refine ⟨[.tuple [vstr "get", vstr "m2t", encSeat p], .tuple [vstr "recv"],
                      .tuple [vstr "get", vstr "m2t", encSeat p], .tuple [vstr "send", .str relay]] ++ ops, rest', ?_, ?_⟩
                  · simp [encSeatActs, encSeatAct, hops]
                  · rw [st_loop_next (g+60) _ _ _ hb, hl, List.append_assoc]

theorem bp_params : m_SeatThread__bidding_phase.params = [K.self] := rfl
theorem bp_defaults : m_SeatThread__bidding_phase.defaults = [] := rfl

/-- (4) `_bidding_phase` is `seatBiddingR`: the `while True` loop returns `True` on the streams `seatBiddingR` leaves,
having performed `seatBiddingR`'s actions, for every interpreter fuel above a bound linear in the queue length -/
theorem seat_bidding_translated (p : Seat) (fuel : Nat) (q c q' c' : List Str) (acts : SeatActs) (out : List Val)
    (table : Val) (tables : List Val) (extra : List (Id × Val))
    (h : seatBiddingR p fuel ⟨q, c⟩ = some (acts, ⟨q', c'⟩)) (hck : bidChecks p fuel ⟨q, c⟩) :
    ∃ ops, encSeatActs p acts = some ops ∧ ∀ f, q.length + 66 ≤ f →
      callFn P f m_SeatThread__bidding_phase [encSeatThread p (encSeatWorld p q c out table tables) extra]
        = .ok (.bool true, encSeatThread p (encSeatWorld p q' c' (out ++ ops) table tables) extra) := by
  obtain ⟨ops, _, hops, _⟩ :=
    st_bidding_loop p extra table tables fuel q c acts q' c' out [] (q.length + 62) h hck (Nat.le_refl _)
  refine ⟨ops, hops, fun f hf => ?_⟩
  obtain ⟨g, rfl⟩ : ∃ g, f = g + 3 := ⟨f - 3, by omega⟩
  obtain ⟨ops2, rest', hops2, hl⟩ :=
    st_bidding_loop p extra table tables fuel q c acts q' c' out [] (g+1) h hck (by omega)
  have e : ops2 = ops := by rw [hops] at hops2; exact (Option.some.inj hops2).symm
  subst e
  rw [callFn, call_succ, callF_def]
  simp only [bp_body_def, bp_params, bp_defaults, st_thread_def, bindParams, Option.map]
  ppsimp [hl]

/-- non-vacuity of (4): North bids, then follows East's bid, then `nothing happens` ends the loop (the message after it
stays in the queue) -/
example (f : Nat) (hf : 5 + 66 ≤ f) :
    callFn P f m_SeatThread__bidding_phase
        [encSeatThread .N (encSeatWorld .N
          ["North".toList, "East".toList, "1C".toList, "nothing happens".toList, "passed out".toList]
          ["Pass".toList, "north ready for  East's bid".toList, "later".toList] [] (.dict []) []) []]
      = .ok (.bool true, encSeatThread .N (encSeatWorld .N ["passed out".toList] ["later".toList]
          [.tuple [vstr "get", vstr "m2t", encSeat .N], .tuple [vstr "recv"],
           .tuple [vstr "put", vstr "t2m", encSeat .N, vstr "Pass"],
           .tuple [vstr "get", vstr "m2t", encSeat .N], .tuple [vstr "recv"],
           .tuple [vstr "get", vstr "m2t", encSeat .N], .tuple [vstr "send", vstr "1C"],
           .tuple [vstr "get", vstr "m2t", encSeat .N]] (.dict []) []) []) := by
  have hck : bidChecks .N 7 ⟨["North".toList, "East".toList, "1C".toList, "nothing happens".toList,
      "passed out".toList], ["Pass".toList, "north ready for  East's bid".toList, "later".toList]⟩ := by
    show passesCheck _ _ ∧ True
    exact ⟨⟨{ span := (0, 27), groups := [] }, by decide +kernel⟩, trivial⟩
  obtain ⟨ops, hops, h⟩ := seat_bidding_translated .N 7 _ _ _ _ _ [] (.dict []) [] [] rfl hck
  simp [encSeatActs, encSeatAct] at hops
  subst hops
  exact h f hf

/-! ## the small methods, and `Player.convert_formal_name` -/

/-- `Player.convert_formal_name(m)` is `seatOfFormal? m` (evaluated on the four names; any other text has
`seatOfFormal? m = none`) -/
theorem seat_convert_formal_name_translated (m : Str) (a : Seat) (h : seatOfFormal? m = some a) (f : Nat) (hf : 13 ≤ f) :
    callFn P f m_Player_convert_formal_name [.cls n_Player, .str m] = .ok (encSeat a, .cls n_Player) := by
  rw [seatOfFormal_eq h]
  exact st_callFn_of_callF (fun f => st_convert_formal_call f a) f hf
example : callFn P 13 m_Player_convert_formal_name [.cls n_Player, .str "West".toList] = .ok (encSeat .W, .cls n_Player) :=
  seat_convert_formal_name_translated _ .W rfl 13 (Nat.le_refl _)

theorem seat_handle_error_translated (p : Seat) (q c : List Str) (out : List Val) (table : Val) (tables : List Val)
    (extra : List (Id × Val)) (a b : Val) (f : Nat) (hf : 21 ≤ f) :
    callFn P f m_SeatThread__handle_error [encSeatThread p (encSeatWorld p q c out table tables) extra, a, b]
      = .ok (.none, encSeatThread p (encSeatWorld p q c
          (out ++ [.tuple [vstr "send", a], .tuple [vstr "close", .none]]) table tables) extra) :=
  st_callFn_of_callF (fun f => st_handle_error_call f p q c out table tables extra a b) f hf

theorem seat_receive_message_from_queue_translated (p : Seat) (q c : List Str) (out : List Val) (table : Val)
    (tables : List Val) (extra : List (Id × Val)) (f : Nat) (hf : 21 ≤ f) :
    callFn P f m_SeatThread_receive_message_from_queue [encSeatThread p (encSeatWorld p q c out table tables) extra]
      = match q with
        | msg :: q' => .ok (.str msg, encSeatThread p (encSeatWorld p q' c
            (out ++ [.tuple [vstr "get", vstr "m2t", encSeat p]]) table tables) extra)
        | [] => .error (.exc n_Blocked) := by
  cases q with
  | cons msg q' => exact st_callFn_of_callF (fun f => st_recv_q_call f p msg q' c out table tables extra) f hf
  | nil =>
    refine st_callFn_of_callF (K := 20) (fun f => ?_) f hf
    rw [callF_def]
    simp only [m_SeatThread_receive_message_from_queue, bindParams, Option.map, st_thread_def]
    thsimp []

theorem seat_send_message_to_queue_translated (p : Seat) (q c : List Str) (out : List Val) (table : Val)
    (tables : List Val) (extra : List (Id × Val)) (m : Val) (f : Nat) (hf : 21 ≤ f) :
    callFn P f m_SeatThread_send_message_to_queue [encSeatThread p (encSeatWorld p q c out table tables) extra, m]
      = .ok (.none, encSeatThread p (encSeatWorld p q c
          (out ++ [.tuple [vstr "put", vstr "t2m", encSeat p, m]]) table tables) extra) :=
  st_callFn_of_callF (fun f => st_send_q_call f p q c out table tables extra m) f hf

theorem seat_sync_event_translated (p : Seat) (q c : List Str) (out : List Val) (table : Val)
    (tables : List Val) (extra : List (Id × Val)) (f : Nat) (hf : 31 ≤ f) :
    callFn P f m_SeatThread__sync_event [encSeatThread p (encSeatWorld p q c out table tables) extra]
      = .ok (.none, encSeatThread p (encSeatWorld p q c (out ++ [.tuple [vstr "sync"]])
          (advanceTables (table, tables)).1 (advanceTables (table, tables)).2) extra) :=
  st_callFn_of_callF (fun f => st_sync_event_call f p q c out table tables extra) f hf

example : callFn P 31 m_SeatThread__sync_event [encSeatThread .E (encSeatWorld .E [] [] [] .none [.int 1, .int 2]) []]
    = .ok (.none, encSeatThread .E (encSeatWorld .E [] [] [.tuple [vstr "sync"]] (.int 1) [.int 2]) []) :=
  seat_sync_event_translated .E [] [] [] .none [.int 1, .int 2] [] 31 (Nat.le_refl _)


end Bridge.Translated
