import BridgeVerif.Translated.ThreadsClientALemmasB
/-!
# The TRANSLATED client thread (`ClientThread`, Generated/PyCoreThreads.lean) IS the reactive model of Model/ClientThread.lean

Symbolic execution of the MiniPy interpreter on the generated bodies `m_ClientThread__deal` / `m_ClientThread_bidding_phase`
/ `m_ClientThread__connect` (and `m__World_*`) of the whole translated program `P`, on the symbolic client object
`encClientThread p (encClientWorld s bids plays out) team opp extra` (encodings and helper lemmas:
Translated/ThreadsClientALemmas.lean, ThreadsClientALemmasB.lean).  Every statement holds for EVERY interpreter fuel above
a stated bound.

The translated parsers (`Client.parse_board`, `parse_cards`, `parse_hand`, `parse_team_names`,
`MessageInterface.parse_bid`) are NOT executed here (regular expressions): `dealParses` / `bidParses` / `connectParses`
say that, on the messages the reactive model consumes, they return the encoding of what the model's parsers return
(`Returns N fd args v`: at every fuel `≥ N`; `Returns.of_fuel`: one fuel suffices; `bidParses_of_agrees`: a
kernel-checkable sufficient condition).  `Client.create_bid_message` IS evaluated (all 38 calls × 4 seats,
`create_bid_message_translated`); the translated `BiddingPhase` is the model `AState` by Translated/Auction*.lean.

* (1) `client_deal_translated` — `_deal` is `clientDealR` (`dealtFields`: the attributes the object gains).
* (2) `client_bidding_translated` — `bidding_phase` is `clientBiddingR` from `AState.init dealer vul` (loop invariant
  `ct_bidding_loop`, by induction on the model's fuel); the operations are `clientBidOps` = the model's actions with the
  decision of the bidding system (`bidAsk`) inserted where the model takes `nextCall` (`clientBidOps_acts`).
  `client_bidding_illegal_translated` — a call refused by the own replica: `Exception`.
  `client_deal_then_bidding` — (1) and (2) compose.
* (3) `client_connect_translated` — `_connect` is `clientConnectR` (defined here from the code; `clientReactive` starts
  after the request was answered).
-/
set_option maxRecDepth 4000
namespace Bridge.Translated.ClientA
open Bridge Bridge.Py Bridge.Generated.PyCore

/-! ## (1) `_deal` -/

/-- the attributes `_deal` assigns, in its order (an attribute already there keeps its place: `setField`) -/
def dealtFields (extra : List (Id × Val)) (k : Nat) (dealer : Seat) (vul : Vul) (hs hb : Val) : List (Id × Val) :=
  update (update (update (update (update extra n_board_num (.int k)) n_dealer (encSeat dealer)) n_vul (encVul vul))
    n_hand_set hs) n_hand_binary hb

/-- a first board: the five attributes are appended, in `_deal`'s order -/
theorem dealtFields_nil (k : Nat) (dealer : Seat) (vul : Vul) (hs hb : Val) :
    dealtFields [] k dealer vul hs hb = [(n_board_num, .int k), (n_dealer, encSeat dealer), (n_vul, encVul vul),
      (n_hand_set, hs), (n_hand_binary, hb)] := rfl

/-- a later board: the five attributes are overwritten in place -/
theorem dealtFields_again (a b c d e : Val) (more : List (Id × Val)) (k : Nat) (dealer : Seat) (vul : Vul) (hs hb : Val) :
    dealtFields ((n_board_num, a) :: (n_dealer, b) :: (n_vul, c) :: (n_hand_set, d) :: (n_hand_binary, e) :: more)
      k dealer vul hs hb = (n_board_num, .int k) :: (n_dealer, encSeat dealer) :: (n_vul, encVul vul) ::
      (n_hand_set, hs) :: (n_hand_binary, hb) :: more := rfl

/-- what `bidding_phase` reads afterwards (the hypotheses `hd`, `hv` of `client_bidding_translated`) -/
theorem lookup_dealtFields_dealer (extra : List (Id × Val)) (k : Nat) (dealer : Seat) (vul : Vul) (hs hb : Val) :
    lookup (dealtFields extra k dealer vul hs hb) n_dealer = some (encSeat dealer) := by
  unfold dealtFields
  rw [lookup_update_ne _ _ _ _ (by decide), lookup_update_ne _ _ _ _ (by decide), lookup_update_ne _ _ _ _ (by decide),
    lookup_update_same]
theorem lookup_dealtFields_vul (extra : List (Id × Val)) (k : Nat) (dealer : Seat) (vul : Vul) (hs hb : Val) :
    lookup (dealtFields extra k dealer vul hs hb) n_vul = some (encVul vul) := by
  unfold dealtFields
  rw [lookup_update_ne _ _ _ _ (by decide), lookup_update_ne _ _ _ _ (by decide), lookup_update_same]

/-- on the two messages `clientDealR` consumes, the translated parsers return what the model's parsers return; the
translated `parse_hand` returns the pair `(hs, hb)` (hand set, hand vector) -/
def dealParses (N : Nat) (p : Seat) (i : ClientIn) (hs hb : Val) : Prop :=
  match i.s with
  | header :: cardsText :: _ =>
    (∀ k dealer vul, parseBoard? header = some (k, dealer, vul) →
      Returns N m_Client_parse_board [.str header] (.tuple [.int k, encSeat dealer, encVul vul])) ∧
    (∀ t, parseCards? cardsText p.formal = some t →
      Returns N m_Client_parse_cards [.str cardsText, .str p.formal] (.str t) ∧
      ((parseHand? t).isSome → Returns N m_Client_parse_hand [.str t] (.tuple [hs, hb])))
  | _ => True

theorem ct_mth_deal : P.method? classDepth n_ClientThread n__deal = some (n_ClientThread, m_ClientThread__deal) := rfl

theorem ct_deal_call (f : Nat) (p : Seat) (header cardsText : Str) (s : List Str) (bids plays out : List Val)
    (team : Str) (opp : Val) (extra : List (Id × Val)) (k : Nat) (dealer : Seat) (vul : Vul) (t : Str)
    (hs hb s1 s2 s3 : Val)
    (h1 : ∀ g, callF (mkRec P (f+g)) m_Client_parse_board [.str header]
      = .ok (.tuple [.int k, encSeat dealer, encVul vul], s1))
    (h2 : ∀ g, callF (mkRec P (f+g)) m_Client_parse_cards [.str cardsText, .str p.formal] = .ok (.str t, s2))
    (h3 : ∀ g, callF (mkRec P (f+g)) m_Client_parse_hand [.str t] = .ok (.tuple [hs, hb], s3)) :
    callF (mkRec P (f+40)) m_ClientThread__deal
        [.obj n_ClientThread ((n__w, encClientWorld (header :: cardsText :: s) bids plays out) :: (n_player, encSeat p) ::
          (n_team_name, .str team) :: (n_opponent_team_name, opp) :: extra)]
      = .ok (.none, .obj n_ClientThread ((n__w, encClientWorld s bids plays
          (out ++ [.tuple [vstr "send", .str (readyFor p "deal".toList)], .tuple [vstr "recv"],
                   .tuple [vstr "send", .str (readyFor p "cards".toList)], .tuple [vstr "recv"]])) ::
          (n_player, encSeat p) :: (n_team_name, .str team) :: (n_opponent_team_name, opp) ::
          dealtFields extra k dealer vul hs hb)) := by
  rw [callF_def]
  simp only [m_ClientThread__deal, bindParams, Option.map]
  ctthsimp [st_formal_name, strOfF, List.flatten_cons, List.flatten_nil, List.append_nil, ct_mth_parse_board,
    ct_mth_parse_cards, ct_mth_parse_hand, h1, h2, h3, List.append_assoc]
  simp only [dealtFields, readyFor, String.reduceToList, List.append_assoc, List.cons_append, List.nil_append]

/-- (1) `_deal` is `clientDealR`: returns `None`; the connection stream is the one `clientDealR` leaves, its four actions
have been appended to `out`, and the object has gained `board_num`, `dealer`, `vul` (what the model's `parseBoard?`
read), `hand_set`, `hand_binary` (what the translated `parse_hand` returned) -/
theorem client_deal_translated (p : Seat) (i i' : ClientIn) (acts : ClientActs) (k : Nat) (dealer : Seat) (vul : Vul)
    (hand : List Card) (N : Nat) (hs hb : Val) (plays out : List Val) (team : Str) (opp : Val) (extra : List (Id × Val))
    (h : clientDealR p i = some (acts, (k, dealer, vul), hand, i')) (hp : dealParses N p i hs hb) :
    ∃ ops, encClientActs p acts = some ops ∧ ∀ f, N + 41 ≤ f →
      callFn P f m_ClientThread__deal
          [encClientThread p (encClientWorld i.s (i.calls.map encCall) plays out) team opp extra]
        = .ok (.none, encClientThread p (encClientWorld i'.s (i'.calls.map encCall) plays (out ++ ops)) team opp
            (dealtFields extra k dealer vul hs hb)) := by
  obtain ⟨s, calls, cards⟩ := i
  match s, hp, h with
  | header :: cardsText :: s0, hp, h =>
    simp only [clientDealR, ClientIn.recv, Option.bind_eq_bind, Option.bind_some] at h
    cases hb0 : parseBoard? header with
    | none => simp [hb0] at h
    | some b =>
      obtain ⟨k0, d0, v0⟩ := b
      cases ht : parseCards? cardsText p.formal with
      | none => simp [hb0, ht] at h
      | some t =>
        cases hh : parseHand? t with
        | none => simp [hb0, ht, hh] at h
        | some hand0 =>
          simp only [hb0, ht, hh, Option.bind_some, Option.pure_def, Option.some.injEq, Prod.mk.injEq] at h
          obtain ⟨rfl, ⟨rfl, rfl, rfl⟩, rfl, rfl⟩ := h
          simp only [dealParses] at hp
          obtain ⟨hp1, hp2⟩ := hp
          obtain ⟨s1, h1⟩ := (hp1 _ _ _ hb0).callF
          obtain ⟨hp2a, hp2b⟩ := hp2 t ht
          obtain ⟨s2, h2⟩ := hp2a.callF
          obtain ⟨s3, h3⟩ := (hp2b (by simp [hh])).callF
          refine ⟨[.tuple [vstr "send", .str (readyFor p "deal".toList)], .tuple [vstr "recv"],
                   .tuple [vstr "send", .str (readyFor p "cards".toList)], .tuple [vstr "recv"]], ?_, fun f hf => ?_⟩
          · simp [encClientActs, encClientAct]
          · obtain ⟨g, rfl⟩ : ∃ g, f = (N + g) + 41 := ⟨f - N - 41, by omega⟩
            exact ct_deal_call (N + g) p header cardsText s0 _ plays out team opp extra k0 d0 v0 t hs hb s1 s2 s3
              (fun g' => h1 _ (by omega)) (fun g' => h2 _ (by omega)) (fun g' => h3 _ (by omega))
  | [], _, h => simp [clientDealR, ClientIn.recv] at h
  | [hd], _, h =>
    simp only [clientDealR, ClientIn.recv, Option.bind_eq_bind, Option.bind_some] at h
    cases hb0 : parseBoard? hd <;> simp [hb0] at h

/-- the streams `clientDealR` does not touch -/
theorem clientDealR_decisions (p : Seat) (i i' : ClientIn) (acts : ClientActs) (b : Nat × Seat × Vul) (hand : List Card)
    (h : clientDealR p i = some (acts, b, hand, i')) : i'.calls = i.calls ∧ i'.cards = i.cards ∧ i'.s = i.s.drop 2 := by
  obtain ⟨s, calls, cards⟩ := i
  match s, h with
  | header :: cardsText :: s0, h =>
    simp only [clientDealR, ClientIn.recv, Option.bind_eq_bind, Option.bind_some] at h
    cases hb0 : parseBoard? header with
    | none => simp [hb0] at h
    | some b0 =>
      cases ht : (parseCards? cardsText p.formal).bind parseHand? with
      | none => simp [hb0, ht] at h
      | some hand0 =>
        simp only [hb0, ht, Option.bind_some, Option.pure_def, Option.some.injEq, Prod.mk.injEq] at h
        obtain ⟨_, _, _, rfl⟩ := h
        exact ⟨rfl, rfl, rfl⟩
  | [], h => simp [clientDealR, ClientIn.recv] at h
  | [hd], h =>
    simp only [clientDealR, ClientIn.recv, Option.bind_eq_bind, Option.bind_some] at h
    cases hb0 : parseBoard? hd <;> simp [hb0] at h

/-- non-vacuity of (1): South's client on a first board (no `board_num` … yet: the five attributes are appended); the
translated parsers are evaluated on the two messages -/
example (f : Nat) (hf : 30 + 41 ≤ f) :
    callFn P f m_ClientThread__deal
        [encClientThread .S (encClientWorld
          ["Board number 1. Dealer North. Neither vulnerable.".toList, "South's cards : S A K. H -. D -. C -.".toList,
           "x".toList] [encCall .pass] [] [.tuple [vstr "connect", .none]]) "T".toList (.str "U".toList) []]
      = .ok (.none, encClientThread .S (encClientWorld ["x".toList] [encCall .pass] []
          [.tuple [vstr "connect", .none], .tuple [vstr "send", vstr "South ready for deal"], .tuple [vstr "recv"],
           .tuple [vstr "send", vstr "South ready for cards"], .tuple [vstr "recv"]]) "T".toList (.str "U".toList)
          [(n_board_num, .int 1), (n_dealer, encSeat .N), (n_vul, encVul .none),
           (n_hand_set, .tuple [encCard ⟨14, .S⟩, encCard ⟨13, .S⟩]),
           (n_hand_binary, .tuple (List.replicate 50 (.int 0) ++ [.int 1, .int 1]))]) := by
  have hp : dealParses 30 .S ⟨["Board number 1. Dealer North. Neither vulnerable.".toList,
      "South's cards : S A K. H -. D -. C -.".toList, "x".toList], [.pass], []⟩
      (.tuple [encCard ⟨14, .S⟩, encCard ⟨13, .S⟩]) (.tuple (List.replicate 50 (.int 0) ++ [.int 1, .int 1])) := by
    refine ⟨fun k d v hk => ?_, fun t ht => ⟨?_, fun _ => ?_⟩⟩
    · have e : parseBoard? "Board number 1. Dealer North. Neither vulnerable.".toList = some (1, .N, .none) := by
        decide +kernel
      rw [e] at hk
      obtain ⟨rfl, rfl, rfl⟩ : 1 = k ∧ Seat.N = d ∧ Vul.none = v := by simpa using hk
      exact Returns.of_fuel (by with_unfolding_all rfl)
    · have e : parseCards? "South's cards : S A K. H -. D -. C -.".toList Seat.S.formal
          = some "S A K. H -. D -. C -.".toList := by decide +kernel
      rw [e] at ht
      obtain rfl : "S A K. H -. D -. C -.".toList = t := by simpa using ht
      exact Returns.of_fuel (by with_unfolding_all rfl)
    · have e : parseCards? "South's cards : S A K. H -. D -. C -.".toList Seat.S.formal
          = some "S A K. H -. D -. C -.".toList := by decide +kernel
      rw [e] at ht
      obtain rfl : "S A K. H -. D -. C -.".toList = t := by simpa using ht
      exact Returns.of_fuel (by with_unfolding_all rfl)
  obtain ⟨ops, hops, h⟩ := client_deal_translated .S _ ⟨["x".toList], [.pass], []⟩ _ 1 .N .none
    [⟨14, .S⟩, ⟨13, .S⟩] 30 _ _ [] [.tuple [vstr "connect", .none]] "T".toList (.str "U".toList) []
    (by with_unfolding_all rfl) hp
  simp [encClientActs, encClientAct] at hops
  subst hops
  exact h f hf

/-! ## (2) `bidding_phase` -/

/-- the world operations of `bidding_phase`, walking the streams like `clientBiddingR`: the model's actions, with the
decision of the bidding system (`bidAsk` = `w_ask("bid", None)`) inserted where the model takes `nextCall` -/
def clientBidOps (p : Seat) : Nat → AState → ClientIn → List Val
  | 0, _, _ => []
  | fuel + 1, s, i =>
    match s.active with
    | none => []
    | some a =>
      if a = p then
        match i.nextCall with
        | none => []
        | some (c, i') =>
          [bidAsk, .tuple [vstr "send", .str (bidMsg c p.formal)]] ++
            (match takeBid s c with
             | .ok (s', .ongoing) => clientBidOps p fuel s' i'
             | _ => [])
      else
        match i.recv with
        | none => []
        | some (m, i') =>
          match parseBid? m a.formal with
          | none => []
          | some c =>
            [.tuple [vstr "send", .str (readyFor p (a.formal ++ "'s bid".toList))], .tuple [vstr "recv"]] ++
              (match takeBid s c with
               | .ok (s', .ongoing) => clientBidOps p fuel s' i'
               | _ => [])

/-- on every relayed bid message `clientBiddingR` consumes, the translated `MessageInterface.parse_bid` returns the
encoding of what the model's `parseBid?` returns (walks the streams like `clientBiddingR`) -/
def bidParses (N : Nat) (p : Seat) : Nat → AState → ClientIn → Prop
  | 0, _, _ => True
  | fuel + 1, s, i =>
    match s.active with
    | none => True
    | some a =>
      if a = p then
        match i.nextCall with
        | none => True
        | some (c, i') =>
          match takeBid s c with
          | .ok (s', .ongoing) => bidParses N p fuel s' i'
          | _ => True
      else
        match i.recv with
        | none => True
        | some (m, i') =>
          match parseBid? m a.formal with
          | none => True
          | some c =>
            Returns N m_MessageInterface_parse_bid [.str m, .str a.formal] (encCall c) ∧
              (match takeBid s c with
               | .ok (s', .ongoing) => bidParses N p fuel s' i'
               | _ => True)

/-- THE LOOP INVARIANT of `bidding_phase`: entered with the replica `encState s` on the streams of `i`, the loop ends with
the replica `clientBiddingR` ends with, on the streams it leaves, having appended `clientBidOps` to `out` -/
theorem ct_bidding_loop (p : Seat) (N : Nat) (plays : List Val) (team : Str) (opp : Val) (extra : List (Id × Val)) :
    ∀ (n : Nat) (s : AState) (i : ClientIn) (acts : ClientActs) (s' : AState) (i' : ClientIn) (out : List Val)
      (rest : Env) (f : Nat),
      clientBiddingR p n s i = some (acts, s', i') → bidParses N p n s i → i.s.length + i.calls.length + N + 76 ≤ f →
      ∃ rest', (mkRec P f).loop
          ((K.self, .obj n_ClientThread ((n__w, encClientWorld i.s (i.calls.map encCall) plays out) ::
            (n_player, encSeat p) :: (n_team_name, .str team) :: (n_opponent_team_name, opp) :: extra)) ::
            (n_env, encState s) :: rest) cbCond cbBody
        = .ok ((K.self, .obj n_ClientThread ((n__w, encClientWorld i'.s (i'.calls.map encCall) plays
            (out ++ clientBidOps p n s i)) ::
            (n_player, encSeat p) :: (n_team_name, .str team) :: (n_opponent_team_name, opp) :: extra)) ::
            (n_env, encState s') :: rest', .next) := by
  intro n
  induction n with
  | zero => intro s i acts s' i' out rest f h; simp [clientBiddingR] at h
  | succ n ih =>
    intro s i acts s' i' out rest f h hp hf
    obtain ⟨st, calls, cards⟩ := i
    simp only at hf
    cases hact : s.active with
    | none =>
      simp only [clientBiddingR, hact, Option.some.injEq, Prod.mk.injEq] at h
      obtain ⟨rfl, rfl, rfl⟩ := h
      obtain ⟨g, rfl⟩ : ∃ g, f = g + 14 := ⟨f - 14, by omega⟩
      refine ⟨rest, ?_⟩
      simp only [clientBidOps, hact, List.append_nil]
      exact ct_loop_done g _ s rest hact
    | some a =>
      obtain ⟨f0, rfl⟩ : ∃ f0, f = f0 + 61 := ⟨f - 61, by omega⟩
      by_cases hap : a = p
      · subst hap
        cases calls with
        | nil => simp [clientBiddingR, hact, ClientIn.nextCall] at h
        | cons c cs =>
          cases htb : takeBid s c with
          | error u => simp [clientBiddingR, hact, ClientIn.nextCall, htb] at h
          | ok x =>
            obtain ⟨s1, r⟩ := x
            obtain ⟨s0, hcbm⟩ := (create_bid_message_translated c a).callF
            cases r with
            | illegal => simp [clientBiddingR, hact, ClientIn.nextCall, htb] at h
            | finished =>
              simp [clientBiddingR, hact, ClientIn.nextCall, htb] at h
              obtain ⟨rfl, rfl, rfl⟩ := h
              obtain ⟨rest1, hb⟩ := ct_turn_own f0 a s hact c st (cs.map encCall) plays out team opp extra rest s0
                (fun g' => hcbm _ (by omega)) s1 .finished htb (by decide)
              refine ⟨rest1, ?_⟩
              simp only [clientBidOps, hact, if_true, ClientIn.nextCall, htb, List.append_nil]
              exact ct_loop_brk (f0+47) _ s rest a hact _ hb
            | ongoing =>
              cases hrec : clientBiddingR a n s1 ⟨st, cs, cards⟩ with
              | none => simp [clientBiddingR, hact, ClientIn.nextCall, htb, hrec] at h
              | some res =>
                obtain ⟨acts1, s2, i2⟩ := res
                simp [clientBiddingR, hact, ClientIn.nextCall, htb, hrec] at h
                obtain ⟨rfl, rfl, rfl⟩ := h
                obtain ⟨rest1, hb⟩ := ct_turn_own f0 a s hact c st (cs.map encCall) plays out team opp extra rest s0
                  (fun g' => hcbm _ (by omega)) s1 .ongoing htb (by decide)
                have hp' : bidParses N a n s1 ⟨st, cs, cards⟩ := by
                  simpa [bidParses, hact, ClientIn.nextCall, htb] using hp
                obtain ⟨rest2, hl⟩ := ih s1 ⟨st, cs, cards⟩ acts1 s2 i2
                  (out ++ [bidAsk, .tuple [vstr "send", .str (bidMsg c a.formal)]]) rest1 (f0+60) hrec hp'
                  (by simp only [List.length_cons] at hf ⊢; omega)
                refine ⟨rest2, ?_⟩
                refine (ct_loop_next (f0+47) _ s rest a hact _ hb).trans (hl.trans ?_)
                simp only [clientBidOps, hact, if_true, ClientIn.nextCall, htb, List.append_assoc]
      · cases st with
        | nil => simp [clientBiddingR, hact, hap, ClientIn.recv] at h
        | cons m st1 =>
          cases hpb : parseBid? m a.formal with
          | none => simp [clientBiddingR, hact, hap, ClientIn.recv, hpb] at h
          | some c =>
            cases htb : takeBid s c with
            | error u => simp [clientBiddingR, hact, hap, ClientIn.recv, hpb, htb] at h
            | ok x =>
              obtain ⟨s1, r⟩ := x
              have hpR : Returns N m_MessageInterface_parse_bid [.str m, .str a.formal] (encCall c) := by
                have := hp
                simp only [bidParses, hact, hap, if_false, ClientIn.recv, hpb] at this
                exact this.1
              obtain ⟨s0, hpbF⟩ := hpR.callF
              cases r with
              | illegal => simp [clientBiddingR, hact, hap, ClientIn.recv, hpb, htb] at h
              | finished =>
                simp [clientBiddingR, hact, hap, ClientIn.recv, hpb, htb] at h
                obtain ⟨rfl, rfl, rfl⟩ := h
                obtain ⟨rest1, hb⟩ := ct_turn_other f0 p a hap s hact c m st1 (calls.map encCall) plays out team opp
                  extra rest s0 (fun g' => hpbF _ (by omega)) s1 .finished htb (by decide)
                refine ⟨rest1, ?_⟩
                simp only [clientBidOps, hact, hap, if_false, ClientIn.recv, hpb, htb, List.append_nil]
                exact ct_loop_brk (f0+47) _ s rest a hact _ hb
              | ongoing =>
                cases hrec : clientBiddingR p n s1 ⟨st1, calls, cards⟩ with
                | none => simp [clientBiddingR, hact, hap, ClientIn.recv, hpb, htb, hrec] at h
                | some res =>
                  obtain ⟨acts1, s2, i2⟩ := res
                  simp [clientBiddingR, hact, hap, ClientIn.recv, hpb, htb, hrec] at h
                  obtain ⟨rfl, rfl, rfl⟩ := h
                  obtain ⟨rest1, hb⟩ := ct_turn_other f0 p a hap s hact c m st1 (calls.map encCall) plays out team opp
                    extra rest s0 (fun g' => hpbF _ (by omega)) s1 .ongoing htb (by decide)
                  have hp' : bidParses N p n s1 ⟨st1, calls, cards⟩ := by
                    have := hp
                    simp only [bidParses, hact, hap, if_false, ClientIn.recv, hpb, htb] at this
                    exact this.2
                  obtain ⟨rest2, hl⟩ := ih s1 ⟨st1, calls, cards⟩ acts1 s2 i2
                    (out ++ [.tuple [vstr "send", .str (readyFor p (a.formal ++ "'s bid".toList))],
                      .tuple [vstr "recv"]]) rest1 (f0+60) hrec hp'
                    (by simp only [List.length_cons] at hf ⊢; omega)
                  refine ⟨rest2, ?_⟩
                  refine (ct_loop_next (f0+47) _ s rest a hact _ hb).trans (hl.trans ?_)
                  simp only [clientBidOps, hact, hap, if_false, ClientIn.recv, hpb, htb, List.append_assoc]

/-! ### `clientBidOps` is the model's actions with the decisions inserted -/

/-- drop the `bidAsk` operations -/
def eraseAsks (ops : List Val) : List Val := ops.filter fun v => !(v.beq bidAsk)

theorem ct_ask_beq : bidAsk.beq bidAsk = true := by simp [bidAsk, Val.beq, beqL, vstr]
theorem ct_send_beq (m : Val) : (Val.tuple [vstr "send", m]).beq bidAsk = false := by
  simp [bidAsk, Val.beq, beqL, vstr]
theorem ct_recv_beq : (Val.tuple [vstr "recv"]).beq bidAsk = false := by simp [bidAsk, Val.beq, beqL, vstr]

/-- erasing the decisions from `clientBidOps` gives exactly the encoding of `clientBiddingR`'s actions -/
theorem clientBidOps_acts (p : Seat) : ∀ (n : Nat) (s : AState) (i : ClientIn) (acts : ClientActs) (s' : AState)
    (i' : ClientIn), clientBiddingR p n s i = some (acts, s', i') →
    encClientActs p acts = some (eraseAsks (clientBidOps p n s i)) := by
  intro n
  induction n with
  | zero => intro s i acts s' i' h; simp [clientBiddingR] at h
  | succ n ih =>
    intro s i acts s' i' h
    obtain ⟨st, calls, cards⟩ := i
    cases hact : s.active with
    | none =>
      simp only [clientBiddingR, hact, Option.some.injEq, Prod.mk.injEq] at h
      obtain ⟨rfl, rfl, rfl⟩ := h
      simp [clientBidOps, hact, encClientActs, eraseAsks]
    | some a =>
      by_cases hap : a = p
      · subst hap
        cases calls with
        | nil => simp [clientBiddingR, hact, ClientIn.nextCall] at h
        | cons c cs =>
          cases htb : takeBid s c with
          | error u => simp [clientBiddingR, hact, ClientIn.nextCall, htb] at h
          | ok x =>
            obtain ⟨s1, r⟩ := x
            cases r with
            | illegal => simp [clientBiddingR, hact, ClientIn.nextCall, htb] at h
            | finished =>
              simp [clientBiddingR, hact, ClientIn.nextCall, htb] at h
              obtain ⟨rfl, rfl, rfl⟩ := h
              simp [clientBidOps, hact, ClientIn.nextCall, htb, encClientActs, encClientAct, eraseAsks, ct_ask_beq,
                ct_send_beq]
            | ongoing =>
              cases hrec : clientBiddingR a n s1 ⟨st, cs, cards⟩ with
              | none => simp [clientBiddingR, hact, ClientIn.nextCall, htb, hrec] at h
              | some res =>
                obtain ⟨acts1, s2, i2⟩ := res
                simp [clientBiddingR, hact, ClientIn.nextCall, htb, hrec] at h
                obtain ⟨rfl, rfl, rfl⟩ := h
                have := ih s1 _ acts1 s2 i2 hrec
                simp only [eraseAsks] at this
                simp [clientBidOps, hact, ClientIn.nextCall, htb, encClientActs, encClientAct, eraseAsks, ct_ask_beq,
                  ct_send_beq, this]
      · cases st with
        | nil => simp [clientBiddingR, hact, hap, ClientIn.recv] at h
        | cons m st1 =>
          cases hpb : parseBid? m a.formal with
          | none => simp [clientBiddingR, hact, hap, ClientIn.recv, hpb] at h
          | some c =>
            cases htb : takeBid s c with
            | error u => simp [clientBiddingR, hact, hap, ClientIn.recv, hpb, htb] at h
            | ok x =>
              obtain ⟨s1, r⟩ := x
              cases r with
              | illegal => simp [clientBiddingR, hact, hap, ClientIn.recv, hpb, htb] at h
              | finished =>
                simp [clientBiddingR, hact, hap, ClientIn.recv, hpb, htb] at h
                obtain ⟨rfl, rfl, rfl⟩ := h
                simp [clientBidOps, hact, hap, ClientIn.recv, hpb, htb, encClientActs, encClientAct, eraseAsks,
                  ct_recv_beq, ct_send_beq]
              | ongoing =>
                cases hrec : clientBiddingR p n s1 ⟨st1, calls, cards⟩ with
                | none => simp [clientBiddingR, hact, hap, ClientIn.recv, hpb, htb, hrec] at h
                | some res =>
                  obtain ⟨acts1, s2, i2⟩ := res
                  simp [clientBiddingR, hact, hap, ClientIn.recv, hpb, htb, hrec] at h
                  obtain ⟨rfl, rfl, rfl⟩ := h
                  have := ih s1 _ acts1 s2 i2 hrec
                  simp only [eraseAsks] at this
                  simp [clientBidOps, hact, hap, ClientIn.recv, hpb, htb, encClientActs, encClientAct, eraseAsks,
                    ct_recv_beq, ct_send_beq, this]

theorem ct_mth_bidding_phase :
    P.method? classDepth n_ClientThread n_bidding_phase = some (n_ClientThread, m_ClientThread_bidding_phase) := rfl

theorem ct_encContract_beq_none (c : Contract) : (encContract c).beq .none = false := by simp [encContract, Val.beq]

/-- (2) `bidding_phase` is `clientBiddingR` from `AState.init dealer vul` (the `dealer` / `vul` attributes `_deal` set): it
returns the contract of the state the model ends in; the streams are the ones the model leaves; the operations appended to
`out` are `clientBidOps` — the model's actions (`clientBidOps_acts`) with a `bidAsk` where the model takes `nextCall` -/
theorem client_bidding_translated (p : Seat) (fuel : Nat) (dealer : Seat) (vul : Vul) (i i' : ClientIn)
    (acts : ClientActs) (s' : AState) (c : Contract) (N : Nat) (plays out : List Val) (team : Str) (opp : Val)
    (extra : List (Id × Val))
    (hd : lookup extra n_dealer = some (encSeat dealer)) (hv : lookup extra n_vul = some (encVul vul))
    (h : clientBiddingR p fuel (AState.init dealer vul) i = some (acts, s', i')) (hc : s'.contract = some c)
    (hp : bidParses N p fuel (AState.init dealer vul) i) :
    encClientActs p acts = some (eraseAsks (clientBidOps p fuel (AState.init dealer vul) i)) ∧
    ∀ f, i.s.length + i.calls.length + N + 79 ≤ f →
      callFn P f m_ClientThread_bidding_phase
          [encClientThread p (encClientWorld i.s (i.calls.map encCall) plays out) team opp extra]
        = .ok (encContract c, encClientThread p (encClientWorld i'.s (i'.calls.map encCall) plays
            (out ++ clientBidOps p fuel (AState.init dealer vul) i)) team opp extra) := by
  refine ⟨clientBidOps_acts p fuel _ i acts s' i' h, fun f hf => ?_⟩
  obtain ⟨g, rfl⟩ : ∃ g, f = g + 45 := ⟨f - 45, by omega⟩
  obtain ⟨rest', hl⟩ := ct_bidding_loop p N plays team opp extra fuel _ i acts s' i' out [] (g+43) h hp (by omega)
  have hcs : s'.contract.isSome ∨ s'.active.isSome := Or.inl (by simp [hc])
  have hcc := fun f => ct_contract_call f s' hcs
  rw [callFn, call_succ, callF_def]
  simp only [cb_body_def, cb_params, cb_defaults, ct_thread_def, bindParams, Option.map]
  ppsimp [hd, hv, ct_new_bidding, hl, ct_methF_state, mth_contract, hcc, hc, ct_encContract_beq_none]

/-! ### a decidable sufficient condition for `bidParses`, and non-vacuity -/

/-- kernel-checkable: the translated `parse_bid` (at fuel `N`) returns the member of `Bid` the model's `parseBid?` reads
(nothing to check where the model's parser refuses) -/
def parseBidAgrees (N : Nat) (m : Str) (a : Seat) : Bool :=
  match parseBid? m a.formal with
  | none => true
  | some c =>
    match callFn P N m_MessageInterface_parse_bid [.str m, .str a.formal] with
    | .ok (.enum cls v, _) => cls == n_Bid && v == (c.value : Int)
    | _ => false

theorem parseBidAgrees_sound {N : Nat} {m : Str} {a : Seat} (h : parseBidAgrees N m a = true) (c : Call)
    (hc : parseBid? m a.formal = some c) :
    Returns N m_MessageInterface_parse_bid [.str m, .str a.formal] (encCall c) := by
  apply Returns.of_fuel
  unfold parseBidAgrees at h
  rw [hc] at h
  simp only at h
  cases hx : callFn P N m_MessageInterface_parse_bid [.str m, .str a.formal] with
  | error e => rw [hx] at h; simp at h
  | ok x =>
    obtain ⟨v, s⟩ := x
    rw [hx] at h
    cases v <;> simp at h
    obtain ⟨rfl, rfl⟩ := h
    rfl

/-- `bidParses` holds as soon as the translated parser agrees with the model's on every message of the stream, read with
every seat's name -/
theorem bidParses_of_agrees (N : Nat) (p : Seat) : ∀ (n : Nat) (s : AState) (i : ClientIn),
    (∀ m ∈ i.s, ∀ a : Seat, parseBidAgrees N m a = true) → bidParses N p n s i := by
  intro n
  induction n with
  | zero => intro s i _; trivial
  | succ n ih =>
    intro s i hall
    obtain ⟨st, calls, cards⟩ := i
    cases hact : s.active with
    | none => simp [bidParses, hact]
    | some a =>
      by_cases hap : a = p
      · cases calls with
        | nil => simp [bidParses, hact, hap, ClientIn.nextCall]
        | cons c cs =>
          simp only [bidParses, hact, hap, if_true, ClientIn.nextCall]
          cases htb : takeBid s c with
          | error u => trivial
          | ok x =>
            obtain ⟨s1, r⟩ := x
            cases r with
            | illegal => trivial
            | finished => trivial
            | ongoing => exact ih s1 _ hall
      · cases st with
        | nil => simp [bidParses, hact, hap, ClientIn.recv]
        | cons m st1 =>
          simp only [bidParses, hact, hap, if_false, ClientIn.recv]
          cases hpb : parseBid? m a.formal with
          | none => trivial
          | some c =>
            refine ⟨parseBidAgrees_sound (hall m (List.mem_cons_self ..) a) c hpb, ?_⟩
            cases htb : takeBid s c with
            | error u => trivial
            | ok x =>
              obtain ⟨s1, r⟩ := x
              cases r with
              | illegal => trivial
              | finished => trivial
              | ongoing => exact ih s1 _ fun m' hm' => hall m' (List.mem_cons_of_mem _ hm')

/-- non-vacuity of (2): South's client; North (dealer) opens 1C, East passes, South's bidding system decides to pass, West
passes — the auction is over (the fourth message and the second decision stay in their streams) -/
example (f : Nat) (hf : 4 + 2 + 30 + 79 ≤ f) :
    callFn P f m_ClientThread_bidding_phase
        [encClientThread .S (encClientWorld
          ["North bids 1C".toList, "East passes".toList, "WEST Passes".toList, "later".toList]
          [encCall .pass, encCall .dbl] [] []) "T".toList (.str "U".toList)
          [(n_board_num, .int 1), (n_dealer, encSeat .N), (n_vul, encVul .none)]]
      = .ok (encContract ⟨some 0, false, false, .none, some .N⟩,
          encClientThread .S (encClientWorld ["later".toList] [encCall .dbl] []
            [.tuple [vstr "send", vstr "South ready for North's bid"], .tuple [vstr "recv"],
             .tuple [vstr "send", vstr "South ready for East's bid"], .tuple [vstr "recv"],
             bidAsk, .tuple [vstr "send", vstr "South passes"],
             .tuple [vstr "send", vstr "South ready for West's bid"], .tuple [vstr "recv"]]) "T".toList (.str "U".toList)
            [(n_board_num, .int 1), (n_dealer, encSeat .N), (n_vul, encVul .none)]) := by
  have hag : ∀ m ∈ ["North bids 1C".toList, "East passes".toList, "WEST Passes".toList, "later".toList],
      ∀ a ∈ Seat.all, parseBidAgrees 30 m a = true := by decide +kernel
  have hres : ∃ acts s' i', clientBiddingR .S 10 (AState.init .N .none)
      ⟨["North bids 1C".toList, "East passes".toList, "WEST Passes".toList, "later".toList], [.pass, .dbl], []⟩
        = some (acts, s', i') ∧ s'.contract = some ⟨some 0, false, false, .none, some .N⟩ ∧
        i'.s = ["later".toList] ∧ i'.calls = [.dbl] :=
    ⟨_, _, _, by with_unfolding_all rfl, by with_unfolding_all rfl, by with_unfolding_all rfl,
      by with_unfolding_all rfl⟩
  obtain ⟨acts, s', i', h, hc, hs, hcalls⟩ := hres
  have := (client_bidding_translated .S 10 .N .none _ i' acts s' _ 30 [] [] "T".toList (.str "U".toList)
    [(n_board_num, .int 1), (n_dealer, encSeat .N), (n_vul, encVul .none)] rfl rfl h hc
    (bidParses_of_agrees 30 .S 10 _ _ fun m hm a => hag m hm a (ct_seat_mem a))).2 f hf
  rw [hs, hcalls] at this
  exact this

/-! ### the ILLEGAL outcome: `raise Exception('')` -/

/-- walking the streams like `clientBiddingR`: some turn's call (the own bidding system's decision, or a relayed one) is
refused by the own replica (`take_bid` returns ILLEGAL) — there `clientBiddingR` is `none` -/
def clientBidIllegal (p : Seat) : Nat → AState → ClientIn → Prop
  | 0, _, _ => False
  | fuel + 1, s, i =>
    match s.active with
    | none => False
    | some a =>
      if a = p then
        match i.nextCall with
        | none => False
        | some (c, i') =>
          match takeBid s c with
          | .ok (_, .illegal) => True
          | .ok (s', .ongoing) => clientBidIllegal p fuel s' i'
          | _ => False
      else
        match i.recv with
        | none => False
        | some (m, i') =>
          match parseBid? m a.formal with
          | none => False
          | some c =>
            match takeBid s c with
            | .ok (_, .illegal) => True
            | .ok (s', .ongoing) => clientBidIllegal p fuel s' i'
            | _ => False

theorem clientBidIllegal_none (p : Seat) : ∀ (n : Nat) (s : AState) (i : ClientIn),
    clientBidIllegal p n s i → clientBiddingR p n s i = none := by
  intro n
  induction n with
  | zero => intro s i h; exact absurd h id
  | succ n ih =>
    intro s i h
    obtain ⟨st, calls, cards⟩ := i
    cases hact : s.active with
    | none => simp [clientBidIllegal, hact] at h
    | some a =>
      by_cases hap : a = p
      · subst hap
        cases calls with
        | nil => simp [clientBidIllegal, hact, ClientIn.nextCall] at h
        | cons c cs =>
          cases htb : takeBid s c with
          | error u => simp [clientBidIllegal, hact, ClientIn.nextCall, htb] at h
          | ok x =>
            obtain ⟨s1, r⟩ := x
            cases r with
            | illegal => simp [clientBiddingR, hact, ClientIn.nextCall, htb]
            | finished => simp [clientBidIllegal, hact, ClientIn.nextCall, htb] at h
            | ongoing =>
              simp only [clientBidIllegal, hact, if_true, ClientIn.nextCall, htb] at h
              simp [clientBiddingR, hact, ClientIn.nextCall, htb, ih s1 _ h]
      · cases st with
        | nil => simp [clientBidIllegal, hact, hap, ClientIn.recv] at h
        | cons m st1 =>
          cases hpb : parseBid? m a.formal with
          | none => simp [clientBidIllegal, hact, hap, ClientIn.recv, hpb] at h
          | some c =>
            cases htb : takeBid s c with
            | error u => simp [clientBidIllegal, hact, hap, ClientIn.recv, hpb, htb] at h
            | ok x =>
              obtain ⟨s1, r⟩ := x
              cases r with
              | illegal => simp [clientBiddingR, hact, hap, ClientIn.recv, hpb, htb]
              | finished => simp [clientBidIllegal, hact, hap, ClientIn.recv, hpb, htb] at h
              | ongoing =>
                simp only [clientBidIllegal, hact, hap, if_false, ClientIn.recv, hpb, htb] at h
                simp [clientBiddingR, hact, hap, ClientIn.recv, hpb, htb, ih s1 _ h]

theorem ct_bidding_loop_illegal (p : Seat) (N : Nat) (plays : List Val) (team : Str) (opp : Val)
    (extra : List (Id × Val)) :
    ∀ (n : Nat) (s : AState) (i : ClientIn) (out : List Val) (rest : Env) (f : Nat),
      clientBidIllegal p n s i → bidParses N p n s i → i.s.length + i.calls.length + N + 76 ≤ f →
      (mkRec P f).loop
          ((K.self, .obj n_ClientThread ((n__w, encClientWorld i.s (i.calls.map encCall) plays out) ::
            (n_player, encSeat p) :: (n_team_name, .str team) :: (n_opponent_team_name, opp) :: extra)) ::
            (n_env, encState s) :: rest) cbCond cbBody
        = .error (.exc K.Exception) := by
  intro n
  induction n with
  | zero => intro s i out rest f h; exact absurd h id
  | succ n ih =>
    intro s i out rest f h hp hf
    obtain ⟨st, calls, cards⟩ := i
    simp only at hf
    cases hact : s.active with
    | none => simp [clientBidIllegal, hact] at h
    | some a =>
      obtain ⟨f0, rfl⟩ : ∃ f0, f = f0 + 61 := ⟨f - 61, by omega⟩
      by_cases hap : a = p
      · subst hap
        cases calls with
        | nil => simp [clientBidIllegal, hact, ClientIn.nextCall] at h
        | cons c cs =>
          cases htb : takeBid s c with
          | error u => simp [clientBidIllegal, hact, ClientIn.nextCall, htb] at h
          | ok x =>
            obtain ⟨s1, r⟩ := x
            obtain ⟨s0, hcbm⟩ := (create_bid_message_translated c a).callF
            cases r with
            | illegal =>
              exact ct_loop_err (f0+47) _ s rest a hact _
                (ct_turn_own_illegal f0 a s hact c st (cs.map encCall) plays out team opp extra rest s0
                  (fun g' => hcbm _ (by omega)) s1 htb)
            | finished => simp [clientBidIllegal, hact, ClientIn.nextCall, htb] at h
            | ongoing =>
              simp only [clientBidIllegal, hact, if_true, ClientIn.nextCall, htb] at h
              obtain ⟨rest1, hb⟩ := ct_turn_own f0 a s hact c st (cs.map encCall) plays out team opp extra rest s0
                (fun g' => hcbm _ (by omega)) s1 .ongoing htb (by decide)
              have hp' : bidParses N a n s1 ⟨st, cs, cards⟩ := by
                simpa [bidParses, hact, ClientIn.nextCall, htb] using hp
              exact (ct_loop_next (f0+47) _ s rest a hact _ hb).trans
                (ih s1 ⟨st, cs, cards⟩ _ rest1 (f0+60) h hp' (by simp only [List.length_cons] at hf ⊢; omega))
      · cases st with
        | nil => simp [clientBidIllegal, hact, hap, ClientIn.recv] at h
        | cons m st1 =>
          cases hpb : parseBid? m a.formal with
          | none => simp [clientBidIllegal, hact, hap, ClientIn.recv, hpb] at h
          | some c =>
            cases htb : takeBid s c with
            | error u => simp [clientBidIllegal, hact, hap, ClientIn.recv, hpb, htb] at h
            | ok x =>
              obtain ⟨s1, r⟩ := x
              have hpR : Returns N m_MessageInterface_parse_bid [.str m, .str a.formal] (encCall c) := by
                have := hp
                simp only [bidParses, hact, hap, if_false, ClientIn.recv, hpb] at this
                exact this.1
              obtain ⟨s0, hpbF⟩ := hpR.callF
              cases r with
              | illegal =>
                exact ct_loop_err (f0+47) _ s rest a hact _
                  (ct_turn_other_illegal f0 p a hap s hact c m st1 (calls.map encCall) plays out team opp extra rest s0
                    (fun g' => hpbF _ (by omega)) s1 htb)
              | finished => simp [clientBidIllegal, hact, hap, ClientIn.recv, hpb, htb] at h
              | ongoing =>
                simp only [clientBidIllegal, hact, hap, if_false, ClientIn.recv, hpb, htb] at h
                obtain ⟨rest1, hb⟩ := ct_turn_other f0 p a hap s hact c m st1 (calls.map encCall) plays out team opp
                  extra rest s0 (fun g' => hpbF _ (by omega)) s1 .ongoing htb (by decide)
                have hp' : bidParses N p n s1 ⟨st1, calls, cards⟩ := by
                  have := hp
                  simp only [bidParses, hact, hap, if_false, ClientIn.recv, hpb, htb] at this
                  exact this.2
                exact (ct_loop_next (f0+47) _ s rest a hact _ hb).trans
                  (ih s1 ⟨st1, calls, cards⟩ _ rest1 (f0+60) h hp' (by simp only [List.length_cons] at hf ⊢; omega))

/-- `bidding_phase` when a call is refused by the own replica (`clientBidIllegal`; `clientBiddingR` is `none` there,
`clientBidIllegal_none`): the translated method raises `Exception` -/
theorem client_bidding_illegal_translated (p : Seat) (fuel : Nat) (dealer : Seat) (vul : Vul) (i : ClientIn) (N : Nat)
    (plays out : List Val) (team : Str) (opp : Val) (extra : List (Id × Val))
    (hd : lookup extra n_dealer = some (encSeat dealer)) (hv : lookup extra n_vul = some (encVul vul))
    (h : clientBidIllegal p fuel (AState.init dealer vul) i) (hp : bidParses N p fuel (AState.init dealer vul) i) :
    ∀ f, i.s.length + i.calls.length + N + 79 ≤ f →
      callFn P f m_ClientThread_bidding_phase
          [encClientThread p (encClientWorld i.s (i.calls.map encCall) plays out) team opp extra]
        = .error (.exc K.Exception) := by
  intro f hf
  obtain ⟨g, rfl⟩ : ∃ g, f = g + 45 := ⟨f - 45, by omega⟩
  have hl := ct_bidding_loop_illegal p N plays team opp extra fuel _ i out [] (g+43) h hp (by omega)
  rw [callFn, call_succ, callF_def]
  simp only [cb_body_def, cb_params, cb_defaults, ct_thread_def, bindParams, Option.map]
  ppsimp [hd, hv, ct_new_bidding, hl]

/-- non-vacuity: South deals and its bidding system doubles at once — refused (nothing to double), `Exception` -/
example (f : Nat) (hf : 0 + 1 + 0 + 79 ≤ f) :
    callFn P f m_ClientThread_bidding_phase
        [encClientThread .S (encClientWorld [] [encCall .dbl] [] []) "T".toList (.str "U".toList)
          [(n_board_num, .int 1), (n_dealer, encSeat .S), (n_vul, encVul .none)]]
      = .error (.exc K.Exception) :=
  client_bidding_illegal_translated .S 3 .S .none ⟨[], [.dbl], []⟩ 0 [] [] "T".toList (.str "U".toList)
    [(n_board_num, .int 1), (n_dealer, encSeat .S), (n_vul, encVul .none)] rfl rfl
    (by with_unfolding_all exact True.intro) (by with_unfolding_all exact True.intro) f hf

/-! ### `_deal`, then `bidding_phase` (the first two steps of a board in `clientBoardsR`) -/

/-- (1) and (2) compose: the object `_deal` leaves carries the `dealer` / `vul` that `bidding_phase` reads -/
theorem client_deal_then_bidding (p : Seat) (i i1 i2 : ClientIn) (d b : ClientActs) (k : Nat) (dealer : Seat) (vul : Vul)
    (hand : List Card) (fuel : Nat) (s : AState) (c : Contract) (N : Nat) (hs hb : Val) (plays out : List Val) (team : Str)
    (opp : Val) (extra : List (Id × Val))
    (h1 : clientDealR p i = some (d, (k, dealer, vul), hand, i1)) (hp1 : dealParses N p i hs hb)
    (h2 : clientBiddingR p fuel (AState.init dealer vul) i1 = some (b, s, i2)) (hc : s.contract = some c)
    (hp2 : bidParses N p fuel (AState.init dealer vul) i1) :
    ∃ ops1 self1, encClientActs p d = some ops1 ∧
      encClientActs p b = some (eraseAsks (clientBidOps p fuel (AState.init dealer vul) i1)) ∧
      ∀ f, i.s.length + i.calls.length + N + 79 ≤ f →
        callFn P f m_ClientThread__deal
            [encClientThread p (encClientWorld i.s (i.calls.map encCall) plays out) team opp extra] = .ok (.none, self1) ∧
        callFn P f m_ClientThread_bidding_phase [self1]
          = .ok (encContract c, encClientThread p (encClientWorld i2.s (i2.calls.map encCall) plays
              (out ++ ops1 ++ clientBidOps p fuel (AState.init dealer vul) i1)) team opp
              (dealtFields extra k dealer vul hs hb)) := by
  obtain ⟨ops1, hops1, hdeal⟩ := client_deal_translated p i i1 d k dealer vul hand N hs hb plays out team opp extra h1 hp1
  obtain ⟨hb2, hbid⟩ := client_bidding_translated p fuel dealer vul i1 i2 b s c N plays (out ++ ops1) team opp
    (dealtFields extra k dealer vul hs hb) (lookup_dealtFields_dealer ..) (lookup_dealtFields_vul ..) h2 hc hp2
  obtain ⟨e1, _, e3⟩ := clientDealR_decisions p i i1 d _ hand h1
  refine ⟨ops1, _, hops1, hb2, fun f hf => ⟨hdeal f (by omega), hbid f ?_⟩⟩
  rw [e1, e3, List.length_drop]
  omega

/-! ## (3) `_connect` -/

theorem ct_w_op_call (f : Nat) (s : List Str) (bids plays out : List Val) (a b : Val) :
    callF (mkRec P (f+12)) m__World_w_op [encClientWorld s bids plays out, a, b]
      = .ok (.none, encClientWorld s bids plays (out ++ [.tuple [a, b]])) := by
  rw [callF_def]
  simp only [m__World_w_op, bindParams, Option.map, ct_encClientWorld_def, vtexts]
  ctsimp []

theorem ct_mth_parse_team_names :
    P.method? classDepth n_Client n_parse_team_names = some (n_Client, m_Client_parse_team_names) := rfl
theorem ct_intStr_18 : intStr 18 = ['1', '8'] := by decide
theorem ct_beq_str (a b : Str) : (Val.str a).beq (.str b) = (a == b) := by simp only [Val.beq]
theorem ct_natStr_18 : natStr 18 = ['1', '8'] := by decide +kernel
/-- the request `_connect` sends, as the f-string builds it -/
def connectText (team F : Str) : Str :=
    [['C', 'o', 'n', 'n', 'e', 'c', 't', 'i', 'n', 'g', ' ', '\"'], team, ['\"', ' ', 'a', 's', ' '], F,
     [' ', 'u', 's', 'i', 'n', 'g', ' ', 'p', 'r', 'o', 't', 'o', 'c', 'o', 'l', ' ', 'v', 'e', 'r', 's', 'i', 'o', 'n', ' '],
     ['1', '8']].flatten
/-- it is `connectMsg` (Model/Msg.lean) with protocol version 18 -/
theorem ct_connectMsg_18 (team F : Str) : connectMsg team F 18 = connectText team F := by
  unfold connectMsg connectText
  rw [ct_natStr_18]
  simp only [String.reduceToList, List.flatten_cons, List.flatten_nil, List.append_nil, List.append_assoc,
    List.cons_append, List.nil_append]

/-- the two answers `_connect` accepts to its request: `<seat> <team> seated` / `<seat> ("<team>") seated` -/
def seatedPlain (p : Seat) (team : Text) : Text :=
  [p.formal, [' '], team, [' ', 's', 'e', 'a', 't', 'e', 'd']].flatten
def seatedQuoted (p : Seat) (team : Text) : Text :=
  [p.formal, [' ', '(', '\"'], team, ['\"', ')', ' ', 's', 'e', 'a', 't', 'e', 'd']].flatten

theorem ct_connect_call (f : Nat) (p : Seat) (reply teams : Str) (s : List Str) (bids plays out : List Val)
    (team : Str) (opp : Val) (extra : List (Id × Val)) (ns ew : Str) (s1 : Val)
    (h1 : ∀ g, callF (mkRec P (f+g)) m_Client_parse_team_names [.str teams] = .ok (.tuple [.str ns, .str ew], s1))
    (q : Bool) (hq1 : (reply == seatedPlain p team) = !q) (hq2 : q = true → (reply == seatedQuoted p team) = true)
    (hmine : (if p.side = .NS then ns else ew) = team) :
    callF (mkRec P (f+40)) m_ClientThread__connect
        [.obj n_ClientThread ((n__w, encClientWorld (reply :: teams :: s) bids plays out) :: (n_player, encSeat p) ::
          (n_team_name, .str team) :: (n_opponent_team_name, opp) :: extra)]
      = .ok (.none, .obj n_ClientThread ((n__w, encClientWorld s bids plays
          (out ++ [.tuple [vstr "connect", .none], .tuple [vstr "send", .str (connectText team p.formal)],
            .tuple [vstr "recv"], .tuple [vstr "send", .str (readyFor p "teams".toList)], .tuple [vstr "recv"],
            .tuple [vstr "send", .str (p.formal ++ " ready to start".toList)]])) :: (n_player, encSeat p) ::
          (n_team_name, .str team) :: (n_opponent_team_name, .str (if p.side = .NS then ew else ns)) :: extra)) := by
  rw [callF_def]
  simp only [m_ClientThread__connect, bindParams, Option.map]
  unfold seatedPlain at hq1
  unfold seatedQuoted at hq2
  cases hside : p.side with
  | NS =>
    simp only [hside, if_true] at hmine
    have hm : (ns == team) = true := by simp [hmine]
    cases q with
    | false =>
      simp only [Bool.not_false] at hq1
      ctthsimp [st_formal_name, strOfF, st_mth_w_op, ct_w_op_call, ct_intStr_18, ct_mth_parse_team_names, h1,
        List.append_assoc, ct_beq_str, hq1, getAttr_pair, hside, encSide, Side.value, Val.beq, hm]
      simp only [connectText, readyFor, vstr, String.reduceToList, List.flatten_cons, List.flatten_nil,
        List.append_nil, List.append_assoc, List.cons_append, List.nil_append]
    | true =>
      simp only [Bool.not_true] at hq1
      have hq2' := hq2 rfl
      ctthsimp [st_formal_name, strOfF, st_mth_w_op, ct_w_op_call, ct_intStr_18, ct_mth_parse_team_names, h1,
        List.append_assoc, ct_beq_str, hq1, hq2', getAttr_pair, hside, encSide, Side.value, Val.beq, hm]
      simp only [connectText, readyFor, vstr, String.reduceToList, List.flatten_cons, List.flatten_nil,
        List.append_nil, List.append_assoc, List.cons_append, List.nil_append]
  | EW =>
    have hne : ¬ (Side.EW = Side.NS) := by decide
    simp only [hside, hne, if_false] at hmine
    have hm : (ew == team) = true := by simp [hmine]
    cases q with
    | false =>
      simp only [Bool.not_false] at hq1
      ctthsimp [st_formal_name, strOfF, st_mth_w_op, ct_w_op_call, ct_intStr_18, ct_mth_parse_team_names, h1,
        List.append_assoc, ct_beq_str, hq1, getAttr_pair, hside, encSide, Side.value, Val.beq, hm]
      simp only [connectText, readyFor, vstr, String.reduceToList, List.flatten_cons, List.flatten_nil,
        List.append_nil, List.append_assoc, List.cons_append, List.nil_append]
    | true =>
      simp only [Bool.not_true] at hq1
      have hq2' := hq2 rfl
      ctthsimp [st_formal_name, strOfF, st_mth_w_op, ct_w_op_call, ct_intStr_18, ct_mth_parse_team_names, h1,
        List.append_assoc, ct_beq_str, hq1, hq2', getAttr_pair, hside, encSide, Side.value, Val.beq, hm]
      simp only [connectText, readyFor, vstr, String.reduceToList, List.flatten_cons, List.flatten_nil,
        List.append_nil, List.append_assoc, List.cons_append, List.nil_append]

/-- `_connect` as the code writes it: the request, the answer (`… seated`, either form), "ready for teams", the `Teams`
message (parsed; the own side's name must be the own team name), "ready to start"; returns the opponents' team name.
The request is `connectText team seat` = `connectMsg team seat 18` of Model/Msg.lean (`ct_connectMsg_18`).
(`clientReactive` of Model/ClientThread.lean starts after the request was answered: its first two actions — the receipt
of the `Teams` message, "ready to start" — are the last two here.) -/
def clientConnectR (p : Seat) (team : Text) (i : ClientIn) : Option (ClientActs × Text × ClientIn) := do
  let (reply, i) ← i.recv
  if reply = seatedPlain p team ∨ reply = seatedQuoted p team then do
    let (teams, i) ← i.recv
    let (ns, ew) ← parseTeamNames? teams
    if (if p.side = .NS then ns else ew) = team then
      pure ([.send (.c2s p) (connectText team p.formal), .recv (.s2c p),
             .send (.c2s p) (readyFor p "teams".toList), .recv (.s2c p),
             .send (.c2s p) (p.formal ++ " ready to start".toList)], if p.side = .NS then ew else ns, i)
    else none
  else none

/-- on the `Teams` message `clientConnectR` consumes, the translated `Client.parse_team_names` returns what the model's
`parseTeamNames?` returns -/
def connectParses (N : Nat) (i : ClientIn) : Prop :=
  match i.s with
  | _ :: teams :: _ =>
    ∀ ns ew, parseTeamNames? teams = some (ns, ew) →
      Returns N m_Client_parse_team_names [.str teams] (.tuple [.str ns, .str ew])
  | _ => True

/-- (3) `_connect` is `clientConnectR`: the world operation `connect` (the socket's `connect`), then the model's actions;
`opponent_team_name` becomes the other side's name -/
theorem client_connect_translated (p : Seat) (team : Text) (i i' : ClientIn) (acts : ClientActs) (oppName : Text)
    (N : Nat) (bids plays out : List Val) (opp : Val) (extra : List (Id × Val))
    (h : clientConnectR p team i = some (acts, oppName, i')) (hp : connectParses N i) :
    ∃ ops, encClientActs p acts = some ops ∧ ∀ f, N + 41 ≤ f →
      callFn P f m_ClientThread__connect [encClientThread p (encClientWorld i.s bids plays out) team opp extra]
        = .ok (.none, encClientThread p (encClientWorld i'.s bids plays
            (out ++ .tuple [vstr "connect", .none] :: ops)) team (.str oppName) extra) := by
  obtain ⟨s, calls, cards⟩ := i
  match s, hp, h with
  | reply :: teams :: s0, hp, h =>
    simp only [clientConnectR, ClientIn.recv, Option.bind_eq_bind, Option.bind_some] at h
    by_cases hr : reply = seatedPlain p team ∨ reply = seatedQuoted p team
    · rw [if_pos hr] at h
      cases ht : parseTeamNames? teams with
      | none => rw [ht] at h; cases h
      | some x =>
        obtain ⟨ns, ew⟩ := x
        rw [ht, Option.bind_some] at h
        by_cases hmine : (if p.side = .NS then ns else ew) = team
        · rw [if_pos hmine] at h
          simp only [Option.pure_def, Option.some.injEq, Prod.mk.injEq] at h
          obtain ⟨rfl, rfl, rfl⟩ := h
          obtain ⟨s1, h1⟩ := (hp ns ew ht).callF
          refine ⟨[.tuple [vstr "send", .str (connectText team p.formal)],
            .tuple [vstr "recv"], .tuple [vstr "send", .str (readyFor p "teams".toList)], .tuple [vstr "recv"],
            .tuple [vstr "send", .str (p.formal ++ " ready to start".toList)]], ?_, fun f hf => ?_⟩
          · simp [encClientActs, encClientAct]
          · obtain ⟨g, rfl⟩ : ∃ g, f = (N + g) + 41 := ⟨f - N - 41, by omega⟩
            by_cases hpl : reply = seatedPlain p team
            · exact ct_connect_call (N + g) p reply teams s0 bids plays out team opp extra ns ew s1
                (fun g' => h1 _ (by omega)) false (by simp [hpl]) (by simp) hmine
            · exact ct_connect_call (N + g) p reply teams s0 bids plays out team opp extra ns ew s1
                (fun g' => h1 _ (by omega)) true (by simp [hpl]) (fun _ => by simp [hr.resolve_left hpl]) hmine
        · rw [if_neg hmine] at h; cases h
    · rw [if_neg hr] at h; cases h
  | [], _, h =>
    simp only [clientConnectR, ClientIn.recv, Option.bind_eq_bind, Option.bind_none] at h
    cases h
  | [r], _, h =>
    simp only [clientConnectR, ClientIn.recv, Option.bind_eq_bind, Option.bind_some] at h
    by_cases hr : r = seatedPlain p team ∨ r = seatedQuoted p team
    · rw [if_pos hr] at h; cases h
    · rw [if_neg hr] at h; cases h

/-- non-vacuity of (3): South's client of team "T"; the table manager answers in the plain form; East/West are "U" -/
example (f : Nat) (hf : 30 + 41 ≤ f) :
    callFn P f m_ClientThread__connect
        [encClientThread .S (encClientWorld
          ["South T seated".toList, "Teams : N/S : \"T\" E/W : \"U\"".toList, "Start of board".toList] [] [] [])
          "T".toList .none []]
      = .ok (.none, encClientThread .S (encClientWorld ["Start of board".toList] [] []
          [.tuple [vstr "connect", .none],
           .tuple [vstr "send", vstr "Connecting \"T\" as South using protocol version 18"], .tuple [vstr "recv"],
           .tuple [vstr "send", vstr "South ready for teams"], .tuple [vstr "recv"],
           .tuple [vstr "send", vstr "South ready to start"]]) "T".toList (.str "U".toList) []) := by
  have hp : connectParses 30 ⟨["South T seated".toList, "Teams : N/S : \"T\" E/W : \"U\"".toList,
      "Start of board".toList], [], []⟩ := by
    intro ns ew hh
    have e : parseTeamNames? "Teams : N/S : \"T\" E/W : \"U\"".toList = some ("T".toList, "U".toList) := by
      decide +kernel
    rw [e] at hh
    obtain ⟨rfl, rfl⟩ : "T".toList = ns ∧ "U".toList = ew := by simpa using hh
    exact Returns.of_fuel (by with_unfolding_all rfl)
  obtain ⟨ops, hops, h⟩ := client_connect_translated .S "T".toList _ ⟨["Start of board".toList], [], []⟩ _
    "U".toList 30 [] [] [] .none [] (by with_unfolding_all rfl) hp
  simp [encClientActs, encClientAct] at hops
  subst hops
  exact h f hf

end Bridge.Translated.ClientA
