import BridgeVerif.Translated.HandParsersB
/-! Translated `Client.parse_hand` (client.py) = model, part C — the loops: the inner loop `for rank in ranks:` by induction
on the tokens of a group (`-` skipped, `Card(Card.rank_str_to_int(rank), suit)` added to `hand_set` — first occurrences
stay — and its slot of `hand_list` set), one turn of the outer loop over `zip(map(split, match.groups()), suits)`. -/
set_option maxRecDepth 4000
namespace Bridge.Translated.HandParsers
open Bridge Bridge.Py Bridge.Generated.PyCore Bridge.Translated Bridge.RegexHands Bridge.RegexMsgHand
open Bridge.Translated.HandsPbn

def phOuter : List Stmt := match m_Client_parse_hand.body.getD 4 .pass with
  | .for _ _ b => b
  | _ => []
def phInner : List Stmt := match phOuter.getD 0 .pass with
  | .for _ _ b => b
  | _ => []

/-- the model's reading of one token -/
def tokCard? (su : Suit) (t : List Char) : Option Card := (rankOfToken? t).bind fun r => mkCard? r su

theorem cardsOfGroup_eq (g : List Char) (su : Suit) :
    cardsOfGroup? g su = ((splitSp g).filter (· ≠ ['-'])).mapM (tokCard? su) := rfl

theorem hq_mapM_cons (f : List Char → Option Card) (t : List Char) (ts : List (List Char)) (cs : List Card)
    (h : (t :: ts).mapM f = some cs) : ∃ c cs', f t = some c ∧ ts.mapM f = some cs' ∧ cs = c :: cs' := by
  simp only [List.mapM_cons, Option.bind_eq_bind, Option.pure_def] at h
  cases hc : f t with
  | none => simp [hc] at h
  | some c =>
    cases hr : ts.mapM f with
    | none => simp [hc, hr] at h
    | some cs' =>
      simp [hc, hr] at h
      exact ⟨c, cs', rfl, rfl, h.symm⟩

theorem hq_ne_suit_rank : n_rank ≠ n_suit := by decide
theorem hq_ne_suit_card : n_card ≠ n_suit := by decide

/-- the inner loop: every token but `-` adds its card (first occurrences stay) and sets its slot -/
theorem hq_inner (f : Nat) (a b d : Val) (su : Suit) : ∀ (ts : List (List Char)) (cs : List Card),
    (ts.filter (· ≠ ['-'])).mapM (tokCard? su) = some cs →
    ∀ (acc : List Card) (hl : List Val) (tail : Env), hl.length = 52 → lookup tail n_suit = some (encSuit su) →
    ∃ tail', lookup tail' n_suit = some (encSuit su) ∧
      forF (mkRec P (f+14)) [n_rank] phInner
        ((n_content, a) :: (n_pattern, b) :: (n_match, d) :: (n_hand_list, .tuple hl)
          :: (n_hand_set, .tuple (acc.map encCard)) :: tail) (ts.map Val.str)
      = .ok ((n_content, a) :: (n_pattern, b) :: (n_match, d) :: (n_hand_list, .tuple (setBits cs hl))
          :: (n_hand_set, .tuple ((cs.foldl (fun acc c => if c ∈ acc then acc else acc ++ [c]) acc).map encCard))
          :: tail', .next) := by
  intro ts
  induction ts with
  | nil =>
    intro cs h acc hl tail _ hs
    have : cs = [] := by simpa using h.symm
    subst this
    exact ⟨tail, hs, rfl⟩
  | cons t ts ih =>
    intro cs h acc hl tail hlen hs
    by_cases ht : t = ['-']
    · subst ht
      have h' : (ts.filter (· ≠ ['-'])).mapM (tokCard? su) = some cs := by simpa using h
      obtain ⟨tail', hs', e⟩ := ih cs h' acc hl (update tail n_rank (.str ['-'])) hlen
        (by rw [lookup_update_ne _ _ _ _ hq_ne_suit_rank]; exact hs)
      refine ⟨tail', hs', ?_⟩
      simp only [phInner, phOuter, m_Client_parse_hand, List.getD_cons_succ, List.getD_cons_zero] at e ⊢
      simp only [List.map_cons, forF]
      ppsimp [jp_beq_str']
      exact e
    · have hf : (t :: ts).filter (· ≠ ['-']) = t :: ts.filter (· ≠ ['-']) := by simp [ht]
      rw [hf] at h
      obtain ⟨c, cs', hc, hr, rfl⟩ := hq_mapM_cons _ _ _ _ h
      unfold tokCard? at hc
      cases hrk : rankOfToken? t with
      | none => rw [hrk] at hc; cases hc
      | some r =>
        rw [hrk] at hc
        obtain ⟨rfl, hok⟩ := hq_card_ok r su c hc
        obtain ⟨h2, _, h52⟩ := hands_ok_card hok
        have hcon := fun k => hd_construct_card k ⟨r, su⟩ hok
        simp only at hcon
        have hcard : Val.obj n_Card [(n_rank, .int r), (n_suit, encSuit su)] = encCard ⟨r, su⟩ := rfl
        have hidx : normIndex 52 ((Card.idx ⟨r, su⟩ : Nat) : Int) = some (Card.idx ⟨r, su⟩) := hd_normIndex_nat _ _ h52
        have hs1 : lookup (update tail n_rank (.str t)) n_suit = some (encSuit su) := by
          rw [lookup_update_ne _ _ _ _ hq_ne_suit_rank]; exact hs
        by_cases hm : (⟨r, su⟩ : Card) ∈ acc
        · obtain ⟨tail', hs', e⟩ := ih cs' hr acc (replaceAt hl (Card.idx ⟨r, su⟩) (.int 1))
            (update (update tail n_rank (.str t)) n_card (encCard ⟨r, su⟩))
            (by rw [hd_replaceAt_length]; exact hlen)
            (by rw [lookup_update_ne _ _ _ _ hq_ne_suit_card]; exact hs1)
          refine ⟨tail', hs', ?_⟩
          simp only [phInner, phOuter, m_Client_parse_hand, List.getD_cons_succ, List.getD_cons_zero] at e ⊢
          simp only [List.map_cons, forF, List.foldl_cons, setBits]
          ppsimp [jp_beq_str', ht, jp_mth_rank_str_to_int, hq_rank_str_to_int_call _ _ _ hrk, hs1, hcon, hcard,
            contains_encCard, hm, hd_builtin_int_card, hd_idxZ _ h2, hlen, hidx]
          exact e
        · obtain ⟨tail', hs', e⟩ := ih cs' hr (acc ++ [⟨r, su⟩]) (replaceAt hl (Card.idx ⟨r, su⟩) (.int 1))
            (update (update tail n_rank (.str t)) n_card (encCard ⟨r, su⟩))
            (by rw [hd_replaceAt_length]; exact hlen)
            (by rw [lookup_update_ne _ _ _ _ hq_ne_suit_card]; exact hs1)
          refine ⟨tail', hs', ?_⟩
          simp only [phInner, phOuter, m_Client_parse_hand, List.getD_cons_succ, List.getD_cons_zero] at e ⊢
          simp only [List.map_cons, forF, List.foldl_cons, setBits]
          ppsimp [jp_beq_str', ht, jp_mth_rank_str_to_int, hq_rank_str_to_int_call _ _ _ hrk, hs1, hcon, hcard,
            contains_encCard, hm, map_snoc, hd_builtin_int_card, hd_idxZ _ h2, hlen, hidx]
          exact e

theorem hq_ne_suit_ranks : n_suit ≠ n_ranks := by decide

/-- one turn of the outer loop: the group `g` of suit `su`, already split -/
theorem hq_outer_step (f : Nat) (a b d : Val) (su : Suit) (g : List Char) (cs : List Card)
    (hcs : cardsOfGroup? g su = some cs) (acc : List Card) (hl : List Val) (tail : Env) (hlen : hl.length = 52)
    (items : List Val) :
    ∃ tail', forF (mkRec P (f+16)) [n_ranks, n_suit] phOuter
        ((n_content, a) :: (n_pattern, b) :: (n_match, d) :: (n_hand_list, .tuple hl)
          :: (n_hand_set, .tuple (acc.map encCard)) :: tail)
        (.tuple [.tuple ((splitSp g).map Val.str), encSuit su] :: items)
      = forF (mkRec P (f+16)) [n_ranks, n_suit] phOuter
        ((n_content, a) :: (n_pattern, b) :: (n_match, d) :: (n_hand_list, .tuple (setBits cs hl))
          :: (n_hand_set, .tuple ((cs.foldl (fun acc c => if c ∈ acc then acc else acc ++ [c]) acc).map encCard))
          :: tail') items := by
  obtain ⟨tail', _, e⟩ := hq_inner (f+1) a b d su (splitSp g) cs hcs acc hl
    (update (update tail n_ranks (.tuple ((splitSp g).map Val.str))) n_suit (encSuit su)) hlen (lookup_update_same ..)
  refine ⟨tail', ?_⟩
  simp only [phInner, phOuter, m_Client_parse_hand, List.getD_cons_succ, List.getD_cons_zero] at e ⊢
  conv => lhs; simp only [forF]
  ppsimp [iterItems_tuple, lookup_update_ne _ _ _ _ hq_ne_suit_ranks, e]

end Bridge.Translated.HandParsers
