import BridgeVerif.Translated.ThreadsMainCLemmasE
import BridgeVerif.Lemmas.Play
/-! Translated `MainThread.run`: a fact about the MODEL `mainPlayingR` — after the thirteen tricks the two sides have taken
thirteen tricks together (so the argument of `calc_score` is in 0..13) -/
namespace Bridge.Translated.MainC
open Bridge Bridge.Py Bridge.Generated.PyCore Bridge.Translated.MainA Bridge.Translated.MainB

/-- the tricks taken are the tricks in the history; the current trick has fewer than four cards -/
def TInv (s : PState) : Prop := s.takenNS + s.takenEW = s.history.length ∧ s.trick.length < 4

/-- the number of cards played -/
def cardsPlayed (s : PState) : Nat := 4 * s.history.length + s.trick.length

theorem tinv_playCard (s : PState) (c : Card) (h : TInv s) :
    TInv (playCard s c) ∧ cardsPlayed (playCard s c) = cardsPlayed s + 1 := by
  obtain ⟨h1, h2⟩ := h
  unfold playCard
  simp only [List.length_append, List.length_cons, List.length_nil]
  by_cases h4 : s.trick.length + (0 + 1) = 4
  · rw [if_pos h4]
    refine ⟨⟨?_, ?_⟩, ?_⟩
    · rw [addTaken_takenNS, addTaken_takenEW, addTaken_history]
      simp only [List.length_cons]
      cases (s.leader.rot (highestIdx s.trump (s.trick ++ [c])).toNat).side <;> simp <;> omega
    · rw [addTaken_trick]; simp
    · simp only [cardsPlayed, addTaken_history, addTaken_trick, List.length_cons, List.length_nil]; omega
  · rw [if_neg h4]
    refine ⟨⟨h1, ?_⟩, ?_⟩
    · simp only [List.length_append, List.length_cons, List.length_nil]; omega
    · simp only [cardsPlayed, List.length_append, List.length_cons, List.length_nil]; omega

theorem tinv_play {w w' : WithHands} {c : Card} {p : Seat} (hp : w.play c p = .ok w') (h : TInv w.base) :
    TInv w'.base ∧ cardsPlayed w'.base = cardsPlayed w.base + 1 := by
  unfold WithHands.play at hp
  split at hp
  · cases hp
  · split at hp
    · cases hp
    · cases hp
      exact tinv_playCard _ _ h

theorem tinv_trick (decl : Seat) (dm : Text) (first : Bool) : ∀ (m idx : Nat) (w wf : WithHands) (i i_f : MainIn)
    (acts : MainActs), idx + m = 4 → TInv w.base → mainTrickR decl dm first idx w i = some (acts, wf, i_f) →
    TInv wf.base ∧ cardsPlayed wf.base = cardsPlayed w.base + m := by
  intro m
  induction m with
  | zero =>
    intro idx w wf i i_f acts hidx hinv hr
    obtain rfl : idx = 4 := by omega
    rw [mainTrickR_four] at hr
    simp only [Option.some.injEq, Prod.mk.injEq] at hr
    obtain ⟨_, rfl, _⟩ := hr
    exact ⟨hinv, rfl⟩
  | succ m ih =>
    intro idx w wf i i_f acts hidx hinv hr
    obtain ⟨message, i1, card, w1, rest, _, _, hplay, hrest, _⟩ := mainTrickR_inv (by omega) hr
    obtain ⟨hinv1, hc1⟩ := tinv_play hplay hinv
    obtain ⟨hinvf, hcf⟩ := ih (idx + 1) w1 wf i1 i_f rest (by omega) hinv1 hrest
    exact ⟨hinvf, by rw [hcf, hc1]; omega⟩

theorem tinv_tricks (decl : Seat) (dm : Text) : ∀ (n k : Nat) (w wf : WithHands) (i i_f : MainIn) (acts : MainActs),
    TInv w.base → mainPlayingR.tricks decl dm n k w i = some (acts, wf, i_f) →
    TInv wf.base ∧ cardsPlayed wf.base = cardsPlayed w.base + 4 * n := by
  intro n
  induction n with
  | zero =>
    intro k w wf i i_f acts hinv hr
    rw [mainPlayingR.tricks] at hr
    simp only [Option.some.injEq, Prod.mk.injEq] at hr
    obtain ⟨_, rfl, _⟩ := hr
    exact ⟨hinv, rfl⟩
  | succ n ih =>
    intro k w wf i i_f acts hinv hr
    rw [tricks_succ] at hr
    cases ht : mainTrickR decl dm (k = 1) 0 w i with
    | none => rw [ht] at hr; cases hr
    | some x =>
      obtain ⟨t, w1, i1⟩ := x
      rw [ht] at hr
      simp only at hr
      cases hts : mainPlayingR.tricks decl dm n (k + 1) w1 i1 with
      | none => rw [hts] at hr; cases hr
      | some y =>
        obtain ⟨rest, w2, i2⟩ := y
        rw [hts] at hr
        simp only [Option.some.injEq, Prod.mk.injEq] at hr
        obtain ⟨_, rfl, _⟩ := hr
        obtain ⟨hinv1, hc1⟩ := tinv_trick decl dm _ 4 0 w w1 i i1 t rfl hinv ht
        obtain ⟨hinv2, hc2⟩ := ih (k + 1) w1 w2 i1 i2 rest hinv1 hts
        exact ⟨hinv2, by rw [hc2, hc1]; omega⟩

/-- after `mainPlayingR` the two sides have taken thirteen tricks together -/
theorem mc_taken_le (c : Contract) (deal : Seat → List Card) (decl : Seat) (dm : Text) (w0 w : WithHands) (i i' : MainIn)
    (acts : MainActs) (hw0 : WithHands.init c deal = some w0) (hr : mainPlayingR decl dm w0 i = some (acts, w, i')) :
    declTricks decl w ≤ 13 := by
  have hinv0 : TInv w0.base ∧ cardsPlayed w0.base = 0 := by
    unfold WithHands.init at hw0
    cases hp : PState.init c with
    | none => rw [hp] at hw0; cases hw0
    | some s0 =>
      rw [hp] at hw0
      simp only [Option.map_some, Option.some.injEq] at hw0
      subst hw0
      unfold PState.init at hp
      split at hp
      · cases hp; exact ⟨⟨rfl, by simp⟩, rfl⟩
      · cases hp
  rw [mainPlayingR_eq] at hr
  cases hts : mainPlayingR.tricks decl dm 13 1 w0 i with
  | none => rw [hts] at hr; cases hr
  | some x =>
    obtain ⟨ts, wf, i_f⟩ := x
    rw [hts] at hr
    simp only [Option.some.injEq, Prod.mk.injEq] at hr
    obtain ⟨_, rfl, _⟩ := hr
    obtain ⟨⟨h1, h2⟩, hc⟩ := tinv_tricks decl dm 13 1 w0 wf i i_f ts hinv0.1 hts
    rw [hinv0.2] at hc
    simp only [cardsPlayed] at hc
    unfold declTricks
    cases decl.side <;> simp only <;> omega

end Bridge.Translated.MainC
