import BridgeVerif.Translated.Enc
import BridgeVerif.Translated.Notation
import BridgeVerif.Model.Msg
/-!
# The message builders and parsers of both ends AS TRANSLATED agree on the complete finite domains  (C19)

`Client.create_bid_message` / `Client.card_str` (builders), `MessageInterface.parse_bid` / `parse_card`,
`Server.remove_alert_word`, `Server.convert_vul` / `Client.parse_board` re-written from the source on every run
(`Generated/PyCoreNet.lean`; of `server.py`, `client.py`, `socket_interface.py` only these pure helpers are translated) and
executed by the MiniPy interpreter, whose `re.match` / `re.sub` are the generic regular-expression engine of
`Model/Regex.lean` (the patterns are parsed at run time, as Python does).  Kernel evaluation over every call × seat and
every card × seat × notation: nothing is assumed about the shape of the code or of the patterns.
-/
namespace Bridge.Translated
open Bridge.Py Bridge.Generated.PyCore

/-- result of a method of the WHOLE translated program (the network helpers live outside the base group) -/
def methP (c m : Id) (args : List Val) : R Val := (P.runMethod c m args).map (·.1)

/-- run `f` on the text a builder returned -/
def withText (r : R Val) (f : List Char → Bool) : Bool :=
  match r with
  | .ok (.str s) => f s
  | _ => false

/-- every call by every seat: the client's message is the protocol text of the model and the table manager's parser
reads the call back -/
theorem bid_message_round_trip : ∀ c ∈ Call.all, ∀ p ∈ seats,
    withText (methP n_Client n_create_bid_message [encCall c, .str p.formal]) (fun m =>
      m == bidMsg c p.formal &&
      enumOf n_Bid (methP n_MessageInterface n_parse_bid [.str m, .str p.formal]) == some (c.value : Int)) = true := by
  decide +kernel

/-- with an alert appended (`remove_alert_word` strips ` Alert.` and the blanks around it), in upper case, in lower case:
the table manager still reads the same call; read with ANOTHER seat's name the message is refused.  (An explanation
after `Alert.` is left in the text by `remove_alert_word`; a bid is still read — the pattern is matched as a prefix — a
pass / double / redouble followed by an explanation is not: outside what the properties ask.) -/
theorem bid_message_variants : ∀ c ∈ Call.all, ∀ p ∈ seats,
    withText (methP n_Client n_create_bid_message [encCall c, .str p.formal]) (fun m =>
      withText (methP n_Server n_remove_alert_word [.str (m ++ "  ALERT. ".toList)]) (fun m' =>
        enumOf n_Bid (methP n_MessageInterface n_parse_bid [.str m', .str p.formal]) == some (c.value : Int)) &&
      enumOf n_Bid (methP n_MessageInterface n_parse_bid [.str (m.map upperC), .str p.formal]) == some (c.value : Int) &&
      enumOf n_Bid (methP n_MessageInterface n_parse_bid [.str (m.map lowerC), .str p.formal]) == some (c.value : Int) &&
      (methP n_MessageInterface n_parse_bid [.str m, .str p.left.formal]).exc?.isSome) = true := by
  decide +kernel

/-- every card by every seat, in both notations the protocol allows (rank-suit as the client writes it, suit-rank as
`str(card)`), in upper and in lower case: the table manager reads the card back -/
theorem card_message_round_trip : ∀ c ∈ Card.deck, ∀ p ∈ seats,
    withText (methP n_Client n_card_str [encCard c]) (fun body =>
      body == (playMsg p c false).drop (p.formal.length + 7) &&
      isVal (methP n_MessageInterface n_parse_card [.str (playMsg p c false), encSeat p]) (encCard c) &&
      isVal (methP n_MessageInterface n_parse_card [.str (playMsg p c true), encSeat p]) (encCard c) &&
      isVal (methP n_MessageInterface n_parse_card [.str ((playMsg p c false).map lowerC), encSeat p]) (encCard c) &&
      isVal (methP n_MessageInterface n_parse_card [.str ((playMsg p c true).map upperC), encSeat p]) (encCard c) &&
      (methP n_MessageInterface n_parse_card [.str (playMsg p c false), encSeat p.left]).exc?.isSome) = true := by
  decide +kernel

/-- the board header: every dealer × vulnerability (board numbers 1 and 16) as the table manager words it is read back
by the client -/
theorem board_header_round_trip : ∀ d ∈ seats, ∀ v ∈ vuls, ∀ n : Fin 2,
    withText (methP n_Server n_convert_vul [encVul v]) (fun vt =>
      let num : Int := if n.val = 0 then 1 else 16
      let header := "Board number ".toList ++ intStr num ++ ". Dealer ".toList ++ d.formal ++ ". ".toList ++ vt ++ " vulnerable.".toList
      isVal (methP n_Client n_parse_board [.str header]) (.tuple [.int num, encSeat d, encVul v])) = true := by
  decide +kernel

/-- the connection line: every seat (any letter case of the seat name) and a few protocol versions -/
theorem connection_line_read : ∀ p ∈ seats, ∀ ver : Fin 3,
    let line := "Connecting \"Team (A)\" as ".toList ++ p.formal.map upperC ++ " using protocol version ".toList ++ intStr (17 + ver.val)
    isVal (methP n_PlayerThread n_parse_connection_info [.str line]) (.tuple [.str "Team (A)".toList, encSeat p, .int (17 + ver.val)]) = true := by
  decide +kernel

end Bridge.Translated
