import BridgeVerif.Translated.PbnParserLemmasE
/-! Translated PBN parser = model: one line of `parse_stream` -/
namespace Bridge.Translated
open Bridge Bridge.Py Bridge.Generated.PyCore Bridge.RegexPbn

/-- the two patterns `parse_stream` tries on a `%` line -/
def PBN_VERSION_PATTERN : Str := ['%', ' ', 'P', 'B', 'N', ' ', '(', '\\', 'd', '+', ')', '\\', '.', '(', '\\', 'd', '+', ')']
def PBN_EXPORT_PATTERN : Str := ['%', ' ', 'E', 'X', 'P', 'O', 'R', 'T']

/-- what `parse_stream` needs of a `%` line in order not to raise: `re.match(r'% PBN (\d+)\.(\d+)', l)` fails, or its
groups 1 and 2 (as the translated program sees the match object: `matchVal`) are texts `int()` accepts -/
def pctVersionOk (l : Str) : Bool :=
  match Re.pyMatch false PBN_VERSION_PATTERN l with
  | none => false
  | some none => true
  | some (some m) =>
    match matchVal n__Match (Int.toNat n_texts) l m with
    | .obj _ [(_, .tuple (_ :: .str a :: .str b :: _))] => (parseInt? a).isSome && (parseInt? b).isSome
    | _ => false
/-- `re.match(r'% EXPORT', l)` gives an answer (the engine does not run out of its own fuel) -/
def pctExportOk (l : Str) : Bool := (Re.pyMatch false PBN_EXPORT_PATTERN l).isSome
def pctLineOk (l : Str) : Bool := pctVersionOk l && pctExportOk l

def psBody : List Stmt := match m_PbnParser_parse_stream.body.getD 1 .pass with
  | .for _ _ b => b
  | _ => []

/-- the environment of `parse_stream` inside the loop -/
def psEnv (st : PbnSt) (cl cb : List Str) (fpv : Val) (games : List Game) (tail : Env) : Env :=
  (K.self, encPbnParser st cl cb) :: (n_fp, fpv) :: (n__out, .tuple (games.reverse.map encGame)) :: tail

theorem pp_fullmatch_builtin (hf : PbnRegexFacts) (l : Str) :
    ∃ mv, truthy mv = semiEmpty l ∧ ∀ r : Rec,
      builtinF r P .reFullmatch [.str REPLACE_PATTERN, .str l, .bool false, .cls n__Match, .int n_texts] = .ok mv := by
  have h := hf.fullmatch_replace l
  cases hp : Re.pyFullmatch false REPLACE_PATTERN l with
  | none => rw [hp] at h; cases h
  | some mo =>
    rw [hp] at h
    simp only [Option.map, Option.some.injEq] at h
    cases mo with
    | none => exact ⟨.none, by rw [← h]; rfl, fun r => by simp only [builtinF, hp]; rfl⟩
    | some m => exact ⟨matchVal n__Match (Int.toNat n_texts) l m, by rw [← h]; rfl, fun r => by simp only [builtinF, hp]; rfl⟩

theorem pp_len_tuple (r : Rec) (xs : List Val) : builtinF r P .len [.tuple xs] = .ok (.int (Int.ofNat xs.length)) := rfl
theorem pp_beq_pct (c : Char) : (Val.str [c]).beq (.str ['%']) = decide (c = '%') := by
  simp only [Val.beq]; rw [Bool.eq_iff_iff]; simp
theorem pp_beq_len0 (n : Nat) : (Val.int (Int.ofNat n)).beq (.int 0) = decide (n = 0) := by
  simp only [Val.beq]; rw [Bool.eq_iff_iff]; simp

/-- a semi-empty line outside a comment -/
theorem pp_step_semi (hf : PbnRegexFacts) (hne : PbnSubNonempty) (f N : Nat) (fpv : Val) (l : Str)
    (hse : semiEmpty l = true) (buf : List Str) (cl cb : List Str) (games : List Game) (tail : Env) :
    ∃ tail', execF (mkRec P (f + 4 * N + 31)) P (psEnv ⟨false, buf⟩ cl cb fpv games (update tail n_line (.str l))) psBody
      = .ok (psEnv (streamStep (⟨false, buf⟩, games) l).1 [] [] fpv (streamStep (⟨false, buf⟩, games) l).2 tail', .cont) := by
  obtain ⟨mv, hmv, hb⟩ := pp_fullmatch_builtin hf l
  have hbc : callF (mkRec P (f + 4 * N + 27)) m_PbnParser_parse_board [encPbnParser ⟨false, buf⟩ cl cb]
      = .ok (encGame (parseBoard buf.reverse), encPbnParser ⟨false, buf⟩ cl cb) :=
    pp_board_call hf hne (f + 4 * N + 7) ⟨false, buf⟩ cl cb
  simp only [encPbnParser] at hbc
  simp only [psBody, m_PbnParser_parse_stream, List.getD_cons_succ, List.getD_cons_zero, psEnv, encPbnParser, streamStep,
    hse, Bool.not_false, Bool.and_self, if_true]
  cases buf with
  | nil =>
    refine ⟨update (update tail n_line (.str l)) n_match mv, ?_⟩
    ppsimp [pp_mth_replace, pp_replace_call, hb, hmv, hse, pp_len_tuple, pp_beq_len0, pp_tuple_nil, List.length_map,
      List.length_reverse, List.isEmpty_nil]
    rfl
  | cons b0 buf =>
    simp only [List.reverse_cons, List.map_append, List.map_cons, List.map_nil] at hbc
    refine ⟨update (update tail n_line (.str l)) n_match mv, ?_⟩
    ppsimp [pp_mth_replace, pp_replace_call, hb, hmv, hse, pp_len_tuple, pp_beq_len0, pp_tuple_nil, List.length_map,
      List.length_reverse, List.isEmpty_cons, pp_mth_board, hbc, List.length_cons, List.reverse_cons, List.map_append,
      List.map_cons, List.map_nil, List.length_append]
    rfl

theorem pp_version_builtin (l : Str) (h : pctVersionOk l = true) :
    ∃ mv, (∀ r : Rec, builtinF r P .reMatch [.str PBN_VERSION_PATTERN, .str l, .bool false, .cls n__Match, .int n_texts]
        = .ok mv) ∧
      (mv = .none ∨ ∃ g0 a b rest na nb, mv = .obj n__Match [(n_texts, .tuple (g0 :: .str a :: .str b :: rest))] ∧
        parseInt? a = some na ∧ parseInt? b = some nb) := by
  unfold pctVersionOk at h
  cases hp : Re.pyMatch false PBN_VERSION_PATTERN l with
  | none => rw [hp] at h; cases h
  | some mo =>
    cases mo with
    | none => exact ⟨.none, fun r => by simp only [builtinF, hp]; rfl, Or.inl rfl⟩
    | some m =>
      rw [hp] at h
      simp only at h
      refine ⟨matchVal n__Match (Int.toNat n_texts) l m, fun r => by simp only [builtinF, hp]; rfl, Or.inr ?_⟩
      obtain ⟨gs, hm⟩ := pp_matchVal l m
      rw [hm] at h ⊢
      split at h
      · rename_i c k g0 a b rest heq
        simp only [Val.obj.injEq, List.cons.injEq, Prod.mk.injEq, Val.tuple.injEq, and_true] at heq
        obtain ⟨_, _, _, hgs⟩ := heq
        simp only [Bool.and_eq_true, Option.isSome_iff_exists] at h
        obtain ⟨⟨na, hna⟩, ⟨nb, hnb⟩⟩ := h
        exact ⟨_, a, b, rest, na, nb, by rw [hgs], hna, hnb⟩
      · cases h

theorem pp_export_builtin (l : Str) (h : pctExportOk l = true) :
    ∃ me, ∀ r : Rec, builtinF r P .reMatch [.str PBN_EXPORT_PATTERN, .str l, .bool false, .cls n__Match, .int n_texts]
        = .ok me := by
  unfold pctExportOk at h
  cases hp : Re.pyMatch false PBN_EXPORT_PATTERN l with
  | none => rw [hp] at h; cases h
  | some mo =>
    cases mo with
    | none => exact ⟨.none, fun r => by simp only [builtinF, hp]; rfl⟩
    | some m => exact ⟨_, fun r => by simp only [builtinF, hp]; rfl⟩

end Bridge.Translated
