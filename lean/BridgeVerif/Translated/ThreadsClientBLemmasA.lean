import BridgeVerif.Translated.ThreadsClientA
import BridgeVerif.Translated.Play
import BridgeVerif.Translated.ThreadsMainALemmas
/-! Translated `ClientThread.playing_phase`: the loop bodies extracted from the generated method, the decision of the
playing system on a client world (`w_ask("play", None)`), `Client.card_str` on the 52 cards, the translated
`ObservedPlayingPhase` as the symbolic execution meets it -/
set_option maxRecDepth 4000
namespace Bridge.Translated.ClientB
open Bridge Bridge.Py Bridge.Generated.PyCore Bridge.Translated Bridge.Translated.ClientA

/-! ## the pieces of the generated `playing_phase` -/

/-- the condition and the body of `while not env.has_done()` -/
def cpCond : Expr := match m_ClientThread_playing_phase.body.getD 6 .pass with
  | .while c _ => c
  | _ => .const .none
def cpBody : List Stmt := match m_ClientThread_playing_phase.body.getD 6 .pass with
  | .while _ b => b
  | _ => []
/-- the statement that receives the "… to lead" message -/
def cpLead : Stmt := cpBody.getD 0 .pass
/-- the body of `for _ in range(4)` -/
def cpInner : List Stmt := match cpBody.getD 1 .pass with
  | .for _ _ b => b
  | _ => []
/-- the statement that opens dummy's hand / the statement that plays one card -/
def cpOpen : Stmt := cpInner.getD 0 .pass
def cpMove : Stmt := cpInner.getD 1 .pass

theorem cpInner_eq : cpInner = [cpOpen, cpMove] := rfl
theorem cpBody_eq : cpBody = [cpLead, .for [n__] (.builtin .range [(.const (.int 4))]) cpInner] := rfl
theorem cp_body_def : m_ClientThread_playing_phase.body =
    [.assert (.not (.meth (.var n_contract) n_is_passed_out [])),
     .assign (.var n_declarer) (.attr (.var n_contract) n_declarer),
     .assert (.cmp .isNot (.var n_declarer) (.const .none)),
     .assign (.var n_dummy) (.attr (.var n_declarer) n_partner),
     .assign (.var n_env) (.new n_ObservedPlayingPhase [(.var n_contract), (.attr (.var K.self) n_player),
       (.attr (.var K.self) n_hand_set)]),
     .assign (.var n_hand_open) (.const (.bool false)),
     .while cpCond cpBody] := rfl
theorem cp_params : m_ClientThread_playing_phase.params = [K.self, n_contract] := rfl
theorem cp_defaults : m_ClientThread_playing_phase.defaults = [] := rfl

/-! ## the decision of the playing system -/

/-- the world operation of a decision of the playing system: `w_ask("play", None)` -/
def playAsk : Val := .tuple [vstr "play", .none]

theorem cb_lookupD_play (a b c : Val) :
    lookupD [(vstr "conn", a), (vstr "bid", b), (vstr "play", c)] (.str ['p', 'l', 'a', 'y']) = some c := by
  simp [lookupD, vstr, Val.beq]
theorem cb_updateD_play (a b c v : Val) :
    updateD [(vstr "conn", a), (vstr "bid", b), (vstr "play", c)] (.str ['p', 'l', 'a', 'y']) v
      = [(vstr "conn", a), (vstr "bid", b), (vstr "play", v)] := by
  simp [updateD, vstr, Val.beq]

theorem cb_w_ask_play_call (f : Nat) (s : List Str) (b : Val) (bids plays out : List Val) :
    callF (mkRec P (f+12)) m__World_w_ask [encClientWorld s bids (b :: plays) out, .str ['p', 'l', 'a', 'y'], .none]
      = .ok (b, encClientWorld s bids plays (out ++ [playAsk])) := by
  rw [callF_def]
  simp only [m__World_w_ask, bindParams, Option.map, ct_encClientWorld_def, vtexts]
  ctsimp [cb_lookupD_play, cb_updateD_play]
  rfl

theorem cb_w_ask_play_blocked (f : Nat) (s : List Str) (bids out : List Val) :
    callF (mkRec P (f+12)) m__World_w_ask [encClientWorld s bids [] out, .str ['p', 'l', 'a', 'y'], .none]
      = .error (.exc n_Blocked) := by
  rw [callF_def]
  simp only [m__World_w_ask, bindParams, Option.map, ct_encClientWorld_def, vtexts]
  ctsimp [cb_lookupD_play, cb_updateD_play]

/-! ## `Client.card_str` on the 52 cards -/

theorem cb_card_str_all : ∀ c ∈ Card.deck,
    retStr (callFn P 20 m_Client_card_str [encCard c]) (cardStrRS c) = true := by
  decide +kernel

theorem cb_card_mem_deck (c : Card) (h : c.ok = true) : c ∈ Card.deck := by
  obtain ⟨r, s⟩ := c
  simp only [Card.ok, Bool.and_eq_true, decide_eq_true_eq] at h
  obtain ⟨⟨h1, h2⟩, h3⟩ := h
  have : ∀ r' : Fin 15, ∀ s' ∈ Suit.all, 2 ≤ r'.val → s' ≠ .NT → (⟨r'.val, s'⟩ : Card) ∈ Card.deck := by
    decide +kernel
  exact this ⟨r, by omega⟩ s (by cases s <;> decide) h1 h3

/-- `Client.card_str(card)` is the rank character followed by the suit's name (evaluated over the 52 cards) -/
theorem card_str_translated (c : Card) (h : c.ok = true) :
    Returns 20 m_Client_card_str [encCard c] (.str (cardStrRS c)) := by
  apply Returns.of_fuel
  have h := cb_card_str_all c (cb_card_mem_deck c h)
  cases hx : callFn P 20 m_Client_card_str [encCard c] with
  | error e => rw [hx] at h; simp [retStr] at h
  | ok x =>
    obtain ⟨v, s⟩ := x
    rw [hx] at h
    cases v <;> simp [retStr] at h
    subst h
    rfl

theorem cb_mth_card_str : P.method? classDepth n_Client n_card_str = some (n_Client, m_Client_card_str) := rfl
theorem cb_mth_parse_leader :
    P.method? classDepth n_Client n_parse_leader_message = some (n_Client, m_Client_parse_leader_message) := rfl
theorem cb_mth_parse_card :
    P.method? classDepth n_MessageInterface n_parse_card = some (n_MessageInterface, m_MessageInterface_parse_card) := rfl

/-! ## the translated `ObservedPlayingPhase` (Translated/Play*.lean) as the symbolic execution meets it -/

theorem cb_obs_active (r : Rec) (c : Contract) (o : Observed) :
    getAttrF r P (encObserved c o) n_active_player = .ok (encSeat o.base.active) := rfl
theorem cb_obs_trick_num (r : Rec) (c : Contract) (o : Observed) :
    getAttrF r P (encObserved c o) n_trick_num = .ok (.int o.base.trickNum) := rfl
theorem cb_obs_dummy_hand (f : Nat) (c : Contract) (o : Observed) :
    getAttrF (mkRec P (f+6)) P (encObserved c o) n_dummy_hand = .ok (encOpt encCards o.dummyHand) := rfl
theorem cb_methF_obs (r : Rec) (c : Contract) (o : Observed) (m : Id) (args : List Val) :
    methF r P (encObserved c o) m args
      = callMethod r P n_ObservedPlayingPhase m (encObserved c o :: args) (.exc K.AttributeError) := rfl
theorem cb_mth_has_done :
    P.method? classDepth n_ObservedPlayingPhase n_has_done = some (n_PlayingPhase, m_PlayingPhase_has_done) := rfl
theorem cb_mth_set_dummy : P.method? classDepth n_ObservedPlayingPhase n_set_dummy_hand
    = some (n_ObservedPlayingPhase, m_ObservedPlayingPhase_set_dummy_hand) := rfl
theorem cb_mth_play_by : P.method? classDepth n_ObservedPlayingPhase n_play_card_by_player
    = some (n_ObservedPlayingPhase, m_ObservedPlayingPhase_play_card_by_player) := rfl

theorem cb_has_done_call (f : Nat) (c : Contract) (o : Observed) :
    callF (mkRec P (f+8)) m_PlayingPhase_has_done [encObserved c o] = .ok (.bool o.base.hasDone, encObserved c o) := by
  rw [encObserved_eq]
  exact has_done_call f n_ObservedPlayingPhase _ c o.base

theorem cb_set_dummy_call (f : Nat) (c : Contract) (o : Observed) (dl : List Card) :
    callF (mkRec P (f+10)) m_ObservedPlayingPhase_set_dummy_hand [encObserved c o, .tuple (dl.map encCard)]
      = .ok (.none, encObserved c (o.setDummy dl)) := set_dummy_call f c o dl

theorem cb_play_call (f : Nat) (c : Contract) (o o' : Observed) (card : Card) (p : Seat) (hwf : WF o.base)
    (h : o.play card p = .ok o') :
    callF (mkRec P (f+60)) m_ObservedPlayingPhase_play_card_by_player [encObserved c o, encCard card, encSeat p]
      = .ok (.none, encObserved c o') := by
  rw [observed_play_call f c o card p hwf, h]

end Bridge.Translated.ClientB
