import BridgeVerif.Translated.PbnParserLemmasI
/-! Translated PBN parser = model, wide bound: one line of `parse_stream` (all cases in one statement), the loop, the
empty-line guard (`line[0]` raises `IndexError`), `parse_stream`, `parse_all` -/
set_option linter.unusedSimpArgs false
namespace Bridge.Translated
open Bridge Bridge.Py Bridge.Generated.PyCore Bridge.RegexPbn

/-- a line handed to `extract_content` (two levels of fuel per character) -/
theorem pp_step_content_wide (hf : PbnRegexFacts) (f N : Nat) (fpv : Val) (c : Char) (rest : Str) (ic : Bool)
    (h1 : (semiEmpty (c :: rest) && !ic) = false) (h2 : (decide (c = '%') && !ic) = false)
    (hlen : (c :: rest).length + 1 < 2 * N) (buf : List Str) (cl cb : List Str) (games : List Game) (tail : Env) :
    ∃ cl' cb' tail', execF (mkRec P (f + 4 * N + 31)) P
        (psEnv ⟨ic, buf⟩ cl cb fpv games (update tail n_line (.str (c :: rest)))) psBody
      = .ok (psEnv (extractContent ((c :: rest).length + 1) ⟨ic, buf⟩ (c :: rest)) cl' cb' fpv games tail', .next) := by
  obtain ⟨mv, hmv, hb⟩ := pp_fullmatch_builtin hf (c :: rest)
  have hm : (c :: rest).length + (PbnSt.mk ic buf).inComment.toNat < 2 * N := by
    cases ic
    · exact (show (c :: rest).length + 0 < 2 * N by omega)
    · exact hlen
  obtain ⟨cl', cb', hec⟩ := pp_extract_call_wide hf N (f + 14) ((c :: rest).length + 1) ⟨ic, buf⟩ cl cb (c :: rest) hm
    (Nat.lt_succ_self _)
  have e : f + 14 + 4 * N + 16 = f + 4 * N + 30 := by omega
  rw [e] at hec
  refine ⟨cl', cb', ?_⟩
  generalize extractContent ((c :: rest).length + 1) ⟨ic, buf⟩ (c :: rest) = st' at hec ⊢
  simp only [encPbnParser] at hec
  simp only [psBody, m_PbnParser_parse_stream, List.getD_cons_succ, List.getD_cons_zero, psEnv, encPbnParser]
  cases hsem : semiEmpty (c :: rest) <;> rw [hsem] at hmv h1 <;> cases hd : decide (c = '%') <;> cases ic <;> rw [hd] at h2 <;>
    simp only [Bool.not_false, Bool.not_true, Bool.and_true, Bool.and_false, decide_true, decide_false,
      Bool.true_eq_false, Bool.false_eq_true] at h1 h2
  all_goals
    ppsimp [pp_mth_replace, pp_replace_call, hb, hmv, pp_index_str0, pp_beq_pct, hd, pp_mth_extract, hec]
    exact ⟨_, rfl⟩

/-- one (non-empty) line of `parse_stream` = `streamStep` -/
theorem pp_step_wide (hf : PbnRegexFacts) (hne : PbnSubNonempty) (f N : Nat) (fpv : Val) (c : Char) (rest : Str)
    (hlen : (c :: rest).length + 1 < 2 * N) (hpct : c = '%' → pctLineOk (c :: rest) = true)
    (st : PbnSt) (cl cb : List Str) (games : List Game) (tail : Env) :
    ∃ cl' cb' tail' fl, (fl = .next ∨ fl = .cont) ∧
      execF (mkRec P (f + 4 * N + 31)) P (psEnv st cl cb fpv games (update tail n_line (.str (c :: rest)))) psBody
        = .ok (psEnv (streamStep (st, games) (c :: rest)).1 cl' cb' fpv (streamStep (st, games) (c :: rest)).2 tail', fl) := by
  obtain ⟨ic, buf⟩ := st
  cases h1 : (semiEmpty (c :: rest) && !ic) with
  | true =>
    simp only [Bool.and_eq_true, Bool.not_eq_true'] at h1
    obtain ⟨hse, rfl⟩ := h1
    obtain ⟨tail', hs⟩ := pp_step_semi hf hne f N fpv (c :: rest) hse buf cl cb games tail
    exact ⟨[], [], tail', .cont, Or.inr rfl, hs⟩
  | false =>
    have hss : streamStep (⟨ic, buf⟩, games) (c :: rest)
        = if (decide (c = '%') && !ic) = true then (⟨ic, buf⟩, games)
          else (extractContent ((c :: rest).length + 1) ⟨ic, buf⟩ (c :: rest), games) := by
      simp only [streamStep, h1, Bool.false_eq_true, if_false, List.head?_cons, Option.some.injEq]
    rw [hss]
    cases h2 : (decide (c = '%') && !ic) with
    | true =>
      simp only [Bool.and_eq_true, Bool.not_eq_true', decide_eq_true_eq] at h2
      obtain ⟨rfl, rfl⟩ := h2
      obtain ⟨cl', tail', hs⟩ := pp_step_pct hf f N fpv rest (hpct rfl) buf cl cb games tail
      exact ⟨cl', cb, tail', .cont, Or.inr rfl, hs⟩
    | false =>
      obtain ⟨cl', cb', tail', hs⟩ := pp_step_content_wide hf f N fpv c rest ic h1 h2 hlen buf cl cb games tail
      exact ⟨cl', cb', tail', .next, Or.inl rfl, hs⟩

/-- the empty line: `line[0]` raises `IndexError` -/
theorem pp_step_empty (hf : PbnRegexFacts) (f N : Nat) (fpv : Val) (st : PbnSt) (cl cb : List Str) (games : List Game)
    (tail : Env) :
    execF (mkRec P (f + 4 * N + 31)) P (psEnv st cl cb fpv games (update tail n_line (.str []))) psBody
      = .error (.exc K.IndexError) := by
  obtain ⟨mv, hmv, hb⟩ := pp_fullmatch_builtin hf []
  have hse : semiEmpty [] = false := rfl
  rw [hse] at hmv
  simp only [psBody, m_PbnParser_parse_stream, List.getD_cons_succ, List.getD_cons_zero, psEnv, encPbnParser]
  ppsimp [pp_mth_replace, pp_replace_call, hb, hmv, pw_index_empty]

/-- the condition on the lines: non-empty, short enough for the fuel, `%` lines harmless -/
def LinesOkW (N : Nat) (lines : List Str) : Prop :=
  ∀ l ∈ lines, l ≠ [] ∧ l.length + 1 < 2 * N ∧ (l.head? = some '%' → pctLineOk l = true)

theorem pp_stream_loop_wide (hf : PbnRegexFacts) (hne : PbnSubNonempty) (f N : Nat) (fpv : Val) : ∀ (lines : List Str)
    (st : PbnSt) (cl cb : List Str) (games : List Game) (tail : Env), LinesOkW N lines →
    ∃ cl' cb' tail', forF (mkRec P (f + 4 * N + 32)) [n_line] psBody (psEnv st cl cb fpv games tail) (lines.map Val.str)
      = .ok (psEnv (lines.foldl streamStep (st, games)).1 cl' cb' fpv (lines.foldl streamStep (st, games)).2 tail', .next) := by
  intro lines
  induction lines with
  | nil => intro st cl cb games tail _; exact ⟨cl, cb, tail, rfl⟩
  | cons l lines ih =>
    intro st cl cb games tail hok
    have hl := hok l (List.mem_cons_self ..)
    have hok' : LinesOkW N lines := fun x hx => hok x (List.mem_cons_of_mem _ hx)
    cases l with
    | nil => exact absurd rfl hl.1
    | cons c rest =>
    obtain ⟨cl', cb', tail', fl, hfl, hs⟩ := pp_step_wide hf hne f N fpv c rest hl.2.1
      (fun hc => hl.2.2 (by rw [hc]; rfl)) st cl cb games tail
    simp only [List.map_cons, forF, pure_eq, bind_ok, pp_psEnv_update, exec_succ, List.foldl_cons, hs]
    rcases hfl with rfl | rfl <;> exact ih _ cl' cb' _ tail' hok'

/-- … and when an empty line follows the good lines `pre`, the loop raises `IndexError` -/
theorem pp_stream_loop_empty (hf : PbnRegexFacts) (hne : PbnSubNonempty) (f N : Nat) (fpv : Val) (post : List Str) :
    ∀ (pre : List Str) (st : PbnSt) (cl cb : List Str) (games : List Game) (tail : Env), LinesOkW N pre →
    forF (mkRec P (f + 4 * N + 32)) [n_line] psBody (psEnv st cl cb fpv games tail) ((pre ++ [] :: post).map Val.str)
      = .error (.exc K.IndexError) := by
  intro pre
  induction pre with
  | nil =>
    intro st cl cb games tail _
    simp only [List.nil_append, List.map_cons, forF, pure_eq, bind_ok, pp_psEnv_update, exec_succ, pp_step_empty hf, bind_err]
  | cons l lines ih =>
    intro st cl cb games tail hok
    have hl := hok l (List.mem_cons_self ..)
    have hok' : LinesOkW N lines := fun x hx => hok x (List.mem_cons_of_mem _ hx)
    cases l with
    | nil => exact absurd rfl hl.1
    | cons c rest =>
    obtain ⟨cl', cb', tail', fl, hfl, hs⟩ := pp_step_wide hf hne f N fpv c rest hl.2.1
      (fun hc => hl.2.2 (by rw [hc]; rfl)) st cl cb games tail
    simp only [List.cons_append, List.map_cons, forF, pure_eq, bind_ok, pp_psEnv_update, exec_succ, hs]
    rcases hfl with rfl | rfl <;> exact ih _ cl' cb' _ tail' hok'

end Bridge.Translated
