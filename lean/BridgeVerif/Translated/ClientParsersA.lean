import BridgeVerif.Lemmas.RegexMsgClient
import BridgeVerif.Translated.ConnectInfo
import BridgeVerif.Translated.HandsPbnLemmasA
/-!
# The bundled client's parsers translated = the model's : `re.match` as the program sees it, `parse_match_base`

* `reMatch_none` / `reMatch_some` : the value of the interpreter's `.reMatch` builtin (with `re.IGNORECASE`) when the engine's groups are
  known (from the theorems of `Lemmas/RegexMsgClient.lean`);
* `match_base_none` / `match_base_some` : the translated `MessageInterface.parse_match_base(pattern, content)` raises
  `Exception` when there is no match and returns the `_Match` object otherwise, at every sufficient fuel.
-/
set_option maxRecDepth 4000
namespace Bridge.Translated.ClientParsers
open Bridge Bridge.Py Bridge.Generated.PyCore Bridge.Translated Bridge.RegexHands Bridge.RegexMsgClient
open Bridge.Translated.HandsPbn (hp_matchVal hp_grp_map)

/-- `re.match(pat, s, re.IGNORECASE)` as the program sees it, when the engine's groups are known: no match -/
theorem reMatch_none (pat s : List Char)
    (h : (Re.pyMatch true pat s).map (Option.map (groupTexts s)) = some none) (r : Rec) :
    builtinF r P .reMatch [.str pat, .str s, .bool true, .cls n__Match, .int n_texts] = .ok .none := by
  cases hp : Re.pyMatch true pat s with
  | none => rw [hp] at h; cases h
  | some om =>
    rw [hp] at h
    cases om with
    | none => simp only [builtinF, hp]; rfl
    | some m => simp at h

/-- … a match: an instance of `_Match` whose `texts` are group 0 and the group texts -/
theorem reMatch_some (pat s : List Char) (gs : List (List Char))
    (h : (Re.pyMatch true pat s).map (Option.map (groupTexts s)) = some (some (gs.map some))) :
    ∃ g0, ∀ r : Rec, builtinF r P .reMatch [.str pat, .str s, .bool true, .cls n__Match, .int n_texts]
        = .ok (.obj n__Match [(n_texts, .tuple (.str g0 :: gs.map Val.str))]) := by
  cases hp : Re.pyMatch true pat s with
  | none => rw [hp] at h; cases h
  | some om =>
    rw [hp] at h
    cases om with
    | none => simp at h
    | some m =>
      simp only [Option.map_some, Option.some.injEq, groupTexts] at h
      refine ⟨Re.slice s m.span.1 m.span.2, fun r => ?_⟩
      have e : builtinF r P .reMatch [.str pat, .str s, .bool true, .cls n__Match, .int n_texts]
          = .ok (matchVal n__Match n_texts s m) := by
        simp only [builtinF, hp]; rfl
      rw [e, hp_matchVal, hp_grp_map s _ _ h]

theorem obj_beq_none (c : Id) (fs : List (Id × Val)) : (Val.obj c fs).beq .none = false := by simp only [Val.beq]

theorem mth_match_base : P.method? classDepth n_MessageInterface n_parse_match_base
    = some (n_MessageInterface, m_MessageInterface_parse_match_base) := rfl

/-- no match: `parse_match_base` raises `Exception` -/
theorem match_base_none (f : Nat) (pat s : Str)
    (h : ∀ r : Rec, builtinF r P .reMatch [.str pat, .str s, .bool true, .cls n__Match, .int n_texts] = .ok .none) :
    callF (mkRec P (f+10)) m_MessageInterface_parse_match_base [.str pat, .str s] = .error (.exc K.Exception) := by
  rw [callF_def]
  simp only [m_MessageInterface_parse_match_base]
  ppsimp [h]

/-- a match: `parse_match_base` returns the match object -/
theorem match_base_some (f : Nat) (pat s : Str) (fs : List (Id × Val))
    (h : ∀ r : Rec, builtinF r P .reMatch [.str pat, .str s, .bool true, .cls n__Match, .int n_texts]
      = .ok (.obj n__Match fs)) :
    callF (mkRec P (f+10)) m_MessageInterface_parse_match_base [.str pat, .str s]
      = .ok (.obj n__Match fs, .str pat) := by
  rw [callF_def]
  simp only [m_MessageInterface_parse_match_base]
  ppsimp [h, obj_beq_none]

end Bridge.Translated.ClientParsers
