import BridgeVerif.Translated.ThreadsSeatBLemmasG
/-! Translated `SeatThread._playing_phase`: one card, the relaying case; the rotation and the opening of dummy -/
namespace Bridge.Translated.SeatB
open Bridge Bridge.Py Bridge.Generated.PyCore

set_option maxRecDepth 4000

local notation "SW(" p "," q "," c "," out "," tb "," tbs ")" =>
  Val.obj n__World [(n_ins, Val.dict [(qkey "m2t" p, vtexts q), (vstr "conn", vtexts c)]), (n_out, Val.tuple out),
    (n_table, tb), (n_tables, Val.tuple tbs), (n_eof, Val.bool false)]

/-- normal form of a text: literals as lists, appends to the right -/
macro "txtnorm" "[" ls:Lean.Parser.Tactic.simpLemma,* "]" "at" h:ident : tactic =>
  `(tactic| simp only [String.reduceToList, List.append_assoc, List.cons_append, List.nil_append, ne_eq,
      not_true_eq_false, not_false_eq_true, if_true, if_false, $ls,*] at $h:ident)

/-- another seat's card is relayed: `<p> ready for <x>'s card to trick <k>` is awaited and checked, the card taken from
the queue and sent to the client -/
theorem sb_card_relay (f : Nat) (p decl active : Seat) (k idx : Nat) (env : Env) (q c : List Str) (m relay : Str)
    (out : List Val) (tb : Val) (tbs : List Val) (extra : List (Id × Val))
    (he : PE env (encSeatThread p (encSeatWorld p (relay :: q) (m :: c) out tb tbs) extra) decl k active idx)
    (hA : ¬(p = active ∧ p ≠ decl.partner)) (hB : ¬(p = decl ∧ active = decl.partner))
    (hm : passesCheck (readyCardText p decl active k) m) :
    ∃ env', execStmtF (mkRec P (f+24)) P env ppS0 = .ok (env', .next) ∧
      PE env' (encSeatThread p (encSeatWorld p q c (out ++
        [.tuple [vstr "recv"], .tuple [vstr "get", vstr "m2t", encSeat p], .tuple [vstr "send", .str relay]]) tb tbs)
        extra) decl k active idx := by
  obtain ⟨h1, h2, h3, h4, h5, h6⟩ := he
  simp only [ppS0, ppInnerBody, ppOuterBody, m_SeatThread__playing_phase, List.getD_cons_succ, List.getD_cons_zero]
  simp only [encSeatThread, encSeatWorld, encWorld] at h1 ⊢
  by_cases e1 : p = active
  · -- then `p` is dummy
    have e2 : p = decl.partner := Classical.byContradiction fun h => hA ⟨e1, h⟩
    subst e1
    subst e2
    txtnorm [sb_readyCardText, ← sb_intStr_nat] at hm
    have hc := fun f out tb tbs rest => sbu_check_pass f decl.partner (relay :: q) c m _ out tb tbs rest hm
    plsimp [h1, h2, h3, h4, h5, h6, sb_partner_ne, hc, List.flatten_cons, List.flatten_nil, List.append_nil, sb_strOf_int]
    pe_done [h1, h2, h3, h4, h5, h6]
  · by_cases e2 : p = decl
    · have e4 : active ≠ decl.partner := fun h => hB ⟨e2, h⟩
      subst e2
      txtnorm [sb_readyCardText, e4, ← sb_intStr_nat] at hm
      have hc := fun f out tb tbs rest => sbu_check_pass f p (relay :: q) c m _ out tb tbs rest hm
      plsimp [h1, h2, h3, h4, h5, h6, e1, e4, hc, List.flatten_cons, List.flatten_nil, List.append_nil, sb_strOf_int]
      pe_done [h1, h2, h3, h4, h5, h6]
    · by_cases e4 : active = decl.partner
      · subst e4
        txtnorm [sb_readyCardText, ← sb_intStr_nat] at hm
        have hc := fun f out tb tbs rest => sbu_check_pass f p (relay :: q) c m _ out tb tbs rest hm
        plsimp [h1, h2, h3, h4, h5, h6, e1, e2, hc, List.flatten_cons, List.flatten_nil, List.append_nil, sb_strOf_int]
        pe_done [h1, h2, h3, h4, h5, h6]
      · txtnorm [sb_readyCardText, e4, ← sb_intStr_nat] at hm
        have hc := fun f out tb tbs rest => sbu_check_pass f p (relay :: q) c m _ out tb tbs rest hm
        plsimp [h1, h2, h3, h4, h5, h6, e1, e2, e4, hc, List.flatten_cons, List.flatten_nil, List.append_nil, sb_strOf_int]
        pe_done [h1, h2, h3, h4, h5, h6]

/-! ## the second half of the loop body: rotation, opening of dummy -/
theorem sb_beq_k1 (k : Nat) : (Val.int (k : Int)).beq (.int 1) = decide (k = 1) := by
  rw [beq_int, Bool.eq_iff_iff]; simp only [beq_iff_eq, decide_eq_true_eq]; omega

theorem sb_open_none (f : Nat) (selfv : Val) (decl active : Seat) (k idx : Nat) (env : Env)
    (he : PE env selfv decl k active idx) (hn : ¬(k = 1 ∧ idx = 0)) :
    ∃ env', execF (mkRec P (f+20)) P env [ppS1, ppS2] = .ok (env', .next) ∧ PE env' selfv decl k active.left idx := by
  obtain ⟨h1, h2, h3, h4, h5, h6⟩ := he
  simp only [ppS1, ppS2, ppInnerBody, ppOuterBody, m_SeatThread__playing_phase, List.getD_cons_succ, List.getD_cons_zero]
  by_cases hk : k = 1
  · have h0 : ¬ idx = 0 := fun h => hn ⟨hk, h⟩
    subst hk
    plsimp [h1, h2, h3, h4, h5, h6, getAttr_next, sb_beq_k1, h0]
    pe_done [h1, h2, h3, h4, h5, h6]
  · plsimp [h1, h2, h3, h4, h5, h6, getAttr_next, sb_beq_k1, hk]
    pe_done [h1, h2, h3, h4, h5, h6]

/-- dummy's own thread: `continue` -/
theorem sb_open_dummy (f : Nat) (w : Val) (extra : List (Id × Val)) (decl active : Seat) (env : Env)
    (he : PE env (encSeatThread decl.partner w extra) decl 1 active 0) :
    ∃ env', execF (mkRec P (f+20)) P env [ppS1, ppS2] = .ok (env', .cont) ∧
      PE env' (encSeatThread decl.partner w extra) decl 1 active.left 0 := by
  obtain ⟨h1, h2, h3, h4, h5, h6⟩ := he
  simp only [ppS1, ppS2, ppInnerBody, ppOuterBody, m_SeatThread__playing_phase, List.getD_cons_succ, List.getD_cons_zero]
  simp only [encSeatThread] at h1 ⊢
  plsimp [h1, h2, h3, h4, h5, h6, getAttr_next, sb_beq_k1]
  pe_done [h1, h2, h3, h4, h5, h6]

/-- after the first card of the first trick dummy's hand is shown: `<p> ready for dummy` is awaited and checked, the hand
taken from the queue and sent -/
theorem sb_open_hand (f : Nat) (p decl active : Seat) (env : Env) (q c : List Str) (m dh : Str)
    (out : List Val) (tb : Val) (tbs : List Val) (extra : List (Id × Val))
    (he : PE env (encSeatThread p (encSeatWorld p (dh :: q) (m :: c) out tb tbs) extra) decl 1 active 0)
    (hd : p ≠ decl.partner) (hm : passesCheck (readyDummyText p) m) :
    ∃ env', execF (mkRec P (f+24)) P env [ppS1, ppS2] = .ok (env', .next) ∧
      PE env' (encSeatThread p (encSeatWorld p q c (out ++
        [.tuple [vstr "recv"], .tuple [vstr "get", vstr "m2t", encSeat p], .tuple [vstr "send", .str dh]]) tb tbs)
        extra) decl 1 active.left 0 := by
  obtain ⟨h1, h2, h3, h4, h5, h6⟩ := he
  simp only [ppS1, ppS2, ppInnerBody, ppOuterBody, m_SeatThread__playing_phase, List.getD_cons_succ, List.getD_cons_zero]
  simp only [encSeatThread, encSeatWorld, encWorld] at h1 ⊢
  txtnorm [sb_readyDummyText] at hm
  have hc := fun f out tb tbs rest => sbu_check_pass f p (dh :: q) c m _ out tb tbs rest hm
  plsimp [h1, h2, h3, h4, h5, h6, getAttr_next, sb_beq_k1, hd, hc]
  pe_done [h1, h2, h3, h4, h5, h6]

end Bridge.Translated.SeatB
