import BridgeVerif.Translated.EncBase
import BridgeVerif.Model.Notation
/-!
# The notation functions AS TRANSLATED are the hand-written model of them  (C15, and the helpers of C01–C07)

`suit.py`, `pair.py`, `vul.py`, `player.py`, `bid.py`, `card.py`, `contract.py` re-written from the source on every run
(`Generated/PyCore.lean`) and executed by the MiniPy interpreter, compared with the model functions of `Core.lean` /
`Model/Notation.lean` on their COMPLETE finite domains by kernel evaluation: no assumption about the shape of the code.
The theorems of `Props/C15.lean` are stated for the model functions; these equalities carry them over to the code.
-/
namespace Bridge.Translated
open Bridge.Py Bridge.Generated.PyCore

def seats : List Seat := Seat.all
def vuls : List Vul := Vul.all
def sides : List Side := Side.all
def suits : List Suit := Suit.all

/-- result of a property / method as an Enum member of class `c` -/
def enumOf (c : Id) (r : R Val) : Option Int :=
  match r with
  | .ok (.enum c' n) => if c' = c then some n else none
  | _ => none

/-- the run returned a value `==` to `v` -/
def isVal (r : R Val) (v : Val) : Bool :=
  match r with
  | .ok x => x.beq v
  | _ => false
/-- the run returned the Enum member of class `c` the model names, or raised `exc` where the model has `none` -/
def enumOrExc (c : Id) (exc : Id) (o : Option Int) (r : R Val) : Bool :=
  match o with
  | some n => enumOf c r == some n
  | none => r.exc? == some exc
/-- the run returned the integer the model names, or `None` where the model has `none` -/
def intOrNone (o : Option Int) (r : R Val) : Bool :=
  match o with
  | some n => r.int? == some n
  | none => r.isNone
def enumOrNone (c : Id) (o : Option Int) (r : R Val) : Bool :=
  match o with
  | some n => enumOf c r == some n
  | none => r.isNone

/-! ## player.py, pair.py -/
theorem player_moves : ∀ p ∈ seats,
    enumOf n_Player (meth n_Player n_next_player [encSeat p]) = some p.left.value ∧
    enumOf n_Player (meth n_Player n_left [encSeat p]) = some p.left.value ∧
    enumOf n_Player (meth n_Player n_partner [encSeat p]) = some p.partner.value ∧
    enumOf n_Player (meth n_Player n_right [encSeat p]) = some p.right.value ∧
    enumOf n_Pair (meth n_Player n_pair [encSeat p]) = some p.side.value ∧
    enumOf n_Pair (meth n_Player n_opponent_pair [encSeat p]) = some p.side.opp.value := by
  decide +kernel

theorem player_is_partner : ∀ p ∈ seats, ∀ q ∈ seats,
    (meth n_Player n_is_partner [encSeat p, encSeat q]).bool? = some (p.isPartner q) := by
  decide +kernel

theorem player_is_vul : ∀ p ∈ seats, ∀ v ∈ vuls,
    (meth n_Player n_is_vul [encSeat p, encVul v]).bool? = some (p.isVul v) ∧
    (meth n_Pair n_is_vul [encSide p.side, encVul v]).bool? = some (p.side.isVul v) := by
  decide +kernel

theorem player_names : ∀ p ∈ seats,
    (meth n_Player K.str__ [encSeat p]).str? = some p.name ∧
    (meth n_Player n_formal_name [encSeat p]).str? = some p.formal ∧
    enumOf n_Player (meth n_Player n_convert_formal_name [.cls n_Player, .str p.formal]) = some p.value := by
  decide +kernel

theorem pair_opponent : ∀ s ∈ sides,
    enumOf n_Pair (meth n_Pair n_opponent_pair [encSide s]) = some s.opp.value ∧
    (meth n_Pair K.str__ [encSide s]).str? = some (sideName s) := by
  decide +kernel

/-! ## suit.py, vul.py -/
theorem suit_kinds : ∀ s ∈ suits,
    (meth n_Suit n_is_minor [encSuit s]).bool? = some s.isMinor ∧
    (meth n_Suit n_is_major [encSuit s]).bool? = some s.isMajor ∧
    (meth n_Suit K.str__ [encSuit s]).str? = some s.name := by
  decide +kernel

theorem vul_texts : ∀ v ∈ vuls,
    (meth n_Vul K.str__ [encVul v]).str? = some (vulStr v) ∧
    (meth n_Vul n_pbn_format [encVul v]).str? = some (vulPbn v) ∧
    enumOf n_Vul (meth n_Vul n_str_to_vul [.cls n_Vul, .str (vulStr v)]) = some v.value ∧
    enumOf n_Vul (meth n_Vul n_str_to_vul [.cls n_Vul, .str (vulPbn v)]) = some v.value := by
  decide +kernel

theorem vul_other_spellings :
    enumOf n_Vul (meth n_Vul n_str_to_vul [.cls n_Vul, .str "Love".toList]) = some Vul.none.value ∧
    enumOf n_Vul (meth n_Vul n_str_to_vul [.cls n_Vul, .str ['-']]) = some Vul.none.value ∧
    (meth n_Vul n_str_to_vul [.cls n_Vul, .str "nobody".toList]).exc? = some K.KeyError := by
  decide +kernel

/-! ## bid.py -/
theorem bid_numbers : ∀ c ∈ Call.all,
    (meth n_Bid n_idx [encCall c]).int? = some (c.idx : Int) ∧
    enumOf n_Bid (meth n_Bid n_int_to_bid [.cls n_Bid, .int c.idx]) = some (c.value : Int) ∧
    intOrNone ((callLevel? c).map fun l => (l : Int)) (meth n_Bid n_level [encCall c]) = true ∧
    enumOrNone n_Suit ((callSuit? c).map fun s => (s.value : Int)) (meth n_Bid n_suit [encCall c]) = true := by
  decide +kernel

theorem bid_texts : ∀ c ∈ Call.all,
    (meth n_Bid K.str__ [encCall c]).str? = some (callStr c) ∧
    enumOf n_Bid (meth n_Bid n_str_to_bid [.cls n_Bid, .str (callStr c)]) = some (c.value : Int) := by
  decide +kernel

theorem bid_level_suit : ∀ l : Fin 10, ∀ s ∈ suits,
    enumOrExc n_Bid K.ValueError ((levelSuitToCall? (l.val : Int) s).map fun c => (c.value : Int))
      (meth n_Bid n_level_suit_to_bid [.cls n_Bid, .int l.val, encSuit s]) = true := by
  decide +kernel

theorem bid_int_out_of_range : ∀ k : Fin 6,
    (meth n_Bid n_int_to_bid [.cls n_Bid, .int (38 + k.val)]).exc? = some K.ValueError ∧
    (meth n_Bid n_int_to_bid [.cls n_Bid, .int (-(1 + k.val : Int))]).exc? = some K.ValueError := by
  decide +kernel

/-! ## card.py -/
theorem card_numbers : ∀ c ∈ Card.deck,
    (meth n_Card K.int__ [encCard c]).int? = some (c.idx : Int) ∧
    isVal (meth n_Card n_int_to_card [.cls n_Card, .int c.idx]) (encCard c) = true ∧
    isVal (PB.runNew n_Card [.int c.rank, encSuit c.suit]) (encCard c) = true := by
  decide +kernel

theorem card_texts : ∀ c ∈ Card.deck,
    (meth n_Card K.str__ [encCard c]).str? = some (cardStr c) ∧
    isVal (meth n_Card n_str_to_card [.cls n_Card, .str (cardStr c)]) (encCard c) = true := by
  decide +kernel

theorem card_int_out_of_range : ∀ k : Fin 6,
    (meth n_Card n_int_to_card [.cls n_Card, .int (52 + k.val)]).exc? = some K.ValueError ∧
    (meth n_Card n_int_to_card [.cls n_Card, .int (-(1 + k.val : Int))]).exc? = some K.ValueError := by
  decide +kernel

theorem card_rejects : ∀ r : Fin 20, ∀ s ∈ suits,
    (mkCard? r.val s).isNone = true → (PB.runNew n_Card [.int r.val, encSuit s]).exc? = some K.ValueError := by
  decide +kernel

/-! ## contract.py -/
def bidOpts : List (Option (Fin 35)) := none :: (List.finRange 35).map some
def seatOpts : List (Option Seat) := [none, some .N, some .E, some .S, some .W]

/-- the run returned a value `==` to the one the model names, or raised where the model has `none` -/
def valOrRaises (o : Option Val) (r : R Val) : Bool :=
  match o with
  | some v => isVal r v
  | none => r.exc?.isSome

/-- every method of `Contract`, run on the instance for `c`, gives what the model gives -/
def contractAgrees (c : Contract) : Bool :=
  let o := encContract c
  (meth n_Contract n_is_passed_out [o]).bool? == some c.isPassedOut &&
  intOrNone (c.level.map fun l => (l : Int)) (meth n_Contract n_level [o]) &&
  enumOrNone n_Suit (c.trump.map fun s => (s.value : Int)) (meth n_Contract n_trump [o]) &&
  intOrNone (c.level.map fun l => (l : Int) + 6) (meth n_Contract n_necessary_tricks [o]) &&
  (match c.isVul with
    | some v => (meth n_Contract n_is_vul [o]).bool? == some v
    | none => (meth n_Contract n_is_vul [o]).exc? == some K.ValueError) &&
  (meth n_Contract K.str__ [o]).str? == some (contractStr c) &&
  valOrRaises ((strToContract? (contractStr c) c.vul c.declarer).map encContract)
    (meth n_Contract n_str_to_contract [.cls n_Contract, .str (contractStr c), encVul c.vul, encOpt encSeat c.declarer]) &&
  isVal (PB.runNew n_Contract [encOpt encBid c.finalBid, .bool c.x, .bool c.xx, encVul c.vul, encOpt encSeat c.declarer]) o

end Bridge.Translated
