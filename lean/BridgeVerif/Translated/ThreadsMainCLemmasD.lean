import BridgeVerif.Translated.ThreadsMainCLemmasC
import BridgeVerif.Translated.ThreadsMainCLemmasS
/-! Translated `MainThread.run`: the record handed to the log writer (`encRecord`), what a successful `mainBoardR` did -/
set_option maxRecDepth 4000
set_option linter.unusedSimpArgs false
namespace Bridge.Translated.MainC
open Bridge Bridge.Py Bridge.Generated.PyCore Bridge.Translated.MainA Bridge.Translated.MainB

/-- the `scores` dictionary of a record: declarer's pair first (`{declarer.pair: score, opponent: -score}`), N/S first
without a declarer -/
def encScoresR (r : BoardRecord) : Val :=
  match r.contract.declarer with
  | none => .dict [(encSide .NS, .int r.scoreNS), (encSide .EW, .int r.scoreEW)]
  | some d => .dict [(encSide d.side, .int (if d.side = .NS then r.scoreNS else r.scoreEW)),
                     (encSide d.side.opp, .int (if d.side = .NS then r.scoreEW else r.scoreNS))]

/-- THE DICT OF KEYWORD ARGUMENTS `Server.run` hands to `game_log_writer.write(**…)` (here: `w_emit('write', {…})`) for the
record `r`: keys `board_id, west_player, north_player, east_player, south_player, dealer, deal, scoring, bid_history,
contract, play_history, taken_trick_num, scores, dda` in that order; the deal is the dictionary seat ↦ cards, `scoring`
the constant instance `Scoring.IMP`, the play history the `PlayingHistory` object, `dda` the board's table -/
def encRecord (r : BoardRecord) : Val :=
  recDict (.str r.boardId) (.str r.ewName) (.str r.nsName) (encSeat r.dealer) (.dict (handsKvs r.deal))
    (.tuple (r.calls.map encCall)) (encContract r.contract) (encOpt (encPlayingHistory r.contract) r.play)
    (encOpt (fun t : Nat => Val.int t) r.tricks) (encScoresR r) (encDdaOpt r.dda)

/-- `scoring` is `encScoring .IMP` (Translated/JsonWriterLemmasA.lean) -/
theorem encRecord_scoring (r : BoardRecord) :
    lookupD (match encRecord r with | .dict kvs => kvs | _ => []) (.str "scoring".toList) = some (encScoring .IMP) := by
  simp [encRecord, recDict, lookupD, Val.beq]; rfl

/-- the record of a passed-out board, as the code builds it -/
theorem mc_record_passed_out (sc : Scenario) (b : BoardSetting) (calls : List Call) (c : Contract)
    (hpo : c.isPassedOut = true) (w : Option WithHands) :
    recDict (.str b.boardId) (.str sc.ewName) (.str sc.nsName) (encSeat b.dealer) (.dict (handsKvs b.deal))
        (.tuple (calls.map encCall)) (encContract c) .none .none (scoresVal c.declarer 0) (encDdaOpt b.dda)
      = encRecord (recordFrom sc b calls c w) := by
  have hfb : c.finalBid = none := by
    simpa [Contract.isPassedOut, Option.isNone_iff_eq_none] using hpo
  have hr : recordFrom sc b calls c w
      = { boardId := b.boardId, nsName := sc.nsName, ewName := sc.ewName, dealer := b.dealer, deal := b.deal,
          vul := c.vul, calls := calls, contract := c, play := none, tricks := none,
          scoreNS := 0, scoreEW := 0, dda := b.dda } := by
    simp only [recordFrom, hfb]
  rw [hr]
  simp only [encRecord, encScoresR, scoresVal, encOpt]
  cases hd : c.declarer with
  | none => rfl
  | some d => cases hs : d.side <;> simp [Side.opp]

/-- the record of a played board, as the code builds it -/
theorem mc_record_played (sc : Scenario) (b : BoardSetting) (calls : List Call) (c : Contract) (fb : Fin 35) (decl : Seat)
    (hfb : c.finalBid = some fb) (hd : c.declarer = some decl) (w : WithHands) :
    recDict (.str b.boardId) (.str sc.ewName) (.str sc.nsName) (encSeat b.dealer) (.dict (handsKvs b.deal))
        (.tuple (calls.map encCall)) (encContract c) (encHistory c w.base.history) (.int (declTricks decl w))
        (scoresVal c.declarer ((calcScore c (declTricks decl w)).getD 0)) (encDdaOpt b.dda)
      = encRecord (recordFrom sc b calls c (some w)) := by
  have hr : recordFrom sc b calls c (some w)
      = { boardId := b.boardId, nsName := sc.nsName, ewName := sc.ewName, dealer := b.dealer, deal := b.deal,
          vul := c.vul, calls := calls, contract := c, play := some w.base.history.reverse,
          tricks := some (declTricks decl w),
          scoreNS := if decl.side = .NS then (calcScore c (declTricks decl w)).getD 0
                     else -(calcScore c (declTricks decl w)).getD 0,
          scoreEW := if decl.side = .EW then (calcScore c (declTricks decl w)).getD 0
                     else -(calcScore c (declTricks decl w)).getD 0, dda := b.dda } := by
    simp only [recordFrom, hfb, hd]
    rfl
  rw [hr]
  simp only [encRecord, encScoresR, scoresVal, encOpt, hd, jw_encPlayingHistory_eq, List.reverse_reverse]
  cases hs : decl.side <;> simp [Side.opp]

/-- the closing actions of a board in the model -/
def finActs (last : Bool) (r : BoardRecord) : MainActs :=
  if last then [.emit (.write r), .emit LogOp.close] ++ putAll MSG_END else [.emit (.write r)] ++ putAll MSG_NEXT

/-- what a successful `mainBoardR` did -/
theorem mainBoardR_inv (sc : Scenario) (k : Nat) (last : Bool) (b : BoardSetting) (i i' : MainIn) (acts : MainActs)
    (hm : mainBoardR sc k last b i = some (acts, i')) :
    ∃ bid s i1 c, mainBiddingR 321 (AState.init b.dealer b.vul) i = some (bid, s, i1) ∧ s.contract = some c ∧
      ((c.isPassedOut = true ∧ i' = i1 ∧
          acts = mainDealR k b ++ bid ++ [] ++ finActs last (recordFrom sc b s.history.reverse c none)) ∨
       (c.isPassedOut = false ∧ ∃ decl w0 play w, c.declarer = some decl ∧ WithHands.init c b.deal = some w0 ∧
          mainPlayingR decl (cardsMsg "Dummy".toList (b.deal decl.partner)) w0 i1 = some (play, w, i') ∧
          acts = mainDealR k b ++ bid ++ play ++ finActs last (recordFrom sc b s.history.reverse c (some w)))) := by
  unfold mainBoardR at hm
  cases hb : mainBiddingR (320 + 1) (AState.init b.dealer b.vul) i with
  | none => simp [hb] at hm
  | some x =>
    obtain ⟨bid, s, i1⟩ := x
    cases hc : s.contract with
    | none => simp [hb, hc] at hm
    | some c =>
      refine ⟨bid, s, i1, c, rfl, hc, ?_⟩
      simp only [hb, hc, Option.bind_eq_bind, Option.bind_some] at hm
      cases hpo : c.isPassedOut with
      | true =>
        left
        simp only [hpo, if_true, Option.pure_def, Option.bind_some, Option.some.injEq, Prod.mk.injEq] at hm
        obtain ⟨h1, h2⟩ := hm
        exact ⟨rfl, h2.symm, by rw [← h1]; cases last <;> rfl⟩
      | false =>
        right
        simp only [hpo, Bool.false_eq_true, if_false] at hm
        cases hd : c.declarer with
        | none => simp [hd] at hm
        | some decl =>
          cases hw : WithHands.init c b.deal with
          | none => simp [hd, hw] at hm
          | some w0 =>
            simp only [hd, hw] at hm
            cases hp : mainPlayingR decl (cardsMsg "Dummy".toList (b.deal decl.partner)) w0 i1 with
            | none => rw [hp] at hm; simp at hm
            | some y =>
              obtain ⟨play, w, i2⟩ := y
              simp only [hp, Option.bind_eq_bind, Option.bind_some, Option.pure_def, Option.some.injEq, Prod.mk.injEq] at hm
              obtain ⟨h1, h2⟩ := hm
              subst h2
              exact ⟨rfl, decl, w0, play, w, rfl, rfl, hp, by rw [← h1]; cases last <;> rfl⟩

end Bridge.Translated.MainC
