import BridgeVerif.Translated.HandsLemmasA
/-! Translated `Hands` (hands.py) = model: `Card.__post_init__`, `Card.int_to_card`, `Hands.__init__`, and
`convert_binary` (one turn of `for i in range(52)` by cases on the owner of the slot, the loop by induction) -/
namespace Bridge.Translated
open Bridge Bridge.Py Bridge.Generated.PyCore

theorem hd_fmod13 (i : Nat) : Int.fmod (i : Int) 13 = ((i % 13 : Nat) : Int) := by
  rw [Int.fmod_eq_emod_of_nonneg _ (by decide)]; omega
theorem hd_fdiv13 (i : Nat) : Int.fdiv (i : Int) 13 = ((i / 13 : Nat) : Int) := by
  rw [Int.fdiv_eq_ediv_of_nonneg _ (by decide)]; omega


/-- `Card.__post_init__` accepts a valid card -/
theorem hd_post_init_call (f : Nat) (c : Card) (h : c.ok = true) :
    callF (mkRec P (f+8)) m_Card___post_init__ [encCard c] = .ok (.none, encCard c) := by
  rw [callF_def]
  simp only [m_Card___post_init__, bindParams, Option.map, encCard]
  simp only [Card.ok, Bool.and_eq_true, decide_eq_true_eq] at h
  have h1 : ¬ ((c.rank : Int) < 2) := by omega
  have h2 : ¬ (14 < (c.rank : Int)) := by omega
  ppsimp [h1, h2, beq_encSuit_NT, h.2]

theorem hd_construct_card (f : Nat) (c : Card) (h : c.ok = true) :
    constructF (mkRec P (f+9)) P n_Card [.int c.rank, encSuit c.suit] = .ok (encCard c) := by
  have e : constructF (mkRec P (f+9)) P n_Card [.int c.rank, encSuit c.suit]
      = (callF (mkRec P (f+8)) m_Card___post_init__ [encCard c] >>= fun x => pure x.2) := rfl
  rw [e, hd_post_init_call f c h]; rfl

theorem hd_construct_suit (r : Rec) (s : Suit) : constructF r P n_Suit [.int s.value] = .ok (encSuit s) := by
  cases s <;> rfl

theorem hd_int_to_card_call (f : Nat) (i : Nat) (c : Card) (hc : Card.ofIdx? i = some c) :
    callF (mkRec P (f+20)) m_Card_int_to_card [.cls n_Card, .int i] = .ok (encCard c, .cls n_Card) := by
  obtain ⟨hok, hidx⟩ := ofIdx_some hc
  have hv : 1 ≤ c.suit.value ∧ c.suit.value ≤ 4 := by
    have := hok; simp only [Card.ok, Bool.and_eq_true, decide_eq_true_eq] at this
    cases hs : c.suit <;> simp_all [Suit.value]
  have hr : 2 ≤ c.rank ∧ c.rank ≤ 14 := by
    have := hok; simp only [Card.ok, Bool.and_eq_true, decide_eq_true_eq] at this; exact this.1
  simp only [Card.idx] at hidx
  have e1 : ((i % 13 : Nat) : Int) + 2 = (c.rank : Int) := by omega
  have e2 : ((i / 13 : Nat) : Int) + 1 = (c.suit.value : Int) := by omega
  have h1 : ¬ ((i : Int) < 0) := by omega
  have h2 : ¬ (51 < (i : Int)) := by omega
  rw [callF_def]
  simp only [m_Card_int_to_card, bindParams, Option.map]
  ppsimp [h1, h2, hd_fmod13, hd_fdiv13, e1, e2, hd_construct_suit, hd_construct_card _ _ hok]

theorem hd_int_to_card_call' (f : Nat) (i : Nat) (c : Card) (hc : Card.ofIdx? i = some c) :
    callF (mkRec P (f+20)) m_Card_int_to_card [.cls n_Card, .int (Int.ofNat i)] = .ok (encCard c, .cls n_Card) :=
  hd_int_to_card_call f i c hc

/-! ## `convert_binary` -/
def cbBody : List Stmt := match m_Hands_convert_binary.body.getD 4 .pass with
  | .for _ _ b => b
  | _ => []

/-- the argument of `convert_binary`: a dictionary seat ↦ 52-slot vector -/
def bitsKvs (b : Seat → List Nat) : List (Val × Val) :=
  [(encSeat .N, encBits (b .N)), (encSeat .E, encBits (b .E)), (encSeat .S, encBits (b .S)), (encSeat .W, encBits (b .W))]

theorem hd_lookup_bits (b : Seat → List Nat) (p : Seat) : lookupD (bitsKvs b) (encSeat p) = some (encBits (b p)) := by
  cases p <;> simp [lookupD, bitsKvs, encSeat, Val.beq, Seat.value]
theorem hd_lookup_bits_N (b : Seat → List Nat) : lookupD (bitsKvs b) (.enum n_Player 1) = some (encBits (b .N)) := hd_lookup_bits b .N
theorem hd_lookup_bits_E (b : Seat → List Nat) : lookupD (bitsKvs b) (.enum n_Player 2) = some (encBits (b .E)) := hd_lookup_bits b .E
theorem hd_lookup_bits_S (b : Seat → List Nat) : lookupD (bitsKvs b) (.enum n_Player 3) = some (encBits (b .S)) := hd_lookup_bits b .S
theorem hd_lookup_bits_W (b : Seat → List Nat) : lookupD (bitsKvs b) (.enum n_Player 4) = some (encBits (b .W)) := hd_lookup_bits b .W

theorem hd_index_bits (r : Rec) (l : List Nat) (i : Nat) (h : i < l.length) :
    indexF r P (encBits l) (.int (Int.ofNat i)) = .ok (.int (Int.ofNat (l.getD i 0))) := by
  show indexF r P (encBits l) (.int (i : Int)) = _
  simp only [encBits, index_tuple, pp_asInt_int, List.length_map, hd_normIndex_nat _ _ h]
  congr 1
  simp [List.getD_eq_getElem?_getD, h]

theorem hd_beq_one (x : Nat) : (Val.int (Int.ofNat x)).beq (.int 1) = decide (x = 1) := by
  rw [beq_int, Bool.eq_iff_iff]; simp only [beq_iff_eq, decide_eq_true_eq]
  constructor
  · intro h; have : (x : Int) = 1 := h; omega
  · intro h; subst h; rfl

/-- the owner of slot `i`: the first of N, E, S, W whose vector has a 1 there (`convertBinary`) -/
def owner (b : Seat → List Nat) (i : Nat) : Option Seat :=
  if (b .N).getD i 0 = 1 then some .N else if (b .E).getD i 0 = 1 then some .E
  else if (b .S).getD i 0 = 1 then some .S else if (b .W).getD i 0 = 1 then some .W else none

theorem hd_convertBinary_eq (b : Seat → List Nat) (p : Seat) :
    convertBinary b p = (List.range 52).filterMap fun i => if owner b i = some p then Card.ofIdx? i else none := rfl

/-- the environment of the loop of `convert_binary` -/
def cbEnv (cv : Val) (b : Seat → List Nat) (A : Seat → List Card) (tail : Env) : Env :=
  (n_cls, cv) :: (n_binary_hands, .dict (bitsKvs b)) :: (n_north, .tuple ((A .N).map encCard))
    :: (n_east, .tuple ((A .E).map encCard)) :: (n_south, .tuple ((A .S).map encCard))
    :: (n_west, .tuple ((A .W).map encCard)) :: tail

theorem hd_mth_int_to_card : P.method? classDepth n_Card n_int_to_card = some (n_Card, m_Card_int_to_card) := rfl

theorem hands_cb_body (f : Nat) (cv : Val) (b : Seat → List Nat) (hb : ∀ p, 52 ≤ (b p).length)
    (A : Seat → List Card) (j : Nat) (c : Card) (hc : Card.ofIdx? j = some c) (hnew : ∀ p, c ∉ A p)
    (tail : Env) (hl : lookup tail n_i = some (.int (Int.ofNat j))) :
    execF (mkRec P (f+30)) P (cbEnv cv b A tail) cbBody
      = .ok (cbEnv cv b (fun q => if owner b j = some q then A q ++ [c] else A q) tail, .next) := by
  have hj : j < 52 := by
    unfold Card.ofIdx? at hc; split at hc
    · cases hc
    · omega
  have hN : j < (b .N).length := Nat.lt_of_lt_of_le hj (hb .N)
  have hE : j < (b .E).length := Nat.lt_of_lt_of_le hj (hb .E)
  have hS : j < (b .S).length := Nat.lt_of_lt_of_le hj (hb .S)
  have hW : j < (b .W).length := Nat.lt_of_lt_of_le hj (hb .W)
  have hc' : Card.ofIdx? j = some c := hc
  simp only [cbBody, m_Hands_convert_binary, List.getD_cons_succ, List.getD_cons_zero, cbEnv]
  by_cases h1 : (b .N).getD j 0 = 1
  · ppsimp [hl, hd_lookup_bits_N, hd_index_bits _ _ _ hN, hd_beq_one, h1, hd_mth_int_to_card,
      hd_int_to_card_call' _ _ _ hc', contains_encCard, hnew .N, owner, map_snoc]
  · by_cases h2 : (b .E).getD j 0 = 1
    · ppsimp [hl, hd_lookup_bits_N, hd_lookup_bits_E, hd_index_bits _ _ _ hN, hd_index_bits _ _ _ hE, hd_beq_one, h1, h2,
        hd_mth_int_to_card, hd_int_to_card_call' _ _ _ hc', contains_encCard, hnew .E, owner, map_snoc]
    · by_cases h3 : (b .S).getD j 0 = 1
      · ppsimp [hl, hd_lookup_bits_N, hd_lookup_bits_E, hd_lookup_bits_S, hd_index_bits _ _ _ hN, hd_index_bits _ _ _ hE,
          hd_index_bits _ _ _ hS, hd_beq_one, h1, h2, h3,
          hd_mth_int_to_card, hd_int_to_card_call' _ _ _ hc', contains_encCard, hnew .S, owner, map_snoc]
      · by_cases h4 : (b .W).getD j 0 = 1
        · ppsimp [hl, hd_lookup_bits_N, hd_lookup_bits_E, hd_lookup_bits_S, hd_lookup_bits_W, hd_index_bits _ _ _ hN,
            hd_index_bits _ _ _ hE, hd_index_bits _ _ _ hS, hd_index_bits _ _ _ hW, hd_beq_one, h1, h2, h3, h4,
            hd_mth_int_to_card, hd_int_to_card_call' _ _ _ hc', contains_encCard, hnew .W, owner, map_snoc]
        · ppsimp [hl, hd_lookup_bits_N, hd_lookup_bits_E, hd_lookup_bits_S, hd_lookup_bits_W, hd_index_bits _ _ _ hN,
            hd_index_bits _ _ _ hE, hd_index_bits _ _ _ hS, hd_index_bits _ _ _ hW, hd_beq_one, h1, h2, h3, h4, owner]

/-- the cards collected for seat `p` from the slots `is` -/
def cbAcc (b : Seat → List Nat) (is : List Nat) (p : Seat) : List Card :=
  is.filterMap fun i => if owner b i = some p then Card.ofIdx? i else none

theorem hd_cbAcc_snoc (b : Seat → List Nat) (done : List Nat) (j : Nat) (c : Card) (hc : Card.ofIdx? j = some c) :
    (fun q => if owner b j = some q then cbAcc b done q ++ [c] else cbAcc b done q) = cbAcc b (done ++ [j]) := by
  funext q
  simp only [cbAcc, List.filterMap_append, List.filterMap_cons, List.filterMap_nil]
  by_cases h : owner b j = some q
  · simp only [h, if_true, hc]
  · simp only [h, if_false, List.append_nil]

theorem hd_cbAcc_idx (b : Seat → List Nat) (is : List Nat) (p : Seat) (c : Card) (h : c ∈ cbAcc b is p) : c.idx ∈ is := by
  simp only [cbAcc, List.mem_filterMap] at h
  obtain ⟨i, hi, hc⟩ := h
  split at hc
  · rw [(ofIdx_some hc).2]; exact hi
  · cases hc

theorem hd_cbEnv_update (cv : Val) (b : Seat → List Nat) (A : Seat → List Card) (tail : Env) (v : Val) :
    update (cbEnv cv b A tail) n_i v = cbEnv cv b A (update tail n_i v) := by
  simp +decide only [cbEnv, update, ↓reduceIte]

theorem hands_cb_loop (f : Nat) (cv : Val) (b : Seat → List Nat) (hb : ∀ p, 52 ≤ (b p).length) :
    ∀ (js done : List Nat) (tail : Env), (∀ j ∈ js, j < 52) → (done ++ js).Nodup →
      ∃ tail', forF (mkRec P (f+31)) [n_i] cbBody (cbEnv cv b (cbAcc b done) tail) (js.map fun i => .int (Int.ofNat i))
        = .ok (cbEnv cv b (cbAcc b (done ++ js)) tail', .next) := by
  intro js
  induction js with
  | nil => intro done tail _ _; exact ⟨tail, by simp only [List.map_nil, forF, List.append_nil]; rfl⟩
  | cons j js ih =>
    intro done tail hlt hnd
    have hj : j < 52 := hlt j (List.mem_cons_self ..)
    obtain ⟨c, hc, _, hci⟩ := ofIdx_facts ⟨j, hj⟩
    simp only at hc hci
    have hnew : ∀ p, c ∉ cbAcc b done p := by
      intro p hm
      have h1 := hd_cbAcc_idx b done p c hm
      rw [hci] at h1
      have := List.nodup_append.1 hnd
      exact this.2.2 j h1 j (List.mem_cons_self ..) rfl
    have hbody := hands_cb_body f cv b hb (cbAcc b done) j c hc hnew (update tail n_i (.int (Int.ofNat j)))
      (lookup_update_same _ _ _)
    obtain ⟨tail', ht⟩ := ih (done ++ [j]) (update tail n_i (.int (Int.ofNat j)))
      (fun k hk => hlt k (List.mem_cons_of_mem _ hk)) (by simpa using hnd)
    refine ⟨tail', ?_⟩
    simp only [List.map_cons, forF, bind_ok, pure_eq, hd_cbEnv_update, exec_succ, hbody, hd_cbAcc_snoc b done j c hc]
    rw [ht]; simp only [List.append_assoc, List.cons_append, List.nil_append]

theorem hd_mth_hands_init : P.method? classDepth n_Hands K.init = some (n_Hands, m_Hands___init__) := rfl

theorem hd_hands_init_call (f : Nat) (a b c d : Val) :
    callF (mkRec P (f+8)) m_Hands___init__ [.obj n_Hands [], a, b, c, d]
      = .ok (.none, .obj n_Hands [(n_north, a), (n_east, b), (n_south, c), (n_west, d)]) := by
  rw [callF_def]
  simp only [m_Hands___init__, bindParams, Option.map]
  ppsimp []

theorem hd_construct_hands (f : Nat) (a b c d : Val) :
    constructF (mkRec P (f+9)) P n_Hands [a, b, c, d]
      = .ok (.obj n_Hands [(n_north, a), (n_east, b), (n_south, c), (n_west, d)]) := by
  have e : constructF (mkRec P (f+9)) P n_Hands [a, b, c, d]
      = (callF (mkRec P (f+8)) m_Hands___init__ [.obj n_Hands [], a, b, c, d] >>= fun x => pure x.2) := rfl
  rw [e, hd_hands_init_call]; rfl

theorem hd_toNat52 : Int.toNat 52 = 52 := rfl

theorem hands_convert_binary_call (f : Nat) (cv : Val) (b : Seat → List Nat) (hb : ∀ p, 52 ≤ (b p).length) :
    callF (mkRec P (f+40)) m_Hands_convert_binary [cv, .dict (bitsKvs b)] = .ok (encHands (convertBinary b), cv) := by
  rw [callF_def]
  simp only [m_Hands_convert_binary, bindParams, Option.map]
  obtain ⟨tail', ht⟩ := hands_cb_loop (f+8) cv b hb (List.range 52) [] []
    (fun j hj => List.mem_range.1 hj) (by simpa using List.nodup_range)
  simp only [cbBody, m_Hands_convert_binary, List.getD_cons_succ, List.getD_cons_zero, cbEnv, cbAcc,
    List.filterMap_nil, List.map_nil, List.nil_append] at ht
  ppsimp [builtin_set_nil, builtin_range, iterItems_tuple, hd_toNat52]
  rw [ht]
  ppsimp [hd_construct_hands, encHands, hd_convertBinary_eq]
end Bridge.Translated
