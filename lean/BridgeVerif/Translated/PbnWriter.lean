import BridgeVerif.Translated.PbnWriterLemmasC
import BridgeVerif.Translated.JsonWriter
/-!
# pbn_handler/writer.py AS TRANSLATED writes exactly the model's chunks  (C18)

`Generated/PyCoreJson.lean` (re-written from `writer.py` on every run) executed by the MiniPy interpreter at the
top-level fuel, compared with the hand-written model `Model/Pbn.lean` (section "writer"):

* `pw_write_line_translated` — `write_line(s)` appends exactly `writeLine? s` (the 255-column wrapping); `''` raises
  `IndexError`;
* `pw_write_tag_pair_translated`, `pw_write_header_translated`, `pw_new_translated`,
  `pw_create_contents_sequence_translated`;
* `pw_write_board_result_translated` — one call of `write_board_result` appends exactly `writeBoardResult? r` (the fifteen
  tag lines and the empty line that ends the game); when the model's `resultTags? r` is `none` (`pw_resultTags_none_iff`:
  board number ≤ 0, a hand that is neither empty nor of 13 cards, tricks present iff passed out) the call raises
  `AssertionError`.  In that case the real file already holds the tag lines written before the failing assertion; the
  interpreter's call returns the error and the receiver is unchanged, so only the exception is stated;
* `pw_document_translated` — `PbnWriter(file); write_header(); write_board_result(…) …` leaves a file object whose
  chunks are `writeHeader` followed by the model's chunks of every result.

A writer instance is `encPbnWriter chunks` (its `writer` attribute is the synthetic file object `encFile chunks`), the
arguments of `write_board_result` are `resultArgs r` (the date is the synthetic `_Date` object `encDate text`, whose
`strftime` returns the text: the model's `dateStr`).

Hypotheses — each is what the INTERPRETED code needs:
* `s.length ≤ 200000` (`write_line`, `write_tag_pair`) and the bounds `≤ 199000` on the written texts of `PbnWF` (the free
  texts, the date, and the decimal texts of the board number and of the tricks): a turn of the `while` loop of
  `write_line` costs one level of fuel (254 characters per turn), and `runMethod` gives `topFuel = 1000` levels.  The
  lemmas at an arbitrary fuel (`pw_write_line_call`: `k + 23` levels for `254 * k + 254` characters) have no absolute
  bound.  This is a limit of the fuel, not of Python, and it is the ONLY limit on the sizes.
* The numbers themselves are unrestricted: the interpreter's `str(int)` (`intStr`) is the model's `intRepr` for every
  integer (`pw_intStr_eq`).  `PbnWF.board`, `PbnWF.tricks` bound only the number of characters printed
  (`(intRepr n).length ≤ 199000`, for the fuel); `pw_intRepr_len` gives it from `|n| < 10 ^ f` (`f + 2` characters), and
  `pw_wf_of_bounds` takes `|n| < 10 ^ 1000`.
* `PbnWF.deal`: a hand of 13 cards holds ranks 2..14 (as for `Hands.to_pbn`, Translated/Hands.lean).
* `write_tag_pair`: the tag starts with an upper-case ASCII letter (`assert tag[0].isupper()`; an empty tag raises
  `IndexError`, another first character `AssertionError`: `pw_write_tag_pair_translated_cases`).
-/
namespace Bridge.Translated
open Bridge Bridge.Py Bridge.Generated.PyCore

theorem pw_writeLine_none (s : Str) : writeLine? s = none ↔ s = [] := by
  cases s with
  | nil => simp [writeLine?]
  | cons c r =>
    simp only [writeLine?]
    cases h : (c :: r).getLast? with
    | none => simp at h
    | some d => simp

/-! ## (a) `write_line` -/
theorem pw_write_line_translated_cases (s : Str) (chunks : List Str) (hlen : s.length ≤ 200000) :
    P.runMethod n_PbnWriter n_write_line [encPbnWriter chunks, .str s]
      = match writeLine? s with
        | some cs => .ok (.none, encPbnWriter (chunks ++ cs))
        | none => .error (.exc K.IndexError) := by
  rw [jw_runMethod_eq _ _ _ _ _ pw_mth_write_line]
  cases h : writeLine? s with
  | some cs => exact pw_write_line_call 976 chunks s cs h (by omega)
  | none =>
    rw [(pw_writeLine_none s).1 h]
    exact pw_write_line_call_empty 989 chunks

theorem pw_write_line_translated (s : Str) (chunks : List Str) (hlen : s.length ≤ 200000) (cs : List Str)
    (h : writeLine? s = some cs) :
    P.runMethod n_PbnWriter n_write_line [encPbnWriter chunks, .str s] = .ok (.none, encPbnWriter (chunks ++ cs)) := by
  rw [pw_write_line_translated_cases s chunks hlen, h]

theorem pw_write_line_translated_empty (chunks : List Str) :
    P.runMethod n_PbnWriter n_write_line [encPbnWriter chunks, .str []] = .error (.exc K.IndexError) :=
  pw_write_line_translated_cases [] chunks (by decide)

/-! ## (b) `write_tag_pair`, `write_header`, `PbnWriter(file)` -/
theorem pw_write_tag_pair_translated_cases (tag content : Str) (chunks : List Str)
    (hlen : tag.length + content.length ≤ 200000) :
    P.runMethod n_PbnWriter n_write_tag_pair [encPbnWriter chunks, .str tag, .str content]
      = match tag with
        | [] => .error (.exc K.IndexError)
        | c :: _ =>
          if isUpper c = true then .ok (.none, encPbnWriter (chunks ++ writeTagPair tag content))
          else .error (.exc K.AssertionError) := by
  rw [jw_runMethod_eq _ _ _ _ _ pw_mth_tag_pair]
  cases tag with
  | nil => exact pw_tag_pair_call_empty 989 chunks content
  | cons c rest =>
    by_cases hu : isUpper c = true
    · simp only [hu, if_true]
      exact pw_tag_pair_call 974 chunks c rest content hu (by simp only [List.length_cons] at hlen; omega)
    · simp only [hu]
      exact pw_tag_pair_call_lower 989 chunks c rest content (by simpa using hu)

theorem pw_write_tag_pair_translated (c : Char) (rest content : Str) (chunks : List Str) (hu : isUpper c = true)
    (hlen : rest.length + content.length < 200000) :
    P.runMethod n_PbnWriter n_write_tag_pair [encPbnWriter chunks, .str (c :: rest), .str content]
      = .ok (.none, encPbnWriter (chunks ++ writeTagPair (c :: rest) content)) := by
  rw [pw_write_tag_pair_translated_cases _ _ _ (by simp only [List.length_cons]; omega)]
  simp only [hu, if_true]

theorem pw_write_header_translated (chunks : List Str) :
    P.runMethod n_PbnWriter n_write_header [encPbnWriter chunks] = .ok (.none, encPbnWriter (chunks ++ writeHeader)) := by
  rw [jw_runMethod_eq _ _ _ _ _ pw_mth_header]
  exact pw_header_call 969 chunks

theorem pw_new_translated (chunks : List Str) : P.runNew n_PbnWriter [encFile chunks] = .ok (encPbnWriter chunks) :=
  pw_construct 991 chunks

/-- the static `create_contents_sequence` : `';'.join(contents)` -/
theorem pw_create_contents_sequence_translated (l : List Str) :
    P.runMethod n_PbnWriter n_create_contents_sequence [.tuple (l.map Val.str)]
      = .ok (.str (List.intercalate [';'] l), .tuple (l.map Val.str)) := by
  have hm : P.method? classDepth n_PbnWriter n_create_contents_sequence
      = some (n_PbnWriter, m_PbnWriter_create_contents_sequence) := rfl
  rw [jw_runMethod_eq _ _ _ _ _ hm, callF_def]
  simp only [m_PbnWriter_create_contents_sequence, bindParams, Option.map]
  have hs := hd_strsOf_map (fun a : Str => a) l
  simp only [List.map_id'] at hs
  ppsimp [builtinF, iterItems, Option.bind, hs]

/-! ## (c) `write_board_result` -/
theorem pw_write_board_result_translated_cases (r : PbnResult) (h : PbnWF r) (chunks : List Str) :
    P.runMethod n_PbnWriter n_write_board_result (encPbnWriter chunks :: resultArgs r)
      = match writeBoardResult? r with
        | some cs => .ok (.none, encPbnWriter (chunks ++ cs))
        | none => .error (.exc K.AssertionError) := by
  rw [jw_runMethod_eq _ _ _ _ _ pw_mth_wbr]
  exact pw_board_result_call 169 chunks r h

theorem pw_write_board_result_translated (r : PbnResult) (h : PbnWF r) (chunks : List Str) (cs : List Str)
    (hcs : writeBoardResult? r = some cs) :
    P.runMethod n_PbnWriter n_write_board_result (encPbnWriter chunks :: resultArgs r)
      = .ok (.none, encPbnWriter (chunks ++ cs)) := by
  rw [pw_write_board_result_translated_cases r h chunks, hcs]

theorem pw_write_board_result_translated_assertion (r : PbnResult) (h : PbnWF r) (chunks : List Str)
    (hn : resultTags? r = none) :
    P.runMethod n_PbnWriter n_write_board_result (encPbnWriter chunks :: resultArgs r)
      = .error (.exc K.AssertionError) := by
  rw [pw_write_board_result_translated_cases r h chunks, writeBoardResult?, hn]; rfl

/-- when the model's `resultTags?` is `none` -/
theorem pw_resultTags_none_iff (r : PbnResult) :
    resultTags? r = none ↔ (r.boardNum ≤ 0 ∨ toPbn? r.deal r.dealer = none ∨
      (r.contract.isPassedOut = true ∧ r.tricks.isSome = true) ∨ (r.contract.isPassedOut = false ∧ r.tricks = none)) := by
  simp only [resultTags?]
  by_cases hb : r.boardNum ≤ 0
  · simp [hb]
  · cases hd : toPbn? r.deal r.dealer with
    | none => simp [hb]
    | some t =>
      cases hpo : r.contract.isPassedOut <;> cases ht : r.tricks <;> simp [hb]

/-- `PbnWF` from bounds on the arguments themselves: a real date, valid cards, numbers of 1000 digits at most (any
bound `10 ^ f` with `f + 2 ≤ 199000` would do: only the length of the printed text matters, for the fuel) -/
theorem pw_wf_of_bounds (r : PbnResult) (hdeal : ∀ p, ∀ c ∈ r.deal p, c.ok = true)
    (hboard : r.boardNum.natAbs < 10 ^ 1000) (htricks : ∀ n, r.tricks = some n → n.natAbs < 10 ^ 1000)
    (hy : r.year ≤ 9999) (hm : r.month ≤ 12) (hd : r.day ≤ 31)
    (hev : r.event.length ≤ 199000) (hsi : r.site.length ≤ 199000) (hw : r.west.length ≤ 199000)
    (hn : r.north.length ≤ 199000) (he : r.east.length ≤ 199000) (hs : r.south.length ≤ 199000) : PbnWF r :=
  have key : ∀ c : Card, c.ok = true → 2 ≤ c.rank ∧ c.rank ≤ 14 := by
    intro c hc
    simp only [Card.ok, Bool.and_eq_true, decide_eq_true_eq] at hc
    exact hc.1
  { deal := fun p _ c hc => key c (hdeal p c hc)
    board := Nat.le_trans (pw_intRepr_len 1000 _ hboard) (by decide)
    tricks := fun n hn => Nat.le_trans (pw_intRepr_len 1000 n (htricks n hn)) (by decide)
    event := hev, site := hsi, date := pw_dateStr_len _ _ _ hy hm hd,
    west := hw, north := hn, east := he, south := hs }

/-! ## (d) a whole document -/
/-- `w = PbnWriter(file); w.write_header(); for r in rs: w.write_board_result(*resultArgs r)` — the writer afterwards -/
def runPbnDocument (chunks0 : List Str) (rs : List PbnResult) : R Val := do
  let w ← P.runNew n_PbnWriter [encFile chunks0]
  let w ← selfAfter n_PbnWriter n_write_header [w]
  rs.foldlM (fun w r => selfAfter n_PbnWriter n_write_board_result (w :: resultArgs r)) w

theorem pw_results (rs : List PbnResult) : ∀ (chunks : List Str) (css : List (List Str)), (∀ r ∈ rs, PbnWF r) →
    rs.mapM writeBoardResult? = some css →
    rs.foldlM (fun w r => selfAfter n_PbnWriter n_write_board_result (w :: resultArgs r)) (encPbnWriter chunks)
      = .ok (encPbnWriter (chunks ++ css.flatten)) := by
  induction rs with
  | nil =>
    intro chunks css _ hm
    simp only [List.mapM_nil, Option.pure_def, Option.some.injEq] at hm
    subst hm
    simp [pure, Except.pure]
  | cons r rs ih =>
    intro chunks css h hm
    rw [List.mapM_cons] at hm
    cases hr : writeBoardResult? r with
    | none => rw [hr] at hm; cases hm
    | some cs =>
      cases hrs : rs.mapM writeBoardResult? with
      | none => rw [hr, hrs] at hm; cases hm
      | some css' =>
        rw [hr, hrs] at hm
        simp only [Option.pure_def, Option.bind_eq_bind, Option.bind_some, Option.some.injEq] at hm
        subst hm
        rw [List.foldlM_cons, selfAfter, pw_write_board_result_translated r (h r (List.mem_cons_self ..)) chunks cs hr]
        simp only [Except.map, bind_ok]
        rw [ih _ css' (fun x hx => h x (List.mem_cons_of_mem _ hx)) hrs]
        simp only [List.flatten_cons, List.append_assoc]

/-- the writer after a whole document: it holds `chunks0`, the two header lines, then the chunks of the results -/
theorem pw_document_run (rs : List PbnResult) (h : ∀ r ∈ rs, PbnWF r) (css : List (List Str))
    (hm : rs.mapM writeBoardResult? = some css) (chunks0 : List Str) :
    runPbnDocument chunks0 rs = .ok (encPbnWriter (chunks0 ++ writeHeader ++ css.flatten)) := by
  simp only [runPbnDocument, pw_new_translated, bind_ok, selfAfter, pw_write_header_translated, Except.map]
  exact pw_results rs _ css h hm

/-- THE TRANSLATED PBN WRITER, run over a whole document on an empty file, leaves a file object whose chunks are the
header lines followed by the model's chunks of every result -/
theorem pw_document_translated (rs : List PbnResult) (h : ∀ r ∈ rs, PbnWF r) (css : List (List Str))
    (hm : rs.mapM writeBoardResult? = some css) :
    runPbnDocument [] rs = .ok (encPbnWriter (writeHeader ++ css.flatten)) := by
  rw [pw_document_run rs h css hm []]; rfl

/-- … so the text of the file is the header followed by the text of every result -/
theorem pw_document_translated_text (rs : List PbnResult) (h : ∀ r ∈ rs, PbnWF r) (css : List (List Str))
    (hm : rs.mapM writeBoardResult? = some css) :
    ∃ chunks, runPbnDocument [] rs = .ok (encPbnWriter chunks) ∧
      chunks.flatten = "% PBN 2.1\n% EXPORT\n".toList ++ css.flatten.flatten :=
  ⟨_, pw_document_translated rs h css hm, by rw [List.flatten_append]; rfl⟩

/-- a result whose assertion fails stops the document with `AssertionError` (the results before it are written) -/
theorem pw_document_translated_assertion (rs : List PbnResult) (r : PbnResult) (rest : List PbnResult)
    (h : ∀ x ∈ rs, PbnWF x) (hr : PbnWF r) (css : List (List Str)) (hm : rs.mapM writeBoardResult? = some css)
    (hn : resultTags? r = none) :
    runPbnDocument [] (rs ++ r :: rest) = .error (.exc K.AssertionError) := by
  simp only [runPbnDocument, pw_new_translated, bind_ok, selfAfter, pw_write_header_translated, Except.map,
    List.foldlM_append, List.foldlM_cons]
  have := pw_results rs ([] ++ writeHeader) css h hm
  simp only [selfAfter, Except.map] at this
  rw [this]
  simp only [bind_ok, pw_write_board_result_translated_assertion r hr _ hn]
  rfl

end Bridge.Translated
