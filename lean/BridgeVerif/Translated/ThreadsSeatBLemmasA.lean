import BridgeVerif.Translated.PlayLemmasB
import BridgeVerif.Translated.ThreadsEnc
import BridgeVerif.Translated.PbnWriterLemmasB
import BridgeVerif.Lemmas.MiniPyFuel
import BridgeVerif.Model.Admission
/-! Translated `SeatThread` (`_check_message`, `_connect`, `_playing_phase`): the methods of the world object `_World`
executed on a symbolic world -/
namespace Bridge.Translated.SeatB
open Bridge Bridge.Py Bridge.Generated.PyCore

set_option maxRecDepth 4000

/-! ## method resolution -/
theorem sb_mth_w_send : P.method? classDepth n__World n_w_send = some (n__World, m__World_w_send) := rfl
theorem sb_mth_w_recv : P.method? classDepth n__World n_w_recv = some (n__World, m__World_w_recv) := rfl
theorem sb_mth_w_op : P.method? classDepth n__World n_w_op = some (n__World, m__World_w_op) := rfl
theorem sb_mth_w_put : P.method? classDepth n__World n_w_put = some (n__World, m__World_w_put) := rfl
theorem sb_mth_w_get : P.method? classDepth n__World n_w_get = some (n__World, m__World_w_get) := rfl
theorem sb_mth_w_sync : P.method? classDepth n__World n_w_sync = some (n__World, m__World_w_sync) := rfl
theorem sb_mth_w_advance : P.method? classDepth n__World n_w_advance = some (n__World, m__World_w_advance) := rfl
theorem sb_mth_w_set_table : P.method? classDepth n__World n_w_set_table = some (n__World, m__World_w_set_table) := rfl

/-- the world object, unfolded -/
abbrev wObj (ins : List (Val × Val)) (out : List Val) (table : Val) (tables : List Val) (eof : Bool) : Val :=
  .obj n__World [(n_ins, .dict ins), (n_out, .tuple out), (n_table, table), (n_tables, .tuple tables), (n_eof, .bool eof)]

theorem sb_w_send (f : Nat) (ins : List (Val × Val)) (out : List Val) (tb : Val) (tbs : List Val) (eof : Bool) (m : Val) :
    callF (mkRec P (f+6)) m__World_w_send [encWorld ins out tb tbs eof, m]
      = .ok (.none, encWorld ins (out ++ [.tuple [vstr "send", m]]) tb tbs eof) := by
  rw [callF_def]
  simp only [m__World_w_send, bindParams, Option.map, encWorld]
  ppsimp []
  rfl


/-! ## small facts about containers -/
theorem sb_slice_tail {α} (x : α) (xs : List α) : sliceList (x :: xs) (some 1) none = xs := by
  have h : clampIndex (xs.length + 1) 1 = 1 := by
    simp only [clampIndex]; rw [if_pos (by decide)]; show min 1 (xs.length + 1) = 1; omega
  simp only [sliceList, List.length_cons, h, List.drop_succ_cons, List.drop_zero, Nat.add_sub_cancel, List.take_length]

theorem sb_index0 (r : Rec) (x : Val) (xs : List Val) : indexF r P (.tuple (x :: xs)) (.int 0) = .ok x := by
  simp [indexF, asInt?, normIndex]; rfl

theorem sb_len_cons_beq (n : Nat) : (Val.int (Int.ofNat (n + 1))).beq (.int 0) = false := by
  simp only [Val.beq]
  rw [beq_eq_false_iff_ne]; simp only [Int.ofNat_eq_natCast]; omega

theorem sb_len_nil_beq : (Val.int (Int.ofNat 0)).beq (.int 0) = true := by simp [Val.beq]

theorem sb_lookup_conn (p : Seat) (qv cv : Val) :
    lookupD [(qkey "m2t" p, qv), (vstr "conn", cv)] (.str ['c', 'o', 'n', 'n']) = some cv := by
  simp [lookupD, qkey, vstr, Val.beq]
theorem sb_update_conn (p : Seat) (qv cv v : Val) :
    updateD [(qkey "m2t" p, qv), (vstr "conn", cv)] (.str ['c', 'o', 'n', 'n']) v = [(qkey "m2t" p, qv), (vstr "conn", v)] := by
  simp [updateD, qkey, vstr, Val.beq]
theorem sb_lookup_m2t (p : Seat) (qv cv : Val) :
    lookupD [(qkey "m2t" p, qv), (vstr "conn", cv)] (.tuple [.str ['m', '2', 't'], encSeat p]) = some qv := by
  simp [lookupD, qkey, vstr, Val.beq, beqL, beq_encSeat]
theorem sb_update_m2t (p : Seat) (qv cv v : Val) :
    updateD [(qkey "m2t" p, qv), (vstr "conn", cv)] (.tuple [.str ['m', '2', 't'], encSeat p]) v
      = [(qkey "m2t" p, v), (vstr "conn", cv)] := by
  simp [updateD, qkey, vstr, Val.beq, beqL, beq_encSeat]

theorem sb_len_tuple (r : Rec) (xs : List Val) : builtinF r P .len [.tuple xs] = .ok (.int (Int.ofNat xs.length)) := rfl

theorem sb_w_recv (f : Nat) (p : Seat) (q c : List Str) (m : Str) (out : List Val) (tb : Val) (tbs : List Val) :
    callF (mkRec P (f+8)) m__World_w_recv [encSeatWorld p q (m :: c) out tb tbs]
      = .ok (.str m, encSeatWorld p q c (out ++ [.tuple [vstr "recv"]]) tb tbs) := by
  rw [callF_def]
  simp only [m__World_w_recv, bindParams, Option.map, encSeatWorld, encWorld, vtexts, List.map_cons]
  ppsimp [sb_lookup_conn, sb_update_conn, sb_len_tuple, sb_len_cons_beq, sb_index0, sb_slice_tail]
  rfl

theorem sb_w_op (f : Nat) (ins : List (Val × Val)) (out : List Val) (tb : Val) (tbs : List Val) (eof : Bool) (k a : Val) :
    callF (mkRec P (f+6)) m__World_w_op [encWorld ins out tb tbs eof, k, a]
      = .ok (.none, encWorld ins (out ++ [.tuple [k, a]]) tb tbs eof) := by
  rw [callF_def]
  simp only [m__World_w_op, bindParams, Option.map, encWorld]
  ppsimp []

theorem sb_w_put (f : Nat) (ins : List (Val × Val)) (out : List Val) (tb : Val) (tbs : List Val) (eof : Bool) (q k m : Val) :
    callF (mkRec P (f+6)) m__World_w_put [encWorld ins out tb tbs eof, q, k, m]
      = .ok (.none, encWorld ins (out ++ [.tuple [vstr "put", q, k, m]]) tb tbs eof) := by
  rw [callF_def]
  simp only [m__World_w_put, bindParams, Option.map, encWorld]
  ppsimp []
  rfl

theorem sb_w_get (f : Nat) (p : Seat) (q c : List Str) (m : Str) (out : List Val) (tb : Val) (tbs : List Val) :
    callF (mkRec P (f+8)) m__World_w_get [encSeatWorld p (m :: q) c out tb tbs, .str ['m', '2', 't'], encSeat p]
      = .ok (.str m, encSeatWorld p q c (out ++ [.tuple [vstr "get", vstr "m2t", encSeat p]]) tb tbs) := by
  rw [callF_def]
  simp only [m__World_w_get, bindParams, Option.map, encSeatWorld, encWorld, vtexts, List.map_cons]
  ppsimp [sb_lookup_m2t, sb_update_m2t, sb_len_tuple, sb_len_cons_beq, sb_index0, sb_slice_tail]
  rfl

theorem sb_w_advance (f : Nat) (ins : List (Val × Val)) (out : List Val) (tb : Val) (tbs : List Val) (eof : Bool) :
    callF (mkRec P (f+8)) m__World_w_advance [encWorld ins out tb tbs eof]
      = .ok (.none, encWorld ins out (tbs.headD tb) tbs.tail eof) := by
  rw [callF_def]
  simp only [m__World_w_advance, bindParams, Option.map, encWorld]
  cases tbs with
  | nil => ppsimp [sb_len_tuple, sb_len_nil_beq]; rfl
  | cons t r => ppsimp [sb_len_tuple, sb_len_cons_beq, sb_index0, sb_slice_tail]; rfl

theorem sb_w_sync (f : Nat) (ins : List (Val × Val)) (out : List Val) (tb : Val) (tbs : List Val) (eof : Bool) :
    callF (mkRec P (f+10)) m__World_w_sync [encWorld ins out tb tbs eof]
      = .ok (.none, encWorld ins (out ++ [.tuple [vstr "sync"]]) (tbs.headD tb) tbs.tail eof) := by
  rw [callF_def]
  simp only [m__World_w_sync, bindParams, Option.map]
  have h := fun out => sb_w_advance f ins out tb tbs eof
  simp only [encWorld] at h ⊢
  ppsimp [sb_mth_w_advance, h]
  rfl

theorem sb_w_set_table (f : Nat) (ins : List (Val × Val)) (out : List Val) (kvs : List (Val × Val)) (tbs : List Val)
    (eof : Bool) (k v : Val) :
    callF (mkRec P (f+8)) m__World_w_set_table [encWorld ins out (.dict kvs) tbs eof, k, v]
      = .ok (.none, encWorld ins (out ++ [.tuple [vstr "table", k, v]]) (.dict (updateD kvs k v)) tbs eof) := by
  rw [callF_def]
  simp only [m__World_w_set_table, bindParams, Option.map, encWorld]
  ppsimp []
  rfl

end Bridge.Translated.SeatB
