import BridgeVerif.Translated.ThreadsClientGLemmasA
import BridgeVerif.Translated.ThreadsClientF
import BridgeVerif.Translated.ThreadsClientHands
import BridgeVerif.Translated.ThreadsMainE
/-!
# Towards the closed bundled-client capstone (B): every message of the session's `s2c` stream is `MsgGood`

* `msgGood_of_ascii` : an ASCII message that is not a hand message (`parseCards?` refuses it for the five names) is
  `MsgGood 31` — from the regular-expression theorems for `parse_board`, `parse_bid`, `parse_card`,
  `parse_leader_message`;
* `msgGood_cardsMsg` : the hand message `cardsMsg name hand` of EVERY hand `HandOK`, each of the five names;
* a text a player worded that the model reads as a call / a card of seat `a` begins with `a`'s name and a blank, hence is
  not a hand message (`noCards_of_seat_prefix`): relayed calls and cards need only be ASCII;
* `board_stream_good`, `boards_stream_good` : every message of `(boardsPhases sc k boards).flatMap (s2cOf p)`.
-/
set_option maxRecDepth 4000
namespace Bridge.Translated.ClientG
open Bridge Bridge.Py Bridge.Generated.PyCore Bridge.Translated Bridge.Translated.ClientA Bridge.Translated.ClientB
open Bridge.Translated.ClientC Bridge.Translated.ClientE Bridge.RegexMsgHand Bridge.Translated.MsgParsers

/-! ## two literal prefixes of one text -/
/-- the two patterns differ (after case folding) at a position both have -/
def clash2 : List Char → List Char → Bool
  | a :: x, b :: y => !(foldC a == foldC b) || clash2 x y
  | _, _ => false

theorem strip_two : ∀ (x y r t : List Char), stripPrefixCI x r = some t → clash2 x y = true →
    stripPrefixCI y r = none := by
  intro x
  induction x with
  | nil => intro y r t _ hc; simp [clash2] at hc
  | cons a x ih =>
    intro y r t hs hc
    cases y with
    | nil => simp [clash2] at hc
    | cons b y =>
      cases r with
      | nil => simp [stripPrefixCI] at hs
      | cons c r =>
        simp only [stripPrefixCI] at hs ⊢
        by_cases hac : eqCI a c = true
        · rw [if_pos hac] at hs
          by_cases hbc : eqCI b c = true
          · rw [if_pos hbc]
            refine ih y r t hs ?_
            simp only [eqCI, beq_iff_eq] at hac hbc
            simp only [clash2, hac, hbc, beq_self_eq_true, Bool.not_true, Bool.false_or] at hc
            exact hc
          · rw [if_neg hbc]
        · rw [if_neg hac] at hs; cases hs

/-- a text that begins with `x`, where `x` clashes with every `<name>'s cards : `, is no hand message -/
theorem noCards_of_prefix (x m t : List Char) (h : stripPrefixCI x m = some t)
    (hc : ∀ name ∈ cardNames, clash2 x (name ++ "'s cards : ".toList) = true) :
    ∀ name ∈ cardNames, parseCards? m name = none := by
  intro name hn
  unfold parseCards?
  rw [strip_two x _ m t h (hc name hn)]
  rfl

theorem seat_clash : ∀ a : Seat, ∀ name ∈ cardNames, clash2 (a.formal ++ [' ']) (name ++ "'s cards : ".toList) = true := by
  intro a; cases a <;> decide +kernel

/-- a text that begins with a seat's name and a blank is no hand message -/
theorem noCards_of_seat_prefix (a : Seat) (m t : List Char) (h : stripPrefixCI (a.formal ++ [' ']) m = some t) :
    ∀ name ∈ cardNames, parseCards? m name = none :=
  noCards_of_prefix _ m t h (seat_clash a)

theorem strip_left {x y r t : List Char} (h : stripPrefixCI (x ++ y) r = some t) : ∃ t', stripPrefixCI x r = some t' := by
  rw [strip_append] at h
  cases hx : stripPrefixCI x r with
  | none => rw [hx] at h; cases h
  | some t' => exact ⟨t', rfl⟩

theorem parseBid_prefix (r name : List Char) (c : Call) (h : parseBid? r name = some c) :
    ∃ t, stripPrefixCI (name ++ [' ']) r = some t := by
  rw [mp_parseBid_eq] at h
  cases h1 : stripPrefixCI (name ++ " bids ".toList) r with
  | some t =>
    have e : name ++ " bids ".toList = (name ++ [' ']) ++ "bids ".toList := by simp
    rw [e] at h1
    exact strip_left h1
  | none =>
    rw [h1] at h
    simp only [Option.bind_none] at h
    obtain ⟨t, ht, _⟩ := mp_wordCall_some r name c h
    exact ⟨t, ht⟩

theorem parseCard_prefix (m : List Char) (a : Seat) (c : Card) (h : parseCard? m a = some c) :
    (∃ t, stripPrefixCI (a.formal ++ [' ']) m = some t) ∧ c.ok = true := by
  obtain ⟨r, x, y, t, rk, su, hs, _, hmk, _⟩ := mp_parseCard_some m a c h
  have e : a.formal ++ " plays ".toList = (a.formal ++ [' ']) ++ "plays ".toList := by simp
  rw [e] at hs
  exact ⟨strip_left hs, (mp_card_ok rk su c hmk).2⟩

/-! ## ASCII messages that are not hand messages -/
theorem dummy_mem : ['D', 'u', 'm', 'm', 'y'] ∈ cardNames := by decide

theorem msgGood_of_ascii (p : Seat) (m : Text) (ha : ∀ x ∈ m, x.toNat < 128)
    (hn : ∀ name ∈ cardNames, parseCards? m name = none) : MsgGood 31 p m where
  board := dealParses_board_nodigit m fun x hx => Or.inl (ha x hx)
  own := fun t ht => by rw [hn _ (formal_mem_cardNames p)] at ht; cases ht
  dummy := fun t ht => by rw [hn _ dummy_mem] at ht; cases ht
  bid := fun a c h f hf => parse_bid_translated_ascii m ha a c h f (by omega)
  card := fun a c h f hf => by rw [parse_card_translated_ascii m ha a c h f (by omega)]; rfl
  leader := playParses_leader_all ⟨[m], [], []⟩ m List.mem_cons_self

/-- a relayed call: ASCII, read as a call of some seat -/
theorem msgGood_relayed_call (p a : Seat) (m : Text) (c : Call) (ha : ∀ x ∈ m, x.toNat < 128)
    (h : parseBid? m a.formal = some c) : MsgGood 31 p m := by
  obtain ⟨t, ht⟩ := parseBid_prefix m a.formal c h
  exact msgGood_of_ascii p m ha (noCards_of_seat_prefix a m t ht)

/-- a relayed card: ASCII, read as a card of some seat -/
theorem msgGood_relayed_card (p a : Seat) (m : Text) (c : Card) (ha : ∀ x ∈ m, x.toNat < 128)
    (h : parseCard? m a = some c) : MsgGood 31 p m := by
  obtain ⟨⟨t, ht⟩, _⟩ := parseCard_prefix m a c h
  exact msgGood_of_ascii p m ha (noCards_of_seat_prefix a m t ht)

/-! ## what the table manager words itself -/
theorem msgGood_start (p : Seat) : MsgGood 31 p MSG_START :=
  msgGood_of_ascii p _ (by decide +kernel) (by decide +kernel)
theorem msgGood_end (p : Seat) : MsgGood 31 p MSG_END :=
  msgGood_of_ascii p _ (by decide +kernel) (by decide +kernel)
theorem msgGood_dummy_lead (p : Seat) : MsgGood 31 p "Dummy to lead".toList :=
  msgGood_of_ascii p _ (by decide +kernel) (by decide +kernel)
theorem msgGood_seat_lead (p a : Seat) : MsgGood 31 p (a.formal ++ " to lead".toList) :=
  msgGood_of_ascii p _ (by cases a <;> decide +kernel) (by cases a <;> decide +kernel)

theorem boardHeader_ascii (n : Nat) (dealer : Seat) (v : Vul) : ∀ x ∈ boardHeader n dealer v, x.toNat < 128 := by
  have c1 : ∀ x ∈ "Board number ".toList, x.toNat < 128 := by decide +kernel
  have c2 : ∀ x ∈ ". Dealer ".toList, x.toNat < 128 := by decide +kernel
  have c3 : ∀ d : Seat, ∀ x ∈ d.formal, x.toNat < 128 := by intro d; cases d <;> decide +kernel
  have c4 : ∀ x ∈ ". ".toList, x.toNat < 128 := by decide +kernel
  have c5 : ∀ w : Vul, ∀ x ∈ convertVul w, x.toNat < 128 := by intro w; cases w <;> decide +kernel
  have c6 : ∀ x ∈ " vulnerable.".toList, x.toNat < 128 := by decide +kernel
  intro x hx
  unfold boardHeader at hx
  simp only [List.mem_append] at hx
  rcases hx with (((((hx | hx) | hx) | hx) | hx) | hx) | hx
  · exact c1 x hx
  · have h := natStr_digits n x hx
    simp only [Bridge.isDigit, decide_eq_true_eq] at h
    have : x.toNat ≤ 57 := h.2
    omega
  · exact c2 x hx
  · exact c3 dealer x hx
  · exact c4 x hx
  · exact c5 v x hx
  · exact c6 x hx

theorem msgGood_header (p : Seat) (n : Nat) (dealer : Seat) (v : Vul) : MsgGood 31 p (boardHeader n dealer v) := by
  have hs : stripPrefixCI "Board number ".toList (boardHeader n dealer v) =
      some (natStr n ++ ". Dealer ".toList ++ dealer.formal ++ ". ".toList ++ convertVul v ++ " vulnerable.".toList) := by
    unfold boardHeader
    simp only [List.append_assoc]
    exact strip_self _ _
  exact msgGood_of_ascii p _ (boardHeader_ascii n dealer v) (noCards_of_prefix _ _ _ hs (by decide +kernel))

/-! ## the hand messages -/
theorem cardsMsg_ascii (name : List Char) (hn : name ∈ cardNames) (hand : List Card) :
    ∀ x ∈ cardsMsg name hand, x.toNat < 128 := by
  have c1 : ∀ name ∈ cardNames, ∀ x ∈ name ++ "'s cards : ".toList, x.toNat < 128 := by decide +kernel
  have c2 : ∀ x ∈ ClientHands.msgChars, x.toNat < 128 := by decide +kernel
  intro x hx
  unfold cardsMsg at hx
  rw [List.mem_append] at hx
  rcases hx with hx | hx
  · exact c1 name hn x hx
  · exact c2 x (ClientHands.handToStr_chars hand x hx)

theorem name_clash : ∀ name ∈ cardNames, ∀ name' ∈ cardNames, name ≠ name' →
    clash2 (name ++ "'s cards : ".toList) (name' ++ "'s cards : ".toList) = true := by decide +kernel

theorem seat_name_clash : ∀ a : Seat, ∀ name ∈ cardNames,
    clash2 (name ++ "'s cards : ".toList) (a.formal ++ [' ']) = true := by
  intro a; cases a <;> decide +kernel

/-- the hand message `cardsMsg name hand` of every hand, each of the five names -/
theorem msgGood_cardsMsg (p : Seat) (name : List Char) (hn : name ∈ cardNames) (hand : List Card) (hok : HandOK hand) :
    MsgGood 31 p (cardsMsg name hand) := by
  have ha := cardsMsg_ascii name hn hand
  obtain ⟨h1, h2, _, h4, h5⟩ := ClientHands.hand_message_translated name hn hand hok
  have hstrip : stripPrefixCI (name ++ "'s cards : ".toList) (cardsMsg name hand) = some (handToStr hand) := by
    unfold cardsMsg; exact strip_self _ _
  -- read for a name: the same name, or refused
  have hcards : ∀ name' ∈ cardNames, ∀ t, parseCards? (cardsMsg name hand) name' = some t →
      Returns 31 m_Client_parse_cards [.str (cardsMsg name hand), .str name'] (.str t) ∧
      ∀ dh, parseHand? t = some dh → ∃ hb, Returns 31 m_Client_parse_hand [.str t] (.tuple [encCards dh, hb]) := by
    intro name' hn' t ht
    by_cases e : name = name'
    · subst e
      rw [h1] at ht
      cases ht
      refine ⟨fun f hf => by rw [h4 f (by omega)]; rfl, fun dh hdh => ?_⟩
      rw [h2] at hdh
      cases hdh
      exact ⟨_, fun f hf => by rw [h5 f (by omega)]; rfl⟩
    · have : parseCards? (cardsMsg name hand) name' = none := by
        unfold parseCards?
        rw [strip_two _ _ _ _ hstrip (name_clash name hn name' hn' e)]
        rfl
      rw [this] at ht; cases ht
  have hseat : ∀ a : Seat, stripPrefixCI (a.formal ++ [' ']) (cardsMsg name hand) = none :=
    fun a => strip_two _ _ _ _ hstrip (seat_name_clash a name hn)
  exact
    { board := dealParses_board_nodigit _ fun x hx => Or.inl (ha x hx)
      own := hcards _ (formal_mem_cardNames p)
      dummy := hcards _ dummy_mem
      bid := fun a c h f hf => parse_bid_translated_ascii _ ha a c h f (by omega)
      card := fun a c h f hf => by rw [parse_card_translated_ascii _ ha a c h f (by omega)]; rfl
      leader := playParses_leader_all ⟨[cardsMsg name hand], [], []⟩ _ List.mem_cons_self }

theorem MsgGood.mono {N M : Nat} {p : Seat} {m : Text} (h : MsgGood N p m) (hNM : N ≤ M) : MsgGood M p m where
  board := fun k d v hp => Returns.mono (h.board k d v hp) hNM
  own := fun t ht => ⟨Returns.mono (h.own t ht).1 hNM, fun dh hd =>
    let ⟨hb, hr⟩ := (h.own t ht).2 dh hd; ⟨hb, Returns.mono hr hNM⟩⟩
  dummy := fun t ht => ⟨Returns.mono (h.dummy t ht).1 hNM, fun dh hd =>
    let ⟨hb, hr⟩ := (h.dummy t ht).2 dh hd; ⟨hb, Returns.mono hr hNM⟩⟩
  bid := fun a c hp => Returns.mono (h.bid a c hp) hNM
  card := fun a c hp => Returns.mono (h.card a c hp) hNM
  leader := fun d l hp => Returns.mono (h.leader d l hp) hNM

/-! ## the messages of the phases -/
/-- the relayed calls -/
theorem calls_stream_good (p d : Seat) : ∀ (l : List (Call × Text)) (j : Nat),
    (∀ x ∈ l, (∃ (a : Seat) (c : Call), parseBid? (preprocessBid x.2) a.formal = some c) ∧
      ∀ y ∈ preprocessBid x.2, y.toNat < 128) →
    ∀ m ∈ (callPhases d j l).flatMap (s2cOf p), MsgGood 31 p m := by
  intro l
  induction l with
  | nil => intro j _ m hm; simp [callPhases] at hm
  | cons x r ih =>
    intro j h m hm
    obtain ⟨c, text⟩ := x
    simp only [callPhases, List.flatMap_cons, s2cOf_call, List.mem_append] at hm
    rcases hm with hm | hm
    · split at hm
      · cases hm
      · simp only [List.mem_singleton] at hm
        subst hm
        obtain ⟨⟨a, c', hp⟩, ha⟩ := h (c, text) List.mem_cons_self
        exact msgGood_relayed_call p a _ c' ha hp
    · exact ih (j + 1) (fun x hx => h x (List.mem_cons_of_mem _ hx)) m hm

/-- the lead prompts, the relayed cards, dummy's cards -/
theorem cards_stream_good (p d : Seat) (deal : Hands) (hok : HandOK (deal d.partner)) :
    ∀ (l : List (Card × Text)) (s : PState) (j : Nat),
    (∀ x ∈ l, (∃ (a : Seat) (c : Card), parseCard? x.2 a = some c) ∧ ∀ y ∈ x.2, y.toNat < 128) →
    ∀ m ∈ (cardPhases d deal s j l).flatMap (s2cOf p), MsgGood 31 p m := by
  intro l
  induction l with
  | nil => intro s j _ m hm; simp [cardPhases] at hm
  | cons x r ih =>
    intro s j h m hm
    obtain ⟨c, text⟩ := x
    simp only [cardPhases, List.flatMap_cons, s2cOf_card3, List.mem_append] at hm
    rcases hm with (hm | hm | hm) | hm
    · split at hm
      · simp only [List.mem_singleton] at hm
        subst hm
        split
        · exact msgGood_dummy_lead p
        · exact msgGood_seat_lead p _
      · cases hm
    · split at hm
      · cases hm
      · simp only [List.mem_singleton] at hm
        subst hm
        obtain ⟨⟨a, c', hp⟩, ha⟩ := h _ List.mem_cons_self
        exact msgGood_relayed_card p a _ c' ha hp
    · split at hm
      · simp only [List.mem_singleton] at hm
        subst hm
        exact msgGood_cardsMsg p _ dummy_mem _ hok
      · cases hm
    · exact ih _ (j + 1) (fun x hx => h x (List.mem_cons_of_mem _ hx)) m hm

/-- what is assumed of a board: the texts mean what was decided (`TextsConform`), the hands are valid and duplicate-free,
the texts the players worded are ASCII -/
structure BoardTexts (b : BoardSetting) (d : Decisions) : Prop where
  texts : TextsConform b d
  hands : ∀ q, HandOK (b.deal q)
  calls : ∀ x ∈ d.calls, ∀ y ∈ x.2, y.toNat < 128
  cards : ∀ x ∈ d.cards, ∀ y ∈ x.2, y.toNat < 128

theorem preprocess_ascii (m : List Char) (h : ∀ y ∈ m, y.toNat < 128) : ∀ y ∈ preprocessBid m, y.toNat < 128 := by
  intro x hx
  unfold preprocessBid at hx
  split at hx
  · exact h x (MainE.removeAlertAux_mem _ _ _ hx)
  · exact h x hx

/-- every message of a board -/
theorem board_stream_good (sc : Scenario) (p : Seat) (k : Nat) (last : Bool) (b : BoardSetting) (d : Decisions)
    (hb : BoardTexts b d) : ∀ m ∈ (boardPhases sc k last b d).flatMap (s2cOf p), MsgGood 31 p m := by
  intro m hm
  rw [cl_boardPhases_eq] at hm
  simp only [List.flatMap_cons, List.flatMap_append, List.flatMap_nil, s2cOf_deal, s2cOf_auctionEnd, s2cOf_clFinal,
    List.mem_append, List.mem_cons, List.not_mem_nil, or_false, List.nil_append] at hm
  rcases hm with (hm | hm) | hm | hm | hm
  · subst hm; exact msgGood_header p _ _ _
  · subst hm; exact msgGood_cardsMsg p _ (formal_mem_cardNames p) _ (hb.hands p)
  · refine calls_stream_good p b.dealer d.calls 0 (fun x hx => ?_) m hm
    obtain ⟨j, hj, rfl⟩ := List.getElem_of_mem hx
    exact ⟨⟨_, _, hb.texts.calls j hj⟩, preprocess_ascii _ (hb.calls _ hx)⟩
  · unfold clPlayPhases at hm
    split at hm
    · rename_i s0 decl hs0 hdecl
      simp only [List.flatMap_cons, s2cOf_playStart, List.nil_append] at hm
      refine cards_stream_good p decl b.deal (hb.hands _) d.cards s0 0 (fun x hx => ?_) m hm
      obtain ⟨j, hj, rfl⟩ := List.getElem_of_mem hx
      exact ⟨⟨_, _, hb.texts.cards s0 hs0 j hj⟩, hb.cards _ hx⟩
    · simp at hm
  · subst hm
    cases last
    · exact msgGood_start p
    · exact msgGood_end p

/-- every message of the boards -/
theorem boards_stream_good (sc : Scenario) (p : Seat) : ∀ (boards : List (BoardSetting × Decisions)) (k : Nat),
    (∀ bd ∈ boards, BoardTexts bd.1 bd.2) →
    ∀ m ∈ (boardsPhases sc k boards).flatMap (s2cOf p), MsgGood 31 p m := by
  intro boards
  induction boards with
  | nil => intro k _ m hm; simp [boardsPhases] at hm
  | cons x r ih =>
    intro k h m hm
    obtain ⟨b, d⟩ := x
    cases r with
    | nil =>
      simp only [boardsPhases] at hm
      exact board_stream_good sc p k true b d (h (b, d) List.mem_cons_self) m hm
    | cons y r' =>
      rw [boardsPhases] at hm
      · rw [List.flatMap_append, List.mem_append] at hm
        rcases hm with hm | hm
        · exact board_stream_good sc p k false b d (h (b, d) List.mem_cons_self) m hm
        · exact ih (k + 1) (fun bd hbd => h bd (List.mem_cons_of_mem _ hbd)) m hm
      · simp

/-! ## the decisions of the playing system are cards of the deck -/
theorem ownCards_mem (p decl : Seat) : ∀ (l : List (Card × Text)) (s : PState), ∀ c ∈ ownCards p decl s l,
    c ∈ l.map (·.1) := by
  intro l
  induction l with
  | nil => intro s c hc; simp [ownCards] at hc
  | cons x r ih =>
    intro s c hc
    obtain ⟨c0, t⟩ := x
    simp only [ownCards, List.mem_append] at hc
    rcases hc with hc | hc
    · split at hc
      · simp only [List.mem_singleton] at hc
        subst hc
        simp
      · cases hc
    · simp only [List.map_cons, List.mem_cons]
      exact Or.inr (ih _ c hc)

theorem boardOwnCards_ok (p : Seat) (b : BoardSetting) (d : Decisions) (ht : TextsConform b d) :
    ∀ c ∈ boardOwnCards p b d, c.ok = true := by
  intro c hc
  unfold boardOwnCards at hc
  split at hc
  · rename_i s0 decl hs0 hdecl
    have := ownCards_mem p decl d.cards s0 c hc
    obtain ⟨x, hx, rfl⟩ := List.mem_map.1 this
    obtain ⟨j, hj, rfl⟩ := List.getElem_of_mem hx
    exact (parseCard_prefix _ _ _ (ht.cards s0 hs0 j hj)).2
  · cases hc

theorem scenarioOwnCards_ok (sc : Scenario) (p : Seat) (h : ∀ bd ∈ sc.boards, TextsConform bd.1 bd.2) :
    ∀ c ∈ scenarioOwnCards sc p, c.ok = true := by
  intro c hc
  unfold scenarioOwnCards at hc
  obtain ⟨bd, hbd, hc⟩ := List.mem_flatMap.1 hc
  exact boardOwnCards_ok p bd.1 bd.2 (h bd hbd) c hc

end Bridge.Translated.ClientG
