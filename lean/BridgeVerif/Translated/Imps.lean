import BridgeVerif.Translated.EncBase
import BridgeVerif.Model.Score
/-!
# `point_difference_to_imps` / `score_to_imp` AS TRANSLATED compute what the model computes, for EVERY integer  (C16)

The domain is infinite, so kernel evaluation is not available: the MiniPy interpreter is executed SYMBOLICALLY on the
translated function bodies (`Generated/PyCore.lean`).  The `while imps < 24` loop is handled by a loop invariant proved
by induction on the number of turns left, for every sufficiently large fuel (so the same lemma serves the top-level call
and the nested call from `score_to_imp`, which runs with less fuel).
-/
namespace Bridge.Translated
open Bridge.Py Bridge.Generated.PyCore

/-! one level of fuel unfolds one level of the interpreter -/
section unfold
variable (P : Program) (f : Nat)
theorem mkRec_eval (env : Env) (e : Expr) : (mkRec P (f + 1)).eval env e = evalF (mkRec P f) P env e := rfl
theorem mkRec_exec (env : Env) (ss : List Stmt) : (mkRec P (f + 1)).exec env ss = execF (mkRec P f) P env ss := rfl
theorem mkRec_call (fd : FuncDef) (args : List Val) : (mkRec P (f + 1)).call fd args = callF (mkRec P f) fd args := rfl
theorem mkRec_loop (env : Env) (c : Expr) (b : List Stmt) :
    (mkRec P (f + 1)).loop env c b = loopF (mkRec P f) env c b := rfl
end unfold

/-- the local variables of `point_difference_to_imps` while the loop runs, with `imps = k` -/
def impsEnv (d : Int) (k : Nat) : Env :=
  [(n_point_difference, .int d), (n_win, .bool (decide (0 ≤ d))), (n_imps, .int (k : Int))]

/-- the loop condition `imps < 24` -/
def impsCond : Expr := .cmp .lt (.var n_imps) (.const (.int 24))
/-- the test `abs(point_difference) < _IMPS_LIST[imps]` -/
def impsTest : Expr :=
  .cmp .lt (.builtin .abs [(.var n_point_difference)]) (.index (.var n__IMPS_LIST) (.var n_imps))
/-- the loop body -/
def impsBody : List Stmt :=
  [(.ite impsTest [.brk] []), (.assign (.var n_imps) (.binop .add (.var n_imps) (.const (.int 1))))]

theorem impsCond_eval (P : Program) (d : Int) (k f : Nat) :
    (mkRec P (f + 2)).eval (impsEnv d k) impsCond = .ok (.bool (decide ((k : Int) < 24))) := by
  simp [mkRec_eval, impsCond, impsEnv, evalF, lookup, n_imps, n_win, n_point_difference, cmpF, compareF, asInt?,
    bind, Except.bind, pure, Except.pure]

section loop
variable (P : Program) (ts : List Int) (hg : lookup P.globals n__IMPS_LIST = some (.tuple (ts.map Val.int)))
include hg

theorem impsTest_eval (d : Int) (k f : Nat) (hk : k < ts.length) :
    (mkRec P (f + 3)).eval (impsEnv d k) impsTest = .ok (.bool (decide ((d.natAbs : Int) < ts[k]))) := by
  simp [mkRec_eval, impsTest, impsEnv, evalF, lookup, n_imps, n_win, n_point_difference, n__IMPS_LIST, cmpF, compareF,
    asInt?, bind, Except.bind, pure, Except.pure, mapR, builtinF, indexF, normIndex] at hg ⊢
  simp [hg, hk]

/-- one turn of the loop body: `break` when the threshold exceeds `|d|`, else `imps += 1` -/
theorem impsBody_exec (d : Int) (k f : Nat) (hk : k < ts.length) :
    (mkRec P (f + 5)).exec (impsEnv d k) impsBody
      = .ok (if (d.natAbs : Int) < ts[k] then (impsEnv d k, .brk) else (impsEnv d (k + 1), .next)) := by
  have ht := impsTest_eval P ts hg d k (f + 1) hk
  simp only [mkRec_exec, impsBody, execF, execStmtF, ht, bind, Except.bind, truthy]
  by_cases h : (d.natAbs : Int) < ts[k]
  · simp [h, pure, Except.pure]
  · simp [h, mkRec_eval, evalF, assignToF, binopVal, asInt?, bind, Except.bind, pure,
      Except.pure, impsEnv, lookup, update, n_imps, n_win, n_point_difference]

/-- THE LOOP INVARIANT: entered with `imps = k` (and `24 - k` turns left at most), the loop ends with
`imps = impScan |d| (thresholds from k on) k`, for every fuel that is large enough -/
theorem impsLoop (hlen : ts.length = 24) (d : Int) :
    ∀ n k f : Nat, k + n = 24 → n + 7 ≤ f →
      (mkRec P f).loop (impsEnv d k) impsCond impsBody
        = .ok (impsEnv d (impScan (d.natAbs : Int) (ts.drop k) k), .next) := by
  intro n
  induction n with
  | zero =>
    intro k f hk hf
    obtain ⟨g, rfl⟩ : ∃ g, f = g + 3 := ⟨f - 3, by omega⟩
    have hk' : k = 24 := by omega
    subst hk'
    have hd : ts.drop 24 = [] := by simp [hlen]
    rw [mkRec_loop]
    simp [loopF, impsCond_eval, hd, impScan, bind, Except.bind, pure, Except.pure, truthy]
  | succ n ih =>
    intro k f hk hf
    obtain ⟨g, rfl⟩ : ∃ g, f = g + 7 := ⟨f - 7, by omega⟩
    have hk' : k < ts.length := by omega
    have hd : ts.drop k = ts[k] :: ts.drop (k + 1) := List.drop_eq_getElem_cons hk'
    have hc := impsCond_eval P d k (g + 4)
    have hb := impsBody_exec P ts hg d k (g + 1) hk'
    have hl := ih (k + 1) (g + 6) (by omega) (by omega)
    have hlt : (k : Int) < 24 := by omega
    rw [hd, impScan, mkRec_loop]
    by_cases h : (d.natAbs : Int) < ts[k]
    · simp [loopF, hc, hb, h, hlt, bind, Except.bind, pure, Except.pure, truthy]
    · simp [loopF, hc, hb, h, hlt, hl, bind, Except.bind, truthy]

/-- the whole body of `point_difference_to_imps`, called with `d` -/
theorem impsCall (hlen : ts.length = 24) (d : Int) (f : Nat) (hf : 40 ≤ f) :
    (mkRec P f).call f_point_difference_to_imps [.int d]
      = .ok (.int (if 0 ≤ d then (impScan (d.natAbs : Int) ts 0 : Int) else -(impScan (d.natAbs : Int) ts 0 : Int)),
             .int d) := by
  obtain ⟨g, rfl⟩ : ∃ g, f = g + 40 := ⟨f - 40, by omega⟩
  have hl : (mkRec P (g + 38)).loop [(n_point_difference, .int d), (n_win, .bool (decide (0 ≤ d))), (n_imps, .int 0)]
      impsCond impsBody = .ok (impsEnv d (impScan (d.natAbs : Int) ts 0), .next) := by
    simpa [impsEnv] using impsLoop P ts hg hlen d 24 0 (g + 38) (by omega) (by omega)
  simp only [impsCond, impsBody, impsTest] at hl
  rw [mkRec_call]
  simp [callF, f_point_difference_to_imps, bindParams, mkRec_exec, mkRec_eval, execF, execStmtF, evalF, assignToF,
    cmpF, compareF, asInt?, lookup, update, n_imps, n_win, n_point_difference, bind, Except.bind, pure, Except.pure]
  rw [hl]
  by_cases h : 0 ≤ d
  · simp [h, impsEnv, lookup, truthy, n_imps, n_win, n_point_difference]
  · simp [h, impsEnv, lookup, truthy, n_imps, n_win, n_point_difference]

/-- the body of `score_to_imp`: the nested call runs with less fuel than the caller -/
theorem scoreToImpCall (hfn : findFunc P.funcs n_point_difference_to_imps = some f_point_difference_to_imps)
    (hlen : ts.length = 24) (a b : Int) (f : Nat) (hf : 50 ≤ f) :
    (mkRec P f).call f_score_to_imp [.int a, .int b]
      = .ok (.int (if 0 ≤ a + b then (impScan ((a + b).natAbs : Int) ts 0 : Int)
                    else -(impScan ((a + b).natAbs : Int) ts 0 : Int)), .int a) := by
  obtain ⟨g, rfl⟩ : ∃ g, f = g + 50 := ⟨f - 50, by omega⟩
  have hc := impsCall P ts hg hlen (a + b) (g + 47) (by omega)
  rw [mkRec_call]
  simp [callF, f_score_to_imp, bindParams, mkRec_exec, mkRec_eval, execF, execStmtF, evalF, mapR, binopVal, asInt?,
    lookup, n_first_score, n_second_score, hfn, hc, bind, Except.bind, pure, Except.pure]

end loop

/-! ## the translated program -/

theorem imps_global : lookup PB.globals n__IMPS_LIST = some (.tuple (IMPS_LIST.map Val.int)) := rfl
theorem imps_length : IMPS_LIST.length = 24 := rfl
theorem imps_func : findFunc PB.funcs n_point_difference_to_imps = some f_point_difference_to_imps := rfl
theorem score_to_imp_func : findFunc PB.funcs n_score_to_imp = some f_score_to_imp := rfl

/-- THE TRANSLATED `point_difference_to_imps` computes what the model computes, for EVERY integer -/
theorem point_difference_to_imps_translated (d : Int) :
    (fn n_point_difference_to_imps [.int d]).int? = some (pointDifferenceToImps d) := by
  have h := impsCall PB IMPS_LIST imps_global imps_length d topFuel (by decide)
  simp only [fn, Program.runFn, imps_func, callFn, h, Except.map, R.int?, pointDifferenceToImps, ge_iff_le]

/-- THE TRANSLATED `score_to_imp` -/
theorem score_to_imp_translated (a b : Int) :
    (fn n_score_to_imp [.int a, .int b]).int? = some (scoreToImp a b) := by
  have h := scoreToImpCall PB IMPS_LIST imps_global imps_func imps_length a b topFuel (by decide)
  simp only [fn, Program.runFn, score_to_imp_func, callFn, h, Except.map, R.int?, scoreToImp, pointDifferenceToImps,
    ge_iff_le]

end Bridge.Translated
