import BridgeVerif.Translated.PbnParserLemmasA
/-! Translated PBN parser = model: `extract_content` (recursive; induction on the fuel) -/
namespace Bridge.Translated
open Bridge Bridge.Py Bridge.Generated.PyCore Bridge.RegexPbn

/-- Python's `find()` result: `-1` when absent -/
def optIdx (o : Option Nat) : Int := match o with | some i => i | none => -1

theorem pp_optIdx_pos (o : Option Nat) (h : 0 < optIdx o) : o = some (optIdx o).toNat := by
  cases o with
  | none => simp [optIdx] at h
  | some i => simp [optIdx]

theorem pp_optIdx_ofNat (o : Option Nat) (h : 0 < optIdx o) : optIdx o = Int.ofNat (optIdx o).toNat := by
  cases o with
  | none => simp [optIdx] at h
  | some i => simp [optIdx]

/-- one unfolding of the model, with the `find()` results named -/
theorem pp_ec_succ (k : Nat) (st : PbnSt) (s : Str) : extractContent (k + 1) st s =
    if s.isEmpty then st
    else if st.inComment then
      match splitAtChar '}' s with
      | some (_, rem) => extractContent k { st with inComment := false } rem
      | none => st
    else
      if (0 < optIdx (find2 ';' ' ' s 0) ∧ optIdx (find2 ';' ' ' s 0) < optIdx (find2 '{' ' ' s 0))
          ∨ (optIdx (find2 '{' ' ' s 0) < 0 ∧ 0 < optIdx (find2 ';' ' ' s 0)) then
        (match searchTag (s.length + 1) s 0 with
          | some (a, b) =>
            if (a : Int) < optIdx (find2 ';' ' ' s 0) ∧ optIdx (find2 ';' ' ' s 0) < (b : Int) then
              extractContent k (st.push (s.take b)) (s.drop b) else st
          | none => st).push (s.take (optIdx (find2 ';' ' ' s 0)).toNat)
      else if (optIdx (find2 ';' ' ' s 0) > optIdx (find2 '{' ' ' s 0) ∧ optIdx (find2 '{' ' ' s 0) > 0)
          ∨ (optIdx (find2 '{' ' ' s 0) > 0 ∧ 0 > optIdx (find2 ';' ' ' s 0)) then
        extractContent k { (st.push (s.take (optIdx (find2 '{' ' ' s 0)).toNat)) with inComment := true }
          (s.drop ((optIdx (find2 '{' ' ' s 0)).toNat + 2))
      else st.push s := rfl

/-! ## builtins -/
theorem pp_find_builtin (r : Rec) (s : Str) (a b : Char) :
    builtinF r P .find [.str s, .str [a, b]] = .ok (.int (optIdx (find2 a b s 0))) := by
  simp only [builtinF, pp_findFrom2]
  cases find2 a b s 0 <;> rfl

theorem pp_splitOnce2 (r : Rec) (s : Str) (a b : Char) (i : Nat) (h : find2 a b s 0 = some i) :
    builtinF r P .splitOnce [.str s, .str [a, b]] = .ok (.tuple [.str (s.take i), .str (s.drop (i + 2))]) := by
  simp only [builtinF, pp_findFrom2, h, List.isEmpty_cons, Bool.false_eq_true, if_false, List.length_cons, List.length_nil]
  rfl

theorem pp_splitOnce1 (r : Rec) (s : Str) (c : Char) (a rem : Str) (h : splitAtChar c s = some (a, rem)) :
    builtinF r P .splitOnce [.str s, .str [c]] = .ok (.tuple [.str a, .str rem]) := by
  have := pp_splitAtChar_spec c s a rem h
  simp only [builtinF, pp_findFrom1, h, List.isEmpty_cons, Bool.false_eq_true, if_false, List.length_cons, List.length_nil,
    Option.map, Nat.zero_add, this.1, this.2.1]
  rfl

theorem pp_in1 (r : Rec) (s : Str) (c : Char) :
    cmpF r P .inn (.str [c]) (.str s) = .ok (.bool (splitAtChar c s).isSome) := by
  simp only [cmpF, pp_infix1]
  cases (splitAtChar c s).isSome <;> rfl

theorem pp_truthy_str (s : Str) : truthy (.str s) = !s.isEmpty := rfl
theorem pp_truthy_obj (c : Id) (fs : List (Id × Val)) : truthy (.obj c fs) = true := rfl
theorem pp_truthy_none : truthy .none = false := rfl

/-- `re.search(TAG_PATTERN, s)` as the translated code sees it -/
def searchVal (t : Val) : Option (Nat × Nat) → Val
  | none => .none
  | some (a, b) => .obj n__MatchS [(n_texts, t), (n_span, .tuple [.int ((a : Nat) : Int), .int ((b : Nat) : Int)])]

theorem pp_search_builtin (hf : PbnRegexFacts) (s : Str) :
    ∃ t, ∀ r : Rec, builtinF r P .reSearchSpan [.str TAG_PATTERN, .str s, .bool false, .cls n__MatchS, .int n_texts, .int n_span]
      = .ok (searchVal t (searchTag (s.length + 1) s 0)) := by
  have h := hf.search_tag s
  cases hp : Re.pySearch false TAG_PATTERN s with
  | none => rw [hp] at h; cases h
  | some mo =>
    rw [hp] at h
    simp only [Option.map, Option.some.injEq] at h
    cases mo with
    | none =>
      simp only at h
      refine ⟨.none, fun r => ?_⟩
      simp only [builtinF, hp, ← h, searchVal]; rfl
    | some m =>
      simp only at h
      refine ⟨(match matchVal n__MatchS n_texts s m with | .obj _ ((_, t) :: _) => t | _ => .none), fun r => ?_⟩
      simp only [builtinF, hp, ← h, searchVal, matchVal]
      rfl


/-! ## the two conditions -/
theorem pp_cond1 (g : Nat) (sv tp : Val) (s : Str) (xi yi : Int) :
    evalF (mkRec P (g + 18)) P [(K.self, sv), (n_string, .str s), (n_x, .int xi), (n_y, .int yi), (n_tag_pair, tp)]
      (.or (.and (.cmp .lt (.const (.int 0)) (.var n_x)) (.cmp .lt (.var n_x) (.var n_y)))
        (.and (.cmp .lt (.var n_y) (.const (.int 0))) (.cmp .lt (.const (.int 0)) (.var n_x))))
      = .ok (.bool (decide ((0 < xi ∧ xi < yi) ∨ (yi < 0 ∧ 0 < xi)))) := by
  by_cases h1 : 0 < xi <;> by_cases h2 : xi < yi <;> by_cases h3 : yi < 0 <;> ppsimp [h1, h2, h3]

theorem pp_cond2 (g : Nat) (sv tp : Val) (s : Str) (xi yi : Int) :
    evalF (mkRec P (g + 17)) P [(K.self, sv), (n_string, .str s), (n_x, .int xi), (n_y, .int yi), (n_tag_pair, tp)]
      (.or (.and (.cmp .gt (.var n_x) (.var n_y)) (.cmp .gt (.var n_y) (.const (.int 0))))
        (.and (.cmp .gt (.var n_y) (.const (.int 0))) (.cmp .gt (.const (.int 0)) (.var n_x))))
      = .ok (.bool (decide ((xi > yi ∧ yi > 0) ∨ (yi > 0 ∧ 0 > xi)))) := by
  by_cases h1 : xi > yi <;> by_cases h2 : yi > 0 <;> by_cases h3 : 0 > xi <;> ppsimp [h1, h2, h3]

/-! ## running a body in two stages -/
theorem pp_execF_append_next (r : Rec) (ss1 ss2 : List Stmt) : ∀ (env env' : Env),
    execF r P env ss1 = .ok (env', .next) → execF r P env (ss1 ++ ss2) = execF r P env' ss2 := by
  induction ss1 with
  | nil =>
    intro env env' h
    simp only [execF, pure, Except.pure, Except.ok.injEq, Prod.mk.injEq, and_true] at h
    subst h; rfl
  | cons s ss ih =>
    intro env env' h
    rw [List.cons_append, execF]
    rw [execF] at h
    cases hs : execStmtF r P env s with
    | error e => rw [hs] at h; cases h
    | ok x =>
      obtain ⟨e1, fl⟩ := x
      rw [hs] at h
      cases fl with
      | next => exact ih e1 env' h
      | ret v => cases h
      | brk => cases h
      | cont => cases h

/-- the first five statements of `extract_content` (the two early returns, `x`, `y`, `tag_pair`) and the rest -/
def ecPre : List Stmt := m_PbnParser_extract_content.body.take 5
def ecRest : List Stmt := m_PbnParser_extract_content.body.drop 5

theorem pp_callF_extract (r : Rec) (sv x : Val) :
    callF r m_PbnParser_extract_content [sv, x] =
      r.exec [(K.self, sv), (n_string, x)] (ecPre ++ ecRest) >>= fun x =>
        match x.2 with
        | .ret v => .ok (v, (lookup x.1 K.self).getD .none)
        | _ => .ok (.none, (lookup x.1 K.self).getD .none) := by
  rw [callF_def]; rfl

end Bridge.Translated
