import BridgeVerif.Translated.ThreadsSeatA
import BridgeVerif.Translated.Auction
import BridgeVerif.Lemmas.MiniPyFuel
/-! Translated `ClientThread`: encodings of the client's world and thread object, the `_World` methods on a client
world, parser hypotheses, `Client.create_bid_message` evaluated on every call × seat -/
set_option maxRecDepth 4000
namespace Bridge.Translated.ClientA
open Bridge Bridge.Py Bridge.Generated.PyCore

/-! ## encodings -/

/-- the client's world: the connection stream `s2c p`, the decisions the bidding system / the playing system will return
(what `w_ask("bid", …)` / `w_ask("play", …)` take from) -/
def encClientWorld (s : List Str) (bids : List Val) (plays : List Val) (out : List Val) : Val :=
  encWorld [(vstr "conn", vtexts s), (vstr "bid", .tuple bids), (vstr "play", .tuple plays)] out (.dict []) [] false

/-- the client object: the four attributes `ClientThread.__init__` assigns, in its order, then `extra`
(`_deal` adds `board_num`, `dealer`, `vul`, `hand_set`, `hand_binary`) -/
def encClientThread (p : Seat) (w : Val) (team : Str) (opp : Val) (extra : List (Id × Val)) : Val :=
  .obj n_ClientThread ((n__w, w) :: (n_player, encSeat p) :: (n_team_name, .str team) :: (n_opponent_team_name, opp) :: extra)

/-- one action of the client of seat `p` as the world operation it records -/
def encClientAct (p : Seat) : SAct Text LogOp → Option (List Val)
  | .send (.c2s q) m => if q = p then some [.tuple [vstr "send", .str m]] else none
  | .recv (.s2c q) => if q = p then some [.tuple [vstr "recv"]] else none
  | _ => none

def encClientActs (p : Seat) : List (SAct Text LogOp) → Option (List Val)
  | [] => some []
  | a :: r => do
    let x ← encClientAct p a
    let xs ← encClientActs p r
    pure (x ++ xs)

/-- the world operation of a decision of the bidding system: `w_ask("bid", None)` -/
def bidAsk : Val := .tuple [vstr "bid", .none]

/-! ## method resolution -/
theorem ct_mth_w_ask : P.method? classDepth n__World n_w_ask = some (n__World, m__World_w_ask) := rfl

/-! ## the client's world, opened -/
theorem ct_encClientWorld_def (s : List Str) (bids plays out : List Val) :
    encClientWorld s bids plays out = .obj n__World [(n_ins, .dict [(vstr "conn", vtexts s), (vstr "bid", .tuple bids),
      (vstr "play", .tuple plays)]), (n_out, .tuple out), (n_table, .dict []), (n_tables, .tuple []), (n_eof, .bool false)] := rfl

theorem ct_lookupD_conn (a b c : Val) :
    lookupD [(vstr "conn", a), (vstr "bid", b), (vstr "play", c)] (.str ['c', 'o', 'n', 'n']) = some a := by
  simp [lookupD, vstr, Val.beq]
theorem ct_updateD_conn (a b c v : Val) :
    updateD [(vstr "conn", a), (vstr "bid", b), (vstr "play", c)] (.str ['c', 'o', 'n', 'n']) v
      = [(vstr "conn", v), (vstr "bid", b), (vstr "play", c)] := by
  simp [updateD, vstr, Val.beq]
theorem ct_lookupD_bid (a b c : Val) :
    lookupD [(vstr "conn", a), (vstr "bid", b), (vstr "play", c)] (.str ['b', 'i', 'd']) = some b := by
  simp [lookupD, vstr, Val.beq]
theorem ct_updateD_bid (a b c v : Val) :
    updateD [(vstr "conn", a), (vstr "bid", b), (vstr "play", c)] (.str ['b', 'i', 'd']) v
      = [(vstr "conn", a), (vstr "bid", v), (vstr "play", c)] := by
  simp [updateD, vstr, Val.beq]

/-- the simp set on a client world -/
macro "ctsimp" "[" ls:Lean.Parser.Tactic.simpLemma,* "]" : tactic =>
  `(tactic| stsimp [ct_lookupD_conn, ct_updateD_conn, ct_lookupD_bid, ct_updateD_bid, $ls,*])

theorem ct_w_recv_call (f : Nat) (msg : Str) (s : List Str) (bids plays out : List Val) :
    callF (mkRec P (f+12)) m__World_w_recv [encClientWorld (msg :: s) bids plays out]
      = .ok (.str msg, encClientWorld s bids plays (out ++ [.tuple [vstr "recv"]])) := by
  rw [callF_def]
  simp only [m__World_w_recv, bindParams, Option.map, ct_encClientWorld_def, vtexts]
  ctsimp []
  rfl

theorem ct_w_recv_blocked (f : Nat) (bids plays out : List Val) :
    callF (mkRec P (f+12)) m__World_w_recv [encClientWorld [] bids plays out] = .error (.exc n_Blocked) := by
  rw [callF_def]
  simp only [m__World_w_recv, bindParams, Option.map, ct_encClientWorld_def, vtexts]
  ctsimp []

theorem ct_w_send_call (f : Nat) (s : List Str) (bids plays out : List Val) (m : Val) :
    callF (mkRec P (f+12)) m__World_w_send [encClientWorld s bids plays out, m]
      = .ok (.none, encClientWorld s bids plays (out ++ [.tuple [vstr "send", m]])) := by
  rw [callF_def]
  simp only [m__World_w_send, bindParams, Option.map, ct_encClientWorld_def, vtexts]
  ctsimp []
  rfl

theorem ct_w_ask_bid_call (f : Nat) (s : List Str) (b : Val) (bids plays out : List Val) :
    callF (mkRec P (f+12)) m__World_w_ask [encClientWorld s (b :: bids) plays out, .str ['b', 'i', 'd'], .none]
      = .ok (b, encClientWorld s bids plays (out ++ [bidAsk])) := by
  rw [callF_def]
  simp only [m__World_w_ask, bindParams, Option.map, ct_encClientWorld_def, vtexts]
  ctsimp []
  rfl

theorem ct_w_ask_bid_blocked (f : Nat) (s : List Str) (plays out : List Val) :
    callF (mkRec P (f+12)) m__World_w_ask [encClientWorld s [] plays out, .str ['b', 'i', 'd'], .none]
      = .error (.exc n_Blocked) := by
  rw [callF_def]
  simp only [m__World_w_ask, bindParams, Option.map, ct_encClientWorld_def, vtexts]
  ctsimp []

theorem ct_methF_world (r : Rec) (s : List Str) (bids plays out : List Val) (m : Id) (args : List Val) :
    methF r P (encClientWorld s bids plays out) m args
      = callMethod r P n__World m (encClientWorld s bids plays out :: args) (.exc K.AttributeError) := rfl

theorem ct_thread_def (p : Seat) (w : Val) (team : Str) (opp : Val) (extra : List (Id × Val)) :
    encClientThread p w team opp extra = .obj n_ClientThread ((n__w, w) :: (n_player, encSeat p) ::
      (n_team_name, .str team) :: (n_opponent_team_name, opp) :: extra) := rfl

/-- the simp set at thread level: world calls are answered by the lemmas above -/
macro "ctthsimp" "[" ls:Lean.Parser.Tactic.simpLemma,* "]" : tactic =>
  `(tactic| ctsimp [ct_methF_world, st_mth_w_recv, st_mth_w_send, ct_mth_w_ask, ct_w_recv_call, ct_w_recv_blocked,
      ct_w_send_call, ct_w_ask_bid_call, ct_w_ask_bid_blocked, $ls,*])

/-! ## "the static method returns `v`" at every sufficiently large fuel -/

/-- `fd(args)` returns `v` at every interpreter fuel `≥ N` (the hypotheses about the translated parsers have this form) -/
def Returns (N : Nat) (fd : FuncDef) (args : List Val) (v : Val) : Prop :=
  ∀ f, N ≤ f → (callFn P f fd args).map (·.1) = .ok v

/-- one fuel suffices (`mkRec_mono`) -/
theorem Returns.of_fuel {N : Nat} {fd : FuncDef} {args : List Val} {v : Val}
    (h : (callFn P N fd args).map (·.1) = .ok v) : Returns N fd args v := by
  intro f hf
  cases hx : callFn P N fd args with
  | error e => rw [hx] at h; cases h
  | ok x =>
    rw [callFn_fuel_mono P hf fd args (.ok x) hx (by intro h'; cases h')]
    rw [hx] at h; exact h

/-- the form the symbolic execution uses -/
theorem Returns.callF {N : Nat} {fd : FuncDef} {args : List Val} {v : Val} (h : Returns N fd args v) :
    ∃ s, ∀ g, N ≤ g + 1 → callF (mkRec P g) fd args = .ok (v, s) := by
  cases hx : callFn P N fd args with
  | error e => have := h N (Nat.le_refl _); rw [hx] at this; cases this
  | ok x =>
    obtain ⟨v', s⟩ := x
    have hv := h N (Nat.le_refl _)
    rw [hx] at hv
    have hv' : v' = v := by injection hv
    subst hv'
    exact ⟨s, fun g hg => callFn_fuel_mono P hg fd args _ hx (by intro h'; cases h')⟩

/-! ## `Client.create_bid_message` on every call × seat -/

def retStr (r : R (Val × Val)) (s : Str) : Bool :=
  match r with
  | .ok (.str t, _) => t == s
  | _ => false

theorem ct_cbm_all : ∀ c ∈ Call.all, ∀ p ∈ Seat.all,
    retStr (callFn P 15 m_Client_create_bid_message [encCall c, .str p.formal]) (bidMsg c p.formal) = true := by
  decide +kernel

theorem ct_call_mem_all (c : Call) : c ∈ Call.all := by
  cases c with
  | pass => decide
  | dbl => decide
  | rdbl => decide
  | bid i =>
    have : ∀ i : Fin 35, Call.bid i ∈ Call.all := by decide
    exact this i

theorem ct_seat_mem (p : Seat) : p ∈ Seat.all := by cases p <;> decide

/-- `Client.create_bid_message(bid, name)` is `bidMsg` (evaluated over the 38 calls × 4 seats) -/
theorem create_bid_message_translated (c : Call) (p : Seat) :
    Returns 15 m_Client_create_bid_message [encCall c, .str p.formal] (.str (bidMsg c p.formal)) := by
  apply Returns.of_fuel
  have h := ct_cbm_all c (ct_call_mem_all c) p (ct_seat_mem p)
  cases hx : callFn P 15 m_Client_create_bid_message [encCall c, .str p.formal] with
  | error e => rw [hx] at h; simp [retStr] at h
  | ok x =>
    obtain ⟨v, s⟩ := x
    rw [hx] at h
    cases v <;> simp [retStr] at h
    subst h
    rfl

theorem ct_mth_cbm :
    P.method? classDepth n_Client n_create_bid_message = some (n_Client, m_Client_create_bid_message) := rfl
theorem ct_mth_parse_bid :
    P.method? classDepth n_MessageInterface n_parse_bid = some (n_MessageInterface, m_MessageInterface_parse_bid) := rfl
theorem ct_mth_parse_board : P.method? classDepth n_Client n_parse_board = some (n_Client, m_Client_parse_board) := rfl
theorem ct_mth_parse_cards : P.method? classDepth n_Client n_parse_cards = some (n_Client, m_Client_parse_cards) := rfl
theorem ct_mth_parse_hand : P.method? classDepth n_Client n_parse_hand = some (n_Client, m_Client_parse_hand) := rfl

/-! ## the translated `BiddingPhase` at every fuel (Translated/Auction*.lean) -/

theorem ct_new_bidding (f : Nat) (d : Seat) (v : Vul) :
    constructF (mkRec P (f+10)) P n_BiddingPhase [encSeat d, encVul v] = .ok (encState (AState.init d v)) := by
  rfl

theorem ct_active_player (f : Nat) (s : AState) :
    getAttrF (mkRec P (f+8)) P (encState s) n_active_player = .ok (encOpt encSeat s.active) := by
  rfl

theorem ct_take_bid_call (f : Nat) (s : AState) (c : Call) :
    callF (mkRec P (f+31)) m_BiddingPhase_take_bid [encState s, encCall c] =
      match takeBid s c with
      | .error () => .error (.exc K.Exception)
      | .ok (s', r) => .ok (encRes r, encState s') := by
  have run : callF (mkRec P (f+31)) m_BiddingPhase_take_bid [encState s, encCall c]
      = ((mkRec P (f+31)).exec (envOf s c) m_BiddingPhase_take_bid.body >>= fun x =>
          match x.2 with
          | .ret v => pure (v, (lookup x.1 K.self).getD .none)
          | _ => pure (.none, (lookup x.1 K.self).getD .none)) := rfl
  rw [run, exec_succ, take_bid_body f s c]
  cases h : takeBid s c with
  | error u => cases u; rfl
  | ok x => obtain ⟨s', r⟩ := x; cases r <;> rfl

theorem ct_contract_call (f : Nat) (s : AState) (h : s.contract.isSome ∨ s.active.isSome) :
    callF (mkRec P (f+40)) m_BiddingPhase_contract [encState s] = .ok (encOpt encContract s.contract, encState s) := by
  obtain ⟨dealer, vul, active, lastBidder, lastBid, calledX, calledXX, history, perSeat, declCheck, avail⟩ := s
  simp only [AState.contract] at h ⊢
  cases active with
  | some p =>
    pysimp [m_BiddingPhase_contract, has_done_meth]
  | none =>
    cases lastBid with
    | none =>
      pysimp [m_BiddingPhase_contract, has_done_meth]
      pysimp [encState, construct_contract4, beq_none_enum]
      rfl
    | some b =>
      cases lastBidder with
      | none => simp at h
      | some lb =>
        pysimp [m_BiddingPhase_contract, has_done_meth]
        pysimp [encState, construct_contract, beq_encBid_dbl, beq_encBid_rdbl, getAttr_suit, getAttr_pair, lookup_declKvs,
          lookup_declRow, beq_encSeat_none, beq_encSuit_none, beq_encBid_none]
        rfl

end Bridge.Translated.ClientA
