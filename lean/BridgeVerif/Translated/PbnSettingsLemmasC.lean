import BridgeVerif.Translated.PbnSettingsLemmasB
/-! Translated `PbnParser.parse_board_settings` = model: the loop over the games, the call -/
set_option linter.unusedSimpArgs false
namespace Bridge.Translated
open Bridge Bridge.Py Bridge.Generated.PyCore Bridge.RegexPbn Bridge.RegexHands Bridge.Translated.HandsPbn

/-- `SameSetting` entry by entry (same number of boards, same order) -/
inductive SameSettings : List SettingEntry → List SettingEntry → Prop
  | nil : SameSettings [] []
  | cons {a b : SettingEntry} {as bs : List SettingEntry} : SameSetting a b → SameSettings as bs → SameSettings (a :: as) (b :: bs)

theorem SameSettings.length_eq {as bs : List SettingEntry} (h : SameSettings as bs) : as.length = bs.length := by
  induction h with
  | nil => rfl
  | cons _ _ ih => simp only [List.length_cons, ih]

theorem SameSettings.getElem {as bs : List SettingEntry} (h : SameSettings as bs) :
    ∀ i (h₁ : i < as.length) (h₂ : i < bs.length), SameSetting as[i] bs[i] := by
  induction h with
  | nil => intro i h₁; cases h₁
  | cons hab _ ih =>
    intro i h₁ h₂
    cases i with
    | zero => exact hab
    | succ i => exact ih i (by simpa using h₁) (by simpa using h₂)

theorem ps_env_update (sv fv ov iv v : Val) (tail : Env) :
    update ((K.self, sv) :: (n_fp, fv) :: (n_outputs, ov) :: (n__it1, iv) :: tail) n_x v
      = (K.self, sv) :: (n_fp, fv) :: (n_outputs, ov) :: (n__it1, iv) :: update tail n_x v := rfl

theorem ps_mth_settings : P.method? classDepth n_PbnParser n_parse_board_settings
    = some (n_PbnParser, m_PbnParser_parse_board_settings) := rfl

/-- the loop: the first failing game decides (`mapM`) -/
theorem ps_loop (hh : HandsRegexFacts) (g0 : Nat) (sv fv iv : Val) : ∀ (games : List Game) (acc : List Val) (tail : Env),
    match games.mapM settingOfGame? with
    | some es => ∃ es' tail', SameSettings es' es ∧
        forF (mkRec P (g0 + 58)) [n_x] psbBody
          ((K.self, sv) :: (n_fp, fv) :: (n_outputs, .tuple acc) :: (n__it1, iv) :: tail) (games.map encGame)
        = .ok ((K.self, sv) :: (n_fp, fv) :: (n_outputs, .tuple (acc ++ es'.map encSetting)) :: (n__it1, iv) :: tail', .next)
    | none => ∃ c, c ∈ psErrors ∧
        forF (mkRec P (g0 + 58)) [n_x] psbBody
          ((K.self, sv) :: (n_fp, fv) :: (n_outputs, .tuple acc) :: (n__it1, iv) :: tail) (games.map encGame)
        = .error (.exc c) := by
  intro games
  induction games with
  | nil =>
    intro acc tail
    exact ⟨[], tail, SameSettings.nil, by simp only [List.map_nil, List.append_nil]; rfl⟩
  | cons g games ih =>
    intro acc tail
    have hs := ps_step hh g0 sv fv iv acc tail g
    rw [List.mapM_cons]
    simp only [List.map_cons, forF, pure_eq, bind_ok, ps_env_update, exec_succ]
    cases hg : settingOfGame? g with
    | none =>
      rw [hg] at hs
      obtain ⟨c, hc, hs⟩ := hs
      exact ⟨c, hc, by rw [hs]; rfl⟩
    | some e =>
      rw [hg] at hs
      obtain ⟨e', tail', hsame, hs⟩ := hs
      have ih' := ih (acc ++ [encSetting e']) tail'
      rw [hs]
      simp only [bind_ok, Option.bind_eq_bind, Option.bind_some]
      cases hm : games.mapM settingOfGame? with
      | none =>
        rw [hm] at ih'
        obtain ⟨c, hc, ih'⟩ := ih'
        exact ⟨c, hc, ih'⟩
      | some es =>
        rw [hm] at ih'
        obtain ⟨es', tail'', hall, ih'⟩ := ih'
        refine ⟨e' :: es', tail'', SameSettings.cons hsame hall, ?_⟩
        rw [ih']
        simp only [List.map_cons, List.append_assoc, List.cons_append, List.nil_append]

/-- `parse_board_settings(lines)` at an arbitrary fuel, from any parser state -/
theorem ps_settings_call (hf : PbnRegexFacts) (hne : PbnSubNonempty) (hh : HandsRegexFacts) (f N : Nat) (lines : List Str)
    (hok : LinesOkW N lines) (st : PbnSt) (cl cb : List Str) :
    match (streamFrom st lines).mapM settingOfGame? with
    | some es => ∃ es' st' cl' cb', SameSettings es' es ∧
        callF (mkRec P (f + 4 * N + 60)) m_PbnParser_parse_board_settings
          [encPbnParser st cl cb, .tuple (lines.map Val.str)]
        = .ok (.tuple (es'.map encSetting), encPbnParser st' cl' cb')
    | none => ∃ c, c ∈ psErrors ∧
        callF (mkRec P (f + 4 * N + 60)) m_PbnParser_parse_board_settings
          [encPbnParser st cl cb, .tuple (lines.map Val.str)]
        = .error (.exc c) := by
  obtain ⟨st', cl', cb', hs⟩ := pp_stream_call_wide hf hne (f + 24) N lines hok st cl cb
  have e : f + 24 + 4 * N + 33 = f + 4 * N + 57 := by omega
  rw [e] at hs
  simp only [encPbnParser] at hs
  have hl := ps_loop hh (f + 4 * N) (encPbnParser st' cl' cb') (.tuple (lines.map Val.str))
    (.tuple ((streamFrom st lines).map encGame)) (streamFrom st lines) [] []
  cases hm : (streamFrom st lines).mapM settingOfGame? with
  | none =>
    rw [hm] at hl
    obtain ⟨c, hc, hl⟩ := hl
    refine ⟨c, hc, ?_⟩
    simp only [psbBody, m_PbnParser_parse_board_settings, List.getD_cons_succ, List.getD_cons_zero, encPbnParser] at hl
    rw [callF_def]
    simp only [m_PbnParser_parse_board_settings, bindParams, Option.map, encPbnParser]
    ppsimp [pp_tuple_nil, pp_mth_stream, hs, iterItems_tuple, hl]
  | some es =>
    rw [hm] at hl
    obtain ⟨es', tail', hall, hl⟩ := hl
    refine ⟨es', st', cl', cb', hall, ?_⟩
    simp only [psbBody, m_PbnParser_parse_board_settings, List.getD_cons_succ, List.getD_cons_zero, encPbnParser,
      List.nil_append] at hl
    rw [callF_def]
    simp only [m_PbnParser_parse_board_settings, bindParams, Option.map, encPbnParser]
    ppsimp [pp_tuple_nil, pp_mth_stream, hs, iterItems_tuple, hl]

end Bridge.Translated
