import BridgeVerif.Translated.ThreadsSeatBLemmasF
/-! Translated `SeatThread._playing_phase`: one card (one turn of the inner loop), on a symbolic environment -/
namespace Bridge.Translated.SeatB
open Bridge Bridge.Py Bridge.Generated.PyCore

set_option maxRecDepth 4000

/-- the body of `for trick_num in range(1, 14)` -/
def ppOuterBody : List Stmt := match m_SeatThread__playing_phase.body.getD 3 .pass with
  | .for _ _ b => b
  | _ => []
/-- the body of `for i in range(4)` -/
def ppInnerBody : List Stmt := match ppOuterBody.getD 2 .pass with
  | .for _ _ b => b
  | _ => []
def ppS0 : Stmt := ppInnerBody.getD 0 .pass
def ppS1 : Stmt := ppInnerBody.getD 1 .pass
def ppS2 : Stmt := ppInnerBody.getD 2 .pass
theorem ppInnerBody_eq : ppInnerBody = [ppS0, ppS1, ppS2] := rfl

/-- what the loops rely on in the environment -/
structure PE (env : Env) (selfv : Val) (decl : Seat) (k : Nat) (active : Seat) (idx : Nat) : Prop where
  hself : lookup env K.self = some selfv
  hdecl : lookup env n_declarer = some (encSeat decl)
  hdummy : lookup env n_dummy = some (encSeat decl.partner)
  hk : lookup env n_trick_num = some (.int k)
  hact : lookup env n_active_player = some (encSeat active)
  hi : lookup env n_i = some (.int idx)

theorem sb_beq_idx0 (idx : Nat) : (Val.int (idx : Int)).beq (.int 0) = decide (idx = 0) := by
  rw [beq_int, Bool.eq_iff_iff]; simp only [beq_iff_eq, decide_eq_true_eq]; omega

/-! ## the lemmas about the world / thread methods with the encodings unfolded (the form the symbolic execution meets) -/
local notation "SW(" p "," q "," c "," out "," tb "," tbs ")" =>
  Val.obj n__World [(n_ins, Val.dict [(qkey "m2t" p, vtexts q), (vstr "conn", vtexts c)]), (n_out, Val.tuple out),
    (n_table, tb), (n_tables, Val.tuple tbs), (n_eof, Val.bool false)]

theorem sbu_w_send (f : Nat) (p : Seat) (q c : List Str) (out : List Val) (tb : Val) (tbs : List Val) (m : Val) :
    callF (mkRec P (f+6)) m__World_w_send [SW(p, q, c, out, tb, tbs), m]
      = .ok (.none, SW(p, q, c, out ++ [.tuple [vstr "send", m]], tb, tbs)) :=
  sb_w_send f _ out tb tbs false m
theorem sbu_w_recv (f : Nat) (p : Seat) (q c : List Str) (m : Str) (out : List Val) (tb : Val) (tbs : List Val) :
    callF (mkRec P (f+8)) m__World_w_recv [SW(p, q, m :: c, out, tb, tbs)]
      = .ok (.str m, SW(p, q, c, out ++ [.tuple [vstr "recv"]], tb, tbs)) :=
  sb_w_recv f p q c m out tb tbs
theorem sbu_send_q (f : Nat) (p : Seat) (q c : List Str) (out : List Val) (tb : Val) (tbs : List Val)
    (extra : List (Id × Val)) (m : Val) :
    callF (mkRec P (f+10)) m_SeatThread_send_message_to_queue
        [.obj n_SeatThread ((n__w, SW(p, q, c, out, tb, tbs)) :: (n_player, encSeat p) :: extra), m]
      = .ok (.none, .obj n_SeatThread ((n__w, SW(p, q, c, out ++ [.tuple [vstr "put", vstr "t2m", encSeat p, m]], tb, tbs))
          :: (n_player, encSeat p) :: extra)) :=
  sb_send_q f _ out tb tbs false p extra m
theorem sbu_recv_q (f : Nat) (p : Seat) (q c : List Str) (m : Str) (out : List Val) (tb : Val) (tbs : List Val)
    (extra : List (Id × Val)) :
    callF (mkRec P (f+12)) m_SeatThread_receive_message_from_queue
        [.obj n_SeatThread ((n__w, SW(p, m :: q, c, out, tb, tbs)) :: (n_player, encSeat p) :: extra)]
      = .ok (.str m, .obj n_SeatThread ((n__w, SW(p, q, c, out ++ [.tuple [vstr "get", vstr "m2t", encSeat p]], tb, tbs))
          :: (n_player, encSeat p) :: extra)) :=
  sb_recv_q f p q c m out tb tbs extra
theorem sbu_check_pass (f : Nat) (p : Seat) (q c : List Str) (msg expected : Str) (out : List Val) (tb : Val)
    (tbs : List Val) (rest : List (Id × Val)) (h : passesCheck expected msg) :
    callF (mkRec P (f+14)) m_SeatThread__check_message
        [.obj n_SeatThread ((n__w, SW(p, q, msg :: c, out, tb, tbs)) :: rest), .str expected]
      = .ok (.bool true, .obj n_SeatThread ((n__w, SW(p, q, c, out ++ [.tuple [vstr "recv"]], tb, tbs)) :: rest)) :=
  sb_check_pass f p q c msg expected out tb tbs rest h

/-- the symbolic execution of `_playing_phase`: `ppsimp` with the method table and the unfolded method lemmas -/
macro "plsimp" "[" ls:Lean.Parser.Tactic.simpLemma,* "]" : tactic =>
  `(tactic| ppsimp [sb_mth_w_send, sb_mth_w_recv, sb_mth_send_q, sb_mth_recv_q, sb_mth_check_message, sbu_w_send,
      sbu_w_recv, sbu_send_q, sbu_recv_q, sb_formal, sb_strOf_str, sb_flat2, sb_beq_idx0, List.append_assoc, $ls,*])

/-- closes `∃ env', .ok (e, fl) = .ok (env', fl) ∧ PE env' …` : the lookups through the updates -/
macro "pe_done" "[" ls:Lean.Parser.Tactic.simpLemma,* "]" : tactic =>
  `(tactic| refine ⟨_, rfl, ⟨?_, ?_, ?_, ?_, ?_, ?_⟩⟩ <;>
      simp (config := { decide := true }) only [lookup_update_same, lookup_update_ne, ne_eq, not_false_eq_true, String.reduceToList,
        List.cons_append, List.nil_append, List.append_assoc, if_true, if_false, $ls,*])

/-- own card: `p` is on turn and is not dummy -/
theorem sb_card_own (f : Nat) (p decl : Seat) (k idx : Nat) (env : Env) (q c : List Str) (card : Str) (out : List Val)
    (tb : Val) (tbs : List Val) (extra : List (Id × Val))
    (he : PE env (encSeatThread p (encSeatWorld p q (card :: c) out tb tbs) extra) decl k p idx)
    (hd : p ≠ decl.partner) :
    ∃ env', execStmtF (mkRec P (f+20)) P env ppS0 = .ok (env', .next) ∧
      PE env' (encSeatThread p (encSeatWorld p q c (out ++
        ((if idx = 0 then [Val.tuple [vstr "send", .str (p.formal ++ " to lead".toList)]] else []) ++
         [.tuple [vstr "recv"], .tuple [vstr "put", vstr "t2m", encSeat p, .str card]])) tb tbs) extra) decl k p idx := by
  obtain ⟨h1, h2, h3, h4, h5, h6⟩ := he
  simp only [ppS0, ppInnerBody, ppOuterBody, m_SeatThread__playing_phase, List.getD_cons_succ, List.getD_cons_zero]
  simp only [encSeatThread, encSeatWorld, encWorld] at h1 ⊢
  by_cases h0 : idx = 0
  · plsimp [h1, h2, h3, h4, h5, h6, hd, h0]
    pe_done [h1, h2, h3, h4, h5, h6, h0]
  · plsimp [h1, h2, h3, h4, h5, h6, hd, h0]
    pe_done [h1, h2, h3, h4, h5, h6, h0]

theorem sb_ne_partner (p : Seat) : p ≠ p.partner := by cases p <;> decide
theorem sb_partner_ne (p : Seat) : p.partner ≠ p := by cases p <;> decide

/-- dummy's card, played by the declarer's client -/
theorem sb_card_dummy (f : Nat) (p : Seat) (k idx : Nat) (env : Env) (q c : List Str) (card : Str) (out : List Val)
    (tb : Val) (tbs : List Val) (extra : List (Id × Val))
    (he : PE env (encSeatThread p (encSeatWorld p q (card :: c) out tb tbs) extra) p k p.partner idx) :
    ∃ env', execStmtF (mkRec P (f+20)) P env ppS0 = .ok (env', .next) ∧
      PE env' (encSeatThread p (encSeatWorld p q c (out ++
        ((if idx = 0 then [Val.tuple [vstr "send", vstr "Dummy to lead"]] else []) ++
         [.tuple [vstr "recv"], .tuple [vstr "put", vstr "t2m", encSeat p, .str card]])) tb tbs) extra) p k p.partner idx := by
  obtain ⟨h1, h2, h3, h4, h5, h6⟩ := he
  simp only [ppS0, ppInnerBody, ppOuterBody, m_SeatThread__playing_phase, List.getD_cons_succ, List.getD_cons_zero]
  simp only [encSeatThread, encSeatWorld, encWorld] at h1 ⊢
  by_cases h0 : idx = 0
  · plsimp [h1, h2, h3, h4, h5, h6, h0, sb_ne_partner]
    pe_done [h1, h2, h3, h4, h5, h6, h0, vstr]
  · plsimp [h1, h2, h3, h4, h5, h6, h0, sb_ne_partner]
    pe_done [h1, h2, h3, h4, h5, h6, h0]

end Bridge.Translated.SeatB
