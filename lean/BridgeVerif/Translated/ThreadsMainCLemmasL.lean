import BridgeVerif.Translated.ThreadsMainCLemmasK
import BridgeVerif.Translated.ThreadsMainCLemmasI
/-! Translated `MainThread.run`: the statements before the accept loop, and between the accept loop and the board loop -/
set_option maxRecDepth 4000
set_option linter.unusedSimpArgs false
namespace Bridge.Translated.MainC
open Bridge Bridge.Py Bridge.Generated.PyCore Bridge.Translated.MainA Bridge.Translated.MainB Bridge.Translated.SeatB

def opBind : Val := .tuple [vstr "bind", .none]
def opListen : Val := .tuple [vstr "listen", .int 4]
def opEmitOpen : Val := .tuple [vstr "emit", vstr "open", .none]

def mcPre : List Stmt := m_MainThread_run.body.take 4
def mcMid : List Stmt := (m_MainThread_run.body.drop 5).take 9
theorem mcRunBody_eq : m_MainThread_run.body = mcPre ++ (mcAcceptWhile :: (mcMid ++ (mcBoardLoop :: mcAfterLoop))) := rfl

/-- `bind`, `listen(4)`, the empty seat table, no threads yet -/
theorem mc_pre (f : Nat) (env : Env) (i : Seat → List Str) (out : List Val) (table : Val) (tables : List Val)
    (more : List (Val × Val)) (bs : Val)
    (hself : lookup env K.self = some (encMainThread (encMainWorld i out table tables more) bs)) :
    ∃ env', execF (mkRec P (f+30)) P env mcPre = .ok (env', .next) ∧
      lookup env' K.self = some (encMainThread (encMainWorld i (out ++ [opBind, opListen]) (encTable Table.empty) tables more) bs) ∧
      lookup env' n_threads = some (.tuple []) ∧
      Frame [K.self, n_threads] env env' := by
  simp only [encMainThread] at hself ⊢
  refine ⟨?_, ?_, ?_, ?_, ?_⟩
  rotate_left
  · simp only [mcPre, m_MainThread_run, List.take]
    mbsimp [hself, updateD, mc_beq_enum]
    simp only [mb_world_def]
    mbsimp [hself, updateD, mc_beq_enum]
    rfl
  · lk_tac
  · lk_tac
  · frame_tac'

theorem mc_lookup_table_E (t : Table) : lookupD (tableKvs t) (.enum n_Player 2) = some (encOpt .str (t .E)) :=
  sb_lookup_table t .E
theorem mc_lookup_table_S (t : Table) : lookupD (tableKvs t) (.enum n_Player 3) = some (encOpt .str (t .S)) :=
  sb_lookup_table t .S
theorem mc_lookup_table_W (t : Table) : lookupD (tableKvs t) (.enum n_Player 4) = some (encOpt .str (t .W)) :=
  sb_lookup_table t .W

theorem mc_attr_table (r : Rec) (i : Seat → List Str) (out : List Val) (table : Val) (tables : List Val)
    (more : List (Val × Val)) : getAttrF r P (encMainWorld i out table tables more) n_table = .ok table := rfl

/-- the variables the statements between the two loops write -/
def midVars : List Id := [K.self, n_ns_team_name, n_ew_team_name, n_max_board_num]

/-- the two assertions on the seat table, the team names, the seating barrier, `max_board_num`, the log opened -/
theorem mc_mid (f : Nat) (env : Env) (i : Seat → List Str) (out : List Val) (t : Table) (tables : List Val)
    (more : List (Val × Val)) (boards : List Val) (ns ew : Str)
    (hN : t .N = some ns) (hS : t .S = some ns) (hE : t .E = some ew) (hW : t .W = some ew)
    (hself : lookup env K.self = some (encMainThread (encMainWorld i out (encTable t) tables more) (.tuple boards))) :
    ∃ env', execF (mkRec P (f+40)) P env mcMid = .ok (env', .next) ∧
      lookup env' K.self = some (encMainThread (encMainWorld i (out ++ [syncOp, opEmitOpen])
        (advTable (encTable t) tables).1 (advTable (encTable t) tables).2 more) (.tuple boards)) ∧
      lookup env' n_ns_team_name = some (.str ns) ∧ lookup env' n_ew_team_name = some (.str ew) ∧
      lookup env' n_max_board_num = some (.int ((boards.length : Int) + 1)) ∧
      Frame midVars env env' := by
  have hsync : ∀ g out, callF (mkRec P (g+20)) m_MainThread__sync_event
        [encMainThread (encMainWorld i out (encTable t) tables more) (.tuple boards), .none, .none]
      = .ok (.none, encMainThread (encMainWorld i (out ++ [.tuple [vstr "sync"]]) (advTable (encTable t) tables).1
                (advTable (encTable t) tables).2 more) (.tuple boards)) :=
    fun g out => mt_sync_event_call g (mainIns i more) out (encTable t) tables false (.tuple boards) .none .none
  simp only [encMainThread, encTable] at hself hsync ⊢
  refine ⟨?_, ?_, ?_, ?_, ?_, ?_, ?_⟩
  rotate_left
  · simp only [mcMid, m_MainThread_run, List.drop, List.take]
    mbsimp [hself, mc_attr_table, encTable, sb_lookup_table_N, mc_lookup_table_E, mc_lookup_table_S, mc_lookup_table_W,
      hN, hS, hE, hW, mt_beq_str, beq_self_eq_true, mc_beq_str_none, mt_mth_sync_event, hsync, mc_beq_tuple_none,
      mc_mth_w_emit, mc_w_emit_call]
    rfl
  · lk_tac
  · lk_tac
  · lk_tac
  · lk_tac
  · frame_tac'

end Bridge.Translated.MainC
