import BridgeVerif.Translated.HandsPbnLemmasC
/-!
# `Hands.convert_pbn` / `Hands._hand_parser` AS TRANSLATED compute the hand-written model, for EVERY string  (C14)

The translated methods (Generated/PyCoreHands.lean `m_Hands_convert_pbn`, `m_Hands__hand_parser`, re-written from hands.py
lines 150–210 on every run), executed by the MiniPy interpreter at the top-level fuel (`P.runMethod`), against
`convertPbn?` / `handParser?` of Model/Hands.lean.

## Statements
* `hp_hand_parser_translated_eq`  — `Hands._hand_parser(f)` returns `pyHandParser? f` (HandsPbnLemmasA.lean): the cards of the
  four groups in text order with FIRST occurrences kept (`dedupFirst`, the interpreter's `set.add`), as a tuple of
  `encCard`s; `Exception` when `pyHandParser? f = none`.  Syntactic equality of value AND of the argument afterwards.
* `hp_hand_parser_translated`     — (1): when `handParser? f = some cards` the result is `.tuple (l.map encCard)` for a
  duplicate-free `l` that is a permutation of `cards` (the model's `dedup` keeps LAST occurrences, so only the order
  differs); when `handParser? f = none` it is `.error (.exc K.Exception)`.
* `hp_hand_parser_translated_some` / `_none` — the two halves separately.
* `hp_convert_pbn_translated`     — (2): `Hands.convert_pbn(s)` (classmethod, arguments `cls`, `s`): when
  `convertPbn? s = some h` the result is `encHands h'` (the `Hands` instance of Translated/HandsLemmasA.lean: attributes
  `north`, `east`, `south`, `west`, each set a tuple in insertion order) for a deal `h'` with duplicate-free hands and
  `SameHands h' h` (a permutation seat by seat); when `convertPbn? s = none` the result is `.error (.exc K.Exception)`.
  NO other exception class arises: `Player[match.group(1)]` cannot raise `KeyError` (group 1 matched `[NESW]`, proved
  from `dealFields?`: `hp_seat_letter`), `match.group(i)` for `i` in 1..5 exists, `hands[Player.X]` finds all four keys
  (the four seats in rotation are distinct), `Card.rank_str_to_int` never raises (the groups hold rank characters only:
  `hp_matchGroups`, `hp_rank_char`) and `Card.__post_init__` accepts every card built (rank 2..14, suit ≠ NT).
* `hp_convert_pbn_translated_some` / `_none` — the two halves separately.
* `hp_pbn_round_trip_translated`  — (3): for a `PartialDeal h` (Spec/Deal.lean: valid cards, pairwise disjoint hands, each
  hand of 0 or 13 cards — the hypothesis of `C14.pbn_round_trip`) and any first seat: the translated `to_pbn` returns a
  text `s`, and the translated `convert_pbn` applied to `s` returns a `Hands` instance with the same four sets.  The PBN
  round trip of C14 entirely inside the translated code.
* `example`s at the end — (4): non-vacuity, concrete texts run by the kernel with the REAL regular-expression engine
  (no hypothesis).

## Hypotheses
* `hf : HandsRegexFacts` (Lemmas/RegexHandsFacts.lean; proved as `handsRegexFacts` in Lemmas/RegexHands.lean) — every
  theorem except the examples: what `re.match(DEAL_PATTERN, s)` / `re.match(HAND_PATTERN, f)` capture, stated with the
  model's scanners `dealFields?` / `matchGroups 3`.  Needed because both methods call `re.match` and this file does
  not reason about the engine.  The pattern texts there ARE the module constants of the translated program
  (`hp_glob_hand_pattern`, `hp_glob_deal_pattern`).
* `hnl : '\n' ∉ f` — only for `_hand_parser` called directly: `HandsRegexFacts.match_hand` is stated for such subjects
  (Python's `.` does not match a line feed, the model's separator does).  `convert_pbn` needs NO such hypothesis: a
  field that passed `DEAL_PATTERN` is `-` or 16 characters of `[2-9TJQKA.]` (`hp_field_no_nl`).
* `hd : PartialDeal h` — only for the round trip (see above).

The proofs are symbolic executions of the interpreter (HandsPbnLemmasB–C): the loop over the characters of a group by
induction, the loops over the four suits / four seats unrolled (by cases on the first seat and on the first field
`_hand_parser` rejects).  Fuel: every call lemma holds at `f + bound` for all `f`; `P.runMethod` uses 999.
-/
namespace Bridge.Translated.HandsPbn
open Bridge Bridge.Py Bridge.Generated.PyCore Bridge.Translated Bridge.RegexHands

theorem hp_runMethod_eq (c m : Id) (args : List Val) (cm : Id) (fd : FuncDef)
    (hm : P.method? classDepth c m = some (cm, fd)) : P.runMethod c m args = callF (mkRec P 999) fd args := by
  simp only [Program.runMethod, hm]; rfl

/-! ## (1) `Hands._hand_parser` -/
/-- the exact value: first-occurrence order -/
theorem hp_hand_parser_translated_eq (hf : HandsRegexFacts) (f : List Char) (hnl : '\n' ∉ f) :
    P.runMethod n_Hands n__hand_parser [.str f]
      = match pyHandParser? f with
        | some l => .ok (.tuple (l.map encCard), .str f)
        | none => .error (.exc K.Exception) := by
  rw [hp_runMethod_eq _ _ _ _ _ hp_mth_hand_parser]
  exact hp_hand_parser_call hf 969 f hnl

/-- the model and the interpreter agree on every field: both reject, or both hold the same set -/
theorem hp_py_cases (f : List Char) :
    (handParser? f = none ∧ pyHandParser? f = none) ∨
    (∃ c l, handParser? f = some c ∧ pyHandParser? f = some l ∧ l.Nodup ∧ l.Perm c) := by
  cases h : handParser? f with
  | none => exact Or.inl ⟨rfl, (hp_pyHandParser_none f).2 h⟩
  | some c =>
    obtain ⟨l, h1, h2, h3⟩ := hp_pyHandParser_some f c h
    exact Or.inr ⟨c, l, rfl, h1, h2, h3⟩

theorem hp_hand_parser_translated_some (hf : HandsRegexFacts) (f : List Char) (hnl : '\n' ∉ f) (cards : List Card)
    (h : handParser? f = some cards) :
    ∃ l : List Card, l.Nodup ∧ l.Perm cards ∧ P.runMethod n_Hands n__hand_parser [.str f] = .ok (.tuple (l.map encCard), .str f) := by
  obtain ⟨l, h1, h2, h3⟩ := hp_pyHandParser_some f cards h
  refine ⟨l, h2, h3, ?_⟩
  rw [hp_hand_parser_translated_eq hf f hnl, h1]

theorem hp_hand_parser_translated_none (hf : HandsRegexFacts) (f : List Char) (hnl : '\n' ∉ f) (h : handParser? f = none) :
    P.runMethod n_Hands n__hand_parser [.str f] = .error (.exc K.Exception) := by
  rw [hp_hand_parser_translated_eq hf f hnl, (hp_pyHandParser_none f).2 h]

/-- (1) -/
theorem hp_hand_parser_translated (hf : HandsRegexFacts) (f : List Char) (hnl : '\n' ∉ f) :
    match handParser? f with
    | some cards => ∃ l : List Card, l.Nodup ∧ l.Perm cards ∧
        P.runMethod n_Hands n__hand_parser [.str f] = .ok (.tuple (l.map encCard), .str f)
    | none => P.runMethod n_Hands n__hand_parser [.str f] = .error (.exc K.Exception) := by
  cases h : handParser? f with
  | none => exact hp_hand_parser_translated_none hf f hnl h
  | some cards => exact hp_hand_parser_translated_some hf f hnl cards h

/-! ## (2) `Hands.convert_pbn` -/
theorem hp_assemble_nodup (first : Seat) (l0 l1 l2 l3 : List Card) (n0 : l0.Nodup) (n1 : l1.Nodup) (n2 : l2.Nodup)
    (n3 : l3.Nodup) (p : Seat) : (assemble first l0 l1 l2 l3 p).Nodup := by
  unfold assemble
  split
  · exact n0
  · split
    · exact n1
    · split
      · exact n2
      · exact n3

theorem hp_assemble_same (first : Seat) (l0 l1 l2 l3 c0 c1 c2 c3 : List Card) (p0 : l0.Perm c0) (p1 : l1.Perm c1)
    (p2 : l2.Perm c2) (p3 : l3.Perm c3) : SameHands (assemble first l0 l1 l2 l3) (assemble first c0 c1 c2 c3) := by
  intro p
  unfold assemble
  split
  · exact p0
  · split
    · exact p1
    · split
      · exact p2
      · exact p3

theorem hp_convert_pbn_translated_some (hf : HandsRegexFacts) (s : List Char) (h : Hands) (hs : convertPbn? s = some h) :
    ∃ h' : Hands, (∀ p, (h' p).Nodup) ∧ SameHands h' h ∧
      P.runMethod n_Hands n_convert_pbn [.cls n_Hands, .str s] = .ok (encHands h', .cls n_Hands) := by
  rw [hp_runMethod_eq _ _ _ _ _ hp_mth_convert_pbn]
  cases hd : dealFields? s with
  | none => rw [hp_dealFields_none s hd] at hs; cases hs
  | some fl =>
    obtain ⟨c, h0, h1, h2, h3, first, rfl, hfirst, n0, n1, n2, n3, hconv⟩ := hp_dealFields_some s fl hd
    rw [hconv] at hs
    rw [hp_convert_pbn_call_match hf 949 (.cls n_Hands) s c h0 h1 h2 h3 first hd hfirst n0 n1 n2 n3]
    rcases hp_py_cases h0 with ⟨a0, b0⟩ | ⟨c0, l0, a0, b0, d0, q0⟩ <;>
    rcases hp_py_cases h1 with ⟨a1, b1⟩ | ⟨c1, l1, a1, b1, d1, q1⟩ <;>
    rcases hp_py_cases h2 with ⟨a2, b2⟩ | ⟨c2, l2, a2, b2, d2, q2⟩ <;>
    rcases hp_py_cases h3 with ⟨a3, b3⟩ | ⟨c3, l3, a3, b3, d3, q3⟩ <;>
    simp only [a0, a1, a2, a3, reduceCtorEq, Option.some.injEq] at hs
    subst hs
    simp only [b0, b1, b2, b3]
    exact ⟨assemble first l0 l1 l2 l3, hp_assemble_nodup first l0 l1 l2 l3 d0 d1 d2 d3,
      hp_assemble_same first l0 l1 l2 l3 c0 c1 c2 c3 q0 q1 q2 q3, rfl⟩

theorem hp_convert_pbn_translated_none (hf : HandsRegexFacts) (s : List Char) (hs : convertPbn? s = none) :
    P.runMethod n_Hands n_convert_pbn [.cls n_Hands, .str s] = .error (.exc K.Exception) := by
  rw [hp_runMethod_eq _ _ _ _ _ hp_mth_convert_pbn]
  cases hd : dealFields? s with
  | none => exact hp_convert_pbn_call_nomatch hf 949 _ s hd
  | some fl =>
    obtain ⟨c, h0, h1, h2, h3, first, rfl, hfirst, n0, n1, n2, n3, hconv⟩ := hp_dealFields_some s fl hd
    rw [hconv] at hs
    rw [hp_convert_pbn_call_match hf 949 (.cls n_Hands) s c h0 h1 h2 h3 first hd hfirst n0 n1 n2 n3]
    rcases hp_py_cases h0 with ⟨a0, b0⟩ | ⟨c0, l0, a0, b0, d0, q0⟩ <;>
    rcases hp_py_cases h1 with ⟨a1, b1⟩ | ⟨c1, l1, a1, b1, d1, q1⟩ <;>
    rcases hp_py_cases h2 with ⟨a2, b2⟩ | ⟨c2, l2, a2, b2, d2, q2⟩ <;>
    rcases hp_py_cases h3 with ⟨a3, b3⟩ | ⟨c3, l3, a3, b3, d3, q3⟩ <;>
    first
      | (simp only [a0, a1, a2, a3, reduceCtorEq] at hs; done)
      | simp only [b0, b1, b2, b3]

/-- (2) -/
theorem hp_convert_pbn_translated (hf : HandsRegexFacts) (s : List Char) :
    match convertPbn? s with
    | some h => ∃ h' : Hands, (∀ p, (h' p).Nodup) ∧ SameHands h' h ∧
        P.runMethod n_Hands n_convert_pbn [.cls n_Hands, .str s] = .ok (encHands h', .cls n_Hands)
    | none => P.runMethod n_Hands n_convert_pbn [.cls n_Hands, .str s] = .error (.exc K.Exception) := by
  cases h : convertPbn? s with
  | none => exact hp_convert_pbn_translated_none hf s h
  | some hh => exact hp_convert_pbn_translated_some hf s hh h

/-! ## (3) the PBN round trip inside the translated code -/
theorem hp_pbn_round_trip_translated (hf : HandsRegexFacts) (h : Hands) (hd : PartialDeal h) (first : Seat) :
    ∃ (s : List Char) (h' : Hands), P.runMethod n_Hands n_to_pbn [encHands h, encSeat first] = .ok (.str s, encHands h) ∧
      P.runMethod n_Hands n_convert_pbn [.cls n_Hands, .str s] = .ok (encHands h', .cls n_Hands) ∧
      (∀ p, (h' p).Nodup) ∧ SameHands h' h := by
  obtain ⟨s, hs, h1, hc, hsame⟩ := C14.pbn_round_trip h hd first
  obtain ⟨h', hn, hp, hrun⟩ := hp_convert_pbn_translated_some hf s h1 hc
  refine ⟨s, h', ?_, hrun, hn, fun p => (hp p).trans (hsame p)⟩
  exact hands_to_pbn_translated h first
    (fun p _ c hc => ⟨(hands_ok_card (hd.ok p c hc)).1, (hands_ok_card (hd.ok p c hc)).2.1⟩) s hs

/-! ## (4) non-vacuity: the real engine, no hypothesis -/
/-- what a run returned, compared with Python's `==` -/
def returns (r : R (Val × Val)) (v : Val) : Bool :=
  match r with
  | .ok (x, _) => x.beq v
  | .error _ => false

/-- a 13-card North hand and three unknown hands -/
example :
    returns (P.runMethod n_Hands n_convert_pbn [.cls n_Hands, .str "N:AKQJ.T98.765.432 - - -".toList])
      (encHands fun p => if p = .N then
        [⟨14, .S⟩, ⟨13, .S⟩, ⟨12, .S⟩, ⟨11, .S⟩, ⟨10, .H⟩, ⟨9, .H⟩, ⟨8, .H⟩, ⟨7, .D⟩, ⟨6, .D⟩, ⟨5, .D⟩, ⟨4, .C⟩, ⟨3, .C⟩,
         ⟨2, .C⟩] else []) = true := by
  decide +kernel

/-- the first seat rotates: `E:` puts the first field into `east`; a repeated rank character is kept once -/
example :
    returns (P.runMethod n_Hands n_convert_pbn [.cls n_Hands, .str "E:AA.KK.QQ.JJTT998 - - -".toList])
      (encHands fun p => if p = .E then [⟨14, .S⟩, ⟨13, .H⟩, ⟨12, .D⟩, ⟨11, .C⟩, ⟨10, .C⟩, ⟨9, .C⟩, ⟨8, .C⟩] else [])
      = true := by
  decide +kernel

/-- a text that does not match `DEAL_PATTERN` -/
example : (P.runMethod n_Hands n_convert_pbn [.cls n_Hands, .str "N:AKQJ.T98.765.432 - -".toList]).exc? = some K.Exception := by
  decide +kernel

/-- `HAND_PATTERN`'s separators are unescaped dots (any character): a field of 16 rank characters passes both patterns, the
last three characters are eaten as separators -/
example :
    returns (P.runMethod n_Hands n_convert_pbn [.cls n_Hands, .str "N:AKQJT98765432AKQ - - -".toList])
      (encHands fun p => if p = .N then
        [⟨14, .S⟩, ⟨13, .S⟩, ⟨12, .S⟩, ⟨11, .S⟩, ⟨10, .S⟩, ⟨9, .S⟩, ⟨8, .S⟩, ⟨7, .S⟩, ⟨6, .S⟩, ⟨5, .S⟩, ⟨4, .S⟩, ⟨3, .S⟩,
         ⟨2, .S⟩] else []) = true := by
  decide +kernel

/-- `_hand_parser` called directly: a hand, and a text with fewer than three characters to serve as separators (`Exception`) -/
example :
    returns (P.runMethod n_Hands n__hand_parser [.str "AK.Q.J.T".toList])
      (.tuple ([⟨14, .S⟩, ⟨13, .S⟩, ⟨12, .H⟩, ⟨11, .D⟩, ⟨10, .C⟩].map encCard)) = true := by
  decide +kernel
example : (P.runMethod n_Hands n__hand_parser [.str "AK".toList]).exc? = some K.Exception := by
  decide +kernel

end Bridge.Translated.HandsPbn
