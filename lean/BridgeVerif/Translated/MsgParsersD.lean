import BridgeVerif.Translated.MsgParsersC
/-! Translated `MessageInterface.parse_bid` (socket_interface.py) = model, part D: `parse_bid(content, formal_name)` returns the
encoding of the call `parseBid? content formal_name` reads — for EVERY ASCII text, every seat's name, every fuel ≥ 22. -/
set_option maxRecDepth 4000
namespace Bridge.Translated.MsgParsers
open Bridge Bridge.Py Bridge.Generated.PyCore Bridge.Translated Bridge.RegexHands Bridge.RegexMsgBid
open Bridge.Translated.HandsPbn

/-- `match.group(i)` on a match object with three texts -/
theorem mp_group_call3 (f : Nat) (x0 x1 x2 : Val) (i : Int) (k : Nat) (h : normIndex 3 i = some k) :
    callF (mkRec P (f+6)) m__Match_group [.obj n__Match [(n_texts, .tuple [x0, x1, x2])], .int i]
      = .ok ([x0, x1, x2].getD k .none, .obj n__Match [(n_texts, .tuple [x0, x1, x2])]) := by
  rw [callF_def]
  simp only [m__Match_group, bindParams, Option.map]
  ppsimp [index_tuple, h]

theorem mp_builtin_int (r : Rec) (s : List Char) (n : Int) (h : parseInt? s = some n) :
    builtinF r P .int [.str s] = .ok (.int n) := by
  simp only [builtinF, h]; rfl

theorem mp_digit (d : Char) (h : Bridge.isDigit d = true) :
    digitVal? d = some (d.toNat - '0'.toNat) ∧ d.toNat - '0'.toNat < 10 := by
  simp only [Bridge.isDigit, decide_eq_true_eq] at h
  refine ⟨by simp [digitVal?, h], ?_⟩
  have h2 : d.toNat ≤ '9'.toNat := h.2
  have : '9'.toNat = 57 := rfl
  have : '0'.toNat = 48 := rfl
  omega

theorem mp_mth_parse_bid : P.method? classDepth n_MessageInterface n_parse_bid
    = some (n_MessageInterface, m_MessageInterface_parse_bid) := rfl

theorem mp_wordCall_some (content name : List Char) (call : Call) (h : wordCall? content name = some call) :
    ∃ r, stripPrefixCI (name ++ [' ']) content = some r ∧
      ((lowerS (r.takeWhile (· ≠ '\n')) = "passes".toList ∧ call = .pass) ∨
       (lowerS (r.takeWhile (· ≠ '\n')) ≠ "passes".toList ∧ lowerS (r.takeWhile (· ≠ '\n')) = "doubles".toList ∧ call = .dbl) ∨
       (lowerS (r.takeWhile (· ≠ '\n')) ≠ "passes".toList ∧ lowerS (r.takeWhile (· ≠ '\n')) ≠ "doubles".toList ∧
          lowerS (r.takeWhile (· ≠ '\n')) = "redoubles".toList ∧ call = .rdbl)) := by
  unfold wordCall? at h
  split at h
  · cases h
  · rename_i r hr
    refine ⟨r, hr, ?_⟩
    simp only at h
    split at h
    · rename_i h1; cases h; exact Or.inl ⟨h1, rfl⟩
    · rename_i h1
      split at h
      · rename_i h2; cases h; exact Or.inr (Or.inl ⟨h1, h2, rfl⟩)
      · rename_i h2
        split at h
        · rename_i h3; cases h; exact Or.inr (Or.inr ⟨h1, h2, h3, rfl⟩)
        · cases h

/-- `parse_bid(content, formal_name)` when the model reads the call `call` -/
theorem mp_parse_bid_call (f : Nat) (content : List Char) (hs : ∀ x ∈ content, x.toNat < 128) (p : Seat) (call : Call)
    (h : parseBid? content p.formal = some call) :
    (callF (mkRec P (f+21)) m_MessageInterface_parse_bid [.str content, .str p.formal]).map (·.1) = .ok (encCall call) := by
  rw [mp_parseBid_eq] at h
  have hfact := match_bids_ascii p content hs
  have hpat : p.formal.append ([' ', 'b', 'i', 'd', 's', ' ', '(', '\\', 'd', ')', '(', 'C', '|', 'D', '|', 'H', '|', 'S', '|', 'N', 'T', ')'].append [])
      = bidsPat p.formal := by cases p <;> rfl
  have hpat2 : p.formal.append ([' ', '(', '.', '*', ')'].append []) = namePat p.formal := by cases p <;> rfl
  rw [callF_def]
  simp only [m_MessageInterface_parse_bid, bindParams, Option.map]
  cases hb : (stripPrefixCI (p.formal ++ " bids ".toList) content).bind bidTail with
  | some gs =>
    rw [hb] at h hfact
    have hr : ∃ r, stripPrefixCI (p.formal ++ " bids ".toList) content = some r ∧ bidTail r = some gs := by
      cases hr : stripPrefixCI (p.formal ++ " bids ".toList) content with
      | none => rw [hr] at hb; cases hb
      | some r => rw [hr] at hb; exact ⟨r, rfl, hb⟩
    obtain ⟨r, hr1, hr2⟩ := hr
    obtain ⟨d, g, rfl, hd, hgr, hshape⟩ := mp_bidTail_shape r gs hr2
    have hrs : ∀ x ∈ r, x ∈ content := by
      intro x hx
      have := (strip_spec _ _ _ hr1).1
      rw [← this] at hx
      exact List.mem_of_mem_drop hx
    have hsu := mp_suit_text g (fun x hx => hs x (hrs x (hgr x hx))) hshape
    simp only at h
    obtain ⟨hdv, hlt⟩ := mp_digit d hd
    have hint := fun (rr : Rec) => mp_builtin_int rr [d] _ (jp_digit_parse d _ hdv)
    have hcall := fun k => mp_lstb_call k (suitOfG g) _ hlt call h
    obtain ⟨g0, hre⟩ := mp_reMatch_some (bidsPat p.formal) content [[d], g] hfact
    simp only [List.map_cons, List.map_nil] at hre
    ppsimp [mapR, strOfF, List.flatten, hpat, hre, hp_truthy_obj, hp_mth_group,
      mp_group_call3 _ _ _ _ _ _ (by decide : normIndex 3 1 = some 1),
      mp_group_call3 _ _ _ _ _ _ (by decide : normIndex 3 2 = some 2), List.getD_cons_succ, List.getD_cons_zero,
      hint, mp_builtin_upper, jp_cls_Suit, jp_member_suit _ _ hsu, mp_mth_lstb, hcall, Except.map]
  | none =>
    rw [hb] at h hfact
    simp only at h
    obtain ⟨r, hr, hw⟩ := mp_wordCall_some content p.formal call h
    have hfact2 := match_name p content (fun x hx => agree_ascii x (hs x hx))
    rw [hr] at hfact2
    obtain ⟨g0, hpmb⟩ := mp_pmb_some (namePat p.formal) content [r.takeWhile (· ≠ '\n')] hfact2
    have hre := fun (rr : Rec) => mp_reMatch_none rr (bidsPat p.formal) content hfact
    rcases hw with ⟨h1, rfl⟩ | ⟨h1, h2, rfl⟩ | ⟨h1, h2, h3, rfl⟩
    · ppsimp [mapR, strOfF, List.flatten, hpat, hpat2, hre, hp_truthy_none, mp_mth_pmb, hpmb, List.map_cons, List.map_nil,
        hp_mth_group, mp_group_call2 _ _ _ _ _ (by decide : normIndex 2 1 = some 1), List.getD_cons_succ, List.getD_cons_zero,
        mp_builtin_lower, jp_beq_str', h1, Except.map]
      rfl
    · ppsimp [mapR, strOfF, List.flatten, hpat, hpat2, hre, hp_truthy_none, mp_mth_pmb, hpmb, List.map_cons, List.map_nil,
        hp_mth_group, mp_group_call2 _ _ _ _ _ (by decide : normIndex 2 1 = some 1), List.getD_cons_succ, List.getD_cons_zero,
        mp_builtin_lower, jp_beq_str', h1, h2, Except.map]
      rfl
    · ppsimp [mapR, strOfF, List.flatten, hpat, hpat2, hre, hp_truthy_none, mp_mth_pmb, hpmb, List.map_cons, List.map_nil,
        hp_mth_group, mp_group_call2 _ _ _ _ _ (by decide : normIndex 2 1 = some 1), List.getD_cons_succ, List.getD_cons_zero,
        mp_builtin_lower, jp_beq_str', h1, h2, h3, Except.map]
      rfl

/-- TRANSLATED `parse_bid` = MODEL, for every ASCII text, every seat's formal name, every fuel ≥ 22: whenever the model's
`parseBid?` reads a call, the generated `MessageInterface.parse_bid` returns its encoding (the shape `BidMsgsOK` asks) -/
theorem parse_bid_translated_ascii (content : List Char) (hs : ∀ x ∈ content, x.toNat < 128) (p : Seat) (call : Call)
    (h : parseBid? content p.formal = some call) :
    ∀ f, 22 ≤ f →
      (callFn P f m_MessageInterface_parse_bid [.str content, .str p.formal]).map (·.1) = .ok (encCall call) := by
  intro f hf
  obtain ⟨g, rfl⟩ : ∃ g, f = g + 22 := ⟨f - 22, by omega⟩
  exact mp_parse_bid_call g content hs p call h

end Bridge.Translated.MsgParsers
