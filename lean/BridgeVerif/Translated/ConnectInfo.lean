import BridgeVerif.Translated.ConnectInfoA
/-!
# The TRANSLATED `PlayerThread.parse_connection_info` IS `parseConnect?`

`m_PlayerThread_parse_connection_info` (Generated/PyCoreNet.lean; `server.py`: `re.match(r'Connecting "(.*)" as (.*) using
protocol version (\d+)', content, re.IGNORECASE)`, `Player.convert_formal_name(group(2).capitalize())`, `int(group(3))`)
executed SYMBOLICALLY by the MiniPy interpreter in the whole translated program `P`, its `re.match` being the generic
regular-expression engine (`RegexConnect.match_connect`).  For EVERY request text whose characters are in the class
`RegexConnect.agree` (every ASCII text is), at EVERY fuel ≥ 31:

* `parseConnect? req = some (team, p, v)` : the call returns `(team, Player p, v)`, the state returned is `.str req`;
* `parseConnect? req = none` : the call raises — `Exception` when the text does not match the pattern, `ValueError`
  (from `convert_formal_name`) when it matches but the seat text is no seat name; `int()` never raises here (group 3
  is a non-empty run of ASCII digits).
-/
set_option maxRecDepth 4000
namespace Bridge.Translated.ConnectInfo
open Bridge Bridge.Py Bridge.Generated.PyCore Bridge.RegexConnect Bridge.Translated

theorem pat_eq : (['C', 'o', 'n', 'n', 'e', 'c', 't', 'i', 'n', 'g', ' ', '"', '(', '.', '*', ')', '"', ' ', 'a', 's', ' ', '(', '.', '*', ')', ' ', 'u', 's', 'i', 'n', 'g', ' ', 'p', 'r', 'o', 't', 'o', 'c', 'o', 'l', ' ', 'v', 'e', 'r', 's', 'i', 'o', 'n', ' ', '(', '\\', 'd', '+', ')'] : List Char) = CONNECT_PATTERN := by decide +kernel

theorem str_beq (a b : Str) : (Val.str a).beq (.str b) = (a == b) := by simp only [Val.beq]

/-- `Player.convert_formal_name` on a text that is none of the four names raises `ValueError` -/
theorem convert_formal_fail (f : Nat) (m : Str) (h : seatOfFormal? m = none) :
    callF (mkRec P (f+12)) m_Player_convert_formal_name [.cls n_Player, .str m] = .error (.exc K.ValueError) := by
  unfold seatOfFormal? at h
  have h1 : m ≠ "North".toList := fun e => by rw [if_pos e] at h; cases h
  rw [if_neg h1] at h
  have h2 : m ≠ "East".toList := fun e => by rw [if_pos e] at h; cases h
  rw [if_neg h2] at h
  have h3 : m ≠ "South".toList := fun e => by rw [if_pos e] at h; cases h
  rw [if_neg h3] at h
  have h4 : m ≠ "West".toList := fun e => by rw [if_pos e] at h; cases h
  have b1 : (m == ['N', 'o', 'r', 't', 'h']) = false := beq_eq_false_iff_ne.mpr h1
  have b2 : (m == ['E', 'a', 's', 't']) = false := beq_eq_false_iff_ne.mpr h2
  have b3 : (m == ['S', 'o', 'u', 't', 'h']) = false := beq_eq_false_iff_ne.mpr h3
  have b4 : (m == ['W', 'e', 's', 't']) = false := beq_eq_false_iff_ne.mpr h4
  rw [callF_def]
  simp only [m_Player_convert_formal_name]
  ppsimp [str_beq, b1, b2, b3, b4]

theorem m_group_call3 (f : Nat) (g0 g1 g2 g3 : Val) (gs : List Val) :
    callF (mkRec P (f+6)) m__Match_group [.obj n__Match [(n_texts, .tuple (g0 :: g1 :: g2 :: g3 :: gs))], .int 3]
      = .ok (g3, .obj n__Match [(n_texts, .tuple (g0 :: g1 :: g2 :: g3 :: gs))]) := rfl

/-- no match: `raise Exception` -/
theorem exec_nomatch (f : Nat) (req : Str) (hreq : ∀ x ∈ req, agree x = true) (h : connectTriple? req = none) :
    callF (mkRec P (f+30)) m_PlayerThread_parse_connection_info [.str req] = .error (.exc K.Exception) := by
  have hb := reMatch_connect req hreq
  rw [h] at hb
  rw [callF_def]
  simp only [m_PlayerThread_parse_connection_info]
  rw [pat_eq]
  ppsimp [hb, pp_truthy_none]

/-- a match whose seat text (capitalized) is a seat name -/
theorem exec_match (f : Nat) (req : Str) (hreq : ∀ x ∈ req, agree x = true) (team seat ds : Str)
    (h : connectTriple? req = some (team, seat, ds)) (p : Seat) (hp : seatOfFormal? (capitalizeA seat) = some p) :
    callF (mkRec P (f+30)) m_PlayerThread_parse_connection_info [.str req]
      = .ok (.tuple [.str team, encSeat p, .int (digitsVal ds)], .str req) := by
  have hb := reMatch_connect req hreq
  rw [h] at hb
  obtain ⟨g0, hb⟩ := hb
  obtain ⟨hd1, hd2⟩ := triple_digits req team seat ds h
  have hcv := seatOfFormal_eq hp
  rw [callF_def]
  simp only [m_PlayerThread_parse_connection_info]
  rw [pat_eq]
  ppsimp [hb, pp_truthy_obj, pp_mth_m_group, pp_m_group_call1, pp_m_group_call2, m_group_call3, capitalize_builtin,
    hcv, st_mth_convert, st_convert_formal_call, pp_int_str _ ds _ (parseInt_of_digits ds hd1 hd2)]

/-- a match whose seat text is no seat name: `convert_formal_name` raises `ValueError` -/
theorem exec_badseat (f : Nat) (req : Str) (hreq : ∀ x ∈ req, agree x = true) (team seat ds : Str)
    (h : connectTriple? req = some (team, seat, ds)) (hp : seatOfFormal? (capitalizeA seat) = none) :
    callF (mkRec P (f+30)) m_PlayerThread_parse_connection_info [.str req] = .error (.exc K.ValueError) := by
  have hb := reMatch_connect req hreq
  rw [h] at hb
  obtain ⟨g0, hb⟩ := hb
  rw [callF_def]
  simp only [m_PlayerThread_parse_connection_info]
  rw [pat_eq]
  ppsimp [hb, pp_truthy_obj, pp_mth_m_group, pp_m_group_call1, pp_m_group_call2, m_group_call3, capitalize_builtin,
    st_mth_convert, convert_formal_fail _ _ hp]

/-- what the translated method computes, in one statement -/
def connectResult (req : Str) : R (Val × Val) :=
  match connectTriple? req with
  | none => .error (.exc K.Exception)
  | some (team, seat, ds) =>
    match seatOfFormal? (capitalizeA seat) with
    | none => .error (.exc K.ValueError)
    | some p => .ok (.tuple [.str team, encSeat p, .int (digitsVal ds)], .str req)

/-- THE TRANSLATED METHOD, at every fuel ≥ 31, on every request text in the class -/
theorem parse_connection_info_translated (req : Str) (hreq : ∀ x ∈ req, agree x = true) (g : Nat) (hg : 31 ≤ g) :
    callFn P g m_PlayerThread_parse_connection_info [.str req] = connectResult req := by
  refine st_callFn_of_callF (K := 30) (fun f => ?_) g hg
  unfold connectResult
  cases h : connectTriple? req with
  | none => exact exec_nomatch f req hreq h
  | some x =>
    obtain ⟨team, seat, ds⟩ := x
    cases hp : seatOfFormal? (capitalizeA seat) with
    | none => simp only [hp]; exact exec_badseat f req hreq team seat ds h hp
    | some p => simp only [hp]; exact exec_match f req hreq team seat ds h p hp

/-- `parseConnect?` in terms of the scanner's triple -/
theorem parseConnect_some_iff (req team : Str) (p : Seat) (v : Nat) (h : parseConnect? req = some (team, p, v)) :
    ∃ seat ds, connectTriple? req = some (team, seat, ds) ∧ seatOfFormal? (capitalizeA seat) = some p ∧
      digitsVal ds = v := by
  rw [parseConnect_eq_triple] at h
  cases ht : connectTriple? req with
  | none => rw [ht] at h; cases h
  | some x =>
    obtain ⟨team', seat, ds⟩ := x
    rw [ht] at h
    obtain ⟨hd1, hd2⟩ := triple_digits req team' seat ds ht
    simp only [Option.bind_some, decimal_of_digits ds hd1 hd2] at h
    cases hp : seatOfFormal? (capitalizeA seat) with
    | none => rw [hp] at h; cases h
    | some p' =>
      rw [hp] at h
      simp only [Option.some.injEq, Prod.mk.injEq] at h
      obtain ⟨rfl, rfl, rfl⟩ := h
      exact ⟨seat, ds, rfl, hp, rfl⟩

/-- (B, success) the model reads the request as `(team, p, v)`: so does the translated method, at every fuel ≥ 31 -/
theorem parse_connection_info_ok (req : Str) (hreq : ∀ x ∈ req, agree x = true) (team : Str) (p : Seat) (v : Nat)
    (h : parseConnect? req = some (team, p, v)) (g : Nat) (hg : 31 ≤ g) :
    callFn P g m_PlayerThread_parse_connection_info [.str req]
      = .ok (.tuple [.str team, encSeat p, .int v], .str req) := by
  obtain ⟨seat, ds, ht, hp, rfl⟩ := parseConnect_some_iff req team p v h
  rw [parse_connection_info_translated req hreq g hg]
  unfold connectResult
  rw [ht]
  simp only [hp]

/-- (B, failure) the model refuses the request: the translated method raises — `Exception` (no match) or `ValueError`
(`convert_formal_name` on an unknown seat name) -/
theorem parse_connection_info_raises (req : Str) (hreq : ∀ x ∈ req, agree x = true)
    (h : parseConnect? req = none) (g : Nat) (hg : 31 ≤ g) :
    (connectTriple? req = none ∧
      callFn P g m_PlayerThread_parse_connection_info [.str req] = .error (.exc K.Exception)) ∨
    ((connectTriple? req).isSome = true ∧
      callFn P g m_PlayerThread_parse_connection_info [.str req] = .error (.exc K.ValueError)) := by
  rw [parse_connection_info_translated req hreq g hg]
  unfold connectResult
  rw [parseConnect_eq_triple] at h
  cases ht : connectTriple? req with
  | none => exact .inl ⟨rfl, rfl⟩
  | some x =>
    obtain ⟨team, seat, ds⟩ := x
    rw [ht] at h
    obtain ⟨hd1, hd2⟩ := triple_digits req team seat ds ht
    simp only [Option.bind_some, decimal_of_digits ds hd1 hd2] at h
    cases hp : seatOfFormal? (capitalizeA seat) with
    | none => exact .inr ⟨rfl, by simp only [hp]⟩
    | some p => rw [hp] at h; cases h

/-- for ASCII request texts -/
theorem parse_connection_info_ok_ascii (req : Str) (hreq : ∀ x ∈ req, x.toNat < 128) (team : Str) (p : Seat) (v : Nat)
    (h : parseConnect? req = some (team, p, v)) (g : Nat) (hg : 31 ≤ g) :
    callFn P g m_PlayerThread_parse_connection_info [.str req]
      = .ok (.tuple [.str team, encSeat p, .int v], .str req) :=
  parse_connection_info_ok req (fun x hx => agree_ascii x (hreq x hx)) team p v h g hg

/-! ### non-vacuity -/
example : callFn P 31 m_PlayerThread_parse_connection_info [.str "CONNECTING \"Team \"A\"\" as wEsT using PROTOCOL version 018 x".toList]
    = .ok (.tuple [.str "Team \"A\"".toList, encSeat .W, .int 18],
        .str "CONNECTING \"Team \"A\"\" as wEsT using PROTOCOL version 018 x".toList) :=
  parse_connection_info_ok_ascii _ (by decide +kernel) _ .W 18 (by decide +kernel) 31 (Nat.le_refl _)
example : callFn P 31 m_PlayerThread_parse_connection_info [.str "Connecting \"A\" as Nord using protocol version 18".toList]
    = .error (.exc K.ValueError) := by
  have := parse_connection_info_raises "Connecting \"A\" as Nord using protocol version 18".toList
    (fun x hx => agree_ascii x (by revert x; decide +kernel)) (by decide +kernel) 31 (Nat.le_refl _)
  rcases this with ⟨h, _⟩ | ⟨_, h⟩
  · exact absurd h (by decide +kernel)
  · exact h

end Bridge.Translated.ConnectInfo
