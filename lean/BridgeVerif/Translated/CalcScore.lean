import BridgeVerif.Translated.Score
/-!
# `calc_score(contract, taken_tricks)` AS TRANSLATED is the duplicate scoring law from declarer's side  (C07)

`calc_score` is the public entry of `bridge_env/score.py`: it reads `final_bid`, `x`, `xx` of the `Contract`, asks
`contract.is_vul()` (which asks `declarer.is_vul(vul)`, i.e. `declarer.pair.is_vul(vul)`) and hands all that to
`calc_bid_score`.  The theorems are about `Generated/PyCoreBase.lean` (re-written from the source on every run), executed by
the MiniPy interpreter:

* the two small methods `Contract.is_passed_out` and `Contract.is_vul` are evaluated on their whole (finite) domain of
  vulnerabilities and declarers, for EVERY sufficiently large fuel;
* the body of `calc_score` is executed SYMBOLICALLY, statement by statement, at an arbitrary fuel `f + 120`;
* the nested call of `calc_bid_score` is rewritten with `calc_bid_score_any_fuel` (Score.lean: kernel evaluation on the
  whole domain, lifted to any fuel by `mkRec_mono`).
-/
namespace Bridge.Translated
open Bridge Bridge.Py Bridge.Generated.PyCore

/-! one level of fuel unfolds one level of the interpreter -/
section unfold
variable (P : Program) (f : Nat)
theorem cs_eval (env : Env) (e : Expr) : (mkRec P (f + 1)).eval env e = evalF (mkRec P f) P env e := rfl
theorem cs_exec (env : Env) (ss : List Stmt) : (mkRec P (f + 1)).exec env ss = execF (mkRec P f) P env ss := rfl
theorem cs_call (fd : FuncDef) (args : List Val) : (mkRec P (f + 1)).call fd args = callF (mkRec P f) fd args := rfl
end unfold

/-! what the names resolve to in the translated program -/
theorem passed_out_method :
    PB.method? classDepth n_Contract n_is_passed_out = some (n_Contract, m_Contract_is_passed_out) := rfl
theorem is_vul_method : PB.method? classDepth n_Contract n_is_vul = some (n_Contract, m_Contract_is_vul) := rfl
theorem calc_bid_score_func : findFunc PB.funcs n_calc_bid_score = some f_calc_bid_score := rfl
theorem calc_score_func : findFunc PB.funcs n_calc_score = some f_calc_score := rfl

/-! reading an encoded `Contract` (whatever the fuel: these attributes are stored fields, no property is called) -/
section attrs
variable (r : Rec) (c : Contract)
theorem attr_final_bid : getAttrF r PB (encContract c) n_final_bid = .ok (encOpt encBid c.finalBid) := rfl
theorem attr_x : getAttrF r PB (encContract c) n_x = .ok (.bool c.x) := rfl
theorem attr_xx : getAttrF r PB (encContract c) n_xx = .ok (.bool c.xx) := rfl
/-- a method call on an encoded `Contract` is dispatched to class `Contract` -/
theorem methF_contract (m : Id) (args : List Val) :
    methF r PB (encContract c) m args = callMethod r PB n_Contract m (encContract c :: args) (.exc K.AttributeError) := rfl
end attrs

theorem beq_bid_pass (b : Fin 35) : (encBid b).beq (.enum n_Bid 36) = false := by simp [encBid, Val.beq]; omega
theorem beq_bid_none (b : Fin 35) : (encBid b).beq .none = false := by simp [encBid, Val.beq]

/-! ## the two methods of `Contract` that `calc_score` calls -/

/-- `Contract.is_passed_out()`: `final_bid is Bid.Pass or final_bid is None`; `self` is left as it was -/
theorem passed_out_call (g : Nat) (hg : 10 ≤ g) (ob : Option (Fin 35)) (x xx : Bool) (v : Vul) (d : Option Seat) :
    (mkRec PB g).call m_Contract_is_passed_out [encContract ⟨ob, x, xx, v, d⟩]
      = .ok (.bool ob.isNone, encContract ⟨ob, x, xx, v, d⟩) := by
  obtain ⟨f, rfl⟩ : ∃ f, g = f + 10 := ⟨g - 10, by omega⟩
  cases ob with
  | none => with_unfolding_all rfl
  | some b =>
    simp [cs_call, cs_exec, cs_eval, callF, m_Contract_is_passed_out, bindParams, execF, execStmtF, evalF, attr_final_bid,
      encOpt, lookup, cmpF, beq_bid_pass, beq_bid_none, truthy, bind, Except.bind, pure, Except.pure]

/-- `Contract.is_vul()` with a declarer: the vulnerability of DECLARER'S SIDE (4 vulnerabilities × 4 seats, each one
evaluated through `Player.is_vul` → `Player.pair` → `Pair.is_vul`) -/
theorem is_vul_call_some (g : Nat) (hg : 30 ≤ g) (ob : Option (Fin 35)) (x xx : Bool) (v : Vul) (d : Seat) :
    (mkRec PB g).call m_Contract_is_vul [encContract ⟨ob, x, xx, v, some d⟩]
      = .ok (.bool (sideVulnerable v d), encContract ⟨ob, x, xx, v, some d⟩) := by
  obtain ⟨f, rfl⟩ : ∃ f, g = f + 30 := ⟨g - 30, by omega⟩
  cases v <;> cases d <;> with_unfolding_all rfl

/-- `Contract.is_vul()` without a declarer: `False` / `True` when nobody / everybody is vulnerable, else `ValueError` -/
theorem is_vul_call_none (g : Nat) (hg : 30 ≤ g) (ob : Option (Fin 35)) (x xx : Bool) (v : Vul) :
    (mkRec PB g).call m_Contract_is_vul [encContract ⟨ob, x, xx, v, none⟩]
      = match v with
        | .none => .ok (.bool false, encContract ⟨ob, x, xx, v, none⟩)
        | .both => .ok (.bool true, encContract ⟨ob, x, xx, v, none⟩)
        | _ => .error (.exc K.ValueError) := by
  obtain ⟨f, rfl⟩ : ∃ f, g = f + 30 := ⟨g - 30, by omega⟩
  cases v <;> with_unfolding_all rfl

/-! ## the body of `calc_score`, executed symbolically at fuel `f + 120` -/

/-- a passed-out contract: the first statement returns 0 (neither `is_vul` nor `calc_bid_score` is reached) -/
theorem calc_score_call_passed_out (x xx : Bool) (v : Vul) (od : Option Seat) (a : Val) (f : Nat) :
    (mkRec PB (f + 120)).call f_calc_score [encContract ⟨none, x, xx, v, od⟩, a]
      = .ok (.int 0, encContract ⟨none, x, xx, v, od⟩) := by
  have hp := passed_out_call (f + 117) (by omega) none x xx v od
  rw [cs_call]
  simp [cs_exec, cs_eval, callF, f_calc_score, bindParams, execF, execStmtF, evalF, methF_contract, callMethod,
    passed_out_method, mapR, truthy, lookup, n_contract, n_taken_tricks, bind, Except.bind, pure, Except.pure, hp]

/-- a contract with a final bid, when `contract.is_vul()` returns `vul`: the result is `calc_bid_score`'s, which is the law -/
theorem calc_score_call_ok (b : Fin 35) (x xx : Bool) (v : Vul) (od : Option Seat) (t : Nat) (ht : t ≤ 13) (f : Nat)
    (vul : Bool) (s : Val)
    (hv : (mkRec PB (f + 116)).call m_Contract_is_vul [encContract ⟨some b, x, xx, v, od⟩] = .ok (.bool vul, s)) :
    (mkRec PB (f + 120)).call f_calc_score [encContract ⟨some b, x, xx, v, od⟩, .int t]
      = .ok (.int (dupScore (bidLevel b) (bidDenom b) (status x xx) vul t), encContract ⟨some b, x, xx, v, od⟩) := by
  have hp := passed_out_call (f + 117) (by omega) (some b) x xx v od
  obtain ⟨s', hc⟩ := calc_bid_score_any_fuel b x xx vul t ht (f + 117) (by omega)
  unfold callFn at hc
  rw [cs_call]
  simp [cs_exec, cs_eval, callF, f_calc_score, bindParams, execF, execStmtF, evalF, methF_contract, callMethod,
    passed_out_method, is_vul_method, calc_bid_score_func, mapR, attr_final_bid, attr_x, attr_xx, cmpF, beq_bid_none, truthy,
    lookup, n_contract, n_taken_tricks, bind, Except.bind, pure, Except.pure, encOpt, hp, hv, hc]

/-- a contract with a final bid, when `contract.is_vul()` raises: the exception propagates out of `calc_score` -/
theorem calc_score_call_raises (b : Fin 35) (x xx : Bool) (v : Vul) (od : Option Seat) (a : Val) (f : Nat) (e : Err)
    (hv : (mkRec PB (f + 116)).call m_Contract_is_vul [encContract ⟨some b, x, xx, v, od⟩] = .error e) :
    (mkRec PB (f + 120)).call f_calc_score [encContract ⟨some b, x, xx, v, od⟩, a] = .error e := by
  have hp := passed_out_call (f + 117) (by omega) (some b) x xx v od
  rw [cs_call]
  simp [cs_exec, cs_eval, callF, f_calc_score, bindParams, execF, execStmtF, evalF, methF_contract, callMethod,
    passed_out_method, is_vul_method, calc_bid_score_func, mapR, attr_final_bid, attr_x, attr_xx, cmpF, beq_bid_none, truthy,
    lookup, n_contract, n_taken_tricks, bind, Except.bind, pure, Except.pure, encOpt, hp, hv]

/-! ## the translated program, run as the harness runs it (`fn` = `PB.runFn`, fuel `topFuel`) -/

theorem fn_calc_score (args : List Val) :
    fn n_calc_score args = ((mkRec PB (880 + 120)).call f_calc_score args).map (·.1) := rfl

/-- THE TRANSLATED public entry `calc_score(contract, taken_tricks)` is the duplicate scoring law from declarer's side,
for EVERY contract with a declarer and 0..13 tricks -/
theorem calc_score_translated_is_law (b : Fin 35) (x xx : Bool) (v : Vul) (d : Seat) (t : Nat) (ht : t ≤ 13) :
    (fn n_calc_score [encContract ⟨some b, x, xx, v, some d⟩, .int t]).int?
      = some (dupScore (bidLevel b) (bidDenom b) (status x xx) (sideVulnerable v d) t) := by
  rw [fn_calc_score, calc_score_call_ok b x xx v (some d) t ht 880 _ _ (is_vul_call_some _ (by omega) _ x xx v d)]
  rfl

/-- a passed-out contract scores 0 whatever else it carries -/
theorem calc_score_translated_passed_out (x xx : Bool) (v : Vul) (d : Option Seat) (t : Nat) :
    (fn n_calc_score [encContract ⟨none, x, xx, v, d⟩, .int t]).int? = some 0 := by
  rw [fn_calc_score, calc_score_call_passed_out]
  rfl

/-- without a declarer the score is defined exactly when the vulnerability does not depend on the side -/
theorem calc_score_translated_no_declarer (b : Fin 35) (x xx : Bool) (v : Vul) (t : Nat) (ht : t ≤ 13) :
    match v with
    | .none => (fn n_calc_score [encContract ⟨some b, x, xx, v, none⟩, .int t]).int?
        = some (dupScore (bidLevel b) (bidDenom b) (status x xx) false t)
    | .both => (fn n_calc_score [encContract ⟨some b, x, xx, v, none⟩, .int t]).int?
        = some (dupScore (bidLevel b) (bidDenom b) (status x xx) true t)
    | _ => (fn n_calc_score [encContract ⟨some b, x, xx, v, none⟩, .int t]).exc? = some K.ValueError := by
  have hv := fun v => is_vul_call_none (880 + 116) (by omega) (some b) x xx v
  cases v
  · show R.int? _ = _
    rw [fn_calc_score, calc_score_call_ok b x xx .none none t ht 880 _ _ (hv .none)]; rfl
  · show R.exc? _ = _
    rw [fn_calc_score, calc_score_call_raises b x xx .ns none _ 880 _ (hv .ns)]; rfl
  · show R.exc? _ = _
    rw [fn_calc_score, calc_score_call_raises b x xx .ew none _ 880 _ (hv .ew)]; rfl
  · show R.int? _ = _
    rw [fn_calc_score, calc_score_call_ok b x xx .both none t ht 880 _ _ (hv .both)]; rfl

/-- only declarer's side's vulnerability matters to the translated `calc_score` -/
theorem calc_score_translated_declarer_side_only (b : Fin 35) (x xx : Bool) (v v' : Vul) (d : Seat) (t : Nat) (ht : t ≤ 13)
    (h : sideVulnerable v d = sideVulnerable v' d) :
    (fn n_calc_score [encContract ⟨some b, x, xx, v, some d⟩, .int t]).int?
      = (fn n_calc_score [encContract ⟨some b, x, xx, v', some d⟩, .int t]).int? := by
  rw [calc_score_translated_is_law b x xx v d t ht, calc_score_translated_is_law b x xx v' d t ht, h]

/-! sanity: 4♠ by South, N-S vulnerable, 10 tricks = 620; the same by East = 420; N-S vulnerable without declarer raises -/
example : (fn n_calc_score [encContract ⟨some ⟨18, by omega⟩, false, false, .ns, some .S⟩, .int 10]).int? = some 620 := by
  decide +kernel
example : (fn n_calc_score [encContract ⟨some ⟨18, by omega⟩, false, false, .ns, some .E⟩, .int 10]).int? = some 420 := by
  decide +kernel
example : (fn n_calc_score [encContract ⟨some ⟨18, by omega⟩, false, false, .ns, none⟩, .int 10]).exc? = some K.ValueError := by
  decide +kernel

end Bridge.Translated
