import BridgeVerif.Translated.Score
namespace Bridge.Translated
open Bridge Bridge.Py Bridge.Generated.PyCore

#eval (fn n_calc_score [encContract ⟨some ⟨18, by omega⟩, false, false, .ns, some .S⟩, .int 10]).int?
#eval (fn n_calc_score [encContract ⟨some ⟨18, by omega⟩, false, false, .ns, some .E⟩, .int 10]).int?
#eval (fn n_calc_score [encContract ⟨none, true, false, .ns, some .E⟩, .int 10]).int?
#eval (fn n_calc_score [encContract ⟨none, true, false, .ns, none⟩, .int 100]).int?
#eval (fn n_calc_score [encContract ⟨some ⟨18, by omega⟩, false, false, .none, none⟩, .int 10]).int?
#eval (fn n_calc_score [encContract ⟨some ⟨18, by omega⟩, false, false, .both, none⟩, .int 10]).int?
#eval (fn n_calc_score [encContract ⟨some ⟨18, by omega⟩, false, false, .ns, none⟩, .int 10]).exc?
#eval (fn n_calc_score [encContract ⟨some ⟨18, by omega⟩, false, false, .ew, none⟩, .int 10]).exc?

theorem passed_out_method : PB.method? classDepth n_Contract n_is_passed_out = some (n_Contract, m_Contract_is_passed_out) := rfl
theorem is_vul_method : PB.method? classDepth n_Contract n_is_vul = some (n_Contract, m_Contract_is_vul) := rfl

theorem passed_out_call_none (f : Nat) (x xx : Bool) (v : Vul) (d : Option Seat) :
    (mkRec PB (f + 10)).call m_Contract_is_passed_out [encContract ⟨none, x, xx, v, d⟩]
      = .ok (.bool true, encContract ⟨none, x, xx, v, d⟩) := rfl

theorem passed_out_call_some (f : Nat) (b : Fin 35) (x xx : Bool) (v : Vul) (d : Option Seat) :
    (mkRec PB (f + 10)).call m_Contract_is_passed_out [encContract ⟨some b, x, xx, v, d⟩]
      = .ok (.bool false, encContract ⟨some b, x, xx, v, d⟩) := by
  sorry

theorem is_vul_call_some (f : Nat) (ob : Option (Fin 35)) (x xx : Bool) (v : Vul) (d : Seat) :
    (mkRec PB (f + 30)).call m_Contract_is_vul [encContract ⟨ob, x, xx, v, some d⟩]
      = .ok (.bool (sideVulnerable v d), encContract ⟨ob, x, xx, v, some d⟩) := by
  cases v <;> cases d <;> rfl

end Bridge.Translated
