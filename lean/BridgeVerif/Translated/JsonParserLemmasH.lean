import BridgeVerif.Translated.JsonParserLemmasG
/-! Translated JSON parser (parser.py) = model: `JsonParser.parse_board_logs` / `parse_board_settings`: `json.load(fp)` on a file object, the `for`
loop over the records by induction, a text `json.loads` refuses -/
namespace Bridge.Translated
open Bridge Bridge.Py Bridge.Generated.PyCore

/-! ## `JsonParser.parse_board_logs` / `parse_board_settings` -/
/-- the `BoardLog` instance `convert_board_log` builds for the record `j`, read by the model as `r` -/
def pyLogVal (j : Json) (r : LogRead) : Val :=
  encLogReadWith (encHands (pyHands (dealOf j))) (pyContract (contractText j) r.contract) r
/-- the `BoardSetting` instance `convert_board_setting` builds for the record `j`, read by the model as `e` -/
def pySettingVal (j : Json) (e : SettingEntry) : Val := encSettingWith (encHands (pyHands (dealOf j))) e

/-- a file object holding `text` (written in one piece) -/
def fileOf (text : List Char) : Val := .obj n__File [(n_buf, .tuple [.str text])]

theorem jp_logs_loop (f : Nat) (sv fv dv lv : Val) (m : List Json) : ∀ (rs : List LogRead) (acc : List Val) (tail : Env),
    m.mapM logOfJson? = some rs →
    ∃ tail', forF (mkRec P (f+64)) [n_d] [.mut (.var n_outputs) .append (.call n_convert_board_log [.var n_d])]
        ((K.self, sv) :: (n_fp, fv) :: (n_data, dv) :: (n_data_list, lv) :: (n_outputs, .tuple acc) :: tail) (jsonsToVals m)
      = .ok ((K.self, sv) :: (n_fp, fv) :: (n_data, dv) :: (n_data_list, lv) ::
              (n_outputs, .tuple (acc ++ List.zipWith pyLogVal m rs)) :: tail', .next) := by
  induction m with
  | nil => intro rs acc tail h; simp at h; subst h; exact ⟨tail, by simp [jsonsToVals, forF]; rfl⟩
  | cons j m ih =>
    intro rs acc tail h
    obtain ⟨r, rs', hj, hm, rfl⟩ := jp_mapM_cons_some _ _ _ _ h
    obtain ⟨tail', ht⟩ := ih rs' (acc ++ [pyLogVal j r]) (update tail n_d (jsonToVal j)) hm
    refine ⟨tail', ?_⟩
    simp only [jsonsToVals, forF]
    ppsimp [jp_find_convert_board_log, jp_convert_board_log_call _ _ _ hj]
    simp only [pyLogVal] at ht
    rw [ht]
    simp only [List.zipWith_cons_cons, pyLogVal, List.append_assoc, List.cons_append, List.nil_append]

theorem jp_settings_loop (f : Nat) (sv fv dv lv : Val) (m : List Json) : ∀ (es : List SettingEntry) (acc : List Val) (tail : Env),
    m.mapM settingOfJson? = some es →
    ∃ tail', forF (mkRec P (f+44)) [n_d] [.mut (.var n_outputs) .append (.call n_convert_board_setting [.var n_d])]
        ((K.self, sv) :: (n_fp, fv) :: (n_data, dv) :: (n_data_list, lv) :: (n_outputs, .tuple acc) :: tail) (jsonsToVals m)
      = .ok ((K.self, sv) :: (n_fp, fv) :: (n_data, dv) :: (n_data_list, lv) ::
              (n_outputs, .tuple (acc ++ List.zipWith pySettingVal m es)) :: tail', .next) := by
  induction m with
  | nil => intro es acc tail h; simp at h; subst h; exact ⟨tail, by simp [jsonsToVals, forF]; rfl⟩
  | cons j m ih =>
    intro es acc tail h
    obtain ⟨e, es', hj, hm, rfl⟩ := jp_mapM_cons_some _ _ _ _ h
    obtain ⟨tail', ht⟩ := ih es' (acc ++ [pySettingVal j e]) (update tail n_d (jsonToVal j)) hm
    refine ⟨tail', ?_⟩
    simp only [jsonsToVals, forF]
    ppsimp [jp_find_convert_board_setting, jp_convert_board_setting_call _ _ _ hj]
    simp only [pySettingVal] at ht
    rw [ht]
    simp only [List.zipWith_cons_cons, pySettingVal, List.append_assoc, List.cons_append, List.nil_append]

theorem jp_intercalate_one (t : List Char) : List.intercalate [] [t] = t := by
  simp [List.intercalate]

/-- `json.load(fp)` as translated: `json.loads(''.join(fp.buf))` -/
theorem jp_eval_load (f : Nat) (sv : Val) (text : List Char) (tail : Env) :
    evalF (mkRec P (f+4)) P ((K.self, sv) :: (n_fp, fileOf text) :: tail)
        (.builtin .jsonLoads [(.builtin .join [(.const (.str [])), (.attr (.var n_fp) n_buf)])])
      = match jsonLoad text with
        | some j => .ok (jsonToVal j)
        | none => .error (.exc K.ValueError) := by
  ppsimp [fileOf, builtinF, iterItems, strsOf, Option.bind, jp_intercalate_one]
  rfl

theorem jp_join_one (r : Rec) (t : List Char) : builtinF r P .join [.str [], .tuple [.str t]] = .ok (.str t) := by
  simp only [builtinF, iterItems, strsOf, Option.bind, Option.map, jp_intercalate_one]; rfl
theorem jp_jsonLoads (r : Rec) (t : List Char) :
    builtinF r P .jsonLoads [.str t] = match jsonLoad t with
      | some j => .ok (jsonToVal j)
      | none => .error (.exc K.ValueError) := rfl

theorem jp_mth_parse_board_logs :
    P.method? classDepth n_JsonParser n_parse_board_logs = some (n_JsonParser, m_JsonParser_parse_board_logs) := rfl
theorem jp_mth_parse_board_settings :
    P.method? classDepth n_JsonParser n_parse_board_settings = some (n_JsonParser, m_JsonParser_parse_board_settings) := rfl

/-- the records of a log document -/
def logEntries (text : List Char) : List Json :=
  ((jsonLoad text).bind fun doc => (doc.get? (jkey "logs")).bind Json.arr?).getD []
/-- the records `parse_board_settings` reads: `data['logs'] if 'logs' in data else data['board_settings']` -/
def settingEntries (text : List Char) : List Json :=
  ((jsonLoad text).bind fun doc => match doc.get? (jkey "logs") with
    | some x => x.arr?
    | none => (doc.get? (jkey "board_settings")).bind Json.arr?).getD []

theorem jp_bind_arr_some (o : Option Json) (m : List Json) (h : o.bind Json.arr? = some m) : o = some (.arr m) := by
  cases o with
  | none => cases h
  | some v => cases v <;> first | (cases h; rfl) | cases h

theorem jp_parse_board_logs_call (f : Nat) (text : List Char) (rs : List LogRead) (hm : parseBoardLogs? text = some rs) :
    callF (mkRec P (f+70)) m_JsonParser_parse_board_logs [.obj n_JsonParser [], fileOf text]
      = .ok (.tuple (List.zipWith pyLogVal (logEntries text) rs), .obj n_JsonParser []) := by
  unfold parseBoardLogs? at hm
  cases hd : jsonLoad text with
  | none => rw [hd] at hm; cases hm
  | some doc =>
    cases hl : (doc.get? (jkey "logs")).bind Json.arr? with
    | none => simp [hd, hl] at hm
    | some m =>
      simp only [hd, hl, Option.bind_eq_bind, Option.bind_some] at hm
      have hg := jp_bind_arr_some _ _ hl
      obtain ⟨dl, rfl⟩ := jp_get_obj _ _ _ hg
      have hg' : (Json.obj dl).get? ['l', 'o', 'g', 's'] = some (.arr m) := hg
      have he : logEntries text = m := by
        simp only [logEntries, hd, Option.bind_some, hl, Option.getD_some]
      rw [callF_def]
      simp only [m_JsonParser_parse_board_logs, bindParams, Option.map]
      obtain ⟨tail', ht⟩ := jp_logs_loop (f+5) (.obj n_JsonParser []) (fileOf text) (.dict (membersToKvs dl))
        (.tuple (jsonsToVals m)) m rs [] [] hm
      ppsimp [fileOf, jp_join_one, jp_jsonLoads, hd, jsonToVal, jp_lookupD_members, hg', builtin_tuple_nil, iterItems_tuple]
      simp only [fileOf] at ht
      rw [ht]
      ppsimp [he]

theorem jp_parse_board_settings_call (f : Nat) (text : List Char) (es : List SettingEntry)
    (hm : parseBoardSettings? text = some es) :
    callF (mkRec P (f+50)) m_JsonParser_parse_board_settings [.obj n_JsonParser [], fileOf text]
      = .ok (.tuple (List.zipWith pySettingVal (settingEntries text) es), .obj n_JsonParser []) := by
  unfold parseBoardSettings? at hm
  cases hd : jsonLoad text with
  | none => rw [hd] at hm; cases hm
  | some doc =>
    rw [hd] at hm
    simp only [Option.bind_eq_bind, Option.bind_some] at hm
    cases hlg : doc.get? (jkey "logs") with
    | some x =>
      obtain ⟨dl, rfl⟩ := jp_get_obj _ _ _ hlg
      rw [hlg] at hm
      simp only [] at hm
      cases x <;> try (simp [Json.arr?] at hm)
      rename_i m
      try simp only [Json.arr?, Option.bind_some] at hm
      have hg' : (Json.obj dl).get? ['l', 'o', 'g', 's'] = some (.arr m) := hlg
      have he : settingEntries text = m := by
        simp only [settingEntries, hd, Option.bind_some, hlg, Json.arr?, Option.getD_some]
      rw [callF_def]
      simp only [m_JsonParser_parse_board_settings, bindParams, Option.map]
      obtain ⟨tail', ht⟩ := jp_settings_loop (f+5) (.obj n_JsonParser []) (fileOf text) (.dict (membersToKvs dl))
        (.tuple (jsonsToVals m)) m es [] [] hm
      ppsimp [fileOf, jp_join_one, jp_jsonLoads, hd, jsonToVal, jp_lookupD_members, hg', builtin_tuple_nil, iterItems_tuple,
        bne]
      simp only [fileOf] at ht
      rw [ht]
      ppsimp [he]
    | none =>
      rw [hlg] at hm
      simp only [] at hm
      cases hl : (doc.get? (jkey "board_settings")).bind Json.arr? with
      | none => simp [hl] at hm
      | some m =>
        rw [hl] at hm
        simp only [Option.bind_some] at hm
        have hg := jp_bind_arr_some _ _ hl
        obtain ⟨dl, rfl⟩ := jp_get_obj _ _ _ hg
        have hg' : (Json.obj dl).get? ['b', 'o', 'a', 'r', 'd', '_', 's', 'e', 't', 't', 'i', 'n', 'g', 's'] = some (.arr m) := hg
        have hlg' : (Json.obj dl).get? ['l', 'o', 'g', 's'] = none := hlg
        have he : settingEntries text = m := by
          simp only [settingEntries, hd, Option.bind_some, hlg, hl, Option.getD_some]
        rw [callF_def]
        simp only [m_JsonParser_parse_board_settings, bindParams, Option.map]
        obtain ⟨tail', ht⟩ := jp_settings_loop (f+5) (.obj n_JsonParser []) (fileOf text) (.dict (membersToKvs dl))
          (.tuple (jsonsToVals m)) m es [] [] hm
        ppsimp [fileOf, jp_join_one, jp_jsonLoads, hd, jsonToVal, jp_lookupD_members, hg', hlg', builtin_tuple_nil,
          iterItems_tuple, bne]
        simp only [fileOf] at ht
        rw [ht]
        ppsimp [he]

/-- a text `json.loads` refuses: `ValueError` (`json.JSONDecodeError`), from both methods -/
theorem jp_parse_board_logs_bad_call (f : Nat) (text : List Char) (h : jsonLoad text = none) :
    callF (mkRec P (f+10)) m_JsonParser_parse_board_logs [.obj n_JsonParser [], fileOf text] = .error (.exc K.ValueError) := by
  rw [callF_def]
  simp only [m_JsonParser_parse_board_logs, bindParams, Option.map]
  ppsimp [fileOf, jp_join_one, jp_jsonLoads, h]
theorem jp_parse_board_settings_bad_call (f : Nat) (text : List Char) (h : jsonLoad text = none) :
    callF (mkRec P (f+10)) m_JsonParser_parse_board_settings [.obj n_JsonParser [], fileOf text]
      = .error (.exc K.ValueError) := by
  rw [callF_def]
  simp only [m_JsonParser_parse_board_settings, bindParams, Option.map]
  ppsimp [fileOf, jp_join_one, jp_jsonLoads, h]

end Bridge.Translated
