import BridgeVerif.Translated.ThreadsMainC
import BridgeVerif.Lemmas.MsgBid
/-! Capstone of the main thread, (3): the parse hypotheses for CANONICAL texts — every call text `bidMsg c p.formal`,
every card text `playMsg p c nota` — discharged by kernel evaluation of the translated `remove_alert_word` / `parse_bid` /
`parse_card` inside the whole program `P` over the complete finite families. -/
set_option maxRecDepth 4000
namespace Bridge.Translated.MainD
open Bridge Bridge.Py Bridge.Generated.PyCore
open Bridge.Translated.MainA Bridge.Translated.MainB Bridge.Translated.MainC

/-- message `m` is read alike by the model and by the translated code, WHOEVER it is read for and whether it is consumed
by the auction (`remove_alert_word`, `parse_bid`, at every fuel from `F` on) or by the play (`parse_card`) -/
def Good (F : Nat) (m : Text) : Prop :=
  (hasAlert m = true →
    ∀ g, F ≤ g → (callFn P g m_Server_remove_alert_word [.str m]).map (·.1) = .ok (.str (preprocessBid m))) ∧
  (∀ (a : Seat) call, parseBid? (preprocessBid m) a.formal = some call → ∀ g, F ≤ g →
    (callFn P g m_MessageInterface_parse_bid [.str (preprocessBid m), .str a.formal]).map (·.1) = .ok (encCall call)) ∧
  (∀ (a : Seat) card, parseCard? m a = some card → ParsesTo m a card)

/-- `Good` as ONE computation: the translated functions are run at fuel `F` (`parse_card` at fuel 20, `chkParse`) -/
def goodChk (F : Nat) (m : Text) : Bool :=
  (!hasAlert m ||
    R.str? ((callFn P F m_Server_remove_alert_word [.str m]).map (·.1)) == some (preprocessBid m)) &&
  (Seat.all.all fun a =>
    match parseBid? (preprocessBid m) a.formal with
    | none => true
    | some call =>
      R.enum? ((callFn P F m_MessageInterface_parse_bid [.str (preprocessBid m), .str a.formal]).map (·.1))
        == some (n_Bid, (call.value : Int))) &&
  (Seat.all.all fun a => chkParse m a)

theorem good_of_chk (F : Nat) (m : Text) (h : goodChk F m = true) : Good F m := by
  simp only [goodChk, Bool.and_eq_true, List.all_eq_true] at h
  obtain ⟨⟨h1, h2⟩, h3⟩ := h
  refine ⟨?_, ?_, ?_⟩
  · intro hA
    rw [hA] at h1
    exact bidMsg_fuel_lift _ _ _ F (mt_str?_eq _ _ (by simpa using h1))
  · intro a call hp
    have := h2 a (seat_mem_all a)
    rw [hp] at this
    exact bidMsg_fuel_lift _ _ _ F (mt_enum?_eq _ _ _ this)
  · intro a card hp
    exact chkParse_sound (h3 a (seat_mem_all a)) card hp

/-- every call text of the protocol, for every seat -/
theorem bid_texts_good : ∀ c ∈ Call.all, ∀ p ∈ Seat.all, goodChk 40 (bidMsg c p.formal) = true := by
  decide +kernel

/-- every card text of the protocol (rank-suit as the client writes it, suit-rank as `str(card)`), for every seat -/
theorem card_texts_good : ∀ c ∈ Card.deck, ∀ p ∈ Seat.all, ∀ nota : Bool, goodChk 40 (playMsg p c nota) = true := by
  decide +kernel

end Bridge.Translated.MainD
