import BridgeVerif.Translated.PbnParserLemmasG
/-! Translated PBN parser = model: the loop of `parse_stream`, `parse_stream`, `parse_all` -/
set_option linter.unusedSimpArgs false
namespace Bridge.Translated
open Bridge Bridge.Py Bridge.Generated.PyCore Bridge.RegexPbn

theorem pp_psEnv_update (st : PbnSt) (cl cb : List Str) (fpv : Val) (games : List Game) (tail : Env) (v : Val) :
    update (psEnv st cl cb fpv games tail) n_line v = psEnv st cl cb fpv games (update tail n_line v) := rfl

/-- the games `parse_stream` yields, from a parser in state `st` -/
def streamFrom (st : PbnSt) (lines : List Str) : List Game :=
  ((if (lines.foldl streamStep (st, [])).1.buffer.isEmpty then (lines.foldl streamStep (st, [])).2
    else parseBoard (lines.foldl streamStep (st, [])).1.buffer.reverse :: (lines.foldl streamStep (st, [])).2)).reverse

theorem pp_streamFrom_fresh (lines : List Str) : streamFrom {} lines = parseStream lines := rfl

theorem pp_stream_loop (hf : PbnRegexFacts) (hne : PbnSubNonempty) (f N : Nat) (fpv : Val) : ∀ (lines : List Str)
    (st : PbnSt) (cl cb : List Str) (games : List Game) (tail : Env),
    (∀ l ∈ lines, l ≠ [] ∧ l.length < N) → (∀ l ∈ lines, l.head? = some '%' → pctLineOk l = true) →
    ∃ cl' cb' tail', forF (mkRec P (f + 4 * N + 32)) [n_line] psBody (psEnv st cl cb fpv games tail) (lines.map Val.str)
      = .ok (psEnv (lines.foldl streamStep (st, games)).1 cl' cb' fpv (lines.foldl streamStep (st, games)).2 tail', .next) := by
  intro lines
  induction lines with
  | nil => intro st cl cb games tail _ _; exact ⟨cl, cb, tail, rfl⟩
  | cons l lines ih =>
    intro st cl cb games tail hok hpct
    have hl := hok l (List.mem_cons_self ..)
    have hok' : ∀ x ∈ lines, x ≠ [] ∧ x.length < N := fun x hx => hok x (List.mem_cons_of_mem _ hx)
    have hpct' : ∀ x ∈ lines, x.head? = some '%' → pctLineOk x = true := fun x hx => hpct x (List.mem_cons_of_mem _ hx)
    obtain ⟨ic, buf⟩ := st
    cases l with
    | nil => exact absurd rfl hl.1
    | cons c rest =>
    simp only [List.map_cons, forF, pure_eq, bind_ok, pp_psEnv_update, exec_succ, List.foldl_cons]
    cases h1 : (semiEmpty (c :: rest) && !ic) with
    | true =>
      simp only [Bool.and_eq_true, Bool.not_eq_true'] at h1
      obtain ⟨hse, rfl⟩ := h1
      obtain ⟨tail', hs⟩ := pp_step_semi hf hne f N fpv (c :: rest) hse buf cl cb games tail
      rw [hs]
      simp only [bind_ok]
      exact ih _ [] [] _ tail' hok' hpct'
    | false =>
      have hss : streamStep (⟨ic, buf⟩, games) (c :: rest)
          = if (decide (c = '%') && !ic) = true then (⟨ic, buf⟩, games)
            else (extractContent ((c :: rest).length + 1) ⟨ic, buf⟩ (c :: rest), games) := by
        simp only [streamStep, h1, Bool.false_eq_true, if_false, List.head?_cons, Option.some.injEq]
      rw [hss]
      cases h2 : (decide (c = '%') && !ic) with
      | true =>
        simp only [Bool.and_eq_true, Bool.not_eq_true', decide_eq_true_eq] at h2
        obtain ⟨rfl, rfl⟩ := h2
        obtain ⟨cl', tail', hs⟩ := pp_step_pct hf f N fpv rest (hpct _ (List.mem_cons_self ..) rfl) buf cl cb games tail
        rw [hs]
        simp only [bind_ok, if_true]
        exact ih _ cl' cb _ tail' hok' hpct'
      | false =>
        obtain ⟨cl', cb', tail', hs⟩ := pp_step_content hf f N fpv c rest ic h1 h2 hl.2 buf cl cb games tail
        rw [hs]
        simp only [bind_ok, Bool.false_eq_true, if_false]
        exact ih _ cl' cb' _ tail' hok' hpct'

/-- `parse_stream(lines)` at an arbitrary fuel, from any parser state -/
theorem pp_stream_call (hf : PbnRegexFacts) (hne : PbnSubNonempty) (f N : Nat) (lines : List Str)
    (hok : ∀ l ∈ lines, l ≠ [] ∧ l.length < N) (hpct : ∀ l ∈ lines, l.head? = some '%' → pctLineOk l = true)
    (st : PbnSt) (cl cb : List Str) :
    ∃ st' cl' cb', callF (mkRec P (f + 4 * N + 33)) m_PbnParser_parse_stream
        [encPbnParser st cl cb, .tuple (lines.map Val.str)]
      = .ok (.tuple ((streamFrom st lines).map encGame), encPbnParser st' cl' cb') := by
  obtain ⟨cl', cb', tail', hl⟩ := pp_stream_loop hf hne f N (.tuple (lines.map Val.str)) lines st cl cb [] [] hok hpct
  simp only [streamFrom]
  generalize lines.foldl streamStep (st, []) = res at hl ⊢
  obtain ⟨⟨ic', buf'⟩, games'⟩ := res
  refine ⟨⟨ic', buf'⟩, cl', cb', ?_⟩
  have hbc : callF (mkRec P (f + 4 * N + 29)) m_PbnParser_parse_board [encPbnParser ⟨ic', buf'⟩ cl' cb']
      = .ok (encGame (parseBoard buf'.reverse), encPbnParser ⟨ic', buf'⟩ cl' cb') :=
    pp_board_call hf hne (f + 4 * N + 9) ⟨ic', buf'⟩ cl' cb'
  simp only [psBody, m_PbnParser_parse_stream, List.getD_cons_succ, List.getD_cons_zero, psEnv, encPbnParser,
    List.reverse_nil, List.map_nil] at hl
  simp only [encPbnParser] at hbc
  rw [callF_def]
  simp only [m_PbnParser_parse_stream, bindParams, Option.map, encPbnParser]
  cases buf' with
  | nil =>
    ppsimp [iterItems_tuple, hl, pp_len_tuple, pp_beq_len0, List.length_map, List.length_reverse, List.isEmpty_nil]
  | cons b0 buf' =>
    simp only [List.reverse_cons, List.map_append, List.map_cons, List.map_nil] at hbc hl
    ppsimp [iterItems_tuple, hl, pp_len_tuple, pp_beq_len0, List.length_map, List.length_reverse, List.isEmpty_cons,
      pp_mth_board, hbc, List.length_cons, List.reverse_cons, List.map_append, List.map_cons, List.map_nil,
      List.length_append]

/-! ## `parse_all` -/
def paBody : List Stmt := [.mut (.var n_outputs) .append (.var n_x)]

theorem pp_all_loop (f : Nat) (sv fv iv : Val) : ∀ (vals acc : List Val) (tail : Env),
    ∃ tail', forF (mkRec P (f + 5)) [n_x] paBody
        ((K.self, sv) :: (n_fp, fv) :: (n_outputs, .tuple acc) :: (n__it1, iv) :: tail) vals
      = .ok ((K.self, sv) :: (n_fp, fv) :: (n_outputs, .tuple (acc ++ vals)) :: (n__it1, iv) :: tail', .next) := by
  intro vals
  induction vals with
  | nil => intro acc tail; exact ⟨tail, by simp only [forF, List.append_nil]; rfl⟩
  | cons v vals ih =>
    intro acc tail
    simp only [forF, paBody]
    ppsimp []
    obtain ⟨tail', h⟩ := ih (acc ++ [v]) (update tail n_x v)
    refine ⟨tail', ?_⟩
    simp only [paBody] at h
    rw [h]
    simp only [List.append_assoc, List.cons_append, List.nil_append]

theorem pp_all_call (hf : PbnRegexFacts) (hne : PbnSubNonempty) (f N : Nat) (lines : List Str)
    (hok : ∀ l ∈ lines, l ≠ [] ∧ l.length < N) (hpct : ∀ l ∈ lines, l.head? = some '%' → pctLineOk l = true)
    (st : PbnSt) (cl cb : List Str) :
    ∃ st' cl' cb', callF (mkRec P (f + 4 * N + 36)) m_PbnParser_parse_all
        [encPbnParser st cl cb, .tuple (lines.map Val.str)]
      = .ok (.tuple ((streamFrom st lines).map encGame), encPbnParser st' cl' cb') := by
  obtain ⟨st', cl', cb', hs⟩ := pp_stream_call hf hne f N lines hok hpct st cl cb
  refine ⟨st', cl', cb', ?_⟩
  obtain ⟨tail', hl⟩ := pp_all_loop (f + 4 * N + 29) (encPbnParser st' cl' cb') (.tuple (lines.map Val.str))
    (.tuple ((streamFrom st lines).map encGame)) ((streamFrom st lines).map encGame) [] []
  have e : f + 4 * N + 29 + 5 = f + 4 * N + 34 := by omega
  rw [e] at hl
  simp only [paBody, encPbnParser, List.nil_append] at hl
  simp only [encPbnParser] at hs
  rw [callF_def]
  simp only [m_PbnParser_parse_all, bindParams, Option.map, encPbnParser]
  ppsimp [pp_tuple_nil, pp_mth_stream, hs, iterItems_tuple, hl]

end Bridge.Translated
