import BridgeVerif.Translated.Enc
import BridgeVerif.Model.Auction
/-! Translated `BiddingPhase` = model: definitions, interpreter unfolding lemmas, atomic evaluation lemmas -/
namespace Bridge.Translated
open Bridge Bridge.Py Bridge.Generated.PyCore

/-! ## encoding of the model state -/

def callOfIdx (k : Nat) : Call :=
  if h : k < 35 then .bid ⟨k, h⟩ else if k = 35 then .pass else if k = 36 then .dbl else .rdbl

/-- the 38-slot vector -/
def availList (a : Call → Bool) : List Val :=
  (List.range 38).map fun k => .int (if a (callOfIdx k) then 1 else 0)

def perSeatKvs (ps : Seat → List Call) : List (Val × Val) :=
  [(encSeat .N, .tuple ((ps .N).reverse.map encCall)), (encSeat .E, .tuple ((ps .E).reverse.map encCall)),
   (encSeat .S, .tuple ((ps .S).reverse.map encCall)), (encSeat .W, .tuple ((ps .W).reverse.map encCall))]

def declRow (r : Suit → Option Seat) : List (Val × Val) :=
  [(encSuit .C, encOpt encSeat (r .C)), (encSuit .D, encOpt encSeat (r .D)), (encSuit .H, encOpt encSeat (r .H)),
   (encSuit .S, encOpt encSeat (r .S)), (encSuit .NT, encOpt encSeat (r .NT))]

def declKvs (dc : Side → Suit → Option Seat) : List (Val × Val) :=
  [(encSide .NS, .dict (declRow (dc .NS))), (encSide .EW, .dict (declRow (dc .EW)))]

/-- the `BiddingPhase` instance as the interpreter holds it (fields in the order `__init__` assigns them) -/
def encState (s : AState) : Val :=
  .obj n_BiddingPhase
    [(n___dealer, encSeat s.dealer), (n___vul, encVul s.vul), (n___active_player, encOpt encSeat s.active),
     (n___last_bidder, encOpt encSeat s.lastBidder), (n___last_bid, encOpt encBid s.lastBid),
     (n___called_x, .bool s.calledX), (n___called_xx, .bool s.calledXX),
     (n___bid_history, .tuple (s.history.reverse.map encCall)),
     (n___players_bid_history, .dict (perSeatKvs s.perSeat)),
     (n___declarer_check, .dict (declKvs s.declCheck)),
     (n___available_bid, .tuple (availList s.avail))]

def encRes : Res → Val
  | .illegal => .enum n_BiddingPhaseState (-1)
  | .ongoing => .enum n_BiddingPhaseState 1
  | .finished => .enum n_BiddingPhaseState 2

/-- the environment of `take_bid` -/
def envOf (s : AState) (c : Call) : Env := [(K.self, encState s), (n_bid, encCall c)]

/-! ## unfolding the knot -/
theorem eval_succ (f : Nat) (env : Env) (e : Expr) : (mkRec P (f+1)).eval env e = evalF (mkRec P f) P env e := rfl
theorem exec_succ (f : Nat) (env : Env) (ss : List Stmt) : (mkRec P (f+1)).exec env ss = execF (mkRec P f) P env ss := rfl
theorem call_succ (f : Nat) (fd : FuncDef) (args : List Val) : (mkRec P (f+1)).call fd args = callF (mkRec P f) fd args := rfl
theorem loop_succ (f : Nat) (env : Env) (c : Expr) (b : List Stmt) :
    (mkRec P (f+1)).loop env c b = loopF (mkRec P f) env c b := rfl

theorem bind_ok {α β} (a : α) (g : α → R β) : (Except.ok a >>= g) = g a := rfl
theorem bind_err {α β} (e : Err) (g : α → R β) : ((Except.error e : R α) >>= g) = .error e := rfl
theorem pure_eq {α} (a : α) : (pure a : R α) = .ok a := rfl
theorem throw_eq {α} (e : Err) : (throw e : R α) = .error e := rfl

/-! ## atomic evaluation lemmas (arbitrary sufficiently large fuel) -/

theorem getAttr_Bid_idx (f : Nat) (v : Int) : getAttrF (mkRec P (f+5)) P (.enum n_Bid v) n_idx = .ok (.int (v - 1)) := rfl

theorem getAttr_idx (f : Nat) (c : Call) : getAttrF (mkRec P (f+5)) P (encCall c) n_idx = .ok (.int c.idx) := by
  rw [encCall, getAttr_Bid_idx, Call.value]; congr 2; omega

theorem getAttr_next (f : Nat) (p : Seat) :
    getAttrF (mkRec P (f+12)) P (encSeat p) n_next_player = .ok (encSeat p.left) := by
  cases p <;> rfl
theorem getAttr_pair (f : Nat) (p : Seat) : getAttrF (mkRec P (f+12)) P (encSeat p) n_pair = .ok (encSide p.side) := by
  cases p <;> rfl

theorem getAttr_suit_aux (f : Nat) (k : Nat) (hk : k < 35) :
    getAttrF (mkRec P (f+12)) P (.enum n_Bid ((k:Int) + 1)) n_suit = .ok (.enum n_Suit ((k % 5 + 1 : Nat) : Int)) :=
  match k, hk with
  | 0, _ => rfl
  | 1, _ => rfl
  | 2, _ => rfl
  | 3, _ => rfl
  | 4, _ => rfl
  | 5, _ => rfl
  | 6, _ => rfl
  | 7, _ => rfl
  | 8, _ => rfl
  | 9, _ => rfl
  | 10, _ => rfl
  | 11, _ => rfl
  | 12, _ => rfl
  | 13, _ => rfl
  | 14, _ => rfl
  | 15, _ => rfl
  | 16, _ => rfl
  | 17, _ => rfl
  | 18, _ => rfl
  | 19, _ => rfl
  | 20, _ => rfl
  | 21, _ => rfl
  | 22, _ => rfl
  | 23, _ => rfl
  | 24, _ => rfl
  | 25, _ => rfl
  | 26, _ => rfl
  | 27, _ => rfl
  | 28, _ => rfl
  | 29, _ => rfl
  | 30, _ => rfl
  | 31, _ => rfl
  | 32, _ => rfl
  | 33, _ => rfl
  | 34, _ => rfl
  | n+35, h => absurd h (by omega)
theorem bidDenom_value : ∀ i : Fin 35, (bidDenom i).value = i.val % 5 + 1 := by decide
theorem getAttr_suit (f : Nat) (i : Fin 35) :
    getAttrF (mkRec P (f+12)) P (encBid i) n_suit = .ok (encSuit (bidDenom i)) := by
  rw [encSuit, bidDenom_value]; exact getAttr_suit_aux f i.val i.isLt

theorem encCall_bid (i : Fin 35) : encCall (.bid i) = encBid i := rfl

end Bridge.Translated
