import BridgeVerif.Translated.JsonParserLemmasF
/-! Translated JSON parser (parser.py) = model: `convert_board_log`, one statement at a time (each right-hand side evaluated by its own lemma, so
that the case distinctions on the optional members do not multiply), then the whole function -/
namespace Bridge.Translated
open Bridge Bridge.Py Bridge.Generated.PyCore

/-! ## the statements of `convert_board_log`, one at a time (`data` is the first variable of the environment) -/
def cblExpr (i : Nat) : Expr :=
  match f_convert_board_log.body.getD i .pass with
  | .assign _ e => e
  | .assert e => e
  | .ret e => e
  | _ => .const .none

theorem jp_find_convert_board_log : findFunc P.funcs n_convert_board_log = some f_convert_board_log := rfl

theorem jp_eval_in (f : Nat) (l : List (List Char × Json)) (tail : Env) (k : List Char) (v : Json)
    (h : (Json.obj l).get? k = some v) :
    evalF (mkRec P (f+2)) P ((n_data, .dict (membersToKvs l)) :: tail) (.cmp .inn (.const (.str k)) (.var n_data))
      = .ok (.bool true) := by
  ppsimp [jp_lookupD_members, h, bne]
  rfl

theorem jp_eval_setting (f : Nat) (l : List (List Char × Json)) (tail : Env) (st : SettingEntry)
    (hst : settingOfJson? (.obj l) = some st) :
    evalF (mkRec P (f+43)) P ((n_data, .dict (membersToKvs l)) :: tail) (cblExpr 0)
      = .ok (encSettingWith (encHands (pyHands (dealOf (.obj l)))) st) := by
  have hc := fun g => jp_convert_board_setting_call g (.obj l) st hst
  simp only [jsonToVal] at hc
  simp only [cblExpr, f_convert_board_log, List.getD_cons_zero]
  ppsimp [jp_find_convert_board_setting, hc]

theorem jp_eval_declarer (f : Nat) (l : List (List Char × Json)) (tail : Env) (d : Option Seat)
    (h : ((Json.obj l).get? ['d', 'e', 'c', 'l', 'a', 'r', 'e', 'r'] = some .null ∧ d = none) ∨
        (∃ s p, (Json.obj l).get? ['d', 'e', 'c', 'l', 'a', 'r', 'e', 'r'] = some (.str s) ∧ seatOfName? s = some p ∧ d = some p)) :
    evalF (mkRec P (f+6)) P ((n_data, .dict (membersToKvs l)) :: tail) (cblExpr 4) = .ok (encOpt encSeat d) := by
  simp only [cblExpr, f_convert_board_log, List.getD_cons_succ, List.getD_cons_zero]
  rcases h with ⟨h, rfl⟩ | ⟨s, p, h, hp, rfl⟩
  · ppsimp [jp_lookupD_members, h, jsonToVal]
  · ppsimp [jp_lookupD_members, h, jsonToVal, Val.beq, jp_cls_Player, jp_member_seat _ _ hp]
    rfl

theorem jp_eval_contract (f : Nat) (l : List (List Char × Json)) (tail : Env) (hands : Val) (st : SettingEntry)
    (d : Option Seat) (ctext : List Char) (c : Contract)
    (h : (Json.obj l).get? ['c', 'o', 'n', 't', 'r', 'a', 'c', 't'] = some (.str ctext)) (hk : strToContract? ctext st.vul d = some c) :
    evalF (mkRec P (f+28)) P ((n_data, .dict (membersToKvs l)) :: (n_board_setting, encSettingWith hands st) ::
        (n_declarer, encOpt encSeat d) :: tail) (cblExpr 5) = .ok (pyContract ctext c) := by
  simp only [cblExpr, f_convert_board_log, List.getD_cons_succ, List.getD_cons_zero, encSettingWith]
  ppsimp [jp_lookupD_members, h, jsonToVal, jp_mth_str_to_contract, jp_str_to_contract_call _ _ _ _ _ hk]

theorem jp_eval_tricks (f : Nat) (l : List (List Char × Json)) (tail : Env) (t : Option Int)
    (h : ((Json.obj l).get? ['t', 'a', 'k', 'e', 'n', '_', 't', 'r', 'i', 'c', 'k'] = some .null ∧ t = none) ∨
        (∃ n, (Json.obj l).get? ['t', 'a', 'k', 'e', 'n', '_', 't', 'r', 'i', 'c', 'k'] = some (.int n) ∧ t = some n)) :
    evalF (mkRec P (f+3)) P ((n_data, .dict (membersToKvs l)) :: tail) (cblExpr 6) = .ok (encOpt .int t) := by
  simp only [cblExpr, f_convert_board_log, List.getD_cons_succ, List.getD_cons_zero]
  rcases h with ⟨h, rfl⟩ | ⟨n, h, rfl⟩
  · ppsimp [jp_lookupD_members, h, jsonToVal]
  · ppsimp [jp_lookupD_members, h, jsonToVal]

theorem jp_eval_players (f : Nat) (l : List (List Char × Json)) (tail : Env) (o : Option (List (Seat × Str)))
    (h : ((Json.obj l).get? ['p', 'l', 'a', 'y', 'e', 'r', 's'] = none ∧ o = none) ∨
        (∃ m ps, (Json.obj l).get? ['p', 'l', 'a', 'y', 'e', 'r', 's'] = some (.obj m) ∧ m.mapM playerEntry? = some ps ∧ o = some ps)) :
    evalF (mkRec P (f+10)) P ((n_data, .dict (membersToKvs l)) :: tail) (cblExpr 7) = .ok (encOpt encPlayers o) := by
  simp only [cblExpr, f_convert_board_log, List.getD_cons_succ, List.getD_cons_zero]
  rcases h with ⟨h, rfl⟩ | ⟨m, ps, h, hp, rfl⟩
  · ppsimp [jp_lookupD_members, h, bne]
  · ppsimp [jp_lookupD_members, h, bne, jsonToVal, jp_items, iterItems_tuple, jp_players_comp _ _ _ _ hp]
    rfl

theorem jp_eval_bids (f : Nat) (l : List (List Char × Json)) (tail : Env) (o : Option (List Call))
    (h : ((Json.obj l).get? ['b', 'i', 'd', '_', 'h', 'i', 's', 't', 'o', 'r', 'y'] = none ∧ o = none) ∨
        (∃ m bs, (Json.obj l).get? ['b', 'i', 'd', '_', 'h', 'i', 's', 't', 'o', 'r', 'y'] = some (.arr m) ∧ m.mapM bidEntry? = some bs ∧ o = some bs)) :
    evalF (mkRec P (f+18)) P ((n_data, .dict (membersToKvs l)) :: tail) (cblExpr 8)
      = .ok (encOpt (fun l => .tuple (l.map encCall)) o) := by
  simp only [cblExpr, f_convert_board_log, List.getD_cons_succ, List.getD_cons_zero]
  rcases h with ⟨h, rfl⟩ | ⟨m, bs, h, hp, rfl⟩
  · ppsimp [jp_lookupD_members, h, bne]
  · obtain ⟨ss, h1, h2⟩ := jp_mapM_str_bind _ _ _ hp
    ppsimp [jp_lookupD_members, h, bne, jsonToVal, jp_jsonsToVals_strs _ _ h1, iterItems_tuple, jp_comp_bids _ _ _ _ h2]

theorem jp_eval_play (f : Nat) (l : List (List Char × Json)) (tail : Env) (o : Option (List Trick))
    (h : ((Json.obj l).get? ['p', 'l', 'a', 'y', '_', 'h', 'i', 's', 't', 'o', 'r', 'y'] = none ∧ o = none) ∨
        ((Json.obj l).get? ['p', 'l', 'a', 'y', '_', 'h', 'i', 's', 't', 'o', 'r', 'y'] = some .null ∧ o = none) ∨
        (∃ m ts, (Json.obj l).get? ['p', 'l', 'a', 'y', '_', 'h', 'i', 's', 't', 'o', 'r', 'y'] = some (.arr m) ∧ m.mapM trickOfJson? = some ts ∧ o = some ts)) :
    evalF (mkRec P (f+26)) P ((n_data, .dict (membersToKvs l)) :: tail) (cblExpr 9)
      = .ok (encOpt (fun l => .tuple (l.map encTrick)) o) := by
  simp only [cblExpr, f_convert_board_log, List.getD_cons_succ, List.getD_cons_zero]
  rcases h with ⟨h, rfl⟩ | ⟨h, rfl⟩ | ⟨m, ts, h, hp, rfl⟩
  · ppsimp [jp_lookupD_members, h, bne]
  · ppsimp [jp_lookupD_members, h, bne, jsonToVal]
  · have hc := fun g env => jp_comp_tricks g env m ts hp
    simp only [trickExpr] at hc
    ppsimp [jp_lookupD_members, h, bne, jsonToVal, beq_tuple_none, iterItems_tuple, hc]

theorem jp_eval_score_type (f : Nat) (l : List (List Char × Json)) (tail : Env) (o : Option Str)
    (h : ((Json.obj l).get? ['s', 'c', 'o', 'r', 'e', '_', 't', 'y', 'p', 'e'] = none ∧ o = none) ∨
        (∃ s, (Json.obj l).get? ['s', 'c', 'o', 'r', 'e', '_', 't', 'y', 'p', 'e'] = some (.str s) ∧ o = some s)) :
    evalF (mkRec P (f+5)) P ((n_data, .dict (membersToKvs l)) :: tail) (cblExpr 10) = .ok (encOpt .str o) := by
  simp only [cblExpr, f_convert_board_log, List.getD_cons_succ, List.getD_cons_zero]
  rcases h with ⟨h, rfl⟩ | ⟨s, h, rfl⟩
  · ppsimp [jp_lookupD_members, h, bne]
  · ppsimp [jp_lookupD_members, h, bne, jsonToVal]

theorem jp_eval_scores (f : Nat) (l : List (List Char × Json)) (tail : Env) (o : Option (List (Side × Int)))
    (h : ((Json.obj l).get? ['s', 'c', 'o', 'r', 'e', 's'] = none ∧ o = none) ∨
        (∃ m sc, (Json.obj l).get? ['s', 'c', 'o', 'r', 'e', 's'] = some (.obj m) ∧ m.mapM scoreEntry? = some sc ∧ o = some sc)) :
    evalF (mkRec P (f+10)) P ((n_data, .dict (membersToKvs l)) :: tail) (cblExpr 11) = .ok (encOpt encScores o) := by
  simp only [cblExpr, f_convert_board_log, List.getD_cons_succ, List.getD_cons_zero]
  rcases h with ⟨h, rfl⟩ | ⟨m, sc, h, hp, rfl⟩
  · ppsimp [jp_lookupD_members, h, bne]
  · ppsimp [jp_lookupD_members, h, bne, jsonToVal, jp_items, iterItems_tuple, jp_scores_comp _ _ _ _ hp]
    rfl

/-- the `contract` member of a record -/
def contractText (j : Json) : Str := ((j.get? (jkey "contract")).bind Json.str?).getD []

theorem jp_convert_board_log_call (f : Nat) (j : Json) (r : LogRead) (hm : logOfJson? j = some r) :
    callF (mkRec P (f+60)) f_convert_board_log [jsonToVal j]
      = .ok (encLogReadWith (encHands (pyHands (dealOf j))) (pyContract (contractText j) r.contract) r, jsonToVal j) := by
  rw [jp_logOfJson_eq] at hm
  cases hst : settingOfJson? j with
  | none => rw [hst] at hm; cases hm
  | some st =>
  rw [hst] at hm
  obtain ⟨l, -, -, -, rfl, -⟩ := jp_setting_cases j st hst
  obtain ⟨declarer, hd, hm⟩ := jp_logK0_some _ _ _ hm
  obtain ⟨ctext, contract, tricks, hc, hk, ht, hm⟩ := jp_logK1_some _ _ _ _ hm
  obtain ⟨players, hp, hm⟩ := jp_logK2_some _ _ _ _ _ _ hm
  obtain ⟨bids, hb, hm⟩ := jp_logK3_some _ _ _ _ _ _ _ hm
  obtain ⟨play, hpl, hm⟩ := jp_logK4_some _ _ _ _ _ _ _ _ hm
  obtain ⟨scoreType, hs, hm⟩ := jp_logK5_some _ _ _ _ _ _ _ _ _ hm
  obtain ⟨scores, hsc, rfl⟩ := jp_logK6_some _ _ _ _ _ _ _ _ _ _ hm
  have hdv : ∃ v, (Json.obj l).get? ['d', 'e', 'c', 'l', 'a', 'r', 'e', 'r'] = some v := by
    rcases hd with ⟨h, -⟩ | ⟨s, p, h, -⟩ <;> exact ⟨_, h⟩
  have htv : ∃ v, (Json.obj l).get? ['t', 'a', 'k', 'e', 'n', '_', 't', 'r', 'i', 'c', 'k'] = some v := by
    rcases ht with ⟨h, -⟩ | ⟨n, h, -⟩ <;> exact ⟨_, h⟩
  obtain ⟨dv, hdv⟩ := hdv
  obtain ⟨tv, htv⟩ := htv
  have hct : contractText (Json.obj l) = ctext := by
    show (((Json.obj l).get? ['c', 'o', 'n', 't', 'r', 'a', 'c', 't']).bind Json.str?).getD [] = ctext
    rw [hc]; rfl
  have e0 := fun g tail => jp_eval_setting g l tail st hst
  have e1 := fun g tail => jp_eval_in g l tail _ _ hdv
  have e2 := fun g tail => jp_eval_in g l tail _ _ hc
  have e3 := fun g tail => jp_eval_in g l tail _ _ htv
  have e4 := fun g tail => jp_eval_declarer g l tail _ hd
  have e5 := fun g tail hands => jp_eval_contract g l tail hands st _ _ _ hc hk
  have e6 := fun g tail => jp_eval_tricks g l tail _ ht
  have e7 := fun g tail => jp_eval_players g l tail _ hp
  have e8 := fun g tail => jp_eval_bids g l tail _ hb
  have e9 := fun g tail => jp_eval_play g l tail _ hpl
  have e10 := fun g tail => jp_eval_score_type g l tail _ hs
  have e11 := fun g tail => jp_eval_scores g l tail _ hsc
  simp only [cblExpr, f_convert_board_log, List.getD_cons_succ, List.getD_cons_zero] at e0 e4 e5 e6 e7 e8 e9 e10 e11
  rw [callF_def]
  simp only [f_convert_board_log, bindParams, Option.map, jsonToVal]
  simp -implicitDefEqProofs +decide only [exec_succ, execF, execStmtF, eval_succ, bind_ok, pure_eq, assignToF, update,
    ↓reduceIte, reduceIte, truthy, e0, e1, e2, e3, e4, e5, e6, e7, e8, e9, e10, e11]
  ppsimp [encSettingWith, jp_construct_log]
  rw [hct]; rfl

end Bridge.Translated
