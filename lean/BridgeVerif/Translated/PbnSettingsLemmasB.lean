import BridgeVerif.Translated.PbnSettingsLemmasA
/-! Translated `PbnParser.parse_board_settings` = model: one game of the loop (`settingOfGame?`), success and failures -/
set_option linter.unusedSimpArgs false
namespace Bridge.Translated
open Bridge Bridge.Py Bridge.Generated.PyCore Bridge.RegexPbn Bridge.RegexHands Bridge.Translated.HandsPbn

/-- the record read equals the model's up to the hands: the same members seat by seat, listed without repetition -/
def SameSetting (e' e : SettingEntry) : Prop :=
  e'.boardId = e.boardId ∧ e'.dealer = e.dealer ∧ e'.vul = e.vul ∧ e'.dda = e.dda ∧ SameHands e'.deal e.deal ∧
    ∀ p, (e'.deal p).Nodup

/-- the exception classes `parse_board_settings` can raise on a game: `KeyError` (a missing tag, `Player[name]` or
`Vul[name]` on an unknown name), `Exception` (`Hands.convert_pbn`) -/
def psErrors : List Id := [K.KeyError, K.Exception]

def psbBody : List Stmt := match m_PbnParser_parse_board_settings.body.getD 1 .pass with
  | .ite _ [_, .for _ _ b] _ => b
  | _ => []

theorem ps_toList_deal : "Deal".toList = ['D', 'e', 'a', 'l'] := by decide
theorem ps_toList_dealer : "Dealer".toList = ['D', 'e', 'a', 'l', 'e', 'r'] := by decide
theorem ps_toList_vul : "Vulnerable".toList = ['V', 'u', 'l', 'n', 'e', 'r', 'a', 'b', 'l', 'e'] := by decide
theorem ps_toList_board : "Board".toList = ['B', 'o', 'a', 'r', 'd'] := by decide

theorem ps_cls_Player : P.cls? n_Player = some (clsOf n_Player) := rfl

/-- one game -/
theorem ps_step (hh : HandsRegexFacts) (g0 : Nat) (sv fv iv : Val) (acc : List Val) (tail : Env) (g : Game) :
    match settingOfGame? g with
    | some e => ∃ e' tail', SameSetting e' e ∧
        execF (mkRec P (g0 + 57)) P
          ((K.self, sv) :: (n_fp, fv) :: (n_outputs, .tuple acc) :: (n__it1, iv) :: update tail n_x (encGame g)) psbBody
        = .ok ((K.self, sv) :: (n_fp, fv) :: (n_outputs, .tuple (acc ++ [encSetting e'])) :: (n__it1, iv) :: tail', .next)
    | none => ∃ c, c ∈ psErrors ∧
        execF (mkRec P (g0 + 57)) P
          ((K.self, sv) :: (n_fp, fv) :: (n_outputs, .tuple acc) :: (n__it1, iv) :: update tail n_x (encGame g)) psbBody
        = .error (.exc c) := by
  have l1 := ps_lookupD_game ['D', 'e', 'a', 'l'] g
  have l2 := ps_lookupD_game ['D', 'e', 'a', 'l', 'e', 'r'] g
  have l3 := ps_lookupD_game ['V', 'u', 'l', 'n', 'e', 'r', 'a', 'b', 'l', 'e'] g
  have l4 := ps_lookupD_game ['B', 'o', 'a', 'r', 'd'] g
  simp only [settingOfGame?, ps_toList_deal, ps_toList_dealer, ps_toList_vul, ps_toList_board, psbBody,
    m_PbnParser_parse_board_settings, List.getD_cons_succ, List.getD_cons_zero, encGame, bind, pure]
  cases h1 : gameGet? g ['D', 'e', 'a', 'l'] with
  | none =>
    simp only [Option.bind_some, Option.bind_none]
    rw [h1] at l1
    refine ⟨K.KeyError, by decide, ?_⟩
    ppsimp [l1, hp_mth_convert_pbn]
  | some ds =>
  simp only [Option.bind_some, Option.bind_none]
  rw [h1] at l1
  have hc := ps_convert_call hh (g0 + 5) (.cls n_Hands) ds
  cases h1' : convertPbn? ds with
  | none =>
    simp only [Option.bind_some, Option.bind_none]
    rw [h1'] at hc
    have hc' : callF (mkRec P (g0 + 55)) m_Hands_convert_pbn [.cls n_Hands, .str ds] = .error (.exc K.Exception) := hc
    refine ⟨K.Exception, by decide, ?_⟩
    ppsimp [l1, hp_mth_convert_pbn, hc']
  | some deal =>
  simp only [Option.bind_some, Option.bind_none]
  rw [h1'] at hc
  obtain ⟨h', hnd, hsame, hc⟩ := hc
  have hc' : callF (mkRec P (g0 + 55)) m_Hands_convert_pbn [.cls n_Hands, .str ds] = .ok (encHands h', .cls n_Hands) := hc
  cases h2 : gameGet? g ['D', 'e', 'a', 'l', 'e', 'r'] with
  | none =>
    simp only [Option.bind_some, Option.bind_none]
    rw [h2] at l2
    refine ⟨K.KeyError, by decide, ?_⟩
    ppsimp [l1, hp_mth_convert_pbn, hc', l2, ps_cls_Player]
  | some dn =>
  simp only [Option.bind_some, Option.bind_none]
  rw [h2] at l2
  cases h2' : seatOfName? dn with
  | none =>
    simp only [Option.bind_some, Option.bind_none]
    refine ⟨K.KeyError, by decide, ?_⟩
    ppsimp [l1, hp_mth_convert_pbn, hc', l2, ps_cls_Player, ps_member_seat_none _ h2']
  | some dealer =>
  simp only [Option.bind_some, Option.bind_none]
  cases h3 : gameGet? g ['V', 'u', 'l', 'n', 'e', 'r', 'a', 'b', 'l', 'e'] with
  | none =>
    simp only [Option.bind_some, Option.bind_none]
    rw [h3] at l3
    refine ⟨K.KeyError, by decide, ?_⟩
    ppsimp [l1, hp_mth_convert_pbn, hc', l2, ps_cls_Player, jp_member_seat _ _ h2', l3, jp_mth_str_to_vul]
  | some vs =>
  simp only [Option.bind_some, Option.bind_none]
  rw [h3] at l3
  cases h3' : strToVul? vs with
  | none =>
    simp only [Option.bind_some, Option.bind_none]
    refine ⟨K.KeyError, by decide, ?_⟩
    ppsimp [l1, hp_mth_convert_pbn, hc', l2, ps_cls_Player, jp_member_seat _ _ h2', l3, jp_mth_str_to_vul,
      ps_str_to_vul_call_none _ _ h3']
  | some vul =>
  simp only [Option.bind_some, Option.bind_none]
  cases h4 : gameGet? g ['B', 'o', 'a', 'r', 'd'] with
  | none =>
    simp only [Option.bind_some, Option.bind_none]
    rw [h4] at l4
    refine ⟨K.KeyError, by decide, ?_⟩
    ppsimp [l1, hp_mth_convert_pbn, hc', l2, ps_cls_Player, jp_member_seat _ _ h2', l3, jp_mth_str_to_vul,
      jp_str_to_vul_call _ _ _ h3', l4]
  | some id =>
    simp only [Option.bind_some, Option.bind_none]
    rw [h4] at l4
    refine ⟨{ boardId := id, dealer := dealer, deal := h', vul := vul, dda := none }, ?_⟩
    refine Exists.imp (fun t ht => ⟨⟨rfl, rfl, rfl, rfl, hsame, hnd⟩, ht⟩) ?_
    ppsimp [l1, hp_mth_convert_pbn, hc', l2, ps_cls_Player, jp_member_seat _ _ h2', l3, jp_mth_str_to_vul,
      jp_str_to_vul_call _ _ _ h3', l4, jp_construct_setting]
    exact ⟨_, rfl⟩

end Bridge.Translated
