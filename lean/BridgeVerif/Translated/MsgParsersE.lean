import BridgeVerif.Translated.MsgParsersD
/-! Translated `MessageInterface.parse_card` (socket_interface.py), the REFUSING direction: for every text of the class
`RegexMsgBid.agree` (every ASCII text), every seat and every fuel ≥ 20, if the model's `parseCard?` refuses the text then the
generated `parse_card` raises — `Exception` (the pattern does not match), `IndexError` (fewer than two characters after
`plays `), `ValueError` (no rank character; rank 0 or 1) or `KeyError` (no suit letter). -/
set_option maxRecDepth 4000
namespace Bridge.Translated.MsgParsers
open Bridge Bridge.Py Bridge.Generated.PyCore Bridge.Translated Bridge.RegexHands Bridge.RegexMsgBid
open Bridge.Translated.HandsPbn

/-! ## the failing pieces -/
theorem mp_builtin_int_none (r : Rec) (s : List Char) (h : parseInt? s = none) :
    builtinF r P .int [.str s] = .error (.exc K.ValueError) := by
  simp only [builtinF, h]; rfl

theorem mp_parseInt_none (b : Char) (h : digitVal? b = none) : parseInt? [b] = none := by
  have hnd : b.isDigit = false := by
    cases hb : b.isDigit with
    | false => rfl
    | true =>
      exfalso
      simp only [Char.isDigit, Bool.and_eq_true, decide_eq_true_eq] at hb
      have : ('0' ≤ b ∧ b ≤ '9') := ⟨hb.1, hb.2⟩
      simp [digitVal?, this] at h
  unfold parseInt?
  split
  · rename_i heq; cases heq; rfl
  · rename_i heq; cases heq; rfl
  · simp [parseNat?, hnd]

/-- `Card.rank_str_to_int` on a character that is no rank: `int(...)` raises `ValueError` -/
theorem mp_rank_fail (f : Nat) (b : Char) (h : rankOfChar? b = none) :
    callF (mkRec P (f+10)) m_Card_rank_str_to_int [.cls n_Card, .str [b]] = .error (.exc K.ValueError) := by
  unfold rankOfChar? at h
  split at h <;> try (cases h)
  rename_i h1 h2 h3 h4 h5
  have e1 : ¬ [b] = ['T'] := by intro e; cases e; exact h1 rfl
  have e2 : ¬ [b] = ['J'] := by intro e; cases e; exact h2 rfl
  have e3 : ¬ [b] = ['Q'] := by intro e; cases e; exact h3 rfl
  have e4 : ¬ [b] = ['K'] := by intro e; cases e; exact h4 rfl
  have e5 : ¬ [b] = ['A'] := by intro e; cases e; exact h5 rfl
  rw [callF_def]
  simp only [m_Card_rank_str_to_int, bindParams, Option.map]
  ppsimp [jp_beq_str', e1, e2, e3, e4, e5, mapR, mp_builtin_int_none _ _ (mp_parseInt_none b h)]

/-- `Card(rank, suit)` with a rank outside 2..14: `__post_init__` raises `ValueError` -/
theorem mp_construct_fail (f : Nat) (rk : Nat) (su : Suit) (h : rk < 2 ∨ 14 < rk) :
    constructF (mkRec P (f+9)) P n_Card [.int rk, .enum n_Suit su.value] = .error (.exc K.ValueError) := by
  have e : constructF (mkRec P (f+9)) P n_Card [.int rk, .enum n_Suit su.value]
      = (callF (mkRec P (f+8)) m_Card___post_init__ [encCard ⟨rk, su⟩] >>= fun x => pure x.2) := rfl
  rw [e, callF_def]
  simp only [m_Card___post_init__, bindParams, Option.map, encCard]
  have h1 : ((rk : Int) < 2) ∨ (14 < (rk : Int)) := by omega
  rcases h1 with h1 | h1
  · ppsimp [h1]
  · have h2 : ¬ ((rk : Int) < 2) := by omega
    ppsimp [h1, h2]

theorem mp_member_suit_none (b : Char) (h : suitOfName? [b] = none) : memberValue? (clsOf n_Suit) [b] = none := by
  unfold suitOfName? at h
  split at h <;> try (cases h)
  rename_i h1 h2 h3 h4 h5
  have e1 : b ≠ 'C' := fun e => h1 (by rw [e])
  have e2 : b ≠ 'D' := fun e => h2 (by rw [e])
  have e3 : b ≠ 'H' := fun e => h3 (by rw [e])
  have e4 : b ≠ 'S' := fun e => h4 (by rw [e])
  have hm : (clsOf n_Suit).members = [(['C'], 1), (['D'], 2), (['H'], 3), (['S'], 4), (['N', 'T'], 5)] := by
    with_unfolding_all rfl
  have f1 : ('C' == b) = false := beq_eq_false_iff_ne.2 e1.symm
  have f2 : ('D' == b) = false := beq_eq_false_iff_ne.2 e2.symm
  have f3 : ('H' == b) = false := beq_eq_false_iff_ne.2 e3.symm
  have f4 : ('S' == b) = false := beq_eq_false_iff_ne.2 e4.symm
  simp [memberValue?, hm, List.find?, f1, f2, f3, f4]

theorem mp_index_str_nil (r : Rec) (i : Int) (h : 0 ≤ i) : indexF r P (.str []) (.int i) = .error (.exc K.IndexError) := by
  simp [indexF, asInt?, normIndex, h]; rfl
theorem mp_index_str_oob1 (r : Rec) (a : Char) : indexF r P (.str [a]) (.int 1) = .error (.exc K.IndexError) := by
  simp [indexF, asInt?, normIndex]; rfl

/-- the classes `parse_card` raises -/
def cardErrs : List Id := [K.Exception, K.IndexError, K.ValueError, K.KeyError]

theorem mp_suit_of_letter (a : Char) (h : a = 'S' ∨ a = 'H' ∨ a = 'D' ∨ a = 'C') :
    ∃ su, suitOfName? [a] = some su := by
  rcases h with rfl | rfl | rfl | rfl
  · exact ⟨.S, rfl⟩
  · exact ⟨.H, rfl⟩
  · exact ⟨.D, rfl⟩
  · exact ⟨.C, rfl⟩

theorem mp_mkCard_none (rk : Nat) (su : Suit) (a : Char) (hsu : suitOfName? [a] = some su) (h : mkCard? rk su = none) :
    rk < 2 ∨ 14 < rk := by
  have hnt : su ≠ .NT := by
    intro e; subst e
    unfold suitOfName? at hsu
    split at hsu
    · cases hsu
    · cases hsu
    · cases hsu
    · cases hsu
    · rename_i heq; simp at heq
    · cases hsu
  unfold mkCard? at h
  split at h
  · assumption
  · simp at h

/-- `parse_card(content, player)` when the model refuses the text -/
theorem mp_parse_card_refuses_call (f : Nat) (content : List Char) (hs : ∀ x ∈ content, agree x = true) (p : Seat)
    (h : parseCard? content p = none) :
    ∃ c ∈ cardErrs, callF (mkRec P (f+19)) m_MessageInterface_parse_card [.str content, encSeat p] = .error (.exc c) := by
  have hfact := match_plays p content hs
  have hpat : p.formal.append ([' ', 'p', 'l', 'a', 'y', 's', ' ', '(', '.', '*', ')'].append []) = playsPat p := by
    cases p <;> rfl
  rw [callF_def]
  simp only [m_MessageInterface_parse_card, bindParams, Option.map]
  cases hr : stripPrefixCI (p.formal ++ " plays ".toList) content with
  | none =>
    rw [hr] at hfact
    refine ⟨K.Exception, by simp [cardErrs], ?_⟩
    ppsimp [mp_formal_name, mapR, strOfF, List.flatten, hpat, mp_mth_pmb, mp_pmb_none _ _ _ hfact]
  | some r =>
    rw [hr] at hfact
    obtain ⟨g0, hpmb⟩ := mp_pmb_some (playsPat p) content [r.takeWhile (· ≠ '\n')] hfact
    unfold parseCard? at h
    rw [hr] at h
    simp only at h
    cases hw : upperS (r.takeWhile (· ≠ '\n')) with
    | nil =>
      refine ⟨K.IndexError, by simp [cardErrs], ?_⟩
      ppsimp [mp_formal_name, mapR, strOfF, List.flatten, hpat, mp_mth_pmb, hpmb, List.map_cons, List.map_nil,
        hp_mth_group, mp_group_call2 _ _ _ _ _ (by decide : normIndex 2 1 = some 1), List.getD_cons_succ,
        List.getD_cons_zero, mp_builtin_upper, hw, mp_index_str_nil _ 0 (by decide)]
    | cons a t =>
      cases t with
      | nil =>
        by_cases hab : a = 'S' ∨ a = 'H' ∨ a = 'D' ∨ a = 'C'
        · refine ⟨K.IndexError, by simp [cardErrs], ?_⟩
          ppsimp [mp_formal_name, mapR, strOfF, List.flatten, hpat, mp_mth_pmb, hpmb, List.map_cons, List.map_nil,
            hp_mth_group, mp_group_call2 _ _ _ _ _ (by decide : normIndex 2 1 = some 1), List.getD_cons_succ,
            List.getD_cons_zero, mp_builtin_upper, hw, mp_index_str0, mp_index_str_oob1, mp_contains_suit, hab]
        · cases hrk : rankOfChar? a with
          | none =>
            refine ⟨K.ValueError, by simp [cardErrs], ?_⟩
            ppsimp [mp_formal_name, mapR, strOfF, List.flatten, hpat, mp_mth_pmb, hpmb, List.map_cons, List.map_nil,
              hp_mth_group, mp_group_call2 _ _ _ _ _ (by decide : normIndex 2 1 = some 1), List.getD_cons_succ,
              List.getD_cons_zero, mp_builtin_upper, hw, mp_index_str0, mp_index_str_oob1, mp_contains_suit, hab,
              jp_mth_rank_str_to_int, mp_rank_fail _ _ hrk]
          | some rk =>
            refine ⟨K.IndexError, by simp [cardErrs], ?_⟩
            ppsimp [mp_formal_name, mapR, strOfF, List.flatten, hpat, mp_mth_pmb, hpmb, List.map_cons, List.map_nil,
              hp_mth_group, mp_group_call2 _ _ _ _ _ (by decide : normIndex 2 1 = some 1), List.getD_cons_succ,
              List.getD_cons_zero, mp_builtin_upper, hw, mp_index_str0, mp_index_str_oob1, mp_contains_suit, hab,
              jp_mth_rank_str_to_int, jp_rank_str_to_int_call _ _ _ hrk, jp_cls_Suit]
      | cons b t =>
        rw [hw] at h
        simp only at h
        by_cases hab : a = 'S' ∨ a = 'H' ∨ a = 'D' ∨ a = 'C'
        · rw [if_pos hab] at h
          cases hrk : rankOfChar? b with
          | none =>
            refine ⟨K.ValueError, by simp [cardErrs], ?_⟩
            ppsimp [mp_formal_name, mapR, strOfF, List.flatten, hpat, mp_mth_pmb, hpmb, List.map_cons, List.map_nil,
              hp_mth_group, mp_group_call2 _ _ _ _ _ (by decide : normIndex 2 1 = some 1), List.getD_cons_succ,
              List.getD_cons_zero, mp_builtin_upper, hw, mp_index_str0, mp_index_str1, mp_contains_suit, hab,
              jp_mth_rank_str_to_int, mp_rank_fail _ _ hrk]
          | some rk =>
            obtain ⟨su, hsu⟩ := mp_suit_of_letter a hab
            rw [hrk, hsu] at h
            have hbad := mp_mkCard_none rk su a hsu h
            refine ⟨K.ValueError, by simp [cardErrs], ?_⟩
            ppsimp [mp_formal_name, mapR, strOfF, List.flatten, hpat, mp_mth_pmb, hpmb, List.map_cons, List.map_nil,
              hp_mth_group, mp_group_call2 _ _ _ _ _ (by decide : normIndex 2 1 = some 1), List.getD_cons_succ,
              List.getD_cons_zero, mp_builtin_upper, hw, mp_index_str0, mp_index_str1, mp_contains_suit, hab,
              jp_mth_rank_str_to_int, jp_rank_str_to_int_call _ _ _ hrk, jp_cls_Suit, jp_member_suit _ _ hsu,
              mp_construct_fail _ rk su hbad]
        · rw [if_neg hab] at h
          cases hrk : rankOfChar? a with
          | none =>
            refine ⟨K.ValueError, by simp [cardErrs], ?_⟩
            ppsimp [mp_formal_name, mapR, strOfF, List.flatten, hpat, mp_mth_pmb, hpmb, List.map_cons, List.map_nil,
              hp_mth_group, mp_group_call2 _ _ _ _ _ (by decide : normIndex 2 1 = some 1), List.getD_cons_succ,
              List.getD_cons_zero, mp_builtin_upper, hw, mp_index_str0, mp_index_str1, mp_contains_suit, hab,
              jp_mth_rank_str_to_int, mp_rank_fail _ _ hrk]
          | some rk =>
            cases hsu : suitOfName? [b] with
            | none =>
              refine ⟨K.KeyError, by simp [cardErrs], ?_⟩
              ppsimp [mp_formal_name, mapR, strOfF, List.flatten, hpat, mp_mth_pmb, hpmb, List.map_cons, List.map_nil,
                hp_mth_group, mp_group_call2 _ _ _ _ _ (by decide : normIndex 2 1 = some 1), List.getD_cons_succ,
                List.getD_cons_zero, mp_builtin_upper, hw, mp_index_str0, mp_index_str1, mp_contains_suit, hab,
                jp_mth_rank_str_to_int, jp_rank_str_to_int_call _ _ _ hrk, jp_cls_Suit, mp_member_suit_none _ hsu]
            | some su =>
              rw [hrk, hsu] at h
              have hbad := mp_mkCard_none rk su b hsu h
              refine ⟨K.ValueError, by simp [cardErrs], ?_⟩
              ppsimp [mp_formal_name, mapR, strOfF, List.flatten, hpat, mp_mth_pmb, hpmb, List.map_cons, List.map_nil,
                hp_mth_group, mp_group_call2 _ _ _ _ _ (by decide : normIndex 2 1 = some 1), List.getD_cons_succ,
                List.getD_cons_zero, mp_builtin_upper, hw, mp_index_str0, mp_index_str1, mp_contains_suit, hab,
                jp_mth_rank_str_to_int, jp_rank_str_to_int_call _ _ _ hrk, jp_cls_Suit, jp_member_suit _ _ hsu,
                mp_construct_fail _ rk su hbad]

/-- `parse_card` REFUSES WHAT THE MODEL REFUSES: every text of the class `agree`, every seat, every fuel ≥ 20 -/
theorem parse_card_refuses (content : List Char) (hs : ∀ x ∈ content, agree x = true) (p : Seat)
    (h : parseCard? content p = none) :
    ∀ f, 20 ≤ f → ∃ c ∈ cardErrs,
      callFn P f m_MessageInterface_parse_card [.str content, encSeat p] = .error (.exc c) := by
  intro f hf
  obtain ⟨g, rfl⟩ : ∃ g, f = g + 20 := ⟨f - 20, by omega⟩
  exact mp_parse_card_refuses_call g content hs p h

theorem parse_card_refuses_ascii (content : List Char) (hs : ∀ x ∈ content, x.toNat < 128) (p : Seat)
    (h : parseCard? content p = none) :
    ∀ f, 20 ≤ f → ∃ c ∈ cardErrs,
      callFn P f m_MessageInterface_parse_card [.str content, encSeat p] = .error (.exc c) :=
  parse_card_refuses content (fun x hx => agree_ascii x (hs x hx)) p h

end Bridge.Translated.MsgParsers
