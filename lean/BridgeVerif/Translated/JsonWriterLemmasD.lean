import BridgeVerif.Translated.JsonWriterLemmasC
/-! Translated JSON writers = model: the body of `JsonLogWriter.write` (symbolic execution up to the call of
`_write_content`, by cases on `play_history` / `dda` being `None`), and what `json.dumps` sees of the dict it builds -/
namespace Bridge.Translated
open Bridge Bridge.Py Bridge.Generated.PyCore

/-- well-formedness of a double-dummy table as a Python `dict` of `dict`s: the keys are pairwise distinct -/
def DdaWF (d : Dda) : Prop := (d.map (·.1)).Nodup ∧ ∀ pr ∈ d, (pr.2.map (·.1)).Nodup

/-- what the code needs of the arguments of `JsonLogWriter.write` -/
structure LogWF (e : LogEntry) : Prop where
  /-- ranks 2..14: `str(card)` prints the model's text and `sorted(deal[p])` is `sortAsc` -/
  deal : ∀ p, ∀ c ∈ e.deal p, 2 ≤ c.rank ∧ c.rank ≤ 14
  play : ∀ ts, e.play = some ts → ∀ t ∈ ts, ∀ c ∈ t.cards, 2 ≤ c.rank ∧ c.rank ≤ 14
  dda : ∀ d, e.dda = some d → DdaWF d

def playVal : Option (List Trick) → Val
  | none => .none
  | some ts => .tuple (ts.map trickVal)

def ddaKvs : Option Dda → List (Val × Val)
  | none => []
  | some d => [(.str (jkey "dda"), ddaVal d)]

/-- the dict `JsonLogWriter.write` builds -/
def logVal (e : LogEntry) : Val :=
  .dict ([(.str (jkey "players"), .dict [(.str ['N'], .str e.north), (.str ['E'], .str e.east), (.str ['S'], .str e.south),
                                          (.str ['W'], .str e.west)]),
          (.str (jkey "board_id"), .str e.boardId),
          (.str (jkey "dealer"), .str e.dealer.name),
          (.str (jkey "deal"), dealVal e.deal),
          (.str (jkey "vulnerability"), .str (vulStr e.contract.vul)),
          (.str (jkey "bid_history"), strList (e.bids.map callStr)),
          (.str (jkey "contract"), .str (contractStr e.contract)),
          (.str (jkey "declarer"), if e.contract.isPassedOut = true then .none else .str (seatOptStr e.contract.declarer)),
          (.str (jkey "play_history"), playVal e.play),
          (.str (jkey "taken_trick"), encOpt Val.int e.tricks),
          (.str (jkey "score_type"), .str e.scoring.value),
          (.str (jkey "scores"), .dict [(.str (jkey "NS"), .int e.scoreNS), (.str (jkey "EW"), .int e.scoreEW)])]
         ++ ddaKvs e.dda)

theorem jw_ite_ok {α} (b : Prop) [Decidable b] (x y : α) :
    (if b then (Except.ok x : R α) else Except.ok y) = Except.ok (if b then x else y) := by
  split <;> rfl

theorem jw_mth_lw_write : P.method? classDepth n_JsonLogWriter n_write = some (n_JsonLogWriter, m_JsonLogWriter_write) := rfl
theorem jw_mth_base_write_content :
    P.method? classDepth n_JsonWriter n__write_content = some (n_JsonWriter, m_JsonWriter__write_content) := rfl
theorem jw_beq_obj_none (c : Id) (fs : List (Id × Val)) : (Val.obj c fs).beq .none = false := by simp only [Val.beq]
theorem jw_beq_history_none (c : Contract) (ts : List Trick) : (encPlayingHistory c ts).beq .none = false := by
  simp only [encPlayingHistory, Val.beq]
theorem jw_beq_dda_none (d : Dda) : (jwEncDda d).beq .none = false := by simp only [jwEncDda, Val.beq]
theorem jw_beq_dict_none (kvs : List (Val × Val)) : (Val.dict kvs).beq .none = false := by simp only [Val.beq]

theorem jw_contract_vul (r : Rec) (c : Contract) : getAttrF r P (encContract c) n_vul = .ok (encVul c.vul) := rfl
theorem jw_contract_declarer (r : Rec) (c : Contract) :
    getAttrF r P (encContract c) n_declarer = .ok (encOpt encSeat c.declarer) := rfl
theorem jw_meth_ipo (f : Nat) (c : Contract) :
    methF (mkRec P (f+11)) P (encContract c) n_is_passed_out [] = .ok (.bool c.isPassedOut, encContract c) := by
  simp only [encContract, pp_meth_obj, callMethod, jw_mth_contract_ipo, call_succ]
  exact jw_contract_ipo_call f c

theorem jw_log_write_call_aux (f : Nat) (chunks : List Str) (fl : Bool) (e : LogEntry) (sc : List (Val × Val))
    (hns : lookupD sc (encSide .NS) = some (.int e.scoreNS)) (hew : lookupD sc (encSide .EW) = some (.int e.scoreEW))
    (hwf : LogWF e) :
    callF (mkRec P (f+70)) m_JsonLogWriter_write (encWriter n_JsonLogWriter chunks true fl :: logArgsWith (.dict sc) e)
      = (callF (mkRec P (f+68)) m_JsonWriter__write_content [encWriter n_JsonLogWriter chunks true fl, logVal e]
          >>= fun x => .ok (.none, x.2)) := by
  rw [callF_def]
  obtain ⟨boardId, north, east, south, west, dealer, deal, scoring, bids, contract, play, tricks, scoreNS, scoreEW, dda⟩ := e
  have hns' : lookupD sc (.enum n_Pair 1) = some (.int scoreNS) := hns
  have hew' : lookupD sc (.enum n_Pair 2) = some (.int scoreEW) := hew
  have hdeal := hwf.deal
  have hplay := hwf.play
  have hdda := hwf.dda
  simp only at hdeal hplay hdda
  simp only [m_JsonLogWriter_write, bindParams, Option.map, encWriter, logArgsWith, logVal]
  have hct := fun ts h f env => jw_comp_tricks f env ts h
  simp only [jwTrickExpr, m_JsonLogWriter_write, List.getD_cons_succ, List.getD_cons_zero] at hct
  cases play with
  | none =>
    cases dda with
    | none =>
      ppsimp [jw_str_seat, jw_fn_convert_deal, jw_convert_deal_call _ _ hdeal, jw_str_vul, iterItems_tuple, jw_comp_str_bids,
        jw_str_contract, jw_meth_ipo, jw_contract_vul, jw_contract_declarer, jw_ite_ok, jw_str_optSeat, hns', hew', beq_none_none,
        updateD, Val.beq, List.map_cons, List.map_nil, jw_mth_base_write_content,
        encScoring, playVal, ddaKvs, List.append_nil, strList, bind_assoc, jkey, String.reduceToList]
    | some d =>
      have hd := hdda d rfl
      ppsimp [jw_str_seat, jw_fn_convert_deal, jw_convert_deal_call _ _ hdeal, jw_str_vul, iterItems_tuple, jw_comp_str_bids,
        jw_str_contract, jw_meth_ipo, jw_contract_vul, jw_contract_declarer, jw_ite_ok, jw_str_optSeat, hns', hew', beq_none_none,
        updateD, Val.beq, List.map_cons, List.map_nil, jw_mth_base_write_content,
        encScoring, playVal, ddaKvs, List.append_nil, strList, bind_assoc, jkey, String.reduceToList,
        jw_beq_dda_none, jw_items_dda, jw_dda_comp _ _ d hd.2,
        jw_foldl_updateD_names Seat.name jw_seat_name_inj ddaRowVal d hd.1, ddaVal]
  | some ts =>
    have hts := hct ts (hplay ts rfl)
    cases dda with
    | none =>
      ppsimp [jw_str_seat, jw_fn_convert_deal, jw_convert_deal_call _ _ hdeal, jw_str_vul, iterItems_tuple, jw_comp_str_bids,
        jw_str_contract, jw_meth_ipo, jw_contract_vul, jw_contract_declarer, jw_ite_ok, jw_str_optSeat, hns', hew', beq_none_none,
        updateD, Val.beq, List.map_cons, List.map_nil, jw_mth_base_write_content,
        encScoring, playVal, ddaKvs, List.append_nil, strList, bind_assoc, jkey, String.reduceToList,
        jw_beq_history_none, jw_history_attr, hts]
    | some d =>
      have hd := hdda d rfl
      ppsimp [jw_str_seat, jw_fn_convert_deal, jw_convert_deal_call _ _ hdeal, jw_str_vul, iterItems_tuple, jw_comp_str_bids,
        jw_str_contract, jw_meth_ipo, jw_contract_vul, jw_contract_declarer, jw_ite_ok, jw_str_optSeat, hns', hew', beq_none_none,
        updateD, Val.beq, List.map_cons, List.map_nil, jw_mth_base_write_content,
        encScoring, playVal, ddaKvs, List.append_nil, strList, bind_assoc, jkey, String.reduceToList,
        jw_beq_history_none, jw_history_attr, hts,
        jw_beq_dda_none, jw_items_dda, jw_dda_comp _ _ d hd.2,
        jw_foldl_updateD_names Seat.name jw_seat_name_inj ddaRowVal d hd.1, ddaVal]

theorem jw_ddaKvs_json (o : Option Dda) :
    kvsToJson (ddaKvs o) = some (match o with | none => [] | some d => [(jkey "dda", ddaJson d)]) := by
  cases o with
  | none => rfl
  | some d => simp only [ddaKvs, kvsToJson, jw_ddaVal_json]

theorem jw_kvsToJson_append (a b : List (Val × Val)) :
    kvsToJson (a ++ b) = match kvsToJson a, kvsToJson b with
      | some x, some y => some (x ++ y)
      | _, _ => none := by
  induction a with
  | nil => simp only [List.nil_append, kvsToJson]; cases kvsToJson b <;> rfl
  | cons x a ih =>
    obtain ⟨k, v⟩ := x
    cases k <;> try (simp only [List.cons_append, kvsToJson]; done)
    simp only [List.cons_append, kvsToJson, ih]
    cases valToJson v <;> cases kvsToJson a <;> cases kvsToJson b <;> rfl

theorem jw_logVal_json (e : LogEntry) : valToJson (logVal e) = some (logJson e) := by
  obtain ⟨boardId, north, east, south, west, dealer, deal, scoring, bids, contract, play, tricks, scoreNS, scoreEW, dda⟩ := e
  simp only [logVal, valToJson, Option.map, logJson, jw_kvsToJson_append, jw_ddaKvs_json]
  cases play <;> cases tricks <;> cases dda <;> cases contract.isPassedOut <;>
    simp [valToJson, kvsToJson, jw_dealVal_json, jw_strList_json, jw_tricks_json, playVal, encOpt, jstr, jkey]
end Bridge.Translated
