import BridgeVerif.Translated.ThreadsMainCLemmasSDef
import BridgeVerif.Spec.Scoring
/-! `calc_bid_score` inside the WHOLE translated program `P` (kernel evaluation at fuel 80), level 4 -/
namespace Bridge.Translated.MainC
open Bridge.Py Bridge.Generated.PyCore Bridge.Translated

theorem mc_cbs_level3 : ∀ k : Fin 5, ∀ x xx vul : Bool, ∀ t : Fin 14,
    (cbsP 80 [encBid ⟨5 * 3 + k.val, by omega⟩, .bool x, .bool xx, .bool vul, .int t.val]).int?
      = some (dupScore (bidLevel ⟨5 * 3 + k.val, by omega⟩) (bidDenom ⟨5 * 3 + k.val, by omega⟩)
          (if xx then .xx else if x then .x else .none) vul t.val) := by
  decide +kernel

end Bridge.Translated.MainC
