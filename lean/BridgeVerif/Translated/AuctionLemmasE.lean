import BridgeVerif.Translated.AuctionLemmasC
/-! Translated `BiddingPhase` = model: `take_bid`, the common tail (both histories, next player, the X / XX slots) -/
namespace Bridge.Translated
open Bridge Bridge.Py Bridge.Generated.PyCore

theorem tb_tail (f : Nat) (s : AState) (c : Call) (p : Seat) (h : s.active = some p) :
    execF (mkRec P (f+30)) P (envOf s c) tbTail = .ok (envOf (advance s p c) c, .ret (encRes .ongoing)) := by
  obtain ⟨dealer, vul, active, lastBidder, lastBid, calledX, calledXX, history, perSeat, declCheck, avail⟩ := s
  simp only at h; subst h
  simp only [tbTail, m_BiddingPhase_take_bid, List.drop, envOf, encState, advance, encRes]
  cases lastBidder with
  | none =>
    pysimp [lookup_perSeat, update_perSeat, getAttr_next, List.reverse_cons, List.map_append, List.map_cons, List.map_nil]
  | some lb =>
    cases hp : p.left.isPartner lb <;> cases calledX <;> cases calledXX <;>
    pysimp [lookup_perSeat, update_perSeat, getAttr_next, List.reverse_cons, List.map_append, List.map_cons, List.map_nil,
      is_partner_meth, hp, getAttr_Bid_idx, replaceAt_dbl_0, replaceAt_dbl_1, replaceAt_rdbl_0, replaceAt_rdbl_1,
      beq_encSeat_none]
    all_goals (congr; funext k; cases k <;> simp)

end Bridge.Translated
