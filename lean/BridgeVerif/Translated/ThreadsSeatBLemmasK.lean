import BridgeVerif.Translated.ThreadsSeatBLemmasJ
/-! Translated `SeatThread._playing_phase`: one turn of the outer loop, the outer loop, the method -/
namespace Bridge.Translated.SeatB
open Bridge Bridge.Py Bridge.Generated.PyCore

set_option maxRecDepth 4000

local notation "SW(" p "," q "," c "," out "," tb "," tbs ")" =>
  Val.obj n__World [(n_ins, Val.dict [(qkey "m2t" p, vtexts q), (vstr "conn", vtexts c)]), (n_out, Val.tuple out),
    (n_table, tb), (n_tables, Val.tuple tbs), (n_eof, Val.bool false)]

/-- the leader's name is taken from the queue and converted -/
theorem sb_trick_head (f : Nat) (p decl leader : Seat) (k : Nat) (env : Env) (q c : List Str) (ln : Str) (out : List Val)
    (tb : Val) (tbs : List Val) (extra : List (Id × Val))
    (he : PE2 env (seatSelf p ⟨ln :: q, c⟩ out tb tbs extra) decl) (hk : lookup env n_trick_num = some (.int k))
    (hl : seatOfFormal? ln = some leader) :
    ∃ env1, execF (mkRec P (f+25)) P env [ppT0, ppT1] = .ok (env1, .next) ∧
      PE1 env1 (seatSelf p ⟨q, c⟩ (out ++ [.tuple [vstr "get", vstr "m2t", encSeat p]]) tb tbs extra) decl k leader := by
  obtain ⟨h1, h2, h3⟩ := he
  simp only [ppT0, ppT1, ppOuterBody, m_SeatThread__playing_phase, List.getD_cons_succ, List.getD_cons_zero]
  simp only [seatSelf, encSeatThread, encSeatWorld, encWorld] at h1 ⊢
  have hcv := fun f => sb_convert f ln leader hl
  plsimp [h1, h2, h3, hk, sb_mth_convert, hcv]
  refine ⟨_, rfl, ⟨?_, ?_, ?_, ?_, ?_⟩⟩ <;>
    simp (config := { decide := true }) only [lookup_update_same, lookup_update_ne, ne_eq, h2, h3, hk]

/-- ONE TURN of `for trick_num in range(1, 14)` : the leader's name, then `seatTrickR … 0 leader` -/
theorem sb_trick_turn (f : Nat) (p decl leader : Seat) (k : Nat) (env : Env) (i i1 i2 : SeatIn) (ln : Str) (t : SeatActs)
    (out : List Val) (tb : Val) (tbs : List Val) (extra : List (Id × Val))
    (he : PE2 env (seatSelf p i out tb tbs extra) decl) (hk : lookup env n_trick_num = some (.int k))
    (hq : i.getQ = some (ln, i1)) (hl : seatOfFormal? ln = some leader)
    (ht : seatTrickR p decl (decide (k = 1)) 0 leader i1 = some (t, i2))
    (hc : trickChecks p decl k 4 0 leader i1) :
    ∃ env' ops, execF (mkRec P (f+25)) P env ppOuterBody = .ok (env', .next) ∧
      encSeatActs p ([.recv (.m2t p)] ++ t) = some ops ∧ PE2 env' (seatSelf p i2 (out ++ ops) tb tbs extra) decl := by
  obtain ⟨q, c⟩ := i
  cases q with
  | nil => simp only [SeatIn.getQ, reduceCtorEq] at hq
  | cons m q =>
    simp only [SeatIn.getQ, Option.some.injEq, Prod.mk.injEq] at hq
    obtain ⟨rfl, rfl⟩ := hq
    obtain ⟨env1, hx1, he1⟩ := sb_trick_head f p decl leader k env q c m out tb tbs extra he hk hl
    obtain ⟨env2, ops, hx2, eo, he2⟩ :=
      sb_trick_loop f p decl k tb tbs extra 4 0 leader env1 ⟨q, c⟩ i2 _ t rfl he1 ht hc
    refine ⟨env2, _ :: ops, ?_, ?_, by simpa [List.append_assoc] using he2⟩
    · rw [ppOuterBody_eq, sb_execF_append _ _ _ _ _ hx1]
      simp only [execF, sb_for_i, hx2, bind_ok, pure_eq]
    · simp only [List.cons_append, List.nil_append, encSeatActs, encSeatAct, if_true, eo, Option.bind_eq_bind,
        Option.bind_some, Option.pure_def]

/-- THE OUTER LOOP from trick `k` on (`n` tricks) is `seatPlayingR.tricks … n k` -/
theorem sb_tricks_loop (f : Nat) (p decl : Seat) (tb : Val) (tbs : List Val) (extra : List (Id × Val)) :
    ∀ (n k : Nat) (env : Env) (i i' : SeatIn) (out : List Val) (acts : SeatActs),
      PE2 env (seatSelf p i out tb tbs extra) decl →
      seatPlayingR.tricks p decl n k i = some (acts, i') → tricksChecks p decl n k i →
      ∃ env' ops, forF (mkRec P (f+26)) [n_trick_num] ppOuterBody env (intsFrom k n) = .ok (env', .next) ∧
        encSeatActs p acts = some ops ∧ PE2 env' (seatSelf p i' (out ++ ops) tb tbs extra) decl := by
  intro n
  induction n with
  | zero =>
    intro k env i i' out acts he hm _
    simp only [seatPlayingR.tricks, Option.some.injEq, Prod.mk.injEq] at hm
    obtain ⟨rfl, rfl⟩ := hm
    exact ⟨env, [], rfl, rfl, by simpa using he⟩
  | succ n ih =>
    intro k env i i' out acts he hm hc
    simp only [seatPlayingR.tricks] at hm
    cases h1 : i.getQ with
    | none => simp only [h1, bind, Option.bind, reduceCtorEq] at hm
    | some li =>
      obtain ⟨ln, i1⟩ := li
      cases h2 : seatOfFormal? ln with
      | none => simp only [h1, h2, bind, Option.bind, reduceCtorEq] at hm
      | some leader =>
        obtain ⟨hc1, hc2⟩ := hc ln i1 leader h1 h2
        cases h3 : seatTrickR p decl (decide (k = 1)) 0 leader i1 with
        | none => simp only [h1, h2, h3, bind, Option.bind, reduceCtorEq] at hm
        | some ti =>
          obtain ⟨t, i2⟩ := ti
          cases h4 : seatPlayingR.tricks p decl n (k + 1) i2 with
          | none => simp only [h1, h2, h3, h4, bind, Option.bind, reduceCtorEq] at hm
          | some ri =>
            obtain ⟨rest, i3⟩ := ri
            simp only [h1, h2, h3, h4, bind, Option.bind, pure, Option.some.injEq, Prod.mk.injEq] at hm
            obtain ⟨rfl, rfl⟩ := hm
            have he0 : PE2 (update env n_trick_num (.int k)) (seatSelf p i out tb tbs extra) decl := by
              obtain ⟨a1, a2, a3⟩ := he
              refine ⟨?_, ?_, ?_⟩ <;>
                simp (config := { decide := true }) only [lookup_update_ne, ne_eq, a1, a2, a3]
            obtain ⟨env1, ops, hx, eo, he1⟩ := sb_trick_turn f p decl leader k _ i i1 i2 ln t out tb tbs extra he0
              (lookup_update_same _ _ _) h1 h2 h3 hc1
            obtain ⟨env2, ops', hx', eo', he2⟩ := ih (k + 1) env1 i2 i3 (out ++ ops) rest he1 h4 (hc2 t i2 h3)
            refine ⟨env2, ops ++ ops', ?_, ?_, by simpa [List.append_assoc] using he2⟩
            · simp only [intsFrom, forF, pure_eq, bind_ok, exec_succ, hx]
              exact hx'
            · have := encSeatActs_append p _ _ _ _ eo eo'
              simpa [List.append_assoc] using this

theorem sb_range_1_14 (r : Rec) : builtinF r P .range [.int 1, .int 14] = .ok (.tuple (intsFrom 1 13)) := rfl

/-- `_playing_phase` at fuel `f + 27` -/
theorem sb_playing_call (f : Nat) (p : Seat) (i i' : SeatIn) (acts : SeatActs) (out : List Val) (tb : Val)
    (tbs : List Val) (extra : List (Id × Val))
    (hm : seatPlayingR p i = some (acts, i')) (hc : playingChecks p i) :
    ∃ ops, encSeatActs p acts = some ops ∧
      callF (mkRec P (f+27)) m_SeatThread__playing_phase [seatSelf p i out tb tbs extra]
        = .ok (.bool true, seatSelf p i' (out ++ ops) tb tbs extra) := by
  simp only [seatPlayingR] at hm
  cases h1 : i.getQ with
  | none => simp only [h1, bind, Option.bind, reduceCtorEq] at hm
  | some di =>
    obtain ⟨dn, i1⟩ := di
    cases h2 : seatOfFormal? dn with
    | none => simp only [h1, h2, bind, Option.bind, reduceCtorEq] at hm
    | some decl =>
      cases h3 : seatPlayingR.tricks p decl 13 1 i1 with
      | none => simp only [h1, h2, h3, bind, Option.bind, reduceCtorEq] at hm
      | some ti =>
        obtain ⟨ts, i2⟩ := ti
        simp only [h1, h2, h3, bind, Option.bind, pure, Option.some.injEq, Prod.mk.injEq] at hm
        obtain ⟨rfl, rfl⟩ := hm
        obtain ⟨q, c⟩ := i
        cases q with
        | nil => simp only [SeatIn.getQ, reduceCtorEq] at h1
        | cons m q =>
          simp only [SeatIn.getQ, Option.some.injEq, Prod.mk.injEq] at h1
          obtain ⟨rfl, rfl⟩ := h1
          have hcv := fun f => sb_convert f m decl h2
          have hc' := hc m ⟨q, c⟩ decl rfl h2
          have he0 : PE2 [(K.self, seatSelf p ⟨q, c⟩ (out ++ [.tuple [vstr "get", vstr "m2t", encSeat p]]) tb tbs extra),
              (n__t1, .str m), (n_declarer, encSeat decl), (n_dummy, encSeat decl.partner)]
              (seatSelf p ⟨q, c⟩ (out ++ [.tuple [vstr "get", vstr "m2t", encSeat p]]) tb tbs extra) decl :=
            ⟨rfl, rfl, rfl⟩
          obtain ⟨env', ops, hx, eo, he'⟩ := sb_tricks_loop f p decl tb tbs extra 13 1 _ ⟨q, c⟩ i2 _ ts he0 h3 hc'
          refine ⟨.tuple [vstr "get", vstr "m2t", encSeat p] :: ops, ?_, ?_⟩
          · simp only [List.cons_append, List.nil_append, encSeatActs, encSeatAct, if_true, eo, Option.bind_eq_bind,
              Option.bind_some, Option.pure_def]
          · rw [callF_def]
            simp only [m_SeatThread__playing_phase, bindParams, Option.map]
            simp only [ppOuterBody, m_SeatThread__playing_phase, List.getD_cons_succ, List.getD_cons_zero] at hx
            simp only [seatSelf, encSeatThread, encSeatWorld, encWorld] at hx he' ⊢
            plsimp [sb_mth_convert, hcv, getAttr_partner, sb_range_1_14, iterItems_tuple]
            rw [hx]
            have hs := he'.hself
            simp only [List.append_assoc, List.cons_append, List.nil_append] at hs
            simp only [bind_ok, hs, Option.getD_some]

end Bridge.Translated.SeatB
