import BridgeVerif.Translated.MsgParsersE
/-! Translated `MessageInterface.parse_bid` (socket_interface.py), the REFUSING direction: for every ASCII text, every seat's
formal name and every fuel ≥ 22, if the model's `parseBid?` refuses the text then the generated `parse_bid` raises —
`ValueError` (the bid pattern matches with a level 0, 8 or 9: `Bid.level_suit_to_bid` / `Bid(...)` refuse) or `Exception`
(neither pattern matches, or the text after the name is none of `passes` / `doubles` / `redoubles`). -/
set_option maxRecDepth 4000
namespace Bridge.Translated.MsgParsers
open Bridge Bridge.Py Bridge.Generated.PyCore Bridge.Translated Bridge.RegexHands Bridge.RegexMsgBid
open Bridge.Translated.HandsPbn

/-- `Bid.level_suit_to_bid` on a one-digit level, both outcomes -/
theorem mp_lstb_all' (f : Nat) (su : Suit) (l : Fin 10) :
    callF (mkRec P (f+12)) m_Bid_level_suit_to_bid [.cls n_Bid, .int (l.val : Int), .enum n_Suit su.value]
      = match levelSuitToCall? (l.val : Int) su with
        | some call => .ok (encCall call, .cls n_Bid)
        | none => .error (.exc K.ValueError) := by
  rcases l with ⟨l, hl⟩
  rcases l with _|_|_|_|_|_|_|_|_|_|l <;> first | (exfalso; omega) | skip
  all_goals cases su <;> with_unfolding_all rfl

theorem mp_lstb_fail (f : Nat) (su : Suit) (l : Nat) (hl : l < 10) (h : levelSuitToCall? (l : Int) su = none) :
    callF (mkRec P (f+12)) m_Bid_level_suit_to_bid [.cls n_Bid, .int (l : Int), .enum n_Suit su.value]
      = .error (.exc K.ValueError) := by
  have := mp_lstb_all' f su ⟨l, hl⟩
  simp only [h] at this
  exact this

/-- the classes `parse_bid` raises -/
def bidErrs : List Id := [K.ValueError, K.Exception]

theorem mp_wordCall_none (content name : List Char) (h : wordCall? content name = none) :
    stripPrefixCI (name ++ [' ']) content = none ∨
    ∃ r, stripPrefixCI (name ++ [' ']) content = some r ∧
      lowerS (r.takeWhile (· ≠ '\n')) ≠ "passes".toList ∧ lowerS (r.takeWhile (· ≠ '\n')) ≠ "doubles".toList ∧
      lowerS (r.takeWhile (· ≠ '\n')) ≠ "redoubles".toList := by
  unfold wordCall? at h
  split at h
  · rename_i hr; exact Or.inl hr
  · rename_i r hr
    refine Or.inr ⟨r, hr, ?_⟩
    simp only at h
    split at h
    · cases h
    · rename_i h1
      split at h
      · cases h
      · rename_i h2
        split at h
        · cases h
        · rename_i h3; exact ⟨h1, h2, h3⟩

/-- `parse_bid(content, formal_name)` when the model refuses the text -/
theorem mp_parse_bid_refuses_call (f : Nat) (content : List Char) (hs : ∀ x ∈ content, x.toNat < 128) (p : Seat)
    (h : parseBid? content p.formal = none) :
    ∃ c ∈ bidErrs, callF (mkRec P (f+21)) m_MessageInterface_parse_bid [.str content, .str p.formal] = .error (.exc c) := by
  rw [mp_parseBid_eq] at h
  have hfact := match_bids_ascii p content hs
  have hpat : p.formal.append ([' ', 'b', 'i', 'd', 's', ' ', '(', '\\', 'd', ')', '(', 'C', '|', 'D', '|', 'H', '|', 'S', '|', 'N', 'T', ')'].append [])
      = bidsPat p.formal := by cases p <;> rfl
  have hpat2 : p.formal.append ([' ', '(', '.', '*', ')'].append []) = namePat p.formal := by cases p <;> rfl
  rw [callF_def]
  simp only [m_MessageInterface_parse_bid, bindParams, Option.map]
  cases hb : (stripPrefixCI (p.formal ++ " bids ".toList) content).bind bidTail with
  | some gs =>
    rw [hb] at h hfact
    have hr : ∃ r, stripPrefixCI (p.formal ++ " bids ".toList) content = some r ∧ bidTail r = some gs := by
      cases hr : stripPrefixCI (p.formal ++ " bids ".toList) content with
      | none => rw [hr] at hb; cases hb
      | some r => rw [hr] at hb; exact ⟨r, rfl, hb⟩
    obtain ⟨r, hr1, hr2⟩ := hr
    obtain ⟨d, g, rfl, hd, hgr, hshape⟩ := mp_bidTail_shape r gs hr2
    have hrs : ∀ x ∈ r, x ∈ content := by
      intro x hx
      have := (strip_spec _ _ _ hr1).1
      rw [← this] at hx
      exact List.mem_of_mem_drop hx
    have hsu := mp_suit_text g (fun x hx => hs x (hrs x (hgr x hx))) hshape
    simp only at h
    obtain ⟨hdv, hlt⟩ := mp_digit d hd
    have hint := fun (rr : Rec) => mp_builtin_int rr [d] _ (jp_digit_parse d _ hdv)
    have hcall := fun k => mp_lstb_fail k (suitOfG g) _ hlt h
    obtain ⟨g0, hre⟩ := mp_reMatch_some (bidsPat p.formal) content [[d], g] hfact
    simp only [List.map_cons, List.map_nil] at hre
    refine ⟨K.ValueError, by simp [bidErrs], ?_⟩
    ppsimp [mapR, strOfF, List.flatten, hpat, hre, hp_truthy_obj, hp_mth_group,
      mp_group_call3 _ _ _ _ _ _ (by decide : normIndex 3 1 = some 1),
      mp_group_call3 _ _ _ _ _ _ (by decide : normIndex 3 2 = some 2), List.getD_cons_succ, List.getD_cons_zero,
      hint, mp_builtin_upper, jp_cls_Suit, jp_member_suit _ _ hsu, mp_mth_lstb, hcall]
  | none =>
    rw [hb] at h hfact
    simp only at h
    have hre := fun (rr : Rec) => mp_reMatch_none rr (bidsPat p.formal) content hfact
    have hfact2 := match_name p content (fun x hx => agree_ascii x (hs x hx))
    refine ⟨K.Exception, by simp [bidErrs], ?_⟩
    rcases mp_wordCall_none content p.formal h with hr | ⟨r, hr, h1, h2, h3⟩
    · rw [hr] at hfact2
      ppsimp [mapR, strOfF, List.flatten, hpat, hpat2, hre, hp_truthy_none, mp_mth_pmb, mp_pmb_none _ _ _ hfact2]
    · rw [hr] at hfact2
      obtain ⟨g0, hpmb⟩ := mp_pmb_some (namePat p.formal) content [r.takeWhile (· ≠ '\n')] hfact2
      have h1' : ¬ lowerS (List.takeWhile (fun x => decide ¬x = '\n') r) = ['p', 'a', 's', 's', 'e', 's'] := h1
      have h2' : ¬ lowerS (List.takeWhile (fun x => decide ¬x = '\n') r) = ['d', 'o', 'u', 'b', 'l', 'e', 's'] := h2
      have h3' : ¬ lowerS (List.takeWhile (fun x => decide ¬x = '\n') r) = ['r', 'e', 'd', 'o', 'u', 'b', 'l', 'e', 's'] := h3
      ppsimp [mapR, strOfF, List.flatten, hpat, hpat2, hre, hp_truthy_none, mp_mth_pmb, hpmb, List.map_cons, List.map_nil,
        hp_mth_group, mp_group_call2 _ _ _ _ _ (by decide : normIndex 2 1 = some 1), List.getD_cons_succ, List.getD_cons_zero,
        mp_builtin_lower, jp_beq_str', h1', h2', h3']

/-- `parse_bid` REFUSES WHAT THE MODEL REFUSES: every ASCII text, every seat's formal name, every fuel ≥ 22 -/
theorem parse_bid_refuses (content : List Char) (hs : ∀ x ∈ content, x.toNat < 128) (p : Seat)
    (h : parseBid? content p.formal = none) :
    ∀ f, 22 ≤ f → ∃ c ∈ bidErrs,
      callFn P f m_MessageInterface_parse_bid [.str content, .str p.formal] = .error (.exc c) := by
  intro f hf
  obtain ⟨g, rfl⟩ : ∃ g, f = g + 22 := ⟨f - 22, by omega⟩
  exact mp_parse_bid_refuses_call g content hs p h

end Bridge.Translated.MsgParsers
