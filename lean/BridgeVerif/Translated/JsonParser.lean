import BridgeVerif.Translated.JsonParserLemmasH
import BridgeVerif.Translated.Notation
/-!
# json_handler/parser.py AS TRANSLATED reads what the hand-written model reads  (C12, C13, C17)

`hands_parser`, `convert_board_setting`, `convert_board_log`, `JsonParser.parse_board_settings`, `JsonParser.parse_board_logs`
(Generated/PyCoreJson.lean, re-written from parser.py on every run), executed by the MiniPy interpreter at the top-level
fuel, against the model of Model/JsonLog.lean (`handsOfJson?`, `settingOfJson?`, `logOfJson?`, `parseBoardSettings?`,
`parseBoardLogs?`).  ONE direction only: whenever the MODEL reads a document, the translated code returns the encoding of
the same records (Python also accepts ill-typed members — a number where the model wants a string — that the model
refuses: nothing is claimed there, except that a text `json.loads` refuses raises `ValueError`).

## Encoders (JsonParserLemmasD/F/H.lean)
* `encSetting : SettingEntry → Val` — a `BoardSetting` instance, fields `hands, dealer, vul, board_id, dda`;
* `encLogRead : LogRead → Val` — a `BoardLog` instance, fields `board_id, hands, dealer, vul, declarer, contract,
  taken_trick, players, bid_history, play_history, dda, score_type, scores`;
* `encDda`, `encPlayers`, `encScores` — through `encDict`: the `dict` obtained by inserting the pairs in order (what a dict
  comprehension does).  When the keys are pairwise different it is the list itself (`jp_encDict_of_pairwise`); documents
  read by `jsonLoad` never repeat a key, an arbitrary `Json` value may, and then Python merges where the model's `mapM`
  keeps both: with `encDict` the theorems hold for EVERY `Json` value;
* `fileOf text` — a file object holding `text`.

## Two findings about the hand-written model (kernel-checked counterexamples at the end of this file)
The statements "the translated function returns `encHands h` / `encLogRead r`" are FALSE as syntactic equalities of `Val`s:
1. ORDER INSIDE A SET OF CARDS.  A card listed twice in a hand: the interpreter's `set` keeps the FIRST occurrence, the model's
   `dedup` (Model/Hands.lean, a `foldr`) keeps the LAST: `["C2","C3","C2"]` is `[C2, C3]` for the interpreter and `[C3, C2]`
   for the model.  The same SET (`jp_pyHands_same`: a permutation per seat), a different `Val`.
2. `Bid.Pass` AS FINAL BID.  For a contract text whose body reads as `Pass` (`"Pass"`, `"PassX"`, `"PassXX"`, `"sPas"`, …)
   the model answers a contract with `finalBid = none` (Core.lean: "`finalBid = none` models both `None` and `Bid.Pass`")
   and `encContract` writes `final_bid = None`; Python builds `Contract(Bid.Pass, …)`.  The two instances answer every method
   alike but are not `==`.
Hence three forms of every theorem:
* `…_general`: no extra hypothesis, the value returned is given explicitly (`pyHands`: first-occurrence order; `pyContract`:
  `Bid.Pass` where Python puts it);
* `…_same`: no extra hypothesis, the value returned is the encoding of the model's record UP TO these two choices
  (`IsSettingOf` / `IsLogOf`: a permutation of each hand; `Bid.Pass` for `None` in a passed-out contract);
* `…_partial`: the statement as asked (`encHands h`, `encSetting e`, `encLogRead r`), under the weakest hypotheses that make it
  true: `HandsInOrder` (the two set constructions give the same sequence — NECESSARY: `jp_handsInOrder_of_eq`; implied by "no card
  twice in a hand": `jp_handsInOrder_of_nodup`) and, for logs, `finalBid = none → the text is "Passed_out"`.
-/
namespace Bridge.Translated
open Bridge Bridge.Py Bridge.Generated.PyCore

/-! ## from a call at some fuel to `runFn` / `runMethod` -/
theorem jp_runFn (fn : Id) (fd : FuncDef) (args : List Val) (v s : Val) (hfn : findFunc P.funcs fn = some fd)
    (h : callF (mkRec P 999) fd args = .ok (v, s)) : P.runFn fn args = .ok v := by
  unfold Program.runFn
  rw [hfn]
  show (callF (mkRec P 999) fd args).map (·.1) = .ok v
  rw [h]; rfl

theorem jp_runMethod (c m c' : Id) (fd : FuncDef) (args : List Val) (x : R (Val × Val))
    (hm : P.method? classDepth c m = some (c', fd)) (h : callF (mkRec P 999) fd args = x) :
    P.runMethod c m args = x := by
  unfold Program.runMethod
  rw [hm]
  exact h

/-! ## dictionaries without a repeated key -/
theorem jp_updateD_fresh (acc : List (Val × Val)) (k v : Val) (h : ∀ a ∈ acc, a.1.beq k = false) :
    updateD acc k v = acc ++ [(k, v)] := by
  induction acc with
  | nil => rfl
  | cons a acc ih =>
    obtain ⟨k', w⟩ := a
    have h1 : k'.beq k = false := h (k', w) (List.mem_cons_self ..)
    simp only [updateD, h1, Bool.false_eq_true, if_false, List.cons_append]
    rw [ih fun a ha => h a (List.mem_cons_of_mem _ ha)]

theorem jp_fold_updateD (kvs : List (Val × Val)) : ∀ acc : List (Val × Val),
    (acc ++ kvs).Pairwise (fun a b => a.1.beq b.1 = false) →
    kvs.foldl (fun acc (k, v) => updateD acc k v) acc = acc ++ kvs := by
  induction kvs with
  | nil => intro acc _; simp
  | cons kv kvs ih =>
    intro acc hp
    obtain ⟨k, v⟩ := kv
    have hfresh : ∀ a ∈ acc, a.1.beq k = false := by
      intro a ha
      rw [List.pairwise_append] at hp
      exact hp.2.2 a ha (k, v) (List.mem_cons_self ..)
    simp only [List.foldl_cons, jp_updateD_fresh acc k v hfresh]
    rw [ih (acc ++ [(k, v)]) (by simpa using hp)]
    simp

/-- no two keys `==`: the dictionary is the list of pairs itself -/
theorem jp_encDict_of_pairwise (kvs : List (Val × Val)) (h : kvs.Pairwise (fun a b => a.1.beq b.1 = false)) :
    encDict kvs = .dict kvs := by
  have := jp_fold_updateD kvs [] (by simpa using h)
  simp only [encDict, this, List.nil_append]

/-! ## (a) `hands_parser` -/
/-- unconditionally: the `Hands` instance holds, per seat, the cards in first-occurrence order -/
theorem jp_hands_parser_translated_general (j : Json) (h : Hands) (hm : handsOfJson? j = some h) :
    P.runFn n_hands_parser [jsonToVal j] = .ok (encHands (pyHands j)) :=
  jp_runFn _ _ _ _ _ jp_find_hands_parser (jp_hands_parser_call 975 j h hm)

/-- unconditionally: the same four SETS as the model's -/
theorem jp_hands_parser_translated_same (j : Json) (h : Hands) (hm : handsOfJson? j = some h) :
    ∃ h', SameHands h' h ∧ P.runFn n_hands_parser [jsonToVal j] = .ok (encHands h') :=
  ⟨pyHands j, jp_pyHands_same j h hm, jp_hands_parser_translated_general j h hm⟩

/-- the statement as asked, under `HandsInOrder` (necessary: `jp_handsInOrder_of_eq`) -/
theorem jp_hands_parser_translated_partial (j : Json) (h : Hands) (hm : handsOfJson? j = some h) (ho : HandsInOrder j) :
    P.runFn n_hands_parser [jsonToVal j] = .ok (encHands h) := by
  rw [jp_hands_parser_translated_general j h hm, jp_pyHands_eq j h hm ho]

/-- in particular when no hand lists a card twice -/
theorem jp_hands_parser_translated_nodup (j : Json) (h : Hands) (hm : handsOfJson? j = some h)
    (hn : ∀ p : Seat, (rawCards ((j.get? p.name).getD .null)).Nodup) :
    P.runFn n_hands_parser [jsonToVal j] = .ok (encHands h) :=
  jp_hands_parser_translated_partial j h hm (jp_handsInOrder_of_nodup j hn)

/-! ## (b) `convert_board_setting` -/
/-- `v` is the `BoardSetting` instance for `e`, up to the order inside the four sets of cards -/
def IsSettingOf (v : Val) (e : SettingEntry) : Prop := ∃ h', SameHands h' e.deal ∧ v = encSettingWith (encHands h') e

theorem jp_isSettingOf (j : Json) (e : SettingEntry) (hm : settingOfJson? j = some e) : IsSettingOf (pySettingVal j e) e := by
  obtain ⟨l, _, dealJ, _, rfl, -, -, -, g3, g3', -⟩ := jp_setting_cases j e hm
  have hdeal : dealOf (Json.obj l) = dealJ := by
    show ((Json.obj l).get? ['d', 'e', 'a', 'l']).getD .null = dealJ
    rw [g3]; rfl
  exact ⟨pyHands dealJ, jp_pyHands_same _ _ g3', by rw [pySettingVal, hdeal]⟩

theorem jp_pySettingVal_eq (j : Json) (e : SettingEntry) (hm : settingOfJson? j = some e) (ho : HandsInOrder (dealOf j)) :
    pySettingVal j e = encSetting e := by
  obtain ⟨l, _, dealJ, _, rfl, -, -, -, g3, g3', -⟩ := jp_setting_cases j e hm
  have hdeal : dealOf (Json.obj l) = dealJ := by
    show ((Json.obj l).get? ['d', 'e', 'a', 'l']).getD .null = dealJ
    rw [g3]; rfl
  rw [hdeal] at ho
  rw [pySettingVal, hdeal, jp_pyHands_eq _ _ g3' ho]; rfl

theorem jp_convert_board_setting_translated_general (j : Json) (e : SettingEntry) (hm : settingOfJson? j = some e) :
    P.runFn n_convert_board_setting [jsonToVal j] = .ok (pySettingVal j e) :=
  jp_runFn _ _ _ _ _ jp_find_convert_board_setting (jp_convert_board_setting_call 959 j e hm)

theorem jp_convert_board_setting_translated_same (j : Json) (e : SettingEntry) (hm : settingOfJson? j = some e) :
    ∃ v, IsSettingOf v e ∧ P.runFn n_convert_board_setting [jsonToVal j] = .ok v :=
  ⟨_, jp_isSettingOf j e hm, jp_convert_board_setting_translated_general j e hm⟩

/-- the statement as asked, when the cards of the `deal` member are listed in an order on which the two set constructions
agree -/
theorem jp_convert_board_setting_translated_partial (j : Json) (e : SettingEntry) (hm : settingOfJson? j = some e)
    (ho : HandsInOrder (dealOf j)) :
    P.runFn n_convert_board_setting [jsonToVal j] = .ok (encSetting e) := by
  rw [jp_convert_board_setting_translated_general j e hm, jp_pySettingVal_eq j e hm ho]

/-! ## (c) `convert_board_log` -/
/-- `v` is the `BoardLog` instance for `r`, up to the two representation choices Python makes differently: the order inside
the four sets of cards, and `Bid.Pass` where the model's passed-out contract has no final bid -/
def IsLogOf (v : Val) (r : LogRead) : Prop :=
  ∃ h' fb, SameHands h' r.hands ∧
    (fb = encOpt encBid r.contract.finalBid ∨ (r.contract.finalBid = none ∧ fb = .enum n_Bid 36)) ∧
    v = encLogReadWith (encHands h') (pyContractVal fb r.contract) r

theorem jp_log_deal (j : Json) (r : LogRead) (hm : logOfJson? j = some r) : handsOfJson? (dealOf j) = some r.hands := by
  rw [jp_logOfJson_eq] at hm
  cases hst : settingOfJson? j with
  | none => rw [hst] at hm; cases hm
  | some st =>
    rw [hst] at hm
    obtain ⟨l, _, dealJ, _, rfl, -, -, -, g3, g3', -⟩ := jp_setting_cases j st hst
    obtain ⟨_, -, hm⟩ := jp_logK0_some _ _ _ hm
    obtain ⟨_, _, _, -, -, -, hm⟩ := jp_logK1_some _ _ _ _ hm
    obtain ⟨_, -, hm⟩ := jp_logK2_some _ _ _ _ _ _ hm
    obtain ⟨_, -, hm⟩ := jp_logK3_some _ _ _ _ _ _ _ hm
    obtain ⟨_, -, hm⟩ := jp_logK4_some _ _ _ _ _ _ _ _ hm
    obtain ⟨_, -, hm⟩ := jp_logK5_some _ _ _ _ _ _ _ _ _ hm
    obtain ⟨_, -, rfl⟩ := jp_logK6_some _ _ _ _ _ _ _ _ _ _ hm
    have hdeal : dealOf (Json.obj l) = dealJ := by
      show ((Json.obj l).get? ['d', 'e', 'a', 'l']).getD .null = dealJ
      rw [g3]; rfl
    rw [hdeal]; exact g3'

theorem jp_isLogOf (j : Json) (r : LogRead) (hm : logOfJson? j = some r) : IsLogOf (pyLogVal j r) r := by
  refine ⟨pyHands (dealOf j), _, jp_pyHands_same _ _ (jp_log_deal j r hm), ?_, rfl⟩
  by_cases h : r.contract.finalBid = none ∧ contractText j ≠ "Passed_out".toList
  · exact Or.inr ⟨h.1, if_pos h⟩
  · exact Or.inl (if_neg h)

theorem jp_pyLogVal_eq (j : Json) (r : LogRead) (hm : logOfJson? j = some r) (ho : HandsInOrder (dealOf j))
    (hc : r.contract.finalBid = none → contractText j = "Passed_out".toList) : pyLogVal j r = encLogRead r := by
  have h1 : pyContract (contractText j) r.contract = encContract r.contract := by
    unfold pyContract
    rw [if_neg (fun h => h.2 (hc h.1))]; rfl
  rw [pyLogVal, jp_pyHands_eq _ _ (jp_log_deal j r hm) ho, h1]; rfl

theorem jp_convert_board_log_translated_general (j : Json) (r : LogRead) (hm : logOfJson? j = some r) :
    P.runFn n_convert_board_log [jsonToVal j] = .ok (pyLogVal j r) :=
  jp_runFn _ _ _ _ _ jp_find_convert_board_log (jp_convert_board_log_call 939 j r hm)

theorem jp_convert_board_log_translated_same (j : Json) (r : LogRead) (hm : logOfJson? j = some r) :
    ∃ v, IsLogOf v r ∧ P.runFn n_convert_board_log [jsonToVal j] = .ok v :=
  ⟨_, jp_isLogOf j r hm, jp_convert_board_log_translated_general j r hm⟩

/-- the statement as asked, when the hands are listed in order and a passed-out contract is written `"Passed_out"` -/
theorem jp_convert_board_log_translated_partial (j : Json) (r : LogRead) (hm : logOfJson? j = some r)
    (ho : HandsInOrder (dealOf j)) (hc : r.contract.finalBid = none → contractText j = "Passed_out".toList) :
    P.runFn n_convert_board_log [jsonToVal j] = .ok (encLogRead r) := by
  rw [jp_convert_board_log_translated_general j r hm, jp_pyLogVal_eq j r hm ho hc]

/-! ## (d) `JsonParser.parse_board_logs`, `JsonParser.parse_board_settings` -/
theorem jp_parse_board_logs_translated_general (text : List Char) (rs : List LogRead) (hm : parseBoardLogs? text = some rs) :
    P.runMethod n_JsonParser n_parse_board_logs [.obj n_JsonParser [], fileOf text]
      = .ok (.tuple (List.zipWith pyLogVal (logEntries text) rs), .obj n_JsonParser []) :=
  jp_runMethod _ _ _ _ _ _ jp_mth_parse_board_logs (jp_parse_board_logs_call 929 text rs hm)

theorem jp_parse_board_settings_translated_general (text : List Char) (es : List SettingEntry)
    (hm : parseBoardSettings? text = some es) :
    P.runMethod n_JsonParser n_parse_board_settings [.obj n_JsonParser [], fileOf text]
      = .ok (.tuple (List.zipWith pySettingVal (settingEntries text) es), .obj n_JsonParser []) :=
  jp_runMethod _ _ _ _ _ _ jp_mth_parse_board_settings (jp_parse_board_settings_call 949 text es hm)

theorem jp_logEntries_read (text : List Char) (rs : List LogRead) (hm : parseBoardLogs? text = some rs) :
    (logEntries text).mapM logOfJson? = some rs := by
  unfold parseBoardLogs? at hm
  cases hd : jsonLoad text with
  | none => rw [hd] at hm; cases hm
  | some doc =>
    cases hl : (doc.get? (jkey "logs")).bind Json.arr? with
    | none => simp [hd, hl] at hm
    | some m =>
      simp only [hd, hl, Option.bind_eq_bind, Option.bind_some] at hm
      simp only [logEntries, hd, Option.bind_some, hl, Option.getD_some]
      exact hm

theorem jp_settingEntries_read (text : List Char) (es : List SettingEntry) (hm : parseBoardSettings? text = some es) :
    (settingEntries text).mapM settingOfJson? = some es := by
  unfold parseBoardSettings? at hm
  cases hd : jsonLoad text with
  | none => rw [hd] at hm; cases hm
  | some doc =>
    rw [hd] at hm
    simp only [Option.bind_eq_bind, Option.bind_some] at hm
    cases hlg : doc.get? (jkey "logs") with
    | some x =>
      rw [hlg] at hm
      cases hx : x.arr? with
      | none => simp [hx] at hm
      | some m =>
        simp only [hx, Option.bind_some] at hm
        simp only [settingEntries, hd, Option.bind_some, hlg, hx, Option.getD_some]
        exact hm
    | none =>
      rw [hlg] at hm
      cases hl : (doc.get? (jkey "board_settings")).bind Json.arr? with
      | none => simp [hl] at hm
      | some m =>
        simp only [hl, Option.bind_some] at hm
        simp only [settingEntries, hd, Option.bind_some, hlg, hl, Option.getD_some]
        exact hm

/-- the two lists have the same length and are related position by position -/
inductive AllRel {α β : Type} (R : α → β → Prop) : List α → List β → Prop
  | nil : AllRel R [] []
  | cons {a b l₁ l₂} : R a b → AllRel R l₁ l₂ → AllRel R (a :: l₁) (b :: l₂)

theorem jp_zipWith_forall₂ {α β : Type} (R : Val → β → Prop) (g : α → β → Val) (rd : α → Option β)
    (hR : ∀ a b, rd a = some b → R (g a b) b) (m : List α) : ∀ (rs : List β), m.mapM rd = some rs →
    AllRel R (List.zipWith g m rs) rs := by
  induction m with
  | nil => intro rs h; simp at h; subst h; exact .nil
  | cons a m ih =>
    intro rs h
    obtain ⟨b, rs', ha, hm, rfl⟩ := jp_mapM_cons_some _ _ _ _ h
    exact .cons (hR a b ha) (ih rs' hm)

theorem jp_zipWith_eq_map {α β : Type} (g : α → β → Val) (enc : β → Val) (rd : α → Option β) (m : List α)
    (hR : ∀ a ∈ m, ∀ b, rd a = some b → g a b = enc b) : ∀ (rs : List β), m.mapM rd = some rs →
    List.zipWith g m rs = rs.map enc := by
  induction m with
  | nil => intro rs h; simp at h; subst h; rfl
  | cons a m ih =>
    intro rs h
    obtain ⟨b, rs', ha, hm, rfl⟩ := jp_mapM_cons_some _ _ _ _ h
    simp only [List.zipWith_cons_cons, List.map_cons]
    rw [hR a (List.mem_cons_self ..) b ha, ih (fun a' ha' => hR a' (List.mem_cons_of_mem _ ha')) rs' hm]

/-- unconditionally: a list of `BoardLog` instances, one per record of the model, each the record's up to `IsLogOf` -/
theorem jp_parse_board_logs_translated_same (text : List Char) (rs : List LogRead) (hm : parseBoardLogs? text = some rs) :
    ∃ vs, AllRel IsLogOf vs rs ∧
      P.runMethod n_JsonParser n_parse_board_logs [.obj n_JsonParser [], fileOf text] = .ok (.tuple vs, .obj n_JsonParser []) :=
  ⟨_, jp_zipWith_forall₂ IsLogOf pyLogVal logOfJson? jp_isLogOf _ rs (jp_logEntries_read text rs hm),
    jp_parse_board_logs_translated_general text rs hm⟩

theorem jp_parse_board_settings_translated_same (text : List Char) (es : List SettingEntry)
    (hm : parseBoardSettings? text = some es) :
    ∃ vs, AllRel IsSettingOf vs es ∧
      P.runMethod n_JsonParser n_parse_board_settings [.obj n_JsonParser [], fileOf text]
        = .ok (.tuple vs, .obj n_JsonParser []) :=
  ⟨_, jp_zipWith_forall₂ IsSettingOf pySettingVal settingOfJson? jp_isSettingOf _ es (jp_settingEntries_read text es hm),
    jp_parse_board_settings_translated_general text es hm⟩

/-- the statement as asked, when in every record the hands are listed in order and a passed-out contract is written
`"Passed_out"` -/
theorem jp_parse_board_logs_translated_partial (text : List Char) (rs : List LogRead) (hm : parseBoardLogs? text = some rs)
    (ho : ∀ j ∈ logEntries text, HandsInOrder (dealOf j))
    (hc : ∀ j ∈ logEntries text, ∀ r, logOfJson? j = some r → r.contract.finalBid = none →
      contractText j = "Passed_out".toList) :
    P.runMethod n_JsonParser n_parse_board_logs [.obj n_JsonParser [], fileOf text]
      = .ok (.tuple (rs.map encLogRead), .obj n_JsonParser []) := by
  rw [jp_parse_board_logs_translated_general text rs hm,
    jp_zipWith_eq_map pyLogVal encLogRead logOfJson? _
      (fun j hj r hr => jp_pyLogVal_eq j r hr (ho j hj) (hc j hj r hr)) rs (jp_logEntries_read text rs hm)]

theorem jp_parse_board_settings_translated_partial (text : List Char) (es : List SettingEntry)
    (hm : parseBoardSettings? text = some es) (ho : ∀ j ∈ settingEntries text, HandsInOrder (dealOf j)) :
    P.runMethod n_JsonParser n_parse_board_settings [.obj n_JsonParser [], fileOf text]
      = .ok (.tuple (es.map encSetting), .obj n_JsonParser []) := by
  rw [jp_parse_board_settings_translated_general text es hm,
    jp_zipWith_eq_map pySettingVal encSetting settingOfJson? _
      (fun j hj e he => jp_pySettingVal_eq j e he (ho j hj)) es (jp_settingEntries_read text es hm)]

/-- a text `json.loads` refuses: both methods raise `ValueError` (`json.JSONDecodeError`) -/
theorem jp_parse_rejects_bad_json (text : List Char) (h : jsonLoad text = none) :
    P.runMethod n_JsonParser n_parse_board_logs [.obj n_JsonParser [], fileOf text] = .error (.exc K.ValueError) ∧
    P.runMethod n_JsonParser n_parse_board_settings [.obj n_JsonParser [], fileOf text] = .error (.exc K.ValueError) :=
  ⟨jp_runMethod _ _ _ _ _ _ jp_mth_parse_board_logs (jp_parse_board_logs_bad_call 989 text h),
   jp_runMethod _ _ _ _ _ _ jp_mth_parse_board_settings (jp_parse_board_settings_bad_call 989 text h)⟩

/-! ## the two counterexamples to the statements without the extra hypotheses (kernel evaluation) -/
/-- north holds `["C2", "C3", "C2"]` -/
def jpDupDeal : Json :=
  .obj [(['N'], .arr [.str ['C', '2'], .str ['C', '3'], .str ['C', '2']]), (['E'], .arr []), (['S'], .arr []), (['W'], .arr [])]

/-- FINDING 1: the model reads the deal, the translated `hands_parser` returns a `Hands` instance, and it is NOT `==` to the
encoding of the model's hands (north is `[C2, C3]` for the interpreter, `[C3, C2]` for the model) -/
theorem jp_hands_order_counterexample :
    (handsOfJson? jpDupDeal).map (fun h => isVal (P.runFn n_hands_parser [jsonToVal jpDupDeal]) (encHands h)) = some false ∧
    (handsOfJson? jpDupDeal).map (fun h => (h .N).map Card.rank) = some [3, 2] ∧
    isVal (P.runFn n_hands_parser [jsonToVal jpDupDeal]) (encHands (pyHands jpDupDeal)) = true ∧
    (pyHands jpDupDeal .N).map Card.rank = [2, 3] := by
  decide +kernel

/-- a record whose contract text is `ct` -/
def jpLogDoc (ct : List Char) : Json :=
  .obj [("board_id".toList, .str []), ("dealer".toList, .str ['N']),
        ("deal".toList, .obj [(['N'], .arr []), (['E'], .arr []), (['S'], .arr []), (['W'], .arr [])]),
        ("vulnerability".toList, .str ['-']), ("declarer".toList, .null), ("contract".toList, .str ct),
        ("taken_trick".toList, .null)]

/-- FINDING 2: on the contract text `"Pass"` the model reads a passed-out contract (`finalBid = none`), the translated
`convert_board_log` returns a `BoardLog`, and it is NOT `==` to `encLogRead` of the model's record (its contract has
`final_bid = Bid.Pass`, not `None`); on `"Passed_out"` the two agree -/
theorem jp_contract_pass_counterexample :
    (logOfJson? (jpLogDoc "Pass".toList)).map (fun r =>
      (r.contract.finalBid.isNone, isVal (P.runFn n_convert_board_log [jsonToVal (jpLogDoc "Pass".toList)]) (encLogRead r)))
      = some (true, false) ∧
    (logOfJson? (jpLogDoc "Passed_out".toList)).map (fun r =>
      (r.contract.finalBid.isNone,
        isVal (P.runFn n_convert_board_log [jsonToVal (jpLogDoc "Passed_out".toList)]) (encLogRead r)))
      = some (true, true) := by
  decide +kernel

end Bridge.Translated
