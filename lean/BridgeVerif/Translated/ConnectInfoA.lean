import BridgeVerif.Lemmas.RegexConnect
import BridgeVerif.Translated.ThreadsSeatA
import BridgeVerif.Translated.PbnParserLemmasG
/-!
# `PlayerThread.parse_connection_info` translated = `parseConnect?` : the builtins it meets  (helpers)

* the digit text the scanner returns is a non-empty run of ASCII digits, `int()` of it is `decimal?` of it;
* `re.match(pattern, req, re.IGNORECASE)` as the interpreter's `.reMatch` builtin, from `RegexConnect.match_connect`;
* `.capitalize()` is `capitalizeA`; `Player.convert_formal_name` on a text that is no seat name raises `ValueError`.
-/
set_option maxRecDepth 4000
namespace Bridge.Translated.ConnectInfo
open Bridge Bridge.Py Bridge.Generated.PyCore Bridge.RegexConnect Bridge.Translated

/-! ### the scanner's result -/
theorem greedy_some {α : Type} (s : List Char) (k : List Char → List Char → Option α) (r : α) :
    ∀ n, greedy s k n = some r → ∃ g t, k g t = some r := by
  intro n
  induction n with
  | zero => intro h; exact ⟨_, _, h⟩
  | succ n ih =>
    intro h
    simp only [greedy] at h
    cases hk : k (s.take (n + 1)) (s.drop (n + 1)) with
    | some r' => rw [hk] at h; cases h; exact ⟨_, _, hk⟩
    | none => rw [hk] at h; exact ih h

theorem dotStar_some {α : Type} (s : List Char) (k : List Char → List Char → Option α) (r : α)
    (h : dotStar s k = some r) : ∃ g t, k g t = some r := greedy_some s k r _ h

theorem mem_takeWhile {α : Type} (p : α → Bool) (x : α) : ∀ l : List α, x ∈ l.takeWhile p → p x = true := by
  intro l
  induction l with
  | nil => intro h; cases h
  | cons y ys ih =>
    intro h
    by_cases hy : p y = true
    · simp only [List.takeWhile, hy, List.mem_cons] at h
      cases h with
      | inl h => rw [h]; exact hy
      | inr h => exact ih h
    · simp only [Bool.not_eq_true] at hy
      simp [List.takeWhile, hy] at h

/-- the value of a digit text -/
def digitsVal (ds : List Char) : Nat := ds.foldl (fun n c => n * 10 + (c.toNat - '0'.toNat)) 0

/-- the third text of the scanner is a non-empty run of ASCII digits -/
theorem triple_digits (req team seat ds : List Char) (h : connectTriple? req = some (team, seat, ds)) :
    ds ≠ [] ∧ ds.all Bridge.isDigit = true := by
  unfold connectTriple? at h
  split at h
  · cases h
  · obtain ⟨g1, t1, h1⟩ := dotStar_some _ _ _ h
    cases hb : stripPrefixCI "\" as ".toList t1 with
    | none => rw [hb] at h1; cases h1
    | some r1 =>
      rw [hb] at h1
      obtain ⟨g2, t2, h2⟩ := dotStar_some _ _ _ h1
      cases hc : stripPrefixCI " using protocol version ".toList t2 with
      | none => rw [hc] at h2; cases h2
      | some r2 =>
        rw [hc] at h2
        simp only [Option.bind_some] at h2
        split at h2
        · cases h2
        · rename_i hne
          simp only [Option.some.injEq, Prod.mk.injEq] at h2
          obtain ⟨_, _, rfl⟩ := h2
          refine ⟨hne, ?_⟩
          rw [List.all_eq_true]
          intro x hx
          exact mem_takeWhile _ x _ hx

theorem decimal_of_digits (ds : List Char) (h1 : ds ≠ []) (h2 : ds.all Bridge.isDigit = true) :
    decimal? ds = some (digitsVal ds) := by
  unfold decimal?
  rw [if_neg]
  · rfl
  · intro h
    cases h with
    | inl h => exact h1 h
    | inr h => exact h h2

theorem isDigit_char (c : Char) (h : Bridge.isDigit c = true) : c.isDigit = true ∧ c ≠ '-' ∧ c ≠ '+' := by
  simp only [Bridge.isDigit, decide_eq_true_eq, Char.le_def] at h
  refine ⟨?_, ?_, ?_⟩
  · simp only [Char.isDigit, Bool.and_eq_true, decide_eq_true_eq, UInt32.le_iff_toNat_le]
    exact h
  · rintro rfl; revert h; decide
  · rintro rfl; revert h; decide

theorem parseNat_fold (ds : List Char) (h : ds.all Bridge.isDigit = true) : ∀ a : Nat,
    ds.foldl (fun acc c => acc.bind fun a => if c.isDigit then some (a * 10 + (c.toNat - 48)) else none) (some a)
      = some (ds.foldl (fun n c => n * 10 + (c.toNat - '0'.toNat)) a) := by
  induction ds with
  | nil => intro a; rfl
  | cons c r ih =>
    intro a
    simp only [List.all_cons, Bool.and_eq_true] at h
    simp only [List.foldl_cons, Option.bind_some, (isDigit_char c h.1).1, if_true]
    exact ih h.2 _

theorem parseInt_of_digits (ds : List Char) (h1 : ds ≠ []) (h2 : ds.all Bridge.isDigit = true) :
    parseInt? ds = some ((digitsVal ds : Nat) : Int) := by
  cases ds with
  | nil => exact absurd rfl h1
  | cons c r =>
    have hc : Bridge.isDigit c = true := by
      simp only [List.all_cons, Bool.and_eq_true] at h2; exact h2.1
    obtain ⟨_, hm, hp⟩ := isDigit_char c hc
    have e : parseNat? (c :: r) = some (digitsVal (c :: r)) := by
      show List.foldl _ (some 0) (c :: r) = _
      exact parseNat_fold (c :: r) h2 0
    unfold parseInt?
    split
    · rename_i heq; cases heq; exact absurd rfl hm
    · rename_i heq; cases heq; exact absurd rfl hp
    · rw [e]; rfl

/-! ### `re.match` -/
theorem matchVal_of_texts (s : Str) (m : Re.MatchObj) (a b c : Str)
    (h : RegexHands.groupTexts s m = [some a, some b, some c]) :
    ∃ g0, matchVal n__Match (Int.toNat n_texts) s m = .obj n__Match [(n_texts, .tuple [g0, .str a, .str b, .str c])] := by
  obtain ⟨span, groups⟩ := m
  simp only [RegexHands.groupTexts] at h
  cases groups with
  | nil => simp at h
  | cons g1 t1 =>
    cases t1 with
    | nil => simp at h
    | cons g2 t2 =>
      cases t2 with
      | nil => simp at h
      | cons g3 t3 =>
        cases t3 with
        | cons _ _ => simp at h
        | nil =>
          cases g1 <;> cases g2 <;> cases g3 <;> simp at h
          obtain ⟨rfl, rfl, rfl⟩ := h
          exact ⟨_, rfl⟩

/-- the value `re.match(pattern, req, re.IGNORECASE)` evaluates to -/
theorem reMatch_connect (req : Str) (hreq : ∀ x ∈ req, agree x = true) :
    match connectTriple? req with
    | none => ∀ r : Rec, builtinF r P .reMatch [.str CONNECT_PATTERN, .str req, .bool true, .cls n__Match, .int n_texts]
        = .ok .none
    | some (team, seat, ds) => ∃ g0, ∀ r : Rec,
        builtinF r P .reMatch [.str CONNECT_PATTERN, .str req, .bool true, .cls n__Match, .int n_texts]
          = .ok (.obj n__Match [(n_texts, .tuple [g0, .str team, .str seat, .str ds])]) := by
  have h := match_connect req hreq
  unfold connectFields? at h
  cases hp : Re.pyMatch true CONNECT_PATTERN req with
  | none => rw [hp] at h; cases h
  | some mo =>
    rw [hp] at h
    simp only [Option.map_some, Option.some.injEq] at h
    cases ht : connectTriple? req with
    | none =>
      rw [ht] at h
      cases mo with
      | some m => cases h
      | none => intro r; simp only [builtinF, hp]; rfl
    | some x =>
      obtain ⟨team, seat, ds⟩ := x
      rw [ht] at h
      cases mo with
      | none => cases h
      | some m =>
        simp only [Option.map_some, Option.some.injEq, List.map_cons, List.map_nil] at h
        obtain ⟨g0, hg⟩ := matchVal_of_texts req m team seat ds h
        refine ⟨g0, fun r => ?_⟩
        simp only [builtinF, hp, hg]; rfl

/-! ### `.capitalize()` -/
theorem capitalize_builtin (r : Rec) (s : Str) : builtinF r P .capitalize [.str s] = .ok (.str (capitalizeA s)) := by
  cases s <;> rfl

end Bridge.Translated.ConnectInfo
