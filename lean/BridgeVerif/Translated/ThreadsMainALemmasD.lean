import BridgeVerif.Translated.ThreadsMainALemmasC
/-! Translated `MainThread.bidding_phase`: the turn in which `take_bid` answers `illegal` -/
namespace Bridge.Translated.MainA
open Bridge Bridge.Py Bridge.Generated.PyCore

theorem mt_execF_append_err (r : Rec) (l1 l2 : List Stmt) (e : Err) : ∀ (env : Env), execF r P env l1 = .error e →
    execF r P env (l1 ++ l2) = .error e := by
  induction l1 with
  | nil => intro env h; simp only [execF, pure_eq, reduceCtorEq] at h
  | cons s ss ih =>
    intro env h
    simp only [List.cons_append, execF] at h ⊢
    cases hs : execStmtF r P env s with
    | error e' => rw [hs] at h; exact h
    | ok x =>
      obtain ⟨e', fl⟩ := x
      rw [hs] at h
      simp only [bind_ok] at h ⊢
      cases fl with
      | next => exact ih e' h
      | ret v => simp only [pure_eq, reduceCtorEq] at h
      | brk => simp only [pure_eq, reduceCtorEq] at h
      | cont => simp only [pure_eq, reduceCtorEq] at h

theorem mt_loop_err (f : Nat) (env : Env) (c : Expr) (body : List Stmt) (e : Err)
    (hc : (mkRec P (f+1)).eval env c = .ok (.bool true)) (hb : (mkRec P (f+1)).exec env body = .error e) :
    loopF (mkRec P (f+1)) env c body = .error e := by
  simp only [loopF, hc, hb, bind_ok, bind_err, truthy, if_true]

/-- `if bidding_phase_state is BiddingPhaseState.illegal:` when it is: `illegal bid` to the bidder, `error detected` to the
others, then `raise Exception` -/
theorem mt_check_illegal (f : Nat) (i : Seat → List Str) (more : List (Val × Val)) (out : List Val) (table : Val)
    (tables : List Val) (bs dv vv be pv bm bv : Val) (a : Seat) :
    execStmtF (mkRec P (f+20)) P
      [(K.self, mtObj i out table tables more bs), (n_dealer, dv), (n_vul, vv), (n_bidding_env, be),
       (n_active_player, encSeat a), (n_player, pv), (n_bid_message, bm), (n_bid, bv),
       (n_bidding_phase_state, encRes .illegal)] bpCheck
    = .error (.exc K.Exception) := by
  simp only [bpCheck, bpBody, bpWhile, m_MainThread_bidding_phase, List.getD_cons_succ, List.getD_cons_zero, mtObj_eq]
  cases a <;> ppsimp [mt_beq_encRes_illegal, mt_iter_player, forF, mt_mth_w_put, mt_main_put]

/-- a turn in which `take_bid` answers `illegal` -/
theorem mt_prefix_illegal (f : Nat) (i : Seat → List Str) (more : List (Val × Val)) (out : List Val) (table : Val)
    (tables : List Val) (bs dv vv : Val) (s : AState) (a : Seat) (ha : s.active = some a) (msg : Str) (r : List Str)
    (hi : i a = msg :: r) (msg' : Str) (xa : Nat → Val)
    (hpre : if hasAlert msg = true then
        ∀ j, callF (mkRec P (f+j)) m_Server_remove_alert_word [.str msg] = .ok (.str msg', xa j) else msg' = msg)
    (c : Call) (xp : Nat → Val)
    (hparse : ∀ j, callF (mkRec P (f+j)) m_MessageInterface_parse_bid [.str msg', .str a.formal] = .ok (encCall c, xp j))
    (s1 : AState) (ht : takeBid s c = .ok (s1, .illegal))
    (tail : Env) (htail : LoopTail tail) :
    execF (mkRec P (f+50)) P
      ((K.self, mtObj i out table tables more bs) :: (n_dealer, dv) :: (n_vul, vv) :: (n_bidding_env, encState s) :: tail)
      bpPrefix
    = .error (.exc K.Exception) := by
  rw [bpPrefix_eq, mt_execF_append _ _ _ _ _
    (mt_prefix7 f i more out table tables bs dv vv s a ha msg r hi msg' xa hpre c xp hparse s1 .illegal ht tail htail)]
  simp only [execF, mt_check_illegal, bind_err]

/-- the whole turn raises -/
theorem mt_turn_illegal (f : Nat) (i : Seat → List Str) (more : List (Val × Val)) (out : List Val) (table : Val)
    (tables : List Val) (bs dv vv : Val) (s : AState) (a : Seat) (ha : s.active = some a) (msg : Str) (r : List Str)
    (hi : i a = msg :: r) (msg' : Str) (xa : Nat → Val)
    (hpre : if hasAlert msg = true then
        ∀ j, callF (mkRec P (f+j)) m_Server_remove_alert_word [.str msg] = .ok (.str msg', xa j) else msg' = msg)
    (c : Call) (xp : Nat → Val)
    (hparse : ∀ j, callF (mkRec P (f+j)) m_MessageInterface_parse_bid [.str msg', .str a.formal] = .ok (encCall c, xp j))
    (s1 : AState) (ht : takeBid s c = .ok (s1, .illegal))
    (tail : Env) (htail : LoopTail tail) :
    execF (mkRec P (f+50)) P (envL table tables more bs dv vv s i out tail) bpBody = .error (.exc K.Exception) := by
  rw [bpBody_eq, envL]
  exact mt_execF_append_err _ _ _ _ _
    (mt_prefix_illegal f i more out table tables bs dv vv s a ha msg r hi msg' xa hpre c xp hparse s1 ht tail htail)

end Bridge.Translated.MainA
