import BridgeVerif.Translated.PbnParserWide
import BridgeVerif.Translated.HandsPbnClosed
/-! Translated `PbnParser.parse_board_settings` = model: the tag look-ups, the three conversions (with their failures),
`Hands.convert_pbn` at an arbitrary fuel -/
set_option linter.unusedSimpArgs false
namespace Bridge.Translated
open Bridge Bridge.Py Bridge.Generated.PyCore Bridge.RegexPbn Bridge.RegexHands Bridge.Translated.HandsPbn

/-- `x[name]` on a game -/
theorem ps_lookupD_game (k : Str) : ∀ g : Game,
    lookupD (g.map fun kv => (Val.str kv.1, Val.str kv.2)) (.str k) = (gameGet? g k).map Val.str := by
  intro g
  induction g with
  | nil => rfl
  | cons a g ih =>
    simp only [List.map_cons, lookupD, jp_beq_str, gameGet?, List.find?_cons]
    cases h : (a.1 == k)
    · simpa [gameGet?] using ih
    · simp

/-! ## `Player[name]` on an unknown name -/
theorem ps_member_seat_none (s : Str) (h : seatOfName? s = none) : memberValue? (clsOf n_Player) s = none := by
  have hm : (clsOf n_Player).members = [(['N'], 1), (['E'], 2), (['S'], 3), (['W'], 4)] := rfl
  have h1 : s ≠ ['N'] := by intro e; subst e; cases h
  have h2 : s ≠ ['E'] := by intro e; subst e; cases h
  have h3 : s ≠ ['S'] := by intro e; subst e; cases h
  have h4 : s ≠ ['W'] := by intro e; subst e; cases h
  simp only [memberValue?, hm, List.find?_cons, List.find?_nil]
  have e1 : (['N'] == s) = false := by simpa using fun e : ['N'] = s => h1 e.symm
  have e2 : (['E'] == s) = false := by simpa using fun e : ['E'] = s => h2 e.symm
  have e3 : (['S'] == s) = false := by simpa using fun e : ['S'] = s => h3 e.symm
  have e4 : (['W'] == s) = false := by simpa using fun e : ['W'] = s => h4 e.symm
  simp only [e1, e2, e3, e4, Option.map]

/-! ## `Vul.str_to_vul` on a text it does not know: `Vul[name]` raises `KeyError` -/
theorem ps_strToVul_none (s : Str) (h : strToVul? s = none) :
    s ≠ ['N', 'o', 'n', 'e'] ∧ s ≠ ['L', 'o', 'v', 'e'] ∧ s ≠ ['-'] ∧ s ≠ ['B', 'o', 't', 'h'] ∧ s ≠ ['A', 'l', 'l'] ∧
    s ≠ ['N', 'S'] ∧ s ≠ ['E', 'W'] ∧ s ≠ ['N', 'O', 'N', 'E'] ∧ s ≠ ['B', 'O', 'T', 'H'] := by
  refine ⟨?_, ?_, ?_, ?_, ?_, ?_, ?_, ?_, ?_⟩ <;> (intro e; subst e; revert h; decide)

theorem ps_str_to_vul_call_none (f : Nat) (s : Str) (h : strToVul? s = none) :
    callF (mkRec P (f+10)) m_Vul_str_to_vul [.cls n_Vul, .str s] = .error (.exc K.KeyError) := by
  obtain ⟨h1, h2, h3, h4, h5, h6, h7, h8, h9⟩ := ps_strToVul_none s h
  have hm : (clsOf n_Vul).members = [(['N', 'O', 'N', 'E'], 1), (['N', 'S'], 2), (['E', 'W'], 3), (['B', 'O', 'T', 'H'], 4)] := rfl
  have e6 : (['N', 'S'] == s) = false := by simpa using fun e : ['N', 'S'] = s => h6 e.symm
  have e7 : (['E', 'W'] == s) = false := by simpa using fun e : ['E', 'W'] = s => h7 e.symm
  have e8 : (['N', 'O', 'N', 'E'] == s) = false := by simpa using fun e : ['N', 'O', 'N', 'E'] = s => h8 e.symm
  have e9 : (['B', 'O', 'T', 'H'] == s) = false := by simpa using fun e : ['B', 'O', 'T', 'H'] = s => h9 e.symm
  have hmv : memberValue? (clsOf n_Vul) s = none := by
    simp only [memberValue?, hm, List.find?_cons, List.find?_nil, e6, e7, e8, e9, Option.map]
  rw [callF_def]
  simp only [m_Vul_str_to_vul, bindParams, Option.map]
  ppsimp [containsVal, List.any, jp_beq_str', Bool.or_false, Bool.or_true, Bool.true_or, Bool.false_or, bne, jp_cls_Vul,
    h1, h2, h3, h4, h5, Ne.symm h1, Ne.symm h2, Ne.symm h3, Ne.symm h4, Ne.symm h5, hmv, decide_false, decide_true]

/-! ## `Hands.convert_pbn` at an arbitrary fuel -/
theorem ps_convert_call (hh : HandsRegexFacts) (f : Nat) (cv : Val) (s : Str) :
    match convertPbn? s with
    | some h => ∃ h' : Hands, (∀ p, (h' p).Nodup) ∧ SameHands h' h ∧
        callF (mkRec P (f+50)) m_Hands_convert_pbn [cv, .str s] = .ok (encHands h', cv)
    | none => callF (mkRec P (f+50)) m_Hands_convert_pbn [cv, .str s] = .error (.exc K.Exception) := by
  cases hs : convertPbn? s with
  | some h =>
    simp only
    cases hd : dealFields? s with
    | none => rw [hp_dealFields_none s hd] at hs; cases hs
    | some fl =>
      obtain ⟨c, h0, h1, h2, h3, first, rfl, hfirst, n0, n1, n2, n3, hconv⟩ := hp_dealFields_some s fl hd
      rw [hconv] at hs
      rw [hp_convert_pbn_call_match hh f cv s c h0 h1 h2 h3 first hd hfirst n0 n1 n2 n3]
      rcases hp_py_cases h0 with ⟨a0, b0⟩ | ⟨c0, l0, a0, b0, d0, q0⟩ <;>
      rcases hp_py_cases h1 with ⟨a1, b1⟩ | ⟨c1, l1, a1, b1, d1, q1⟩ <;>
      rcases hp_py_cases h2 with ⟨a2, b2⟩ | ⟨c2, l2, a2, b2, d2, q2⟩ <;>
      rcases hp_py_cases h3 with ⟨a3, b3⟩ | ⟨c3, l3, a3, b3, d3, q3⟩ <;>
      simp only [a0, a1, a2, a3, reduceCtorEq, Option.some.injEq] at hs
      subst hs
      simp only [b0, b1, b2, b3]
      exact ⟨assemble first l0 l1 l2 l3, hp_assemble_nodup first l0 l1 l2 l3 d0 d1 d2 d3,
        hp_assemble_same first l0 l1 l2 l3 c0 c1 c2 c3 q0 q1 q2 q3, rfl⟩
  | none =>
    simp only
    cases hd : dealFields? s with
    | none => exact hp_convert_pbn_call_nomatch hh f _ s hd
    | some fl =>
      obtain ⟨c, h0, h1, h2, h3, first, rfl, hfirst, n0, n1, n2, n3, hconv⟩ := hp_dealFields_some s fl hd
      rw [hconv] at hs
      rw [hp_convert_pbn_call_match hh f cv s c h0 h1 h2 h3 first hd hfirst n0 n1 n2 n3]
      rcases hp_py_cases h0 with ⟨a0, b0⟩ | ⟨c0, l0, a0, b0, d0, q0⟩ <;>
      rcases hp_py_cases h1 with ⟨a1, b1⟩ | ⟨c1, l1, a1, b1, d1, q1⟩ <;>
      rcases hp_py_cases h2 with ⟨a2, b2⟩ | ⟨c2, l2, a2, b2, d2, q2⟩ <;>
      rcases hp_py_cases h3 with ⟨a3, b3⟩ | ⟨c3, l3, a3, b3, d3, q3⟩ <;>
      first
        | (simp only [a0, a1, a2, a3, reduceCtorEq] at hs; done)
        | simp only [b0, b1, b2, b3]

end Bridge.Translated
