import BridgeVerif.Translated.ThreadsMainBLemmasD
/-! Translated `MainThread.playing_phase`: a concrete play of thirteen tricks (1NT by South; North holds the spades, East the
hearts, South the diamonds, West the clubs; West leads clubs and takes every trick), checked by kernel evaluation — the data
of the non-vacuity examples of Translated/ThreadsMainB.lean -/
set_option maxRecDepth 4000
set_option linter.unusedSimpArgs false
namespace Bridge.Translated.MainB
open Bridge Bridge.Py Bridge.Generated.PyCore

/-- `tricksOpsS` over `mainTrickS` (which the kernel can evaluate) -/
def tricksOpsS' (encRec : BoardRecord → Val) (decl : Seat) (dm : Text) : Nat → Nat → WithHands → MainIn → Option (List Val)
  | 0, _, _, _ => some []
  | n + 1, k, w, i =>
    match mainTrickS decl dm (k = 1) 4 0 w i with
    | none => none
    | some (t, w', i') =>
      match encMainActs encRec t, tricksOpsS' encRec decl dm n (k + 1) w' i' with
      | some tops, some rest => some (opSleep :: opsPutAll w.base.leader.formal ++ tops ++ rest)
      | _, _ => none

theorem tricksOpsS_eq (encRec : BoardRecord → Val) (decl : Seat) (dm : Text) : ∀ (n k : Nat) (w : WithHands) (i : MainIn),
    tricksOpsS encRec decl dm n k w i = tricksOpsS' encRec decl dm n k w i := by
  intro n
  induction n with
  | zero => intro k w i; rfl
  | succ n ih =>
    intro k w i
    rw [tricksOpsS, tricksOpsS', mainTrickS_eq decl dm _ 4 0 w i rfl]
    cases mainTrickS decl dm (k = 1) 4 0 w i with
    | none => rfl
    | some x =>
      obtain ⟨t, w', i'⟩ := x
      simp only
      rw [ih]
      cases encMainActs encRec t <;> cases tricksOpsS' encRec decl dm n (k + 1) w' i' <;> rfl

def exContract : Contract := { finalBid := some ⟨4, by decide⟩, declarer := some .S }
def suitHand (s : Suit) : List Card := [14, 13, 12, 11, 10, 9, 8, 7, 6, 5, 4, 3, 2].map fun r => ⟨r, s⟩
def exDeal : Seat → List Card
  | .N => suitHand .S | .E => suitHand .H | .S => suitHand .D | .W => suitHand .C
def exW0 : WithHands := ⟨initState ⟨4, by decide⟩ .S, exDeal⟩
/-- the four queues `t2m`: West's and East's cards, South's queue carries dummy's (North's) cards too; a message that is
never consumed waits in North's queue -/
def exIn : MainIn
  | .N => ["later".toList]
  | .E => ["East plays HA".toList, "East plays HK".toList, "East plays HQ".toList, "East plays HJ".toList, "East plays HT".toList, "East plays H9".toList, "East plays H8".toList, "East plays H7".toList, "East plays H6".toList, "East plays H5".toList, "East plays H4".toList, "East plays H3".toList, "East plays H2".toList]
  | .S => ["North plays SA".toList, "SOUTH plays aD".toList, "North plays SK".toList, "South plays DK".toList, "North plays SQ".toList, "South plays DQ".toList, "North plays SJ".toList, "South plays DJ".toList, "North plays ST".toList, "South plays DT".toList, "North plays S9".toList, "South plays D9".toList, "North plays S8".toList, "South plays D8".toList, "North plays S7".toList, "South plays D7".toList, "North plays S6".toList, "South plays D6".toList, "North plays S5".toList, "South plays D5".toList, "North plays S4".toList, "South plays D4".toList, "North plays S3".toList, "South plays D3".toList, "North plays S2".toList, "South plays D2".toList]
  | .W => ["west plays ac".toList, "West plays CK".toList, "West plays CQ".toList, "West plays CJ".toList, "West plays CT".toList, "West plays C9".toList, "West plays C8".toList, "West plays C7".toList, "West plays C6".toList, "West plays C5".toList, "West plays C4".toList, "West plays C3".toList, "West plays C2".toList]
def exDm : Text := cardsMsg "Dummy".toList (exDeal .N)
def exEncRec : BoardRecord → Val := fun _ => .none

theorem ex_init : WithHands.init exContract exDeal = some exW0 := rfl

/-- on every queued message the translated `parse_card` (regular expression, `Card.__post_init__`) agrees with the model's
`parseCard?`, for all four seats: 53 × 4 kernel evaluations -/
theorem ex_allParse : AllParse exIn := allParse_of_chk (by decide +kernel)

/-- what the model computes on the example -/
def exCheck : Bool :=
  match mainPlayingS .S exDm exW0 exIn, tricksOpsS' exEncRec .S exDm 13 1 exW0 exIn with
  | some (acts, w, i'), some opsT =>
    i' .N == ["later".toList] && i' .E == [] && i' .S == [] && i' .W == [] &&
    declTricks .S w == 0 && w.base.takenEW == 13 && w.base.history.length == 13 &&
    acts.length == 267 && opsT.length == 276 && (stripSleep opsT).length == 263
  | _, _ => false

theorem ex_check : exCheck = true := by decide +kernel


/-- what the model computes for the first trick of the example -/
def exCheckTrick : Bool :=
  match mainTrickS .S exDm (decide (1 = 1)) 4 0 exW0 exIn with
  | some (t, w', i') =>
    (match encMainActs exEncRec t with | some tops => tops.length == 19 | none => false) &&
    w'.base.trickNum == 2 && w'.base.leader == .W && w'.base.takenEW == 1 && (i' .W).length == 12 &&
    (i' .S).length == 24
  | none => false

theorem ex_check_trick : exCheckTrick = true := by decide +kernel

/-- an environment as `playing_phase` has it when the first card of the first trick is due -/
def exEnv : Env :=
  [(K.self, encMainThread (encMainWorld exIn [] (.dict []) [] []) .none), (n_contract, encContract exContract),
   (n_cards, .dict (handsKvs exDeal)), (n_playing_env, encWithHands exContract exW0), (n_trick_num, .int 1),
   (n_i, .int 0)]

end Bridge.Translated.MainB
