import BridgeVerif.Translated.ThreadsMainALemmas
/-! Translated `MainThread.bidding_phase`: the calls on the `BiddingPhase` / `Contract` objects at every sufficiently large
fuel (from the lemmas of Translated/Auction*.lean), the rendering of the model's actions -/
namespace Bridge.Translated.MainA
open Bridge Bridge.Py Bridge.Generated.PyCore

/-! ## `BiddingPhase(dealer, vul)`, `take_bid`, `contract`, `active_player`, `bid_history` -/
theorem mt_construct_bp (f : Nat) (d : Seat) (v : Vul) :
    constructF (mkRec P (f+40)) P n_BiddingPhase [encSeat d, encVul v] = .ok (encState (AState.init d v)) := by
  rfl

theorem mt_take_bid_call (f : Nat) (s : AState) (c : Call) :
    callF (mkRec P (f+31)) m_BiddingPhase_take_bid [encState s, encCall c] =
      match takeBid s c with
      | .error () => .error (.exc K.Exception)
      | .ok (s', r) => .ok (encRes r, encState s') := by
  have run : callF (mkRec P (f+31)) m_BiddingPhase_take_bid [encState s, encCall c]
      = ((mkRec P (f+31)).exec (envOf s c) m_BiddingPhase_take_bid.body >>= fun x =>
          match x.2 with
          | .ret v => pure (v, (lookup x.1 K.self).getD .none)
          | _ => pure (.none, (lookup x.1 K.self).getD .none)) := by
    rw [callF_def]; rfl
  rw [run, exec_succ, take_bid_body f s c]
  cases h : takeBid s c with
  | error u => cases u; rfl
  | ok x => obtain ⟨s', r⟩ := x; cases r <;> rfl

theorem mt_take_bid_meth (f : Nat) (s : AState) (c : Call) :
    methF (mkRec P (f+32)) P (encState s) n_take_bid [encCall c] =
      match takeBid s c with
      | .error () => .error (.exc K.Exception)
      | .ok (s', r) => .ok (encRes r, encState s') := by
  have e : methF (mkRec P (f+32)) P (encState s) n_take_bid [encCall c]
      = callF (mkRec P (f+31)) m_BiddingPhase_take_bid [encState s, encCall c] := rfl
  rw [e, mt_take_bid_call]

theorem mt_mth_active_player :
    P.method? classDepth n_BiddingPhase n_active_player = some (n_BiddingPhase, m_BiddingPhase_active_player) := rfl
theorem mt_getAttr_active (f : Nat) (s : AState) :
    getAttrF (mkRec P (f+7)) P (encState s) n_active_player = .ok (encOpt encSeat s.active) := by
  have e : getAttrF (mkRec P (f+7)) P (encState s) n_active_player
      = (callF (mkRec P (f+6)) m_BiddingPhase_active_player [encState s] >>= fun x => .ok x.1) := rfl
  rw [e, callF_def]
  simp only [m_BiddingPhase_active_player, bindParams, Option.map, encState]
  ppsimp []
theorem mt_getAttr_bid_history (f : Nat) (s : AState) :
    getAttrF (mkRec P (f+7)) P (encState s) n_bid_history = .ok (.tuple (s.history.reverse.map encCall)) := by
  have e : getAttrF (mkRec P (f+7)) P (encState s) n_bid_history
      = (callF (mkRec P (f+6)) m_BiddingPhase_bid_history [encState s] >>= fun x => .ok x.1) := rfl
  rw [e, callF_def]
  simp only [m_BiddingPhase_bid_history, bindParams, Option.map, encState]
  ppsimp []

/-- `contract()` at any sufficiently large fuel (the proof of `contract_translated`, Translated/Auction.lean) -/
theorem mt_contract_call (f : Nat) (s : AState) (h : s.contract.isSome ∨ s.active.isSome) :
    callF (mkRec P (f+40)) m_BiddingPhase_contract [encState s] = .ok (encOpt encContract s.contract, encState s) := by
  obtain ⟨dealer, vul, active, lastBidder, lastBid, calledX, calledXX, history, perSeat, declCheck, avail⟩ := s
  simp only [AState.contract] at h ⊢
  cases active with
  | some p =>
    pysimp [m_BiddingPhase_contract, has_done_meth]
  | none =>
    cases lastBid with
    | none =>
      pysimp [m_BiddingPhase_contract, has_done_meth]
      pysimp [encState, construct_contract4, beq_none_enum]
      rfl
    | some b =>
      cases lastBidder with
      | none => simp at h
      | some lb =>
        pysimp [m_BiddingPhase_contract, has_done_meth]
        pysimp [encState, construct_contract, beq_encBid_dbl, beq_encBid_rdbl, getAttr_suit, getAttr_pair, lookup_declKvs,
          lookup_declRow, beq_encSeat_none, beq_encSuit_none, beq_encBid_none]
        rfl

theorem mt_contract_meth (f : Nat) (s : AState) (h : s.contract.isSome ∨ s.active.isSome) :
    methF (mkRec P (f+41)) P (encState s) n_contract [] = .ok (encOpt encContract s.contract, encState s) := by
  have e : methF (mkRec P (f+41)) P (encState s) n_contract []
      = callF (mkRec P (f+40)) m_BiddingPhase_contract [encState s] := rfl
  rw [e, mt_contract_call f s h]

theorem mt_ipo_meth (f : Nat) (c : Contract) :
    methF (mkRec P (f+11)) P (encContract c) n_is_passed_out [] = .ok (.bool c.isPassedOut, encContract c) := by
  have e : methF (mkRec P (f+11)) P (encContract c) n_is_passed_out []
      = callF (mkRec P (f+10)) m_Contract_is_passed_out [encContract c] := rfl
  rw [e, jw_contract_ipo_call]

theorem mt_beq_encContract_none (c : Contract) : (encContract c).beq .none = false := by
  simp only [encContract, Val.beq]
theorem mt_beq_encRes_illegal (r : Res) :
    (encRes r).beq (.enum n_BiddingPhaseState (-1)) = decide (r = .illegal) := by
  cases r <;> simp [encRes, Val.beq]

theorem mt_mth_parse_bid :
    P.method? classDepth n_MessageInterface n_parse_bid = some (n_MessageInterface, m_MessageInterface_parse_bid) := rfl
theorem mt_mth_remove_alert :
    P.method? classDepth n_Server n_remove_alert_word = some (n_Server, m_Server_remove_alert_word) := rfl
theorem mt_lower (r : Rec) (s : List Char) : builtinF r P .lower [.str s] = .ok (.str (s.map lowerC)) := rfl

/-! ## the model's actions as world operations -/
/-- the world operation of `put` on queue `m2t q` -/
def putOp (q : Seat) (m : Str) : Val := .tuple [vstr "put", vstr "m2t", encSeat q, .str m]
def getOp (q : Seat) : Val := .tuple [vstr "get", vstr "t2m", encSeat q]
def syncOp : Val := .tuple [vstr "sync"]

theorem encMainActs_append (encRec : BoardRecord → Val) (x y : MainActs) (ox oy : List Val)
    (hx : encMainActs encRec x = some ox) (hy : encMainActs encRec y = some oy) :
    encMainActs encRec (x ++ y) = some (ox ++ oy) := by
  induction x generalizing ox with
  | nil =>
    simp only [encMainActs, Option.some.injEq] at hx
    subst hx; simpa using hy
  | cons a r ih =>
    simp only [List.cons_append, encMainActs] at hx ⊢
    cases ha : encMainAct encRec a with
    | none => simp [ha] at hx
    | some va =>
      cases hr : encMainActs encRec r with
      | none => simp [ha, hr] at hx
      | some vr =>
        simp only [ha, hr, Option.bind_eq_bind, Option.bind_some, Option.pure_def, Option.some.injEq] at hx
        subst hx
        simp [ih vr hr, List.append_assoc]

/-- `putAll m` -/
def putAllOps (m : Str) : List Val := [putOp .N m, putOp .E m, putOp .S m, putOp .W m]
/-- `putAllBut a m` -/
def putButOps (a : Seat) (m : Str) : List Val :=
  (if Seat.N = a then [] else [putOp .N m]) ++ (if Seat.E = a then [] else [putOp .E m]) ++
  (if Seat.S = a then [] else [putOp .S m]) ++ (if Seat.W = a then [] else [putOp .W m])

theorem mt_putAll_ops (encRec : BoardRecord → Val) (m : Str) : encMainActs encRec (putAll m) = some (putAllOps m) := rfl
theorem mt_putAllBut_ops (encRec : BoardRecord → Val) (a : Seat) (m : Str) :
    encMainActs encRec (putAllBut a m) = some (putButOps a m) := by
  cases a <;> rfl
theorem mt_recv_ops (encRec : BoardRecord → Val) (a : Seat) : encMainActs encRec [.recv (.t2m a)] = some [getOp a] := rfl

end Bridge.Translated.MainA
