import BridgeVerif.Translated.MsgParsersA
import BridgeVerif.Lemmas.RegexMsgBidC
/-! Translated `Server.remove_alert_word` (server.py) = model: for EVERY text of the class `RegexMsgBid.agreeWs` (every ASCII
text without U+001C..U+001F) and every fuel ≥ 4 the generated method returns `removeAlert` of `Model/Msg.lean`. -/
set_option maxRecDepth 4000
namespace Bridge.Translated.MsgParsers
open Bridge Bridge.Py Bridge.Generated.PyCore Bridge.Translated Bridge.RegexHands Bridge.RegexMsgBid

/-- the pattern text is literally the constant of the generated method -/
theorem mp_alert_pattern : ['\\', 's', '+', 'A', 'l', 'e', 'r', 't', '\\', '.', '\\', 's', '*'] = ALERT_PATTERN := by
  decide +kernel

theorem mp_reSub (r : Rec) (pat repl s t : List Char) (h : Re.pySub true pat repl s = some t) :
    builtinF r P .reSub [.str pat, .str repl, .str s, .bool true] = .ok (.str t) := by
  simp only [builtinF, h]; rfl

theorem mp_remove_alert_call (f : Nat) (msg : List Char) (hs : ∀ x ∈ msg, agreeWs x = true) :
    callF (mkRec P (f+3)) m_Server_remove_alert_word [.str msg] = .ok (.str (removeAlert msg), .str msg) := by
  rw [callF_def]
  simp only [m_Server_remove_alert_word, bindParams, Option.map]
  ppsimp [mapR, mp_alert_pattern, mp_reSub _ _ _ _ _ (sub_alert msg hs)]

/-- TRANSLATED `remove_alert_word` = MODEL on every text of the class, at every fuel ≥ 4 -/
theorem remove_alert_word_translated (msg : List Char) (hs : ∀ x ∈ msg, agreeWs x = true) :
    ∀ f, 4 ≤ f → callFn P f m_Server_remove_alert_word [.str msg] = .ok (.str (removeAlert msg), .str msg) := by
  intro f hf
  obtain ⟨g, rfl⟩ : ∃ g, f = g + 4 := ⟨f - 4, by omega⟩
  exact mp_remove_alert_call g msg hs

theorem remove_alert_word_translated_ascii (msg : List Char)
    (hs : ∀ x ∈ msg, x.toNat < 128 ∧ ¬ (0x1C ≤ x.toNat ∧ x.toNat ≤ 0x1F)) :
    ∀ f, 4 ≤ f → callFn P f m_Server_remove_alert_word [.str msg] = .ok (.str (removeAlert msg), .str msg) :=
  remove_alert_word_translated msg fun x hx => agreeWs_ascii x (hs x hx).1 (hs x hx).2

end Bridge.Translated.MsgParsers
