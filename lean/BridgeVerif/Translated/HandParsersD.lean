import BridgeVerif.Translated.HandParsersC
/-! Translated `Client.parse_hand` (client.py) = model, part D: the method at any sufficient fuel.

`parse_hand_translated`: for EVERY text whose characters are in the class `RegexMsgHand.agreeHand` (every ASCII text) on
which the model's `parseHand?` reads a hand, at every fuel ≥ 18 the generated `Client.parse_hand(content)` returns the pair
`(hand_set, tuple(hand_list))` where `hand_set` holds exactly the model's cards — the same cards as `parseHand?`, without
duplicates, in FIRST-occurrence order (a MiniPy set is a tuple in insertion order; the model's `dedupC` keeps the LAST
occurrences: a permutation) — and `hand_list` has slot `int(card)` set for each of them.  When the text names no card twice
(every `cardsMsg`), `hand_set` is literally `encCards` of the model's hand (`parse_hand_translated_nodup`).

NOT stated here: the converse (model `none` ⇒ the method raises).  It fails on a token with an explicit plus sign
(`int('+5') = 5` is a rank for Python and for the interpreter's `parseInt?`; the model's `decimal?` refuses it). -/
set_option maxRecDepth 4000
namespace Bridge.Translated.HandParsers
open Bridge Bridge.Py Bridge.Generated.PyCore Bridge.Translated Bridge.RegexHands Bridge.RegexMsgHand
open Bridge.Translated.HandsPbn

theorem hq_mth_parse_hand : P.method? classDepth n_Client n_parse_hand = some (n_Client, m_Client_parse_hand) := rfl

theorem hq_builtin_zip (r : Rec) (xs ys : List Val) :
    builtinF r P .zip [.tuple xs, .tuple ys] = .ok (.tuple ((xs.zip ys).map fun (x, y) => .tuple [x, y])) := rfl
theorem hq_builtin_tuple (r : Rec) (xs : List Val) : builtinF r P .tuple [.tuple xs] = .ok (.tuple xs) := rfl

theorem hq_enum_S : Val.enum n_Suit 4 = encSuit .S := rfl
theorem hq_enum_H : Val.enum n_Suit 3 = encSuit .H := rfl
theorem hq_enum_D : Val.enum n_Suit 2 = encSuit .D := rfl
theorem hq_enum_C : Val.enum n_Suit 1 = encSuit .C := rfl

theorem hq_zeros_len : zeros52.length = 52 := by simp [zeros52]
theorem hq_setBits_len (cs : List Card) : ∀ xs : List Val, (setBits cs xs).length = xs.length := by
  induction cs with
  | nil => intro xs; rfl
  | cons c cs ih => intro xs; simp only [setBits, List.foldl_cons] at ih ⊢; rw [ih, hd_replaceAt_length]

theorem hq_pat : HANDMSG_PATTERN = ['S', ' ', '(', '.', '*', ')', '\\', '.', ' ', 'H', ' ', '(', '.', '*', ')', '\\', '.', ' ', 'D', ' ', '(', '.', '*', ')', '\\', '.', ' ', 'C', ' ', '(', '.', '*', ')', '\\', '.', '\\', 's', '?'] := by
  decide +kernel

/-- the interpreter's hand: the raw cards in text order, first occurrences kept -/
def pyHand (a b c d : List Card) : List Card := dedupFirst (a ++ b ++ c ++ d)

theorem hq_parse_hand_call (f : Nat) (content : List Char) (hs : ∀ x ∈ content, agreeHand x = true)
    (g1 g2 g3 g4 : List Char) (hg : handGroups? content = some [g1, g2, g3, g4]) (a b c d : List Card)
    (ha : cardsOfGroup? g1 .S = some a) (hb : cardsOfGroup? g2 .H = some b) (hc : cardsOfGroup? g3 .D = some c)
    (hd : cardsOfGroup? g4 .C = some d) :
    callF (mkRec P (f+17)) m_Client_parse_hand [.str content]
      = .ok (.tuple [.tuple ((pyHand a b c d).map encCard), .tuple (setBits (a ++ b ++ c ++ d) zeros52)],
          .str content) := by
  have hfact := match_handmsg content hs
  rw [hg, Option.map_some] at hfact
  obtain ⟨g0, hpm⟩ := hq_pmb_some HANDMSG_PATTERN content [g1, g2, g3, g4] hfact
  simp only [hq_pat, List.map_cons, List.map_nil] at hpm
  rw [callF_def]
  simp only [m_Client_parse_hand, bindParams, Option.map]
  obtain ⟨t1, e1⟩ := hq_outer_step f (.str content) (.str HANDMSG_PATTERN)
    (.obj n__Match [(n_texts, .tuple [.str g0, .str g1, .str g2, .str g3, .str g4])]) .S g1 a ha [] zeros52 [] hq_zeros_len
    [.tuple [.tuple ((splitSp g2).map Val.str), encSuit .H], .tuple [.tuple ((splitSp g3).map Val.str), encSuit .D],
     .tuple [.tuple ((splitSp g4).map Val.str), encSuit .C]]
  obtain ⟨t2, e2⟩ := hq_outer_step f (.str content) (.str HANDMSG_PATTERN)
    (.obj n__Match [(n_texts, .tuple [.str g0, .str g1, .str g2, .str g3, .str g4])]) .H g2 b hb (a.foldl (fun acc c => if c ∈ acc then acc else acc ++ [c]) []) (setBits a zeros52) t1
    (by rw [hq_setBits_len]; exact hq_zeros_len)
    [.tuple [.tuple ((splitSp g3).map Val.str), encSuit .D], .tuple [.tuple ((splitSp g4).map Val.str), encSuit .C]]
  obtain ⟨t3, e3⟩ := hq_outer_step f (.str content) (.str HANDMSG_PATTERN)
    (.obj n__Match [(n_texts, .tuple [.str g0, .str g1, .str g2, .str g3, .str g4])]) .D g3 c hc (b.foldl (fun acc c => if c ∈ acc then acc else acc ++ [c]) (a.foldl (fun acc c => if c ∈ acc then acc else acc ++ [c]) [])) (setBits b (setBits a zeros52)) t2
    (by rw [hq_setBits_len, hq_setBits_len]; exact hq_zeros_len)
    [.tuple [.tuple ((splitSp g4).map Val.str), encSuit .C]]
  obtain ⟨t4, e4⟩ := hq_outer_step f (.str content) (.str HANDMSG_PATTERN)
    (.obj n__Match [(n_texts, .tuple [.str g0, .str g1, .str g2, .str g3, .str g4])]) .C g4 d hd (c.foldl (fun acc c => if c ∈ acc then acc else acc ++ [c]) (b.foldl (fun acc c => if c ∈ acc then acc else acc ++ [c]) (a.foldl (fun acc c => if c ∈ acc then acc else acc ++ [c]) []))) (setBits c (setBits b (setBits a zeros52))) t3
    (by rw [hq_setBits_len, hq_setBits_len, hq_setBits_len]; exact hq_zeros_len) []
  simp only [phOuter, m_Client_parse_hand, List.getD_cons_succ, List.getD_cons_zero, hq_pat, List.map_nil] at e1 e2 e3 e4
  ppsimp [hq_mth_pmb, hpm, hd_zeros, builtin_set_nil, hq_mth_groups, hq_groups_call, iterItems_tuple, compF,
    hq_builtin_split, hq_builtin_zip, List.map_cons, List.map_nil, hq_enum_S, hq_enum_H, hq_enum_D, hq_enum_C]
  rw [e1, e2, e3, e4]
  simp only [forF]
  ppsimp [hq_builtin_tuple]
  simp only [pyHand, dedupFirst, setBits, List.foldl_append]

/-- the cards of a hand text in text order, before the set is built: the four groups of the skeleton converted -/
def rawCards? (content : List Char) : Option (List Card) :=
  match handGroups? content with
  | some [g1, g2, g3, g4] =>
    (match cardsOfGroup? g1 .S, cardsOfGroup? g2 .H, cardsOfGroup? g3 .D, cardsOfGroup? g4 .C with
     | some a, some b, some c, some d => some (a ++ b ++ c ++ d)
     | _, _, _, _ => none)
  | _ => none

/-- the model's `parseHand?` is the set (last occurrences) of the raw cards -/
theorem parseHand_eq_raw (content : List Char) : parseHand? content = (rawCards? content).map dedupC := by
  rw [parseHand_eq_groups]
  unfold rawCards?
  split
  · rename_i g1 g2 g3 g4 hg
    simp only [hg]
    split
    · rename_i a b c d ha hb hc hd
      simp only [ha, hb, hc, hd, Option.map_some]
    · rename_i hno
      split
      · rename_i a b c d ha hb hc hd
        exact (hno a b c d ha hb hc hd).elim
      · rfl
  · rename_i hno
    split
    · rename_i g1 g2 g3 g4 hg
      exact (hno g1 g2 g3 g4 hg).elim
    · rfl

theorem hq_rawCards_some (content : List Char) (raw : List Card) (h : rawCards? content = some raw) :
    ∃ g1 g2 g3 g4 a b c d, handGroups? content = some [g1, g2, g3, g4] ∧ cardsOfGroup? g1 .S = some a ∧
      cardsOfGroup? g2 .H = some b ∧ cardsOfGroup? g3 .D = some c ∧ cardsOfGroup? g4 .C = some d ∧
      raw = a ++ b ++ c ++ d := by
  unfold rawCards? at h
  split at h
  · rename_i g1 g2 g3 g4 hg
    split at h
    · rename_i a b c d ha hb hc hd
      cases h
      exact ⟨g1, g2, g3, g4, a, b, c, d, hg, ha, hb, hc, hd, rfl⟩
    · cases h
  · cases h

/-- TRANSLATED `parse_hand` = MODEL (texts the model reads): for every text whose characters are in the class `agreeHand`
on which the model reads the cards `raw` (`parseHand? content = some (dedupC raw)`, `parseHand_eq_raw`), at every fuel ≥ 18
the generated `Client.parse_hand(content)` returns `(hand_set, tuple(hand_list))` with `hand_set` = `raw` without
duplicates in first-occurrence order, `hand_list` = 52 zeros with slot `int(card)` set for every card of `raw` -/
theorem parse_hand_translated (content : List Char) (hs : ∀ x ∈ content, agreeHand x = true) (raw : List Card)
    (h : rawCards? content = some raw) :
    ∀ f, 18 ≤ f → callFn P f m_Client_parse_hand [.str content]
      = .ok (.tuple [encCards (dedupFirst raw), .tuple (setBits raw zeros52)], .str content) := by
  obtain ⟨g1, g2, g3, g4, a, b, c, d, hg, ha, hb, hc, hd, rfl⟩ := hq_rawCards_some content raw h
  intro f hf
  obtain ⟨g, rfl⟩ : ∃ g, f = (g + 17) + 1 := ⟨f - 18, by omega⟩
  rw [callFn_eq_callF]
  exact hq_parse_hand_call g content hs g1 g2 g3 g4 hg a b c d ha hb hc hd

/-- … stated on the model's `parseHand?`: `hand_set` holds the model's cards — no duplicates, a permutation of the
model's hand -/
theorem parse_hand_translated_perm (content : List Char) (hs : ∀ x ∈ content, agreeHand x = true) (hand : List Card)
    (h : parseHand? content = some hand) :
    ∃ l hb, l.Nodup ∧ l.Perm hand ∧ ∀ f, 18 ≤ f → callFn P f m_Client_parse_hand [.str content]
      = .ok (.tuple [encCards l, hb], .str content) := by
  rw [parseHand_eq_raw] at h
  cases hr : rawCards? content with
  | none => rw [hr] at h; cases h
  | some raw =>
    rw [hr] at h
    simp only [Option.map_some, Option.some.injEq] at h
    subst h
    exact ⟨dedupFirst raw, _, jp_nodup_dedupFirst raw, jp_dedupFirst_perm raw, parse_hand_translated content hs raw hr⟩

theorem hq_dedupFirst_nodup (raw : List Card) (h : raw.Nodup) : dedupFirst raw = raw := by
  have := jp_fold_of_nodup raw [] (by simpa using h)
  simpa [dedupFirst] using this

theorem hq_dedupC_nodup (raw : List Card) (h : raw.Nodup) : dedupC raw = raw := by
  induction raw with
  | nil => rfl
  | cons x r ih =>
    have e : dedupC (x :: r) = if x ∈ dedupC r then dedupC r else x :: dedupC r := rfl
    rw [List.nodup_cons] at h
    rw [e, ih h.2, if_neg h.1]

/-- … when the text names no card twice (every `cardsMsg` of a hand), model and translated code return the SAME list:
`hand_set` is literally `encCards` of the model's hand — the form `dealParses` asks for -/
theorem parse_hand_translated_nodup (content : List Char) (hs : ∀ x ∈ content, agreeHand x = true) (raw : List Card)
    (h : rawCards? content = some raw) (hn : raw.Nodup) :
    parseHand? content = some raw ∧ ∀ f, 18 ≤ f → callFn P f m_Client_parse_hand [.str content]
      = .ok (.tuple [encCards raw, .tuple (setBits raw zeros52)], .str content) := by
  refine ⟨by rw [parseHand_eq_raw, h, Option.map_some, hq_dedupC_nodup raw hn], ?_⟩
  have := parse_hand_translated content hs raw h
  rwa [hq_dedupFirst_nodup raw hn] at this

/-- … in particular for every ASCII text -/
theorem parse_hand_translated_ascii (content : List Char) (hs : ∀ x ∈ content, x.toNat < 128) (raw : List Card)
    (h : rawCards? content = some raw) :
    ∀ f, 18 ≤ f → callFn P f m_Client_parse_hand [.str content]
      = .ok (.tuple [encCards (dedupFirst raw), .tuple (setBits raw zeros52)], .str content) :=
  parse_hand_translated content (fun x hx => agreeHand_ascii x (hs x hx)) raw h

end Bridge.Translated.HandParsers
