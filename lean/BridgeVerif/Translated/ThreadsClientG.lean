import BridgeVerif.Translated.ThreadsClientGLemmasB
/-!
# THE CAPSTONE FOR THE BUNDLED CLIENT, CLOSED: no parse hypothesis left

`ClientD.translated_client_is_session_program` / `…_consumes_everything` (the TRANSLATED `ClientThread.run`, fed what the
session's seat thread sends, performs exactly the session program `sessionProg sc (.client p)`) took two parse packages as
hypotheses — `connectParses` and `boardsParses`: on the messages received, the translated parsers return the encodings of
what the model's parsers return.  Both are DISCHARGED here for the session's streams, for every scenario, from the theorems
about the translated parsers on classes of texts (no kernel evaluation of instances):

* `session_connect_parses` : `connectParses N …` for every `N ≥ 31` (`ClientE.connectParses_all'`: every text);
* `session_boards_parses`  : `boardsParses N …` for every `N ≥ 31`, every scenario whose texts mean what was decided
  (`TextsConform`, a hypothesis of the capstone already), whose hands are `HandOK` (likewise), and whose player-worded texts
  (calls and cards — the table manager relays them: the calls with the alert removed, the cards as sent) are ASCII
  (`AsciiTexts`; implied by `MainE.AsciiTexts`).  Everything the table manager words itself — board header, own cards,
  lead prompts, dummy's cards, "Start of board", "End of session" — needs no hypothesis.
  The route: `MsgGood` for every message of the stream (Translated/ThreadsClientGLemmasB.lean), and the reactive client
  only consumes its streams (Translated/ThreadsClientGLemmasA.lean);
* `translated_client_is_session_program_closed`, `translated_client_consumes_everything_closed`,
  `translated_client_consumes_everything_of_handOK_closed` : the capstones at `N = 31` with no parse hypothesis;
* non-vacuity on `SeatD.exSc` and `ClientD.exSc13`.
-/
set_option maxRecDepth 4000
namespace Bridge.Translated.ClientG
open Bridge Bridge.Py Bridge.Generated.PyCore Bridge.Translated Bridge.Translated.ClientA Bridge.Translated.ClientB
open Bridge.Translated.ClientC Bridge.Translated.ClientD

/-- every text the players word (calls, cards) is ASCII -/
def AsciiTexts (sc : Scenario) : Prop :=
  ∀ bd ∈ sc.boards, (∀ x ∈ bd.2.calls, ∀ y ∈ x.2, y.toNat < 128) ∧ (∀ x ∈ bd.2.cards, ∀ y ∈ x.2, y.toNat < 128)

/-- the hypothesis of the main-thread capstone (`MainE.AsciiTexts`: ASCII without U+001C..U+001F) implies it -/
theorem asciiTexts_of_plain (sc : Scenario) (h : MainE.AsciiTexts sc) : AsciiTexts sc :=
  fun bd hbd => ⟨fun x hx y hy => ((h bd hbd).1 x hx y hy).1, fun x hx y hy => ((h bd hbd).2 x hx y hy).1⟩

/-- (1) `hp1` OF THE CAPSTONE HOLDS for the session's streams, every `N ≥ 31`, every reply -/
theorem session_connect_parses (sc : Scenario) (p : Seat) (N : Nat) (hN : 31 ≤ N) (reply : Text) :
    connectParses N ⟨reply :: sendsOn (Chan.s2c p) (sessionProg sc (.seat p)), scenarioOwnCalls sc p,
      scenarioOwnCards sc p⟩ :=
  ClientE.connectParses_all' N hN _

/-- every message of the session's `s2c p` stream after "Start of board" is `MsgGood` -/
theorem session_stream_good (sc : Scenario) (p : Seat)
    (hc : ∀ bd ∈ sc.boards, TextsConform bd.1 bd.2) (hd : ∀ bd ∈ sc.boards, ∀ q, HandOK (bd.1.deal q))
    (ha : AsciiTexts sc) :
    ∀ m ∈ (sendsOn (Chan.s2c p) (sessionProg sc (.seat p))).drop 2, MsgGood 31 p m := by
  intro m hm
  rw [session_s_eq] at hm
  simp only [List.drop_succ_cons, List.drop_zero] at hm
  exact boards_stream_good sc p sc.boards 1
    (fun bd hbd => ⟨hc bd hbd, hd bd hbd, (ha bd hbd).1, (ha bd hbd).2⟩) m hm

/-- (2) `hp2` OF THE CAPSTONE HOLDS for the session's streams of EVERY scenario whose texts mean what was decided, with
valid duplicate-free hands, and ASCII player-worded texts; every `N ≥ 31` -/
theorem session_boards_parses (sc : Scenario) (p : Seat) (N : Nat) (hN : 31 ≤ N)
    (hc : ∀ bd ∈ sc.boards, TextsConform bd.1 bd.2) (hd : ∀ bd ∈ sc.boards, ∀ q, HandOK (bd.1.deal q))
    (ha : AsciiTexts sc) :
    boardsParses N p ((sendsOn (Chan.s2c p) (sessionProg sc (.seat p))).length + 1)
      ⟨(sendsOn (Chan.s2c p) (sessionProg sc (.seat p))).drop 2, scenarioOwnCalls sc p, scenarioOwnCards sc p⟩ :=
  boardsParses_of_good N p _ _ (fun m hm => (session_stream_good sc p hc hd ha m hm).mono hN)
    (scenarioOwnCards_ok sc p hc)

/-- (3a) THE CAPSTONE, everything consumed, `HandOK` hands, NO PARSE HYPOTHESIS -/
theorem translated_client_consumes_everything_of_handOK_closed (sc : Scenario) (h : sc.boards ≠ []) (p : Seat)
    (hc : ∀ bd ∈ sc.boards, ConformingAuction bd.1 bd.2 ∧ ConformingPlay bd.1 bd.2 ∧ TextsConform bd.1 bd.2)
    (hb : BundledTexts sc p) (hd : ∀ bd ∈ sc.boards, ∀ q, HandOK (bd.1.deal q))
    (hn : NameOK sc.nsName ∧ NameOK sc.ewName) (ha : AsciiTexts sc)
    (reply : Text) (out : List Val) (opp : Val)
    (hreply : reply = seatedPlain p (ownName sc p) ∨ reply = seatedQuoted p (ownName sc p)) :
    ∃ ops extra', encClientActs p (sessionProg sc (.client p)) = some (eraseDecisions ops) ∧ DealtStar [] extra' ∧
      ∀ f, (sendsOn (Chan.s2c p) (sessionProg sc (.seat p))).length + (scenarioOwnCalls sc p).length + 31 + 178 ≤ f →
        callFn P f m_ClientThread_run
            [encClientThread p (encClientWorld (reply :: sendsOn (Chan.s2c p) (sessionProg sc (.seat p)))
              ((scenarioOwnCalls sc p).map encCall) ((scenarioOwnCards sc p).map encCard) out) (ownName sc p) opp []]
          = .ok (.none, encClientThread p (encClientWorld [] [] [] (out ++ connectOps p (ownName sc p) ++ ops))
              (ownName sc p) (.str (oppName sc p)) extra') :=
  translated_client_consumes_everything_of_handOK sc h p hc hb hd hn 31 reply out opp hreply
    (session_connect_parses sc p 31 (Nat.le_refl _) reply)
    (session_boards_parses sc p 31 (Nat.le_refl _) (fun bd hbd => (hc bd hbd).2.2) hd ha)

/-- (3b) THE CAPSTONE FOR THE BUNDLED CLIENT, NO PARSE HYPOTHESIS.  The hypotheses are those of
`C11.bundled_client_follows_the_messages` (at least one board; conforming decisions and texts; seat `p` played by the
bundled client; proper deals; team names without quote / line break) and `AsciiTexts sc`.  The connection delivers `reply`
(`… seated`, either form), then EXACTLY what the session's seat thread of `p` sends; the bidding and playing systems return
EXACTLY the scenario's own calls and cards of `p`.  For every fuel from the bound on, the generated `ClientThread.run`
returns `None`, having recorded `connectOps` followed by operations that are — apart from one `bidAsk` / `playAsk` per
decision — EXACTLY the rendering of `sessionProg sc (.client p)`. -/
theorem translated_client_is_session_program_closed (sc : Scenario) (h : sc.boards ≠ []) (p : Seat)
    (hc : ∀ bd ∈ sc.boards, ConformingAuction bd.1 bd.2 ∧ ConformingPlay bd.1 bd.2 ∧ TextsConform bd.1 bd.2)
    (hb : BundledTexts sc p)
    (hd : ∀ bd ∈ sc.boards, PartialDeal bd.1.deal ∧ ∀ q, (bd.1.deal q).length = 13)
    (hn : NameOK sc.nsName ∧ NameOK sc.ewName) (ha : AsciiTexts sc)
    (reply : Text) (out : List Val) (opp : Val)
    (hreply : reply = seatedPlain p (ownName sc p) ∨ reply = seatedQuoted p (ownName sc p)) :
    ∃ ops s' calls' cards' extra', encClientActs p (sessionProg sc (.client p)) = some (eraseDecisions ops) ∧
      DealtStar [] extra' ∧
      ∀ f, (sendsOn (Chan.s2c p) (sessionProg sc (.seat p))).length + (scenarioOwnCalls sc p).length + 31 + 178 ≤ f →
        callFn P f m_ClientThread_run
            [encClientThread p (encClientWorld (reply :: sendsOn (Chan.s2c p) (sessionProg sc (.seat p)))
              ((scenarioOwnCalls sc p).map encCall) ((scenarioOwnCards sc p).map encCard) out) (ownName sc p) opp []]
          = .ok (.none, encClientThread p (encClientWorld s' calls' cards' (out ++ connectOps p (ownName sc p) ++ ops))
              (ownName sc p) (.str (oppName sc p)) extra') :=
  translated_client_is_session_program sc h p hc hb hd hn 31 reply out opp hreply
    (session_connect_parses sc p 31 (Nat.le_refl _) reply)
    (session_boards_parses sc p 31 (Nat.le_refl _) (fun bd hbd => (hc bd hbd).2.2)
      (fun bd hbd q => handOK_of_deal bd.1 (hd bd hbd).1 q) ha)

/-- (3c) EVERYTHING IS CONSUMED, NO PARSE HYPOTHESIS: the final world has an empty connection stream and empty decision
streams -/
theorem translated_client_consumes_everything_closed (sc : Scenario) (h : sc.boards ≠ []) (p : Seat)
    (hc : ∀ bd ∈ sc.boards, ConformingAuction bd.1 bd.2 ∧ ConformingPlay bd.1 bd.2 ∧ TextsConform bd.1 bd.2)
    (hb : BundledTexts sc p)
    (hd : ∀ bd ∈ sc.boards, PartialDeal bd.1.deal ∧ ∀ q, (bd.1.deal q).length = 13)
    (hn : NameOK sc.nsName ∧ NameOK sc.ewName) (ha : AsciiTexts sc)
    (reply : Text) (out : List Val) (opp : Val)
    (hreply : reply = seatedPlain p (ownName sc p) ∨ reply = seatedQuoted p (ownName sc p)) :
    ∃ ops extra', encClientActs p (sessionProg sc (.client p)) = some (eraseDecisions ops) ∧ DealtStar [] extra' ∧
      ∀ f, (sendsOn (Chan.s2c p) (sessionProg sc (.seat p))).length + (scenarioOwnCalls sc p).length + 31 + 178 ≤ f →
        callFn P f m_ClientThread_run
            [encClientThread p (encClientWorld (reply :: sendsOn (Chan.s2c p) (sessionProg sc (.seat p)))
              ((scenarioOwnCalls sc p).map encCall) ((scenarioOwnCards sc p).map encCard) out) (ownName sc p) opp []]
          = .ok (.none, encClientThread p (encClientWorld [] [] [] (out ++ connectOps p (ownName sc p) ++ ops))
              (ownName sc p) (.str (oppName sc p)) extra') :=
  translated_client_consumes_everything_of_handOK_closed sc h p hc hb
    (fun bd hbd q => handOK_of_deal bd.1 (hd bd hbd).1 q) hn ha reply out opp hreply

/-! ## non-vacuity -/
open Bridge.Translated.SeatD (exSc exBoard exDecisions exSc_boards)

instance (sc : Scenario) : Decidable (AsciiTexts sc) := by unfold AsciiTexts; infer_instance

theorem ex_ascii : AsciiTexts exSc := by decide +kernel
theorem ex13_ascii : AsciiTexts exSc13 := by decide +kernel

/-- (4) the closed capstone on `SeatD.exSc` (one board, passed out, empty hands), South's client: every hypothesis
discharged, no kernel evaluation of a translated parser -/
example : ∃ ops extra', encClientActs .S (sessionProg exSc (.client .S)) = some (eraseDecisions ops) ∧
    DealtStar [] extra' ∧
    ∀ f, 8 + 1 + 31 + 178 ≤ f →
      callFn P f m_ClientThread_run
          [encClientThread .S (encClientWorld ("South Alpha seated".toList ::
              ["Teams : N/S : \"Alpha\" E/W : \"Beta\"".toList, "Start of board".toList,
               "Board number 1. Dealer North. Neither vulnerable.".toList, "South's cards : S -. H -. D -. C -.".toList,
               "North passes".toList, "East passes".toList, "West passes".toList, "End of session".toList])
            [encCall .pass] [] []) "Alpha".toList .none []]
        = .ok (.none, encClientThread .S (encClientWorld [] [] [] ([] ++ connectOps .S "Alpha".toList ++ ops))
            "Alpha".toList (.str "Beta".toList) extra') := by
  have hall : ∀ bd ∈ exSc.boards, ConformingAuction bd.1 bd.2 ∧ ConformingPlay bd.1 bd.2 ∧ TextsConform bd.1 bd.2 := by
    intro bd hbd
    simp only [exSc, List.mem_singleton] at hbd
    subst hbd
    exact ⟨ex_auction, ex_play, ex_texts⟩
  have hhands : ∀ bd ∈ exSc.boards, ∀ q, HandOK (bd.1.deal q) := by
    intro bd hbd q
    simp only [exSc, List.mem_singleton] at hbd
    subst hbd
    exact ⟨List.nodup_nil, fun c hc => absurd hc List.not_mem_nil⟩
  have hnames : NameOK exSc.nsName ∧ NameOK exSc.ewName := by
    show NameOK "Alpha".toList ∧ NameOK "Beta".toList
    unfold NameOK
    decide +kernel
  obtain ⟨ops, extra', ho, hd, hx⟩ := translated_client_consumes_everything_of_handOK_closed exSc exSc_boards .S hall
    ex_bundled hhands hnames ex_ascii "South Alpha seated".toList [] .none (Or.inl (by decide +kernel))
  refine ⟨ops, extra', ho, hd, fun f hf => ?_⟩
  have := hx f (by rw [ex_s2c, ex_calls]; exact hf)
  rw [ex_s2c, ex_calls, ex_cards] at this
  exact this

/-- (4') the closed capstones as stated on `ClientD.exSc13` (thirteen cards each), South's client, the request answered in
the quoted form -/
example : ∃ ops extra', encClientActs .S (sessionProg exSc13 (.client .S)) = some (eraseDecisions ops) ∧
    DealtStar [] extra' ∧
    ∀ f, 8 + 1 + 31 + 178 ≤ f →
      callFn P f m_ClientThread_run
          [encClientThread .S (encClientWorld ("South (\"Alpha\") seated".toList ::
              ["Teams : N/S : \"Alpha\" E/W : \"Beta\"".toList, "Start of board".toList,
               "Board number 1. Dealer North. Neither vulnerable.".toList,
               "South's cards : S -. H -. D A K Q J T 9 8 7 6 5 4 3 2. C -.".toList,
               "North passes".toList, "East passes".toList, "West passes".toList, "End of session".toList])
            [encCall .pass] [] []) "Alpha".toList .none []]
        = .ok (.none, encClientThread .S (encClientWorld [] [] [] ([] ++ connectOps .S "Alpha".toList ++ ops))
            "Alpha".toList (.str "Beta".toList) extra') := by
  have hall : ∀ bd ∈ exSc13.boards, ConformingAuction bd.1 bd.2 ∧ ConformingPlay bd.1 bd.2 ∧ TextsConform bd.1 bd.2 := by
    intro bd hbd
    simp only [exSc13, List.mem_singleton] at hbd
    subst hbd
    exact ⟨ex13_auction, ex13_play, ex13_texts⟩
  have hhands : ∀ bd ∈ exSc13.boards, PartialDeal bd.1.deal ∧ ∀ q, (bd.1.deal q).length = 13 := by
    intro bd hbd
    simp only [exSc13, List.mem_singleton] at hbd
    subst hbd
    exact ex13_deal
  have hnames : NameOK exSc13.nsName ∧ NameOK exSc13.ewName := by
    show NameOK "Alpha".toList ∧ NameOK "Beta".toList
    unfold NameOK
    decide +kernel
  obtain ⟨ops, extra', ho, hd, hx⟩ := translated_client_consumes_everything_closed exSc13 (List.cons_ne_nil _ _) .S hall
    ex13_bundled hhands hnames ex13_ascii "South (\"Alpha\") seated".toList [] .none (Or.inr (by decide +kernel))
  refine ⟨ops, extra', ho, hd, fun f hf => ?_⟩
  have := hx f (by rw [ex13_s2c, ex13_calls]; exact hf)
  rw [ex13_s2c, ex13_calls, ex13_cards] at this
  exact this

end Bridge.Translated.ClientG
