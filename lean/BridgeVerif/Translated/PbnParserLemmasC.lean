import BridgeVerif.Translated.PbnParserLemmasB
/-! Translated PBN parser = model: `extract_content` (recursive; induction on the fuel) -/
namespace Bridge.Translated
open Bridge Bridge.Py Bridge.Generated.PyCore Bridge.RegexPbn

/-- `extract_content` at an arbitrary fuel: four levels per character of the string (every recursive call is made on a
shorter string, four levels further down) -/
theorem pp_extract_call (hf : PbnRegexFacts) (n : Nat) : ∀ (f k : Nat) (st : PbnSt) (cl cb : List Str) (s : Str),
    s.length < n → s.length < k →
    ∃ cl' cb', callF (mkRec P (f + 4 * n + 16)) m_PbnParser_extract_content [encPbnParser st cl cb, .str s]
      = .ok (.none, encPbnParser (extractContent k st s) cl' cb') := by
  induction n with
  | zero => intro f k st cl cb s h; omega
  | succ n ih =>
    intro f k st cl cb s hn hk
    have e : f + 4 * (n + 1) + 16 = (f + 4 * n + 16) + 4 := by omega
    rw [e]
    cases k with
    | zero => omega
    | succ k =>
    rw [pp_ec_succ]
    obtain ⟨ic, buf⟩ := st
    cases s with
    | nil =>
      refine ⟨cl, cb, ?_⟩
      rw [callF_def]
      simp only [m_PbnParser_extract_content, bindParams, Option.map, encPbnParser]
      ppsimp [pp_truthy_str]
    | cons c0 s0 =>
    generalize hs : c0 :: s0 = s at *
    have hne : s.isEmpty = false := by rw [← hs]; rfl
    simp only [hne, Bool.false_eq_true, if_false]
    cases ic with
    | true =>
      simp only [if_true]
      cases hsp : splitAtChar '}' s with
      | none =>
        refine ⟨cl, cb ++ [s], ?_⟩
        rw [callF_def]
        simp only [m_PbnParser_extract_content, bindParams, Option.map, encPbnParser]
        ppsimp [pp_truthy_str, hne, pp_in1, hsp]
        sorry
      | some ab => sorry
    | false => sorry

end Bridge.Translated
